/-
  Helper lemmas for C09: tables of fixed-shape entries, the tag loops of
  dynamic.py, string-table lookups, the PT_LOAD address map, symbol counts.
-/
import PyElf.Proofs.Fixed
import PyElf.Proofs.Utils
import PyElf.Spec.Dynamic
import PyElf.Model.Dynamic
namespace PyElf.Proofs.Dynamic
open PyElf PyElf.Spec PyElf.Spec.Dynamic PyElf.Model PyElf.Model.Dynamic PyElf.Proofs

/-! ### tables of fixed-shape entries -/

theorem encAll_nil (c : Con) : encAll c [] = some [] := by
  simp [encAll]

theorem encAll_cons {c : Con} {x : Val} {xs : List Val} {bs : Bytes} (h : encAll c (x :: xs) = some bs) :
    ∃ b bs', c.encodeRaw x = some b ∧ encAll c xs = some bs' ∧ bs = b ++ bs' := by
  simp only [encAll, List.mapM_cons, bind, Option.bind, pure] at h
  cases hb : c.encodeRaw x with
  | none => simp [hb] at h
  | some b =>
    simp only [hb] at h
    cases hbs : List.mapM c.encodeRaw xs with
    | none => simp [hbs] at h
    | some bss =>
      simp only [hbs, Option.some.injEq] at h
      refine ⟨b, bss.flatten, rfl, ?_, ?_⟩
      · simp [encAll, hbs, bind, Option.bind, pure]
      · rw [← h]; simp

/-- entry `i` of a table of fixed-shape entries stored at `off` parses to its decoded value -/
theorem parse_entry (env : Env) (c : Con) (hc : c.fixed = true) (sz : Nat) (hsz : c.sizeof = some sz) :
    ∀ (xs : List Val) (bs : Bytes), encAll c xs = some bs →
      ∀ (data : Bytes) (off : Nat) (rest : Bytes), data.drop off = bs ++ rest →
        ∀ (i : Nat) (hi : i < xs.length),
          Con.parse env data c [] (off + i * sz)
            = (c.decodeRaw env [] xs[i]).map (fun v => (v, off + i * sz + sz, [])) := by
  intro xs
  induction xs with
  | nil => intro bs _ data off rest _ i hi; simp at hi
  | cons x xs ih =>
    intro bs he data off rest hd i hi
    obtain ⟨b, bs', hb, hbs', rfl⟩ := encAll_cons he
    have hlen : b.length = sz := by
      have := encodeRaw_length c hc x b hb
      rw [hsz] at this; exact (Option.some.inj this).symm
    cases i with
    | zero =>
      have hd' : data.drop off = b ++ (bs' ++ rest) := by simpa [List.append_assoc] using hd
      have := rt_con env c hc x b hb data off (bs' ++ rest) [] hd'
      simpa [hlen] using this
    | succ i =>
      have hd' : data.drop off = b ++ (bs' ++ rest) := by simpa [List.append_assoc] using hd
      have hd2 : data.drop (off + sz) = bs' ++ rest := by
        have := drop_add_of_drop hd'
        rwa [hlen] at this
      have := ih bs' hbs' data (off + sz) rest hd2 i (by simpa using hi)
      have e : off + sz + i * sz = off + (i + 1) * sz := by rw [Nat.add_mul]; omega
      rw [e] at this
      simpa using this

theorem encAll_length (c : Con) (hc : c.fixed = true) (sz : Nat) (hsz : c.sizeof = some sz) :
    ∀ (xs : List Val) (bs : Bytes), encAll c xs = some bs → bs.length = xs.length * sz := by
  intro xs
  induction xs with
  | nil => intro bs h; simp [encAll_nil] at h; subst h; simp
  | cons x xs ih =>
    intro bs he
    obtain ⟨b, bs', hb, hbs', rfl⟩ := encAll_cons he
    have hlen : b.length = sz := by
      have := encodeRaw_length c hc x b hb
      rw [hsz] at this; exact (Option.some.inj this).symm
    rw [List.length_append, ih bs' hbs', hlen, List.length_cons, Nat.add_mul]; omega

theorem seekCheck_ok {pos : Nat} (h : pos < 2 ^ 63) : seekCheck pos = .ok () := by
  unfold seekCheck
  have : ¬ pos ≥ 2 ^ 63 := by omega
  simp [this]

/-- `struct_parse(entry_struct, stream, stream_pos = off + i * size)` on a stored table -/
theorem structParseAt_entry (env : Env) (c : Con) (hc : c.fixed = true) (sz : Nat) (hsz : c.sizeof = some sz)
    (xs : List Val) (bs : Bytes) (he : encAll c xs = some bs)
    (data : Bytes) (off : Nat) (rest : Bytes) (hd : data.drop off = bs ++ rest) (hsmall : data.length < 2 ^ 63)
    (hszpos : 0 < sz) (i : Nat) (hi : i < xs.length) :
    structParseAt env c data (off + i * sz)
      = (c.decodeRaw env [] xs[i]).map (fun v => (v, off + i * sz + sz)) := by
  have hbl := encAll_length c hc sz hsz xs bs he
  have hpos : off + i * sz < 2 ^ 63 := by
    have h1 : (i + 1) * sz ≤ xs.length * sz := Nat.mul_le_mul_right _ hi
    have h2 : (i + 1) * sz = i * sz + sz := by rw [Nat.add_mul]; omega
    have := congrArg List.length hd
    simp at this; omega
  rw [structParseAt_eq hpos]
  unfold structParse
  simp only [bind, Except.bind]
  rw [parse_entry env c hc sz hsz xs bs he data off rest hd i hi]
  cases c.decodeRaw env [] xs[i] <;> simp [Except.map, pure, Except.pure]

/-! ### the dynamic entry structure -/

/-- the gABI `ElfN_Dyn`: signed native-word tag named through the tag table, native-word value -/
def dynCon (le : Bool) (w : Nat) (tbl : String) : Con :=
  st [f "d_tag" (enumOf (.sint w le) tbl), f "d_val" (.uint w le), f "d_ptr" (.value (ctx "d_val"))]

theorem spec_dyn (c : ElfCfg) :
    (elfStructs c).Elf_Dyn = dynCon c.le (c.cls / 8) (dTagTable c.mclass c.solaris) := rfl

/-- a tag code as the reader reports it: its name in the table, else the number -/
def decTag (env : Env) (tbl : String) (t : Int) : Val :=
  match env.enumDecode tbl t with
  | some s => .str s
  | none => .int t

def decEntry (env : Env) (tbl : String) (t : Int × Nat) : Val :=
  .record [("d_tag", decTag env tbl t.1), ("d_val", .int t.2), ("d_ptr", .int t.2)]

theorem decodeRaw_enum_int (env : Env) (sub : Con) (tbl : String) (ctx : Fields) (n : Int) :
    Con.decodeRaw env (.enum sub tbl true) ctx (.int n)
      = .ok (match env.enumDecode tbl n with | some s => .str s | none => .int n) := by
  rw [Con.decodeRaw]
  cases env.enumDecode tbl n <;> rfl

theorem decodeRaw_dyn (env : Env) (le : Bool) (w : Nat) (tbl : String) (t : Int × Nat) :
    (dynCon le w tbl).decodeRaw env [] (rawTag t) = .ok (decEntry env tbl t) := by
  simp only [dynCon, st, mkFields, f, enumOf, ctx, rawTag, Con.decodeRaw, ConFields.decodeRaw, Fields.get?,
    Option.getD, bind, Except.bind]
  cases h : env.enumDecode tbl t.1 <;>
    simp [h, decodeRaw_enum_int, decEntry, decTag, Fields.set, Expr.eval, Fields.getR, Fields.get?, pure, Except.pure]

theorem dyn_fixed (le : Bool) (w : Nat) (tbl : String) (hw : 1 ≤ w) : (dynCon le w tbl).fixed = true := by
  simp [dynCon, st, mkFields, f, enumOf, Con.fixed, ConFields.fixed, hw]

theorem dyn_sizeof (le : Bool) (w : Nat) (tbl : String) : (dynCon le w tbl).sizeof = some (2 * w) := by
  simp [dynCon, st, mkFields, f, enumOf, Con.sizeof, ConFields.sizeof, bind, Option.bind]
  omega

/-! ### a `Dynamic` object looking at a stored table -/

/-- the object `d` reads a table holding `tags` (terminator and trailing entries included) -/
structure TableView (S : ElfStructs) (data : Bytes) (d : Dyn) (le : Bool) (w : Nat) (tbl : String)
    (tags : List (Int × Nat)) : Prop where
  con : S.Elf_Dyn = dynCon le w tbl
  wpos : 1 ≤ w
  nonempty : d.empty = false
  tagsize : d.tagsize = 2 * w
  placed : ∃ bs rest, encAll (dynCon le w tbl) (tags.map rawTag) = some bs ∧ data.drop d.offset = bs ++ rest
  small : data.length < 2 ^ 63

section view
variable {env : Env} {S : ElfStructs} {data : Bytes} {d : Dyn} {le : Bool} {w : Nat} {tbl : String}
  {tags : List (Int × Nat)}

theorem getTagRaw_view (V : TableView S data d le w tbl tags) (i : Nat) (hi : i < tags.length) :
    getTagRaw env S data d i = .ok (decEntry env tbl tags[i]) := by
  obtain ⟨bs, rest, he, hd⟩ := V.placed
  unfold getTagRaw
  simp only [V.nonempty, V.con, V.tagsize, Bool.false_eq_true, if_false]
  have := structParseAt_entry env (dynCon le w tbl) (dyn_fixed le w tbl V.wpos) (2 * w) (dyn_sizeof le w tbl)
    (tags.map rawTag) bs he data d.offset rest hd V.small (by have := V.wpos; omega) i (by simpa using hi)
  simp only [pure, Except.pure, bind, Except.bind]
  rw [this]
  simp [decodeRaw_dyn, Except.map]

theorem tagFuel_ge (V : TableView S data d le w tbl tags) : tags.length + 2 ≤ tagFuel data d := by
  obtain ⟨bs, rest, he, hd⟩ := V.placed
  have hl := encAll_length (dynCon le w tbl) (dyn_fixed le w tbl V.wpos) (2 * w) (dyn_sizeof le w tbl) _ _ he
  have h2 := congrArg List.length hd
  simp at h2 hl
  unfold tagFuel
  rw [V.tagsize]
  have hw := V.wpos
  have : tags.length ≤ (data.length - d.offset) / (2 * w) := by
    rw [Nat.le_div_iff_mul_le (by omega)]
    omega
  omega

theorem getField_tag (t : Int × Nat) : (decEntry env tbl t).getField "d_tag" = .ok (decTag env tbl t.1) := by
  simp [decEntry, Val.getField, Fields.getR, Fields.get?]

theorem getNat_val (t : Int × Nat) : (decEntry env tbl t).getNat "d_val" = .ok t.2 := by
  simp [decEntry, Val.getNat, Val.getField, Fields.getR, Fields.get?, Val.asNat, Val.asInt, bind, Except.bind]

theorem getNat_ptr (t : Int × Nat) : (decEntry env tbl t).getNat "d_ptr" = .ok t.2 := by
  simp [decEntry, Val.getNat, Val.getField, Fields.getR, Fields.get?, Val.asNat, Val.asInt, bind, Except.bind]

/-- the facts about the tag table the loops rely on: only code 0 is called DT_NULL -/
def NullIs (env : Env) (tbl : String) : Prop :=
  ∀ t : Int, isStr (decTag env tbl t) "DT_NULL" = (t == DT_NULL)

/-- `_iter_tags(type)` consumed to its first element: the first live entry of that type -/
theorem firstTagRaw_go (V : TableView S data d le w tbl tags) (hnull : NullIs env tbl)
    (type : Option String) (p : Int → Bool) (hp : ∀ t, tagMatches type (decTag env tbl t) = p t) :
    ∀ (suffix : List (Int × Nat)) (n fuel : Nat), tags.drop n = suffix → hasTerminator suffix = true →
      suffix.length ≤ fuel →
      firstTagRaw.go env S data d type fuel n
        = .ok (((liveTags suffix).find? (fun t => p t.1)).map (decEntry env tbl)) := by
  intro suffix
  induction suffix with
  | nil => intro n fuel _ ht; simp [hasTerminator] at ht
  | cons t rest ih =>
    intro n fuel hdrop hterm hfuel
    cases fuel with
    | zero => simp at hfuel
    | succ fuel =>
      have hn : n < tags.length := by
        rcases Nat.lt_or_ge n tags.length with h | h
        · exact h
        · have : tags.drop n = [] := List.drop_eq_nil_of_le h
          rw [this] at hdrop; cases hdrop
      have ht : tags[n] = t := by
        have h1 : (tags.drop n)[0]? = some t := by rw [hdrop]; rfl
        rw [List.getElem?_drop] at h1
        have h2 : tags[n]? = some tags[n] := List.getElem?_eq_getElem hn
        simp only [Nat.add_zero] at h1
        rw [h2] at h1
        exact Option.some.inj h1
      have hrest : tags.drop (n + 1) = rest := by
        rw [← List.drop_drop, hdrop]; rfl
      have hnl : isStr (decTag env tbl t.1) "DT_NULL" = (t.1 == DT_NULL) := hnull t.1
      rw [firstTagRaw.go]
      simp only [getTagRaw_view V n hn, ht, bind, Except.bind, getField_tag, hp, hnl]
      by_cases hm : p t.1 = true
      · have hl : (liveTags (t :: rest)).find? (fun t => p t.1) = some t := by
          unfold liveTags; split <;> simp [hm]
        simp [hm, hl, pure, Except.pure]
      · have hm' : p t.1 = false := by simpa using hm
        by_cases h0 : t.1 = DT_NULL
        · have hb : (t.1 == DT_NULL) = true := by simpa using h0
          have hl : liveTags (t :: rest) = [t] := by simp [liveTags, h0]
          simp [hm', hb, hl, pure, Except.pure]
        · have hb : (t.1 == DT_NULL) = false := by simpa using h0
          have hterm' : hasTerminator rest = true := by
            simpa [hasTerminator, hb] using hterm
          have hl : liveTags (t :: rest) = t :: liveTags rest := by simp [liveTags, h0]
          simp only [hm', hb, Bool.false_eq_true, if_false]
          rw [ih (n + 1) fuel hrest hterm' (by simpa using hfuel)]
          simp [hl, hm']

theorem firstTagRaw_view (V : TableView S data d le w tbl tags) (hnull : NullIs env tbl)
    (hterm : hasTerminator tags = true)
    (type : Option String) (p : Int → Bool) (hp : ∀ t, tagMatches type (decTag env tbl t) = p t) :
    firstTagRaw env S data d type
      = .ok (((liveTags tags).find? (fun t => p t.1)).map (decEntry env tbl)) := by
  unfold firstTagRaw
  simp only [V.nonempty, Bool.false_eq_true, if_false]
  exact firstTagRaw_go V hnull type p hp tags 0 _ (by simp) hterm (by have := tagFuel_ge V; omega)

end view

/-! ### the PT_LOAD address map -/

/-- a decoded program header with the four fields the address map reads -/
def PhdrOk (h : Val) : Prop :=
  ∃ ty va fsz po, h.getField "p_type" = .ok ty ∧ h.getNat "p_vaddr" = .ok va ∧
    h.getNat "p_filesz" = .ok fsz ∧ h.getNat "p_offset" = .ok po

/-- the file object hands out the program headers `hs` (what C01 establishes for the container) -/
structure SegsView (ifc : FileIfc) (hs : List Val) : Prop where
  num : ifc.numSegments = .ok hs.length
  get : ∀ (i : Nat) (hi : i < hs.length), ∃ k, ifc.getSegment i = .ok (k, hs[i])
  ok : ∀ h ∈ hs, PhdrOk h

theorem isStr_eq_isName (v : Val) (n : String) : isStr v n = isName v n := rfl

theorem addressOffset_go (ifc : FileIfc) (hs : List Val) (V : SegsView ifc hs) (a : Nat) :
    ∀ (k i : Nat), i + k = hs.length →
      addressOffsetFirst.go ifc a k i = .ok ((offsetsOf (hs.drop i) a).head?) := by
  intro k
  induction k with
  | zero =>
    intro i hi
    have : hs.drop i = [] := List.drop_eq_nil_of_le (by omega)
    simp [addressOffsetFirst.go, this, offsetsOf, pure, Except.pure]
  | succ k ih =>
    intro i hi
    have hlt : i < hs.length := by omega
    obtain ⟨kind, hget⟩ := V.get i hlt
    obtain ⟨ty, va, fsz, po, h1, h2, h3, h4⟩ := V.ok hs[i] (List.getElem_mem hlt)
    have hdrop : hs.drop i = hs[i] :: hs.drop (i + 1) := List.drop_eq_getElem_cons hlt
    have hlo : loadOffset hs[i] a
        = if isName ty "PT_LOAD" && decide (va ≤ a) && decide (a < va + fsz)
          then some (a - va + po) else none := by
      simp only [loadOffset, h1, h2, h3, h4]
    rw [addressOffsetFirst.go]
    simp only [hget, bind, Except.bind, h1, h2, h3, h4, isStr_eq_isName]
    rw [hdrop, offsetsOf, List.filterMap_cons, hlo]
    by_cases hty : isName ty "PT_LOAD" = true
    · simp only [hty, if_true, Bool.true_and]
      by_cases hin : (a ≥ va && a + 1 ≤ va + fsz) = true
      · have h' : (decide (va ≤ a) && decide (a < va + fsz)) = true := by
          simp at hin ⊢; omega
        simp [hin, h', pure, Except.pure]
      · have hin' : (a ≥ va && a + 1 ≤ va + fsz) = false := by simpa using hin
        have h' : (decide (va ≤ a) && decide (a < va + fsz)) = false := by
          simp at hin' ⊢; omega
        simp only [hin', h', Bool.false_eq_true, if_false]
        rw [ih (i + 1) (by omega)]; rfl
    · have hty' : isName ty "PT_LOAD" = false := by simpa using hty
      simp only [hty', Bool.false_eq_true, if_false, Bool.false_and]
      rw [ih (i + 1) (by omega)]; rfl

/-- `next(elffile.address_offsets(a), None)` is the PT_LOAD map of the gABI -/
theorem addressOffsetFirst_eq (ifc : FileIfc) (hs : List Val) (V : SegsView ifc hs) (a : Nat) :
    addressOffsetFirst ifc a = .ok (mapAddr hs a) := by
  unfold addressOffsetFirst
  simp only [V.num, bind, Except.bind]
  rw [addressOffset_go ifc hs V a hs.length 0 (by simp)]
  simp [mapAddr]

/-! ### string tables -/

theorem firstNul_append_of_some {a : Bytes} {s : Bytes} (r : Bytes) (h : firstNul a = some s) :
    firstNul (a ++ r) = some s := by
  induction a generalizing s with
  | nil => simp [firstNul] at h
  | cons b a ih =>
    by_cases hb : b = 0
    · simp [firstNul, hb] at h ⊢; exact h
    · simp only [firstNul, hb, if_false, List.cons_append] at h ⊢
      cases hf : firstNul a with
      | none => simp [hf] at h
      | some s' =>
        simp [hf] at h
        simp [ih hf, h]

theorem firstNul_some_lt {a s : Bytes} (h : firstNul a = some s) : s.length < a.length := by
  induction a generalizing s with
  | nil => simp [firstNul] at h
  | cons b a ih =>
    by_cases hb : b = 0
    · simp [firstNul, hb] at h; subst h; simp
    · simp only [firstNul, hb, if_false] at h
      cases hf : firstNul a with
      | none => simp [hf] at h
      | some s' =>
        simp [hf] at h
        subst h
        have := ih hf
        simp; omega

/-- reading the C string at `tableOff + v` of a file that stores `strtab` at `tableOff` -/
theorem parseCStringAt_strtab {data strtab rest s : Bytes} {toff v : Nat}
    (hd : data.drop toff = strtab ++ rest) (hs : strAt strtab v = some s) (hsmall : data.length < 2 ^ 63) :
    parseCStringAt data (toff + v) = .ok (some s) := by
  have hv : v < strtab.length := by
    have := firstNul_some_lt hs
    simp at this; omega
  have hlen : toff + strtab.length ≤ data.length := by
    have := congrArg List.length hd
    simp at this; omega
  have hdrop : data.drop (toff + v) = strtab.drop v ++ rest := by
    rw [← List.drop_drop, hd, List.drop_append_of_le_length (Nat.le_of_lt hv)]
  unfold parseCStringAt
  rw [seekCheck_ok (by omega)]
  simp only [bind, Except.bind]
  have := cstringChunkLoop_eq data 64 (by omega) (data.length - (toff + v) + 2) (toff + v) [] (by omega)
  unfold parseCStringFromStream
  rw [this, hdrop, firstNul_append_of_some rest hs]
  simp

theorem getString_section {data strtab rest s : Bytes} {hdr : Val} {toff v : Nat}
    (hoff : hdr.getNat "sh_offset" = .ok toff)
    (hd : data.drop toff = strtab ++ rest) (hs : strAt strtab v = some s) (hsmall : data.length < 2 ^ 63) :
    (StrTab.section "StringTableSection" hdr).getString data v = .ok s := by
  simp only [StrTab.getString, Model.getString, hoff, bind, Except.bind, bne_self_eq_false, Bool.false_eq_true, if_false]
  rw [parseCStringAt_strtab hd hs hsmall]
  rfl

theorem getString_dynamic {data strtab rest s : Bytes} {toff v : Nat}
    (hd : data.drop toff = strtab ++ rest) (hs : strAt strtab v = some s) (hsmall : data.length < 2 ^ 63) :
    (StrTab.dynamic toff).getString data v = .ok s := by
  simp only [StrTab.getString, bind, Except.bind]
  rw [parseCStringAt_strtab hd hs hsmall]
  rfl

/-! ### `get_table_offset`, `_get_stringtable`, `DynamicTag` -/

/-- in the tag table, exactly code `c` bears the name `name` -/
def TagIs (env : Env) (tbl : String) (name : String) (c : Int) : Prop :=
  ∀ t : Int, isStr (decTag env tbl t) name = (t == c)

section view2
variable {env : Env} {S : ElfStructs} {data : Bytes} {d : Dyn} {le : Bool} {w : Nat} {tbl : String}
  {tags : List (Int × Nat)} {ifc : FileIfc} {hs : List Val}

theorem find_map_snd (l : List (Int × Nat)) (c : Int) :
    (l.find? (fun t => t.1 == c)).map (·.2) = firstVal l c := rfl

theorem getTableOffset_view (V : TableView S data d le w tbl tags) (hnull : NullIs env tbl)
    (hterm : hasTerminator tags = true) (SV : SegsView ifc hs)
    (name : String) (c : Int) (hname : TagIs env tbl name c) :
    getTableOffset env S data ifc d name
      = .ok (firstVal (liveTags tags) c, (firstVal (liveTags tags) c).bind (mapAddr hs)) := by
  unfold getTableOffset
  rw [firstTagRaw_view V hnull hterm (some name) (fun t => t == c) (by intro t; exact hname t)]
  simp only [bind, Except.bind, firstVal]
  cases hf : (liveTags tags).find? (fun t => t.1 == c) with
  | none => simp [pure, Except.pure]
  | some t =>
    simp only [Option.map_some, getNat_ptr, addressOffsetFirst_eq ifc hs SV]
    simp [pure, Except.pure]

/-- the string table a section-less (or offset-mismatched) object falls back to: the one the
    DT_STRTAB pointer designates through the loadable segments -/
theorem getStringtable_pointer (V : TableView S data d le w tbl tags) (hnull : NullIs env tbl)
    (hterm : hasTerminator tags = true) (SV : SegsView ifc hs)
    (hstrtab : TagIs env tbl "DT_STRTAB" DT_STRTAB) (hnone : d.strtab = none)
    {a o : Nat} (ha : firstVal (liveTags tags) DT_STRTAB = some a) (ho : mapAddr hs a = some o) :
    getStringtable env S data ifc d = .ok (some (.dynamic o)) := by
  unfold getStringtable
  simp only [hnone]
  rw [getTableOffset_view V hnull hterm SV "DT_STRTAB" DT_STRTAB hstrtab]
  simp [ha, ho, bind, Except.bind, pure, Except.pure]

/-- the string table handed to the constructor is used as is -/
theorem getStringtable_given {tab : StrTab} (h : d.strtab = some tab) :
    getStringtable env S data ifc d = .ok (some tab) := by
  unfold getStringtable
  simp [h, pure, Except.pure]

/-- what the reader must show for one entry, given where the strings are -/
def obsEntry (env : Env) (tbl : String) (sunw : Bool) (strtab : Bytes) (t : Int × Nat) : DTag :=
  ⟨decEntry env tbl t, (stringAttr sunw t.1).map fun a => (a, (strAt strtab t.2).getD [])⟩

/-- the handled tags are exactly the string-valued tags of the standard -/
def AttrIs (env : Env) (tbl : String) (sunw : Bool) : Prop :=
  ∀ t : Int, handledAttr (decTag env tbl t) = stringAttr sunw t

/-- `tab` serves the strings of `strtab` (for the offsets that name a terminated string) -/
def Serves (data : Bytes) (tab : StrTab) (strtab : Bytes) : Prop :=
  ∀ (v : Nat) (s : Bytes), strAt strtab v = some s → tab.getString data v = .ok s

theorem mkTag_view {st : R (Option StrTab)} {tab : StrTab} {sunw : Bool} {strtab : Bytes}
    (hst : st = .ok (some tab)) (hattr : AttrIs env tbl sunw) (hserve : Serves data tab strtab)
    (t : Int × Nat) (hok : (stringAttr sunw t.1).isNone ∨ (strAt strtab t.2).isSome) :
    mkTag data st (decEntry env tbl t) = .ok (obsEntry env tbl sunw strtab t) := by
  unfold mkTag
  simp only [hst, bind, Except.bind, getField_tag, hattr t.1, obsEntry]
  cases ha : stringAttr sunw t.1 with
  | none => simp [pure, Except.pure]
  | some a =>
    have : (strAt strtab t.2).isSome := by
      rcases hok with h | h
      · simp [ha] at h
      · exact h
    obtain ⟨s, hs⟩ := Option.isSome_iff_exists.mp this
    simp [getNat_val, hserve t.2 s hs, hs, pure, Except.pure]

/-- every string-valued live entry names a terminated string of the table -/
def StringsOk (sunw : Bool) (strtab : Bytes) (l : List (Int × Nat)) : Prop :=
  ∀ t ∈ l, (stringAttr sunw t.1).isNone ∨ (strAt strtab t.2).isSome

theorem liveTags_cons_null {t : Int × Nat} {rest : List (Int × Nat)} (h : t.1 = DT_NULL) :
    liveTags (t :: rest) = [t] := by simp [liveTags, h]

theorem liveTags_cons_ne {t : Int × Nat} {rest : List (Int × Nat)} (h : t.1 ≠ DT_NULL) :
    liveTags (t :: rest) = t :: liveTags rest := by simp [liveTags, h]

theorem drop_step {α} {l : List α} {n : Nat} {t : α} {rest : List α} (hdrop : l.drop n = t :: rest) :
    ∃ hn : n < l.length, l[n] = t ∧ l.drop (n + 1) = rest := by
  have hn : n < l.length := by
    rcases Nat.lt_or_ge n l.length with h | h
    · exact h
    · have : l.drop n = [] := List.drop_eq_nil_of_le h
      rw [this] at hdrop; cases hdrop
  refine ⟨hn, ?_, ?_⟩
  · have h1 : (l.drop n)[0]? = some t := by rw [hdrop]; rfl
    rw [List.getElem?_drop] at h1
    have h2 : l[n]? = some l[n] := List.getElem?_eq_getElem hn
    simp only [Nat.add_zero] at h1
    rw [h2] at h1
    exact Option.some.inj h1
  · rw [← List.drop_drop, hdrop]; rfl

theorem iterTags_go (V : TableView S data d le w tbl tags) (hnull : NullIs env tbl)
    {st : R (Option StrTab)} {tab : StrTab} {sunw : Bool} {strtab : Bytes}
    (hst : st = .ok (some tab)) (hattr : AttrIs env tbl sunw) (hserve : Serves data tab strtab) :
    ∀ (suffix : List (Int × Nat)) (n fuel : Nat) (acc : List DTag), tags.drop n = suffix →
      hasTerminator suffix = true → suffix.length ≤ fuel → StringsOk sunw strtab (liveTags suffix) →
      foldTags.go env S data d none (fun acc t => Except.ok (t :: acc)) st fuel n acc
        = .ok (((liveTags suffix).map (obsEntry env tbl sunw strtab)).reverse ++ acc) := by
  intro suffix
  induction suffix with
  | nil => intro n fuel acc _ ht; simp [hasTerminator] at ht
  | cons t rest ih =>
    intro n fuel acc hdrop hterm hfuel hstr
    cases fuel with
    | zero => simp at hfuel
    | succ fuel =>
      obtain ⟨hn, ht, hrest⟩ := drop_step hdrop
      have hnl : isStr (decTag env tbl t.1) "DT_NULL" = (t.1 == DT_NULL) := hnull t.1
      have hmk := mkTag_view (env := env) (tbl := tbl) hst hattr hserve t
      rw [foldTags.go]
      simp only [getTagRaw_view V n hn, ht, bind, Except.bind, getField_tag, tagMatches, if_true, hnl]
      by_cases h0 : t.1 = DT_NULL
      · have hb : (t.1 == DT_NULL) = true := by simpa using h0
        have hl := liveTags_cons_null (rest := rest) h0
        rw [hmk (hstr t (by rw [hl]; simp))]
        simp [hb, hl, pure, Except.pure]
      · have hb : (t.1 == DT_NULL) = false := by simpa using h0
        have hl := liveTags_cons_ne (rest := rest) h0
        have hterm' : hasTerminator rest = true := by simpa [hasTerminator, hb] using hterm
        rw [hmk (hstr t (by rw [hl]; simp))]
        simp only [hb, pure, Except.pure, Bool.false_eq_true, if_false]
        rw [ih (n + 1) fuel _ hrest hterm' (by simpa using hfuel)
          (by intro x hx; exact hstr x (by rw [hl]; exact List.mem_cons_of_mem _ hx))]
        simp [hl]

/-- `list(iter_tags())`: the entries up to and including the first DT_NULL, each with its string -/
theorem iterTags_view (V : TableView S data d le w tbl tags) (hnull : NullIs env tbl)
    (hterm : hasTerminator tags = true) {tab : StrTab} {sunw : Bool} {strtab : Bytes}
    (hst : getStringtable env S data ifc d = .ok (some tab)) (hattr : AttrIs env tbl sunw)
    (hserve : Serves data tab strtab) (hstr : StringsOk sunw strtab (liveTags tags)) :
    iterTags env S data ifc d none = .ok ((liveTags tags).map (obsEntry env tbl sunw strtab)) := by
  unfold iterTags foldTags
  simp only [V.nonempty, Bool.false_eq_true, if_false, bind, Except.bind, pure, Except.pure]
  rw [iterTags_go V hnull hst hattr hserve tags 0 _ [] (by simp) hterm (by have := tagFuel_ge V; omega) hstr]
  simp

theorem numTags_go (V : TableView S data d le w tbl tags) (hnull : NullIs env tbl)
    {tab : StrTab} {sunw : Bool} {strtab : Bytes}
    (hst : getStringtable env S data ifc d = .ok (some tab)) (hattr : AttrIs env tbl sunw)
    (hserve : Serves data tab strtab) :
    ∀ (suffix : List (Int × Nat)) (n fuel : Nat), tags.drop n = suffix →
      hasTerminator suffix = true → suffix.length ≤ fuel → StringsOk sunw strtab (liveTags suffix) →
      numTags.go env S data ifc d fuel n = .ok (n + (liveTags suffix).length) := by
  intro suffix
  induction suffix with
  | nil => intro n fuel _ ht; simp [hasTerminator] at ht
  | cons t rest ih =>
    intro n fuel hdrop hterm hfuel hstr
    cases fuel with
    | zero => simp at hfuel
    | succ fuel =>
      obtain ⟨hn, ht, hrest⟩ := drop_step hdrop
      have hnl : isStr (decTag env tbl t.1) "DT_NULL" = (t.1 == DT_NULL) := hnull t.1
      have hmk := mkTag_view (env := env) (tbl := tbl) hst hattr hserve t
      rw [numTags.go]
      unfold getTag
      simp only [getTagRaw_view V n hn, ht, bind, Except.bind]
      by_cases h0 : t.1 = DT_NULL
      · have hb : (t.1 == DT_NULL) = true := by simpa using h0
        have hl := liveTags_cons_null (rest := rest) h0
        rw [hmk (hstr t (by rw [hl]; simp))]
        simp [obsEntry, getField_tag, hnl, hb, hl, pure, Except.pure]
      · have hb : (t.1 == DT_NULL) = false := by simpa using h0
        have hl := liveTags_cons_ne (rest := rest) h0
        have hterm' : hasTerminator rest = true := by simpa [hasTerminator, hb] using hterm
        rw [hmk (hstr t (by rw [hl]; simp))]
        simp only [obsEntry, getField_tag, hnl, hb, Bool.false_eq_true, if_false]
        rw [ih (n + 1) fuel hrest hterm' (by simpa using hfuel)
          (by intro x hx; exact hstr x (by rw [hl]; exact List.mem_cons_of_mem _ hx))]
        simp [hl]; omega

/-- `num_tags()` counts the entries up to and including the first DT_NULL -/
theorem numTags_view (V : TableView S data d le w tbl tags) (hnull : NullIs env tbl)
    (hterm : hasTerminator tags = true) {tab : StrTab} {sunw : Bool} {strtab : Bytes}
    (hst : getStringtable env S data ifc d = .ok (some tab)) (hattr : AttrIs env tbl sunw)
    (hserve : Serves data tab strtab) (hstr : StringsOk sunw strtab (liveTags tags)) :
    numTags env S data ifc d = .ok (liveTags tags).length := by
  unfold numTags
  simp only [V.nonempty, Bool.false_eq_true, if_false]
  rw [numTags_go V hnull hst hattr hserve tags 0 _ (by simp) hterm (by have := tagFuel_ge V; omega) hstr]
  simp

end view2

/-! ### hash tables: the symbol count -/

theorem encWords_cons (le : Bool) (n x : Nat) (xs : List Nat) :
    encWords le n (x :: xs) = encNat le n x ++ encWords le n xs := by
  simp [encWords]

theorem encWords_length (le : Bool) (n : Nat) (xs : List Nat) : (encWords le n xs).length = xs.length * n := by
  induction xs with
  | nil => simp [encWords]
  | cons x xs ih => rw [encWords_cons, List.length_append, ih, encNat_length, List.length_cons, Nat.add_mul]; omega

/-- `Array(count, Elf_word)` over stored words -/
theorem arrayLoop_words (env : Env) (data : Bytes) (le : Bool) (n : Nat) (ctx : Fields) (rest : Bytes) :
    ∀ (xs : List Nat) (pos : Nat) (acc : List Val), data.drop pos = encWords le n xs ++ rest →
      arrayLoop (fun p c => Con.parse env data (.uint n le) c p) xs.length pos ctx acc
        = .ok (.list (acc.reverse ++ xs.map fun x => .int ((x % 256 ^ n : Nat) : Int)), pos + xs.length * n, ctx) := by
  intro xs
  induction xs with
  | nil => intro pos acc _; simp [arrayLoop]
  | cons x xs ih =>
    intro pos acc hd
    rw [encWords_cons, List.append_assoc] at hd
    have hd' : data.drop (pos + n) = encWords le n xs ++ rest := by
      have := drop_add_of_drop hd
      rwa [encNat_length] at this
    simp only [List.length_cons, arrayLoop]
    rw [parse_uint_ok hd (encNat_length le n x), decNat_encNat]
    simp only
    rw [ih (pos + n) _ hd']
    simp [Nat.add_mul]; omega

/-- the gABI hash table header and arrays -/
def hashCon (le : Bool) : Con :=
  st [f "nbuckets" (.uint 4 le), f "nchains" (.uint 4 le),
      f "buckets" (.array (ctx "nbuckets") (.uint 4 le)), f "chains" (.array (ctx "nchains") (.uint 4 le))]

theorem spec_hash (c : ElfCfg) : (elfStructs c).Elf_Hash = hashCon c.le := rfl

theorem mod_of_lt32 {x : Nat} (h : x < 2 ^ 32) : x % 256 ^ 4 = x := Nat.mod_eq_of_lt (by omega)

theorem parseFields_named (env : Env) (data : Bytes) (nm : String) (c : Con) (rest : ConFields)
    (obj ctx : Fields) (pos : Nat) :
    Con.parseFields env data (.cons (some nm) false c rest) obj ctx pos
      = (Con.parse env data c ctx pos).bind fun r =>
          Con.parseFields env data rest (Fields.set obj nm r.1) (Fields.set r.2.2 nm r.1) r.2.1 := by
  rw [Con.parseFields]
  simp only [Bool.false_eq_true, if_false, bind]
  try (cases Con.parse env data c ctx pos with
    | error e => rfl
    | ok r => obtain ⟨v, p, c'⟩ := r; rfl)

theorem parse_struct (env : Env) (data : Bytes) (fs : ConFields) (ctx : Fields) (pos : Nat) :
    Con.parse env data (.struct fs) ctx pos
      = (Con.parseFields env data fs [] [] pos).bind fun r => .ok (.record r.1, r.2.1, ctx) := by
  rw [Con.parse]
  simp only [bind]
  cases Con.parseFields env data fs [] [] pos with
  | error e => rfl
  | ok r => obtain ⟨o, p, c'⟩ := r; rfl

theorem parse_array_ctx (env : Env) (data : Bytes) (k : String) (sub : Con) (ctx : Fields) (pos : Nat) (n : Nat)
    (hk : Fields.get? ctx k = some (.int n)) :
    Con.parse env data (.array (.ctx k) sub) ctx pos
      = arrayLoop (fun p c => Con.parse env data sub c p) n pos ctx [] := by
  rw [Con.parse]
  simp [Expr.eval, Fields.getR, hk, Val.asInt, bind, Except.bind]

/-- parsing a stored SysV hash table yields its `nchain` -/
theorem parse_hash (env : Env) (le : Bool) (h : SysvHash) (hb : h.buckets.length < 2 ^ 32)
    (hc : h.chains.length < 2 ^ 32) (data : Bytes) (off : Nat) (rest : Bytes)
    (hd : data.drop off = h.enc le ++ rest) :
    ∃ v p, Con.parse env data (hashCon le) [] off = .ok (v, p, []) ∧ v.getNat "nchains" = .ok h.chains.length := by
  unfold SysvHash.enc at hd
  simp only [List.append_assoc] at hd
  have hd1 := hd
  have hd2 : data.drop (off + 4) = encNat le 4 h.chains.length ++ (encWords le 4 h.buckets ++ (encWords le 4 h.chains ++ rest)) := by
    have := drop_add_of_drop hd1; rwa [encNat_length] at this
  have hd3 : data.drop (off + 4 + 4) = encWords le 4 h.buckets ++ (encWords le 4 h.chains ++ rest) := by
    have := drop_add_of_drop hd2; rwa [encNat_length] at this
  have hd4 : data.drop (off + 4 + 4 + h.buckets.length * 4) = encWords le 4 h.chains ++ rest := by
    have := drop_add_of_drop hd3; rwa [encWords_length] at this
  have p1 := fun ctx => parse_uint_ok (env := env) (le := le) (ctx := ctx) hd1 (encNat_length le 4 _)
  simp only [decNat_encNat, mod_of_lt32 hb] at p1
  have p2 := fun ctx => parse_uint_ok (env := env) (le := le) (ctx := ctx) hd2 (encNat_length le 4 _)
  simp only [decNat_encNat, mod_of_lt32 hc] at p2
  have a3 := fun ctx => arrayLoop_words env data le 4 ctx _ h.buckets (off + 4 + 4) [] hd3
  have a4 := fun ctx => arrayLoop_words env data le 4 ctx _ h.chains (off + 4 + 4 + h.buckets.length * 4) [] hd4
  simp only [hashCon, st, mkFields, f, ctx]
  rw [parse_struct, parseFields_named, p1]
  simp only [Except.bind]
  rw [parseFields_named, p2]
  simp only [Except.bind]
  rw [parseFields_named, parse_array_ctx (n := h.buckets.length) (hk := by simp [Fields.set, Fields.get?]), a3]
  simp only [Except.bind]
  rw [parseFields_named, parse_array_ctx (n := h.chains.length) (hk := by simp [Fields.set, Fields.get?]), a4]
  simp only [Except.bind, Con.parseFields]
  refine ⟨_, _, rfl, ?_⟩
  simp [Fields.set, Val.getNat, Val.getField, Fields.getR, Fields.get?, Val.asNat, Val.asInt, bind, Except.bind]

theorem sysvNumSymbols_eq (env : Env) (S : ElfStructs) (le : Bool) (hS : S.Elf_Hash = hashCon le)
    (h : SysvHash) (hb : h.buckets.length < 2 ^ 32) (hc : h.chains.length < 2 ^ 32)
    (data : Bytes) (off : Nat) (rest : Bytes) (hd : data.drop off = h.enc le ++ rest)
    (hsmall : data.length < 2 ^ 63) :
    sysvNumSymbols env S data off = .ok h.chains.length := by
  obtain ⟨v, p, hp, hn⟩ := parse_hash env le h hb hc data off rest hd
  have hoff : off < 2 ^ 63 := by
    have := congrArg List.length hd
    simp [SysvHash.enc, encNat_length] at this
    omega
  unfold sysvNumSymbols
  rw [structParseAt_eq hoff]
  unfold structParse
  rw [hS]
  simp only [bind, Except.bind, hp, pure, Except.pure, hn]

/-! ### symbols -/

theorem rangeMapM_ok {α : Type} (f : Nat → R α) (g : Nat → α) :
    ∀ (k i : Nat) (acc : List α), (∀ j, i ≤ j → j < i + k → f j = .ok (g j)) →
      rangeMapM f k i acc = .ok (acc.reverse ++ (List.range' i k).map g) := by
  intro k
  induction k with
  | zero => intro i acc _; simp [rangeMapM]
  | succ k ih =>
    intro i acc h
    rw [rangeMapM, h i (Nat.le_refl _) (by omega)]
    simp only
    rw [ih (i + 1) _ (fun j h1 h2 => h j (by omega) (by omega))]
    simp [List.range'_succ]

/-- the symbol table `d` designates holds `syms`; `es` are the decoded entries -/
structure SymView (env : Env) (S : ElfStructs) (data : Bytes) (symOff : Nat) (syms : List Fields) (es : List Val) : Prop where
  fixed : S.Elf_Sym.fixed = true
  size : ∃ sz, S.Elf_Sym.sizeof = some sz ∧ 0 < sz
  placed : ∃ bs rest, encAll S.Elf_Sym (syms.map .record) = some bs ∧ data.drop symOff = bs ++ rest
  len : es.length = syms.length
  dec : ∀ (i : Nat) (h1 : i < syms.length) (h2 : i < es.length),
    S.Elf_Sym.decodeRaw env [] (.record syms[i]) = .ok es[i] ∧ es[i].getNat "st_name" = .ok (getNatD syms[i] "st_name")

section symbols
variable {env : Env} {S : ElfStructs} {data : Bytes} {d : Dyn} {le : Bool} {w : Nat} {tbl : String}
  {tags : List (Int × Nat)} {ifc : FileIfc} {hs : List Val}

theorem getSymbol_view (V : TableView S data d le w tbl tags) (hnull : NullIs env tbl)
    (hterm : hasTerminator tags = true) (SV : SegsView ifc hs)
    (hsymtab : TagIs env tbl "DT_SYMTAB" DT_SYMTAB)
    {a symOff : Nat} (ha : firstVal (liveTags tags) DT_SYMTAB = some a) (ho : mapAddr hs a = some symOff)
    {syms : List Fields} {es : List Val} (Y : SymView env S data symOff syms es)
    {tab : StrTab} {strtab : Bytes} (hst : getStringtable env S data ifc d = .ok (some tab))
    (hserve : Serves data tab strtab)
    (i : Nat) (h1 : i < syms.length) (h2 : i < es.length)
    (hname : (strAt strtab (getNatD syms[i] "st_name")).isSome) :
    getSymbol env S data ifc d i = .ok ((strAt strtab (getNatD syms[i] "st_name")).getD [], es[i]) := by
  obtain ⟨sz, hsz, hpos⟩ := Y.size
  obtain ⟨bs, rest, he, hd⟩ := Y.placed
  obtain ⟨hdec, hnm⟩ := Y.dec i h1 h2
  obtain ⟨s, hs'⟩ := Option.isSome_iff_exists.mp hname
  unfold getSymbol
  rw [getTableOffset_view V hnull hterm SV "DT_SYMTAB" DT_SYMTAB hsymtab]
  simp only [ha, ho, bind, Except.bind, Option.bind, sizeofR, hsz, hst]
  have := structParseAt_entry env S.Elf_Sym Y.fixed sz hsz (syms.map .record) bs he data symOff rest hd V.small hpos i
    (by simpa using h1)
  rw [this]
  simp only [List.getElem_map, hdec, Except.map, hnm, hserve _ s hs', hs', Option.getD, pure, Except.pure]

/-- `list(iter_symbols())` when the count is `n` -/
theorem iterSymbols_of_count {iterSegs : R (List (String × Val))} {n : Nat} {g : Nat → Bytes × Val}
    (hnum : numSymbols env S data ifc d iterSegs le = .ok n)
    (hget : ∀ i, i < n → getSymbol env S data ifc d i = .ok (g i)) :
    iterSymbols env S data ifc d iterSegs le = .ok ((List.range n).map g) := by
  unfold iterSymbols
  simp only [hnum, bind, Except.bind]
  rw [rangeMapM_ok _ g n 0 [] (fun j _ hj => hget j (by omega))]
  simp [List.range_eq_range']

/-- `num_symbols()` with a SysV hash table and no GNU one: `nchain` -/
theorem numSymbols_sysv (V : TableView S data d le w tbl tags) (hnull : NullIs env tbl)
    (hterm : hasTerminator tags = true) (SV : SegsView ifc hs)
    (hgnu : TagIs env tbl "DT_GNU_HASH" DT_GNU_HASH) (hhash : TagIs env tbl "DT_HASH" DT_HASH)
    {iterSegs : R (List (String × Val))} {le' : Bool} {sz : Nat} (hsz : S.Elf_Sym.sizeof = some sz)
    (hnog : firstVal (liveTags tags) DT_GNU_HASH = none)
    {a o : Nat} (ha : firstVal (liveTags tags) DT_HASH = some a) (ho : mapAddr hs a = some o)
    (hS : S.Elf_Hash = hashCon le') (h : SysvHash) (hb : h.buckets.length < 2 ^ 32) (hc : h.chains.length < 2 ^ 32)
    {rest : Bytes} (hd : data.drop o = h.enc le' ++ rest) :
    numSymbols env S data ifc d iterSegs le' = .ok h.chains.length := by
  unfold numSymbols
  rw [getTableOffset_view V hnull hterm SV "DT_GNU_HASH" DT_GNU_HASH hgnu,
      getTableOffset_view V hnull hterm SV "DT_HASH" DT_HASH hhash]
  simp only [sizeofR, hsz, hnog, ha, ho, bind, Except.bind, Option.bind]
  exact sysvNumSymbols_eq env S le' hS h hb hc data o rest hd V.small

end symbols

end PyElf.Proofs.Dynamic
