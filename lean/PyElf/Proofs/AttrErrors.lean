/-
  C20, malformed build-attributes sections: exact error behaviour of the walk.

    * stepping lemmas (`attributesLoop_step`, `subsubLoop_step`, `subsecLoop_step`): a well-formed
      prefix of attributes / sub-subsections / subsections is walked exactly as `attrs_roundtrip`
      says, WHATEVER the end the loop is heading for and whatever follows;
    * `attrs_unknown_tag`: the first malformation in document order is an unknown tag → ELFParseError;
    * `attrs_size_overrun`: `sh_size` (the section header's claim) exceeds what the file holds, the
      file ending with the last subsection → every subsection is walked, then ELFParseError.
-/
import PyElf.Spec.AttrMalformed
import PyElf.Proofs.Attrs
namespace PyElf.Proofs.C20
open PyElf PyElf.Spec PyElf.Spec.Attr PyElf.Spec.C20 PyElf.Model PyElf.Model.Attr PyElf.Proofs PyElf.Proofs.Attrs

/-! ### the tag of an attribute -/

theorem parse_tagStruct_unknown {env : Env} {data : Bytes} {pos : Nat} {rest : Bytes} {u : U} {tbl : String}
    (hu : u.wf = true) (hd : data.drop pos = u.enc ++ rest)
    (hn : env.enumDecode tbl (u.v : Int) = none) :
    structParse env (.struct (.cons (some "tag") false (.enum .uleb tbl false) .nil)) data pos
      = .error .elfParseError := by
  have h1 := parse_uleb_ok (env := env) (ctx := []) hd (U_valid hu)
  rw [U_val hu, U_enc_length] at h1
  have h2 : Con.parse env data (.enum .uleb tbl false) [] pos = .error .elfParseError := by
    rw [Con.parse, h1]
    simp only [bind, Except.bind, hn, Bool.false_eq_true, if_false]
  unfold structParse
  rw [Con.parse]
  simp only [Con.parseFields, h2, bind, Except.bind, Bool.false_eq_true, if_false]

theorem parse_hdrStruct_eof {env : Env} {data : Bytes} {le : Bool} {pos : Nat} (hp : data.length ≤ pos) :
    structParse env (.struct (.cons (some "length") false (.uint 4 le) (.cons (some "vendor_name") false .cstring .nil))) data pos
      = .error .elfParseError := by
  have h1 : Con.parse env data (.uint 4 le) [] pos = .error .elfParseError :=
    parse_uint_short (bs := []) (List.drop_eq_nil_of_le hp) (by simp)
  unfold structParse
  rw [Con.parse]
  simp only [Con.parseFields, h1, bind, Except.bind, Bool.false_eq_true, if_false]

section
variable {arch : Arch} {env : Env} {cfg : ElfCfg} {data : Bytes}
  (henv : ∀ t : Nat, env.enumDecode (tagTableId arch) (t : Int) = tagName arch t)
include henv

/-- an attribute whose tag number is not in the table: `Enum` has no default → ELFParseError -/
theorem attributeAt_unknown {pos : Nat} {rest : Bytes} {u : U} (hu : u.wf = true)
    (hn : tagName arch u.v = none) (hd : data.drop pos = u.enc ++ rest) :
    attributeAt arch env (Spec.elfStructs cfg) data pos = .error .elfParseError := by
  cases arch with
  | arm =>
    have hfuel : data.length - pos + 2 = (data.length - pos + 1) + 1 := rfl
    rw [attributeAt, hfuel, armAttribute, S_armTag,
      parse_tagStruct_unknown (tbl := "ENUM_ATTR_TAG_ARM") hu hd ((henv u.v).trans hn)]
    rfl
  | riscv =>
    rw [attributeAt, riscvAttribute, S_riscvTag,
      parse_tagStruct_unknown (tbl := "ENUM_ATTR_TAG_RISCV") hu hd ((henv u.v).trans hn)]
    rfl

/-- the scope header of a sub-subsection, from the facts about the header alone -/
theorem attributeAt_scope_hdr {pos : Nat} {rest : Bytes} {s : SubSub} (hu : s.tag.wf = true)
    (hk : kind arch s.tag.v = some .scope) (hnums : s.tag.v ≠ 1 → ∀ u ∈ s.nums, u.wf = true ∧ u.v ≠ 0)
    (hsz : s.size < 2 ^ 32)
    (hd : data.drop pos = s.tag.enc ++ (encNat cfg.le 4 s.size ++ (numsBytes s ++ rest))) :
    attributeAt arch env (Spec.elfStructs cfg) data pos
      = .ok (hdrObj arch s, pos + s.tag.n + 4 + (numsBytes s).length) := by
  have hd2 : data.drop (pos + s.tag.n) = encNat cfg.le 4 s.size ++ (numsBytes s ++ rest) := by
    have := drop_add_of_drop hd
    rwa [U_enc_length] at this
  have common : ∀ (tag : Val), tagIn tag ["TAG_FILE"] = (s.tag.v == 1) →
      scopeBranch env (Spec.elfStructs cfg) data tag (pos + s.tag.n)
        = .ok ({ tag, value := .int s.size,
                 extra := if s.tag.v = 1 then .none else .list (s.nums.map fun u => .int u.v), valueIsStr := false },
               pos + s.tag.n + 4 + (numsBytes s).length) := by
    intro tag hfile
    by_cases h1 : s.tag.v = 1
    · have hd' : data.drop (pos + s.tag.n) = encNat cfg.le 4 s.size ++ rest := by rw [hd2]; simp [numsBytes, h1]
      rw [scopeBranch_file (by rw [hfile]; simp [h1]) hsz hd']
      simp [numsBytes, h1]
    · have hd' : data.drop (pos + s.tag.n) = encNat cfg.le 4 s.size ++ (encNums s.nums ++ rest) := by
        rw [hd2]; simp [numsBytes, h1]
      rw [scopeBranch_nums (by rw [hfile]; simp [h1]) hsz (hnums h1) hd']
      simp [numsBytes, h1]
  cases arch with
  | arm =>
    obtain ⟨name, hn, h1, h2, -, -, -⟩ := kind_arm hk
    have hfuel : data.length - pos + 2 = (data.length - pos + 1) + 1 := rfl
    rw [attributeAt, hfuel, armAttribute, S_armTag,
      parse_tagStruct (tbl := "ENUM_ATTR_TAG_ARM") hu hd ((henv s.tag.v).trans hn)]
    simp only [bind, Except.bind, getField_tag, h1]
    rw [if_pos (by decide), common _ h2, hdrObj, nameVal_of hn]
  | riscv =>
    obtain ⟨name, hn, h1, h2, -, -⟩ := kind_riscv hk
    rw [attributeAt, riscvAttribute, S_riscvTag,
      parse_tagStruct (tbl := "ENUM_ATTR_TAG_RISCV") hu hd ((henv s.tag.v).trans hn)]
    simp only [bind, Except.bind, getField_tag, h1]
    rw [if_pos (by decide), common _ h2, hdrObj, nameVal_of hn]

/-! ### stepping over a well-formed prefix -/

/-- the attribute loop walks a well-formed list of attributes whatever end it is heading for -/
theorem attributesLoop_step :
    ∀ (as : List Attribute) (fuel pos : Nat) (acc : List Val) (rest : Bytes) (end_ : Nat),
      (∀ x ∈ as, attrWf arch x = true) → data.drop pos = encAttrs as ++ rest →
      pos + (encAttrs as).length ≤ end_ →
      attributesLoop (attributeAt arch env (Spec.elfStructs cfg) data) end_ (fuel + as.length) pos acc
        = attributesLoop (attributeAt arch env (Spec.elfStructs cfg) data) end_ fuel (pos + (encAttrs as).length)
            ((as.map (obsAttr arch)).reverse ++ acc) := by
  intro as
  induction as with
  | nil => intro fuel pos acc rest end_ _ _ _; simp [encAttrs]
  | cons x as ih =>
    intro fuel pos acc rest end_ hwf hd hle
    have hx := hwf x (by simp)
    have hpos := encAttr_length_pos hx
    have hd' : data.drop pos = encAttr x ++ (encAttrs as ++ rest) := by
      rw [hd, encAttrs_cons, List.append_assoc]
    have hd2 := drop_add_of_drop hd'
    obtain ⟨obj, ho, hv⟩ := attributeAt_attr (cfg := cfg) henv hx hd'
    have e : pos + (encAttrs (x :: as)).length = pos + (encAttr x).length + (encAttrs as).length := by
      rw [encAttrs_cons, List.length_append]; omega
    rw [show fuel + (x :: as).length = (fuel + as.length) + 1 from rfl, attributesLoop,
      if_neg (by rw [e] at hle; omega), ho]
    simp only [bind, Except.bind]
    rw [ih fuel _ _ rest end_ (fun y hy => hwf y (by simp [hy])) hd2 (by rw [e] at hle; exact hle), hv, e]
    simp

/-- the sub-subsection loop walks a well-formed list of sub-subsections whatever end it is heading for -/
theorem subsubLoop_step :
    ∀ (ss : List SubSub) (fuel offset : Nat) (acc : List Val) (rest : Bytes) (end_ : Nat),
      (∀ s ∈ ss, subSubWf arch s = true) → data.drop offset = encSubSubs cfg.le ss ++ rest →
      offset + (encSubSubs cfg.le ss).length ≤ end_ →
      subsubLoop (attributeAt arch env (Spec.elfStructs cfg) data) data.length end_ (fuel + ss.length) offset acc
        = subsubLoop (attributeAt arch env (Spec.elfStructs cfg) data) data.length end_ fuel
            (offset + (encSubSubs cfg.le ss).length) ((ss.map (obsSubSub arch)).reverse ++ acc) := by
  intro ss
  induction ss with
  | nil => intro fuel offset acc rest end_ _ _ _; simp [encSubSubs]
  | cons s ss ih =>
    intro fuel offset acc rest end_ hwf hd hle
    have hs := hwf s (by simp)
    obtain ⟨-, -, -, -, hattrs, -⟩ := subSubWf_iff hs
    have hd' : data.drop offset = s.tag.enc ++ (encNat cfg.le 4 s.size ++ (numsBytes s ++
        (encAttrs s.attrs ++ (encSubSubs cfg.le ss ++ rest)))) := by
      rw [hd, encSubSubs_cons, encSubSub, body_eq]; simp only [List.append_assoc]
    have hd2 : data.drop (offset + s.tag.n + 4 + (numsBytes s).length)
        = encAttrs s.attrs ++ (encSubSubs cfg.le ss ++ rest) := by
      have h := drop_add_of_drop hd'
      rw [U_enc_length] at h
      have h := drop_add_of_drop h
      rw [encNat_length] at h
      exact drop_add_of_drop h
    have hd3 : data.drop (offset + s.size) = encSubSubs cfg.le ss ++ rest := by
      have := drop_add_of_drop hd2
      rwa [show offset + s.tag.n + 4 + (numsBytes s).length + (encAttrs s.attrs).length = offset + s.size from by
        rw [size_eq]; omega] at this
    have hl := length_of_drop hd2
    have hge := encAttrs_length_ge s.attrs hattrs
    have hfuel : s.attrs.length ≤ data.length + 2 := by
      rw [List.length_append] at hl; omega
    have hloop := attributesLoop_ok (attributeAt arch env (Spec.elfStructs cfg) data) arch data
      (fun x pos rest hx hdx => attributeAt_attr henv hx hdx) s.attrs (data.length + 2) _ [] _ hattrs hfuel hd2
    rw [show offset + s.tag.n + 4 + (numsBytes s).length + (encAttrs s.attrs).length = offset + s.size from by
        rw [size_eq]; omega] at hloop
    have e : offset + (encSubSubs cfg.le (s :: ss)).length = offset + s.size + (encSubSubs cfg.le ss).length := by
      rw [encSubSubs_cons, List.length_append, encSubSub_length]; omega
    have hne : ¬ offset = end_ := by
      rw [e, SubSub.size] at hle; omega
    rw [show fuel + (s :: ss).length = (fuel + ss.length) + 1 from rfl, subsubLoop, if_neg hne,
      attributeAt_scope henv hs hd']
    simp only [bind, Except.bind, hdrObj, asNat_nat, hloop]
    rw [ih fuel _ _ rest end_ (fun y hy => hwf y (by simp [hy])) hd3 (by rw [e] at hle; exact hle), e]
    simp [obsSubSub]

/-- the subsection loop walks a well-formed list of subsections whatever end it is heading for -/
theorem subsecLoop_step :
    ∀ (sec : List SubSection) (fuel offset : Nat) (acc : List Val) (rest : Bytes) (end_ : Nat),
      (∀ s ∈ sec, subSectionWf arch cfg.le s = true) → data.drop offset = encSubSections cfg.le sec ++ rest →
      offset + (encSubSections cfg.le sec).length ≤ end_ →
      subsecLoop arch env (Spec.elfStructs cfg) data end_ (fuel + sec.length) offset acc
        = subsecLoop arch env (Spec.elfStructs cfg) data end_ fuel (offset + (encSubSections cfg.le sec).length)
            ((sec.map (obsSubSection arch cfg.le)).reverse ++ acc) := by
  intro sec
  induction sec with
  | nil => intro fuel offset acc rest end_ _ _ _; simp [encSubSections]
  | cons s sec ih =>
    intro fuel offset acc rest end_ hwf hd hle
    obtain ⟨hvendor, hsubs, hlen⟩ := subSectionWf_iff (hwf s (by simp))
    obtain ⟨hnul, hutf⟩ := strWf_iff hvendor
    have hd' : data.drop offset = encNat cfg.le 4 (s.length cfg.le) ++ (s.vendor ++ [0] ++
        (encSubSubs cfg.le s.subs ++ (encSubSections cfg.le sec ++ rest))) := by
      rw [hd, encSubSections_cons, encSubSection]; simp only [List.append_assoc]
    have hd2 : data.drop (offset + 4 + s.vendor.length + 1)
        = encSubSubs cfg.le s.subs ++ (encSubSections cfg.le sec ++ rest) := by
      have h := drop_add_of_drop hd'
      rw [encNat_length] at h
      have h := drop_add_of_drop h
      rwa [List.length_append, List.length_singleton, ← Nat.add_assoc] at h
    have esz : offset + 4 + s.vendor.length + 1 + (encSubSubs cfg.le s.subs).length = offset + s.length cfg.le := by
      rw [SubSection.length]; omega
    have hd3 : data.drop (offset + s.length cfg.le) = encSubSections cfg.le sec ++ rest := by
      have := drop_add_of_drop hd2
      rwa [esz] at this
    have hl := length_of_drop hd2
    have hge := encSubSubs_length_ge cfg.le s.subs
    have hfuel : s.subs.length ≤ data.length + 2 := by
      rw [List.length_append] at hl; omega
    have hloop := subsubLoop_ok henv s.subs (data.length + 2) _ [] _ hsubs hfuel hd2
    rw [esz] at hloop
    have e : offset + (encSubSections cfg.le (s :: sec)).length
        = offset + s.length cfg.le + (encSubSections cfg.le sec).length := by
      rw [encSubSections_cons, List.length_append, encSubSection_length]; omega
    have hne : ¬ offset = end_ := by
      rw [e, SubSection.length] at hle; omega
    rw [show fuel + (s :: sec).length = (fuel + sec.length) + 1 from rfl, subsecLoop, if_neg hne, S_hdr,
      parse_hdrStruct hlen hnul hd']
    simp only [bind, Except.bind, getNat_length, getField_vendor, decodeNtbs, hutf, if_true, hloop]
    rw [ih fuel _ _ rest end_ (fun y hy => hwf y (by simp [hy])) hd3 (by rw [e] at hle; exact hle), e]
    simp [obsSubSection]

/-! ### unknown tags -/

theorem attrsUnknownTag_length {as : List Attribute} (h : attrsUnknownTag arch as = true) :
    1 ≤ (encAttrs as).length := by
  induction as with
  | nil => simp [attrsUnknownTag] at h
  | cons x as ih =>
    rw [encAttrs_cons, List.length_append]
    by_cases hx : attrWf arch x = true
    · have := encAttr_length_pos hx; omega
    · simp only [attrsUnknownTag, hx, Bool.false_eq_true, if_false, Bool.and_eq_true] at h
      have := (U_wf_iff h.1).1
      rw [encAttr, List.length_append, U_enc_length]; omega

theorem attributesLoop_unknown :
    ∀ (as : List Attribute) (fuel pos : Nat) (acc : List Val) (rest : Bytes) (end_ : Nat),
      attrsUnknownTag arch as = true → (encAttrs as).length ≤ fuel → data.drop pos = encAttrs as ++ rest →
      pos + (encAttrs as).length ≤ end_ →
      attributesLoop (attributeAt arch env (Spec.elfStructs cfg) data) end_ fuel pos acc = .error .elfParseError := by
  intro as
  induction as with
  | nil => intro fuel pos acc rest end_ h; simp [attrsUnknownTag] at h
  | cons x as ih =>
    intro fuel pos acc rest end_ h hf hd hle
    have hlen := attrsUnknownTag_length (henv := henv) h
    by_cases hx : attrWf arch x = true
    · simp only [attrsUnknownTag, hx, if_true] at h
      have hd' : data.drop pos = encAttrs [x] ++ (encAttrs as ++ rest) := by
        rw [hd, encAttrs_cons]; simp [encAttrs]
      have e1 : (encAttrs [x]).length = (encAttr x).length := by simp [encAttrs]
      have e : (encAttrs (x :: as)).length = (encAttr x).length + (encAttrs as).length := by
        rw [encAttrs_cons, List.length_append]
      have hxpos := encAttr_length_pos hx
      have hlen' := attrsUnknownTag_length (henv := henv) h
      obtain ⟨fuel', rfl⟩ : ∃ f', fuel = f' + [x].length := ⟨fuel - 1, by simp; omega⟩
      rw [attributesLoop_step henv [x] fuel' pos acc _ end_ (by simpa using hx) hd' (by rw [e1]; omega)]
      have hd2 := drop_add_of_drop hd'
      exact ih fuel' _ _ rest end_ h (by simp at hf; omega) hd2 (by rw [e1]; omega)
    · simp only [attrsUnknownTag, hx, Bool.false_eq_true, if_false, Bool.and_eq_true] at h
      obtain ⟨hu, hnone⟩ := h
      have hnone' : tagName arch x.tag.v = none := by
        cases hh : tagName arch x.tag.v <;> simp [hh] at hnone ⊢
      have hd' : data.drop pos = x.tag.enc ++ (encValue x.val ++ (encAttrs as ++ rest)) := by
        rw [hd, encAttrs_cons, encAttr]; simp only [List.append_assoc]
      cases fuel with
      | zero => omega
      | succ fuel =>
        rw [attributesLoop, if_neg (by omega), attributeAt_unknown henv hu hnone' hd']
        rfl

theorem subSubHdrWf_iff {s : SubSub} (h : subSubHdrWf arch s = true) :
    s.tag.wf = true ∧ kind arch s.tag.v = some .scope
      ∧ (s.tag.v ≠ 1 → ∀ u ∈ s.nums, u.wf = true ∧ u.v ≠ 0) ∧ s.size < 2 ^ 32 := by
  simp only [subSubHdrWf, Bool.and_eq_true, Bool.or_eq_true, beq_iff_eq, decide_eq_true_eq] at h
  obtain ⟨⟨⟨⟨h1, h2⟩, h3⟩, h4⟩, h6⟩ := h
  have h2' : s.tag.v = 1 ∨ s.tag.v = 2 ∨ s.tag.v = 3 := by omega
  refine ⟨h1, ?_, ?_, h6⟩
  · have : (tagName arch s.tag.v).isNone = false := by
      cases hh : tagName arch s.tag.v <;> simp [hh] at h3 ⊢
    simp [kind, this, h2']
  · intro hne u hu
    rw [if_neg hne] at h4
    have := List.all_eq_true.1 h4 u hu
    simpa using this

theorem subsubLoop_unknown :
    ∀ (ss : List SubSub) (fuel offset : Nat) (acc : List Val) (rest : Bytes) (end_ : Nat),
      subsUnknownTag arch ss = true → (encSubSubs cfg.le ss).length ≤ fuel →
      data.drop offset = encSubSubs cfg.le ss ++ rest →
      offset + (encSubSubs cfg.le ss).length ≤ end_ →
      subsubLoop (attributeAt arch env (Spec.elfStructs cfg) data) data.length end_ fuel offset acc
        = .error .elfParseError := by
  intro ss
  induction ss with
  | nil => intro fuel offset acc rest end_ h; simp [subsUnknownTag] at h
  | cons s ss ih =>
    intro fuel offset acc rest end_ h hf hd hle
    have e : (encSubSubs cfg.le (s :: ss)).length = s.size + (encSubSubs cfg.le ss).length := by
      rw [encSubSubs_cons, List.length_append, encSubSub_length]
    by_cases hs : subSubWf arch s = true
    · simp only [subsUnknownTag, hs, if_true] at h
      have hd' : data.drop offset = encSubSubs cfg.le [s] ++ (encSubSubs cfg.le ss ++ rest) := by
        rw [hd, encSubSubs_cons]; simp [encSubSubs]
      have e1 : (encSubSubs cfg.le [s]).length = s.size := by
        simp [encSubSubs, encSubSub_length]
      have hspos : 1 ≤ s.size := by rw [SubSub.size]; omega
      obtain ⟨fuel', rfl⟩ : ∃ f', fuel = f' + [s].length := ⟨fuel - 1, by simp; omega⟩
      rw [subsubLoop_step henv [s] fuel' offset acc _ end_ (by simpa using hs) hd' (by rw [e1]; omega)]
      have hd2 := drop_add_of_drop hd'
      exact ih fuel' _ _ rest end_ h (by simp at hf; omega) hd2 (by rw [e1]; omega)
    · simp only [subsUnknownTag, hs, Bool.false_eq_true, if_false, Bool.and_eq_true] at h
      obtain ⟨hhdr, hbad⟩ := h
      obtain ⟨hu, hk, hnums, hsz⟩ := subSubHdrWf_iff (henv := henv) hhdr
      have hd' : data.drop offset = s.tag.enc ++ (encNat cfg.le 4 s.size ++ (numsBytes s ++
          (encAttrs s.attrs ++ (encSubSubs cfg.le ss ++ rest)))) := by
        rw [hd, encSubSubs_cons, encSubSub, body_eq]; simp only [List.append_assoc]
      have hd2 : data.drop (offset + s.tag.n + 4 + (numsBytes s).length)
          = encAttrs s.attrs ++ (encSubSubs cfg.le ss ++ rest) := by
        have h := drop_add_of_drop hd'
        rw [U_enc_length] at h
        have h := drop_add_of_drop h
        rw [encNat_length] at h
        exact drop_add_of_drop h
      have hl := length_of_drop hd2
      have hlen1 := attrsUnknownTag_length (henv := henv) hbad
      have hfuel : (encAttrs s.attrs).length ≤ data.length + 2 := by
        rw [List.length_append] at hl; omega
      have hloop := attributesLoop_unknown (cfg := cfg) henv s.attrs (data.length + 2) _ [] _ (offset + s.size) hbad hfuel hd2
        (by rw [size_eq]; omega)
      have hne : ¬ offset = end_ := by
        rw [e, SubSub.size] at hle; omega
      cases fuel with
      | zero => rw [e, SubSub.size] at hf; omega
      | succ fuel =>
        rw [subsubLoop, if_neg hne, attributeAt_scope_hdr henv hu hk hnums hsz hd']
        simp only [bind, Except.bind, hdrObj, asNat_nat, hloop]

theorem subsUnknownTag_length {ss : List SubSub} (h : subsUnknownTag arch ss = true) :
    1 ≤ (encSubSubs cfg.le ss).length := by
  cases ss with
  | nil => simp [subsUnknownTag] at h
  | cons s ss => rw [encSubSubs_cons, List.length_append, encSubSub_length, SubSub.size]; omega

theorem subsecLoop_unknown :
    ∀ (sec : List SubSection) (fuel offset : Nat) (acc : List Val) (rest : Bytes) (end_ : Nat),
      sectionUnknownTag arch cfg.le sec = true → (encSubSections cfg.le sec).length ≤ fuel →
      data.drop offset = encSubSections cfg.le sec ++ rest →
      offset + (encSubSections cfg.le sec).length ≤ end_ →
      subsecLoop arch env (Spec.elfStructs cfg) data end_ fuel offset acc = .error .elfParseError := by
  intro sec
  induction sec with
  | nil => intro fuel offset acc rest end_ h; simp [sectionUnknownTag] at h
  | cons s sec ih =>
    intro fuel offset acc rest end_ h hf hd hle
    have e : (encSubSections cfg.le (s :: sec)).length = s.length cfg.le + (encSubSections cfg.le sec).length := by
      rw [encSubSections_cons, List.length_append, encSubSection_length]
    have hspos : 1 ≤ s.length cfg.le := by rw [SubSection.length]; omega
    by_cases hs : subSectionWf arch cfg.le s = true
    · simp only [sectionUnknownTag, hs, if_true] at h
      have hd' : data.drop offset = encSubSections cfg.le [s] ++ (encSubSections cfg.le sec ++ rest) := by
        rw [hd, encSubSections_cons]; simp [encSubSections]
      have e1 : (encSubSections cfg.le [s]).length = s.length cfg.le := by
        simp [encSubSections, encSubSection_length]
      obtain ⟨fuel', rfl⟩ : ∃ f', fuel = f' + [s].length := ⟨fuel - 1, by simp; omega⟩
      rw [subsecLoop_step henv [s] fuel' offset acc _ end_ (by simpa using hs) hd' (by rw [e1]; omega)]
      have hd2 := drop_add_of_drop hd'
      exact ih fuel' _ _ rest end_ h (by simp at hf; omega) hd2 (by rw [e1]; omega)
    · simp only [sectionUnknownTag, hs, Bool.false_eq_true, if_false, Bool.and_eq_true, decide_eq_true_eq] at h
      obtain ⟨⟨hvendor, hlen⟩, hbad⟩ := h
      obtain ⟨hnul, hutf⟩ := strWf_iff hvendor
      have hd' : data.drop offset = encNat cfg.le 4 (s.length cfg.le) ++ (s.vendor ++ [0] ++
          (encSubSubs cfg.le s.subs ++ (encSubSections cfg.le sec ++ rest))) := by
        rw [hd, encSubSections_cons, encSubSection]; simp only [List.append_assoc]
      have hd2 : data.drop (offset + 4 + s.vendor.length + 1)
          = encSubSubs cfg.le s.subs ++ (encSubSections cfg.le sec ++ rest) := by
        have h := drop_add_of_drop hd'
        rw [encNat_length] at h
        have h := drop_add_of_drop h
        rwa [List.length_append, List.length_singleton, ← Nat.add_assoc] at h
      have esz : offset + 4 + s.vendor.length + 1 + (encSubSubs cfg.le s.subs).length = offset + s.length cfg.le := by
        rw [SubSection.length]; omega
      have hl := length_of_drop hd2
      have hfuel : (encSubSubs cfg.le s.subs).length ≤ data.length + 2 := by
        rw [List.length_append] at hl; omega
      have hloop := subsubLoop_unknown (cfg := cfg) henv s.subs (data.length + 2) _ [] _ (offset + s.length cfg.le)
        hbad hfuel hd2 (by rw [esz]; omega)
      have hne : ¬ offset = end_ := by
        rw [e] at hle; omega
      cases fuel with
      | zero => rw [e] at hf; omega
      | succ fuel =>
        rw [subsecLoop, if_neg hne, S_hdr, parse_hdrStruct hlen hnul hd']
        simp only [bind, Except.bind, getNat_length, getField_vendor, decodeNtbs, hutf, if_true, hloop]

/-- UNKNOWN TAG.  When the first malformation of a section, in document order, is an attribute whose
    tag number is not in the architecture's table (`sectionUnknownTag`: everything before it well formed,
    nothing asked of what follows), the nested observation raises ELFParseError — wherever the section
    sits in the file and whatever follows it. -/
theorem attrs_unknown_tag_at (sec : Spec.Attr.Section) (rest : Bytes) (off : Nat)
    (hbad : sectionUnknownTag arch cfg.le sec = true)
    (hd : data.drop off = Spec.Attr.encSection cfg.le sec ++ rest) :
    attributesSection arch env (Spec.elfStructs cfg) data off (Spec.Attr.encSection cfg.le sec).length
      = .error .elfParseError := by
  have hd1 : data.drop off = 0x41 :: (encSubSections cfg.le sec ++ rest) := by rw [hd]; rfl
  have hd2 : data.drop (off + 1) = encSubSections cfg.le sec ++ rest := (drop_cons_inv hd1).2
  have hl := length_of_drop hd2
  have hfuel : (encSubSections cfg.le sec).length ≤ data.length + 2 := by
    rw [List.length_append] at hl; omega
  have e : off + (Spec.Attr.encSection cfg.le sec).length = off + 1 + (encSubSections cfg.le sec).length := by
    simp only [Spec.Attr.encSection, List.length_cons]; omega
  have hloop := subsecLoop_unknown henv sec (data.length + 2) _ [] rest (off + (Spec.Attr.encSection cfg.le sec).length)
    hbad hfuel hd2 (by rw [e]; omega)
  rw [attributesSection, S_byte, parseInt_byte hd1]
  simp only [bind, Except.bind, hloop]
  rfl

/-! ### the section header claims more than the file holds -/

/-- SIZE RUNNING PAST THE FILE.  A well-formed section with which the file ENDS, under a section header
    whose `sh_size` claims more than the encoding's length: every subsection is walked (and, through
    the generator API, yielded), then the walk looks for another subsection header at the end of the
    file: ELFParseError. -/
theorem attrs_size_overrun_at (sec : Spec.Attr.Section) (off shSize : Nat)
    (hwf : Spec.Attr.sectionWf arch cfg.le sec = true)
    (hd : data.drop off = Spec.Attr.encSection cfg.le sec)
    (hsize : (Spec.Attr.encSection cfg.le sec).length < shSize) :
    attributesSection arch env (Spec.elfStructs cfg) data off shSize = .error .elfParseError := by
  have hwf' : ∀ s ∈ sec, Spec.Attr.subSectionWf arch cfg.le s = true := by
    simpa [Spec.Attr.sectionWf] using hwf
  have hd1 : data.drop off = 0x41 :: (encSubSections cfg.le sec ++ []) := by rw [hd]; simp [Spec.Attr.encSection]
  have hd2 : data.drop (off + 1) = encSubSections cfg.le sec ++ [] := (drop_cons_inv hd1).2
  have hl := length_of_drop hd2
  have hge := encSubSections_length_ge cfg.le sec
  have e : (Spec.Attr.encSection cfg.le sec).length = 1 + (encSubSections cfg.le sec).length := by
    simp only [Spec.Attr.encSection, List.length_cons]; omega
  have hlen : off + 1 + (encSubSections cfg.le sec).length = data.length := by
    have h0 : off + 1 ≤ data.length := by
      have hlen0 := congrArg List.length hd1
      simp only [List.length_drop, List.length_cons] at hlen0
      omega
    rw [List.length_append, List.length_nil] at hl; omega
  obtain ⟨fuel', hfuel'⟩ : ∃ f', data.length + 2 = (f' + 1) + sec.length := ⟨data.length + 1 - sec.length, by omega⟩
  have heof := parse_hdrStruct_eof (env := env) (data := data) (le := cfg.le)
    (pos := off + 1 + (encSubSections cfg.le sec).length) (by omega)
  rw [attributesSection, S_byte, parseInt_byte hd1]
  simp only [bind, Except.bind]
  rw [if_neg (by decide), hfuel', subsecLoop_step henv sec (fuel' + 1) (off + 1) [] [] (off + shSize) hwf' hd2 (by omega),
    subsecLoop, if_neg (by omega), S_hdr, heof]
  rfl

end

end PyElf.Proofs.C20
