/-
  Attribute classification: the boolean expressions of `LocationParser` compute the
  decision table `Spec.Lists.classify`.
-/
import PyElf.Spec.Lists
import PyElf.Model.Lists
namespace PyElf.Proofs.ListsCls
open PyElf PyElf.Spec.Lists

theorem loclistptr_eq (name : String) :
    Model.Lists.attributeIsLoclistptrClass name = locAttrs.contains name := rfl

theorem dataForms_eq : Model.Lists.dataForms = Spec.Lists.dataForms := rfl

theorem const_eq (name form : String) (ver : Nat) :
    Model.Lists.attributeIsConstant name form ver = constantClass name form ver := by
  have h : ∀ a b : String, (a == b) = decide (a = b) := fun _ _ => rfl
  simp [Model.Lists.attributeIsConstant, constantClass, dataForms_eq, constForms, Bool.or_assoc, h]

/-- what the code's `parse_from_attribute` decides -/
def modelClass (name form : String) (ver : Nat) : LocClass :=
  if Model.Lists.attributeHasLocation name form ver then
    if Model.Lists.attributeHasLocExpr name form ver then .expr
    else if Model.Lists.attributeHasLocList name form ver then .list else .neither
  else .neither

theorem cls_bool (L E B CV D LF C v4 : Bool) :
    (if (L && ((v4 && B && !CV || E) || ((v4 && D && !CV || LF) && !C))) then
        (if (v4 && B && !CV || E) then LocClass.expr
         else if ((v4 && D && !CV || LF) && !C) then LocClass.list else LocClass.neither)
      else LocClass.neither)
    = (if !L then LocClass.neither
       else if E then LocClass.expr
       else if v4 && B && !CV then LocClass.expr
       else if LF && !C then LocClass.list
       else if v4 && D && !CV && !C then LocClass.list
       else LocClass.neither) := by
  cases L <;> cases E <;> cases B <;> cases CV <;> cases D <;> cases LF <;> cases C <;> cases v4 <;> rfl

/-- `classification_table`: for every attribute name, version, and every form whose name starts with
    "DW_FORM_block" exactly when it is one of the four block forms (true of every form the library
    knows: `Props.TieC07.block_prefix_forms`), the code's classification is the table's. -/
theorem modelClass_eq_classify (name form : String) (ver : Nat)
    (hform : "DW_FORM_block".toList.isPrefixOf form.toList = blockForms.contains form) :
    modelClass name form ver = classify name form ver := by
  unfold modelClass classify Model.Lists.attributeHasLocation Model.Lists.attributeHasLocExpr
    Model.Lists.attributeHasLocList
  rw [const_eq, loclistptr_eq, dataForms_eq, hform]
  have hne : (name != "DW_AT_const_value") = !(name == "DW_AT_const_value") := rfl
  rw [hne]
  have hlf : (["DW_FORM_sec_offset", "DW_FORM_loclistx"].contains form) = listForms.contains form := rfl
  rw [hlf]
  generalize locAttrs.contains name = L
  generalize (form == "DW_FORM_exprloc") = E
  generalize blockForms.contains form = B
  generalize (name == "DW_AT_const_value") = CV
  generalize Spec.Lists.dataForms.contains form = D
  generalize listForms.contains form = LF
  generalize constantClass name form ver = C
  generalize decide (ver < 4) = v4
  exact cls_bool L E B CV D LF C v4

/-- the two predicates the enumeration uses, in terms of the table -/
theorem hasLocation_iff (name form : String) (ver : Nat)
    (hform : "DW_FORM_block".toList.isPrefixOf form.toList = blockForms.contains form) :
    Model.Lists.attributeHasLocation name form ver = (classify name form ver != .neither) := by
  rw [← modelClass_eq_classify name form ver hform]
  unfold modelClass
  cases h1 : Model.Lists.attributeHasLocation name form ver with
  | false => rfl
  | true =>
    cases h2 : Model.Lists.attributeHasLocExpr name form ver with
    | true => rfl
    | false =>
      cases h3 : Model.Lists.attributeHasLocList name form ver with
      | true => rfl
      | false => simp [Model.Lists.attributeHasLocation, h2, h3] at h1

end PyElf.Proofs.ListsCls
