/-
  End to end over BUILT tables: for every symbol list the bytes of the built SysV / GNU hash
  table are parsed back and the lookups find every present name and no absent one; whole-table
  syminfo iteration; SHT_SYMTAB_SHNDX at table level; congruence of the models in the struct
  fields they read (for the `_generated` variants).
-/
import PyElf.Proofs.SymBuildSysV
import PyElf.Proofs.SymBuildGnu
import PyElf.Proofs.SymTable
import PyElf.Proofs.HashParse
namespace PyElf.Proofs.C03
open PyElf PyElf.Spec PyElf.Model PyElf.Proofs

/-! ### System V: what the lookup returns on a built table -/

/-- the last (highest-index) symbol `1 ≤ i < n` named `name` -/
def sysvLastNamed (names : List Bytes) (name : Bytes) : Option Nat :=
  (List.range' 1 (names.length - 1)).reverse.find? fun i => names.getD i [] == name

theorem find?_congr_mem {α : Type} {p q : α → Bool} : ∀ {l : List α}, (∀ a ∈ l, p a = q a) → l.find? p = l.find? q := by
  intro l
  induction l with
  | nil => intro _; rfl
  | cons x xs ih =>
    intro h
    simp only [List.find?_cons, h x List.mem_cons_self]
    rw [ih (fun a ha => h a (List.mem_cons_of_mem _ ha))]

theorem bucketList_find (names : List Bytes) (nb : Nat) (name : Bytes) (sym : Nat → Symbol)
    (hname : ∀ j, j < names.length → (sym j).2 = names.getD j []) :
    (bucketList names nb names.length ((elfHash32 name).toNat % nb)).find? (fun j => decide ((sym j).2 = name))
      = sysvLastNamed names name := by
  unfold bucketList sysvLastNamed
  rw [← List.filter_reverse, List.find?_filter]
  apply find?_congr_mem
  intro a ha
  have ha' := List.mem_range'_1.mp (List.mem_reverse.mp ha)
  rw [hname a (by omega)]
  unfold sbk
  generalize names.getD a [] = x
  by_cases hn : x = name
  · simp [hn]
  · simp [hn]

/-- exact result on a built table: the highest-indexed symbol bearing the name (the linker pushes
    symbols on the front of their bucket's chain in index order) -/
theorem sysv_built_exact (names : List Bytes) (nb : Nat) (hn : 1 ≤ names.length) (hn32 : names.length < 2 ^ 32)
    (hnb : 1 ≤ nb) (hnb32 : nb < 2 ^ 32) (getSym : Nat → R Symbol) (sym : Nat → Symbol)
    (hget : ∀ j, j < names.length → getSym j = .ok (sym j))
    (hname : ∀ j, j < names.length → (sym j).2 = names.getD j []) (name : Bytes) :
    elfHashGetSymbol (sysvParams (buildSysV names nb)) getSym name = .ok ((sysvLastNamed names name).map sym) := by
  obtain ⟨l, hl, heq⟩ := elfHashGetSymbol_eq names _ getSym sym name (buildSysV_wf names nb hn hn32 hnb hnb32) hget
  rw [buildSysV_bucketChain names nb hn hnb name] at hl
  rw [heq, ← Option.some.inj hl, bucketList_find names nb name sym hname]

theorem sysvLastNamed_some {names : List Bytes} {name : Bytes} {j : Nat} (h : sysvLastNamed names name = some j) :
    1 ≤ j ∧ j < names.length ∧ names.getD j [] = name := by
  have hm := List.mem_range'_1.mp (List.mem_reverse.mp (List.mem_of_find?_eq_some h))
  have hp := List.find?_some h
  exact ⟨hm.1, by omega, by simpa using hp⟩

theorem sysvLastNamed_none {names : List Bytes} {name : Bytes} (h : sysvLastNamed names name = none) :
    ∀ i, 1 ≤ i → i < names.length → names.getD i [] ≠ name := by
  intro i h1 h2
  have := List.find?_eq_none.mp h i (List.mem_reverse.mpr (List.mem_range'_1.mpr ⟨h1, by omega⟩))
  simpa using this

/-- it is the LAST one: no higher-indexed symbol bears the name -/
theorem sysvLastNamed_last {names : List Bytes} {name : Bytes} {j : Nat} (h : sysvLastNamed names name = some j) :
    ∀ i, j < i → i < names.length → names.getD i [] ≠ name := by
  intro i hji hin
  obtain ⟨_, as, bs, hl, hbefore⟩ := List.find?_eq_some_iff_append.mp h
  -- `i` and `j` both occur in the reversed range; `i > j` must come first
  have hrev : List.range' 1 (names.length - 1) = bs.reverse ++ j :: as.reverse := by
    have := congrArg List.reverse hl
    simpa using this
  have hsorted : (List.range' 1 (names.length - 1)).Pairwise (· < ·) := List.pairwise_lt_range'
  rw [hrev] at hsorted
  have hmem : i ∈ List.range' 1 (names.length - 1) := List.mem_range'_1.mpr ⟨by omega, by omega⟩
  rw [hrev] at hmem
  have hcases := List.mem_append.mp hmem
  have hpw := List.pairwise_append.mp hsorted
  rcases hcases with hb | hc
  · have := hpw.2.2 i hb j List.mem_cons_self
    omega
  · rcases List.mem_cons.mp hc with rfl | ha
    · omega
    · have := hbefore i (List.mem_reverse.mp ha)
      simpa using this

/-- the encoded built SysV table, parsed and queried -/
theorem sysv_built_bytes (env : Env) (c : ElfCfg) (names : List Bytes) (nb : Nat)
    (hn : 1 ≤ names.length) (hn32 : names.length < 2 ^ 32) (hnb : 1 ≤ nb) (hnb32 : nb < 2 ^ 32)
    (data : Bytes) (off : Nat) (rest : Bytes) (hd : data.drop off = encSysV c.le (buildSysV names nb) ++ rest)
    (getSym : Nat → R Symbol) (sym : Nat → Symbol)
    (hget : ∀ j, j < names.length → getSym j = .ok (sym j))
    (hname : ∀ j, j < names.length → (sym j).2 = names.getD j []) :
    ∃ params, elfHashInit (Spec.elfStructs c) env data off = .ok params
      ∧ elfHashCount params = .ok (.int names.length)
      ∧ ∀ name, elfHashGetSymbol params getSym name = .ok ((sysvLastNamed names name).map sym) := by
  have hwf := buildSysV_wf names nb hn hn32 hnb hnb32
  exact ⟨_, sysv_init_of_wf env c names _ data off rest hwf hd, sysv_count_eq names _ hwf,
    sysv_built_exact names nb hn hn32 hnb hnb32 getSym sym hget hname⟩

/-! ### GNU: the hashed part of the ordered list against the original list -/

theorem gnuOrder_drop_perm {β : Type} (nb so : Nat) (syms : List (Bytes × β)) :
    ((gnuOrder nb so syms).drop so).Perm (syms.drop so) := by
  rw [gnuOrder_drop]; exact sortByKey_perm _ _

/-- a symbol of the original hashed part sits at some hashed index of the ordered names -/
theorem gnuOrder_hashed_mem {β : Type} (nb so : Nat) (syms : List (Bytes × β)) (s : Bytes × β) (hs : s ∈ syms.drop so) :
    ∃ i, so ≤ i ∧ i < ((gnuOrder nb so syms).map (·.1)).length ∧ ((gnuOrder nb so syms).map (·.1)).getD i [] = s.1 := by
  have hm : s ∈ (gnuOrder nb so syms).drop so := (gnuOrder_drop_perm nb so syms).mem_iff.mpr hs
  obtain ⟨k, hk, hks⟩ := List.mem_iff_getElem.mp hm
  rw [List.length_drop] at hk
  have hlt : so + k < (gnuOrder nb so syms).length := by omega
  refine ⟨so + k, by omega, by simpa using hlt, ?_⟩
  rw [List.getElem_drop] at hks
  simp [List.getD_eq_getElem?_getD, List.getElem?_map, List.getElem?_eq_getElem hlt, hks]

/-- a hashed index of the ordered names is a symbol of the original hashed part -/
theorem gnuOrder_hashed_of_idx {β : Type} (nb so : Nat) (syms : List (Bytes × β)) (i : Nat) (h1 : so ≤ i)
    (h2 : i < ((gnuOrder nb so syms).map (·.1)).length) :
    ∃ s ∈ syms.drop so, ((gnuOrder nb so syms).map (·.1)).getD i [] = s.1 := by
  have hlt : i < (gnuOrder nb so syms).length := by simpa using h2
  refine ⟨(gnuOrder nb so syms)[i], ?_, ?_⟩
  · apply (gnuOrder_drop_perm nb so syms).mem_iff.mp
    apply List.mem_iff_getElem.mpr
    refine ⟨i - so, by rw [List.length_drop]; omega, ?_⟩
    rw [List.getElem_drop]
    congr 1; omega
  · simp [List.getD_eq_getElem?_getD, List.getElem?_map, List.getElem?_eq_getElem hlt]

/-- the encoded built GNU table, parsed, counted and queried -/
theorem gnu_built_bytes {β : Type} (env : Env) (c : ElfCfg) (hcls : c.cls = 32 ∨ c.cls = 64)
    (syms : List (Bytes × β)) (nb so bs sh : Nat)
    (hnb : 1 ≤ nb) (hnb32 : nb < 2 ^ 32) (hbs : 1 ≤ bs) (hbs32 : bs < 2 ^ 32) (hsh32 : sh < 2 ^ 32)
    (hso1 : 1 ≤ so) (hson : so ≤ syms.length) (hn32 : syms.length < 2 ^ 32)
    (data : Bytes) (off : Nat) (rest : Bytes)
    (hd : data.drop off = encGnu c.le c.cls (buildGnu c.cls ((gnuOrder nb so syms).map (·.1)) nb so bs sh) ++ rest)
    (getSym : Nat → R Symbol) (sym : Nat → Symbol)
    (hget : ∀ j, j < ((gnuOrder nb so syms).map (·.1)).length → getSym j = .ok (sym j))
    (hname : ∀ j, j < ((gnuOrder nb so syms).map (·.1)).length → (sym j).2 = ((gnuOrder nb so syms).map (·.1)).getD j []) :
    ∃ g, gnuHashInit (Spec.elfStructs c) env c.cls data off = .ok g
      ∧ gnuHashCount c.le data g = .ok syms.length
      ∧ ∀ name, gnuHashGetSymbol c.le c.cls data g getSym name
          = .ok ((gnuFirstNamed ((gnuOrder nb so syms).map (·.1)) so name).map sym) := by
  have hwf := buildGnu_wf c.cls syms nb so bs sh (by rcases hcls with h | h <;> omega) hnb hnb32 hbs hbs32 hsh32 hso1 hson hn32
  have hl : ((gnuOrder nb so syms).map (·.1)).length = syms.length := by rw [List.length_map, gnuOrder_length]
  obtain ⟨g, h1, h2, h3, h4⟩ := gnu_init_of_wf env c hcls _ _ data off rest hwf hd
  refine ⟨g, h1, ?_, fun name => ?_⟩
  · rw [← hl]; exact gnuHashCount_eq c.cls _ _ c.le data g hwf h2 h3 h4
  · exact gnuHashGetSymbol_eq c.cls _ _ c.le data g getSym sym name hwf h2 h3 h4 hget hname

/-! ### SUNW syminfo: the whole table -/

/-- a syminfo section laid out in a file: entries `si` (entry 0 is the version record) at stride `sh_entsize` -/
structure SyminfoLayout (le : Bool) (data : Bytes) (h : SecHdr) (si : List (Nat × Nat)) : Prop where
  entpos : 0 < h.entsize
  size : h.size = si.length * h.entsize
  wf : ∀ i (hi : i < si.length), si[i].1 < 65536 ∧ si[i].2 < 65536
  entry : ∀ i (hi : i < si.length), ∃ rest, data.drop (h.off + i * h.entsize) = encSyminfo le [si[i]] ++ rest

theorem encSyminfo_cons (le : Bool) (e : Nat × Nat) (es : List (Nat × Nat)) :
    encSyminfo le (e :: es) = encSyminfo le [e] ++ encSyminfo le es := by
  simp [encSyminfo]

theorem encSyminfo_one_length (le : Bool) (e : Nat × Nat) : (encSyminfo le [e]).length = 4 := by
  simp [encSyminfo, encNat_length]

theorem drop_encSyminfo {data : Bytes} {le : Bool} {rest : Bytes} : ∀ (si : List (Nat × Nat)) (pos k : Nat)
    (hk : k < si.length), data.drop pos = encSyminfo le si ++ rest →
    ∃ rest', data.drop (pos + k * 4) = encSyminfo le [si[k]] ++ rest' := by
  intro si
  induction si with
  | nil => intro pos k hk; simp at hk
  | cons e es ih =>
    intro pos k hk hd
    rw [encSyminfo_cons, List.append_assoc] at hd
    cases k with
    | zero => exact ⟨_, by simpa using hd⟩
    | succ k =>
      have hd' := drop_add_of_drop hd; rw [encSyminfo_one_length] at hd'
      obtain ⟨r, hr⟩ := ih (pos + 4) k (by simpa using hk) hd'
      exact ⟨r, by rw [show pos + (k + 1) * 4 = pos + 4 + k * 4 by omega]; simpa using hr⟩

/-- the usual packed section: `sh_entsize = 4`, entries back to back at `sh_offset` -/
theorem syminfoLayout_packed (le : Bool) (data : Bytes) (h : SecHdr) (si : List (Nat × Nat)) (rest : Bytes)
    (hent : h.entsize = 4) (hsize : h.size = si.length * 4)
    (hwf : ∀ e ∈ si, e.1 < 65536 ∧ e.2 < 65536) (hd : data.drop h.off = encSyminfo le si ++ rest) :
    SyminfoLayout le data h si where
  entpos := by omega
  size := by rw [hent]; exact hsize
  wf := fun i hi => hwf _ (List.getElem_mem hi)
  entry := fun i hi => by rw [hent]; exact drop_encSyminfo si h.off i hi hd

section syminfo
variable {le : Bool} {cls : Nat} {data : Bytes} {h symH : SecHdr} {strOff : Nat} {es : List SymE} {names : List Bytes}
variable {si : List (Nat × Nat)} (env : Env) (m : String) (sol core : Bool)

theorem syminfoNum_ok (LS : SyminfoLayout le data h si) : syminfoNum h = .ok ((si.length : Int) - 1) := by
  have := LS.entpos
  have hne : ¬ h.entsize = 0 := by omega
  simp only [syminfoNum, hne, if_false, LS.size]
  rw [Nat.mul_div_cancel _ LS.entpos]

/-- the observation of syminfo entry `i`: the entry of this table, the name of symbol `i` of the linked table -/
def syminfoObs (dec : String → Int → Option String) (si : List (Nat × Nat)) (names : List Bytes) (i : Nat) : Symbol :=
  (obsSyminfo dec (si.getD i (0, 0)), names.getD i [])

theorem syminfoGet_ok (L : SymtabLayout le cls data symH strOff es names) (LS : SyminfoLayout le data h si)
    (i : Nat) (hi : i < si.length) (hie : i < es.length) :
    syminfoGet (Spec.elfStructs ⟨le, cls, m, sol, core⟩) env data h symH strOff i
      = .ok (syminfoObs env.enumDecode si names i) := by
  obtain ⟨rest, hd⟩ := LS.entry i hi
  obtain ⟨hb, hf⟩ := LS.wf i hi
  have hp := syminfo_entry_ok env ⟨le, cls, m, sol, core⟩ data (h.off + i * h.entsize) si[i].1 si[i].2 rest hb hf hd
  simp only [syminfoGet, hp, layout_getSymbol env m sol core L i hie, bind, Except.bind, pure, Except.pure]
  simp [syminfoObs, symObs, List.getD_eq_getElem?_getD, List.getElem?_eq_getElem hi]

/-- TASK 2: `list(SUNWSyminfoTableSection.iter_symbols())`: entries 1 … n−1 in order (entry 0 is skipped),
    each with the name of the same-numbered symbol of the linked symbol table -/
theorem syminfoIter_ok (L : SymtabLayout le cls data symH strOff es names) (LS : SyminfoLayout le data h si)
    (hle : si.length ≤ es.length) :
    syminfoIter (Spec.elfStructs ⟨le, cls, m, sol, core⟩) env data h symH strOff
      = .ok ((List.range' 1 (si.length - 1)).map (syminfoObs env.enumDecode si names)) := by
  simp only [syminfoIter, syminfoNum_ok LS, bind, Except.bind]
  have ht : ((si.length : Int) - 1).toNat = si.length - 1 := by omega
  rw [ht]
  exact collectRange_ok _ (syminfoObs env.enumDecode si names) (si.length - 1) 1
    (fun i h1 h2 => syminfoGet_ok env m sol core L LS i (by omega) (by omega))

end syminfo

/-! ### SHT_SYMTAB_SHNDX: the whole companion table -/

/-- every index of a packed `Elf32_Word` table reads back -/
theorem shndx_table_ok (env : Env) (c : ElfCfg) (data : Bytes) (h : SecHdr) (ws : List Nat) (rest : Bytes)
    (hent : h.entsize = 4) (hws : ∀ w ∈ ws, w < 2 ^ 32) (hd : data.drop h.off = encShndx c.le ws ++ rest)
    (n : Nat) (hn : n < ws.length) :
    getSectionIndex (Spec.elfStructs c) env data h n = .ok (.int ws[n]) := by
  obtain ⟨r, hr⟩ := drop_encWords ws h.off n hn (by simpa [encShndx] using hd)
  exact getSectionIndex_ok env c data h n ws[n] r (hws _ (List.getElem_mem hn))
    (by rw [hent, Nat.mul_comm]; exact hr)

/-! ### the models depend on the bundle only through the structs they read -/

theorem getSymbol_congr {S S' : ElfStructs} (hs : S.Elf_Sym = S'.Elf_Sym) (env : Env) (data : Bytes) (h : SecHdr)
    (strOff : Nat) : getSymbol S env data h strOff = getSymbol S' env data h strOff := by
  funext n; simp only [getSymbol, hs]

theorem iterSymbols_congr {S S' : ElfStructs} (hs : S.Elf_Sym = S'.Elf_Sym) (env : Env) (data : Bytes) (h : SecHdr)
    (strOff : Nat) : iterSymbols S env data h strOff = iterSymbols S' env data h strOff := by
  simp only [iterSymbols, getSymbol_congr hs]

theorem getSymbolByName_congr {S S' : ElfStructs} (hs : S.Elf_Sym = S'.Elf_Sym) (env : Env) (data : Bytes) (h : SecHdr)
    (strOff : Nat) (name : Bytes) :
    getSymbolByName S env data h strOff name = getSymbolByName S' env data h strOff name := by
  simp only [getSymbolByName, iterSymbols_congr hs, getSymbol_congr hs]

theorem elfHashInit_congr {S S' : ElfStructs} (hs : S.Elf_Hash = S'.Elf_Hash) (env : Env) (data : Bytes) (off : Nat) :
    elfHashInit S env data off = elfHashInit S' env data off := by
  simp only [elfHashInit, hs]

theorem gnuHashInit_congr {S S' : ElfStructs} (hs : S.Gnu_Hash = S'.Gnu_Hash) (env : Env) (cls : Nat) (data : Bytes)
    (off : Nat) : gnuHashInit S env cls data off = gnuHashInit S' env cls data off := by
  simp only [gnuHashInit, hs]

theorem getSectionIndex_congr {S S' : ElfStructs} (hs : S.Elf_word = S'.Elf_word) (env : Env) (data : Bytes) (h : SecHdr)
    (n : Nat) : getSectionIndex S env data h n = getSectionIndex S' env data h n := by
  simp only [getSectionIndex, hs]

theorem syminfoIter_congr {S S' : ElfStructs} (hs : S.Elf_Sym = S'.Elf_Sym)
    (hi : S.Elf_Sunw_Syminfo = S'.Elf_Sunw_Syminfo) (env : Env) (data : Bytes) (h symH : SecHdr) (strOff : Nat) :
    syminfoIter S env data h symH strOff = syminfoIter S' env data h symH strOff := by
  have : syminfoGet S env data h symH strOff = syminfoGet S' env data h symH strOff := by
    funext n; simp only [syminfoGet, hi, getSymbol_congr hs]
  simp only [syminfoIter, this]

end PyElf.Proofs.C03
