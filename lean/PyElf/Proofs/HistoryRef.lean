/-
  C10, fourth wave: answer refinement for reference following (`die.get_DIE_from_attribute(name)`) and for the
  `.debug_pubnames` lookup followed by `get_DIE_from_lut_entry`.  Both are compositions of lookups whose answers
  are already known to be functions of the file alone: `get_CU_at(cu).get_DIE_from_refaddr(off)` (`dieAt_spec`),
  `CompileUnit.get_DIE_from_refaddr` on the unit just obtained (`inUnit_refaddr`) and
  `DWARFInfo.get_DIE_from_refaddr` (`step_refaddr` + `containing_unique`); the intermediate state only has to
  satisfy the invariant again, which every stage keeps.
-/
import PyElf.Proofs.History
namespace PyElf.Proofs.C10
open PyElf PyElf.Model.Lookup PyElf.Model.C10 PyElf.Proofs.Lookup

section state
variable {F : File} {cs : List CU}

/-- `get_CU_at(cu).get_DIE_from_refaddr(off)` answers the same in any two states satisfying the invariant -/
theorem dieAt_fst_eq (wf : FileWF F cs) {st st' : State} (hinv : Inv F cs st) (hinv' : Inv F cs st') {c : CU}
    (hc : c ∈ cs) (off : Nat) : (dieAt F st c.cuOffset off).1 = (dieAt F st' c.cuOffset off).1 := by
  obtain ⟨sz, hsz, _⟩ := mem_size wf hc
  rw [(dieAt_spec wf hinv hc hsz off).1, (dieAt_spec wf hinv' hc hsz off).1]

/-- `DWARFInfo.get_DIE_from_refaddr(x)` answers the same in any two states satisfying the invariant -/
theorem refaddrAt_fst_eq (wf : FileWF F cs) {st st' : State} (hinv : Inv F cs st) (hinv' : Inv F cs st') {x : Nat}
    (hx : x < F.size) : (refaddrAt F st x).1 = (refaddrAt F st' x).1 :=
  step_answer_eq wf hinv hinv' (op := .refaddr x) hx trivial

/-- closed form of `cu.get_DIE_from_refaddr(o)` run inside the unit object: a function of the file -/
theorem inUnit_refaddr_fst_eq (wf : FileWF F cs) {st st' : State} (hinv : Inv F cs st) (hinv' : Inv F cs st') {c : CU}
    (hc : c ∈ cs) (e off : Nat) :
    (inUnit st c (fun u => unitDIEFromRefaddr (F.parseDIE c.cuOffset) c.cuDieOffset e u off)).1
      = (inUnit st' c (fun u => unitDIEFromRefaddr (F.parseDIE c.cuOffset) c.cuDieOffset e u off)).1 := by
  rw [(inUnit_refaddr wf hinv hc e off).1, (inUnit_refaddr wf hinv' hc e off).1]

/-- `die.get_DIE_from_attribute(name)`: the stateless meaning.  `c` is the unit, `sz` its size. -/
def pureRef (F : File) (c : CU) (sz off : Nat) (name : String) (viaAddr : Nat → R Ans) : R Ans :=
  match pureRefaddr F c sz off with
  | .error e => .error e
  | .ok d =>
    match F.refAttr c.cuOffset d.offset name with
    | none => .error .keyError
    | some (false, raw) => (pureRefaddr F c sz (c.cuOffset + raw)).map (fun d' => Ans.nat d'.offset)
    | some (true, raw) => viaAddr raw

/-- reference following answers the same in any two states satisfying the invariant -/
theorem step_ref_eq (wf : FileWF F cs) {st st' : State} (hinv : Inv F cs st) (hinv' : Inv F cs st') {cu off : Nat}
    {name : String} (hv : OpValid F cs (.ref cu off name)) :
    (step F st (.ref cu off name)).1 = (step F st' (.ref cu off name)).1 := by
  obtain ⟨⟨c, hc, rfl⟩, hraw⟩ := hv
  obtain ⟨sz, hsz, _⟩ := mem_size wf hc
  have h1 := dieAt_fst_eq wf hinv hinv' hc off
  obtain ⟨h4, hcc⟩ := dieAt_cases wf hinv hc off
  obtain ⟨h4', hcc'⟩ := dieAt_cases wf hinv' hc off
  simp only [step]
  generalize dieAt F st c.cuOffset off = g at h1 h4 hcc
  generalize dieAt F st' c.cuOffset off = g' at h1 h4' hcc'
  obtain ⟨r, s1⟩ := g
  obtain ⟨r', s1'⟩ := g'
  simp only at h1 h4 h4'
  subst h1
  cases r with
  | error e => rfl
  | ok cd =>
    obtain ⟨c', d⟩ := cd
    have := hcc c' d rfl; subst this
    simp only
    cases hr : F.refAttr c'.cuOffset d.offset name with
    | none => rfl
    | some br =>
      obtain ⟨b, raw⟩ := br
      cases b with
      | false =>
        simp only [cuEnd_eq hsz]
        have h5 := inUnit_refaddr_fst_eq wf h4 h4' hc (c'.cuOffset + sz) (c'.cuOffset + raw)
        generalize inUnit s1 c' (fun u => unitDIEFromRefaddr (F.parseDIE c'.cuOffset) c'.cuDieOffset (c'.cuOffset + sz) u (c'.cuOffset + raw)) = g3 at h5
        generalize inUnit s1' c' (fun u => unitDIEFromRefaddr (F.parseDIE c'.cuOffset) c'.cuDieOffset (c'.cuOffset + sz) u (c'.cuOffset + raw)) = g3' at h5
        obtain ⟨r3, s3⟩ := g3
        obtain ⟨r3', s3'⟩ := g3'
        simp only at h5
        subst h5
        cases r3 <;> rfl
      | true =>
        simp only
        exact refaddrAt_fst_eq wf h4 h4' (hraw _ _ hr)

/-- the `.debug_pubnames` lookup followed by `get_DIE_from_lut_entry` answers the same in any two states
    satisfying the invariant -/
theorem step_pubname_eq (wf : FileWF F cs) {st st' : State} (hinv : Inv F cs st) (hinv' : Inv F cs st') {name : String}
    (hv : OpValid F cs (.pubname name)) :
    (step F st (.pubname name)).1 = (step F st' (.pubname name)).1 := by
  simp only [step]
  cases hp : F.pubnames with
  | none => rfl
  | some tbl =>
    simp only
    cases hf : tbl.find? (·.1 == name) with
    | none => rfl
    | some e =>
      obtain ⟨nm, cuo, dieo⟩ := e
      obtain ⟨c, hc, hcu⟩ := hv tbl _ hp hf
      simp only at hcu; subst hcu
      simp only
      have h1 := dieAt_fst_eq wf hinv hinv' hc dieo
      generalize dieAt F st c.cuOffset dieo = g at h1
      generalize dieAt F st' c.cuOffset dieo = g' at h1
      obtain ⟨r, s1⟩ := g
      obtain ⟨r', s1'⟩ := g'
      simp only at h1
      subst h1
      cases r with
      | error e => rfl
      | ok cd => rfl

/-- closed form of the pubnames lookup: the table row, and the pure parse at the offsets it names -/
theorem step_pubname (wf : FileWF F cs) {st : State} (hinv : Inv F cs st) {name : String} {tbl : List (String × Nat × Nat)}
    (hp : F.pubnames = some tbl) {c : CU} (hc : c ∈ cs) {sz : Nat} (hsz : c.size = .ok sz) {nm : String} {dieo : Nat}
    (hf : tbl.find? (·.1 == name) = some (nm, c.cuOffset, dieo)) :
    (step F st (.pubname name)).1
      = (pureRefaddr F c sz dieo).map (fun d => Ans.list [c.cuOffset, dieo, d.offset]) := by
  have h1 := (dieAt_spec wf hinv hc hsz dieo).1
  simp only [step, hp, hf]
  generalize dieAt F st c.cuOffset dieo = g at h1
  obtain ⟨r, s1⟩ := g
  simp only at h1
  cases hq : pureRefaddr F c sz dieo with
  | error e => rw [hq] at h1; simp [Except.map] at h1; subst h1; rfl
  | ok d => rw [hq] at h1; simp [Except.map] at h1; subst h1; rfl

end state
end PyElf.Proofs.C10
