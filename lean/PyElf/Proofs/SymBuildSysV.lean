/-
  The System V hash table BUILDER (`Spec.buildSysV`, the linker's push-front construction)
  produces, for every list of names, a table satisfying `WFSysV`; moreover the chain of every
  bucket is exactly the symbols of that bucket in descending index order.
-/
import PyElf.Proofs.SysVLookup
namespace PyElf.Proofs.C03
open PyElf PyElf.Spec PyElf.Model PyElf.Proofs

/-- bucket of symbol `i` -/
def sbk (names : List Bytes) (nb i : Nat) : Nat := (elfHash32 (names.getD i [])).toNat % nb

/-- one step of the builder's fold, as a named function -/
def sysvStep (names : List Bytes) (nb : Nat) (st : List Nat × List Nat) (i : Nat) : List Nat × List Nat :=
  match names[i]? with
  | none => st
  | some nm => (st.1.set ((elfHash32 nm).toNat % nb) i, st.2.set i (st.1.getD ((elfHash32 nm).toNat % nb) 0))

/-- the builder's state after the whole fold -/
def sysvFold (names : List Bytes) (nb : Nat) : List Nat × List Nat :=
  (List.range' 1 (names.length - 1)).foldl (sysvStep names nb) (List.replicate nb 0, List.replicate names.length 0)

theorem buildSysV_eq (names : List Bytes) (nb : Nat) :
    buildSysV names nb = ⟨nb, names.length, (sysvFold names nb).1, (sysvFold names nb).2⟩ := by
  have hr : (List.range names.length).drop 1 = List.range' 1 (names.length - 1) := by
    rw [List.range_eq_range', List.drop_range']
  unfold buildSysV sysvFold
  simp only [hr]
  rfl

/-! ### chains of a strictly decreasing `chains` array -/

/-- every link of the array points strictly downwards -/
def Dec (C : List Nat) : Prop := ∀ j v, j ≠ 0 → C[j]? = some v → v < j

theorem chainFrom_set_stable {C : List Nat} (hd : Dec C) (k v : Nat) :
    ∀ fuel s, s < k → chainFrom (C.set k v) fuel s = chainFrom C fuel s := by
  intro fuel
  induction fuel with
  | zero => intro s _; rfl
  | succ f ih =>
    intro s hs
    simp only [chainFrom]
    by_cases h0 : s = 0
    · simp [h0]
    · simp only [h0, if_false]
      have hne : k ≠ s := by omega
      rw [List.getElem?_set_ne hne]
      cases hc : C[s]? with
      | none => rfl
      | some nx =>
        have := hd s nx h0 hc
        simp only
        rw [ih nx (by omega)]

theorem chainFrom_fuel {C : List Nat} (hd : Dec C) :
    ∀ f1 f2 s, s + 1 ≤ f1 → s + 1 ≤ f2 → chainFrom C f1 s = chainFrom C f2 s := by
  intro f1
  induction f1 with
  | zero => intro f2 s h; omega
  | succ f ih =>
    intro f2 s h1 h2
    obtain ⟨g, rfl⟩ : ∃ g, f2 = g + 1 := ⟨f2 - 1, by omega⟩
    simp only [chainFrom]
    by_cases h0 : s = 0
    · simp [h0]
    · simp only [h0, if_false]
      cases hc : C[s]? with
      | none => rfl
      | some nx =>
        have := hd s nx h0 hc
        simp only
        rw [ih g nx (by omega) (by omega)]

/-! ### the invariant of the fold -/

/-- the symbols `1 ≤ i < k` of bucket `b`, in descending index order -/
def bucketList (names : List Bytes) (nb k b : Nat) : List Nat :=
  ((List.range' 1 (k - 1)).filter fun i => sbk names nb i == b).reverse

theorem bucketList_succ (names : List Bytes) (nb k b : Nat) (hk : 1 ≤ k) :
    bucketList names nb (k + 1) b
      = if sbk names nb k = b then k :: bucketList names nb k b else bucketList names nb k b := by
  have h1 : k + 1 - 1 = (k - 1) + 1 := by omega
  have h2 : 1 + 1 * (k - 1) = k := by omega
  unfold bucketList
  rw [h1, List.range'_concat, h2, List.filter_append, List.reverse_append]
  by_cases hb : sbk names nb k = b
  · simp [hb]
  · simp [hb]

theorem mem_bucketList (names : List Bytes) (nb k b i : Nat) :
    i ∈ bucketList names nb k b ↔ 1 ≤ i ∧ i < k ∧ sbk names nb i = b := by
  simp only [bucketList, List.mem_reverse, List.mem_filter, List.mem_range'_1, beq_iff_eq]
  omega

structure SInv (names : List Bytes) (nb k : Nat) (st : List Nat × List Nat) : Prop where
  blen : st.1.length = nb
  clen : st.2.length = names.length
  blt : ∀ v ∈ st.1, v < k
  clt : ∀ v ∈ st.2, v < k
  dec : Dec st.2
  chain : ∀ b, b < nb → chainFrom st.2 (names.length + 1) (st.1.getD b 0) = some (bucketList names nb k b)

theorem sinv_init (names : List Bytes) (nb : Nat) :
    SInv names nb 1 (List.replicate nb 0, List.replicate names.length 0) where
  blen := by simp
  clen := by simp
  blt := by intro v hv; have := (List.mem_replicate.mp hv).2; omega
  clt := by intro v hv; have := (List.mem_replicate.mp hv).2; omega
  dec := by
    intro j v hj hv
    rw [List.getElem?_replicate] at hv
    split at hv
    · have := Option.some.inj hv; omega
    · exact absurd hv (by simp)
  chain := by
    intro b hb
    have : (List.replicate nb 0).getD b 0 = 0 := by
      simp [List.getD_eq_getElem?_getD, hb]
    simp only [this]
    simp [chainFrom, bucketList]

theorem getD_mem {l : List Nat} {b : Nat} (hb : b < l.length) : l.getD b 0 ∈ l := by
  rw [List.getD_eq_getElem?_getD, List.getElem?_eq_getElem hb]; exact List.getElem_mem hb

theorem sinv_step (names : List Bytes) (nb k : Nat) (st : List Nat × List Nat) (hk1 : 1 ≤ k) (hkn : k < names.length)
    (hnb : 1 ≤ nb) (I : SInv names nb k st) : SInv names nb (k + 1) (sysvStep names nb st k) := by
  have hget : names[k]? = some names[k] := List.getElem?_eq_getElem hkn
  have hD : names.getD k [] = names[k] := by simp [List.getD_eq_getElem?_getD, hget]
  obtain ⟨B, C⟩ := st
  have hstep : sysvStep names nb (B, C) k
      = (B.set (sbk names nb k) k, C.set k (B.getD (sbk names nb k) 0)) := by
    simp only [sysvStep, hget, sbk, hD]
  rw [hstep]
  have hbl : sbk names nb k < B.length := by rw [I.blen]; exact Nat.mod_lt _ hnb
  have hold : B.getD (sbk names nb k) 0 < k := I.blt _ (getD_mem hbl)
  have hkC : k < C.length := by rw [I.clen]; exact hkn
  have hdec' : Dec (C.set k (B.getD (sbk names nb k) 0)) := by
    intro j v hj hv
    rw [List.getElem?_set] at hv
    by_cases hjk : k = j
    · subst hjk
      simp only [if_true, hkC] at hv
      have := Option.some.inj hv; omega
    · simp only [hjk, if_false] at hv
      exact I.dec j v hj hv
  refine ⟨by simpa using I.blen, by simpa using I.clen, ?_, ?_, hdec', ?_⟩
  · intro v hv
    rcases List.mem_or_eq_of_mem_set hv with h | h
    · have := I.blt v h; omega
    · omega
  · intro v hv
    rcases List.mem_or_eq_of_mem_set hv with h | h
    · have := I.clt v h; omega
    · omega
  · intro b hb
    rw [bucketList_succ names nb k b hk1]
    by_cases hbb : sbk names nb k = b
    · subst hbb
      have h1 : (B.set (sbk names nb k) k).getD (sbk names nb k) 0 = k := by
        rw [List.getD_eq_getElem?_getD, List.getElem?_set_self hbl]; rfl
      have hk0 : k ≠ 0 := by omega
      simp only [h1, if_true]
      rw [chainFrom]
      simp only [hk0, if_false, List.getElem?_set_self hkC]
      rw [chainFrom_set_stable I.dec k _ _ _ hold,
        chainFrom_fuel I.dec names.length (names.length + 1) _ (by omega) (by omega), I.chain _ hb]
      rfl
    · have h1 : (B.set (sbk names nb k) k).getD b 0 = B.getD b 0 := by
        rw [List.getD_eq_getElem?_getD, List.getElem?_set_ne hbb, ← List.getD_eq_getElem?_getD]
      have hbl' : b < B.length := by rw [I.blen]; exact hb
      have hlt : B.getD b 0 < k := I.blt _ (getD_mem hbl')
      simp only [h1, hbb, if_false]
      rw [chainFrom_set_stable I.dec k _ _ _ hlt]
      exact I.chain b hb

theorem foldl_range'_inv {σ : Type} (Inv : Nat → σ → Prop) (step : σ → Nat → σ) :
    ∀ (c s : Nat) (st : σ), Inv s st → (∀ j st, s ≤ j → j < s + c → Inv j st → Inv (j + 1) (step st j)) →
      Inv (s + c) ((List.range' s c).foldl step st) := by
  intro c
  induction c with
  | zero => intro s st h _; simpa using h
  | succ c ih =>
    intro s st h hs
    rw [List.range'_succ, List.foldl_cons]
    have := ih (s + 1) (step st s) (hs s st (Nat.le_refl _) (by omega) h)
      (fun j st' h1 h2 hI => hs j st' (by omega) (by omega) hI)
    rwa [show s + 1 + c = s + (c + 1) by omega] at this

/-- the state at the end of the build -/
theorem sinv_final (names : List Bytes) (nb : Nat) (hn : 1 ≤ names.length) (hnb : 1 ≤ nb) :
    SInv names nb names.length (sysvFold names nb) := by
  have := foldl_range'_inv (SInv names nb) (sysvStep names nb) (names.length - 1) 1 _ (sinv_init names nb)
    (fun j st h1 h2 hI => sinv_step names nb j st h1 (by omega) hnb hI)
  rwa [show 1 + (names.length - 1) = names.length by omega] at this

/-- the chain of the bucket a name hashes to, in the built table: all symbols of that bucket, descending -/
theorem buildSysV_bucketChain (names : List Bytes) (nb : Nat) (hn : 1 ≤ names.length) (hnb : 1 ≤ nb) (name : Bytes) :
    sysvBucketChain (buildSysV names nb) name
      = some (bucketList names nb names.length ((elfHash32 name).toNat % nb)) := by
  have I := sinv_final names nb hn hnb
  have hb : (elfHash32 name).toNat % nb < nb := Nat.mod_lt _ hnb
  have hbl : (elfHash32 name).toNat % nb < (sysvFold names nb).1.length := by rw [I.blen]; exact hb
  rw [buildSysV_eq]
  simp only [sysvBucketChain, List.getElem?_eq_getElem hbl]
  have := I.chain _ hb
  rwa [List.getD_eq_getElem?_getD, List.getElem?_eq_getElem hbl] at this

/-- TASK 1 (SysV): the builder's output is well-formed, for every list of names (any size ≥ 1 — entry 0 is
    the null symbol —, duplicates, empty names) and every number of buckets ≥ 1 -/
theorem buildSysV_wf (names : List Bytes) (nb : Nat) (hn : 1 ≤ names.length) (hn32 : names.length < 2 ^ 32)
    (hnb : 1 ≤ nb) (hnb32 : nb < 2 ^ 32) : WFSysV names (buildSysV names nb) = true := by
  have I := sinv_final names nb hn hnb
  have hchain := buildSysV_bucketChain names nb hn hnb
  simp only [WFSysV, Bool.and_eq_true, decide_eq_true_eq, List.all_eq_true]
  rw [buildSysV_eq] at hchain ⊢
  refine ⟨⟨⟨⟨⟨⟨⟨⟨⟨hnb, I.blen⟩, I.clen⟩, rfl⟩, hn32⟩, hnb32⟩, I.blt⟩, I.clt⟩, ?_⟩, ?_⟩
  · intro v hv
    obtain ⟨b, hb, rfl⟩ := List.mem_iff_getElem.mp hv
    have hb' : b < nb := by rw [← I.blen]; exact hb
    have := I.chain b hb'
    rw [List.getD_eq_getElem?_getD, List.getElem?_eq_getElem hb] at this
    simp only [Option.getD_some] at this
    simp [this]
  · intro i hi
    have hin : i < names.length := List.mem_range.mp hi
    by_cases h0 : i = 0
    · simp [h0]
    · have hne : (i == 0) = false := by simpa using h0
      simp only [hne, Bool.false_or, List.getElem?_eq_getElem hin, hchain]
      simp only [List.contains_iff_mem, mem_bucketList]
      refine ⟨by omega, hin, ?_⟩
      simp [sbk, List.getD_eq_getElem?_getD, List.getElem?_eq_getElem hin]

end PyElf.Proofs.C03
