/-
  C09 helper lemmas: `DynamicSegment.get_symbol_by_name`.  The name map is
  built from `iter_symbols()` (index lists per name, in index order); a hit is
  answered by `get_symbol(i)` for every index of the list, a miss by `None`.
  Whenever the enumeration succeeds and `get_symbol` returns the enumerated
  entries, the answer is "all enumerated symbols bearing the name, in index
  order — nothing for an absent name".
-/
import PyElf.Proofs.DynamicSym
namespace PyElf.Proofs.Dynamic
open PyElf PyElf.Spec PyElf.Spec.Dynamic PyElf.Model PyElf.Model.Dynamic PyElf.Proofs

/-- what a lookup by name must answer over the enumerated symbols `L` -/
def byNameOf (L : List (Bytes × Val)) (q : Bytes) : Option (List (Bytes × Val)) :=
  if (L.filter (·.1 == q)).isEmpty then none else some (L.filter (·.1 == q))

theorem mem_zip_range {α : Type} {L : List α} {p : Nat × α} (hp : p ∈ (List.range L.length).zip L) :
    ∃ h : p.1 < L.length, L[p.1] = p.2 := by
  obtain ⟨k, hk, he⟩ := List.mem_iff_getElem.1 hp
  have hk' : k < L.length := by simpa using hk
  rw [List.getElem_zip] at he
  subst he
  simp only [List.getElem_range]
  exact ⟨hk', trivial⟩

theorem mapM_fst_ok {α : Type} (f : Nat → R α) : ∀ ps : List (Nat × α), (∀ p ∈ ps, f p.1 = .ok p.2) →
    (ps.map (·.1)).mapM f = .ok (ps.map (·.2)) := by
  intro ps
  induction ps with
  | nil => intro _; rfl
  | cons p ps ih =>
    intro h
    simp only [List.map_cons, List.mapM_cons, h p (by simp), ih (fun x hx => h x (by simp [hx])), bind, Except.bind,
      pure, Except.pure]

theorem zip_filter_snd {α : Type} (L : List α) (P : α → Bool) :
    (((List.range L.length).zip L).filter (fun p => P p.2)).map (·.2) = L.filter P := by
  have h1 : ((List.range L.length).zip L).map (·.2) = L := List.map_snd_zip (by simp)
  have h2 := List.filter_map (f := fun p : Nat × α => p.2) (p := P) (l := (List.range L.length).zip L)
  rw [h1] at h2
  rw [h2]
  rfl

section byName
variable {env : Env} {S : ElfStructs} {data : Bytes} {d : Dyn} {le : Bool} {ifc : FileIfc}
  {iterSegs : R (List (String × Val))}

/-- `get_symbol_by_name(q)` when the enumeration yields `L` and `get_symbol(i)` returns `L[i]` -/
theorem getSymbolByName_of {L : List (Bytes × Val)}
    (hit : iterSymbols env S data ifc d iterSegs le = .ok L)
    (hget : ∀ i (h : i < L.length), getSymbol env S data ifc d i = .ok L[i]) (q : Bytes) :
    getSymbolByName env S data ifc d iterSegs le q = .ok (byNameOf L q) := by
  unfold getSymbolByName byNameOf
  simp only [hit, bind, Except.bind]
  have hmap : ((((List.range L.length).zip L).filter (fun p => p.2.1 == q)).map (·.1)).mapM (getSymbol env S data ifc d)
      = .ok ((((List.range L.length).zip L).filter (fun p => p.2.1 == q)).map (·.2)) := by
    apply mapM_fst_ok
    intro p hp
    obtain ⟨h, he⟩ := mem_zip_range (List.mem_filter.1 hp).1
    rw [hget p.1 h, he]
  have hz := zip_filter_snd L (fun x => x.1 == q)
  rw [hmap, hz]
  have hemp : ((((List.range L.length).zip L).filter (fun p => p.2.1 == q)).map (·.1)).isEmpty
      = (L.filter (·.1 == q)).isEmpty := by
    rw [← hz]
    simp
  rw [hemp]
  cases (L.filter (·.1 == q)).isEmpty <;> rfl

/-- a failed enumeration fails the lookup the same way -/
theorem getSymbolByName_error {e : Err}
    (hit : iterSymbols env S data ifc d iterSegs le = .error e) (q : Bytes) :
    getSymbolByName env S data ifc d iterSegs le q = .error e := by
  unfold getSymbolByName
  simp [hit, bind, Except.bind]

end byName

/-- the Spec's answer (Spec/Dynamic.lean `obsByName`) is `byNameOf` over the described symbols -/
theorem obsByName_eq {env : Env} {d : DynDesc} {ss : List (Bytes × Val)} (h : obsSyms env d = .ok ss) (q : Bytes) :
    obsByName env d q = .ok (byNameOf ss q) := by
  unfold obsByName byNameOf
  simp only [h, bind, Except.bind, pure, Except.pure]

/-! ### what the answer means -/

/-- an absent name gives `None` -/
theorem byNameOf_absent {L : List (Bytes × Val)} {q : Bytes} (h : ∀ x ∈ L, x.1 ≠ q) : byNameOf L q = none := by
  unfold byNameOf
  have : L.filter (·.1 == q) = [] := List.filter_eq_nil_iff.2 (fun x hx => by simpa using h x hx)
  simp [this]

/-- a present name gives every symbol bearing it (duplicates included), in index order, and no other -/
theorem byNameOf_present {L : List (Bytes × Val)} {q : Bytes} {hit : List (Bytes × Val)}
    (h : byNameOf L q = some hit) :
    hit ≠ [] ∧ hit.Sublist L ∧ (∀ x ∈ hit, x.1 = q) ∧ (∀ x ∈ L, x.1 = q → x ∈ hit) ∧
    hit.length = L.countP (·.1 == q) := by
  unfold byNameOf at h
  split at h
  · cases h
  · rename_i hne
    cases h
    refine ⟨by simpa [List.isEmpty_iff] using hne, List.filter_sublist, ?_, ?_, ?_⟩
    · intro x hx; simpa using (List.mem_filter.1 hx).2
    · intro x hx hq; exact List.mem_filter.2 ⟨hx, by simpa using hq⟩
    · exact (List.countP_eq_length_filter).symm

end PyElf.Proofs.Dynamic
