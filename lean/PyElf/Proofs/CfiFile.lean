/-
  C06 helper lemmas for the whole-file theorems: the entry scan depends on the struct factory only at
  the two DWARF formats (`parseEntries_structs`), the `CallFrameInfo` that `DWARFInfo.CFI_entries()` /
  `EH_CFI_entries()` builds from a descriptor is the one the section theorems are about (`cfiOfDescr_entries`),
  descriptors through C11's view (`descr_of_view`), and the composition (`entriesOf_of_view`).
-/
import PyElf.Model.CallFrameFile
import PyElf.Proofs.CfiEntries
import PyElf.Proofs.CfiEhFde
import PyElf.Props.C11
namespace PyElf.Proofs.CfiFile
open PyElf PyElf.Spec PyElf.Model PyElf.Model.C11 PyElf.Model.C06 PyElf.Proofs.Cfi PyElf.Proofs.C11

/-! ### the entry scan uses `structs` at 32 and 64 only -/

theorem parseCieForFde_structs (C : Cfi) (g : Nat → R DwarfStructs) :
    parseCieForFde { C with structs := g } = parseCieForFde C := rfl

theorem parseFdeHeader_structs (C : Cfi) (g : Nat → R DwarfStructs) :
    parseFdeHeader { C with structs := g } = parseFdeHeader C := rfl

theorem parseCieAugmentation_structs (C : Cfi) (g : Nat → R DwarfStructs) :
    parseCieAugmentation { C with structs := g } = parseCieAugmentation C := rfl

theorem readAugmentationData_structs (C : Cfi) (g : Nat → R DwarfStructs) :
    readAugmentationData { C with structs := g } = readAugmentationData C := rfl

theorem parseLsdaPointer_structs (C : Cfi) (g : Nat → R DwarfStructs) :
    parseLsdaPointer { C with structs := g } = parseLsdaPointer C := rfl

theorem parseEntryAt_structs (C : Cfi) (g : Nat → R DwarfStructs) (h32 : g 32 = C.structs 32) (h64 : g 64 = C.structs 64) :
    ∀ (fuel : Nat) (off : Int) (pos : Nat) (cache : Cache),
      parseEntryAt { C with structs := g } fuel off pos cache = parseEntryAt C fuel off pos cache := by
  intro fuel
  induction fuel with
  | zero => intro off pos cache; rfl
  | succ n ih =>
    intro off pos cache
    have hrec : parseEntryAt { C with structs := g } n = parseEntryAt C n := by
      funext a b c; exact ih a b c
    have hg : ∀ k : Nat, g (if k = 0xFFFFFFFF then 64 else 32) = C.structs (if k = 0xFFFFFFFF then 64 else 32) := by
      intro k; split <;> assumption
    simp only [parseEntryAt, hrec, h32, hg, parseCieForFde_structs, parseFdeHeader_structs,
      parseCieAugmentation_structs, readAugmentationData_structs, parseLsdaPointer_structs]

theorem parseEntriesLoop_structs (C : Cfi) (g : Nat → R DwarfStructs) (h32 : g 32 = C.structs 32) (h64 : g 64 = C.structs 64)
    (size depth : Nat) : ∀ (fuel off : Nat) (cache : Cache),
      parseEntriesLoop { C with structs := g } size depth fuel off cache = parseEntriesLoop C size depth fuel off cache := by
  intro fuel
  induction fuel with
  | zero => intro off cache; rfl
  | succ n ih =>
    intro off cache
    simp only [parseEntriesLoop, parseEntryAt_structs C g h32 h64, ih]

/-- the scan is the same under any two struct factories that agree at the two DWARF formats -/
theorem parseEntries_structs (C : Cfi) (g : Nat → R DwarfStructs) (h32 : g 32 = C.structs 32) (h64 : g 64 = C.structs 64)
    (size : Nat) : parseEntries { C with structs := g } size = parseEntries C size := by
  simp only [parseEntries, parseEntriesLoop_structs C g h32 h64]

/-! ### the `CallFrameInfo` of `CFI_entries()` / `EH_CFI_entries()` -/

/-- what the whole-file theorems need of the DWARF struct factory: at the configuration of the file, for
    both DWARF formats, it gives the Spec's bundle (TieDwarf: the regenerated factory does) -/
def StructsOk (P : Params) (le : Bool) (asz : Nat) : Prop :=
  ∀ fmt, fmt = 32 ∨ fmt = 64 → P.dwarfStructsFor ⟨le, fmt, asz, 2⟩ = some (Spec.dwarfStructs ⟨le, fmt, asz, 2⟩)

theorem cfiOfDescr_entries (P : Params) (di : DwarfInfo) (d : Descr) (sec : Section)
    (hle : di.le = sec.le) (hasz : di.addrSize = sec.asz) (hDS : StructsOk P sec.le sec.asz)
    (hs : d.stream = encodeSection sec) (ha : d.address = sec.address) (n : Nat) :
    parseEntries (cfiOfDescr Spec.cfiTables P di d sec.eh) n = parseEntries (cfiOf sec P.env (encodeSection sec)) n := by
  have h : cfiOfDescr Spec.cfiTables P di d sec.eh
      = { cfiOf sec P.env (encodeSection sec) with
          structs := fun fmt =>
            match P.dwarfStructsFor ⟨sec.le, fmt, sec.asz, 2⟩ with
            | some S => .ok S
            | none => .error .assertion } := by
    simp only [cfiOfDescr, cfiOf, hs, ha, hle, hasz]
    rfl
  rw [h, parseEntries_structs]
  · simp only [cfiOf, hDS 32 (Or.inl rfl)]
  · simp only [cfiOf, hDS 64 (Or.inr rfl)]

/-! ### descriptors through C11's view -/

/-- a DWARFInfo whose view is a content: configuration, and per keyword of the reader's table the descriptor
    (bytes, size, address) the content prescribes -/
theorem descr_of_view {di : DwarfInfo} {le : Bool} {asz : Nat} {arch : String} {names : List (String × Bytes × Bool)}
    {content : Content} {supv : Option View}
    (hv : di.view = .mk le asz arch (contentView names content) supv) (kw : String) (hk : kw ∈ names.map (·.1)) :
    di.le = le ∧ di.addrSize = asz ∧
      (descrOf di.secs kw).map Descr.view = (content kw).map fun pa => ⟨pa.1, pa.1.length, pa.2⟩ := by
  have key : ∀ (ds : List (String × Option Descr)), secViews ds = contentView names content →
      (descrOf ds kw).map Descr.view = (content kw).map fun pa => ⟨pa.1, pa.1.length, pa.2⟩ := by
    intro ds hds
    rw [descrOf_view, hds, viewOf_contentView_some names content kw hk]
  cases di with
  | mk l a ar ds sup =>
    cases sup with
    | none =>
      simp only [DwarfInfo.view, View.mk.injEq] at hv
      exact ⟨hv.1, hv.2.1, key ds hv.2.2.2.1⟩
    | some s =>
      simp only [DwarfInfo.view, View.mk.injEq] at hv
      exact ⟨hv.1, hv.2.1, key ds hv.2.2.2.1⟩

theorem hasCFI_of_view {di : DwarfInfo} {le : Bool} {asz : Nat} {arch : String} {names : List (String × Bytes × Bool)}
    {content : Content} {supv : Option View}
    (hv : di.view = .mk le asz arch (contentView names content) supv) (kw : String) (hk : kw ∈ names.map (·.1)) :
    (descrOf di.secs kw).isSome = (content kw).isSome := by
  have := (descr_of_view hv kw hk).2.2
  cases h1 : descrOf di.secs kw <;> cases h2 : content kw <;> simp [h1, h2] at this ⊢

/-- COMPOSITION: on a DWARFInfo whose view is a content that has, under keyword `kw`, the Spec encoding of a
    well-formed CFI description at the description's address, the accessor yields the described entries -/
theorem entriesOf_of_view {P : Params} {di : DwarfInfo} {le : Bool} {asz : Nat} {arch : String}
    {names : List (String × Bytes × Bool)} {content : Content} {supv : Option View}
    (hv : di.view = .mk le asz arch (contentView names content) supv) (kw : String) (hk : kw ∈ names.map (·.1))
    (sec : Section) (hle : sec.le = le) (hasz : sec.asz = asz)
    (hc : content kw = some (encodeSection sec, sec.address)) (hDS : StructsOk P le asz)
    (hwf : sec.wf = true) (hsz : (encodeSection sec).length < 2 ^ 63) :
    entriesOf Spec.cfiTables P di kw sec.eh = .ok (modelFrom sec 0 sec.entries) := by
  obtain ⟨h1, h2, h3⟩ := descr_of_view hv kw hk
  rw [hc] at h3
  cases hd : descrOf di.secs kw with
  | none => simp [hd] at h3
  | some d =>
    simp only [hd, Option.map_some, Option.some.injEq] at h3
    have hs : d.stream = encodeSection sec := congrArg SecView.stream h3
    have hn : d.size = (encodeSection sec).length := congrArg SecView.size h3
    have ha : d.address = sec.address := congrArg SecView.address h3
    simp only [entriesOf, hd]
    rw [cfiOfDescr_entries P di d sec (by rw [h1, hle]) (by rw [h2, hasz]) (by rw [hle, hasz]; exact hDS) hs ha, hn]
    exact parseEntries_ok sec P.env hwf hsz (fdeMissOk sec P.env hwf hsz)

/-- without the section the accessor fails as `None.stream` does -/
theorem entriesOf_absent {P : Params} {di : DwarfInfo} {le : Bool} {asz : Nat} {arch : String}
    {names : List (String × Bytes × Bool)} {content : Content} {supv : Option View} (T : CfiTables)
    (hv : di.view = .mk le asz arch (contentView names content) supv) (kw : String) (hk : kw ∈ names.map (·.1))
    (hc : content kw = none) (eh : Bool) : entriesOf T P di kw eh = .error .attributeError := by
  have := hasCFI_of_view hv kw hk
  rw [hc] at this
  cases hd : descrOf di.secs kw with
  | none => simp only [entriesOf, hd]
  | some d => simp [hd] at this

/-! ### from the view of a byte string to what an accessor yields on it -/

theorem onFile_of_view {α : Type} {P : Params} {fuel : Nat} {loader : Option Loader} {data : Bytes}
    {relocate followLinks : Bool} {v : View} (f : DwarfInfo → R α) (r : R α)
    (hview : dwarfView P fuel loader data relocate followLinks = .ok v)
    (hf : ∀ di, di.view = v → f di = r) :
    onFile P fuel loader data relocate followLinks f = liftR r := by
  unfold dwarfView at hview
  cases h : getDwarfInfo P fuel loader data relocate followLinks with
  | error e => simp [h, Except.map] at hview
  | ok di =>
    simp only [h, Except.map, Except.ok.injEq] at hview
    simp only [onFile, h, bind, Except.bind, hf di hview]

/-! ### the i-th object of `modelFrom` -/

theorem modelFrom_drop_get (sec : Section) : ∀ (i j : Nat) (se : Spec.Entry), sec.entries[j + i]? = some se →
    (modelFrom sec (sec.offsetOf j) (sec.entries.drop j))[i]? = some (modelOf sec (sec.offsetOf (j + i)) se) := by
  intro i
  induction i with
  | zero =>
    intro j se h
    have hj : j < sec.entries.length := (List.getElem?_eq_some_iff.1 h).1
    have he : sec.entries[j] = se := (List.getElem?_eq_some_iff.1 h).2
    rw [← List.getElem_cons_drop hj, he]
    simp [modelFrom]
  | succ i ih =>
    intro j se h
    have hji : j + (i + 1) < sec.entries.length := (List.getElem?_eq_some_iff.1 h).1
    have hj : j < sec.entries.length := by omega
    rw [← List.getElem_cons_drop hj]
    simp only [modelFrom, List.getElem?_cons_succ]
    rw [← offsetOf_succ sec j _ (List.getElem?_eq_getElem hj)]
    have := ih (j + 1) se (by rw [Nat.add_assoc, Nat.add_comm 1 i]; exact h)
    rw [this, Nat.add_assoc, Nat.add_comm 1 i]

theorem modelFrom_length (sec : Section) : ∀ (es : List Spec.Entry) (off : Nat), (modelFrom sec off es).length = es.length := by
  intro es
  induction es with
  | nil => intro off; rfl
  | cons e es ih => intro off; simp [modelFrom, ih]

/-- the i-th object the scan returns is the object of the i-th entry of the description -/
theorem modelFrom_get (sec : Section) (i : Nat) (se : Spec.Entry) (h : sec.entries[i]? = some se) :
    (modelFrom sec 0 sec.entries)[i]? = some (modelOf sec (sec.offsetOf i) se) := by
  have := modelFrom_drop_get sec i 0 se (by rw [Nat.zero_add]; exact h)
  simpa [Section.offsetOf] using this

end PyElf.Proofs.CfiFile
