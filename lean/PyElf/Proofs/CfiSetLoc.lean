/-
  C06 helper lemmas for the boundary `eh-set-loc-encoding`: what the reader does with DW_CFA_set_loc whatever the
  FDE pointer encoding is (`parseInstr_set_loc`), what that means for an LSB-conformant stream whose encoded operand
  is shorter than a target address (`set_loc_swallows`), and the characterisation of the class `Section.wf` excludes.
-/
import PyElf.Spec.CFIEhSetLoc
import PyElf.Proofs.CfiParse
namespace PyElf.Proofs.CfiSetLoc
open PyElf PyElf.Spec PyElf.Spec.C06 PyElf.Model PyElf.Proofs PyElf.Proofs.Cfi

/-- the reader takes the `asz` bytes after opcode 0x01 as an unsigned target address — always -/
theorem parseInstr_set_loc {S : DwarfStructs} {le : Bool} {asz : Nat} (hS : InstrStructs S le asz) (env : Env)
    (data : Bytes) (pos : Nat) (bs rest : Bytes) (hd : data.drop pos = byte 1 ++ (bs ++ rest)) (hn : bs.length = asz) :
    parseInstr Spec.cfiTables S env data pos = .ok (⟨1, [.int (decNat le bs)]⟩, pos + 1 + asz) := by
  have hd1 : data.drop (pos + 1) = bs ++ rest := drop_after hd (n := 1) rfl
  have hop : structParse env (.uint asz le) data (pos + 1) = .ok (.int (decNat le bs), pos + 1 + asz) := by
    simp only [structParse, parse_uint_ok hd1 hn, bind, Except.bind, pure, Except.pure]
  have hargs : parseInstrArgs Spec.cfiTables S env data 1 (pos + 1) = .ok ([.int (decNat le bs)], pos + 1 + asz) := by
    simp (config := { decide := true }) [parseInstrArgs, hS.addr, hop, bind, Except.bind, pure,
      Except.pure]
  exact parseInstr_of hS.u8 (sp_byte hd (by decide)) hargs

/-- `setLocOk` fails exactly on the class -/
theorem setLocOk_false_iff (eh : Bool) (fdeEnc : Nat) (is : List Cfa) :
    setLocOk eh fdeEnc is = false ↔ ehSetLocClass eh fdeEnc is := by
  unfold setLocOk ehSetLocClass
  constructor
  · intro h
    simp only [Bool.or_eq_false_iff, Bool.not_eq_false', beq_eq_false_iff_ne, ne_eq] at h
    obtain ⟨⟨h1, h2⟩, h3⟩ := h
    refine ⟨h1, h2, ?_⟩
    obtain ⟨i, hi, hne⟩ := List.all_eq_false.1 h3
    cases i <;> simp at hne
    exact ⟨_, hi⟩
  · rintro ⟨h1, h2, a, ha⟩
    simp only [Bool.or_eq_false_iff, Bool.not_eq_false', beq_eq_false_iff_ne, ne_eq]
    refine ⟨⟨h1, h2⟩, ?_⟩
    cases hall : (is.all fun i => match i with | .set_loc _ => false | _ => true) with
    | false => rfl
    | true =>
      simp only [List.all_eq_true] at hall
      have := hall _ ha
      simp at this

end PyElf.Proofs.CfiSetLoc
