/-
  C09 helper lemmas: the dynamic symbol table of a `DynDesc`.  An encodable
  `Elf_Sym` record decodes (pass-through enums, bit fields present), `st_name`
  decodes to the number that was encoded: the `SymView` hypothesis of
  `symbols_exact`, established.
-/
import PyElf.Proofs.DynamicImage
namespace PyElf.Proofs.Dynamic
open PyElf PyElf.Spec PyElf.Spec.Dynamic PyElf.Model PyElf.Model.Dynamic PyElf.Proofs

/-! ### encodable ⇒ decodable, for the constructs `Elf_Sym` is made of -/

def Total (env : Env) (c : Con) : Prop :=
  ∀ (ctx : Fields) (v : Val) (b : Bytes), c.encodeRaw v = some b → ∃ x, c.decodeRaw env ctx v = .ok x

def TotalF (env : Env) (fs : ConFields) : Prop :=
  ∀ (raw obj ctx : Fields) (b : Bytes), fs.encodeRaw raw = some b → ∃ r, fs.decodeRaw env raw obj ctx = .ok r

theorem total_uint (env : Env) (n : Nat) (le : Bool) : Total env (.uint n le) := by
  intro ctx v b _
  exact ⟨v, by cases v <;> simp [Con.decodeRaw]⟩

theorem total_enum_pass (env : Env) (n : Nat) (le : Bool) (tbl : String) :
    Total env (.enum (.uint n le) tbl true) := by
  intro ctx v b _
  cases v with
  | int x =>
    rw [Con.decodeRaw]
    cases env.enumDecode tbl x with
    | none => exact ⟨_, rfl⟩
    | some s => exact ⟨_, rfl⟩
  | str x => exact ⟨.str x, by simp [Con.decodeRaw]⟩
  | bytes x => exact ⟨.bytes x, by simp [Con.decodeRaw]⟩
  | bool x => exact ⟨.bool x, by simp [Con.decodeRaw]⟩
  | none => exact ⟨.none, by simp [Con.decodeRaw]⟩
  | list x => exact ⟨.list x, by simp [Con.decodeRaw]⟩
  | record x => exact ⟨.record x, by simp [Con.decodeRaw]⟩

def bitsPass (fs : List BitFld) : Bool :=
  fs.all fun f => match f.table with
    | some (_, p) => p
    | none => true

theorem decodeBits_total (env : Env) : ∀ (fs : List BitFld) (total : Nat) (raw acc : Fields) (n : Nat),
    bitsPass fs = true → packBits total fs raw = some n → ∃ out, decodeBits env fs raw acc = .ok out
  | [], _, _, acc, _, _, _ => ⟨acc, rfl⟩
  | f :: rest, total, raw, acc, n, hp, hk => by
    have ih := decodeBits_total env rest
    simp only [bitsPass, List.all_cons, Bool.and_eq_true] at hp
    rw [packBits] at hk
    rw [decodeBits]
    cases hn : f.name with
    | none =>
      simp only [hn] at hk ⊢
      exact ih _ raw acc n hp.2 hk
    | some nm =>
      simp only [hn] at hk ⊢
      cases hg : Fields.get? raw nm with
      | none => simp [hg] at hk
      | some v =>
        cases v with
        | int x =>
          simp only [hg] at hk ⊢
          split at hk
          · obtain ⟨r, hr, -⟩ := Option.map_eq_some_iff.1 hk
            cases ht : f.table with
            | none => exact ih _ raw _ r hp.2 hr
            | some tp =>
              obtain ⟨tbl, pass⟩ := tp
              have hpass : pass = true := by simpa [ht] using hp.1
              subst hpass
              simp only
              cases env.enumDecode tbl x with
              | none => simp only [if_true]; exact ih _ raw _ r hp.2 hr
              | some s => exact ih _ raw _ r hp.2 hr
          · cases hk
        | _ => simp [hg] at hk

theorem total_bits (env : Env) (fs : List BitFld) (hp : bitsPass fs = true) : Total env (.bits fs) := by
  intro ctx v b he
  cases v with
  | record raw =>
    rw [Con.encodeRaw] at he
    obtain ⟨n, hn, -⟩ := Option.map_eq_some_iff.1 he
    obtain ⟨out, hout⟩ := decodeBits_total env fs _ raw [] n hp hn
    exact ⟨.record out, by rw [Con.decodeRaw]; simp [hout, bind, Except.bind, pure, Except.pure]⟩
  | _ => simp [Con.encodeRaw] at he

theorem totalF_nil (env : Env) : TotalF env .nil := by
  intro raw obj ctx b _
  exact ⟨(obj, ctx), by rw [ConFields.decodeRaw]⟩

theorem totalF_cons (env : Env) (nm : String) (embed : Bool) (c : Con) (rest : ConFields)
    (hc : Total env c) (hr : TotalF env rest) : TotalF env (.cons (some nm) embed c rest) := by
  intro raw obj ctx b he
  rw [ConFields.encodeRaw] at he
  obtain ⟨a, b', ha, hb, -⟩ := bind2_eq_some he
  obtain ⟨x, hx⟩ := hc ctx _ a ha
  obtain ⟨r, hr'⟩ := hr raw (Fields.set obj nm x) (Fields.set ctx nm x) b' hb
  exact ⟨r, by rw [ConFields.decodeRaw]; simp only [hx, bind, Except.bind]; exact hr'⟩

theorem total_struct (env : Env) (fs : ConFields) (h : TotalF env fs) : Total env (.struct fs) := by
  intro ctx v b he
  cases v with
  | record raw =>
    rw [Con.encodeRaw] at he
    obtain ⟨r, hr⟩ := h raw [] [] b he
    exact ⟨.record r.1, by rw [Con.decodeRaw]; simp [hr, bind, Except.bind, pure, Except.pure]⟩
  | _ => simp [Con.encodeRaw] at he

/-- an encodable symbol record decodes -/
theorem sym_total (env : Env) (c : ElfCfg) : Total env (elfStructs c).Elf_Sym := by
  simp only [elfStructs, st, mkFields, f, enumOf]
  split <;>
  · apply total_struct
    repeat' (first
      | exact totalF_nil env
      | apply totalF_cons
      | exact total_uint env _ _
      | exact total_enum_pass env _ _ _
      | exact total_bits env _ (by decide))

/-! ### the stored symbol table: `SymView` -/

theorem sym_fixed (c : ElfCfg) : (elfStructs c).Elf_Sym.fixed = true := by
  simp only [elfStructs, st, mkFields, f, enumOf]
  split <;> rfl

theorem sym_size (c : ElfCfg) : ∃ sz, (elfStructs c).Elf_Sym.sizeof = some sz ∧ 0 < sz := by
  by_cases h32 : c.cls = 32
  · exact ⟨12 + c.cls / 8, by
      simp [elfStructs, h32, st, mkFields, f, enumOf, Con.sizeof, ConFields.sizeof, bind, Option.bind], by omega⟩
  · exact ⟨8 + 2 * (c.cls / 8), by
      simp [elfStructs, h32, st, mkFields, f, enumOf, Con.sizeof, ConFields.sizeof, bind, Option.bind]
      omega, by omega⟩

theorem sym_struct (c : ElfCfg) :
    ∃ fs, (elfStructs c).Elf_Sym = .struct fs ∧ fieldCon fs "st_name" = some (.uint 4 c.le) := by
  simp only [elfStructs, st]
  split <;> exact ⟨_, rfl, by simp [mkFields, f, fieldCon, fieldNames]⟩

theorem encAll_mem {c : Con} : ∀ {xs : List Val} {bs : Bytes}, encAll c xs = some bs →
    ∀ x ∈ xs, ∃ b, c.encodeRaw x = some b := by
  intro xs
  induction xs with
  | nil => intro _ _ x hx; simp at hx
  | cons y ys ih =>
    intro bs he x hx
    obtain ⟨b, bs', hb, hbs', -⟩ := encAll_cons he
    rcases List.mem_cons.1 hx with rfl | hx'
    · exact ⟨b, hb⟩
    · exact ih hbs' x hx'

/-- the decoded entries of an encodable symbol table exist, and `st_name` decodes to what was
    encoded: the `SymView` hypothesis, for any placement of the table -/
theorem symView_of (env : Env) (c : ElfCfg) (data : Bytes) (symOff : Nat) (syms : List Fields) (sb rest : Bytes)
    (he : encAll (elfStructs c).Elf_Sym (syms.map .record) = some sb) (hd : data.drop symOff = sb ++ rest) :
    ∃ es, SymView env (elfStructs c) data symOff syms es := by
  have hdec : ∃ es, syms.mapM (fun s => (elfStructs c).Elf_Sym.decodeRaw env [] (.record s)) = .ok es := by
    apply mapM_ok_exists
    intro s hs
    obtain ⟨b, hb⟩ := encAll_mem he (.record s) (List.mem_map_of_mem hs)
    exact sym_total env c [] _ b hb
  obtain ⟨es, hes⟩ := hdec
  obtain ⟨hlen, hall⟩ := mapM_ok_inv _ _ _ hes
  refine ⟨es, sym_fixed c, sym_size c, ⟨sb, rest, he, hd⟩, hlen, ?_⟩
  intro i h1 h2
  have hd' := hall i h1 h2
  refine ⟨hd', ?_⟩
  obtain ⟨b, hb⟩ := encAll_mem he (.record syms[i]) (List.mem_map_of_mem (List.getElem_mem h1))
  obtain ⟨fs, hfs, hf⟩ := sym_struct c
  rw [hfs] at hb hd'
  obtain ⟨z, -, hz1, hz2⟩ := uint_field hf hb hd'
  rw [getNat_of_getField hz2]
  simp [getNatD, hz1]

/-- the Spec's symbol observation, given the decoded entries -/
theorem obsSyms_eq {env : Env} {d : DynDesc} {data : Bytes} {symOff : Nat} {es : List Val}
    (Y : SymView env d.S data symOff d.syms es) :
    obsSyms env d = .ok ((List.range d.syms.length).map fun i =>
      ((strAt d.strtab (getNatD (d.syms.getD i []) "st_name")).getD [], es.getD i .none)) := by
  unfold obsSyms
  apply mapM_ok_of_forall
  · simp
  · intro i h1 h2
    have h3 : i < es.length := by rw [Y.len]; exact h1
    obtain ⟨hdec, -⟩ := Y.dec i h1 h3
    unfold obsSym
    simp [hdec, bind, Except.bind, pure, Except.pure, List.getD, List.getElem?_eq_getElem h1,
      List.getElem?_eq_getElem h3]

/-! ### the hash tables: `WFGnu ∨ WFSysV`, established -/

theorem hash_wf {env : Env} {d : DynDesc} {full : Bool} {b : List (Nat × Bytes)} {data : Bytes}
    (W : DynWf env d full) (hh : hashOk d = true) (B : BlobFacts d full b)
    (hpl : ∀ r ∈ b, ∃ rest, data.drop r.1 = r.2 ++ rest) :
    (∃ a o h rest, firstVal d.live DT_GNU_HASH = some a ∧ mapAddr (d.phdrs env) a = some o ∧
        GnuHash.wf h d.syms.length = true ∧ data.drop o = h.enc d.le d.w ++ rest) ∨
    (firstVal d.live DT_GNU_HASH = none ∧
      ∃ a o h rest, firstVal d.live DT_HASH = some a ∧ mapAddr (d.phdrs env) a = some o ∧
        SysvHash.wf h d.syms.length = true ∧ data.drop o = h.enc d.le ++ rest) := by
  unfold hashOk at hh
  simp only [Bool.and_eq_true, Bool.or_eq_true] at hh
  obtain ⟨⟨hsome, hg⟩, hs⟩ := hh
  have hpg := W.gnuHash
  have hps := W.hash
  cases hgnu : d.gnu with
  | some p =>
    obtain ⟨h, o⟩ := p
    rw [hgnu] at hg hpg
    obtain ⟨a, ha, ho⟩ := ptrOk_some (by simpa using hpg)
    obtain ⟨rest, hrest⟩ := hpl _ (B.gnu h o hgnu)
    exact Or.inl ⟨a, o, h, rest, ha, ho, hg, hrest⟩
  | none =>
    rw [hgnu] at hpg hsome
    have hnone := ptrOk_none (by simpa using hpg)
    cases hsysv : d.sysv with
    | none => simp [hsysv] at hsome
    | some p =>
      obtain ⟨h, o⟩ := p
      rw [hsysv] at hs hps
      obtain ⟨a, ha, ho⟩ := ptrOk_some (by simpa using hps)
      obtain ⟨rest, hrest⟩ := hpl _ (B.sysv h o hsysv)
      exact Or.inr ⟨hnone, a, o, h, rest, ha, ho, hs, hrest⟩

end PyElf.Proofs.Dynamic
