/-
  Helper lemmas for C08, part 4: the apply loop over a whole relocation table
  against the standard's fold (`Spec.applyStd`).
-/
import PyElf.Proofs.Reloc
import PyElf.Proofs.RelocApply
namespace PyElf.Proofs.Reloc
open PyElf PyElf.Spec PyElf.Model PyElf.Model.Reloc PyElf.Proofs
set_option linter.unusedSimpArgs false

theorem applyAfterSym_length {a : Arch} {c : RelCfg} {rela : Bool} {s : Nat} {sec b : Bytes} {e : RelEntry}
    (hwf : WFApplyOne a c rela sec.length e = true) (h : applyAfterSym a c rela s sec e = some b) :
    b.length = sec.length := by
  simp only [WFApplyOne, Bool.and_eq_true] at hwf
  obtain ⟨_, hfit⟩ := hwf
  unfold applyAfterSym at h
  split at h
  · cases h
  · split at h
    · cases h
    · cases hps : psabi a rela e.type with
      | none => simp [hps] at h
      | some wf =>
        obtain ⟨w, fm⟩ := wf
        simp only [hps, Bool.or_eq_true, beq_iff_eq, decide_eq_true_eq] at hfit h
        split at h
        · cases h; rfl
        · rename_i hk
          cases h
          have hin : e.offset + w ≤ sec.length := by
            rcases hfit with h' | h'
            · exact absurd h' hk
            · exact h'
          exact (writeField_frame _ _ _ _ _ hin).1

theorem applyLoop_eq_std (cfg : ElfCfg) (hcls : cfg.cls = 32 ∨ cfg.cls = 64) (env : Env) (a : Arch)
    (hm : (relCfgOf cfg).mips = decide (a = .mips)) (rela : Bool) (es : List RelEntry) (syms : List Nat) (L : Nat)
    (symtab : SymTab) {data rest : Bytes} {base size : Nat}
    (hd : data.drop base = encRelTable (relCfgOf cfg) rela es ++ rest)
    (hfit : base + es.length * relEntSize (relCfgOf cfg) rela ≤ 2 ^ 63)
    (hwf : ∀ e ∈ es, WFApplyOne a (relCfgOf cfg) rela L e = true) (hL : L < 2 ^ 63)
    (hent : symtab.shEntsize ≠ 0) (hcount : symtab.shSize / symtab.shEntsize = syms.length)
    (hsym : ∀ i (h : i < syms.length), ∃ symv,
      seekParse env (Spec.elfStructs cfg).Elf_Sym data (symtab.shOffset + i * symtab.shEntsize) = .ok symv ∧
      symv.getInt "st_value" = .ok (syms[i] : Int)) :
    ∀ (count i : Nat) (sec : Bytes), i + count = es.length → sec.length = L →
      applyLoop env (Spec.elfStructs cfg) cfg.le cfg.cls (archString a) data symtab
          (specTable cfg (some base) size rela) count i sec
        = match applyStd a (relCfgOf cfg) rela syms sec (es.drop i) with
          | some b => .ok b
          | none => .error .elfRelocError := by
  have hwfrel : ∀ e ∈ es, WFRel (relCfgOf cfg) rela e = true := by
    intro e he
    have := hwf e he
    simp only [WFApplyOne, Bool.and_eq_true] at this
    exact this.1.1
  intro count
  induction count with
  | zero =>
    intro i sec hi _
    have : es.drop i = [] := List.drop_eq_nil_of_le (by omega)
    simp [applyLoop, this, applyStd]
  | succ k ih =>
    intro i sec hi hsec
    have hlt : i < es.length := by omega
    rw [applyLoop, getRelocation_spec cfg hcls env rela es hwfrel hd hfit i hlt, List.drop_eq_getElem_cons hlt]
    have hwfe := hwf es[i] (List.getElem_mem hlt)
    rw [← hsec] at hwfe
    simp only [bind, Except.bind, applyStd, applyOneStd]
    by_cases hs : es[i].sym < syms.length
    · obtain ⟨symv, hp, hv⟩ := hsym es[i].sym hs
      rw [doApply_with_sym env _ cfg.le cfg.cls (archString a) data symtab sec (relCfgOf cfg) rela es[i] symv _ hent
        (by omega) hp hv]
      have := applyWithSym_eq_std a (relCfgOf cfg) hm rela sec es[i] syms[es[i].sym] hwfe (by omega)
      simp only [relCfgOf] at this ⊢
      rw [this]
      simp only [List.getElem?_eq_getElem hs]
      cases hr : applyAfterSym a ⟨cfg.le, cfg.cls, decide (cfg.mclass = "EM_MIPS")⟩ rela syms[es[i].sym] sec es[i] with
      | none => rfl
      | some b =>
        simp only
        have hb := applyAfterSym_length hwfe hr
        exact ih (i + 1) b (by omega) (by omega)
    · rw [doApply_rejects_sym env _ cfg.le cfg.cls (archString a) data symtab sec (relCfgOf cfg) rela es[i] hent (by omega)]
      have : syms[es[i].sym]? = none := List.getElem?_eq_none (by omega)
      simp only [this]

end PyElf.Proofs.Reloc
