/-
  Composition lemmas for C07: translating a whole decoded list, and the public
  fetch functions in terms of the Spec encoders.
-/
import PyElf.Spec.DwarfStructs
import PyElf.Spec.Lists
import PyElf.Model.Lists
import PyElf.Proofs.Primitives
import PyElf.Proofs.ListsV4
import PyElf.Proofs.ListsV5
import PyElf.Proofs.ListsCls
namespace PyElf.Proofs.ListsFetch
open PyElf PyElf.Spec PyElf.Spec.Lists PyElf.Proofs

/-- entry-wise translation of a decoded list -/
theorem mapM_translate (f : Val → R Val) (tr : Nat → Ent → Option Val) (asz : Nat) :
    ∀ (es : List Ent) (off : Nat) (vs : List Val),
      (∀ e ∈ es, ∀ o v, tr o e = some v → f (e.rawObs asz o) = .ok v) →
      translateList tr asz off es = some vs → (rawObsList asz off es).mapM f = .ok vs := by
  intro es
  induction es with
  | nil =>
    intro off vs _ h
    simp [translateList] at h
    subst h
    simp [rawObsList, pure, Except.pure]
  | cons e es ih =>
    intro off vs hf h
    simp only [translateList] at h
    cases h1 : tr off e with
    | none => simp [h1] at h
    | some v =>
      cases h2 : translateList tr asz (off + e.size asz) es with
      | none => simp [h1, h2] at h
      | some ws =>
        simp [h1, h2] at h
        subst h
        have e1 := hf e (by simp) off v h1
        have e2 := ih (off + e.size asz) ws (fun x hx => hf x (by simp [hx])) h2
        simp [rawObsList, List.mapM_cons, e1, e2, bind, Except.bind, pure, Except.pure]

theorem structParse_of_parse {env : Env} {c : Con} {data : Bytes} {pos p : Nat} {v : Val} {cx : Fields}
    (h : Con.parse env data c [] pos = .ok (v, p, cx)) : structParse env c data pos = .ok (v, p) := by
  simp [structParse, h, bind, Except.bind, pure, Except.pure]

/-- `RangeLists.get_range_list_at_offset` on a DWARF 5 section: the entries up to the terminator,
    translated -/
theorem getRangeListAtOffset_v5 (env : Env) (secs : Model.Lists.Secs) (cfg : DwarfCfg) (l : Model.Lists.Lists)
    (cu : Option Model.Lists.Cu) (addrs : List Nat) (pre rest : Bytes) (es : List Ent) (vs : List Val)
    (henv : ∀ k ∈ rleKinds, env.enumDecode "ENUM_DW_RLE" (k.code : Int) = some k.name)
    (hS : l.S.Dwarf_rnglists_entries = (Spec.dwarfStructs cfg).Dwarf_rnglists_entries)
    (hv : 5 ≤ l.version)
    (hd : l.data = pre ++ encList cfg.le cfg.asz es ++ rest)
    (hwf : ∀ e ∈ es, e.wf rleKinds cfg.asz = true)
    (hsmall : pre.length < 2 ^ 63)
    (haddr : ∀ i a, addrOf addrs i = some a → Model.Lists.cuAddr env secs cu (.int i) = .ok (.int a))
    (hsp : translateList (fun o e => Spec.Lists.translateRng (addrOf addrs) cfg.asz o e) cfg.asz pre.length es = some vs) :
    Model.Lists.getRangeListAtOffset env secs l (pre.length : Int) cu = .ok vs := by
  have hp := ListsV5.parse_rnglists_entries env cfg pre rest es [] henv hwf
  rw [← hd, ← hS] at hp
  have hm := mapM_translate (Model.Lists.translateRng env secs cu)
    (fun o e => Spec.Lists.translateRng (addrOf addrs) cfg.asz o e) cfg.asz es pre.length vs
    (fun e he o v h => ListsV5.translateRng_exact env secs cu addrs cfg.asz o e v (hwf e he) haddr h) hsp
  have hv' : l.version ≥ 5 := hv
  simp [Model.Lists.getRangeListAtOffset, ListsV4.seekInt_nat hsmall, hv', Model.Lists.parseRngV5,
    structParse_of_parse hp, Model.Lists.mapEntries, hm, bind, Except.bind, pure, Except.pure]

/-- `LocationLists.get_location_list_at_offset(offset, die)` on a DWARF 5 section -/
theorem getLocationListAtOffset_v5 (env : Env) (secs : Model.Lists.Secs) (cfg : DwarfCfg) (l : Model.Lists.Lists)
    (cu : Model.Lists.Cu) (addrs : List Nat) (pre rest : Bytes) (es : List Ent) (vs : List Val)
    (henv : ∀ k ∈ lleKinds, env.enumDecode "ENUM_DW_LLE" (k.code : Int) = some k.name)
    (hS : l.S.Dwarf_loclists_entries = (Spec.dwarfStructs cfg).Dwarf_loclists_entries)
    (hv : 5 ≤ l.version)
    (hd : l.data = pre ++ encList cfg.le cfg.asz es ++ rest)
    (hwf : ∀ e ∈ es, e.wf lleKinds cfg.asz = true)
    (hsmall : pre.length < 2 ^ 63)
    (haddr : ∀ i a, addrOf addrs i = some a → Model.Lists.cuAddr env secs (some cu) (.int i) = .ok (.int a))
    (hsp : translateList (fun o e => Spec.Lists.translateLoc (addrOf addrs) cfg.asz o e) cfg.asz pre.length es = some vs) :
    Model.Lists.getLocationListAtOffset env secs l (pre.length : Int) (some cu) = .ok vs := by
  have hp := ListsV5.parse_loclists_entries env cfg pre rest es [] henv hwf
  rw [← hd, ← hS] at hp
  have hm := mapM_translate (Model.Lists.translateLoc env secs (some cu))
    (fun o e => Spec.Lists.translateLoc (addrOf addrs) cfg.asz o e) cfg.asz es pre.length vs
    (fun e he o v h => ListsV5.translateLoc_exact env secs (some cu) addrs cfg.asz o e v (hwf e he) haddr h) hsp
  have hv' : l.version ≥ 5 := hv
  simp [Model.Lists.getLocationListAtOffset, ListsV4.seekInt_nat hsmall, hv', Model.Lists.parseLocV5,
    structParse_of_parse hp, Model.Lists.mapEntries, hm, bind, Except.bind, pure, Except.pure]

/-- `RangeLists.get_range_list_at_offset_ex`: the entries as stored -/
theorem getRangeListAtOffsetEx_v5 (env : Env) (cfg : DwarfCfg) (l : Model.Lists.Lists)
    (pre rest : Bytes) (es : List Ent)
    (henv : ∀ k ∈ rleKinds, env.enumDecode "ENUM_DW_RLE" (k.code : Int) = some k.name)
    (hS : l.S.Dwarf_rnglists_entries = (Spec.dwarfStructs cfg).Dwarf_rnglists_entries)
    (hd : l.data = pre ++ encList cfg.le cfg.asz es ++ rest)
    (hwf : ∀ e ∈ es, e.wf rleKinds cfg.asz = true)
    (hsmall : pre.length < 2 ^ 63) :
    Model.Lists.getRangeListAtOffsetEx env l (pre.length : Int) = .ok (.list (rawObsList cfg.asz pre.length es)) := by
  have hp := ListsV5.parse_rnglists_entries env cfg pre rest es [] henv hwf
  rw [← hd, ← hS] at hp
  simp [Model.Lists.getRangeListAtOffsetEx, ListsV4.seekParseInt_nat hsmall, structParse_of_parse hp,
    bind, Except.bind, pure, Except.pure]

/-- DWARF 2–4 fetches -/
theorem getLocationListAtOffset_v4 (env : Env) (secs : Model.Lists.Secs) (l : Model.Lists.Lists) (le : Bool)
    (cu : Option Model.Lists.Cu) (pre rest : Bytes) (es : List V4Loc)
    (hA : l.S.the_Dwarf_target_addr = .uint l.asz le) (h16 : l.S.the_Dwarf_uint16 = .uint 2 le)
    (h8 : l.S.the_Dwarf_uint8 = .uint 1 le) (hasz : 1 ≤ l.asz) (hv : l.version < 5)
    (hd : l.data = pre ++ encV4Loc le l.asz es ++ rest)
    (hwf : ∀ e ∈ es, e.wf l.asz = true) (hsmall : pre.length < 2 ^ 63) :
    Model.Lists.getLocationListAtOffset env secs l (pre.length : Int) cu = .ok (obsV4Loc l.asz pre.length es) := by
  have hp := ListsV4.parseLocV4_roundtrip env l le pre rest es hA h16 h8 hasz hd hwf
  have hv' : ¬ (l.version ≥ 5) := by omega
  simp [Model.Lists.getLocationListAtOffset, ListsV4.seekInt_nat hsmall, hv', hp, bind, Except.bind, pure, Except.pure]

theorem getRangeListAtOffset_v4 (env : Env) (secs : Model.Lists.Secs) (l : Model.Lists.Lists) (le : Bool)
    (cu : Option Model.Lists.Cu) (pre rest : Bytes) (es : List V4Rng)
    (hA : l.S.the_Dwarf_target_addr = .uint l.asz le) (hasz : 1 ≤ l.asz) (hv : l.version < 5)
    (hd : l.data = pre ++ encV4Rng le l.asz es ++ rest)
    (hwf : ∀ e ∈ es, e.wf l.asz = true) (hsmall : pre.length < 2 ^ 63) :
    Model.Lists.getRangeListAtOffset env secs l (pre.length : Int) cu = .ok (obsV4Rng l.asz pre.length es) := by
  have hp := ListsV4.parseRngV4_roundtrip env l le pre rest es hA hasz hd hwf
  have hv' : ¬ (l.version ≥ 5) := by omega
  simp [Model.Lists.getRangeListAtOffset, ListsV4.seekInt_nat hsmall, hv', hp, bind, Except.bind, pure, Except.pure]

/-- die.py:328-331: the value of a `DW_FORM_loclistx` / `DW_FORM_rnglistx` attribute is the list's
    section offset, looked up in the unit's offset table -/
theorem attrValue_loclistx (env : Env) (secs : Model.Lists.Secs) (cu : Model.Lists.Cu) (le : Bool)
    (pre rest : Bytes) (offs : List Nat) (i : Nat) (osz : Nat) (hosz : osz = if cu.fmt = 32 then 4 else 8)
    (hS : cu.S.the_Dwarf_offset = .uint osz le)
    (hbase : Model.Lists.getBaseOffset cu "DW_AT_loclists_base" = .ok (.int pre.length))
    (hsec : secs.loclists = some (pre ++ encOffsets le osz offs ++ rest))
    (hi : i < offs.length) (hwf : ∀ o ∈ offs, o < 256 ^ osz) (hsmall : pre.length + i * osz < 2 ^ 63) :
    Model.Lists.translateAttrValue env secs cu "DW_FORM_loclistx" (.int i)
      = .ok (.int ((pre.length + offs[i]'hi : Nat) : Int)) := by
  have := ListsV4.resolveViaOffsetTable_exact env cu le pre rest offs i "DW_AT_loclists_base" osz hosz hS hbase hi hwf hsmall
  unfold Model.Lists.translateAttrValue
  simp only [hsec]
  simpa using this

theorem attrValue_rnglistx (env : Env) (secs : Model.Lists.Secs) (cu : Model.Lists.Cu) (le : Bool)
    (pre rest : Bytes) (offs : List Nat) (i : Nat) (osz : Nat) (hosz : osz = if cu.fmt = 32 then 4 else 8)
    (hS : cu.S.the_Dwarf_offset = .uint osz le)
    (hbase : Model.Lists.getBaseOffset cu "DW_AT_rnglists_base" = .ok (.int pre.length))
    (hsec : secs.rnglists = some (pre ++ encOffsets le osz offs ++ rest))
    (hi : i < offs.length) (hwf : ∀ o ∈ offs, o < 256 ^ osz) (hsmall : pre.length + i * osz < 2 ^ 63) :
    Model.Lists.translateAttrValue env secs cu "DW_FORM_rnglistx" (.int i)
      = .ok (.int ((pre.length + offs[i]'hi : Nat) : Int)) := by
  have := ListsV4.resolveViaOffsetTable_exact env cu le pre rest offs i "DW_AT_rnglists_base" osz hosz hS hbase hi hwf hsmall
  unfold Model.Lists.translateAttrValue
  simp only [hsec]
  simpa using this

/-- `LocationParser.parse_from_attribute`: an expression attribute yields its expression, a list
    attribute the list at the offset it holds, anything else is refused -/
theorem parseFromAttribute_by_class (env : Env) (secs : Model.Lists.Secs) (l : Model.Lists.Lists)
    (a : Model.Lists.Attr) (ver : Nat) (cu : Option Model.Lists.Cu)
    (hform : "DW_FORM_block".toList.isPrefixOf a.form.toList = blockForms.contains a.form) :
    Model.Lists.parseFromAttribute env secs l a ver cu =
      match classify a.name a.form ver with
      | .expr => .ok (Model.Lists.nt "LocationExpr" [("loc_expr", a.value)])
      | .list => do
          let off ← a.value.asInt
          let r ← Model.Lists.getLocationListAtOffset env secs l off cu
          pure (.list r)
      | .neither => .error .valueError := by
  rw [← ListsCls.modelClass_eq_classify a.name a.form ver hform]
  unfold ListsCls.modelClass Model.Lists.parseFromAttribute
  cases h1 : Model.Lists.attributeHasLocation a.name a.form ver with
  | false => simp
  | true =>
    cases h2 : Model.Lists.attributeHasLocExpr a.name a.form ver with
    | true => simp [pure, Except.pure]
    | false =>
      cases h3 : Model.Lists.attributeHasLocList a.name a.form ver with
      | true => simp [bind, Except.bind, pure, Except.pure]
      | false => simp [Model.Lists.attributeHasLocation, h2, h3] at h1

end PyElf.Proofs.ListsFetch
