/-
  C13, sixth wave: `DWARFInfo.get_DIE_from_refaddr` through the unit cache (bisect, C13's model) resolves
  exactly as the linear scan over the units of the section (C04's driver model `Driver.C04.sectionRef`),
  on every unit chain and from every reachable cache state.
-/
import PyElf.Model.DwarfLookupDie
import PyElf.Proofs.DwarfLookup
import PyElf.Proofs.DieSection
import PyElf.Driver.C04
namespace PyElf.Proofs.Lookup
open PyElf PyElf.Spec.Lookup PyElf.Model.Lookup PyElf.Proofs
open PyElf.Model.C04 (DInfo UnitCtx unitCtx unitDIEFromRefaddr getTopDIE sectionUnits unitsLoop)
open PyElf.Spec.C04 (DieObs)

/-- what either model answers once the unit `c` is found: the entry `c.get_DIE_from_refaddr(x)` in the context
    the glue `f` builds for `c` -/
def refAnswer (f : CU → R UnitCtx) (c : CU) (x : Nat) : R (Nat × DieObs) := do
  let U ← f c
  let d ← unitDIEFromRefaddr U x
  return (c.cuOffset, d)

/-- the linear scan of C04's driver over a list of units all of whose sizes are defined, one of which (`c`) is the
    only one whose extent contains `x`: it stops at `c` -/
theorem sectionRef_go_unique (units : List (CU × R UnitCtx) × Option Err) (x : Nat) (f : CU → R UnitCtx) (c : CU) (sz : Nat)
    (hsz : c.size = .ok sz) (h1 : c.cuOffset ≤ x) (h2 : x < c.cuOffset + sz) :
    ∀ (l : List CU), c ∈ l →
      (∀ c' ∈ l, ∃ sz', c'.size = .ok sz' ∧ (c'.cuOffset ≤ x → x < c'.cuOffset + sz' → c' = c)) →
      Driver.C04.sectionRef.go units x (l.map fun cu => (cu, f cu)) = refAnswer f c x := by
  intro l
  induction l with
  | nil => intro hc; cases hc
  | cons c' l ih =>
    intro hc hall
    obtain ⟨sz', hsz', huniq⟩ := hall c' List.mem_cons_self
    simp only [List.map_cons, Driver.C04.sectionRef.go, hsz', bind, Except.bind]
    by_cases hin : c'.cuOffset ≤ x ∧ x < c'.cuOffset + sz'
    · have := huniq hin.1 hin.2
      subst this
      simp only [hin, and_self, if_true, refAnswer, bind, Except.bind, pure, Except.pure]
    · simp only [hin, if_false]
      have hne : c ≠ c' := by
        intro e
        subst e
        rw [hsz] at hsz'; injection hsz' with hsz'; subst hsz'
        exact hin ⟨h1, h2⟩
      have hc' : c ∈ l := by
        rcases List.mem_cons.mp hc with h | h
        · exact absurd h hne
        · exact h
      exact ih hc' (fun y hy => hall y (List.mem_cons_of_mem _ hy))

/-- `iter_CUs()` over a chain: the chain's units, each with the context the glue builds, no exception -/
theorem sectionUnits_chain (w : DInfo) (S0 : DwarfStructs) (data : Bytes) (cs : List CU)
    (hch : Chain (infoParser w S0 data) data.length 0 cs) :
    sectionUnits w S0 (some data) false = (cs.map fun cu => (cu, unitCtx w S0 data cu), none) := by
  have hlen := C04.chain_length_le _ _ hch
  have hloop := C04.unitsLoop_chain _ 0 (data.length + 1) [] hch (by omega)
  unfold sectionUnits
  simp only [Bool.false_eq_true, if_false]
  have e : parseCUAtOffset w.enumDecode w.structsOf S0 w.le data = infoParser w S0 data := rfl
  rw [e, hloop]
  simp

/--
  THE CONNECTION.  `w` is any `DWARFInfo` whose `.debug_info` stream `data` is a chain of units `cs` for its own
  `_parse_CU_at_offset` (`infoParser`; `chain_encoded` gives this for every encoded section), `st` any state of the
  unit cache reachable by lookups (`Inv`), `x` ANY integer (inside an entry, inside a unit header, negative, beyond
  the section).  Then `get_DIE_from_refaddr(x)` through C13's model of `get_CU_containing` (bisect over the cache,
  scan from the closest cached unit) answers exactly what C04's linear scan over all units of the section
  (`Driver.C04.sectionRef` on `sectionUnits`, the function C04's correspondence runs) answers — the same unit offset,
  the same entry, the same exception —, and the cache stays reachable.
-/
theorem getDIEFromRefaddr_eq_sectionRef (w : DInfo) (S0 : DwarfStructs) (data : Bytes) (hinfo : w.info = some data)
    (cs : List CU) (hch : Chain (infoParser w S0 data) data.length 0 cs) (st : CUCache)
    (hinv : Inv (infoParser w S0 data) cs st) (x : Int) :
    ∃ r st', getDIEFromRefaddr w S0 st x = (r, st') ∧ Inv (infoParser w S0 data) cs st' ∧
      r.map (fun p => (p.1.cuOffset, p.2)) = Driver.C04.sectionRef (sectionUnits w S0 (some data) false) data.length x := by
  have hPo : ∀ o c, infoParser w S0 data o = .ok c → c.cuOffset = o := fun o c h => parseCU_offset o c h
  unfold getDIEFromRefaddr Driver.C04.sectionRef
  simp only [hinfo]
  by_cases hneg : x < 0
  · refine ⟨.error .dwarfError, st, by simp [hneg], hinv, ?_⟩
    have : ¬ (0 ≤ x ∧ x < (data.length : Int)) := by omega
    simp only [this, not_false_eq_true, if_true]
    rfl
  · simp only [hneg, if_false]
    by_cases hlt : x.toNat < data.length
    · obtain ⟨c, sz, st', hr, hc, hsz, h1, h2, hinv'⟩ := getCUContaining_spec hPo hch hinv hlt
      have hin : 0 ≤ x ∧ x < (data.length : Int) := by omega
      simp only [hr, hin, and_self, not_true_eq_false, if_false]
      rw [sectionUnits_chain w S0 data cs hch]
      simp only
      rw [sectionRef_go_unique _ x.toNat (unitCtx w S0 data) c sz hsz h1 h2 cs hc (fun c' hc' => by
        obtain ⟨_, _, sz', hsz', _, _⟩ := chain_mem hPo cs 0 hch c' hc'
        exact ⟨sz', hsz', fun h3 h4 => chain_unique hPo cs 0 hch c' hc' c hc sz' sz x.toNat hsz' hsz h3 h4 h1 h2⟩)]
      unfold cuDIEFromRefaddr refAnswer
      simp only [bind, Except.bind, pure, Except.pure]
      cases hU : unitCtx w S0 data c with
      | error e => exact ⟨_, _, rfl, hinv', rfl⟩
      | ok U =>
        simp only
        cases hd : unitDIEFromRefaddr U x.toNat with
        | error e => exact ⟨_, _, rfl, hinv', rfl⟩
        | ok d => exact ⟨_, _, rfl, hinv', rfl⟩
    · have : ¬ (0 ≤ x ∧ x < (data.length : Int)) := by omega
      refine ⟨.error .dwarfError, st, ?_, hinv, ?_⟩
      · simp only [getCUContaining, hlt, not_false_eq_true, if_true]
      · simp only [this, not_false_eq_true, if_true]
        rfl

/-- … and when the unit `c` of the chain contains `x`, both are `c.get_DIE_from_refaddr(x)` in the context of `c` -/
theorem getDIEFromRefaddr_exact (w : DInfo) (S0 : DwarfStructs) (data : Bytes) (hinfo : w.info = some data)
    (cs : List CU) (hch : Chain (infoParser w S0 data) data.length 0 cs) (st : CUCache)
    (hinv : Inv (infoParser w S0 data) cs st) (c : CU) (hc : c ∈ cs) (sz : Nat) (hsz : c.size = .ok sz) (x : Nat)
    (h1 : c.cuOffset ≤ x) (h2 : x < c.cuOffset + sz) (U : UnitCtx) (hU : unitCtx w S0 data c = .ok U) (d : DieObs)
    (hd : unitDIEFromRefaddr U x = .ok d) :
    ∃ st', getDIEFromRefaddr w S0 st (x : Int) = (.ok (c, d), st') ∧ Inv (infoParser w S0 data) cs st' := by
  have hPo : ∀ o c, infoParser w S0 data o = .ok c → c.cuOffset = o := fun o c h => parseCU_offset o c h
  obtain ⟨st', hr, hinv'⟩ := getCUContaining_exact hPo hch hinv hc hsz h1 h2
  refine ⟨st', ?_, hinv'⟩
  unfold getDIEFromRefaddr
  have hneg : ¬ ((x : Int) < 0) := by omega
  simp only [hinfo, hneg, if_false, Int.toNat_natCast, hr, cuDIEFromRefaddr, hU, bind, Except.bind, hd]

end PyElf.Proofs.Lookup
