/-
  Helper lemmas for C11 (container encodings of debug data).
-/
import PyElf.Model.DwarfView
import PyElf.Spec.Container
import PyElf.Spec.ElfStructs
import PyElf.Spec.DwarfStructs
import PyElf.Proofs.Primitives
import PyElf.Proofs.Fixed
namespace PyElf.Proofs.C11
open PyElf PyElf.Model PyElf.Model.C11 PyElf.Spec.C11 PyElf.Proofs

/-! ### the section-name map -/

theorem dictGet_dictSet (m : List (Bytes × Nat)) (k k' : Bytes) (v : Nat) :
    dictGet (dictSet m k v) k' = if k = k' then some v else dictGet m k' := by
  induction m with
  | nil =>
    simp only [dictSet, dictGet]
  | cons e m ih =>
    obtain ⟨a, b⟩ := e
    simp only [dictSet]
    by_cases h : a = k
    · subst h
      simp only [if_true, dictGet]
      by_cases h2 : a = k' <;> simp [h2]
    · simp only [h, if_false, dictGet, ih]
      by_cases h2 : a = k'
      · subst h2
        have : ¬ k = a := fun e => h e.symm
        simp [this]
      · simp [h2]

/-- index of the last section bearing the name -/
def lastIdx : List Sec → Bytes → Option Nat
  | [], _ => none
  | s :: rest, n =>
    match lastIdx rest n with
    | some j => some (j + 1)
    | none => if s.name = n then some 0 else none

theorem dictGet_nameMapFrom (secs : List Sec) (n : Bytes) :
    ∀ (i : Nat) (m : List (Bytes × Nat)),
      dictGet (nameMapFrom secs i m) n =
        match lastIdx secs n with
        | some j => some (i + j)
        | none => dictGet m n := by
  induction secs with
  | nil => intro i m; simp [nameMapFrom, lastIdx]
  | cons s rest ih =>
    intro i m
    simp only [nameMapFrom, lastIdx]
    rw [ih]
    cases h : lastIdx rest n with
    | some j => simp; omega
    | none =>
      simp only [dictGet_dictSet]
      by_cases hs : s.name = n <;> simp [hs]

theorem dictGet_nameMap (secs : List Sec) (n : Bytes) :
    dictGet (nameMap secs) n = lastIdx secs n := by
  rw [nameMap, dictGet_nameMapFrom]
  cases lastIdx secs n <;> simp [dictGet]

theorem lastIdx_isSome (secs : List Sec) (n : Bytes) :
    (lastIdx secs n).isSome = true ↔ ∃ s ∈ secs, s.name = n := by
  induction secs with
  | nil => simp [lastIdx]
  | cons s rest ih =>
    simp only [lastIdx]
    cases h : lastIdx rest n with
    | some j =>
      have := ih.mp (by simp [h])
      obtain ⟨t, ht, hn⟩ := this
      simp only [Option.isSome_some, true_iff]
      exact ⟨t, List.mem_cons_of_mem _ ht, hn⟩
    | none =>
      have hno : ¬ ∃ t ∈ rest, t.name = n := fun e => by
        have := ih.mpr e
        simp [h] at this
      by_cases hs : s.name = n
      · simp only [hs, if_true, Option.isSome_some, true_iff]
        exact ⟨s, List.mem_cons_self, hs⟩
      · simp only [hs, if_false, Option.isSome_none, Bool.false_eq_true, false_iff]
        rintro ⟨t, ht, hn⟩
        rcases List.mem_cons.mp ht with rfl | ht
        · exact hs hn
        · exact hno ⟨t, ht, hn⟩

/-- `has_section(name)` is "some section bears the name" -/
theorem hasSection_iff (secs : List Sec) (n : Bytes) :
    hasSection secs n = true ↔ ∃ s ∈ secs, s.name = n := by
  rw [hasSection, dictGet_nameMap, lastIdx_isSome]

theorem lastIdx_last (pre post : List Sec) (s : Sec) (h : ∀ t ∈ post, t.name ≠ s.name) :
    lastIdx (pre ++ s :: post) s.name = some pre.length := by
  have hpost : lastIdx post s.name = none := by
    cases h' : lastIdx post s.name with
    | none => rfl
    | some j =>
      obtain ⟨t, ht, hn⟩ := (lastIdx_isSome post s.name).mp (by simp [h'])
      exact absurd hn (h t ht)
  induction pre with
  | nil => simp [lastIdx, hpost]
  | cons p pre ih => simp [lastIdx, ih]

/-- `get_section_by_name` finds the last section bearing the name -/
theorem getSectionByName_last (pre post : List Sec) (s : Sec) (h : ∀ t ∈ post, t.name ≠ s.name) :
    getSectionByName (pre ++ s :: post) s.name = some s := by
  rw [getSectionByName, dictGet_nameMap, lastIdx_last pre post s h]
  simp

theorem getSectionByName_none (secs : List Sec) (n : Bytes) (h : ∀ s ∈ secs, s.name ≠ n) :
    getSectionByName secs n = none := by
  have : lastIdx secs n = none := by
    cases h' : lastIdx secs n with
    | none => rfl
    | some j =>
      obtain ⟨t, ht, hn⟩ := (lastIdx_isSome secs n).mp (by simp [h'])
      exact absurd hn (h t ht)
  rw [getSectionByName, dictGet_nameMap, this]

theorem getSectionByName_name (secs : List Sec) (n : Bytes) (s : Sec)
    (h : getSectionByName secs n = some s) : hasSection secs n = true := by
  rw [hasSection]
  rw [getSectionByName] at h
  cases hd : dictGet (nameMap secs) n with
  | none => simp [hd] at h
  | some i => simp

/-! ### a section stored in the file -/

/-- the decoded section header `sh` places `body` at its offset in `data` (followed by `rest`) -/
structure Placed (data : Bytes) (sh : Val) (ty : Val) (off : Nat) (body rest : Bytes) (flags addr : Nat) : Prop where
  hty : sh.getField "sh_type" = .ok ty
  hnobits : isStr ty "SHT_NOBITS" = false
  hflags : sh.getNat "sh_flags" = .ok flags
  hoff : sh.getNat "sh_offset" = .ok off
  hsize : sh.getNat "sh_size" = .ok body.length
  haddr : sh.getNat "sh_addr" = .ok addr
  hdata : data.drop off = body ++ rest
  hbound : off + body.length < 2 ^ 63

section lemmas
variable {data : Bytes} {sh ty : Val} {off : Nat} {body rest : Bytes} {flags addr : Nat}

theorem readN_placed (h : data.drop off = body ++ rest) : readN data off body.length = body := by
  simp [readN, h]

theorem pyRead_nat (data : Bytes) (pos n : Nat) (hn : n < 2 ^ 63) :
    pyRead data pos (n : Int) = .ok (readN data pos n) := by
  have h1 : ¬ ((n : Int) < 0) := by omega
  have h2 : ¬ ((n : Int) ≥ 2 ^ 63) := by omega
  simp [pyRead, h1]
  omega

theorem sectionInfo_plain (env : Env) (S : ElfStructs)
    (h : Placed data sh ty off body rest flags addr) (hf : flags &&& 0x800 = 0) :
    sectionInfo env S data sh = .ok (none, body.length) := by
  simp [sectionInfo, h.hflags, h.hsize, hf, bind, Except.bind, pure, Except.pure]

theorem sectionData_plain (X : Ext) (S : ElfStructs)
    (h : Placed data sh ty off body rest flags addr) :
    sectionDataWith X S data sh none body.length = .ok body := by
  have hb := h.hbound
  have hseek : seekCheck off = .ok () := by
    have : ¬ off ≥ 2 ^ 63 := by omega
    simp [seekCheck, this]
  simp [sectionDataWith, h.hty, h.hnobits, h.hoff, hseek, liftR, bind, Except.bind,
        pyRead_nat data off body.length (by omega), readN_placed h.hdata]

end lemmas

/-! ### gABI compression header -/

/-- `Elf32_Chdr` / `Elf64_Chdr` as the Spec bundle defines it -/
def chdrCon (cls : Nat) (le : Bool) : Con :=
  if cls = 64 then
    Spec.st [Spec.f "ch_type" (Spec.enumOf (.uint 4 le) "ENUM_ELFCOMPRESS_TYPE"), Spec.f "ch_reserved" (.uint 4 le),
             Spec.f "ch_size" (.uint (cls / 8) le), Spec.f "ch_addralign" (.uint (cls / 8) le)]
  else
    Spec.st [Spec.f "ch_type" (Spec.enumOf (.uint 4 le) "ENUM_ELFCOMPRESS_TYPE"),
             Spec.f "ch_size" (.uint (cls / 8) le), Spec.f "ch_addralign" (.uint (cls / 8) le)]

theorem spec_chdr (c : ElfCfg) : (Spec.elfStructs c).Elf_Chdr = chdrCon c.cls c.le := rfl

theorem encChdr_length (cls : Nat) (le : Bool) (t s a : Nat) (hcls : cls = 32 ∨ cls = 64) :
    (encChdr cls le t s a).length = chdrSize cls := by
  rcases hcls with h | h <;> subst h <;> simp [encChdr, chdrSize, encNat_length]

theorem sizeof_chdr (cls : Nat) (le : Bool) (hcls : cls = 32 ∨ cls = 64) :
    sizeofR (chdrCon cls le) = .ok (chdrSize cls) := by
  rcases hcls with h | h <;> subst h <;>
    simp [sizeofR, chdrCon, chdrSize, Spec.st, Spec.f, Spec.enumOf, Spec.mkFields, Con.sizeof, ConFields.sizeof,
          bind, Option.bind, pure]

/-- parsing the compression header the Spec encoder wrote -/
theorem parse_chdr (env : Env) (cls : Nat) (le : Bool) (hcls : cls = 32 ∨ cls = 64)
    (data : Bytes) (off t size align : Nat) (rest : Bytes) (tv : Val)
    (hoff : off < 2 ^ 63)
    (ht : t < 2 ^ 32) (hs : size < 2 ^ cls) (ha : align < 2 ^ cls)
    (htv : tv = match env.enumDecode "ENUM_ELFCOMPRESS_TYPE" t with | some s => .str s | none => .int t)
    (hd : data.drop off = encChdr cls le t size align ++ rest) :
    ∃ v p, structParseAt env (chdrCon cls le) data off = .ok (v, p) ∧
      v.getField "ch_type" = .ok tv ∧ v.getNat "ch_size" = .ok size := by
  have hoff' : ¬ off ≥ 2 ^ 63 := by omega
  rcases hcls with h | h <;> subst h
  · -- 32-bit
    have hd0 : data.drop off = encNat le 4 t ++ (encNat le 4 size ++ (encNat le 4 align ++ rest)) := by
      simpa [encChdr, List.append_assoc] using hd
    have hd1 := drop_add_of_drop hd0
    have hd2 := drop_add_of_drop hd1
    simp only [encNat_length] at hd1 hd2
    have e0 : decNat le (encNat le 4 t) = t := decNat_encNat_of_lt le (by omega)
    have e1 : decNat le (encNat le 4 size) = size := decNat_encNat_of_lt le (by omega)
    have e2 : decNat le (encNat le 4 align) = align := decNat_encNat_of_lt le (by omega)
    cases hdec : env.enumDecode "ENUM_ELFCOMPRESS_TYPE" (t : Int) <;>
      simp [structParseAt, structParse, hoff', chdrCon, Spec.st, Spec.f, Spec.enumOf, Spec.mkFields, Con.parse, Con.parseFields,
            readExact_ok hd0 (encNat_length le 4 t), readExact_ok hd1 (encNat_length le 4 size),
            readExact_ok hd2 (encNat_length le 4 align), e0, e1, e2, hdec, htv,
            bind, Except.bind, pure, Except.pure, Fields.set, Val.getField, Val.getNat, Fields.getR, Fields.get?, Val.asNat, Val.asInt]
  · -- 64-bit
    have hd0 : data.drop off = encNat le 4 t ++ (encNat le 4 0 ++ (encNat le 8 size ++ (encNat le 8 align ++ rest))) := by
      simpa [encChdr, List.append_assoc] using hd
    have hd1 := drop_add_of_drop hd0
    have hd2 := drop_add_of_drop hd1
    have hd3 := drop_add_of_drop hd2
    simp only [encNat_length] at hd1 hd2 hd3
    have e0 : decNat le (encNat le 4 t) = t := decNat_encNat_of_lt le (by omega)
    have e1 : decNat le (encNat le 8 size) = size := decNat_encNat_of_lt le (by omega)
    have e2 : decNat le (encNat le 8 align) = align := decNat_encNat_of_lt le (by omega)
    cases hdec : env.enumDecode "ENUM_ELFCOMPRESS_TYPE" (t : Int) <;>
      simp [structParseAt, structParse, hoff', chdrCon, Spec.st, Spec.f, Spec.enumOf, Spec.mkFields, Con.parse, Con.parseFields,
            readExact_ok hd0 (encNat_length le 4 t), readExact_ok hd1 (encNat_length le 4 0),
            readExact_ok hd2 (encNat_length le 8 size), readExact_ok hd3 (encNat_length le 8 align), e0, e1, e2, hdec, htv,
            bind, Except.bind, pure, Except.pure, Fields.set, Val.getField, Val.getNat, Fields.getR, Fields.get?, Val.asNat, Val.asInt]


/-- the zlib step of `Section.data()` on a deflate stream, given the declared size -/
def gabiStep (X : Ext) (deflated : Bytes) (declared : Nat) : V Bytes :=
  if declared + 1 ≥ 2 ^ 63 then fail .overflowError
  else match X.decompress deflated (declared + 1) with
    | none => .error .zlib
    | some r => if r.length ≠ declared then fail .elfCompressionError else .ok r

section gabi
variable {data : Bytes} {sh ty : Val} {off : Nat} {rest : Bytes} {flags addr : Nat}
variable {cls : Nat} {le : Bool} {declared align : Nat} {deflated : Bytes}

theorem sectionInfo_gabi (env : Env) (S : ElfStructs) (hS : S.Elf_Chdr = chdrCon cls le) (hcls : cls = 32 ∨ cls = 64)
    (h : Placed data sh ty off (gabiBody cls le declared align deflated) rest flags addr)
    (hf : flags &&& 0x800 ≠ 0) (hs : declared < 2 ^ cls) (ha : align < 2 ^ cls)
    (henv : env.enumDecode "ENUM_ELFCOMPRESS_TYPE" 1 = some "ELFCOMPRESS_ZLIB") :
    sectionInfo env S data sh = .ok (some (.str "ELFCOMPRESS_ZLIB"), declared) := by
  have hb := h.hbound
  have hd : data.drop off = encChdr cls le compressZlib declared align ++ (deflated ++ rest) := by
    simpa [gabiBody, List.append_assoc] using h.hdata
  obtain ⟨v, p, hp, ht, hsz⟩ := parse_chdr env cls le hcls data off compressZlib declared align (deflated ++ rest)
    (.str "ELFCOMPRESS_ZLIB") (by omega) (by simp [compressZlib]) hs ha (by simp [compressZlib, henv]) hd
  simp [sectionInfo, h.hflags, hf, h.hoff, hS, hp, ht, hsz, bind, Except.bind, pure, Except.pure]

theorem sectionData_gabi (X : Ext) (S : ElfStructs) (hS : S.Elf_Chdr = chdrCon cls le) (hcls : cls = 32 ∨ cls = 64)
    (h : Placed data sh ty off (gabiBody cls le declared align deflated) rest flags addr) :
    sectionDataWith X S data sh (some (.str "ELFCOMPRESS_ZLIB")) declared = gabiStep X deflated declared := by
  have hb := h.hbound
  have hlen : (gabiBody cls le declared align deflated).length = chdrSize cls + deflated.length := by
    simp [gabiBody, encChdr_length cls le _ _ _ hcls]
  have hd : data.drop off = encChdr cls le compressZlib declared align ++ (deflated ++ rest) := by
    simpa [gabiBody, List.append_assoc] using h.hdata
  have hd1 := drop_add_of_drop hd
  rw [encChdr_length cls le _ _ _ hcls] at hd1
  have hseek : seekCheck (off + chdrSize cls) = .ok () := by
    have : ¬ off + chdrSize cls ≥ 2 ^ 63 := by omega
    simp [seekCheck, this]
  have hsub : ((gabiBody cls le declared align deflated).length : Int) - (chdrSize cls : Int) = (deflated.length : Int) := by
    rw [hlen]; omega
  have hz : isStr (.str "ELFCOMPRESS_ZLIB") "ELFCOMPRESS_ZLIB" = true := by simp [isStr]
  cases hx : X.decompress deflated (declared + 1) <;>
  · simp only [sectionDataWith, h.hty, h.hnobits, hz, liftR, bind, Except.bind, hS, sizeof_chdr cls le hcls,
        h.hoff, h.hsize, hseek, hsub, pyRead_nat data (off + chdrSize cls) deflated.length (by omega), readN_placed hd1,
        gabiStep, fail, hx]
    simp [pure, Except.pure]

end gabi


/-! ### the zlib assumption and its consequences -/

/-- THE assumption about zlib: inflating what `deflate` produced (at any level) gives the input
    back.  It is stated for the API the library calls, `decompressobj().decompress(data, max_length)`:
    at most `max_length` bytes of the input are returned, `0` meaning no limit. -/
structure ZlibOk (X : Ext) (deflate : Nat → Bytes → Bytes) : Prop where
  inflate_deflate : ∀ (lvl : Nat) (x : Bytes) (k : Nat),
    X.decompress (deflate lvl x) k = some (if k = 0 then x else x.take k)

theorem gabiStep_ok {X : Ext} {deflate : Nat → Bytes → Bytes} (hz : ZlibOk X deflate) (lvl : Nat) (payload : Bytes)
    (hb : payload.length + 1 < 2 ^ 63) :
    gabiStep X (deflate lvl payload) payload.length = .ok payload := by
  have : ¬ payload.length + 1 ≥ 2 ^ 63 := by omega
  have ht : payload.take (payload.length + 1) = payload := List.take_of_length_le (by omega)
  simp [gabiStep, this, hz.inflate_deflate, ht]

theorem gabiStep_bad {X : Ext} {deflate : Nat → Bytes → Bytes} (hz : ZlibOk X deflate) (lvl : Nat) (payload : Bytes)
    (declared : Nat) (hne : declared ≠ payload.length) (hb : declared + 1 < 2 ^ 63) :
    gabiStep X (deflate lvl payload) declared = .error (.py .elfCompressionError) := by
  have h1 : ¬ declared + 1 ≥ 2 ^ 63 := by omega
  simp [gabiStep, h1, hz.inflate_deflate, fail]
  omega

theorem gabiStep_bad_any {X : Ext} {deflate : Nat → Bytes → Bytes} (hz : ZlibOk X deflate) (lvl : Nat) (payload : Bytes)
    (declared : Nat) (hne : declared ≠ payload.length) :
    ∃ e, gabiStep X (deflate lvl payload) declared = .error e := by
  by_cases hb : declared + 1 < 2 ^ 63
  · exact ⟨_, gabiStep_bad hz lvl payload declared hne hb⟩
  · exact ⟨.py .overflowError, by simp [gabiStep, fail]; omega⟩

/-- the zlib step of `_decompress_dwarf_section` -/
def zdebugStep (X : Ext) (deflated : Bytes) (declared : Nat) : V Bytes :=
  match X.decompress deflated 0 with
  | none => .error .zlib
  | some out => if declared ≠ out.length then fail .assertion else .ok out

theorem zdebugBody_length (declared : Nat) (deflated : Bytes) :
    (zdebugBody declared deflated).length = 12 + deflated.length := by
  simp [zdebugBody, zlibMagic, natBE_length]; omega

theorem decompressZdebug_framed (X : Ext) (d : Descr) (declared : Nat) (deflated : Bytes)
    (hd : d.stream = zdebugBody declared deflated) (hsz : d.size > 12) (hdecl : declared < 2 ^ 64) :
    decompressZdebug X d
      = (zdebugStep X deflated declared).map (fun out => { d with stream := out, size := out.length }) := by
  have h4 : readN d.stream 0 4 = magicZlib := by
    rw [hd]; simp [readN, zdebugBody, zlibMagic, magicZlib]
  have h8 : readN d.stream 4 8 = natBE 8 declared := by
    rw [hd]
    have : (natBE 8 declared).length = 8 := natBE_length 8 declared
    simp [readN, zdebugBody, zlibMagic, List.take_append_of_le_length, this]
  have h12 : d.stream.drop 12 = deflated := by
    rw [hd]
    have : (natBE 8 declared).length = 8 := natBE_length 8 declared
    have e : zdebugBody declared deflated = (zlibMagic ++ natBE 8 declared) ++ deflated := by simp [zdebugBody]
    rw [e]
    have l : (zlibMagic ++ natBE 8 declared).length = 12 := by simp [zlibMagic, this]
    rw [← l, List.drop_left]
  have hbe : beNat (natBE 8 declared) = declared := by
    rw [beNat_natBE]; exact Nat.mod_eq_of_lt (by simpa using hdecl)
  have hs : (decide (d.size > 12)) = true := by simpa using hsz
  cases hx : X.decompress deflated 0 <;>
    simp [decompressZdebug, hs, h4, h8, h12, natBE_length, hbe, zdebugStep, hx, fail, Except.map, bind, Except.bind,
          pure, Except.pure]
  split <;> simp

theorem zdebugStep_ok {X : Ext} {deflate : Nat → Bytes → Bytes} (hz : ZlibOk X deflate) (lvl : Nat) (payload : Bytes) :
    zdebugStep X (deflate lvl payload) payload.length = .ok payload := by
  simp [zdebugStep, hz.inflate_deflate]

theorem zdebugStep_bad {X : Ext} {deflate : Nat → Bytes → Bytes} (hz : ZlibOk X deflate) (lvl : Nat) (payload : Bytes)
    (declared : Nat) (hne : declared ≠ payload.length) :
    zdebugStep X (deflate lvl payload) declared = .error (.py .assertion) := by
  simp [zdebugStep, hz.inflate_deflate, hne, fail]


/-! ### `.gnu_debuglink` -/

def debuglinkCon (le : Bool) : Con :=
  Spec.st [Spec.f "filename" .cstring,
           Spec.anon (.padding (.sub (Spec.lit 3) (.fmod (.len (Spec.ctx "filename")) (Spec.lit 4))) true),
           Spec.f "checksum" (.uint 4 le)]

theorem spec_debuglink (c : ElfCfg) : (Spec.elfStructs c).Gnu_debuglink = debuglinkCon c.le := rfl

theorem pad_eval (filename : Bytes) :
    (do let v ← (Expr.sub (Spec.lit 3) (.fmod (.len (Spec.ctx "filename")) (Spec.lit 4))).eval
                  [("filename", Val.bytes filename)] Val.none
        v.asNat : R Nat) = .ok (3 - filename.length % 4) := by
  have h1 : PyInt.fmod (filename.length : Int) 4 = (filename.length : Int) % 4 := by
    rw [PyInt.fmod, Int.fmod_eq_emod_of_nonneg _ (by omega)]
  have h2 : ¬ ((3 : Int) - (filename.length : Int) % 4 < 0) := by omega
  have h3 : ((3 : Int) - (filename.length : Int) % 4).toNat = 3 - filename.length % 4 := by omega
  simp [Expr.eval, Spec.lit, Spec.ctx, Fields.getR, Fields.get?, Expr.arith, Val.asInt, Val.asNat, bind, Except.bind,
        pure, Except.pure, h1, h2, h3]

/-- the struct parse of the link the Spec encoder wrote -/
theorem parse_debuglink_struct (env : Env) (le : Bool)
    (data : Bytes) (off : Nat) (filename : Bytes) (crc : Nat) (rest : Bytes)
    (hlt : off < 2 ^ 63) (hnul : ∀ b ∈ filename, b ≠ 0) (hcrc : crc < 2 ^ 32)
    (hd : data.drop off = encDebuglink le filename crc ++ rest) :
    ∃ p, structParseAt env (debuglinkCon le) data off
      = .ok (.record [("filename", .bytes filename), ("checksum", .int crc)], p) := by
  have hoff' : ¬ off ≥ 2 ^ 63 := by omega
  let pad : Bytes := List.replicate (3 - filename.length % 4) 0
  have hd0 : data.drop off = filename ++ [0] ++ (pad ++ (encNat le 4 crc ++ rest)) := by
    simpa [encDebuglink, List.append_assoc, pad] using hd
  have hd1 : data.drop (off + filename.length + 1) = pad ++ (encNat le 4 crc ++ rest) := by
    have := drop_add_of_drop hd0
    simpa [Nat.add_assoc] using this
  have hd2 : data.drop (off + filename.length + 1 + (3 - filename.length % 4)) = encNat le 4 crc ++ rest := by
    have := drop_add_of_drop hd1
    simpa [pad] using this
  have hc := parseCString_ok hnul hd0
  have hpadlen : pad.length = 3 - filename.length % 4 := by simp [pad]
  have hpadz : ¬ ∃ x, x ∈ pad ∧ ¬ x = 0 := by
    rintro ⟨x, hx, hx0⟩
    exact hx0 (List.eq_of_mem_replicate hx)
  have e2 : decNat le (encNat le 4 crc) = crc := decNat_encNat_of_lt le (by omega)
  have hpe := pad_eval filename
  simp only [bind, Except.bind] at hpe
  cases hev : (Expr.sub (Spec.lit 3) (.fmod (.len (Spec.ctx "filename")) (Spec.lit 4))).eval
      [("filename", Val.bytes filename)] Val.none with
  | error e => simp [hev] at hpe
  | ok pv =>
    simp only [hev] at hpe
    simp [structParseAt, hoff', structParse, debuglinkCon, Spec.st, Spec.f, Spec.anon, Spec.mkFields,
          Con.parse, Con.parseFields, hc, Fields.set, hev, hpe, readExact_ok hd1 hpadlen, hpadz,
          readExact_ok hd2 (encNat_length le 4 crc), e2, bind, Except.bind, pure, Except.pure]

/-- parsing the link the Spec encoder wrote -/
theorem parse_debuglink (env : Env) (S : ElfStructs) (le : Bool) (hS : S.Gnu_debuglink = debuglinkCon le)
    (data : Bytes) (sec : Sec) (off : Nat) (filename : Bytes) (crc : Nat) (rest : Bytes)
    (hoff : sec.hdr.getNat "sh_offset" = .ok off) (hlt : off < 2 ^ 63)
    (hnul : ∀ b ∈ filename, b ≠ 0) (hcrc : crc < 2 ^ 32)
    (hd : data.drop off = encDebuglink le filename crc ++ rest) :
    parseDebuglink env S data sec = .ok (filename, crc) := by
  obtain ⟨p, hp⟩ := parse_debuglink_struct env le data off filename crc rest hlt hnul hcrc hd
  simp only [parseDebuglink, hoff, hS, hp, bind, Except.bind]
  have : ¬ ((crc : Int) < 0) := by omega
  simp [asBytes, Val.getField, Val.getNat, Fields.getR, Fields.get?, Val.asNat, Val.asInt, bind, Except.bind, pure, Except.pure, this]


/-! ### `_read_dwarf_section` and the loop of `get_dwarf_info` on stored sections -/

/-- the container encodings of one section -/
inductive Enc
  | plain
  | gabi (lvl align : Nat)
  | zdebug (lvl : Nat)

def Enc.legacy : Enc → Bool
  | .zdebug _ => true
  | _ => false

/-- the bytes stored in the file for logical content `payload` under encoding `e` -/
def Enc.body (deflate : Nat → Bytes → Bytes) (cls : Nat) (le : Bool) (payload : Bytes) : Enc → Bytes
  | .plain => payload
  | .gabi lvl align => gabiBody cls le payload.length align (deflate lvl payload)
  | .zdebug lvl => zdebugBody payload.length (deflate lvl payload)

/-- side conditions of an encoding: the flag, field ranges (sizes fit their header fields), and a
    non-empty deflate stream for the legacy format -/
def Enc.ok (deflate : Nat → Bytes → Bytes) (cls : Nat) (payload : Bytes) (flags : Nat) : Enc → Prop
  | .plain => flags &&& 0x800 = 0
  | .gabi _ align => flags &&& 0x800 ≠ 0 ∧ payload.length < 2 ^ cls ∧ align < 2 ^ cls ∧ payload.length + 1 < 2 ^ 63
  | .zdebug lvl => flags &&& 0x800 = 0 ∧ payload.length < 2 ^ 64 ∧ 0 < (deflate lvl payload).length

/-- section `sec` stores logical content `payload` (address `addr`) at file offset `off` under `e` -/
def Stores (deflate : Nat → Bytes → Bytes) (data : Bytes) (cls : Nat) (le : Bool) (sec : Sec) (e : Enc)
    (payload : Bytes) (addr off : Nat) : Prop :=
  ∃ ty rest flags, Placed data sec.hdr ty off (e.body deflate cls le payload) rest flags addr ∧
    e.ok deflate cls payload flags

/-- what the environment of the file must provide: the Spec's compression header for its class and
    byte order, the name of ELFCOMPRESS_ZLIB, zlib as assumed, and no phantom bytes -/
structure FileOk (P : Params) (deflate : Nat → Bytes → Bytes) (f : ElfFile) : Prop where
  hcls : f.cls = 32 ∨ f.cls = 64
  hchdr : f.S.Elf_Chdr = chdrCon f.cls f.le
  henv : P.env.enumDecode "ENUM_ELFCOMPRESS_TYPE" 1 = some "ELFCOMPRESS_ZLIB"
  hzlib : ZlibOk P.X deflate
  hphantom : hasPhantomBytes f.header = .ok false

/-- no relocation section is applied to the section named `name` -/
def NoReloc (secs : List Sec) (relocate : Bool) (name : Bytes) : Prop :=
  relocate = false ∨ findRelocations secs name = none

/-- the descriptor the property prescribes for content stored in section `sec` at `off` -/
def goodDescr (sec : Sec) (payload : Bytes) (addr off : Nat) : Descr :=
  ⟨payload, sec.name, off, payload.length, addr⟩

theorem decompress_stored {P : Params} {deflate : Nat → Bytes → Bytes} {f : ElfFile} (hf : FileOk P deflate f)
    (sec : Sec) (lvl : Nat) (payload : Bytes) (addr off : Nat) (hs : payload.length < 2 ^ 64)
    (hne : 0 < (deflate lvl payload).length) :
    decompressZdebug P.X ⟨zdebugBody payload.length (deflate lvl payload), sec.name, off,
        (zdebugBody payload.length (deflate lvl payload)).length, addr⟩ = .ok (goodDescr sec payload addr off) := by
  rw [decompressZdebug_framed P.X _ payload.length (deflate lvl payload) rfl
        (by simp only [zdebugBody_length]; omega) hs, zdebugStep_ok hf.hzlib]
  simp [Except.map, goodDescr]

/-- the last step of `_read_dwarf_section`: relocations applied to the (decompressed) descriptor -/
def relocStep (P : Params) (f : ElfFile) (secs : List Sec) (sec : Sec) (relocate : Bool) (d : Descr) : V Descr :=
  if relocate then
    match findRelocations secs sec.name with
    | none => .ok d
    | some rsec =>
      match applyRelocations P f rsec d.stream with
      | .ok b => .ok { d with stream := b }
      | .error e => .error (.py e)
  else .ok d

/-- `_read_dwarf_section` on a stored section, whatever its encoding: the logical content reaches
    the relocation step (a legacy section is decompressed BEFORE it is relocated) -/
theorem readDwarfSection_stored_eq {P : Params} {deflate : Nat → Bytes → Bytes} {f : ElfFile} (hf : FileOk P deflate f)
    (secs : List Sec) (sec : Sec) (relocate : Bool)
    (e : Enc) (payload : Bytes) (addr off : Nat)
    (hst : Stores deflate f.data f.cls f.le sec e payload addr off) :
    readDwarfSection P f secs sec relocate e.legacy = relocStep P f secs sec relocate (goodDescr sec payload addr off) := by
  obtain ⟨ty, rest, flags, hp, hok⟩ := hst
  have tail : ∀ d : Descr,
      (if relocate = true then
        match findRelocations secs sec.name with
        | none => (pure d : V Descr)
        | some rsec =>
          if false = true then fail .elfParseError
          else do
            let relocated ← liftR (applyRelocations P f rsec d.stream)
            pure { d with stream := relocated }
       else pure d) = relocStep P f secs sec relocate d := by
    intro d
    unfold relocStep
    cases relocate with
    | false => rfl
    | true =>
      simp only [if_true]
      cases findRelocations secs sec.name with
      | none => rfl
      | some rsec =>
        simp only [Bool.false_eq_true, if_false, liftR, bind, Except.bind]
        cases applyRelocations P f rsec d.stream <;> rfl
  cases e with
  | plain =>
    have hi := sectionInfo_plain P.env f.S hp hok
    have hd := sectionData_plain P.X f.S hp
    simp only [Enc.body] at hi hd
    simp only [readDwarfSection, hf.hphantom, hi, hd, liftR, bind, Except.bind, hp.hoff, hp.haddr, Enc.legacy,
      Bool.false_eq_true, if_false, pure, Except.pure]
    exact tail _
  | gabi lvl align =>
    obtain ⟨hfl, hs, ha, hb⟩ := hok
    have hi := sectionInfo_gabi P.env f.S hf.hchdr hf.hcls hp hfl hs ha hf.henv
    have hd := sectionData_gabi P.X f.S hf.hchdr hf.hcls hp
    rw [gabiStep_ok hf.hzlib lvl payload hb] at hd
    simp only [readDwarfSection, hf.hphantom, hi, hd, liftR, bind, Except.bind, hp.hoff, hp.haddr, Enc.legacy,
      Bool.false_eq_true, if_false, pure, Except.pure]
    exact tail _
  | zdebug lvl =>
    obtain ⟨hfl, hs, hne⟩ := hok
    have hi := sectionInfo_plain P.env f.S hp hfl
    have hd := sectionData_plain P.X f.S hp
    simp only [Enc.body] at hi hd
    simp only [readDwarfSection, hf.hphantom, hi, hd, liftR, bind, Except.bind, hp.hoff, hp.haddr, Enc.legacy,
      Bool.false_eq_true, if_false, if_true, pure, Except.pure, decompress_stored hf sec lvl payload addr off hs hne]
    exact tail _

theorem relocStep_noReloc (P : Params) (f : ElfFile) (secs : List Sec) (sec : Sec) (relocate : Bool) (d : Descr)
    (hnr : NoReloc secs relocate sec.name) : relocStep P f secs sec relocate d = .ok d := by
  unfold relocStep
  rcases hnr with h | h
  · simp [h]
  · simp only [h]; split <;> rfl

theorem readDwarfSection_stored {P : Params} {deflate : Nat → Bytes → Bytes} {f : ElfFile} (hf : FileOk P deflate f)
    (secs : List Sec) (sec : Sec) (relocate : Bool) (hnr : NoReloc secs relocate sec.name)
    (e : Enc) (payload : Bytes) (addr off : Nat)
    (hst : Stores deflate f.data f.cls f.le sec e payload addr off) :
    readDwarfSection P f secs sec relocate e.legacy = .ok (goodDescr sec payload addr off) := by
  rw [readDwarfSection_stored_eq hf secs sec relocate e payload addr off hst, relocStep_noReloc P f secs sec relocate _ hnr]

theorem zName_startsWithDotZ (x : Bytes) : startsWithDotZ (zName x) = true := by
  simp [startsWithDotZ, zName, dotZ]

theorem readOne_eq (P : Params) (f : ElfFile) (secs : List Sec) (relocate zfile : Bool)
    (kn : String × Bytes × Bool) :
    readOne P f secs relocate zfile kn =
      match getSectionByName secs (secNameOf zfile kn) with
      | none => .ok (kn.1, none)
      | some sec =>
        (readDwarfSection P f secs sec relocate (legacyOf zfile kn)).bind fun d => .ok (kn.1, some d) := by
  unfold readOne
  cases getSectionByName secs (secNameOf zfile kn) with
  | none => rfl
  | some sec => rfl

theorem readOne_absent (P : Params) (f : ElfFile) (secs : List Sec) (relocate zfile : Bool)
    (kn : String × Bytes × Bool) (h : getSectionByName secs (secNameOf zfile kn) = none) :
    readOne P f secs relocate zfile kn = .ok (kn.1, none) := by
  rw [readOne_eq, h]

theorem readOne_stored {P : Params} {deflate : Nat → Bytes → Bytes} {f : ElfFile} (hf : FileOk P deflate f)
    (secs : List Sec) (relocate zfile : Bool) (kn : String × Bytes × Bool) (sec : Sec)
    (hget : getSectionByName secs (secNameOf zfile kn) = some sec)
    (hnr : NoReloc secs relocate sec.name)
    (e : Enc) (payload : Bytes) (addr off : Nat)
    (hst : Stores deflate f.data f.cls f.le sec e payload addr off)
    (hleg : e.legacy = legacyOf zfile kn) :
    readOne P f secs relocate zfile kn = .ok (kn.1, some (goodDescr sec payload addr off)) := by
  have hr := readDwarfSection_stored hf secs sec relocate hnr e payload addr off hst
  rw [readOne_eq, hget]
  simp only [← hleg, hr, Except.bind]

/-- the logical debug content of a file: per DWARFInfo keyword, the bytes and the load address -/
abbrev Content := String → Option (Bytes × Nat)

/-- the file stores `content`: every table entry is absent when the content has nothing for it,
    and otherwise found (by `get_section_by_name`) in a section storing exactly that content,
    in the legacy format precisely where the reader expects the legacy format -/
def Holds (P : Params) (deflate : Nat → Bytes → Bytes) (f : ElfFile) (secs : List Sec) (relocate : Bool)
    (content : Content) : Prop :=
  ∀ kn ∈ P.names,
    match content kn.1 with
    | none => getSectionByName secs (secNameOf (hasSection secs nZdebugInfo) kn) = none
    | some (payload, addr) =>
      ∃ sec e off, getSectionByName secs (secNameOf (hasSection secs nZdebugInfo) kn) = some sec ∧
        NoReloc secs relocate sec.name ∧
        Stores deflate f.data f.cls f.le sec e payload addr off ∧
        e.legacy = legacyOf (hasSection secs nZdebugInfo) kn

/-- the view the property prescribes for a content -/
def contentView (names : List (String × Bytes × Bool)) (content : Content) : List (String × Option SecView) :=
  names.map fun kn => (kn.1, (content kn.1).map fun pa => ⟨pa.1, pa.1.length, pa.2⟩)

def secViews (ds : List (String × Option Descr)) : List (String × Option SecView) :=
  ds.map fun p => (p.1, p.2.map Descr.view)

theorem readAll_holds {P : Params} {deflate : Nat → Bytes → Bytes} {f : ElfFile} (hf : FileOk P deflate f)
    (secs : List Sec) (relocate : Bool) (content : Content) :
    ∀ (names : List (String × Bytes × Bool)),
      (∀ kn ∈ names,
        match content kn.1 with
        | none => getSectionByName secs (secNameOf (hasSection secs nZdebugInfo) kn) = none
        | some (payload, addr) =>
          ∃ sec e off, getSectionByName secs (secNameOf (hasSection secs nZdebugInfo) kn) = some sec ∧
            NoReloc secs relocate sec.name ∧
            Stores deflate f.data f.cls f.le sec e payload addr off ∧
            e.legacy = legacyOf (hasSection secs nZdebugInfo) kn) →
      ∃ ds, readAll P f secs relocate (hasSection secs nZdebugInfo) names = .ok ds ∧
        secViews ds = contentView names content := by
  intro names
  induction names with
  | nil => intro _; exact ⟨[], rfl, rfl⟩
  | cons kn rest ih =>
    intro h
    obtain ⟨ds, hds, hv⟩ := ih (fun k hk => h k (List.mem_cons_of_mem _ hk))
    have hk := h kn List.mem_cons_self
    cases hc : content kn.1 with
    | none =>
      simp only [hc] at hk
      refine ⟨(kn.1, none) :: ds, ?_, ?_⟩
      · simp [readAll, readOne_absent P f secs relocate _ kn hk, hds, bind, Except.bind, pure, Except.pure]
      · simp [secViews, contentView, hc] at hv ⊢
        exact hv
    | some pa =>
      obtain ⟨payload, addr⟩ := pa
      simp only [hc] at hk
      obtain ⟨sec, e, off, hget, hnr, hst, hleg⟩ := hk
      refine ⟨(kn.1, some (goodDescr sec payload addr off)) :: ds, ?_, ?_⟩
      · simp [readAll, readOne_stored hf secs relocate _ kn sec hget hnr e payload addr off hst hleg, hds,
              bind, Except.bind, pure, Except.pure]
      · simp [secViews, contentView, hc, goodDescr, Descr.view] at hv ⊢
        exact hv


/-! ### the debug-link gate -/

theorem linkTarget_some (secs : List Sec) (sec : Sec) (ld : Loader)
    (hget : getSectionByName secs nGnuDebuglink = some sec) (hno : hasDwarfInfo secs true = false) :
    linkTarget secs (some ld) true = some (sec, ld) := by
  simp [linkTarget, hget, hno]

theorem linkTarget_none_of (secs : List Sec) (loader : Option Loader) (followLinks : Bool)
    (h : getSectionByName secs nGnuDebuglink = none ∨ loader = none ∨ hasDwarfInfo secs true = true ∨ followLinks = false) :
    linkTarget secs loader followLinks = none := by
  unfold linkTarget
  rcases h with h | h | h | h
  · rw [h]
  · rw [h]; cases getSectionByName secs nGnuDebuglink <;> rfl
  · cases getSectionByName secs nGnuDebuglink <;> cases loader <;> simp [h]
  · cases getSectionByName secs nGnuDebuglink <;> cases loader <;> simp [h]

theorem core_unlinked (P : Params) (again : Option Loader → Bytes → Bool → Bool → V DwarfInfo)
    (loader : Option Loader) (f : ElfFile) (secs : List Sec) (relocate followLinks : Bool)
    (h : linkTarget secs loader followLinks = none) :
    getDwarfInfoCore P again loader f secs relocate followLinks = ownInfo P again loader f secs relocate followLinks := by
  simp [getDwarfInfoCore, h]

theorem core_linked (P : Params) (again : Option Loader → Bytes → Bool → Bool → V DwarfInfo)
    (ld : Loader) (f : ElfFile) (secs : List Sec) (relocate : Bool) (sec : Sec) (filename : Bytes) (crc : Nat)
    (hl : linkTarget secs (some ld) true = some (sec, ld))
    (hp : parseDebuglink P.env f.S f.data sec = .ok (filename, crc)) :
    getDwarfInfoCore P again (some ld) f secs relocate true =
      match ld filename with
      | none => fail .keyError
      | some ext => if P.X.crc32 ext ≠ crc then fail .elfError else again (some ld) ext relocate true := by
  simp only [getDwarfInfoCore, hl, hp, liftR, bind, Except.bind]
  cases ld filename <;> rfl

/-! ### descriptors by keyword, through the view -/

def viewOf (vs : List (String × Option SecView)) (kw : String) : Option SecView :=
  match vs.find? (·.1 == kw) with
  | some (_, d) => d
  | none => none

theorem descrOf_view (ds : List (String × Option Descr)) (kw : String) :
    (descrOf ds kw).map Descr.view = viewOf (secViews ds) kw := by
  induction ds with
  | nil => rfl
  | cons d ds ih =>
    simp only [descrOf, viewOf, secViews, List.map_cons, List.find?_cons] at ih ⊢
    by_cases h : (d.1 == kw) = true
    · simp [h]
    · simp only [h]
      exact ih

theorem viewOf_contentView_none (names : List (String × Bytes × Bool)) (content : Content) (kw : String)
    (h : content kw = none) : viewOf (contentView names content) kw = none := by
  induction names with
  | nil => rfl
  | cons kn rest ih =>
    simp only [viewOf, contentView, List.map_cons, List.find?_cons] at ih ⊢
    by_cases hk : (kn.1 == kw) = true
    · have : kn.1 = kw := by simpa using hk
      simp [hk, this, h]
    · simp only [hk]
      exact ih

theorem descrOf_none_of_content (ds : List (String × Option Descr)) (names : List (String × Bytes × Bool))
    (content : Content) (kw : String) (hv : secViews ds = contentView names content) (h : content kw = none) :
    descrOf ds kw = none := by
  have := descrOf_view ds kw
  rw [hv, viewOf_contentView_none names content kw h] at this
  cases hd : descrOf ds kw with
  | none => rfl
  | some d => simp [hd] at this

theorem parseDebugSupInfo_none (env : Env) (DS : DwarfStructs) (ds : List (String × Option Descr))
    (h1 : descrOf ds "debug_sup_sec" = none) (h2 : descrOf ds "gnu_debugaltlink_sec" = none) :
    parseDebugSupInfo env DS ds = .ok none := by
  simp [parseDebugSupInfo, h1, h2, pure, Except.pure]

/-- the file's own view, links not involved: `follow_links=False`, or nothing names a supplementary file -/
theorem ownInfo_holds {P : Params} {deflate : Nat → Bytes → Bytes} {f : ElfFile} (hf : FileOk P deflate f)
    (again : Option Loader → Bytes → Bool → Bool → V DwarfInfo) (loader : Option Loader)
    (secs : List Sec) (relocate followLinks : Bool) (content : Content) (m : Val)
    (hm : f.header.getField "e_machine" = .ok m)
    (hh : Holds P deflate f secs relocate content)
    (hsup : followLinks = false ∨
      ((∃ DS, P.dwarfStructsFor ⟨f.le, 32, f.cls / 8, 2⟩ = some DS) ∧
        content "debug_sup_sec" = none ∧ content "gnu_debugaltlink_sec" = none)) :
    (ownInfo P again loader f secs relocate followLinks).map DwarfInfo.view
      = .ok (.mk f.le (f.cls / 8) (P.machineArchOf m) (contentView P.names content) none) := by
  obtain ⟨ds, hds, hv⟩ := readAll_holds hf secs relocate content P.names hh
  rcases hsup with h | ⟨⟨DS, hDS⟩, h1, h2⟩
  · subst h
    simp [ownInfo, hds, hm, liftR, bind, Except.bind, pure, Except.pure, Except.map, DwarfInfo.view]
    exact hv
  · have e1 := descrOf_none_of_content ds P.names content _ hv h1
    have e2 := descrOf_none_of_content ds P.names content _ hv h2
    cases followLinks <;>
      simp [ownInfo, supplementary, hds, hm, hDS, parseDebugSupInfo_none P.env DS ds e1 e2, liftR, bind, Except.bind,
            pure, Except.pure, Except.map, DwarfInfo.view] <;>
      exact hv

theorem readAll_error (P : Params) (f : ElfFile) (secs : List Sec) (relocate zfile : Bool) :
    ∀ (names : List (String × Bytes × Bool)) (kn : String × Bytes × Bool), kn ∈ names →
      (∃ e, readOne P f secs relocate zfile kn = .error e) →
      ∃ e, readAll P f secs relocate zfile names = .error e := by
  intro names
  induction names with
  | nil => intro kn h; cases h
  | cons k rest ih =>
    intro kn hmem ⟨e, he⟩
    cases hk : readOne P f secs relocate zfile k with
    | error e' => exact ⟨e', by simp [readAll, hk, bind, Except.bind]⟩
    | ok d =>
      rcases List.mem_cons.mp hmem with rfl | hmem
      · rw [he] at hk; cases hk
      · obtain ⟨e', he'⟩ := ih kn hmem ⟨e, he⟩
        exact ⟨e', by simp [readAll, hk, he', bind, Except.bind]⟩


/-! ### supplementary links -/

def altlinkCon : Con := Spec.st [Spec.f "sup_filename" .cstring, Spec.f "sup_checksum" (.bytesN (Spec.lit 20))]
def debugsupCon (le : Bool) : Con :=
  Spec.st [Spec.f "version" (.sint 2 le), Spec.f "is_supplementary" (.uint 1 le), Spec.f "sup_filename" .cstring]

theorem spec_altlink (c : DwarfCfg) : (Spec.dwarfStructs c).Dwarf_debugaltlink = altlinkCon := rfl
theorem spec_debugsup (c : DwarfCfg) : (Spec.dwarfStructs c).Dwarf_debugsup = debugsupCon c.le := rfl

theorem parse_altlink (env : Env) (path buildId junk : Bytes) (hnul : ∀ b ∈ path, b ≠ 0) (hid : buildId.length = 20) :
    ∃ v, parseStream env altlinkCon (encAltlink path buildId ++ junk) = .ok v ∧
      v.getField "sup_filename" = .ok (.bytes path) := by
  have hd0 : (encAltlink path buildId ++ junk).drop 0 = path ++ [0] ++ (buildId ++ junk) := by
    simp [encAltlink, List.append_assoc]
  have hd1 : (encAltlink path buildId ++ junk).drop (0 + path.length + 1) = buildId ++ junk := by
    have := drop_add_of_drop hd0
    simpa [Nat.add_assoc] using this
  have hc := parseCString_ok hnul hd0
  have hr := readExact_ok hd1 hid
  simp only [Nat.zero_add] at hc hr
  simp [parseStream, structParse, altlinkCon, Spec.st, Spec.f, Spec.mkFields, Spec.lit, Con.parse, Con.parseFields, hc,
        Expr.eval, Val.asNat, Val.asInt, hr, Fields.set, bind, Except.bind, pure, Except.pure, Val.getField, Fields.getR,
        Fields.get?]

theorem parse_debugsup (env : Env) (le : Bool) (version isSup : Nat) (path checksum junk : Bytes)
    (hnul : ∀ b ∈ path, b ≠ 0) (hs : isSup < 256) :
    ∃ v, parseStream env (debugsupCon le) (encDebugSup le version isSup path checksum ++ junk) = .ok v ∧
      v.getField "sup_filename" = .ok (.bytes path) ∧ v.getInt "is_supplementary" = .ok (isSup : Int) := by
  obtain ⟨tail, hd0⟩ : ∃ tail, (encDebugSup le version isSup path checksum ++ junk).drop 0
      = encNat le 2 version ++ ([UInt8.ofNat isSup] ++ (path ++ [0] ++ tail)) :=
    ⟨Spec.encUlebN (max 1 ((Nat.log2 checksum.length) / 7 + 1)) checksum.length ++ (checksum ++ junk),
      by simp only [encDebugSup, List.append_assoc, List.drop_zero]⟩
  have hd1 := drop_add_of_drop hd0
  have hd2 := drop_add_of_drop hd1
  simp only [encNat_length, List.length_singleton, Nat.zero_add] at hd1 hd2
  have hc := parseCString_ok hnul hd2
  have e1 : decNat le [UInt8.ofNat isSup] = isSup := by
    rw [decNat_singleton]
    simp [UInt8.toNat_ofNat', Nat.mod_eq_of_lt hs]
  simp [parseStream, structParse, debugsupCon, Spec.st, Spec.f, Spec.mkFields, Con.parse, Con.parseFields, hc,
        readExact_ok hd0 (encNat_length le 2 version), readExact_ok hd1 (List.length_singleton), e1,
        Fields.set, bind, Except.bind, pure, Except.pure, Val.getField, Val.getInt, Val.asInt, Fields.getR, Fields.get?]

theorem parseDebugSupInfo_altlink (env : Env) (DS : DwarfStructs) (hDS : DS.Dwarf_debugaltlink = altlinkCon)
    (ds : List (String × Option Descr)) (d : Descr) (path buildId junk : Bytes)
    (h1 : descrOf ds "debug_sup_sec" = none) (h2 : descrOf ds "gnu_debugaltlink_sec" = some d)
    (hd : d.stream = encAltlink path buildId ++ junk) (hnul : ∀ b ∈ path, b ≠ 0) (hid : buildId.length = 20) :
    parseDebugSupInfo env DS ds = .ok (some path) := by
  obtain ⟨v, hv, hf⟩ := parse_altlink env path buildId junk hnul hid
  simp [parseDebugSupInfo, h1, h2, hDS, hd, hv, hf, asBytes, bind, Except.bind, pure, Except.pure]

theorem parseDebugSupInfo_debugsup (env : Env) (DS : DwarfStructs) (le : Bool) (hDS : DS.Dwarf_debugsup = debugsupCon le)
    (ds : List (String × Option Descr)) (d : Descr) (version : Nat) (path checksum junk : Bytes)
    (h1 : descrOf ds "debug_sup_sec" = some d)
    (hd : d.stream = encDebugSup le version 0 path checksum ++ junk) (hnul : ∀ b ∈ path, b ≠ 0) :
    parseDebugSupInfo env DS ds = .ok (some path) := by
  obtain ⟨v, hv, hf, hi⟩ := parse_debugsup env le version 0 path checksum junk hnul (by omega)
  simp [parseDebugSupInfo, h1, hDS, hd, hv, hf, hi, asBytes, bind, Except.bind, pure, Except.pure]

/-- with a path, a loader and the file it names: the supplementary DWARFInfo is that file's own,
    opened WITHOUT a loader, relocations and links on -/
theorem supplementary_followed (P : Params) (again : Option Loader → Bytes → Bool → Bool → V DwarfInfo)
    (ld : Loader) (f : ElfFile) (ds : List (String × Option Descr)) (DS : DwarfStructs) (path supData : Bytes)
    (hDS : P.dwarfStructsFor ⟨f.le, 32, f.cls / 8, 2⟩ = some DS)
    (hp : parseDebugSupInfo P.env DS ds = .ok (some path)) (hl : ld path = some supData) :
    supplementary P again (some ld) f ds = (again none supData true true).map some := by
  simp only [supplementary, hDS, hp, hl, liftR, bind, Except.bind]
  cases again none supData true true <;> rfl

theorem supplementary_no_loader (P : Params) (again : Option Loader → Bytes → Bool → Bool → V DwarfInfo)
    (f : ElfFile) (ds : List (String × Option Descr)) (DS : DwarfStructs) (path : Option Bytes)
    (hDS : P.dwarfStructsFor ⟨f.le, 32, f.cls / 8, 2⟩ = some DS)
    (hp : parseDebugSupInfo P.env DS ds = .ok path) :
    supplementary P again none f ds = .ok none := by
  simp only [supplementary, hDS, hp, liftR, bind, Except.bind]
  cases path <;> rfl


/-! ### files restricted to a set of encodings -/

/-- `Holds`, with every section's encoding drawn from `allowed` -/
def HoldsEnc (P : Params) (deflate : Nat → Bytes → Bytes) (f : ElfFile) (secs : List Sec) (relocate : Bool)
    (content : Content) (allowed : Enc → Prop) : Prop :=
  ∀ kn ∈ P.names,
    match content kn.1 with
    | none => getSectionByName secs (secNameOf (hasSection secs nZdebugInfo) kn) = none
    | some (payload, addr) =>
      ∃ sec e off, getSectionByName secs (secNameOf (hasSection secs nZdebugInfo) kn) = some sec ∧
        NoReloc secs relocate sec.name ∧
        Stores deflate f.data f.cls f.le sec e payload addr off ∧
        e.legacy = legacyOf (hasSection secs nZdebugInfo) kn ∧ allowed e

theorem HoldsEnc.holds {P : Params} {deflate : Nat → Bytes → Bytes} {f : ElfFile} {secs : List Sec} {relocate : Bool}
    {content : Content} {allowed : Enc → Prop} (h : HoldsEnc P deflate f secs relocate content allowed) :
    Holds P deflate f secs relocate content := by
  intro kn hk
  have := h kn hk
  cases hc : content kn.1 with
  | none => simpa [hc] using this
  | some pa =>
    obtain ⟨payload, addr⟩ := pa
    simp only [hc] at this ⊢
    obtain ⟨sec, e, off, h1, h2, h3, h4, _⟩ := this
    exact ⟨sec, e, off, h1, h2, h3, h4⟩

def Enc.isPlain : Enc → Prop
  | .plain => True
  | _ => False
def Enc.isPlainOrGabi : Enc → Prop
  | .zdebug _ => False
  | _ => True
def Enc.isPlainOrZdebug : Enc → Prop
  | .gabi _ _ => False
  | _ => True

end PyElf.Proofs.C11
