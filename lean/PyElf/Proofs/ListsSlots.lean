/-
  C07 helper lemmas: indexed forms and indexed addresses against the BYTES of the table sections.

  `Props/C07` `attr_value_loclistx` / `get_addr_exact` are stated for a section presented as
  `pre ++ encOffsets … ++ rest`.  Here the same facts are stated against the section as it is — "the
  fixed-width unsigned integer in slot `base + i·size`" (`Spec.C04.uintAt`, the reading C04's `resolve` uses) —
  which is the form a whole-section statement needs: `specValue` is the value DWARF 5 §7.28 / §7.29 / §7.5.5 give
  an attribute of a debugging entry as far as the list code is concerned, `specDec` the decoded entry, and
  `dieAttrs_spec` says that is what `Model.Lists.dieAttrs` computes — for EVERY form, indexed ones included.
-/
import PyElf.Spec.DieTree
import PyElf.Model.ListsForest
import PyElf.Proofs.ListsV4
namespace PyElf.Proofs.ListsSlots
open PyElf PyElf.Spec PyElf.Model.Lists
open PyElf.Spec.C04 (uintAt)

/-- reading a fixed-width unsigned integer where `uintAt` finds one -/
theorem structParse_uintAt {env : Env} {data : Bytes} {le : Bool} {n pos a : Nat}
    (h : uintAt le data pos n = some a) :
    structParse env (.uint n le) data pos = .ok (.int a, pos + n) := by
  unfold uintAt at h
  simp only at h
  split at h
  · rename_i hl
    injection h with h
    simp only [structParse, bind, Except.bind, pure, Except.pure]
    rw [Con.parse]
    simp only [readExact, readN, hl, if_true, bind, Except.bind, pure, Except.pure, h]
  · cases h

theorem uintAt_pos_lt {data : Bytes} {le : Bool} {n pos a : Nat} (h : uintAt le data pos n = some a) (hn : 1 ≤ n) :
    pos < data.length := by
  unfold uintAt at h
  simp only at h
  split at h
  · rename_i hl
    rw [List.length_take, List.length_drop] at hl; omega
  · cases h

theorem resolveViaOffsetTable_slot (env : Env) (cu : Cu) (le : Bool) (sec : Option Bytes) (baseName : String)
    (raw v : Val) (hS : cu.S.the_Dwarf_offset = .uint (oszOf cu) le)
    (hsmall : ∀ d, sec = some d → d.length < 2 ^ 63)
    (h : slotValue le sec (getBaseOffset cu baseName) (oszOf cu) raw = some v) :
    resolveViaOffsetTable env sec cu raw baseName = .ok v := by
  unfold slotValue at h
  split at h
  · rename_i data b i hb
    cases hu : uintAt le data (b + i * oszOf cu) (oszOf cu) with
    | none => rw [hu] at h; cases h
    | some o =>
      rw [hu] at h
      simp only [Option.map_some, Option.some.injEq] at h
      subst h
      have hosz : 1 ≤ oszOf cu := by unfold oszOf; split <;> decide
      have hlt := uintAt_pos_lt hu hosz
      have hd := hsmall data rfl
      have hsz : (if cu.fmt = 32 then (4 : Int) else 8) = (oszOf cu : Int) := by
        unfold oszOf; split <;> rfl
      have hpos : (Int.ofNat b) + (Int.ofNat i) * (oszOf cu : Int) = ((b + i * oszOf cu : Nat) : Int) := by
        simp
      unfold resolveViaOffsetTable
      simp only [hb, bind, Except.bind, Val.asInt, hsz, hpos, ListsV4.seekParseInt_nat (show b + i * oszOf cu < 2 ^ 63 by omega),
        hS, structParse_uintAt hu, addV, pure, Except.pure]
      simp
  · cases h

/-- `_translate_attr_value` as the list code depends on it, for every form -/
theorem translateAttrValue_spec (env : Env) (secs : Secs) (cu : Cu) (le : Bool) (a : RawAttr) (v : Val)
    (hS : cu.S.the_Dwarf_offset = .uint (oszOf cu) le)
    (hl : ∀ d, secs.loclists = some d → d.length < 2 ^ 63) (hr : ∀ d, secs.rnglists = some d → d.length < 2 ^ 63)
    (h : specValue le secs cu a = some v) :
    translateAttrValue env secs cu a.form a.raw = .ok v := by
  unfold specValue at h
  unfold translateAttrValue
  by_cases h1 : a.form = "DW_FORM_loclistx"
  · rw [if_pos h1] at h ⊢
    exact resolveViaOffsetTable_slot env cu le _ _ _ _ hS hl h
  · rw [if_neg h1] at h ⊢
    by_cases h2 : a.form = "DW_FORM_rnglistx"
    · rw [if_pos h2] at h ⊢
      exact resolveViaOffsetTable_slot env cu le _ _ _ _ hS hr h
    · rw [if_neg h2] at h ⊢
      injection h with h; rw [h]

/-- `die.attributes` as the list code reads it, whatever forms the entry uses -/
theorem dieAttrs_spec (env : Env) (secs : Secs) (cu : Cu) (le : Bool) (die : List RawAttr)
    (hS : cu.S.the_Dwarf_offset = .uint (oszOf cu) le)
    (hl : ∀ d, secs.loclists = some d → d.length < 2 ^ 63) (hr : ∀ d, secs.rnglists = some d → d.length < 2 ^ 63)
    (h : dieResolves le secs cu die = true) :
    dieAttrs env secs cu die = .ok (specDec le secs cu die) := by
  unfold dieAttrs specDec
  have : die.mapM (fun a => do
      let v ← translateAttrValue env secs cu a.form a.raw
      pure ({ name := a.name, form := a.form, value := v } : Attr))
      = .ok (die.map fun a => ⟨a.name, a.form, (specValue le secs cu a).getD .none⟩) := by
    induction die with
    | nil => rfl
    | cons a die ih =>
      simp only [dieResolves, List.all_cons, Bool.and_eq_true] at h
      have ha := h.1
      cases hv : specValue le secs cu a with
      | none => rw [hv] at ha; cases ha
      | some v =>
        rw [List.mapM_cons, ih (by simpa [dieResolves] using h.2),
          translateAttrValue_spec env secs cu le a v hS hl hr hv]
        simp [bind, Except.bind, pure, Except.pure, hv]
  rw [this]
  rfl

/-- an entry without indexed forms always resolves, to its raw values -/
theorem dieResolves_plain (le : Bool) (secs : Secs) (cu : Cu) (die : List RawAttr)
    (h : ∀ a ∈ die, a.form ≠ "DW_FORM_loclistx" ∧ a.form ≠ "DW_FORM_rnglistx") : dieResolves le secs cu die = true := by
  simp only [dieResolves, List.all_eq_true]
  intro a ha
  simp [specValue, (h a ha).1, (h a ha).2]

/-! ### indexed addresses -/

theorem cuAddr_slot (env : Env) (secs : Secs) (cu : Cu) (le : Bool) (i a : Nat)
    (hS : cu.S.the_Dwarf_target_addr = .uint cu.asz le) (hasz : 1 ≤ cu.asz)
    (hsmall : ∀ d, secs.addr = some d → d.length < 2 ^ 63)
    (h : addrSlot le secs cu i = some a) :
    cuAddr env secs (some cu) (.int i) = .ok (.int a) := by
  unfold addrSlot at h
  split at h
  · rename_i data b hsec hb
    have hlt := uintAt_pos_lt h hasz
    have hd := hsmall data hsec
    have hpos : (Int.ofNat b) + ((i : Nat) : Int) * (cu.asz : Int) = ((b + i * cu.asz : Nat) : Int) := by simp
    unfold cuAddr getAddr
    simp only [hsec, hb, bind, Except.bind, Val.asInt, hpos,
      ListsV4.seekParseInt_nat (show b + i * cu.asz < 2 ^ 63 by omega), hS, structParse_uintAt h, pure, Except.pure]
  · cases h

end PyElf.Proofs.ListsSlots
