/-
  C07: the DIE scan at the start of `LocationLists.iter_location_lists()`.

  1. what the scan does with one debugging entry is `Spec.Lists.dieLocRefs` (the
     references the decision table finds in it), applied to the three containers;
  2. when the references agree with a layout of objects (`refsAgree`), the three
     containers are: the objects' offsets in increasing order, views offset ↦ list
     offset for exactly the objects with views, list offset ↦ a unit that refers to it.
-/
import PyElf.Spec.Lists
import PyElf.Model.Lists
import PyElf.Proofs.ListsCls
import PyElf.Proofs.ListsEnum
namespace PyElf.Proofs.ListsLocScan
open PyElf PyElf.Model.Lists PyElf.Spec.Lists

/-! ### 1. classification: "is a list" -/

theorem form_disj (form : String)
    (h : (Spec.Lists.dataForms.contains form || listForms.contains form) = true) :
    (form == "DW_FORM_exprloc") = false ∧ blockForms.contains form = false := by
  simp only [Spec.Lists.dataForms, listForms, List.contains_cons, List.contains_nil, Bool.or_false,
    Bool.or_eq_true, beq_iff_eq] at h
  rcases h with (h | h | h | h) | (h | h) <;> subst h <;> decide

theorem cls_list_bool (L E B CV D LF C v4 X : Bool) (h : (D || LF) = true → E = false ∧ B = false) :
    ((if !L then LocClass.neither else if E then LocClass.expr else if v4 && B && !CV then LocClass.expr
      else if LF && !C then LocClass.list else if v4 && D && !CV && !C then LocClass.list
      else LocClass.neither) == LocClass.list)
    = ((L && (X || ((v4 && D && !CV || LF) && !C))) && ((v4 && D && !CV || LF) && !C)) := by
  revert h
  cases L <;> cases E <;> cases B <;> cases CV <;> cases D <;> cases LF <;> cases C <;> cases v4 <;> cases X <;> decide

/-- the scan's test `attribute_has_location and _attribute_has_loc_list` is "the table says list" -/
theorem classify_list (name form : String) (ver : Nat) :
    (attributeHasLocation name form ver && attributeHasLocList name form ver)
      = (classify name form ver == .list) := by
  unfold classify attributeHasLocation attributeHasLocList
  rw [ListsCls.const_eq, ListsCls.loclistptr_eq, ListsCls.dataForms_eq]
  have hne : (name != "DW_AT_const_value") = !(name == "DW_AT_const_value") := rfl
  rw [hne]
  have hlf : (["DW_FORM_sec_offset", "DW_FORM_loclistx"].contains form) = listForms.contains form := rfl
  rw [hlf]
  have hd := form_disj form
  generalize attributeHasLocExpr name form ver = X
  generalize locAttrs.contains name = L
  generalize (form == "DW_FORM_exprloc") = E at hd ⊢
  generalize blockForms.contains form = B at hd ⊢
  generalize (name == "DW_AT_const_value") = CV
  generalize Spec.Lists.dataForms.contains form = D at hd ⊢
  generalize listForms.contains form = LF at hd ⊢
  generalize constantClass name form ver = C
  generalize decide (ver < 4) = v4
  exact (cls_list_bool L E B CV D LF C v4 X hd).symm

/-- for `DW_AT_location` the assertion's `_attribute_has_loc_list` alone says the same -/
theorem hasLocList_location (form : String) (ver : Nat) :
    attributeHasLocList "DW_AT_location" form ver = (classify "DW_AT_location" form ver == .list) := by
  rw [← classify_list]
  have : attributeIsLoclistptrClass "DW_AT_location" = true := by decide
  cases h : attributeHasLocList "DW_AT_location" form ver <;> simp [attributeHasLocation, this, h]

/-! ### 2. one debugging entry -/

def toDie (a : Attr) : DieAttr := ⟨a.name, a.form, a.value⟩

/-- the effect of one reference made by unit `cu` on the three containers -/
def applyRef (cu : Cu) (st : Scan) (r : LocRef) : Scan :=
  match r.1 with
  | some v => { st with locviews := dictSet st.locviews v r.2, cuMap := dictSet st.cuMap r.2 cu,
                        allOffsets := setAdd st.allOffsets v }
  | none => { st with allOffsets := setAdd st.allOffsets r.2, cuMap := dictSet st.cuMap r.2 cu }

theorem asInt_of_intOf {v : Val} {n : Int} (h : intOf v = some n) : v.asInt = .ok n := by
  cases v <;> simp [intOf] at h
  subst h; rfl

theorem scanAttr_eq (cu : Cu) (nv : Bool) (st : Scan) (a : Attr) :
    scanAttr cu (!nv) st a =
      if ((a.name != "DW_AT_location" || nv) && classify a.name a.form cu.version == .list) = true then do
        let listOffset ← a.value.asInt
        return { st with allOffsets := setAdd st.allOffsets listOffset,
                         cuMap := dictSet st.cuMap listOffset cu }
      else return st := by
  unfold scanAttr
  rw [Bool.and_assoc, classify_list, Bool.not_not]

theorem foldlM_scanAttr (cu : Cu) (nv : Bool) :
    ∀ (d : List Attr) (st : Scan) (rs : List LocRef),
      (((d.map toDie).filter fun a => (a.name != "DW_AT_location" || nv)
          && classify a.name a.form cu.version == .list).mapM
        fun a => (intOf a.value).map fun lo => ((none, lo) : LocRef)) = some rs →
      d.foldlM (scanAttr cu (!nv)) st = .ok (rs.foldl (applyRef cu) st) := by
  intro d
  induction d with
  | nil =>
    intro st rs h
    simp at h
    subst h
    rfl
  | cons a d ih =>
    intro st rs h
    rw [List.foldlM_cons]
    rw [List.map_cons, List.filter_cons] at h
    rw [scanAttr_eq]
    by_cases hc : ((a.name != "DW_AT_location" || nv) && classify a.name a.form cu.version == .list) = true
    · have hc' : (((toDie a).name != "DW_AT_location" || nv)
          && classify (toDie a).name (toDie a).form cu.version == .list) = true := hc
      rw [if_pos hc'] at h
      rw [if_pos hc]
      rw [List.mapM_cons] at h
      generalize hm : (List.filter (fun a => (a.name != "DW_AT_location" || nv)
            && classify a.name a.form cu.version == .list) (d.map toDie)).mapM
            (fun a => (intOf a.value).map fun lo => ((none, lo) : LocRef)) = m at h
      have hval : (toDie a).value = a.value := rfl
      rw [hval] at h
      cases hi : intOf a.value with
      | none => simp [hi, bind, Option.bind] at h
      | some lo =>
        cases m with
        | none => simp [hi, bind, Option.bind] at h
        | some rs' =>
          simp [hi, bind, Option.bind, pure] at h
          subst h
          simp only [asInt_of_intOf hi, bind, Except.bind, pure, Except.pure]
          rw [ih _ rs' hm]
          rfl
    · have hc' : ¬ ((((toDie a).name != "DW_AT_location" || nv)
          && classify (toDie a).name (toDie a).form cu.version == .list) = true) := hc
      rw [if_neg hc'] at h
      rw [if_neg hc]
      simp only [bind, Except.bind, pure, Except.pure]
      exact ih st rs h

theorem findAttr_toDie (d : List Attr) (n : String) :
    (d.map toDie).find? (fun a => a.name == n) = (findAttr d n).map toDie := by
  unfold findAttr
  rw [List.find?_map]
  rfl

/-- `scanDie` applies exactly the references `dieLocRefs` finds -/
theorem scanDie_refs (env : Env) (secs : Secs) (cu : Cu) (st : Scan) (die : List RawAttr) (d : List Attr)
    (rs : List LocRef) (hd : dieAttrs env secs cu die = .ok d)
    (hr : dieLocRefs cu.version (d.map toDie) = some rs) :
    scanDie env secs cu st die = .ok (rs.foldl (applyRef cu) st) := by
  unfold scanDie
  simp only [hd, bind, Except.bind]
  unfold dieLocRefs at hr
  rw [findAttr_toDie, findAttr_toDie] at hr
  unfold scanViews
  cases hg : findAttr d "DW_AT_GNU_locviews" with
  | none =>
    rw [hg] at hr
    simp only [Option.map_none, Option.isNone_none, Option.isSome_none] at hr ⊢
    generalize hm : (List.filter (fun a => (a.name != "DW_AT_location" || true)
        && classify a.name a.form cu.version == .list) (d.map toDie)).mapM
        (fun a => (intOf a.value).map fun lo => ((none, lo) : LocRef)) = m at hr
    cases m with
    | none => simp [bind, Option.bind] at hr
    | some rs' =>
      simp [bind, Option.bind, pure] at hr
      subst hr
      have := foldlM_scanAttr cu true d st rs' hm
      simpa [pure, Except.pure] using this
  | some va =>
    rw [hg] at hr
    simp only [Option.map_some, Option.isNone_some, Option.isSome_some] at hr ⊢
    generalize hm : (List.filter (fun a => (a.name != "DW_AT_location" || false)
        && classify a.name a.form cu.version == .list) (d.map toDie)).mapM
        (fun a => (intOf a.value).map fun lo => ((none, lo) : LocRef)) = m at hr
    cases hl : findAttr d "DW_AT_location" with
    | none => simp [hl, bind, Option.bind] at hr
    | some la =>
      have hname : la.name = "DW_AT_location" := by
        have := List.find?_some (show d.find? (fun a => a.name == "DW_AT_location") = some la from hl)
        simpa using this
      rw [hl] at hr
      simp only [Option.map_some] at hr ⊢
      have e1 : (toDie la).name = la.name := rfl
      have e2 : (toDie la).form = la.form := rfl
      have e3 : (toDie la).value = la.value := rfl
      have e4 : (toDie va).value = va.value := rfl
      rw [e1, e2, e3, e4] at hr
      by_cases hcl : classify la.name la.form cu.version = .list
      · rw [if_pos hcl] at hr
        have hll : attributeHasLocList la.name la.form cu.version = true := by
          rw [hname, hasLocList_location, ← hname, hcl]; rfl
        cases hv : intOf va.value with
        | none => simp [hv, bind, Option.bind] at hr
        | some v =>
          cases hlo : intOf la.value with
          | none => simp [hv, hlo, bind, Option.bind] at hr
          | some lo =>
            cases m with
            | none => simp [hv, hlo, bind, Option.bind] at hr
            | some rs' =>
              simp [hv, hlo, bind, Option.bind, pure] at hr
              subst hr
              have := foldlM_scanAttr cu false d
                { st with locviews := dictSet st.locviews v lo, cuMap := dictSet st.cuMap lo cu,
                          allOffsets := setAdd st.allOffsets v } rs' hm
              simp only [hll, asInt_of_intOf hv, asInt_of_intOf hlo, Bool.not_true, Bool.false_eq_true, if_false,
                bind, Except.bind, pure, Except.pure, List.foldl_cons, applyRef]
              simpa using this
      · rw [if_neg hcl] at hr
        simp [bind, Option.bind] at hr

/-! ### 3. all units -/

def applyRefs (st : Scan) (rs : List (LocRef × Cu)) : Scan := rs.foldl (fun st rc => applyRef rc.2 st rc.1) st

/-- the references of the debugging entries `dies` (decoded) of unit `cu`, in order -/
def dieRefsList (cu : Cu) : List (List Attr) → Option (List (LocRef × Cu))
  | [] => some []
  | d :: rest => do
      let here ← dieLocRefs cu.version (d.map toDie)
      let more ← dieRefsList cu rest
      pure (here.map (·, cu) ++ more)

/-- the references of the units of the section's generation, in `iter_CUs()` × `iter_DIEs()` order;
    `dec cu die` is the decoded form of a debugging entry -/
def locRefs (dec : Cu → List RawAttr → List Attr) (ver5 : Bool) : List Cu → Option (List (LocRef × Cu))
  | [] => some []
  | cu :: rest => do
      let here ← if decide (cu.version ≥ 5) == ver5 then dieRefsList cu (cu.dies.map (dec cu)) else some []
      let more ← locRefs dec ver5 rest
      pure (here ++ more)

theorem applyRefs_append (st : Scan) (a b : List (LocRef × Cu)) :
    applyRefs st (a ++ b) = applyRefs (applyRefs st a) b := by
  simp [applyRefs, List.foldl_append]

theorem applyRefs_map (cu : Cu) (st : Scan) (rs : List LocRef) :
    applyRefs st (rs.map (·, cu)) = rs.foldl (applyRef cu) st := by
  simp [applyRefs, List.foldl_map]

theorem foldlM_scanDie (env : Env) (secs : Secs) (cu : Cu) (dec : List RawAttr → List Attr) :
    ∀ (dies : List (List RawAttr)) (st : Scan) (rs : List (LocRef × Cu)),
      (∀ die ∈ dies, dieAttrs env secs cu die = .ok (dec die)) →
      dieRefsList cu (dies.map dec) = some rs →
      dies.foldlM (scanDie env secs cu) st = .ok (applyRefs st rs) := by
  intro dies
  induction dies with
  | nil =>
    intro st rs _ h
    simp [dieRefsList] at h
    subst h
    rfl
  | cons die dies ih =>
    intro st rs hdec h
    simp only [List.map_cons, dieRefsList] at h
    cases h1 : dieLocRefs cu.version ((dec die).map toDie) with
    | none => simp [h1, bind, Option.bind] at h
    | some here =>
      cases h2 : dieRefsList cu (dies.map dec) with
      | none => simp [h1, h2, bind, Option.bind] at h
      | some more =>
        simp [h1, h2, bind, Option.bind, pure] at h
        subst h
        rw [List.foldlM_cons, scanDie_refs env secs cu st die (dec die) here (hdec die (by simp)) h1]
        simp only [bind, Except.bind]
        rw [ih _ more (fun x hx => hdec x (by simp [hx])) h2, applyRefs_append, applyRefs_map]

theorem foldlM_scanCu (env : Env) (secs : Secs) (ver5 : Bool) (dec : Cu → List RawAttr → List Attr) :
    ∀ (cus : List Cu) (st : Scan) (rs : List (LocRef × Cu)),
      (∀ cu ∈ cus, (decide (cu.version ≥ 5) == ver5) = true →
        ∀ die ∈ cu.dies, dieAttrs env secs cu die = .ok (dec cu die)) →
      locRefs dec ver5 cus = some rs →
      cus.foldlM (scanCu env secs ver5) st = .ok (applyRefs st rs) := by
  intro cus
  induction cus with
  | nil =>
    intro st rs _ h
    simp [locRefs] at h
    subst h
    rfl
  | cons cu cus ih =>
    intro st rs hdec h
    simp only [locRefs] at h
    rw [List.foldlM_cons]
    rw [show scanCu env secs ver5 st cu = (if (decide (cu.version ≥ 5) == ver5) = true
      then cu.dies.foldlM (scanDie env secs cu) st else pure st) from rfl]
    by_cases hg : (decide (cu.version ≥ 5) == ver5) = true
    · rw [if_pos hg] at h ⊢
      cases h1 : dieRefsList cu (cu.dies.map (dec cu)) with
      | none => simp [h1, bind, Option.bind] at h
      | some here =>
        cases h2 : locRefs dec ver5 cus with
        | none => simp [h1, h2, bind, Option.bind] at h
        | some more =>
          simp [h1, h2, bind, Option.bind, pure] at h
          subst h
          rw [foldlM_scanDie env secs cu (dec cu) cu.dies st here (hdec cu (by simp) hg) h1]
          simp only [bind, Except.bind]
          rw [ih _ more (fun x hx => hdec x (by simp [hx])) h2, applyRefs_append]
    · rw [if_neg hg] at h ⊢
      cases h2 : locRefs dec ver5 cus with
      | none => simp [h2, bind, Option.bind] at h
      | some more =>
        simp [h2, bind, Option.bind, pure] at h
        subst h
        simp only [bind, Except.bind, pure, Except.pure]
        exact ih _ more (fun x hx => hdec x (by simp [hx])) h2

/-- the scan, in terms of the references -/
theorem scanDies_refs (env : Env) (secs : Secs) (ver5 : Bool) (dec : Cu → List RawAttr → List Attr)
    (cus : List Cu) (rs : List (LocRef × Cu))
    (hdec : ∀ cu ∈ cus, (decide (cu.version ≥ 5) == ver5) = true →
      ∀ die ∈ cu.dies, dieAttrs env secs cu die = .ok (dec cu die))
    (hr : locRefs dec ver5 cus = some rs) :
    scanDies env secs ver5 cus
      = .ok { applyRefs {} rs with allOffsets := sortedSet (applyRefs {} rs).allOffsets } := by
  unfold scanDies
  rw [foldlM_scanCu env secs ver5 dec cus {} rs hdec hr]
  rfl

/-- every reference comes from a unit of the section's generation -/
theorem locRefs_gen (dec : Cu → List RawAttr → List Attr) (ver5 : Bool) :
    ∀ (cus : List Cu) (rs : List (LocRef × Cu)), locRefs dec ver5 cus = some rs →
      ∀ rc ∈ rs, rc.2 ∈ cus ∧ (decide (rc.2.version ≥ 5) == ver5) = true := by
  have hdl : ∀ (cu : Cu) (ds : List (List Attr)) (rs : List (LocRef × Cu)),
      dieRefsList cu ds = some rs → ∀ rc ∈ rs, rc.2 = cu := by
    intro cu ds
    induction ds with
    | nil => intro rs h; simp [dieRefsList] at h; subst h; simp
    | cons d ds ih =>
      intro rs h
      simp only [dieRefsList] at h
      cases h1 : dieLocRefs cu.version (d.map toDie) with
      | none => simp [h1, bind, Option.bind] at h
      | some here =>
        cases h2 : dieRefsList cu ds with
        | none => simp [h1, h2, bind, Option.bind] at h
        | some more =>
          simp [h1, h2, bind, Option.bind, pure] at h
          subst h
          intro rc hrc
          rcases List.mem_append.mp hrc with hm | hm
          · obtain ⟨r, _, rfl⟩ := List.mem_map.mp hm
            rfl
          · exact ih more h2 rc hm
  intro cus
  induction cus with
  | nil => intro rs h; simp [locRefs] at h; subst h; simp
  | cons cu cus ih =>
    intro rs h
    simp only [locRefs] at h
    by_cases hg : (decide (cu.version ≥ 5) == ver5) = true
    · rw [if_pos hg] at h
      cases h1 : dieRefsList cu (cu.dies.map (dec cu)) with
      | none => simp [h1, bind, Option.bind] at h
      | some here =>
        cases h2 : locRefs dec ver5 cus with
        | none => simp [h1, h2, bind, Option.bind] at h
        | some more =>
          simp [h1, h2, bind, Option.bind, pure] at h
          subst h
          intro rc hrc
          rcases List.mem_append.mp hrc with hm | hm
          · have := hdl cu _ here h1 rc hm
            rw [this]
            exact ⟨by simp, hg⟩
          · have := ih more h2 rc hm
            exact ⟨by simp [this.1], this.2⟩
    · rw [if_neg hg] at h
      cases h2 : locRefs dec ver5 cus with
      | none => simp [h2, bind, Option.bind] at h
      | some more =>
        simp [h2, bind, Option.bind, pure] at h
        subst h
        intro rc hrc
        have := ih more h2 rc hrc
        exact ⟨by simp [this.1], this.2⟩

/-! ### 4. the containers after the scan -/

/-- where the walker meets the object of a reference: at its view pairs, else at the list -/
def key (r : LocRef) : Int := r.1.getD r.2

theorem mem_setAdd (s : List Int) (x z : Int) : z ∈ setAdd s x ↔ z ∈ s ∨ z = x := by
  unfold setAdd
  by_cases h : s.contains x = true
  · rw [if_pos h]
    have := List.contains_iff_mem.mp h
    constructor
    · intro hz; exact Or.inl hz
    · rintro (hz | hz)
      · exact hz
      · subst hz; exact this
  · rw [if_neg h]; simp

theorem applyRef_allOffsets (cu : Cu) (st : Scan) (r : LocRef) (z : Int) :
    z ∈ (applyRef cu st r).allOffsets ↔ z ∈ st.allOffsets ∨ z = key r := by
  obtain ⟨v, lo⟩ := r
  cases v <;> simp [applyRef, key, mem_setAdd]

theorem mem_allOffsets (rs : List (LocRef × Cu)) (st : Scan) (z : Int) :
    z ∈ (applyRefs st rs).allOffsets ↔ z ∈ st.allOffsets ∨ z ∈ rs.map (fun rc => key rc.1) := by
  induction rs generalizing st with
  | nil => simp [applyRefs]
  | cons rc rs ih =>
    have : applyRefs st (rc :: rs) = applyRefs (applyRef rc.2 st rc.1) rs := rfl
    rw [this, ih, applyRef_allOffsets]
    simp only [List.map_cons, List.mem_cons]
    constructor
    · rintro ((h | h) | h)
      · exact Or.inl h
      · exact Or.inr (Or.inl h)
      · exact Or.inr (Or.inr h)
    · rintro (h | h | h)
      · exact Or.inl (Or.inl h)
      · exact Or.inl (Or.inr h)
      · exact Or.inr h

/-- the (views offset, list offset) pairs the references with views contribute -/
def viewEntries (rs : List (LocRef × Cu)) : List (Int × Int) :=
  rs.filterMap fun rc => rc.1.1.map fun v => (v, rc.1.2)

theorem applyRefs_locviews (rs : List (LocRef × Cu)) (st : Scan) :
    (applyRefs st rs).locviews = (viewEntries rs).foldl (fun d r => dictSet d r.1 r.2) st.locviews := by
  induction rs generalizing st with
  | nil => rfl
  | cons rc rs ih =>
    have : applyRefs st (rc :: rs) = applyRefs (applyRef rc.2 st rc.1) rs := rfl
    rw [this, ih]
    obtain ⟨⟨v, lo⟩, cu⟩ := rc
    cases v <;> simp [applyRef, viewEntries]

theorem applyRefs_cuMap (rs : List (LocRef × Cu)) (st : Scan) :
    (applyRefs st rs).cuMap = (rs.map fun rc => (rc.1.2, rc.2)).foldl (fun d r => dictSet d r.1 r.2) st.cuMap := by
  induction rs generalizing st with
  | nil => rfl
  | cons rc rs ih =>
    have : applyRefs st (rc :: rs) = applyRefs (applyRef rc.2 st rc.1) rs := rfl
    rw [this, ih]
    obtain ⟨⟨v, lo⟩, cu⟩ := rc
    cases v <;> simp [applyRef]

/-! ### 5. references that agree with a layout -/

theorem pairwise_mem_cases {α} {R : α → α → Prop} {l : List α} (h : l.Pairwise R) {a b : α}
    (ha : a ∈ l) (hb : b ∈ l) : a = b ∨ R a b ∨ R b a := by
  induction l with
  | nil => simp at ha
  | cons x xs ih =>
    rw [List.pairwise_cons] at h
    rcases List.mem_cons.mp ha with rfl | ha' <;> rcases List.mem_cons.mp hb with rfl | hb'
    · exact Or.inl rfl
    · exact Or.inr (Or.inl (h.1 b hb'))
    · exact Or.inr (Or.inr (h.1 a ha'))
    · exact ih h.2 ha' hb'

/-- keys as laid out: each object's views do not start after its list, and the next object starts after
    the list's first byte -/
structure Separated (ks : List LocRef) : Prop where
  le : ∀ k ∈ ks, key k ≤ k.2
  lt : ks.Pairwise (fun a b => a.2 < key b)

theorem Separated.key_inj {ks : List LocRef} (h : Separated ks) {a b : LocRef} (ha : a ∈ ks) (hb : b ∈ ks)
    (hk : key a = key b) : a = b := by
  rcases pairwise_mem_cases h.lt ha hb with e | e | e
  · exact e
  · have := h.le a ha; omega
  · have := h.le b hb; omega

theorem Separated.list_inj {ks : List LocRef} (h : Separated ks) {a b : LocRef} (ha : a ∈ ks) (hb : b ∈ ks)
    (hk : a.2 = b.2) : a = b := by
  rcases pairwise_mem_cases h.lt ha hb with e | e | e
  · exact e
  · have := h.le b hb; omega
  · have := h.le a ha; omega

theorem Separated.keys_sorted {ks : List LocRef} (h : Separated ks) : (ks.map key).Pairwise (· < ·) := by
  rw [List.pairwise_map]
  have hle := h.le
  refine List.Pairwise.imp_of_mem ?_ h.lt
  intro a b ha _ hab
  have := hle a ha
  omega

theorem agree_unpack {rs ks : List LocRef} (h : refsAgree rs ks = true) :
    (∀ r ∈ rs, r ∈ ks) ∧ (∀ k ∈ ks, k ∈ rs) := by
  simp only [refsAgree, Bool.and_eq_true, List.all_eq_true, List.contains_iff_mem] at h
  exact h

/-- `all_offsets`, sorted, is the list of the objects' offsets -/
theorem allOffsets_eq (rs : List (LocRef × Cu)) (ks : List LocRef) (hs : Separated ks)
    (ha : refsAgree (rs.map (·.1)) ks = true) :
    sortedSet (applyRefs {} rs).allOffsets = ks.map key := by
  obtain ⟨h1, h2⟩ := agree_unpack ha
  rw [ListsEnum.sortedSet_eq]
  apply ListsEnum.sorted_ext (ListsEnum.sortedDistinct_sorted _) hs.keys_sorted
  intro x
  rw [ListsEnum.mem_sortedDistinct, mem_allOffsets]
  simp only [List.mem_map]
  constructor
  · rintro (h | ⟨rc, hrc, rfl⟩)
    · simp at h
    · exact ⟨rc.1, h1 rc.1 (List.mem_map.mpr ⟨rc, hrc, rfl⟩), rfl⟩
  · rintro ⟨k, hk, rfl⟩
    obtain ⟨rc, hrc, e⟩ := List.mem_map.mp (h2 k hk)
    exact Or.inr ⟨rc, hrc, by rw [e]⟩

theorem mem_viewEntries {rs : List (LocRef × Cu)} {p : Int × Int} (h : p ∈ viewEntries rs) :
    ((some p.1, p.2) : LocRef) ∈ rs.map (·.1) := by
  unfold viewEntries at h
  obtain ⟨rc, hrc, e⟩ := List.mem_filterMap.mp h
  obtain ⟨⟨v, lo⟩, cu⟩ := rc
  cases v with
  | none => simp at e
  | some v =>
    simp at e
    subst e
    exact List.mem_map.mpr ⟨_, hrc, rfl⟩

/-- `locviews[offset of an object]`: the list's offset for an object with views, absent otherwise -/
theorem locviews_get (rs : List (LocRef × Cu)) (ks : List LocRef) (hs : Separated ks)
    (ha : refsAgree (rs.map (·.1)) ks = true) (k : LocRef) (hk : k ∈ ks) :
    dictGet? (applyRefs {} rs).locviews (key k) = k.1.map fun _ => k.2 := by
  obtain ⟨h1, h2⟩ := agree_unpack ha
  rw [applyRefs_locviews, ListsEnum.dictGet_foldl_dictSet]
  have hempty : dictGet? (({} : Scan).locviews) (key k) = none := rfl
  rw [hempty, Option.or_none]
  cases hf : List.find? (fun x => x.1 == key k) (viewEntries rs).reverse with
  | some p =>
    have hm : p ∈ viewEntries rs := List.mem_reverse.mp (List.mem_of_find?_eq_some hf)
    have hp : p.1 = key k := by simpa using List.find?_some hf
    have hin := h1 _ (mem_viewEntries hm)
    have hkk : key ((some p.1, p.2) : LocRef) = key k := by simp [key, hp]
    have := hs.key_inj hin hk hkk
    rw [← this]
    rfl
  | none =>
    obtain ⟨v, lo⟩ := k
    cases v with
    | none => rfl
    | some v =>
      exfalso
      obtain ⟨rc, hrc, e⟩ := List.mem_map.mp (h2 _ hk)
      have hm : (v, lo) ∈ viewEntries rs := by
        unfold viewEntries
        refine List.mem_filterMap.mpr ⟨rc, hrc, ?_⟩
        rw [e]; rfl
      have := List.find?_eq_none.mp hf (v, lo) (List.mem_reverse.mpr hm)
      simp [key] at this

/-- `cu_map[offset of a list]` is a unit that refers to that object -/
theorem cuMap_get (rs : List (LocRef × Cu)) (ks : List LocRef) (hs : Separated ks)
    (ha : refsAgree (rs.map (·.1)) ks = true) (k : LocRef) (hk : k ∈ ks) :
    ∃ cu, dictGet? (applyRefs {} rs).cuMap k.2 = some cu ∧ (k, cu) ∈ rs := by
  obtain ⟨h1, h2⟩ := agree_unpack ha
  rw [applyRefs_cuMap, ListsEnum.dictGet_foldl_dictSet]
  have hempty : dictGet? (({} : Scan).cuMap) k.2 = none := rfl
  rw [hempty, Option.or_none]
  cases hf : List.find? (fun x => x.1 == k.2) (rs.map fun rc => (rc.1.2, rc.2)).reverse with
  | some p =>
    have hm := List.mem_reverse.mp (List.mem_of_find?_eq_some hf)
    have hp : p.1 = k.2 := by simpa using List.find?_some hf
    obtain ⟨rc, hrc, e⟩ := List.mem_map.mp hm
    have hin := h1 rc.1 (List.mem_map.mpr ⟨rc, hrc, rfl⟩)
    have hl : rc.1.2 = k.2 := by rw [← e] at hp; exact hp
    have := hs.list_inj hin hk hl
    refine ⟨p.2, rfl, ?_⟩
    rw [← this, ← e]
    exact hrc
  | none =>
    exfalso
    obtain ⟨rc, hrc, e⟩ := List.mem_map.mp (h2 _ hk)
    have := List.find?_eq_none.mp hf (rc.1.2, rc.2)
      (List.mem_reverse.mpr (List.mem_map.mpr ⟨rc, hrc, rfl⟩))
    simp [e] at this

/-! ### 6. decoding a debugging entry without indexed forms -/

/-- with no `DW_FORM_loclistx` / `DW_FORM_rnglistx` attribute, values are the raw values -/
theorem dieAttrs_plain (env : Env) (secs : Secs) (cu : Cu) (die : List RawAttr)
    (h : ∀ a ∈ die, a.form ≠ "DW_FORM_loclistx" ∧ a.form ≠ "DW_FORM_rnglistx") :
    dieAttrs env secs cu die = .ok (attrDict (die.map fun a => ⟨a.name, a.form, a.raw⟩)) := by
  unfold dieAttrs
  have : die.mapM (fun a => do
      let v ← translateAttrValue env secs cu a.form a.raw
      pure ({ name := a.name, form := a.form, value := v } : Attr))
      = .ok (die.map fun a => ⟨a.name, a.form, a.raw⟩) := by
    induction die with
    | nil => rfl
    | cons a die ih =>
      have ha := h a (by simp)
      rw [List.mapM_cons, ih (fun x hx => h x (by simp [hx]))]
      simp [translateAttrValue, ha.1, ha.2, bind, Except.bind, pure, Except.pure]
  rw [this]
  rfl

end PyElf.Proofs.ListsLocScan
