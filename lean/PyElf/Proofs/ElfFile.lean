/-
  Helper lemmas for C01 (model of elffile.py vs. abstract ELF descriptions).
-/
import PyElf.Model.ElfFile
import PyElf.Spec.ElfImage
import PyElf.Proofs.Fixed
namespace PyElf.Proofs
open PyElf PyElf.Spec PyElf.Model

/-! ### generic `Except` / list lemmas -/

theorem mapM_ok_of_forall {α β : Type} (f : α → R β) :
    ∀ (l : List α) (ys : List β), ys.length = l.length →
      (∀ i (h1 : i < l.length) (h2 : i < ys.length), f l[i] = .ok ys[i]) → l.mapM f = .ok ys := by
  intro l
  induction l with
  | nil => intro ys hl _; cases ys <;> simp_all [pure, Except.pure]
  | cons a l ih =>
    intro ys hl h
    cases ys with
    | nil => simp at hl
    | cons y ys =>
      have h0 := h 0 (by simp) (by simp)
      simp only [List.getElem_cons_zero] at h0
      have ht := ih ys (by simpa using hl) (fun i h1 h2 => by
        have := h (i + 1) (by simp; omega) (by simp; omega)
        simpa using this)
      simp [List.mapM_cons, h0, ht, bind, Except.bind, pure, Except.pure]

theorem mapM_ok_inv {α β : Type} (f : α → R β) :
    ∀ (l : List α) (ys : List β), l.mapM f = .ok ys →
      ys.length = l.length ∧ ∀ i (h1 : i < l.length) (h2 : i < ys.length), f l[i] = .ok ys[i] := by
  intro l
  induction l with
  | nil =>
    intro ys h
    simp [pure, Except.pure] at h
    subst h
    simp
  | cons a l ih =>
    intro ys h
    rw [List.mapM_cons] at h
    cases ha : f a with
    | error e => simp [ha, bind, Except.bind] at h
    | ok y =>
      cases hl : l.mapM f with
      | error e => simp [ha, hl, bind, Except.bind] at h
      | ok ys' =>
        simp [ha, hl, bind, Except.bind, pure, Except.pure] at h
        subst h
        obtain ⟨h1, h2⟩ := ih ys' hl
        refine ⟨by simp [h1], ?_⟩
        intro i hi1 hi2
        cases i with
        | zero => simpa using ha
        | succ j =>
          simp only [List.getElem_cons_succ]
          exact h2 j (by simpa using hi1) (by simpa using hi2)

/-- `List.range n |>.mapM f` with every call succeeding -/
theorem range_mapM_ok {β : Type} (f : Nat → R β) (n : Nat) (xs : List β) (hl : xs.length = n)
    (h : ∀ i (hi : i < xs.length), f i = .ok xs[i]) : (List.range n).mapM f = .ok xs := by
  apply mapM_ok_of_forall
  · simp [hl]
  · intro i h1 h2
    simpa using h i h2

/-! ### name map (`lookup_exact`) -/

/-- indices (counted from `i`) of the entries of `names` equal to `name` -/
def idxs (name : Bytes) : List Bytes → Nat → List Nat
  | [], _ => []
  | nm :: rest, i => if nm == name then i :: idxs name rest (i + 1) else idxs name rest (i + 1)

theorem getLast?_cons_or {α} (a : α) (l : List α) : (a :: l).getLast? = l.getLast?.or (some a) := by
  cases l with
  | nil => simp
  | cons b l =>
    rw [List.getLast?_cons_cons]
    cases h : (b :: l).getLast? with
    | none => simp at h
    | some x => simp

def upd (m : List (Bytes × Nat)) (nm : Bytes) (i : Nat) : List (Bytes × Nat) :=
  m.map (fun (k, v) => if k == nm then (k, i) else (k, v))

theorem upd_find_same (nm : Bytes) (i : Nat) : ∀ (m : List (Bytes × Nat)), m.any (·.1 == nm) = true →
    ((upd m nm i).find? (·.1 == nm)).map (·.2) = some i := by
  intro m
  induction m with
  | nil => intro h; simp at h
  | cons p m ih =>
    intro hany
    obtain ⟨pk, pv⟩ := p
    by_cases hp : pk = nm
    · subst hp; simp [upd]
    · have hp' : (pk == nm) = false := by simpa using hp
      simp only [List.any_cons, hp', Bool.false_or] at hany
      have := ih hany
      simp only [upd] at this ⊢
      simp only [List.map_cons, hp', Bool.false_eq_true, if_false, List.find?_cons]
      exact this

theorem upd_find_other (nm name : Bytes) (i : Nat) (hne : nm ≠ name) : ∀ (m : List (Bytes × Nat)),
    ((upd m nm i).find? (·.1 == name)).map (·.2) = (m.find? (·.1 == name)).map (·.2) := by
  intro m
  induction m with
  | nil => simp [upd]
  | cons p m ih =>
    obtain ⟨pk, pv⟩ := p
    simp only [upd] at ih ⊢
    by_cases hp : pk = nm
    · subst hp
      have hp' : (pk == name) = false := by simpa using hne
      simp only [List.map_cons, beq_self_eq_true, if_true, List.find?_cons, hp']
      exact ih
    · have hp' : (pk == nm) = false := by simpa using hp
      simp only [List.map_cons, hp', Bool.false_eq_true, if_false, List.find?_cons]
      split
      · rfl
      · exact ih

theorem nameMap_go_find (name : Bytes) :
    ∀ (secs : List (String × Bytes × Val)) (i : Nat) (m : List (Bytes × Nat)),
      ((sectionNameMap.go secs i m).find? (·.1 == name)).map (·.2)
        = (idxs name (secs.map (·.2.1)) i).getLast?.or ((m.find? (·.1 == name)).map (·.2)) := by
  intro secs
  induction secs with
  | nil => intro i m; simp [sectionNameMap.go, idxs]
  | cons s rest ih =>
    intro i m
    obtain ⟨k, nm, v⟩ := s
    rw [sectionNameMap.go, ih]
    simp only [List.map_cons, idxs]
    change _ = Option.or (List.getLast? (if (nm == name) = true then _ else _)) _
    by_cases hn : nm = name
    · subst hn
      simp only [beq_self_eq_true, if_true, getLast?_cons_or]
      have : ((if m.any (·.1 == nm) then upd m nm i else m ++ [(nm, i)]).find? (·.1 == nm)).map (·.2)
          = some i := by
        split
        · rename_i hany
          exact upd_find_same nm i m hany
        · rename_i hany
          have hnone : m.find? (·.1 == nm) = none := by
            simp only [List.find?_eq_none]
            intro x hx hx'
            exact hany (List.any_eq_true.2 ⟨x, hx, hx'⟩)
          simp [List.find?_append, hnone]
      simp only [upd] at this
      rw [this]
      cases (idxs nm (rest.map (·.2.1)) (i + 1)).getLast? <;> simp
    · have hn' : (nm == name) = false := by simpa using hn
      simp only [hn', Bool.false_eq_true, if_false]
      congr 1
      split
      · exact upd_find_other nm name i hn m
      · simp [List.find?_append, hn']

theorem idxs_eq_filter {α : Type} (f : α → Bytes) (name : Bytes) :
    ∀ (l : List α) (i : Nat),
      (((List.range' i l.length).zip l).filter (fun p => f p.2 == name)).map (·.1)
        = idxs name (l.map f) i := by
  intro l
  induction l with
  | nil => intro i; simp [idxs]
  | cons a l ih =>
    intro i
    simp only [List.length_cons, List.range'_succ, List.zip_cons_cons, List.map_cons, idxs,
      List.filter_cons]
    split <;> simp [ih]

/-! ### what `observe` returns -/

def obsSec (env : Env) (d : ElfDesc) (s : SecDesc) : R (String × Bytes × Val) := do
  let h ← d.S.Elf_Shdr.decodeRaw env [] s.raw
  return (kindOf (← h.getField "sh_type") s.name, s.name, h)

def obsSeg (env : Env) (d : ElfDesc) (p : Fields) : R (String × Val) := do
  let h ← d.S.Elf_Phdr.decodeRaw env [] (.record p)
  return (segKindOf (← h.getField "p_type"), h)

theorem observe_inv {env : Env} {d : ElfDesc} {obs : ElfObs} (ho : d.observe env = .ok obs) :
    d.S.Elf_Ehdr.decodeRaw env [] d.ehdrRaw = .ok obs.header ∧
    d.sections.mapM (obsSec env d) = .ok obs.sections ∧
    d.segments.mapM (obsSeg env d) = .ok obs.segments := by
  unfold ElfDesc.observe at ho
  change (do
    let header ← d.S.Elf_Ehdr.decodeRaw env [] d.ehdrRaw
    let sections ← d.sections.mapM (obsSec env d)
    let segments ← d.segments.mapM (obsSeg env d)
    (pure ⟨header, sections, segments⟩ : R ElfObs)) = .ok obs at ho
  cases h1 : d.S.Elf_Ehdr.decodeRaw env [] d.ehdrRaw with
  | error e => simp [h1, bind, Except.bind] at ho
  | ok hd =>
    cases h2 : d.sections.mapM (obsSec env d) with
    | error e => simp [h1, h2, bind, Except.bind] at ho
    | ok ss =>
      cases h3 : d.segments.mapM (obsSeg env d) with
      | error e => simp [h1, h2, h3, bind, Except.bind] at ho
      | ok gs =>
        simp [h1, h2, h3, bind, Except.bind, pure, Except.pure] at ho
        subst ho
        exact ⟨rfl, rfl, rfl⟩

theorem obsSec_name {env : Env} {d : ElfDesc} {s : SecDesc} {r : String × Bytes × Val}
    (h : obsSec env d s = .ok r) : r.2.1 = s.name := by
  unfold obsSec at h
  cases h1 : d.S.Elf_Shdr.decodeRaw env [] s.raw with
  | error e => simp [h1, bind, Except.bind] at h
  | ok hd =>
    cases h2 : hd.getField "sh_type" with
    | error e => simp [h1, h2, bind, Except.bind] at h
    | ok t =>
      simp [h1, h2, bind, Except.bind, pure, Except.pure] at h
      subst h; rfl

theorem observe_names {env : Env} {d : ElfDesc} {obs : ElfObs} (ho : d.observe env = .ok obs) :
    obs.sections.map (·.2.1) = d.sections.map (·.name) := by
  obtain ⟨-, h2, -⟩ := observe_inv ho
  obtain ⟨hl, hi⟩ := mapM_ok_inv _ _ _ h2
  apply List.ext_getElem
  · simp [hl]
  · intro i h1 h2'
    simp only [List.getElem_map]
    exact obsSec_name (hi i (by simpa using h2') (by simpa using h1))

theorem lookup_exact_aux {env : Env} {d : ElfDesc} {obs : ElfObs} (ho : d.observe env = .ok obs)
    (name : Bytes) :
    ((sectionNameMap obs.sections).find? (·.1 == name)).map (·.2) = d.indexOfName name := by
  unfold sectionNameMap ElfDesc.indexOfName
  rw [nameMap_go_find, observe_names ho]
  simp only [List.find?_nil, Option.map_none, Option.or_none]
  rw [List.range_eq_range', idxs_eq_filter (fun s : SecDesc => s.name)]

theorem machineClass_snd_mem : ∀ p ∈ machineClass, p.2 ∈ machineClasses := by decide

theorem machine_factor_aux (m : String) :
    ((machineClass.find? (·.1 == m)).map (·.2)).getD "default" ∈ machineClasses := by
  cases h : machineClass.find? (·.1 == m) with
  | none => simp [machineClasses]
  | some p => exact machineClass_snd_mem p (List.mem_of_find?_eq_some h)

/-! ### field access in decoded fixed structs -/

theorem get?_set_same (obj : Fields) (k : String) (v : Val) : Fields.get? (Fields.set obj k v) k = some v := by
  induction obj with
  | nil => simp [Fields.set, Fields.get?]
  | cons p obj ih =>
    obtain ⟨k', v'⟩ := p
    by_cases h : k' = k
    · simp [Fields.set, Fields.get?, h]
    · simp [Fields.set, Fields.get?, h, ih]

theorem get?_set_other (obj : Fields) (k k' : String) (v : Val) (hne : k ≠ k') :
    Fields.get? (Fields.set obj k v) k' = Fields.get? obj k' := by
  induction obj with
  | nil => simp [Fields.set, Fields.get?, hne]
  | cons p obj ih =>
    obtain ⟨k0, v0⟩ := p
    by_cases h : k0 = k
    · subst h; simp [Fields.set, Fields.get?, hne]
    · by_cases h' : k0 = k'
      · subst h'; simp [Fields.set, Fields.get?, h]
      · simp [Fields.set, Fields.get?, h, h', ih]

def fieldNames : ConFields → List String
  | .nil => []
  | .cons (some nm) _ _ rest => nm :: fieldNames rest
  | .cons none _ _ rest => fieldNames rest

/-- the construct of the field named `k`, when exactly one field bears that name -/
def fieldCon : ConFields → String → Option Con
  | .nil, _ => none
  | .cons (some nm) _ c rest, k =>
      if nm = k then (if k ∈ fieldNames rest then none else some c) else fieldCon rest k
  | .cons none _ _ rest, k => fieldCon rest k

theorem decodeRaw_get_notin (env : Env) (k : String) :
    ∀ (fs : ConFields) (raw obj ctx obj' ctx' : Fields), k ∉ fieldNames fs →
      ConFields.decodeRaw env fs raw obj ctx = .ok (obj', ctx') → Fields.get? obj' k = Fields.get? obj k
  | .nil, raw, obj, ctx, obj', ctx', _, h => by
    simp [ConFields.decodeRaw] at h
    rw [h.1]
  | .cons name embed c rest, raw, obj, ctx, obj', ctx', hk, h => by
    have ih := decodeRaw_get_notin env k rest
    cases name with
    | none =>
      rw [ConFields.decodeRaw] at h
      simp only [fieldNames] at hk
      cases hv : Con.decodeRaw env c ctx Val.none with
      | error e => simp [hv, bind, Except.bind] at h
      | ok v =>
        simp only [hv, bind, Except.bind] at h
        exact ih _ _ _ _ _ hk h
    | some nm =>
      rw [ConFields.decodeRaw] at h
      simp only [fieldNames, List.mem_cons, not_or] at hk
      cases hv : Con.decodeRaw env c ctx ((Fields.get? raw nm).getD Val.none) with
      | error e => simp [hv, bind, Except.bind] at h
      | ok v =>
        simp only [hv, bind, Except.bind] at h
        rw [ih _ _ _ _ _ hk.2 h, get?_set_other _ _ _ _ (Ne.symm hk.1)]

theorem decodeRaw_get (env : Env) (k : String) (c : Con) :
    ∀ (fs : ConFields) (raw obj ctx obj' ctx' : Fields), fieldCon fs k = some c →
      ConFields.decodeRaw env fs raw obj ctx = .ok (obj', ctx') →
      ∃ ctx0 v, Con.decodeRaw env c ctx0 ((Fields.get? raw k).getD .none) = .ok v ∧
        Fields.get? obj' k = some v
  | .nil, raw, obj, ctx, obj', ctx', hf, _ => by simp [fieldCon] at hf
  | .cons name embed c' rest, raw, obj, ctx, obj', ctx', hf, h => by
    have ih := decodeRaw_get env k c rest
    cases name with
    | none =>
      rw [ConFields.decodeRaw] at h
      simp only [fieldCon] at hf
      cases hv : Con.decodeRaw env c' ctx Val.none with
      | error e => simp [hv, bind, Except.bind] at h
      | ok v =>
        simp only [hv, bind, Except.bind] at h
        exact ih _ _ _ _ _ hf h
    | some nm =>
      rw [ConFields.decodeRaw] at h
      simp only [fieldCon] at hf
      cases hv : Con.decodeRaw env c' ctx ((Fields.get? raw nm).getD Val.none) with
      | error e => simp [hv, bind, Except.bind] at h
      | ok v =>
        simp only [hv, bind, Except.bind] at h
        by_cases hnm : nm = k
        · subst hnm
          simp only [if_true] at hf
          split at hf
          · cases hf
          · rename_i hnot
            cases hf
            refine ⟨ctx, v, hv, ?_⟩
            rw [decodeRaw_get_notin env nm _ _ _ _ _ _ hnot h, get?_set_same]
        · simp only [hnm, if_false] at hf
          exact ih _ _ _ _ _ hf h

theorem encodeRaw_field (k : String) (c : Con) :
    ∀ (fs : ConFields) (raw : Fields) (bs : Bytes), fieldCon fs k = some c →
      ConFields.encodeRaw fs raw = some bs →
      ∃ b, c.encodeRaw ((Fields.get? raw k).getD .none) = some b
  | .nil, raw, bs, hf, _ => by simp [fieldCon] at hf
  | .cons name embed c' rest, raw, bs, hf, h => by
    have ih := encodeRaw_field k c rest
    cases name with
    | none =>
      rw [ConFields.encodeRaw] at h
      obtain ⟨a, b, ha, hb, -⟩ := bind2_eq_some h
      simp only [fieldCon] at hf
      exact ih _ _ hf hb
    | some nm =>
      rw [ConFields.encodeRaw] at h
      obtain ⟨a, b, ha, hb, -⟩ := bind2_eq_some h
      simp only [fieldCon] at hf
      by_cases hnm : nm = k
      · subst hnm
        simp only [if_true] at hf
        split at hf
        · cases hf
        · cases hf; exact ⟨a, ha⟩
      · simp only [hnm, if_false] at hf
        exact ih _ _ hf hb

/-- a plain unsigned field decodes to the raw natural number that was encoded -/
theorem uint_field {env : Env} {fs : ConFields} {k : String} {n : Nat} {le : Bool}
    (hf : fieldCon fs k = some (.uint n le)) {raw : Fields} {bs : Bytes}
    (he : (Con.struct fs).encodeRaw (.record raw) = some bs) {v : Val} {ctx : Fields}
    (hd : (Con.struct fs).decodeRaw env ctx (.record raw) = .ok v) :
    ∃ z : Nat, z < 256 ^ n ∧ Fields.get? raw k = some (.int z) ∧ v.getField k = .ok (.int z) := by
  rw [Con.encodeRaw] at he
  rw [Con.decodeRaw] at hd
  cases hd' : ConFields.decodeRaw env fs raw [] [] with
  | error e => simp [hd', bind, Except.bind] at hd
  | ok oc =>
    obtain ⟨obj', ctx'⟩ := oc
    simp [hd', bind, Except.bind, pure, Except.pure] at hd
    subst hd
    obtain ⟨b, hb⟩ := encodeRaw_field k _ fs raw bs hf he
    obtain ⟨ctx0, v, hv, hg⟩ := decodeRaw_get env k _ fs raw [] [] obj' ctx' hf hd'
    cases hr : Fields.get? raw k with
    | none => simp [hr, Con.encodeRaw] at hb
    | some x =>
      rw [hr] at hb hv
      simp only [Option.getD_some] at hb hv
      cases x <;> simp only [Con.encodeRaw, reduceCtorEq] at hb
      rename_i z
      split at hb
      · rename_i hz
        refine ⟨z.toNat, toNat_lt_pow hz.1 hz.2, ?_, ?_⟩
        · rw [Int.toNat_of_nonneg hz.1]
        · simp only [Con.decodeRaw] at hv
          cases hv
          simp [Val.getField, Fields.getR, hg, Int.toNat_of_nonneg hz.1]
      · cases hb

/-! ### regions and layout -/

theorem mapM_some_inv {α β : Type} (f : α → Option β) :
    ∀ (l : List α) (ys : List β), l.mapM f = some ys →
      ys.length = l.length ∧ ∀ i (h1 : i < l.length) (h2 : i < ys.length), f l[i] = some ys[i] := by
  intro l
  induction l with
  | nil =>
    intro ys h
    simp at h
    subst h
    simp
  | cons a l ih =>
    intro ys h
    rw [List.mapM_cons] at h
    cases ha : f a with
    | none => simp [ha] at h
    | some y =>
      cases hl : l.mapM f with
      | none => simp [ha, hl] at h
      | some ys' =>
        simp [ha, hl] at h
        subst h
        obtain ⟨h1, h2⟩ := ih ys' hl
        refine ⟨by simp [h1], ?_⟩
        intro i hi1 hi2
        cases i with
        | zero => simpa using ha
        | succ j =>
          simp only [List.getElem_cons_succ]
          exact h2 j (by simpa using hi1) (by simpa using hi2)

theorem mem_indexed_regs (off sz : Nat) (bs : List Bytes) (i : Nat) (hi : i < bs.length) :
    (off + i * sz, bs[i]) ∈ ((List.range bs.length).zip bs).map (fun (p : Nat × Bytes) => (off + p.1 * sz, p.2)) := by
  rw [List.mem_map]
  refine ⟨(i, bs[i]), ?_, rfl⟩
  rw [List.mem_iff_getElem]
  refine ⟨i, by simpa using hi, ?_⟩
  simp

structure LayoutFacts (d : ElfDesc) (bytes : Bytes) : Prop where
  ehdr : ∃ eh, d.S.Elf_Ehdr.encodeRaw d.ehdrRaw = some eh ∧ readN bytes 0 eh.length = eh
  shdr : ∀ i (hi : i < d.sections.length), ∃ b, d.S.Elf_Shdr.encodeRaw (d.sections[i]).raw = some b ∧
           readN bytes (d.shoff + i * d.shentsize) b.length = b
  phdr : ∀ i (hi : i < d.segments.length), ∃ b, d.S.Elf_Phdr.encodeRaw (.record d.segments[i]) = some b ∧
           readN bytes (d.phoff + i * d.phentsize) b.length = b
  body : ∀ s ∈ d.sections, ∀ b, s.body = some b → readN bytes (getNatD s.hdr "sh_offset") b.length = b

theorem layout_facts {d : ElfDesc} {bytes : Bytes} (hl : Layout d bytes) : LayoutFacts d bytes := by
  obtain ⟨rs, hrs, hall⟩ := hl
  unfold ElfDesc.regions at hrs
  cases h1 : d.S.Elf_Ehdr.encodeRaw d.ehdrRaw with
  | none => simp [h1] at hrs
  | some eh =>
    cases h2 : d.sections.mapM (fun s => d.S.Elf_Shdr.encodeRaw s.raw) with
    | none => simp [h1, h2] at hrs
    | some shs =>
      cases h3 : d.segments.mapM (fun p => d.S.Elf_Phdr.encodeRaw (.record p)) with
      | none => simp [h1, h2, h3] at hrs
      | some phs =>
        simp only [h1, h2, h3, Option.bind_eq_bind, Option.bind_some, Option.pure_def, Option.some.injEq] at hrs
        obtain ⟨hl2, hi2⟩ := mapM_some_inv _ _ _ h2
        obtain ⟨hl3, hi3⟩ := mapM_some_inv _ _ _ h3
        subst hrs
        refine ⟨⟨eh, h1, hall (0, eh) (by simp)⟩, ?_, ?_, ?_⟩
        · intro i hi
          have hi' : i < shs.length := by omega
          refine ⟨shs[i], hi2 i hi hi', ?_⟩
          have hm := mem_indexed_regs d.shoff d.shentsize shs i hi'
          exact hall _ (by
            simp only [List.cons_append, List.mem_cons, List.mem_append]
            right; left; left; exact hm)
        · intro i hi
          have hi' : i < phs.length := by omega
          refine ⟨phs[i], hi3 i hi hi', ?_⟩
          have hm := mem_indexed_regs d.phoff d.phentsize phs i hi'
          exact hall _ (by
            simp only [List.cons_append, List.mem_cons, List.mem_append]
            right; left; right; exact hm)
        · intro s hs b hb
          by_cases hbe : b = []
          · subst hbe; simp [readN]
          · exact hall (getNatD s.hdr "sh_offset", b) (by
              simp only [List.cons_append, List.mem_cons, List.mem_append]
              right; right
              rw [List.mem_filter]
              refine ⟨?_, by simpa using hbe⟩
              rw [List.mem_filterMap]
              exact ⟨s, hs, by simp [hb]⟩)

theorem drop_of_readN {data : Bytes} {pos : Nat} {bs : Bytes} (h : readN data pos bs.length = bs) :
    data.drop pos = bs ++ data.drop (pos + bs.length) := by
  have : data.drop pos = (data.drop pos).take bs.length ++ (data.drop pos).drop bs.length :=
    (List.take_append_drop _ _).symm
  rw [this, List.drop_drop]
  unfold readN at h
  rw [h]

theorem readN_le_length {data : Bytes} {pos : Nat} {bs : Bytes} (h : readN data pos bs.length = bs) :
    bs = [] ∨ pos + bs.length ≤ data.length := by
  have hl := readN_length data pos bs.length
  rw [h] at hl
  by_cases hb : bs.length = 0
  · left; exact List.length_eq_zero_iff.1 hb
  · right; omega

/-- a fixed-shape struct whose encoding sits at `pos` parses to the decoding of the raw values -/
theorem structParse_layout (env : Env) (c : Con) (hc : c.fixed = true) (raw : Val) (bs : Bytes)
    (he : c.encodeRaw raw = some bs) (data : Bytes) (pos : Nat)
    (hr : readN data pos bs.length = bs) :
    structParse env c data pos = (c.decodeRaw env [] raw).map (fun v => (v, pos + bs.length)) := by
  unfold structParse
  rw [rt_con env c hc raw bs he data pos _ [] (drop_of_readN hr)]
  cases c.decodeRaw env [] raw <;> rfl

theorem structParseAt_layout (env : Env) (c : Con) (hc : c.fixed = true) (raw : Val) (bs : Bytes)
    (he : c.encodeRaw raw = some bs) (data : Bytes) (pos : Nat)
    (hr : readN data pos bs.length = bs) (hpos : pos < 2 ^ 63) :
    structParseAt env c data pos = (c.decodeRaw env [] raw).map (fun v => (v, pos + bs.length)) := by
  unfold structParseAt
  have : ¬ pos ≥ 2 ^ 63 := by omega
  simp only [this, if_false]
  rw [← structParse_layout env c hc raw bs he data pos hr]

/-! ### the Spec structures as closed terms -/

def shdrFields (c : ElfCfg) : ConFields :=
  let le := c.le
  let w := c.cls / 8
  let word := Con.uint 4 le
  let addr := Con.uint w le
  mkFields [f "sh_name" word, f "sh_type" (enumOf word (shTypeTable c.mclass)), f "sh_flags" addr,
            f "sh_addr" addr, f "sh_offset" addr, f "sh_size" addr, f "sh_link" word, f "sh_info" word,
            f "sh_addralign" addr, f "sh_entsize" addr]

theorem shdr_eq (c : ElfCfg) : (elfStructs c).Elf_Shdr = .struct (shdrFields c) := rfl

theorem shdr_field_word (c : ElfCfg) (k : String) (hk : k ∈ ["sh_name", "sh_link", "sh_info"]) :
    fieldCon (shdrFields c) k = some (.uint 4 c.le) := by
  simp only [List.mem_cons, List.not_mem_nil, or_false] at hk
  rcases hk with rfl | rfl | rfl <;> simp [shdrFields, mkFields, f, fieldCon, fieldNames]

theorem shdr_field_addr (c : ElfCfg) (k : String)
    (hk : k ∈ ["sh_flags", "sh_addr", "sh_offset", "sh_size", "sh_addralign", "sh_entsize"]) :
    fieldCon (shdrFields c) k = some (.uint (c.cls / 8) c.le) := by
  simp only [List.mem_cons, List.not_mem_nil, or_false] at hk
  rcases hk with rfl | rfl | rfl | rfl | rfl | rfl <;> simp [shdrFields, mkFields, f, fieldCon, fieldNames]

theorem shdr_field_type (c : ElfCfg) :
    fieldCon (shdrFields c) "sh_type" = some (.enum (.uint 4 c.le) (shTypeTable c.mclass) true) := by
  simp [shdrFields, mkFields, f, fieldCon, fieldNames, enumOf]

theorem getNat_of_getField {v : Val} {k : String} {z : Nat} (h : v.getField k = .ok (.int (z : Int))) :
    v.getNat k = .ok z := by
  simp [Val.getNat, h, bind, Except.bind, Val.asNat, Val.asInt]

theorem fieldNat_of_getField {v : Val} {k : String} {z : Nat} (h : v.getField k = .ok (.int (z : Int))) :
    fieldNat v k = z := by
  simp [fieldNat, h]

theorem struct_field_exists {env : Env} {fs : ConFields} {k : String} {c : Con}
    (hf : fieldCon fs k = some c) {raw : Fields} {v : Val} {ctx : Fields}
    (hd : (Con.struct fs).decodeRaw env ctx (.record raw) = .ok v) :
    ∃ ctx0 x, c.decodeRaw env ctx0 ((Fields.get? raw k).getD .none) = .ok x ∧ v.getField k = .ok x := by
  rw [Con.decodeRaw] at hd
  cases hd' : ConFields.decodeRaw env fs raw [] [] with
  | error e => simp [hd', bind, Except.bind] at hd
  | ok oc =>
    obtain ⟨obj', ctx'⟩ := oc
    simp [hd', bind, Except.bind, pure, Except.pure] at hd
    subst hd
    obtain ⟨ctx0, x, hx, hg⟩ := decodeRaw_get env k _ fs raw [] [] obj' ctx' hf hd'
    exact ⟨ctx0, x, hx, by simp [Val.getField, Fields.getR, hg]⟩

/-! ### decoded section headers -/

def shdrNatKeys : List String :=
  ["sh_name", "sh_link", "sh_info", "sh_flags", "sh_addr", "sh_offset", "sh_size", "sh_addralign", "sh_entsize"]

theorem shdr_field_nat (c : ElfCfg) (k : String) (hk : k ∈ shdrNatKeys) :
    ∃ n, fieldCon (shdrFields c) k = some (.uint n c.le) := by
  simp only [shdrNatKeys, List.mem_cons, List.not_mem_nil, or_false] at hk
  rcases hk with rfl | rfl | rfl | rfl | rfl | rfl | rfl | rfl | rfl
  · exact ⟨_, shdr_field_word c _ (by simp)⟩
  · exact ⟨_, shdr_field_word c _ (by simp)⟩
  · exact ⟨_, shdr_field_word c _ (by simp)⟩
  all_goals exact ⟨_, shdr_field_addr c _ (by simp)⟩

structure SecFacts (s : SecDesc) (h : Val) : Prop where
  nat : ∀ k ∈ shdrNatKeys, h.getNat k = .ok (fieldNat h k)
  raw : ∀ k ∈ shdrNatKeys, k ≠ "sh_name" → fieldNat h k = getNatD s.hdr k
  name : fieldNat h "sh_name" = s.nameOff
  ty : ∃ t, h.getField "sh_type" = .ok t

theorem sec_facts {env : Env} {d : ElfDesc} {s : SecDesc} {b : Bytes} {h : Val}
    (he : d.S.Elf_Shdr.encodeRaw s.raw = some b) (hd : d.S.Elf_Shdr.decodeRaw env [] s.raw = .ok h) :
    SecFacts s h := by
  have hS : d.S.Elf_Shdr = .struct (shdrFields d.cfg) := rfl
  rw [hS] at he hd
  unfold SecDesc.raw at he hd
  have key : ∀ k ∈ shdrNatKeys, ∃ z : Nat,
      Fields.get? (("sh_name", Val.int s.nameOff) :: s.hdr) k = some (.int z) ∧ h.getField k = .ok (.int z) := by
    intro k hk
    obtain ⟨n, hn⟩ := shdr_field_nat d.cfg k hk
    obtain ⟨z, -, h1, h2⟩ := uint_field hn he hd
    exact ⟨z, h1, h2⟩
  refine ⟨?_, ?_, ?_, ?_⟩
  · intro k hk
    obtain ⟨z, -, h2⟩ := key k hk
    rw [fieldNat_of_getField h2]; exact getNat_of_getField h2
  · intro k hk hne
    obtain ⟨z, h1, h2⟩ := key k hk
    rw [fieldNat_of_getField h2]
    have : Fields.get? s.hdr k = some (.int z) := by
      simpa [Fields.get?, Ne.symm hne] using h1
    simp [getNatD, this]
  · obtain ⟨z, h1, h2⟩ := key "sh_name" (by simp [shdrNatKeys])
    rw [fieldNat_of_getField h2]
    simp [Fields.get?] at h1
    omega
  · obtain ⟨_, x, _, hx⟩ := struct_field_exists (shdr_field_type d.cfg) hd
    exact ⟨x, hx⟩

/-! ### the file header -/

def identFields (le : Bool) : ConFields :=
  let byte := Con.uint 1 le
  mkFields [f "EI_MAG" (.array (lit 4) byte),
            f "EI_CLASS" (enumOf byte "ENUM_EI_CLASS" false),
            f "EI_DATA" (enumOf byte "ENUM_EI_DATA" false),
            f "EI_VERSION" (enumOf byte "ENUM_E_VERSION"),
            f "EI_OSABI" (enumOf byte "ENUM_EI_OSABI"),
            f "EI_ABIVERSION" byte,
            anon (.padding (lit 7) false)]

def ehdrFields (c : ElfCfg) : ConFields :=
  let le := c.le
  let w := c.cls / 8
  let half := Con.uint 2 le
  let word := Con.uint 4 le
  let addr := Con.uint w le
  mkFields [
      f "e_ident" (.struct (identFields le)),
      f "e_type" (enumOf half "ENUM_E_TYPE"), f "e_machine" (enumOf half "ENUM_E_MACHINE"),
      f "e_version" (enumOf word "ENUM_E_VERSION"), f "e_entry" addr, f "e_phoff" addr, f "e_shoff" addr,
      f "e_flags" word, f "e_ehsize" half, f "e_phentsize" half, f "e_phnum" half, f "e_shentsize" half,
      f "e_shnum" half, f "e_shstrndx" half]

theorem ehdr_eq (c : ElfCfg) : (elfStructs c).Elf_Ehdr = .struct (ehdrFields c) := rfl

def identRawFields (d : ElfDesc) : Fields :=
  let g (k : String) : Val := (Fields.get? d.ehdr k).getD (.int 0)
  [("EI_MAG", .list [.int 0x7f, .int 0x45, .int 0x4c, .int 0x46]),
   ("EI_CLASS", .int (if d.cls = 32 then 1 else 2)),
   ("EI_DATA", .int (if d.le then 1 else 2)),
   ("EI_VERSION", g "EI_VERSION"), ("EI_OSABI", g "EI_OSABI"), ("EI_ABIVERSION", g "EI_ABIVERSION")]

def ehdrRawFields (d : ElfDesc) : Fields :=
  let n := d.sections.length
  let m := d.segments.length
  let g (k : String) : Val := (Fields.get? d.ehdr k).getD (.int 0)
  [ ("e_ident", .record (identRawFields d)),
    ("e_type", g "e_type"), ("e_machine", g "e_machine"), ("e_version", g "e_version"),
    ("e_entry", g "e_entry"),
    ("e_phoff", .int (if m = 0 then 0 else d.phoff)),
    ("e_shoff", .int (if n = 0 then 0 else d.shoff)),
    ("e_flags", g "e_flags"), ("e_ehsize", g "e_ehsize"),
    ("e_phentsize", .int d.phentsize),
    ("e_phnum", .int (if d.xPhnum || m ≥ 0xffff then 0xffff else m)),
    ("e_shentsize", .int d.shentsize),
    ("e_shnum", .int (if d.xShnum || n ≥ 0xff00 then 0 else n)),
    ("e_shstrndx", .int (if d.xShstrndx || d.shstrndx ≥ 0xff00 then 0xffff else d.shstrndx))]

theorem ehdrRaw_eq (d : ElfDesc) : d.ehdrRaw = .record (ehdrRawFields d) := rfl

def ehdrHalfKeys : List String := ["e_ehsize", "e_phentsize", "e_phnum", "e_shentsize", "e_shnum", "e_shstrndx"]

theorem ehdr_field_half (c : ElfCfg) (k : String) (hk : k ∈ ehdrHalfKeys) :
    fieldCon (ehdrFields c) k = some (.uint 2 c.le) := by
  simp only [ehdrHalfKeys, List.mem_cons, List.not_mem_nil, or_false] at hk
  rcases hk with rfl | rfl | rfl | rfl | rfl | rfl <;>
    simp [ehdrFields, mkFields, f, fieldCon, fieldNames]

theorem ehdr_field_addr (c : ElfCfg) (k : String) (hk : k ∈ ["e_entry", "e_phoff", "e_shoff"]) :
    fieldCon (ehdrFields c) k = some (.uint (c.cls / 8) c.le) := by
  simp only [List.mem_cons, List.not_mem_nil, or_false] at hk
  rcases hk with rfl | rfl | rfl <;> simp [ehdrFields, mkFields, f, fieldCon, fieldNames]

theorem ehdr_field_type (c : ElfCfg) :
    fieldCon (ehdrFields c) "e_type" = some (.enum (.uint 2 c.le) "ENUM_E_TYPE" true) := by
  simp [ehdrFields, mkFields, f, fieldCon, fieldNames, enumOf]

theorem ehdr_field_machine (c : ElfCfg) :
    fieldCon (ehdrFields c) "e_machine" = some (.enum (.uint 2 c.le) "ENUM_E_MACHINE" true) := by
  simp [ehdrFields, mkFields, f, fieldCon, fieldNames, enumOf]

theorem ehdr_field_ident (c : ElfCfg) :
    fieldCon (ehdrFields c) "e_ident" = some (.struct (identFields c.le)) := by
  simp [ehdrFields, mkFields, f, fieldCon, fieldNames]

theorem ident_field_osabi (le : Bool) :
    fieldCon (identFields le) "EI_OSABI" = some (.enum (.uint 1 le) "ENUM_EI_OSABI" true) := by
  simp [identFields, mkFields, f, anon, fieldCon, fieldNames, enumOf]

structure HdrFacts (d : ElfDesc) (hdr : Val) : Prop where
  shentsize : hdr.getNat "e_shentsize" = .ok d.shentsize
  shoff : hdr.getNat "e_shoff" = .ok (if d.sections.length = 0 then 0 else d.shoff)
  shnum : hdr.getNat "e_shnum" = .ok (if d.xShnum || d.sections.length ≥ 0xff00 then 0 else d.sections.length)
  shstrndx : hdr.getNat "e_shstrndx" = .ok (if d.xShstrndx || d.shstrndx ≥ 0xff00 then 0xffff else d.shstrndx)
  phentsize : hdr.getNat "e_phentsize" = .ok d.phentsize
  phoff : hdr.getNat "e_phoff" = .ok (if d.segments.length = 0 then 0 else d.phoff)
  phnum : hdr.getNat "e_phnum" = .ok (if d.xPhnum || d.segments.length ≥ 0xffff then 0xffff else d.segments.length)
  ety : ∃ t, hdr.getField "e_type" = .ok t
  emach : ∃ t, hdr.getField "e_machine" = .ok t
  osabi : ∃ idt t, hdr.getField "e_ident" = .ok idt ∧ idt.getField "EI_OSABI" = .ok t

theorem hdr_nat_aux {env : Env} {d : ElfDesc} {eh : Bytes} {hdr : Val}
    (he : (Con.struct (ehdrFields d.cfg)).encodeRaw (.record (ehdrRawFields d)) = some eh)
    (hd : (Con.struct (ehdrFields d.cfg)).decodeRaw env [] (.record (ehdrRawFields d)) = .ok hdr)
    (k : String) (n : Nat) (hf : fieldCon (ehdrFields d.cfg) k = some (.uint n d.cfg.le)) (x : Nat)
    (hx : Fields.get? (ehdrRawFields d) k = some (.int x)) : hdr.getNat k = .ok x := by
  obtain ⟨z, -, h1, h2⟩ := uint_field hf he hd
  rw [hx] at h1
  have : (x : Int) = z := by simpa using h1
  have : x = z := by omega
  subst this
  exact getNat_of_getField h2

theorem hdr_facts {env : Env} {d : ElfDesc} {eh : Bytes} {hdr : Val}
    (he : d.S.Elf_Ehdr.encodeRaw d.ehdrRaw = some eh)
    (hd : d.S.Elf_Ehdr.decodeRaw env [] d.ehdrRaw = .ok hdr) : HdrFacts d hdr := by
  have hS : d.S.Elf_Ehdr = .struct (ehdrFields d.cfg) := rfl
  rw [hS, ehdrRaw_eq] at he hd
  have half := fun k hk x hx => hdr_nat_aux he hd k 2 (ehdr_field_half d.cfg k hk) x hx
  have addr := fun k hk x hx => hdr_nat_aux he hd k _ (ehdr_field_addr d.cfg k hk) x hx
  refine ⟨?_, ?_, ?_, ?_, ?_, ?_, ?_, ?_, ?_, ?_⟩
  · exact half "e_shentsize" (by simp [ehdrHalfKeys]) _ (by simp [ehdrRawFields, Fields.get?])
  · exact addr "e_shoff" (by simp) _ (by simp only [ehdrRawFields, Fields.get?]; simp; split <;> simp)
  · exact half "e_shnum" (by simp [ehdrHalfKeys]) _ (by simp only [ehdrRawFields, Fields.get?]; simp; split <;> simp)
  · exact half "e_shstrndx" (by simp [ehdrHalfKeys]) _ (by simp only [ehdrRawFields, Fields.get?]; simp; split <;> simp)
  · exact half "e_phentsize" (by simp [ehdrHalfKeys]) _ (by simp [ehdrRawFields, Fields.get?])
  · exact addr "e_phoff" (by simp) _ (by simp only [ehdrRawFields, Fields.get?]; simp; split <;> simp)
  · exact half "e_phnum" (by simp [ehdrHalfKeys]) _ (by simp only [ehdrRawFields, Fields.get?]; simp; split <;> simp)
  · obtain ⟨_, x, _, hx⟩ := struct_field_exists (ehdr_field_type d.cfg) hd
    exact ⟨x, hx⟩
  · obtain ⟨_, x, _, hx⟩ := struct_field_exists (ehdr_field_machine d.cfg) hd
    exact ⟨x, hx⟩
  · obtain ⟨_, idt, h1, hx⟩ := struct_field_exists (ehdr_field_ident d.cfg) hd
    have : Fields.get? (ehdrRawFields d) "e_ident" = some (.record (identRawFields d)) := by
      simp [ehdrRawFields, Fields.get?]
    rw [this] at h1
    simp only [Option.getD_some] at h1
    obtain ⟨_, t, _, ht⟩ := struct_field_exists (ident_field_osabi d.cfg.le) h1
    exact ⟨idt, t, hx, ht⟩

theorem encNat_one (le : Bool) (v : Nat) : encNat le 1 v = [UInt8.ofNat (v % 256)] := by
  cases le <;> simp [encNat, natLE, natBE]

theorem encodeRaw_byte_lit (le : Bool) (v : Nat) (hv : v < 256) :
    (Con.uint 1 le).encodeRaw (.int (v : Int)) = some [UInt8.ofNat v] := by
  have h1 : (0 : Int) ≤ (v : Int) := by omega
  have h2 : (v : Int) < 256 ^ 1 := by omega
  simp only [Con.encodeRaw, h1, h2, and_self, if_true, encNat_one]
  simp [Nat.mod_eq_of_lt hv]

theorem ident_prefix {d : ElfDesc} {a : Bytes}
    (ha : ConFields.encodeRaw (identFields d.le) (identRawFields d) = some a) :
    ∃ t, a = 0x7f :: 0x45 :: 0x4c :: 0x46 :: (if d.cls = 32 then 1 else 2) :: (if d.le then 1 else 2) :: t := by
  simp only [identFields, mkFields, f, anon] at ha
  rw [ConFields.encodeRaw] at ha
  obtain ⟨a1, b1, ha1, hb1, rfl⟩ := bind2_eq_some ha
  rw [ConFields.encodeRaw] at hb1
  obtain ⟨a2, b2, ha2, hb2, rfl⟩ := bind2_eq_some hb1
  rw [ConFields.encodeRaw] at hb2
  obtain ⟨a3, b3, ha3, hb3, rfl⟩ := bind2_eq_some hb2
  have e1 : a1 = [0x7f, 0x45, 0x4c, 0x46] := by
    have := encodeRaw_byte_lit d.le 0x7f (by omega)
    have := encodeRaw_byte_lit d.le 0x45 (by omega)
    have := encodeRaw_byte_lit d.le 0x4c (by omega)
    have := encodeRaw_byte_lit d.le 0x46 (by omega)
    simp_all [identRawFields, Fields.get?, Con.encodeRaw, lit, Expr.litNat?, Con.encodeRawList]
  have e2 : a2 = [if d.cls = 32 then 1 else 2] := by
    have h1 := encodeRaw_byte_lit d.le 1 (by omega)
    have h2 := encodeRaw_byte_lit d.le 2 (by omega)
    simp only [identRawFields, Fields.get?, enumOf] at ha2
    simp at ha2
    rw [Con.encodeRaw] at ha2
    split at ha2 <;> split <;> simp_all
  have e3 : a3 = [if d.le then 1 else 2] := by
    have h1 := encodeRaw_byte_lit d.le 1 (by omega)
    have h2 := encodeRaw_byte_lit d.le 2 (by omega)
    simp only [identRawFields, Fields.get?, enumOf] at ha3
    simp at ha3
    rw [Con.encodeRaw] at ha3
    split at ha3 <;> split <;> simp_all
  subst e1 e2 e3
  exact ⟨b3, by simp⟩

theorem ehdr_prefix {d : ElfDesc} {eh : Bytes} (he : d.S.Elf_Ehdr.encodeRaw d.ehdrRaw = some eh) :
    ∃ t, eh = 0x7f :: 0x45 :: 0x4c :: 0x46 :: (if d.cls = 32 then 1 else 2) :: (if d.le then 1 else 2) :: t := by
  have hS : d.S.Elf_Ehdr = .struct (ehdrFields d.cfg) := rfl
  rw [hS, ehdrRaw_eq, Con.encodeRaw] at he
  simp only [ehdrFields, mkFields, f] at he
  rw [ConFields.encodeRaw] at he
  obtain ⟨a, b, ha, -, rfl⟩ := bind2_eq_some he
  have : Fields.get? (ehdrRawFields d) "e_ident" = some (.record (identRawFields d)) := by
    simp [ehdrRawFields, Fields.get?]
  rw [this] at ha
  simp only [Option.getD_some, Con.encodeRaw] at ha
  obtain ⟨t, rfl⟩ := ident_prefix ha
  exact ⟨t ++ b, by simp⟩

theorem identify_ok {d : ElfDesc} {bytes eh : Bytes} (hcls : d.cls = 32 ∨ d.cls = 64)
    (he : d.S.Elf_Ehdr.encodeRaw d.ehdrRaw = some eh) (hr : readN bytes 0 eh.length = eh) :
    identify bytes = .ok (d.cls, d.le) := by
  obtain ⟨t, rfl⟩ := ehdr_prefix he
  have hb := drop_of_readN hr
  simp only [List.drop_zero] at hb
  rw [hb]
  rcases hcls with h | h <;> cases hle : d.le <;>
    simp [identify, readN, h, bind, Except.bind, pure, Except.pure]

/-! ### well-formedness, unpacked

  The proofs below are carried out for `wfZ` / `secOkZ` (compressed sections admitted, Spec/ElfImage.lean);
  `wf` / `secOk` imply them, so every theorem holds for both. -/

theorem secOk_imp_secOkZ {env : Env} {d : ElfDesc} :
    ∀ (fuel i : Nat), d.secOk env fuel i = true → d.secOkZ env fuel i = true := by
  intro fuel
  induction fuel with
  | zero => intro i h; simp [ElfDesc.secOk] at h
  | succ fuel ih =>
    intro i h
    rw [ElfDesc.secOk] at h
    rw [ElfDesc.secOkZ]
    cases hs : d.sections[i]? with
    | none => simp [hs] at h
    | some s =>
      cases hh : d.decHdr env i with
      | none => simp [hs, hh] at h
      | some hd =>
        simp only [hs, hh, Bool.and_eq_true, beq_iff_eq, Bool.or_eq_true] at h ⊢
        obtain ⟨hfl, hc⟩ := h
        refine ⟨Or.inl hfl, ?_⟩
        have L : ∀ types : List String,
            (match d.decHdr env (fieldNat hd "sh_link") with
              | some lh => typeIn lh types && d.secOk env fuel (fieldNat hd "sh_link")
              | none => false) = true →
            (match d.decHdr env (fieldNat hd "sh_link") with
              | some lh => typeIn lh types && d.secOkZ env fuel (fieldNat hd "sh_link")
              | none => false) = true := by
          intro types hl
          cases hl' : d.decHdr env (fieldNat hd "sh_link") with
          | none => simp [hl'] at hl
          | some lh =>
            simp only [hl', Bool.and_eq_true] at hl ⊢
            exact ⟨hl.1, ih _ hl.2⟩
        by_cases c0 : typeIn hd ["SHT_SYMTAB", "SHT_DYNSYM", "SHT_SUNW_LDYNSYM"] = true
        · rw [if_pos c0] at hc ⊢
          try simp only [Bool.and_eq_true] at hc ⊢
          exact ⟨⟨L _ hc.1.1, hc.1.2⟩, hc.2⟩
        rw [if_neg c0] at hc ⊢
        by_cases c1 : typeIn hd ["SHT_SUNW_syminfo", "SHT_GNU_versym"] = true
        · rw [if_pos c1] at hc ⊢
          try simp only [Bool.and_eq_true] at hc ⊢
          exact L _ hc
        rw [if_neg c1] at hc ⊢
        by_cases c2 : typeIn hd ["SHT_GNU_verneed", "SHT_GNU_verdef"] = true
        · rw [if_pos c2] at hc ⊢
          try simp only [Bool.and_eq_true] at hc ⊢
          exact L _ hc
        rw [if_neg c2] at hc ⊢
        by_cases c3 : typeIn hd ["SHT_REL"] = true
        · rw [if_pos c3] at hc ⊢
          try simp only [Bool.and_eq_true] at hc ⊢
          exact hc
        rw [if_neg c3] at hc ⊢
        by_cases c4 : typeIn hd ["SHT_RELA"] = true
        · rw [if_pos c4] at hc ⊢
          try simp only [Bool.and_eq_true] at hc ⊢
          exact hc
        rw [if_neg c4] at hc ⊢
        by_cases c5 : typeIn hd ["SHT_RELR"] = true
        · rw [if_pos c5] at hc ⊢
          try simp only [Bool.and_eq_true] at hc ⊢
          exact hc
        rw [if_neg c5] at hc ⊢
        by_cases c6 : typeIn hd ["SHT_DYNAMIC"] = true
        · rw [if_pos c6] at hc ⊢
          try simp only [Bool.and_eq_true] at hc ⊢
          exact L _ hc
        rw [if_neg c6] at hc ⊢
        by_cases c7 : typeIn hd ["SHT_ARM_ATTRIBUTES", "SHT_RISCV_ATTRIBUTES"] = true
        · rw [if_pos c7] at hc ⊢
          try simp only [Bool.and_eq_true] at hc ⊢
          exact hc
        rw [if_neg c7] at hc ⊢
        by_cases c8 : typeIn hd ["SHT_HASH"] = true
        · rw [if_pos c8] at hc ⊢
          try simp only [Bool.and_eq_true] at hc ⊢
          exact ⟨⟨⟨L _ hc.1.1.1, hc.1.1.2⟩, hc.1.2⟩, hc.2⟩
        rw [if_neg c8] at hc ⊢
        by_cases c9 : typeIn hd ["SHT_GNU_HASH"] = true
        · rw [if_pos c9] at hc ⊢
          try simp only [Bool.and_eq_true] at hc ⊢
          exact ⟨⟨⟨L _ hc.1.1.1, hc.1.1.2⟩, hc.1.2⟩, hc.2⟩
        rw [if_neg c9] at hc ⊢

theorem wf_imp_wfZ {env : Env} {d : ElfDesc} (h : d.wf env = true) : d.wfZ env = true := by
  unfold ElfDesc.wf at h
  unfold ElfDesc.wfZ
  simp only [Bool.and_eq_true, List.all_eq_true, List.mem_range] at h ⊢
  obtain ⟨⟨h1, h16⟩, h17⟩ := h
  exact ⟨⟨h1, fun i hi => secOk_imp_secOkZ 4 i (h16 i hi)⟩, h17⟩

structure WfFacts (env : Env) (d : ElfDesc) : Prop where
  cls : d.cls = 32 ∨ d.cls = 64
  cfg : d.cfgOk env = true
  disj : ∃ rs, d.regions = some rs ∧ regionsDisjoint (sortRegions rs) = true
  esc : d.escapesOk = true
  names : d.namesOk = true
  shent : d.sections.length = 0 ∨ d.S.Elf_Shdr.sizeof.getD 0 ≤ d.shentsize
  phent : d.segments.length = 0 ∨ d.S.Elf_Phdr.sizeof.getD 0 ≤ d.phentsize
  shbound : d.shoff + d.sections.length * d.shentsize < 2 ^ 63
  phbound : d.phoff + d.segments.length * d.phentsize < 2 ^ 63
  nlt : d.sections.length < 2 ^ 32
  mlt : d.segments.length < 2 ^ 32
  shpos : d.sections.length = 0 ∨ (0 < d.shoff ∧ d.shstrndx < d.sections.length)
  phpos : d.segments.length = 0 ∨ 0 < d.phoff
  nameoff : d.shstrndx ≠ 0 → ∀ st, d.sections[d.shstrndx]? = some st →
    ∀ s ∈ d.sections, getNatD st.hdr "sh_offset" + s.nameOff < 2 ^ 63
  secs : ∀ i, i < d.sections.length → d.secOkZ env 4 i = true
  noshstr : d.sections.length = 0 → d.shstrndx = 0

theorem wfZ_facts {env : Env} {d : ElfDesc} (h : d.wfZ env = true) : WfFacts env d := by
  unfold ElfDesc.wfZ at h
  simp only [Bool.and_eq_true, Bool.or_eq_true, beq_iff_eq, decide_eq_true_eq, List.all_eq_true,
    List.mem_range, bne_iff_ne, ne_eq] at h
  obtain ⟨⟨⟨⟨⟨⟨⟨⟨⟨⟨⟨⟨⟨⟨⟨⟨h1, h2⟩, h3⟩, h4⟩, h5⟩, h6⟩, h7⟩, h8⟩, h9⟩, h10⟩, h11⟩, h12⟩, h13⟩, h14⟩, h15⟩, h16⟩, h17⟩ := h
  refine ⟨h1, h3, ?_, h5, h6, h7, h8, h9, h10, h11, h12, h13, h14, ?_, h16, ?_⟩
  · cases hr : d.regions with
    | none => simp [hr] at h4
    | some rs => exact ⟨rs, rfl, by simpa [hr] using h4⟩
  · intro hnz st hst s hs
    rcases h15 with h15 | h15
    · exact absurd h15 hnz
    · rw [hst] at h15
      simp only [List.all_eq_true, decide_eq_true_eq] at h15
      exact h15 s hs
  · intro hn
    rcases h17 with h | h
    · exact absurd hn h
    · exact h

theorem wf_facts {env : Env} {d : ElfDesc} (h : d.wf env = true) : WfFacts env d :=
  wfZ_facts (wf_imp_wfZ h)

/-! ### reading section headers -/

theorem shdr_sizeof (c : ElfCfg) : (elfStructs c).Elf_Shdr.sizeof = some (16 + 6 * (c.cls / 8)) := by
  simp [elfStructs, st, mkFields, f, Con.sizeof, ConFields.sizeof, enumOf]
  omega

theorem shdr_fixed (c : ElfCfg) : (elfStructs c).Elf_Shdr.fixed = true := rfl
theorem ehdr_fixed (c : ElfCfg) : (elfStructs c).Elf_Ehdr.fixed = true := rfl

theorem dS_shdr_sizeof (d : ElfDesc) : d.S.Elf_Shdr.sizeof = some (16 + 6 * (d.cls / 8)) := shdr_sizeof d.cfg
theorem dS_shdr_fixed (d : ElfDesc) : d.S.Elf_Shdr.fixed = true := rfl
theorem dS_ehdr_fixed (d : ElfDesc) : d.S.Elf_Ehdr.fixed = true := rfl

theorem decHdr_some {env : Env} {d : ElfDesc} {i : Nat} {h : Val} (hd : d.decHdr env i = some h) :
    ∃ hi : i < d.sections.length, d.S.Elf_Shdr.decodeRaw env [] (d.sections[i]).raw = .ok h := by
  unfold ElfDesc.decHdr at hd
  cases hs : d.sections[i]? with
  | none => simp [hs] at hd
  | some s =>
    obtain ⟨hi, rfl⟩ := List.getElem?_eq_some_iff.1 hs
    refine ⟨hi, ?_⟩
    simp only [hs] at hd
    cases hr : d.S.Elf_Shdr.decodeRaw env [] (d.sections[i]).raw with
    | error e => simp [hr, Except.toOption] at hd
    | ok v => simp [hr, Except.toOption] at hd; rw [hd]

theorem decHdr_of_ok {env : Env} {d : ElfDesc} {i : Nat} {h : Val} (hi : i < d.sections.length)
    (hd : d.S.Elf_Shdr.decodeRaw env [] (d.sections[i]).raw = .ok h) : d.decHdr env i = some h := by
  unfold ElfDesc.decHdr
  simp [List.getElem?_eq_getElem hi, hd, Except.toOption]

theorem sectionOffset_ok {env : Env} {d : ElfDesc} {hdr : Val} (hw : WfFacts env d) (hf : HdrFacts d hdr)
    (i : Nat) :
    sectionOffset d.S hdr i = .ok ((if d.sections.length = 0 then 0 else d.shoff) + i * d.shentsize) := by
  unfold sectionOffset
  have hsz : sizeofR d.S.Elf_Shdr = .ok (16 + 6 * (d.cls / 8)) := by
    unfold sizeofR; rw [dS_shdr_sizeof]
  simp only [hf.shentsize, hf.shoff, hsz, bind, Except.bind]
  by_cases hn : d.sections.length = 0
  · simp [hn, pure, Except.pure]
  · have := hw.shent
    rw [dS_shdr_sizeof] at this
    simp only [Option.getD_some] at this
    have hlt : ¬ d.shentsize < 16 + 6 * (d.cls / 8) := by
      rcases this with h | h
      · exact absurd h hn
      · omega
    simp [hn, hlt, pure, Except.pure]

theorem getSectionHeader_ok {env : Env} {d : ElfDesc} {bytes : Bytes} {hdr : Val} (hw : WfFacts env d)
    (hL : LayoutFacts d bytes) (hf : HdrFacts d hdr) {i : Nat} {h : Val} (hd : d.decHdr env i = some h) :
    getSectionHeader env d.S bytes hdr i = .ok (some h) := by
  obtain ⟨hi, hdec⟩ := decHdr_some hd
  obtain ⟨b, hb, hr⟩ := hL.shdr i hi
  have hn : d.sections.length ≠ 0 := by omega
  have hlen : b.length = 16 + 6 * (d.cls / 8) := by
    have := encodeRaw_length _ (dS_shdr_fixed d) _ _ hb
    rw [dS_shdr_sizeof] at this
    simp only [Option.some.injEq] at this
    exact this.symm
  have hle : d.shoff + i * d.shentsize + b.length ≤ bytes.length := by
    rcases readN_le_length hr with h0 | h0
    · rw [h0] at hlen; simp at hlen; omega
    · exact h0
  have hpos : d.shoff + i * d.shentsize < 2 ^ 63 := by
    have := hw.shbound
    have : i * d.shentsize ≤ d.sections.length * d.shentsize := Nat.mul_le_mul_right _ (by omega)
    omega
  unfold getSectionHeader
  rw [sectionOffset_ok hw hf]
  simp only [hn, if_false, bind, Except.bind]
  have hgt : ¬ d.shoff + i * d.shentsize > bytes.length := by omega
  simp only [hgt, if_false]
  rw [structParseAt_layout env _ (dS_shdr_fixed d) _ b hb bytes _ hr hpos, hdec]
  rfl

/-! ### `secOkZ`, unpacked -/

/-- the type-specific half of `secOkZ` (and of `secOk`) -/
def secCond (env : Env) (d : ElfDesc) (fuel : Nat) (s : SecDesc) (h : Val) : Bool :=
  let w := d.cls / 8
  let link := fieldNat h "sh_link"
  let linkIs (types : List String) : Bool :=
    match d.decHdr env link with
    | some lh => typeIn lh types && d.secOkZ env fuel link
    | none => false
  let entsize := fieldNat h "sh_entsize"
  let size := fieldNat h "sh_size"
  let off := fieldNat h "sh_offset"
  let body := bodyOf s
  let word (k : Nat) : Nat := decNat d.le ((body.drop (4 * k)).take 4)
  (if typeIn h ["SHT_SYMTAB", "SHT_DYNSYM", "SHT_SUNW_LDYNSYM"] then
     linkIs ["SHT_STRTAB"] && decide (0 < entsize) && size % entsize == 0
   else if typeIn h ["SHT_SUNW_syminfo", "SHT_GNU_versym"] then linkIs ["SHT_SYMTAB", "SHT_DYNSYM"]
   else if typeIn h ["SHT_GNU_verneed", "SHT_GNU_verdef"] then linkIs ["SHT_STRTAB"]
   else if typeIn h ["SHT_REL"] then entsize == 2 * w
   else if typeIn h ["SHT_RELA"] then entsize == 3 * w
   else if typeIn h ["SHT_RELR"] then entsize == w
   else if typeIn h ["SHT_DYNAMIC"] then linkIs ["SHT_STRTAB", "SHT_NOBITS"]
   else if typeIn h ["SHT_ARM_ATTRIBUTES", "SHT_RISCV_ATTRIBUTES"] then
     decide (off < 2 ^ 63) && body.head? == some 0x41
   else if typeIn h ["SHT_HASH"] then
     linkIs ["SHT_SYMTAB", "SHT_DYNSYM"] && decide (off < 2 ^ 63) &&
     decide (8 ≤ body.length) && decide (8 + 4 * (word 0 + word 1) ≤ body.length)
   else if typeIn h ["SHT_GNU_HASH"] then
     linkIs ["SHT_SYMTAB", "SHT_DYNSYM"] && decide (off < 2 ^ 63) &&
     decide (16 ≤ body.length) && decide (16 + w * word 2 + 4 * word 0 ≤ body.length)
   else true)

/-- size of the compression header of the description's class (gABI: `Elf32_Chdr` / `Elf64_Chdr`) -/
def chdrLen (d : ElfDesc) : Nat := if d.cls = 32 then 12 else 24

/-- the SHF_COMPRESSED clause of `secOkZ`: not flagged, or the body begins with a full compression
    header at a reachable offset -/
def FlagOk (d : ElfDesc) (s : SecDesc) (hd : Val) : Prop :=
  fieldNat hd "sh_flags" &&& 0x800 = 0 ∨
    (fieldNat hd "sh_offset" < 2 ^ 63 ∧ chdrLen d ≤ (bodyOf s).length)

theorem secOkZ_unpack {env : Env} {d : ElfDesc} {fuel i : Nat} (h : d.secOkZ env fuel i = true) :
    ∃ fuel' s hd, fuel = fuel' + 1 ∧ d.sections[i]? = some s ∧ d.decHdr env i = some hd ∧
      FlagOk d s hd ∧ secCond env d fuel' s hd = true := by
  cases fuel with
  | zero => simp [ElfDesc.secOkZ] at h
  | succ fuel' =>
    rw [ElfDesc.secOkZ] at h
    cases hs : d.sections[i]? with
    | none => simp [hs] at h
    | some s =>
      cases hh : d.decHdr env i with
      | none => simp [hs, hh] at h
      | some hd =>
        simp only [hs, hh, Bool.and_eq_true, beq_iff_eq, Bool.or_eq_true, decide_eq_true_eq] at h
        exact ⟨fuel', s, hd, rfl, rfl, rfl, h.1, h.2⟩

theorem parse_uint_len {env : Env} {data : Bytes} {pos n : Nat} {le : Bool} {ctx : Fields}
    (h : pos + n ≤ data.length) :
    Con.parse env data (.uint n le) ctx pos = .ok (.int (decNat le (readN data pos n)), pos + n, ctx) := by
  have hl : (readN data pos n).length = n := by rw [readN_length]; omega
  rw [Con.parse, readExact_of_len hl]; rfl

theorem parse_enum_uint_ok {env : Env} {data : Bytes} {pos n : Nat} {le : Bool} {ctx : Fields} {t : String}
    (h : pos + n ≤ data.length) :
    ∃ v, Con.parse env data (.enum (.uint n le) t true) ctx pos = .ok (v, pos + n, ctx) := by
  rw [Con.parse, parse_uint_len h]
  simp only [bind, Except.bind]
  cases env.enumDecode t (decNat le (readN data pos n)) <;> exact ⟨_, rfl⟩

/-- any `chdrLen` bytes parse as the compression header of the class: its fields are unsigned
    integers and a pass-through enumeration -/
theorem parse_chdr_any (env : Env) (c : ElfCfg) (hc : c.cls = 32 ∨ c.cls = 64) (data : Bytes) (pos : Nat)
    (hlen : pos + (if c.cls = 32 then 12 else 24) ≤ data.length) :
    ∃ v p, structParse env (elfStructs c).Elf_Chdr data pos = .ok (v, p) := by
  unfold structParse
  rcases hc with h | h
  · have hS : (elfStructs c).Elf_Chdr
        = st [f "ch_type" (enumOf (.uint 4 c.le) "ENUM_ELFCOMPRESS_TYPE"), f "ch_size" (.uint 4 c.le),
              f "ch_addralign" (.uint 4 c.le)] := by
      simp [elfStructs, h]
    rw [hS]
    simp only [h, if_true] at hlen
    simp only [st, mkFields, f, enumOf]
    rw [Con.parse, Con.parseFields]
    simp only [Bool.false_eq_true, if_false, bind, Except.bind]
    obtain ⟨v1, hv1⟩ := parse_enum_uint_ok (env := env) (data := data) (pos := pos) (n := 4) (le := c.le)
      (ctx := []) (t := "ENUM_ELFCOMPRESS_TYPE") (by omega)
    rw [hv1]
    simp only
    rw [Con.parseFields]
    simp only [Bool.false_eq_true, if_false, bind, Except.bind]
    rw [parse_uint_len (by omega)]
    simp only
    rw [Con.parseFields]
    simp only [Bool.false_eq_true, if_false, bind, Except.bind]
    rw [parse_uint_len (by omega)]
    simp only [Con.parseFields]
    exact ⟨_, _, rfl⟩
  · have hS : (elfStructs c).Elf_Chdr
        = st [f "ch_type" (enumOf (.uint 4 c.le) "ENUM_ELFCOMPRESS_TYPE"), f "ch_reserved" (.uint 4 c.le),
              f "ch_size" (.uint 8 c.le), f "ch_addralign" (.uint 8 c.le)] := by
      simp [elfStructs, h]
    rw [hS]
    simp only [h, show ¬ ((64 : Nat) = 32) by omega, if_false] at hlen
    simp only [st, mkFields, f, enumOf]
    rw [Con.parse, Con.parseFields]
    simp only [Bool.false_eq_true, if_false, bind, Except.bind]
    obtain ⟨v1, hv1⟩ := parse_enum_uint_ok (env := env) (data := data) (pos := pos) (n := 4) (le := c.le)
      (ctx := []) (t := "ENUM_ELFCOMPRESS_TYPE") (by omega)
    rw [hv1]
    simp only
    rw [Con.parseFields]
    simp only [Bool.false_eq_true, if_false, bind, Except.bind]
    rw [parse_uint_len (by omega)]
    simp only
    rw [Con.parseFields]
    simp only [Bool.false_eq_true, if_false, bind, Except.bind]
    rw [parse_uint_len (by omega)]
    simp only
    rw [Con.parseFields]
    simp only [Bool.false_eq_true, if_false, bind, Except.bind]
    rw [parse_uint_len (by omega)]
    simp only [Con.parseFields]
    exact ⟨_, _, rfl⟩

/-- `Section.__init__` succeeds: the section is not flagged SHF_COMPRESSED, or the compression
    header it reads lies inside the body the layout places at `sh_offset` -/
theorem sectionInit_ok {env : Env} {d : ElfDesc} {bytes : Bytes} {s : SecDesc} {h : Val}
    (hcls : d.cls = 32 ∨ d.cls = 64) (hL : LayoutFacts d bytes) (hs : s ∈ d.sections)
    (hf : SecFacts s h) (hfl : FlagOk d s h) :
    sectionInit env d.S bytes h = .ok () := by
  unfold sectionInit
  rw [hf.nat "sh_flags" (by simp [shdrNatKeys])]
  by_cases h0 : fieldNat h "sh_flags" &&& 0x800 = 0
  · simp [bind, Except.bind, h0, pure, Except.pure]
  · rcases hfl with hfl | ⟨hoff, hlen⟩
    · exact absurd hfl h0
    · have hne : (fieldNat h "sh_flags" &&& 0x800 != 0) = true := by simpa using h0
      simp only [bind, Except.bind, hne, if_true]
      rw [hf.nat "sh_offset" (by simp [shdrNatKeys])]
      simp only
      have hpos : 0 < chdrLen d := by unfold chdrLen; split <;> omega
      cases hb : s.body with
      | none => simp [bodyOf, hb] at hlen; omega
      | some body =>
        have hbl : (bodyOf s) = body := by simp [bodyOf, hb]
        rw [hbl] at hlen
        have hread := hL.body s hs body hb
        rw [← hf.raw "sh_offset" (by simp [shdrNatKeys]) (by decide)] at hread
        have hle : fieldNat h "sh_offset" + body.length ≤ bytes.length := by
          rcases readN_le_length hread with e | e
          · rw [e] at hlen; simp at hlen; omega
          · exact e
        obtain ⟨v, p, hp⟩ := parse_chdr_any env d.cfg hcls bytes (fieldNat h "sh_offset") (by
          show fieldNat h "sh_offset" + chdrLen d ≤ bytes.length
          omega)
        unfold structParseAt
        have : ¬ fieldNat h "sh_offset" ≥ 2 ^ 63 := by omega
        simp only [this, if_false]
        have hS : d.S.Elf_Chdr = (elfStructs d.cfg).Elf_Chdr := rfl
        rw [hS, hp]
        rfl

/-- everything known about section `i` of a well-formed, laid-out description -/
theorem sec_bundle {env : Env} {d : ElfDesc} {bytes : Bytes} (hcls : d.cls = 32 ∨ d.cls = 64)
    (hL : LayoutFacts d bytes) {fuel i : Nat} (hok : d.secOkZ env fuel i = true) :
    ∃ (hi : i < d.sections.length) (hd : Val) (fuel' : Nat), fuel = fuel' + 1 ∧ d.decHdr env i = some hd ∧
      SecFacts (d.sections[i]) hd ∧ sectionInit env d.S bytes hd = .ok () ∧
      secCond env d fuel' (d.sections[i]) hd = true := by
  obtain ⟨fuel', s, hd, rfl, hs, hdec, hfl, hc⟩ := secOkZ_unpack hok
  obtain ⟨hi, rfl⟩ := List.getElem?_eq_some_iff.1 hs
  obtain ⟨_, hdd⟩ := decHdr_some hdec
  obtain ⟨b, hb, -⟩ := hL.shdr i hi
  have hsf := sec_facts hb hdd
  exact ⟨hi, hd, fuel', rfl, hdec, hsf, sectionInit_ok hcls hL (List.getElem_mem hi) hsf hfl, hc⟩

/-! ### the extended-numbering escapes -/

structure EscFacts (d : ElfDesc) : Prop where
  shnum : (d.xShnum || decide (d.sections.length ≥ 0xff00)) = true →
    ∃ s0, d.sections[0]? = some s0 ∧ getNatD s0.hdr "sh_size" = d.sections.length
  shstrndx : (d.xShstrndx || decide (d.shstrndx ≥ 0xff00)) = true →
    ∃ s0, d.sections[0]? = some s0 ∧ getNatD s0.hdr "sh_link" = d.shstrndx
  phnum : (d.xPhnum || decide (d.segments.length ≥ 0xffff)) = true →
    ∃ s0, d.sections[0]? = some s0 ∧ getNatD s0.hdr "sh_info" = d.segments.length

theorem esc_aux {a : Bool} {n x y : Nat} (h : (!a || (decide (n > 0) && x == y)) = true) (ha : a = true) :
    n > 0 ∧ x = y := by
  subst ha
  simpa using h

theorem esc_head {secs : List SecDesc} {k : String} {v : Nat}
    (h : secs.length > 0 ∧ getNatD (match secs with | s :: _ => s.hdr | [] => []) k = v) :
    ∃ s0, secs[0]? = some s0 ∧ getNatD s0.hdr k = v := by
  cases secs with
  | nil => simp at h
  | cons s rest => exact ⟨s, by simp, h.2⟩

theorem esc_facts {d : ElfDesc} (h : d.escapesOk = true) : EscFacts d := by
  unfold ElfDesc.escapesOk at h
  simp only [Bool.and_eq_true] at h
  obtain ⟨⟨⟨h1, h2⟩, h3⟩, -⟩ := h
  exact ⟨fun hx => esc_head (esc_aux h1 hx), fun hx => esc_head (esc_aux h2 hx),
    fun hx => esc_head (esc_aux h3 hx)⟩

theorem getShstrndx_ok {env : Env} {d : ElfDesc} {bytes : Bytes} {hdr : Val} (hw : WfFacts env d)
    (hL : LayoutFacts d bytes) (hf : HdrFacts d hdr) :
    getShstrndx env d.S bytes hdr = .ok d.shstrndx := by
  unfold getShstrndx
  rw [hf.shstrndx]
  simp only [bind, Except.bind]
  by_cases hx : (d.xShstrndx || decide (d.shstrndx ≥ 0xff00)) = true
  · obtain ⟨s0, hs0, hlink⟩ := (esc_facts hw.esc).shstrndx hx
    obtain ⟨h0, rfl⟩ := List.getElem?_eq_some_iff.1 hs0
    obtain ⟨_, h, _, _, hdec, hsf, _, _⟩ := sec_bundle hw.cls hL (hw.secs 0 h0)
    simp only [hx, if_true]
    rw [getSectionHeader_ok hw hL hf hdec]
    simp only [bne_self_eq_false, Bool.false_eq_true, if_false]
    rw [hsf.nat "sh_link" (by simp [shdrNatKeys]), hsf.raw "sh_link" (by simp [shdrNatKeys]) (by decide), hlink]
  · simp only [hx, Bool.false_eq_true, if_false]
    have : d.shstrndx < 0xff00 := by
      simp only [Bool.or_eq_true, decide_eq_true_eq, not_or] at hx
      omega
    have hne : (d.shstrndx != 0xffff) = true := by
      simp only [bne_iff_ne, ne_eq]; omega
    simp [hne, pure, Except.pure]

def specMC : Val → String
  | .str m => ((machineClass.find? (·.1 == m)).map (·.2)).getD "default"
  | _ => "default"

def specSF : ElfCfg → Option ElfStructs := fun c => some (elfStructs c)

theorem cfgOfHeader_ok {env : Env} {d : ElfDesc} {hdr : Val}
    (hd : d.S.Elf_Ehdr.decodeRaw env [] d.ehdrRaw = .ok hdr) (hcfg : d.cfgOk env = true)
    (hf : HdrFacts d hdr) : cfgOfHeader specMC d.cls d.le hdr = .ok d.cfg := by
  obtain ⟨et, het⟩ := hf.ety
  obtain ⟨em, hem⟩ := hf.emach
  obtain ⟨idt, osabi, hid, hos⟩ := hf.osabi
  unfold ElfDesc.cfgOk at hcfg
  simp only [hd, het, hem, hid, hos, Except.toOption, Option.getD_some, Bool.and_eq_true, beq_iff_eq] at hcfg
  obtain ⟨⟨h1, h2⟩, h3⟩ := hcfg
  unfold cfgOfHeader
  simp only [het, hem, hid, hos, bind, Except.bind, pure, Except.pure]
  have e2 : isStr osabi "ELFOSABI_SOLARIS" = d.solaris := by
    rw [h2]; cases osabi <;> simp [isStr]
    split <;> simp_all
  have e3 : isStr et "ET_CORE" = d.core := by
    rw [h3]; cases et <;> simp [isStr]
    split <;> simp_all
  have e1 : specMC em = d.mclass := by
    rw [← h1]; cases em <;> rfl
  rw [e1, e2, e3]; rfl

/-! ### `ELFFile(stream)` -/

theorem parse_ehdr_ok {env : Env} {d : ElfDesc} {bytes : Bytes} {hdr : Val} (hL : LayoutFacts d bytes)
    (hd : d.S.Elf_Ehdr.decodeRaw env [] d.ehdrRaw = .ok hdr) :
    ∃ p, structParseAt env (elfStructs ⟨d.le, d.cls, "default", false, false⟩).Elf_Ehdr bytes 0 = .ok (hdr, p) := by
  obtain ⟨eh, he, hr⟩ := hL.ehdr
  have : (elfStructs ⟨d.le, d.cls, "default", false, false⟩).Elf_Ehdr = d.S.Elf_Ehdr := rfl
  rw [this, structParseAt_layout env _ (dS_ehdr_fixed d) _ eh he bytes 0 hr (by omega), hd]
  exact ⟨_, rfl⟩

/-- what `ELFFile.__init__` leaves in `_section_header_stringtable` for a description with sections:
    nothing when the file has no name table (`e_shstrndx` = SHN_UNDEF), else the decoded header of
    section `e_shstrndx` -/
def ShstrOk (env : Env) (d : ElfDesc) (shstr : Option Val) : Prop :=
  (d.shstrndx = 0 ∧ shstr = none) ∨
  (d.shstrndx ≠ 0 ∧ ∃ st, shstr = some st ∧ d.decHdr env d.shstrndx = some st)

/-- STATEMENT CHANGED with the repair of `no-name-table`: the name table left behind is `none` for
    `e_shstrndx` = SHN_UNDEF (`ShstrOk`), no longer always `some` header. -/
theorem openElf_ok_pos {env : Env} {d : ElfDesc} {bytes : Bytes} {hdr : Val} (hw : WfFacts env d)
    (hL : LayoutFacts d bytes) (hd : d.S.Elf_Ehdr.decodeRaw env [] d.ehdrRaw = .ok hdr)
    (hn : 0 < d.sections.length) :
    ∃ shstr, ShstrOk env d shstr ∧
      openElf env specSF specMC bytes
        = .ok { data := bytes, cls := d.cls, le := d.le, S := d.S, header := hdr, shstr := shstr } := by
  obtain ⟨eh, he, hr⟩ := hL.ehdr
  have hf := hdr_facts he hd
  obtain ⟨p, hp⟩ := parse_ehdr_ok hL hd
  have hS : elfStructs d.cfg = d.S := rfl
  by_cases hz : d.shstrndx = 0
  · refine ⟨none, Or.inl ⟨hz, rfl⟩, ?_⟩
    unfold openElf
    rw [identify_ok hw.cls he hr]
    simp only [bind, Except.bind, specSF, hp, cfgOfHeader_ok hd hw.cfg hf]
    rw [hS, getShstrndx_ok hw hL hf, hz]
    rfl
  · have hlt : d.shstrndx < d.sections.length := by
      rcases hw.shpos with h | h
      · omega
      · exact h.2
    obtain ⟨_, st, _, _, hdec, hsf, hinit, _⟩ := sec_bundle hw.cls hL (hw.secs _ hlt)
    refine ⟨some st, Or.inr ⟨hz, st, rfl, hdec⟩, ?_⟩
    have hne : (d.shstrndx == 0) = false := by simpa using hz
    unfold openElf
    rw [identify_ok hw.cls he hr]
    simp only [bind, Except.bind, specSF, hp, cfgOfHeader_ok hd hw.cfg hf]
    rw [hS, getShstrndx_ok hw hL hf]
    simp only [hne, Bool.false_eq_true, if_false, getSectionHeader_ok hw hL hf hdec, hinit]
    rfl

/-! ### section names -/

theorem firstNul_append_of_some {a : Bytes} {x : Bytes} (r : Bytes) (h : firstNul a = some x) :
    firstNul (a ++ r) = some x := by
  induction a generalizing x with
  | nil => simp [firstNul] at h
  | cons b a ih =>
    simp only [List.cons_append, firstNul] at h ⊢
    split
    · rename_i hb; simpa [hb] using h
    · rename_i hb
      simp only [hb, if_false] at h
      cases hf : firstNul a with
      | none => simp [hf] at h
      | some y => rw [ih hf]; simpa [hf] using h

theorem parseCStringFromStream_eq (data : Bytes) (pos : Nat) :
    parseCStringFromStream data pos = .ok (firstNul (data.drop pos)) := by
  unfold parseCStringFromStream
  rw [cstringChunkLoop_eq data 64 (by omega) _ _ _ (by omega)]
  simp

structure NameFacts (d : ElfDesc) : Prop where
  ok : ∃ (hlt : d.shstrndx < d.sections.length) (body : Bytes), (d.sections[d.shstrndx]).body = some body ∧
      ∀ s ∈ d.sections, firstNul (body.drop s.nameOff) = some s.name

/-- a description without a name table: every section is nameless -/
theorem names_empty {d : ElfDesc} (h : d.namesOk = true) (hz : d.shstrndx = 0) :
    ∀ s ∈ d.sections, s.name = [] := by
  unfold ElfDesc.namesOk at h
  simp only [hz, beq_self_eq_true, if_true, List.all_eq_true, List.isEmpty_iff] at h
  exact h

/-- (hypothesis `hnz` added with the repair of `no-name-table`: with `e_shstrndx` = SHN_UNDEF there is
    no table, see `names_empty`) -/
theorem name_facts {d : ElfDesc} (h : d.namesOk = true) (hn : 0 < d.sections.length)
    (hnz : d.shstrndx ≠ 0) : NameFacts d := by
  unfold ElfDesc.namesOk at h
  have hne : (d.shstrndx == 0) = false := by simpa using hnz
  simp only [hne, Bool.false_eq_true, if_false] at h
  cases hs : d.sections[d.shstrndx]? with
  | none =>
    simp only [hs] at h
    have : d.sections = [] := by simpa using h
    rw [this] at hn; simp at hn
  | some st =>
    obtain ⟨hlt, rfl⟩ := List.getElem?_eq_some_iff.1 hs
    simp only [hs] at h
    cases hb : (d.sections[d.shstrndx]).body with
    | none => simp [hb] at h
    | some body =>
      simp only [hb, List.all_eq_true, beq_iff_eq] at h
      exact ⟨hlt, body, hb, h⟩

/-- STATEMENT CHANGED with the repair of `no-name-table` (`getSectionName` consults `get_shstrndx()`
    when there is no table object): any `shstr` that `ELFFile()` can have left behind (`ShstrOk`). -/
theorem getSectionName_ok {env : Env} {d : ElfDesc} {bytes : Bytes} {hdr : Val} {shstr : Option Val}
    (hw : WfFacts env d) (hL : LayoutFacts d bytes) (hf : HdrFacts d hdr) (hst : ShstrOk env d shstr)
    {i : Nat} (hi : i < d.sections.length) {h : Val} (hsf : SecFacts (d.sections[i]) h) :
    getSectionName env d.S bytes hdr shstr (some h) = .ok (d.sections[i]).name := by
  rcases hst with ⟨hz, rfl⟩ | ⟨hnz, st, rfl, hst⟩
  · -- no name table: the empty name
    rw [names_empty hw.names hz _ (List.getElem_mem hi)]
    unfold getSectionName
    simp only [getShstrndx_ok hw hL hf, hz, bind, Except.bind]
    rfl
  obtain ⟨hlt, body, hbody, hall⟩ := (name_facts hw.names (by omega) hnz).ok
  obtain ⟨_, hstd⟩ := decHdr_some hst
  obtain ⟨b, hb, -⟩ := hL.shdr _ hlt
  have hstf := sec_facts hb hstd
  have hread := hL.body _ (List.getElem_mem hlt) body hbody
  have hname := hall _ (List.getElem_mem hi)
  have hoff := hw.nameoff hnz _ (List.getElem?_eq_getElem hlt) _ (List.getElem_mem hi)
  unfold getSectionName subscript
  have h1 : (do let x ← h.getField "sh_name"; x.asNat) = h.getNat "sh_name" := rfl
  simp only [bind, Except.bind] at h1 ⊢
  have hnm := hsf.nat "sh_name" (by simp [shdrNatKeys])
  rw [hsf.name] at hnm
  simp only [Val.getNat, bind, Except.bind] at hnm
  cases hg : h.getField "sh_name" with
  | error e => simp [hg] at hnm
  | ok x =>
    simp only [hg] at hnm ⊢
    rw [hnm]
    simp only
    unfold getString
    rw [hstf.nat "sh_offset" (by simp [shdrNatKeys]),
      hstf.raw "sh_offset" (by simp [shdrNatKeys]) (by decide)]
    simp only [bind, Except.bind]
    unfold parseCStringAt seekCheck
    have : ¬ (getNatD (d.sections[d.shstrndx]).hdr "sh_offset" + (d.sections[i]).nameOff ≥ 2 ^ 63) := by omega
    simp only [this, if_false, bind, Except.bind]
    rw [parseCStringFromStream_eq]
    have hd := drop_of_readN hread
    rw [← List.drop_drop, hd, List.drop_append, firstNul_append_of_some _ hname]
    rfl

/-! ### sizes the constructors consult -/

theorem rel_sizeof (c : ElfCfg) (hc : c.cls = 32 ∨ c.cls = 64) :
    (elfStructs c).Elf_Rel.sizeof = some (2 * (c.cls / 8)) ∧
    (elfStructs c).Elf_Rela.sizeof = some (3 * (c.cls / 8)) := by
  obtain ⟨le, cls, m, sol, core⟩ := c
  simp only at hc
  rcases hc with rfl | rfl
  · simp [elfStructs, st, mkFields, f, Con.sizeof, ConFields.sizeof]
  · by_cases hm : m = "EM_MIPS"
    · subst hm
      simp [elfStructs, st, mkFields, f, Con.sizeof, ConFields.sizeof]
    · simp [elfStructs, st, mkFields, f, Con.sizeof, ConFields.sizeof, hm]

theorem relr_sizeof (c : ElfCfg) : (elfStructs c).Elf_Relr.sizeof = some (c.cls / 8) := by
  simp [elfStructs, st, mkFields, f, Con.sizeof, ConFields.sizeof]

theorem dyn_sizeof (c : ElfCfg) : ∃ n, (elfStructs c).Elf_Dyn.sizeof = some n := by
  exact ⟨_, by simp [elfStructs, st, mkFields, f, Con.sizeof, ConFields.sizeof, enumOf]; rfl⟩

theorem word_sizeof (c : ElfCfg) : (elfStructs c).Elf_word.sizeof = some 4 := rfl
theorem xword_sizeof (c : ElfCfg) : (elfStructs c).Elf_xword.sizeof = some (c.cls / 8) := rfl

theorem sym_sizeof (c : ElfCfg) : ∃ n, (elfStructs c).Elf_Sym.sizeof = some n := by
  obtain ⟨le, cls, m, sol, core⟩ := c
  by_cases h : cls = 32
  · subst h; exact ⟨_, by simp [elfStructs, st, mkFields, f, Con.sizeof, ConFields.sizeof, enumOf]; rfl⟩
  · exact ⟨_, by simp [elfStructs, st, mkFields, f, Con.sizeof, ConFields.sizeof, enumOf, h]; rfl⟩

theorem phdr_fixed (c : ElfCfg) : (elfStructs c).Elf_Phdr.fixed = true := by
  obtain ⟨le, cls, m, sol, core⟩ := c
  by_cases h : cls = 32
  · subst h; rfl
  · simp only [elfStructs, h]; rfl

/-! ### `_make_section`, split into named pieces -/

section pieces
variable (env : Env) (S : ElfStructs) (data : Bytes) (hdr : Val) (shstr : Option Val) (fuel : Nat)

def linkedStrtabR (link : Nat) : R Unit := do
  let h ← getSectionHeader env S data hdr link
  let t ← subscript h "sh_type"
  if !isStr t "SHT_STRTAB" then throw .elfError
  let _ ← makeSection env S data hdr shstr fuel h
  return ()

def linkedSymtabR (link : Nat) : R Unit := do
  let h ← getSectionHeader env S data hdr link
  let t ← subscript h "sh_type"
  if !(isStr t "SHT_SYMTAB" || isStr t "SHT_DYNSYM") then throw .elfError
  let _ ← makeSection env S data hdr shstr fuel h
  return ()

def kindR (sh ty : Val) (link : Nat) (name : Bytes) : R String :=
  let linkedStrtab := linkedStrtabR env S data hdr shstr fuel link
  let linkedSymtab := linkedSymtabR env S data hdr shstr fuel link
  let init := sectionInit env S data sh
  if isStr ty "SHT_STRTAB" then do init; return "StringTableSection"
  else if isStr ty "SHT_NULL" then do init; return "NullSection"
  else if isStr ty "SHT_SYMTAB" || isStr ty "SHT_DYNSYM" || isStr ty "SHT_SUNW_LDYNSYM" then do
    linkedStrtab; init
    let es ← sh.getNat "sh_entsize"
    if !(es > 0) then throw .elfError
    if (← sh.getNat "sh_size") % es != 0 then throw .elfError
    return "SymbolTableSection"
  else if isStr ty "SHT_SYMTAB_SHNDX" then do init; return "SymbolTableIndexSection"
  else if isStr ty "SHT_SUNW_syminfo" then do linkedSymtab; init; return "SUNWSyminfoTableSection"
  else if isStr ty "SHT_GNU_verneed" then do linkedStrtab; init; return "GNUVerNeedSection"
  else if isStr ty "SHT_GNU_verdef" then do linkedStrtab; init; return "GNUVerDefSection"
  else if isStr ty "SHT_GNU_versym" then do linkedSymtab; init; return "GNUVerSymSection"
  else if isStr ty "SHT_REL" || isStr ty "SHT_RELA" then do
    init
    let esz ← sizeofR (if isStr ty "SHT_RELA" then S.Elf_Rela else S.Elf_Rel)
    if (← sh.getNat "sh_entsize") != esz then throw .elfError
    return "RelocationSection"
  else if isStr ty "SHT_DYNAMIC" then do
    init
    let h ← getSectionHeader env S data hdr link
    match h with
    | none => throw .attributeError
    | some hh =>
      let t ← hh.getField "sh_type"
      if !(isStr t "SHT_STRTAB" || isStr t "SHT_NOBITS") then throw .elfError
      let _ ← makeSection env S data hdr shstr fuel h
      let _ ← sizeofR S.Elf_Dyn
      return "DynamicSection"
  else if isStr ty "SHT_NOTE" then do init; return "NoteSection"
  else if isStr ty "SHT_PROGBITS" && name == ".stab".toUTF8.toList then do init; return "StabSection"
  else if isStr ty "SHT_ARM_ATTRIBUTES" || isStr ty "SHT_RISCV_ATTRIBUTES" then do
    init
    let (fv, _) ← structParseAt env S.Elf_byte data (← sh.getNat "sh_offset")
    if (← fv.asInt) != 0x41 then throw .elfError
    return (if isStr ty "SHT_ARM_ATTRIBUTES" then "ARMAttributesSection" else "RISCVAttributesSection")
  else if isStr ty "SHT_HASH" then do
    linkedSymtab; init
    let _ ← structParseAt env S.Elf_Hash data (← sh.getNat "sh_offset")
    return "ELFHashSection"
  else if isStr ty "SHT_GNU_HASH" then do
    linkedSymtab; init
    let _ ← structParseAt env S.Gnu_Hash data (← sh.getNat "sh_offset")
    let _ ← sizeofR S.Elf_word
    let _ ← sizeofR S.Elf_xword
    return "GNUHashSection"
  else if isStr ty "SHT_RELR" then do
    init
    if (← sizeofR S.Elf_Relr) != (← sh.getNat "sh_entsize") then throw .elfError
    return "RelrRelocationSection"
  else do init; return "Section"

theorem makeSection_succ (sh : Val) :
    makeSection env S data hdr shstr (fuel + 1) (some sh) = (do
      let name ← getSectionName env S data hdr shstr (some sh)
      let ty ← sh.getField "sh_type"
      let link ← sh.getNat "sh_link"
      let k ← kindR env S data hdr shstr fuel sh ty link name
      return (k, name)) := by
  rw [makeSection]
  rfl

end pieces

theorem typeIn_str {h : Val} {t : String} (names : List String)
    (hty : h.getField "sh_type" = .ok (.str t)) : typeIn h names = names.contains t := by
  simp [typeIn, hty]

theorem typeIn_unpack {h : Val} {names : List String} (ht : typeIn h names = true) :
    ∃ t, h.getField "sh_type" = .ok (.str t) ∧ t ∈ names := by
  unfold typeIn at ht
  split at ht
  · rename_i t hty; exact ⟨t, hty, by simpa using ht⟩
  · cases ht

theorem typeIn_nonstr {h ty : Val} (names : List String) (hty : h.getField "sh_type" = .ok ty)
    (hns : ∀ t, ty ≠ .str t) : typeIn h names = false := by
  unfold typeIn
  split
  · rename_i t ht; rw [hty] at ht; cases ht; exact absurd rfl (hns t)
  · rfl

theorem isStr_nonstr {ty : Val} (hns : ∀ t, ty ≠ .str t) (s : String) : isStr ty s = false := by
  cases ty <;> simp [isStr]
  exact absurd rfl (hns _)

theorem linkIs_unpack {env : Env} {d : ElfDesc} {fuel link : Nat} {types : List String}
    (h : (match d.decHdr env link with
          | some lh => typeIn lh types && d.secOkZ env fuel link
          | none => false) = true) :
    ∃ lh t, d.decHdr env link = some lh ∧ lh.getField "sh_type" = .ok (.str t) ∧ t ∈ types ∧
      d.secOkZ env fuel link = true := by
  cases hl : d.decHdr env link with
  | none => simp [hl] at h
  | some lh =>
    simp only [hl, Bool.and_eq_true] at h
    obtain ⟨t, ht, hm⟩ := typeIn_unpack h.1
    exact ⟨lh, t, rfl, ht, hm, h.2⟩

/-- STATEMENT CHANGED with the repair of `no-name-table`: the last parameter is what `ELFFile()` left in
    `_section_header_stringtable` (`Option Val`: `none` for a file without a name table), no longer the
    header of a table that always exists; `hst` says which (`ShstrOk`).  The lemmas over a `Setup`
    below speak of `shstr` where they spoke of `some st`. -/
structure Setup (env : Env) (d : ElfDesc) (bytes : Bytes) (hdr : Val) (st : Option Val) : Prop where
  hw : WfFacts env d
  hL : LayoutFacts d bytes
  hf : HdrFacts d hdr
  hst : ShstrOk env d st

/-- induction hypothesis of the link recursion -/
def MakeOk (env : Env) (d : ElfDesc) (bytes : Bytes) (hdr : Val) (st : Option Val) (fuel : Nat) : Prop :=
  ∀ i h, d.secOkZ env fuel i = true → d.decHdr env i = some h →
    ∃ r, makeSection env d.S bytes hdr st fuel (some h) = .ok r

abbrev linkIsB (env : Env) (d : ElfDesc) (fuel link : Nat) (types : List String) : Bool :=
  match d.decHdr env link with
  | some lh => typeIn lh types && d.secOkZ env fuel link
  | none => false

theorem linkedStrtabR_ok {env : Env} {d : ElfDesc} {bytes : Bytes} {hdr : Val} {st : Option Val}
    (X : Setup env d bytes hdr st) {fuel : Nat} (IH : MakeOk env d bytes hdr st fuel) {link : Nat}
    (hl : linkIsB env d fuel link ["SHT_STRTAB"] = true) :
    linkedStrtabR env d.S bytes hdr st fuel link = .ok () := by
  obtain ⟨lh, t, hdec, hty, hm, hok⟩ := linkIs_unpack hl
  obtain ⟨r, hr⟩ := IH link lh hok hdec
  simp only [List.mem_cons, List.not_mem_nil, or_false] at hm
  subst hm
  unfold linkedStrtabR
  simp [getSectionHeader_ok X.hw X.hL X.hf hdec, subscript, hty, isStr, hr, bind, Except.bind, pure, Except.pure]

theorem linkedSymtabR_ok {env : Env} {d : ElfDesc} {bytes : Bytes} {hdr : Val} {st : Option Val}
    (X : Setup env d bytes hdr st) {fuel : Nat} (IH : MakeOk env d bytes hdr st fuel) {link : Nat}
    (hl : linkIsB env d fuel link ["SHT_SYMTAB", "SHT_DYNSYM"] = true) :
    linkedSymtabR env d.S bytes hdr st fuel link = .ok () := by
  obtain ⟨lh, t, hdec, hty, hm, hok⟩ := linkIs_unpack hl
  obtain ⟨r, hr⟩ := IH link lh hok hdec
  simp only [List.mem_cons, List.not_mem_nil, or_false] at hm
  unfold linkedSymtabR
  rcases hm with rfl | rfl <;>
  simp [getSectionHeader_ok X.hw X.hL X.hf hdec, subscript, hty, isStr, hr, bind, Except.bind, pure, Except.pure]

section branches
variable {env : Env} {S : ElfStructs} {data : Bytes} {hdr : Val} {shstr : Option Val} {fuel : Nat}
  {sh : Val} {link : Nat} {name : Bytes}

theorem kindR_nonstr {ty : Val} (hns : ∀ t, ty ≠ .str t)
    (hinit : sectionInit env S data sh = .ok ()) :
    kindR env S data hdr shstr fuel sh ty link name = .ok (kindOf ty name) := by
  have hk : kindOf ty name = "Section" := by
    unfold kindOf
    split <;> first | rfl | (exfalso; exact hns _ rfl)
  simp [kindR, isStr_nonstr hns, hinit, hk, bind, Except.bind, pure, Except.pure]

theorem kindR_simple {t : String} (ht : t ∈ ["SHT_STRTAB", "SHT_NULL", "SHT_SYMTAB_SHNDX", "SHT_NOTE"])
    (hinit : sectionInit env S data sh = .ok ()) :
    kindR env S data hdr shstr fuel sh (.str t) link name = .ok (kindOf (.str t) name) := by
  simp only [List.mem_cons, List.not_mem_nil, or_false] at ht
  rcases ht with rfl | rfl | rfl | rfl <;>
    simp [kindR, isStr, hinit, kindOf, bind, Except.bind, pure, Except.pure]

theorem kindR_symtab {t : String} (ht : t ∈ ["SHT_SYMTAB", "SHT_DYNSYM", "SHT_SUNW_LDYNSYM"])
    (hinit : sectionInit env S data sh = .ok ())
    (hlink : linkedStrtabR env S data hdr shstr fuel link = .ok ())
    {es sz : Nat} (hes : sh.getNat "sh_entsize" = .ok es) (hsz : sh.getNat "sh_size" = .ok sz)
    (h0 : 0 < es) (hmod : sz % es = 0) :
    kindR env S data hdr shstr fuel sh (.str t) link name = .ok (kindOf (.str t) name) := by
  simp only [List.mem_cons, List.not_mem_nil, or_false] at ht
  rcases ht with rfl | rfl | rfl <;>
    simp [kindR, isStr, hinit, hlink, hes, hsz, h0, hmod, kindOf, bind, Except.bind, pure, Except.pure]

theorem kindR_linkSym {t : String} (ht : t ∈ ["SHT_SUNW_syminfo", "SHT_GNU_versym"])
    (hinit : sectionInit env S data sh = .ok ())
    (hlink : linkedSymtabR env S data hdr shstr fuel link = .ok ()) :
    kindR env S data hdr shstr fuel sh (.str t) link name = .ok (kindOf (.str t) name) := by
  simp only [List.mem_cons, List.not_mem_nil, or_false] at ht
  rcases ht with rfl | rfl <;>
    simp [kindR, isStr, hinit, hlink, kindOf, bind, Except.bind, pure, Except.pure]

theorem kindR_linkStr {t : String} (ht : t ∈ ["SHT_GNU_verneed", "SHT_GNU_verdef"])
    (hinit : sectionInit env S data sh = .ok ())
    (hlink : linkedStrtabR env S data hdr shstr fuel link = .ok ()) :
    kindR env S data hdr shstr fuel sh (.str t) link name = .ok (kindOf (.str t) name) := by
  simp only [List.mem_cons, List.not_mem_nil, or_false] at ht
  rcases ht with rfl | rfl <;>
    simp [kindR, isStr, hinit, hlink, kindOf, bind, Except.bind, pure, Except.pure]

theorem kindR_rel (hinit : sectionInit env S data sh = .ok ())
    {es : Nat} (hes : sh.getNat "sh_entsize" = .ok es) (hsz : S.Elf_Rel.sizeof = some es) :
    kindR env S data hdr shstr fuel sh (.str "SHT_REL") link name = .ok (kindOf (.str "SHT_REL") name) := by
  simp [kindR, isStr, hinit, hes, sizeofR, hsz, kindOf, bind, Except.bind, pure, Except.pure]

theorem kindR_rela (hinit : sectionInit env S data sh = .ok ())
    {es : Nat} (hes : sh.getNat "sh_entsize" = .ok es) (hsz : S.Elf_Rela.sizeof = some es) :
    kindR env S data hdr shstr fuel sh (.str "SHT_RELA") link name = .ok (kindOf (.str "SHT_RELA") name) := by
  simp [kindR, isStr, hinit, hes, sizeofR, hsz, kindOf, bind, Except.bind, pure, Except.pure]

theorem kindR_relr (hinit : sectionInit env S data sh = .ok ())
    {es : Nat} (hes : sh.getNat "sh_entsize" = .ok es) (hsz : S.Elf_Relr.sizeof = some es) :
    kindR env S data hdr shstr fuel sh (.str "SHT_RELR") link name = .ok (kindOf (.str "SHT_RELR") name) := by
  simp [kindR, isStr, hinit, hes, sizeofR, hsz, kindOf, bind, Except.bind, pure, Except.pure]

theorem kindR_dynamic (hinit : sectionInit env S data sh = .ok ())
    {lh : Val} {t : String} (hget : getSectionHeader env S data hdr link = .ok (some lh))
    (hty : lh.getField "sh_type" = .ok (.str t)) (ht : t ∈ ["SHT_STRTAB", "SHT_NOBITS"])
    {r : String × Bytes} (hmk : makeSection env S data hdr shstr fuel (some lh) = .ok r)
    {n : Nat} (hdyn : S.Elf_Dyn.sizeof = some n) :
    kindR env S data hdr shstr fuel sh (.str "SHT_DYNAMIC") link name
      = .ok (kindOf (.str "SHT_DYNAMIC") name) := by
  simp only [List.mem_cons, List.not_mem_nil, or_false] at ht
  rcases ht with rfl | rfl <;>
    simp [kindR, isStr, hinit, hget, hty, hmk, sizeofR, hdyn, kindOf, bind, Except.bind, pure, Except.pure]

theorem kindR_progbits (hinit : sectionInit env S data sh = .ok ()) :
    kindR env S data hdr shstr fuel sh (.str "SHT_PROGBITS") link name
      = .ok (kindOf (.str "SHT_PROGBITS") name) := by
  unfold kindR kindOf
  generalize ".stab".toUTF8.toList = stab
  by_cases hn : name = stab
  · simp [isStr, hinit, hn, bind, Except.bind, pure, Except.pure]
  · have hn' : (name == stab) = false := by simpa using hn
    simp [isStr, hinit, hn, hn', bind, Except.bind, pure, Except.pure]

theorem kindR_attr {t : String} (ht : t ∈ ["SHT_ARM_ATTRIBUTES", "SHT_RISCV_ATTRIBUTES"])
    (hinit : sectionInit env S data sh = .ok ())
    {off p : Nat} (hoff : sh.getNat "sh_offset" = .ok off)
    (hp : structParseAt env S.Elf_byte data off = .ok (.int 0x41, p)) :
    kindR env S data hdr shstr fuel sh (.str t) link name = .ok (kindOf (.str t) name) := by
  simp only [List.mem_cons, List.not_mem_nil, or_false] at ht
  rcases ht with rfl | rfl <;>
    simp [kindR, isStr, hinit, hoff, hp, Val.asInt, kindOf, bind, Except.bind, pure, Except.pure]

theorem kindR_hash (hinit : sectionInit env S data sh = .ok ())
    (hlink : linkedSymtabR env S data hdr shstr fuel link = .ok ())
    {off : Nat} (hoff : sh.getNat "sh_offset" = .ok off) {r : Val × Nat}
    (hp : structParseAt env S.Elf_Hash data off = .ok r) :
    kindR env S data hdr shstr fuel sh (.str "SHT_HASH") link name = .ok (kindOf (.str "SHT_HASH") name) := by
  simp [kindR, isStr, hinit, hlink, hoff, hp, kindOf, bind, Except.bind, pure, Except.pure]

theorem kindR_gnuhash (hinit : sectionInit env S data sh = .ok ())
    (hlink : linkedSymtabR env S data hdr shstr fuel link = .ok ())
    {off : Nat} (hoff : sh.getNat "sh_offset" = .ok off) {r : Val × Nat}
    (hp : structParseAt env S.Gnu_Hash data off = .ok r)
    {n1 n2 : Nat} (h1 : S.Elf_word.sizeof = some n1) (h2 : S.Elf_xword.sizeof = some n2) :
    kindR env S data hdr shstr fuel sh (.str "SHT_GNU_HASH") link name
      = .ok (kindOf (.str "SHT_GNU_HASH") name) := by
  simp [kindR, isStr, hinit, hlink, hoff, hp, sizeofR, h1, h2, kindOf, bind, Except.bind, pure, Except.pure]

def knownTypes : List String :=
  ["SHT_STRTAB", "SHT_NULL", "SHT_SYMTAB", "SHT_DYNSYM", "SHT_SUNW_LDYNSYM", "SHT_SYMTAB_SHNDX",
   "SHT_SUNW_syminfo", "SHT_GNU_verneed", "SHT_GNU_verdef", "SHT_GNU_versym", "SHT_REL", "SHT_RELA",
   "SHT_DYNAMIC", "SHT_NOTE", "SHT_PROGBITS", "SHT_ARM_ATTRIBUTES", "SHT_RISCV_ATTRIBUTES", "SHT_HASH",
   "SHT_GNU_HASH", "SHT_RELR"]

theorem kindR_other {t : String} (ht : t ∉ knownTypes)
    (hinit : sectionInit env S data sh = .ok ()) :
    kindR env S data hdr shstr fuel sh (.str t) link name = .ok (kindOf (.str t) name) := by
  simp only [knownTypes, List.mem_cons, List.not_mem_nil, or_false, not_or] at ht
  obtain ⟨h1, h2, h3, h4, h5, h6, h7, h8, h9, h10, h11, h12, h13, h14, h15, h16, h17, h18, h19, h20⟩ := ht
  have hk : kindOf (.str t) name = "Section" := by
    unfold kindOf
    split <;> first | rfl | (exfalso; simp_all)
  simp [kindR, isStr, bind, Except.bind, pure, Except.pure, *]

end branches

/-! ### tables a constructor parses on sight -/

theorem arrayLoop_uint_ok (env : Env) (data : Bytes) (n : Nat) (le : Bool) (ctx : Fields) :
    ∀ (k pos : Nat) (acc : List Val), pos + k * n ≤ data.length →
      ∃ v, arrayLoop (fun p c => Con.parse env data (.uint n le) c p) k pos ctx acc
        = .ok (v, pos + k * n, ctx) := by
  intro k
  induction k with
  | zero => intro pos acc _; exact ⟨.list acc.reverse, by simp [arrayLoop]⟩
  | succ k ih =>
    intro pos acc h
    have hk : (k + 1) * n = n + k * n := by rw [Nat.succ_mul, Nat.add_comm]
    rw [hk] at h
    rw [arrayLoop, parse_uint_len (by omega)]
    simp only
    obtain ⟨v, hv⟩ := ih (pos + n) (Val.int (decNat le (readN data pos n)) :: acc) (by omega)
    exact ⟨v, by rw [hv, hk, Nat.add_assoc]⟩

theorem parse_array_ctx_uint {env : Env} {data : Bytes} {n : Nat} {le : Bool} {ctx : Fields} {key : String}
    {k pos : Nat} (hk : Fields.get? ctx key = some (.int (k : Int))) (h : pos + k * n ≤ data.length) :
    ∃ v, Con.parse env data (.array (.ctx key) (.uint n le)) ctx pos = .ok (v, pos + k * n, ctx) := by
  rw [Con.parse]
  simp only [Expr.eval, Fields.getR, hk, bind, Except.bind, Val.asInt, Int.toNat_natCast]
  exact arrayLoop_uint_ok env data n le ctx k pos [] h

theorem readN_of_prefix {data body rest : Bytes} {off a n : Nat} (hd : data.drop off = body ++ rest)
    (h : a + n ≤ body.length) : readN data (off + a) n = readN body a n := by
  unfold readN
  rw [← List.drop_drop, hd, List.drop_append, List.take_append]
  have : n - (body.drop a).length = 0 := by rw [List.length_drop]; omega
  rw [this]
  simp

def hashCon (le : Bool) : Con :=
  st [f "nbuckets" (.uint 4 le), f "nchains" (.uint 4 le), f "buckets" (.array (ctx "nbuckets") (.uint 4 le)),
      f "chains" (.array (ctx "nchains") (.uint 4 le))]

theorem hash_eq (c : ElfCfg) : (elfStructs c).Elf_Hash = hashCon c.le := rfl

theorem parse_hash_ok (env : Env) (le : Bool) (data : Bytes) (pos : Nat) (h8 : pos + 8 ≤ data.length)
    (h : pos + 8 + 4 * (decNat le (readN data pos 4) + decNat le (readN data (pos + 4) 4)) ≤ data.length) :
    ∃ r, structParse env (hashCon le) data pos = .ok r := by
  unfold structParse hashCon st
  simp only [mkFields, f, ctx]
  rw [Con.parse, Con.parseFields]
  simp only [Bool.false_eq_true, if_false, bind, Except.bind]
  rw [parse_uint_len (by omega)]
  simp only
  rw [Con.parseFields]
  simp only [Bool.false_eq_true, if_false, bind, Except.bind]
  rw [parse_uint_len (by omega)]
  simp only
  rw [Con.parseFields]
  simp only [Bool.false_eq_true, if_false, bind, Except.bind]
  generalize hv1 : decNat le (readN data pos 4) = v1 at h
  generalize hv2 : decNat le (readN data (pos + 4) 4) = v2 at h
  obtain ⟨a1, ha1⟩ := parse_array_ctx_uint (env := env) (data := data) (n := 4) (le := le)
    (ctx := Fields.set (Fields.set [] "nbuckets" (Val.int v1)) "nchains" (Val.int v2))
    (key := "nbuckets") (k := v1) (pos := pos + 4 + 4) (by simp [Fields.set, Fields.get?]) (by omega)
  rw [ha1]
  simp only
  rw [Con.parseFields]
  simp only [Bool.false_eq_true, if_false, bind, Except.bind]
  obtain ⟨a2, ha2⟩ := parse_array_ctx_uint (env := env) (data := data) (n := 4) (le := le)
    (ctx := Fields.set (Fields.set (Fields.set [] "nbuckets" (Val.int v1)) "nchains" (Val.int v2)) "buckets" a1)
    (key := "nchains") (k := v2) (pos := pos + 4 + 4 + v1 * 4) (by simp [Fields.set, Fields.get?]) (by omega)
  rw [ha2]
  simp only [Con.parseFields]
  exact ⟨_, rfl⟩

def gnuHashCon (le : Bool) (w : Nat) : Con :=
  st [f "nbuckets" (.uint 4 le), f "symoffset" (.uint 4 le), f "bloom_size" (.uint 4 le),
      f "bloom_shift" (.uint 4 le), f "bloom" (.array (ctx "bloom_size") (.uint w le)),
      f "buckets" (.array (ctx "nbuckets") (.uint 4 le))]

theorem gnuHash_eq (c : ElfCfg) : (elfStructs c).Gnu_Hash = gnuHashCon c.le (c.cls / 8) := rfl

theorem parse_gnuhash_ok (env : Env) (le : Bool) (w : Nat) (data : Bytes) (pos : Nat)
    (h16 : pos + 16 ≤ data.length)
    (h : pos + 16 + w * decNat le (readN data (pos + 8) 4) + 4 * decNat le (readN data pos 4) ≤ data.length) :
    ∃ r, structParse env (gnuHashCon le w) data pos = .ok r := by
  unfold structParse gnuHashCon st
  simp only [mkFields, f, ctx]
  rw [Con.parse, Con.parseFields]
  simp only [Bool.false_eq_true, if_false, bind, Except.bind]
  rw [parse_uint_len (by omega)]
  simp only
  rw [Con.parseFields]
  simp only [Bool.false_eq_true, if_false, bind, Except.bind]
  rw [parse_uint_len (by omega)]
  simp only
  rw [Con.parseFields]
  simp only [Bool.false_eq_true, if_false, bind, Except.bind]
  rw [parse_uint_len (by omega)]
  simp only
  rw [Con.parseFields]
  simp only [Bool.false_eq_true, if_false, bind, Except.bind]
  rw [parse_uint_len (by omega)]
  simp only
  rw [Con.parseFields]
  simp only [Bool.false_eq_true, if_false, bind, Except.bind]
  have e8 : pos + 4 + 4 = pos + 8 := by omega
  rw [e8]
  generalize hv0 : decNat le (readN data pos 4) = v0 at h
  generalize hv1 : decNat le (readN data (pos + 4) 4) = v1
  generalize hv2 : decNat le (readN data (pos + 8) 4) = v2 at h
  generalize hv3 : decNat le (readN data (pos + 8 + 4) 4) = v3
  obtain ⟨a1, ha1⟩ := parse_array_ctx_uint (env := env) (data := data) (n := w) (le := le)
    (ctx := Fields.set (Fields.set (Fields.set (Fields.set [] "nbuckets" (Val.int v0)) "symoffset" (Val.int v1))
      "bloom_size" (Val.int v2)) "bloom_shift" (Val.int v3))
    (key := "bloom_size") (k := v2) (pos := pos + 8 + 4 + 4) (by simp [Fields.set, Fields.get?])
    (by rw [Nat.mul_comm]; omega)
  rw [ha1]
  simp only
  rw [Con.parseFields]
  simp only [Bool.false_eq_true, if_false, bind, Except.bind]
  obtain ⟨a2, ha2⟩ := parse_array_ctx_uint (env := env) (data := data) (n := 4) (le := le)
    (ctx := Fields.set (Fields.set (Fields.set (Fields.set (Fields.set [] "nbuckets" (Val.int v0)) "symoffset" (Val.int v1))
      "bloom_size" (Val.int v2)) "bloom_shift" (Val.int v3)) "bloom" a1)
    (key := "nbuckets") (k := v0) (pos := pos + 8 + 4 + 4 + v2 * w) (by simp [Fields.set, Fields.get?])
    (by rw [Nat.mul_comm v2 w]; omega)
  rw [ha2]
  simp only [Con.parseFields]
  exact ⟨_, rfl⟩

/-- the `k`-th 32-bit word of a section body -/
def bodyWord (le : Bool) (body : Bytes) (k : Nat) : Nat := decNat le ((body.drop (4 * k)).take 4)

theorem bodyWord_eq {data body : Bytes} {off : Nat} (le : Bool) (hr : readN data off body.length = body)
    (k : Nat) (hk : 4 * k + 4 ≤ body.length) :
    decNat le (readN data (off + 4 * k) 4) = bodyWord le body k := by
  rw [readN_of_prefix (drop_of_readN hr) hk]; rfl

theorem structParseAt_hash {env : Env} {d : ElfDesc} {data body : Bytes} {off : Nat}
    (hr : readN data off body.length = body) (hoff : off < 2 ^ 63) (h8 : 8 ≤ body.length)
    (h : 8 + 4 * (bodyWord d.le body 0 + bodyWord d.le body 1) ≤ body.length) :
    ∃ r, structParseAt env d.S.Elf_Hash data off = .ok r := by
  have hle : off + body.length ≤ data.length := by
    rcases readN_le_length hr with h0 | h0
    · rw [h0] at h8; simp at h8
    · exact h0
  have e0 := bodyWord_eq d.le hr 0 (by omega)
  have e1 := bodyWord_eq d.le hr 1 (by omega)
  simp only [Nat.mul_zero, Nat.add_zero, Nat.mul_one] at e0 e1
  unfold structParseAt
  have : ¬ off ≥ 2 ^ 63 := by omega
  simp only [this, if_false]
  have hS : d.S.Elf_Hash = hashCon d.le := rfl
  rw [hS]
  obtain ⟨r, hr'⟩ := parse_hash_ok env d.le data off (by omega) (by rw [e0, e1]; omega)
  exact ⟨r, by simpa using hr'⟩

theorem structParseAt_gnuhash {env : Env} {d : ElfDesc} {data body : Bytes} {off : Nat}
    (hr : readN data off body.length = body) (hoff : off < 2 ^ 63) (h16 : 16 ≤ body.length)
    (h : 16 + d.cls / 8 * bodyWord d.le body 2 + 4 * bodyWord d.le body 0 ≤ body.length) :
    ∃ r, structParseAt env d.S.Gnu_Hash data off = .ok r := by
  have hle : off + body.length ≤ data.length := by
    rcases readN_le_length hr with h0 | h0
    · rw [h0] at h16; simp at h16
    · exact h0
  have e0 := bodyWord_eq d.le hr 0 (by omega)
  have e2 := bodyWord_eq d.le hr 2 (by omega)
  simp only [Nat.mul_zero, Nat.add_zero] at e0 e2
  unfold structParseAt
  have : ¬ off ≥ 2 ^ 63 := by omega
  simp only [this, if_false]
  have hS : d.S.Gnu_Hash = gnuHashCon d.le (d.cls / 8) := rfl
  rw [hS]
  obtain ⟨r, hr'⟩ := parse_gnuhash_ok env d.le (d.cls / 8) data off (by omega) (by rw [e0, e2]; omega)
  exact ⟨r, by simpa using hr'⟩

theorem structParseAt_attr {env : Env} {d : ElfDesc} {data body : Bytes} {off : Nat}
    (hr : readN data off body.length = body) (hoff : off < 2 ^ 63) (hh : body.head? = some 0x41) :
    ∃ p, structParseAt env d.S.Elf_byte data off = .ok (.int 0x41, p) := by
  cases body with
  | nil => simp at hh
  | cons b t =>
    simp only [List.head?_cons, Option.some.injEq] at hh
    subst hh
    have hd := drop_of_readN hr
    have hd1 : data.drop off = [0x41] ++ (t ++ data.drop (off + (0x41 :: t).length)) := by simpa using hd
    unfold structParseAt structParse
    have : ¬ off ≥ 2 ^ 63 := by omega
    simp only [this, if_false]
    have hS : d.S.Elf_byte = .uint 1 d.le := rfl
    rw [hS]
    simp only [bind, Except.bind, pure, Except.pure]
    rw [parse_uint_ok (n := 1) hd1 rfl, decNat_singleton]
    exact ⟨_, rfl⟩

section cond
variable {env : Env} {d : ElfDesc} {fuel : Nat} {s : SecDesc} {h : Val} {t : String}

theorem secCond_symtab (ht : t ∈ ["SHT_SYMTAB", "SHT_DYNSYM", "SHT_SUNW_LDYNSYM"])
    (hty : h.getField "sh_type" = .ok (.str t)) (hc : secCond env d fuel s h = true) :
    linkIsB env d fuel (fieldNat h "sh_link") ["SHT_STRTAB"] = true ∧ 0 < fieldNat h "sh_entsize" ∧
      fieldNat h "sh_size" % fieldNat h "sh_entsize" = 0 := by
  unfold secCond at hc
  simp only [typeIn_str _ hty] at hc
  simp only [List.mem_cons, List.not_mem_nil, or_false] at ht
  rcases ht with rfl | rfl | rfl <;> simpa [and_assoc] using hc

theorem secCond_linkSym (ht : t ∈ ["SHT_SUNW_syminfo", "SHT_GNU_versym"])
    (hty : h.getField "sh_type" = .ok (.str t)) (hc : secCond env d fuel s h = true) :
    linkIsB env d fuel (fieldNat h "sh_link") ["SHT_SYMTAB", "SHT_DYNSYM"] = true := by
  unfold secCond at hc
  simp only [typeIn_str _ hty] at hc
  simp only [List.mem_cons, List.not_mem_nil, or_false] at ht
  rcases ht with rfl | rfl <;> simpa using hc

theorem secCond_linkStr (ht : t ∈ ["SHT_GNU_verneed", "SHT_GNU_verdef"])
    (hty : h.getField "sh_type" = .ok (.str t)) (hc : secCond env d fuel s h = true) :
    linkIsB env d fuel (fieldNat h "sh_link") ["SHT_STRTAB"] = true := by
  unfold secCond at hc
  simp only [typeIn_str _ hty] at hc
  simp only [List.mem_cons, List.not_mem_nil, or_false] at ht
  rcases ht with rfl | rfl <;> simpa using hc

theorem secCond_rel (hty : h.getField "sh_type" = .ok (.str "SHT_REL")) (hc : secCond env d fuel s h = true) :
    fieldNat h "sh_entsize" = 2 * (d.cls / 8) := by
  unfold secCond at hc
  simp only [typeIn_str _ hty] at hc
  simpa using hc

theorem secCond_rela (hty : h.getField "sh_type" = .ok (.str "SHT_RELA")) (hc : secCond env d fuel s h = true) :
    fieldNat h "sh_entsize" = 3 * (d.cls / 8) := by
  unfold secCond at hc
  simp only [typeIn_str _ hty] at hc
  simpa using hc

theorem secCond_relr (hty : h.getField "sh_type" = .ok (.str "SHT_RELR")) (hc : secCond env d fuel s h = true) :
    fieldNat h "sh_entsize" = d.cls / 8 := by
  unfold secCond at hc
  simp only [typeIn_str _ hty] at hc
  simpa using hc

theorem secCond_dynamic (hty : h.getField "sh_type" = .ok (.str "SHT_DYNAMIC"))
    (hc : secCond env d fuel s h = true) :
    linkIsB env d fuel (fieldNat h "sh_link") ["SHT_STRTAB", "SHT_NOBITS"] = true := by
  unfold secCond at hc
  simp only [typeIn_str _ hty] at hc
  simpa using hc

theorem secCond_attr (ht : t ∈ ["SHT_ARM_ATTRIBUTES", "SHT_RISCV_ATTRIBUTES"])
    (hty : h.getField "sh_type" = .ok (.str t)) (hc : secCond env d fuel s h = true) :
    fieldNat h "sh_offset" < 2 ^ 63 ∧ (bodyOf s).head? = some 0x41 := by
  unfold secCond at hc
  simp only [typeIn_str _ hty] at hc
  simp only [List.mem_cons, List.not_mem_nil, or_false] at ht
  rcases ht with rfl | rfl <;> simpa using hc

theorem secCond_hash (hty : h.getField "sh_type" = .ok (.str "SHT_HASH")) (hc : secCond env d fuel s h = true) :
    linkIsB env d fuel (fieldNat h "sh_link") ["SHT_SYMTAB", "SHT_DYNSYM"] = true ∧
      fieldNat h "sh_offset" < 2 ^ 63 ∧ 8 ≤ (bodyOf s).length ∧
      8 + 4 * (bodyWord d.le (bodyOf s) 0 + bodyWord d.le (bodyOf s) 1) ≤ (bodyOf s).length := by
  unfold secCond at hc
  simp only [typeIn_str _ hty] at hc
  simpa [and_assoc, bodyWord] using hc

theorem secCond_gnuhash (hty : h.getField "sh_type" = .ok (.str "SHT_GNU_HASH"))
    (hc : secCond env d fuel s h = true) :
    linkIsB env d fuel (fieldNat h "sh_link") ["SHT_SYMTAB", "SHT_DYNSYM"] = true ∧
      fieldNat h "sh_offset" < 2 ^ 63 ∧ 16 ≤ (bodyOf s).length ∧
      16 + d.cls / 8 * bodyWord d.le (bodyOf s) 2 + 4 * bodyWord d.le (bodyOf s) 0 ≤ (bodyOf s).length := by
  unfold secCond at hc
  simp only [typeIn_str _ hty] at hc
  simpa [and_assoc, bodyWord] using hc

end cond

theorem body_read {d : ElfDesc} {bytes : Bytes} (hL : LayoutFacts d bytes) {i : Nat}
    (hi : i < d.sections.length) (hne : bodyOf (d.sections[i]) ≠ []) :
    readN bytes (getNatD (d.sections[i]).hdr "sh_offset") (bodyOf (d.sections[i])).length
      = bodyOf (d.sections[i]) := by
  cases hb : (d.sections[i]).body with
  | none => simp [bodyOf, hb] at hne
  | some b =>
    have := hL.body _ (List.getElem_mem hi) b hb
    simpa [bodyOf, hb] using this

theorem kindR_ok {env : Env} {d : ElfDesc} {bytes : Bytes} {hdr : Val} {st : Option Val}
    (X : Setup env d bytes hdr st) {fuel : Nat} (IH : MakeOk env d bytes hdr st fuel)
    {i : Nat} (hi : i < d.sections.length) {h : Val} (hsf : SecFacts (d.sections[i]) h)
    (hinit : sectionInit env d.S bytes h = .ok ()) (hc : secCond env d fuel (d.sections[i]) h = true)
    {ty : Val} (hty : h.getField "sh_type" = .ok ty) :
    kindR env d.S bytes hdr st fuel h ty (fieldNat h "sh_link") (d.sections[i]).name
      = .ok (kindOf ty (d.sections[i]).name) := by
  have hes := hsf.nat "sh_entsize" (by simp [shdrNatKeys])
  have hsz := hsf.nat "sh_size" (by simp [shdrNatKeys])
  have hoff := hsf.nat "sh_offset" (by simp [shdrNatKeys])
  have hoffraw := hsf.raw "sh_offset" (by simp [shdrNatKeys]) (by decide)
  by_cases hns : ∀ t, ty ≠ .str t
  · exact kindR_nonstr hns hinit
  · have : ∃ t, ty = .str t := by
      cases ty <;> first | exact ⟨_, rfl⟩ | (exfalso; apply hns; intro t ht; cases ht)
    obtain ⟨t, rfl⟩ := this
    by_cases hk : t ∈ knownTypes
    · simp only [knownTypes, List.mem_cons, List.not_mem_nil, or_false] at hk
      rcases hk with rfl | rfl | rfl | rfl | rfl | rfl | rfl | rfl | rfl | rfl | rfl | rfl | rfl | rfl | rfl |
        rfl | rfl | rfl | rfl | rfl
      · exact kindR_simple (by simp) hinit
      · exact kindR_simple (by simp) hinit
      · obtain ⟨h1, h2, h3⟩ := secCond_symtab (by simp) hty hc
        exact kindR_symtab (by simp) hinit (linkedStrtabR_ok X IH h1) hes hsz h2 h3
      · obtain ⟨h1, h2, h3⟩ := secCond_symtab (by simp) hty hc
        exact kindR_symtab (by simp) hinit (linkedStrtabR_ok X IH h1) hes hsz h2 h3
      · obtain ⟨h1, h2, h3⟩ := secCond_symtab (by simp) hty hc
        exact kindR_symtab (by simp) hinit (linkedStrtabR_ok X IH h1) hes hsz h2 h3
      · exact kindR_simple (by simp) hinit
      · exact kindR_linkSym (by simp) hinit (linkedSymtabR_ok X IH (secCond_linkSym (by simp) hty hc))
      · exact kindR_linkStr (by simp) hinit (linkedStrtabR_ok X IH (secCond_linkStr (by simp) hty hc))
      · exact kindR_linkStr (by simp) hinit (linkedStrtabR_ok X IH (secCond_linkStr (by simp) hty hc))
      · exact kindR_linkSym (by simp) hinit (linkedSymtabR_ok X IH (secCond_linkSym (by simp) hty hc))
      · rw [secCond_rel hty hc] at hes
        exact kindR_rel hinit hes (rel_sizeof d.cfg X.hw.cls).1
      · rw [secCond_rela hty hc] at hes
        exact kindR_rela hinit hes (rel_sizeof d.cfg X.hw.cls).2
      · obtain ⟨lh, t, hdec, hlty, hm, hok⟩ := linkIs_unpack (secCond_dynamic hty hc)
        obtain ⟨r, hr⟩ := IH _ lh hok hdec
        obtain ⟨n, hn⟩ := dyn_sizeof d.cfg
        exact kindR_dynamic hinit (getSectionHeader_ok X.hw X.hL X.hf hdec) hlty hm hr hn
      · exact kindR_simple (by simp) hinit
      · exact kindR_progbits hinit
      · obtain ⟨h1, h2⟩ := secCond_attr (by simp) hty hc
        have hne : bodyOf (d.sections[i]) ≠ [] := by intro e; rw [e] at h2; simp at h2
        obtain ⟨p, hp⟩ := structParseAt_attr (env := env) (d := d) (body_read X.hL hi hne)
          (by rw [← hoffraw]; exact h1) h2
        rw [hoffraw] at hoff
        exact kindR_attr (by simp) hinit hoff hp
      · obtain ⟨h1, h2⟩ := secCond_attr (by simp) hty hc
        have hne : bodyOf (d.sections[i]) ≠ [] := by intro e; rw [e] at h2; simp at h2
        obtain ⟨p, hp⟩ := structParseAt_attr (env := env) (d := d) (body_read X.hL hi hne)
          (by rw [← hoffraw]; exact h1) h2
        rw [hoffraw] at hoff
        exact kindR_attr (by simp) hinit hoff hp
      · obtain ⟨h1, h2, h3, h4⟩ := secCond_hash hty hc
        have hne : bodyOf (d.sections[i]) ≠ [] := by intro e; rw [e] at h3; simp at h3
        obtain ⟨r, hr⟩ := structParseAt_hash (env := env) (d := d) (body_read X.hL hi hne)
          (by rw [← hoffraw]; exact h2) h3 h4
        rw [hoffraw] at hoff
        exact kindR_hash hinit (linkedSymtabR_ok X IH h1) hoff hr
      · obtain ⟨h1, h2, h3, h4⟩ := secCond_gnuhash hty hc
        have hne : bodyOf (d.sections[i]) ≠ [] := by intro e; rw [e] at h3; simp at h3
        obtain ⟨r, hr⟩ := structParseAt_gnuhash (env := env) (d := d) (body_read X.hL hi hne)
          (by rw [← hoffraw]; exact h2) h3 h4
        rw [hoffraw] at hoff
        exact kindR_gnuhash hinit (linkedSymtabR_ok X IH h1) hoff hr (word_sizeof d.cfg) (xword_sizeof d.cfg)
      · rw [secCond_relr hty hc] at hes
        exact kindR_relr hinit hes (relr_sizeof d.cfg)
    · exact kindR_other hk hinit

theorem makeSection_ok {env : Env} {d : ElfDesc} {bytes : Bytes} {hdr : Val} {st : Option Val}
    (X : Setup env d bytes hdr st) :
    ∀ fuel i h, d.secOkZ env fuel i = true → d.decHdr env i = some h →
      ∃ (hi : i < d.sections.length) (ty : Val), h.getField "sh_type" = .ok ty ∧
        makeSection env d.S bytes hdr st fuel (some h)
          = .ok (kindOf ty (d.sections[i]).name, (d.sections[i]).name) := by
  intro fuel
  induction fuel with
  | zero => intro i h hok; simp [ElfDesc.secOkZ] at hok
  | succ fuel ih =>
    intro i h hok hdec
    have IH : MakeOk env d bytes hdr st fuel := by
      intro j hj hokj hdecj
      obtain ⟨_, _, _, hr⟩ := ih j hj hokj hdecj
      exact ⟨_, hr⟩
    obtain ⟨hi, h', fuel', hfu, hdec', hsf, hfl, hc⟩ := sec_bundle X.hw.cls X.hL hok
    rw [hdec] at hdec'
    cases hdec'
    cases hfu
    obtain ⟨ty, hty⟩ := hsf.ty
    refine ⟨hi, ty, hty, ?_⟩
    rw [makeSection_succ, getSectionName_ok X.hw X.hL X.hf X.hst hi hsf]
    simp only [bind, Except.bind, hty, hsf.nat "sh_link" (by simp [shdrNatKeys])]
    rw [kindR_ok X IH hi hsf hfl hc hty]
    rfl

/-! ### `get_section`, counts -/

theorem getSection_ok {env : Env} {d : ElfDesc} {bytes : Bytes} {hdr : Val} {st : Option Val}
    (X : Setup env d bytes hdr st) {i : Nat} (hi : i < d.sections.length) :
    ∃ h ty, d.decHdr env i = some h ∧ SecFacts (d.sections[i]) h ∧ h.getField "sh_type" = .ok ty ∧
      getSection env d.S bytes hdr st i
        = .ok (kindOf ty (d.sections[i]).name, (d.sections[i]).name, h) := by
  have hok := X.hw.secs i hi
  obtain ⟨_, h, _, _, hdec, hsf, _, _⟩ := sec_bundle X.hw.cls X.hL hok
  obtain ⟨_, ty, hty, hmk⟩ := makeSection_ok X 4 i h hok hdec
  refine ⟨h, ty, hdec, hsf, hty, ?_⟩
  unfold getSection
  simp only [getSectionHeader_ok X.hw X.hL X.hf hdec, hmk, bind, Except.bind]
  rfl

theorem numSections_ok {env : Env} {d : ElfDesc} {bytes : Bytes} {hdr : Val} (hw : WfFacts env d)
    (hL : LayoutFacts d bytes) (hf : HdrFacts d hdr) :
    numSections env d.S bytes hdr = .ok d.sections.length := by
  unfold numSections
  rw [hf.shoff, hf.shnum]
  simp only [bind, Except.bind]
  by_cases hn : d.sections.length = 0
  · simp [hn, pure, Except.pure]
  · have hpos : 0 < d.shoff := by
      rcases hw.shpos with h | h
      · exact absurd h hn
      · exact h.1
    have hne : ¬ d.shoff = 0 := by omega
    simp only [hn, if_false, hne]
    by_cases hx : (d.xShnum || decide (d.sections.length ≥ 0xff00)) = true
    · obtain ⟨s0, hs0, hsize⟩ := (esc_facts hw.esc).shnum hx
      obtain ⟨h0, rfl⟩ := List.getElem?_eq_some_iff.1 hs0
      obtain ⟨_, h, _, _, hdec, hsf, _, _⟩ := sec_bundle hw.cls hL (hw.secs 0 h0)
      simp only [hx, if_true]
      rw [getSectionHeader_ok hw hL hf hdec]
      have h1 : (do let x ← h.getField "sh_size"; x.asNat) = h.getNat "sh_size" := rfl
      simp only [bind, Except.bind] at h1
      simp only [subscript, h1]
      rw [hsf.nat "sh_size" (by simp [shdrNatKeys]), hsf.raw "sh_size" (by simp [shdrNatKeys]) (by decide), hsize]
    · simp only [hx, Bool.false_eq_true, if_false, hn]
      rfl

theorem numSegments_noesc {env : Env} {d : ElfDesc} {bytes : Bytes} {hdr : Val} {shstr : Option Val}
    (hf : HdrFacts d hdr) (hx : ¬ (d.xPhnum || decide (d.segments.length ≥ 0xffff)) = true) :
    numSegments env d.S bytes hdr shstr = .ok d.segments.length := by
  unfold numSegments
  rw [hf.phnum]
  have : d.segments.length < 0xffff := by
    simp only [Bool.or_eq_true, decide_eq_true_eq, not_or] at hx
    omega
  simp [hx, this, bind, Except.bind, pure, Except.pure]

theorem numSegments_esc {env : Env} {d : ElfDesc} {bytes : Bytes} {hdr : Val} {st : Option Val}
    (X : Setup env d bytes hdr st) (hx : (d.xPhnum || decide (d.segments.length ≥ 0xffff)) = true) :
    numSegments env d.S bytes hdr st = .ok d.segments.length := by
  unfold numSegments
  rw [X.hf.phnum]
  obtain ⟨s0, hs0, hinfo⟩ := (esc_facts X.hw.esc).phnum hx
  obtain ⟨h0, rfl⟩ := List.getElem?_eq_some_iff.1 hs0
  obtain ⟨h, ty, _, hsf, _, hget⟩ := getSection_ok X h0
  simp only [hx, if_true, bind, Except.bind, hget]
  rw [hsf.nat "sh_info" (by simp [shdrNatKeys]), hsf.raw "sh_info" (by simp [shdrNatKeys]) (by decide), hinfo]
  simp

theorem openElf_fields {env : Env} {d : ElfDesc} {bytes : Bytes} {hdr : Val} {f : ElfFile}
    (hw : WfFacts env d) (hL : LayoutFacts d bytes)
    (hd : d.S.Elf_Ehdr.decodeRaw env [] d.ehdrRaw = .ok hdr)
    (hopen : openElf env specSF specMC bytes = .ok f) :
    f.data = bytes ∧ f.cls = d.cls ∧ f.le = d.le ∧ f.S = d.S ∧ f.header = hdr := by
  obtain ⟨eh, he, hr⟩ := hL.ehdr
  have hf := hdr_facts he hd
  obtain ⟨p, hp⟩ := parse_ehdr_ok hL hd
  unfold openElf at hopen
  rw [identify_ok hw.cls he hr] at hopen
  simp only [bind, Except.bind, specSF, hp, cfgOfHeader_ok hd hw.cfg hf] at hopen
  have : elfStructs d.cfg = d.S := rfl
  rw [this, getShstrndx_ok hw hL hf] at hopen
  simp only at hopen
  by_cases hz : (d.shstrndx == 0) = true
  · simp only [hz, if_true, pure, Except.pure, Except.ok.injEq] at hopen
    subst hopen
    exact ⟨rfl, rfl, rfl, rfl, rfl⟩
  simp only [hz, Bool.false_eq_true, if_false] at hopen
  cases hg : getSectionHeader env d.S bytes hdr d.shstrndx with
  | error e => simp [hg] at hopen
  | ok o =>
    cases o with
    | none =>
      simp only [hg, pure, Except.pure, Except.ok.injEq] at hopen
      subst hopen
      exact ⟨rfl, rfl, rfl, rfl, rfl⟩
    | some st =>
      simp only [hg] at hopen
      cases hi : sectionInit env d.S bytes st with
      | error e => simp [hi] at hopen
      | ok u =>
        simp only [hi, pure, Except.pure, Except.ok.injEq] at hopen
        subst hopen
        exact ⟨rfl, rfl, rfl, rfl, rfl⟩

/-- everything the later theorems need from a successful open of a description with sections -/
theorem open_setup {env : Env} {d : ElfDesc} {bytes : Bytes} {hdr : Val} {f : ElfFile}
    (hw : WfFacts env d) (hL : LayoutFacts d bytes)
    (hd : d.S.Elf_Ehdr.decodeRaw env [] d.ehdrRaw = .ok hdr)
    (hopen : openElf env specSF specMC bytes = .ok f) (hn : 0 < d.sections.length) :
    ∃ st, Setup env d bytes hdr st ∧ f.shstr = st := by
  obtain ⟨eh, he, hr⟩ := hL.ehdr
  obtain ⟨st, hst, ho⟩ := openElf_ok_pos hw hL hd hn
  rw [ho] at hopen
  cases hopen
  exact ⟨st, ⟨hw, hL, hdr_facts he hd, hst⟩, rfl⟩

/-! ### the property theorems, over `specSF` / `specMC` -/

theorem getSection_obs {env : Env} {d : ElfDesc} {bytes : Bytes} {hdr : Val} {st : Option Val} {obs : ElfObs}
    (X : Setup env d bytes hdr st) (ho : d.observe env = .ok obs) {i : Nat}
    (hi : i < d.sections.length) (hi' : i < obs.sections.length) :
    getSection env d.S bytes hdr st i = .ok obs.sections[i] := by
  obtain ⟨h, ty, hdec, -, hty, hget⟩ := getSection_ok X hi
  obtain ⟨_, hdd⟩ := decHdr_some hdec
  obtain ⟨-, h2, -⟩ := observe_inv ho
  obtain ⟨-, hall⟩ := mapM_ok_inv _ _ _ h2
  have := hall i hi hi'
  unfold obsSec at this
  simp only [hdd, hty, bind, Except.bind, pure, Except.pure, Except.ok.injEq] at this
  rw [hget, this]

theorem counts_gen {env : Env} {d : ElfDesc} {bytes : Bytes} {obs : ElfObs} {f : ElfFile}
    (hw : WfFacts env d) (hl : Layout d bytes) (ho : d.observe env = .ok obs)
    (hf : openElf env specSF specMC bytes = .ok f) :
    numSections env f.S bytes f.header = .ok d.sections.length ∧
    numSegments env f.S bytes f.header f.shstr = .ok d.segments.length := by
  have hL := layout_facts hl
  have hd := (observe_inv ho).1
  obtain ⟨eh, he, -⟩ := hL.ehdr
  have hF := hdr_facts he hd
  obtain ⟨-, -, -, hS, hH⟩ := openElf_fields hw hL hd hf
  rw [hS, hH]
  refine ⟨numSections_ok hw hL hF, ?_⟩
  by_cases hx : (d.xPhnum || decide (d.segments.length ≥ 0xffff)) = true
  · obtain ⟨s0, hs0, -⟩ := (esc_facts hw.esc).phnum hx
    obtain ⟨h0, -⟩ := List.getElem?_eq_some_iff.1 hs0
    obtain ⟨st, X, hst⟩ := open_setup hw hL hd hf h0
    rw [hst]
    exact numSegments_esc X hx
  · exact numSegments_noesc hF hx

theorem get_section_gen {env : Env} {d : ElfDesc} {bytes : Bytes} {obs : ElfObs} {f : ElfFile}
    (hw : WfFacts env d) (hl : Layout d bytes) (ho : d.observe env = .ok obs)
    (hf : openElf env specSF specMC bytes = .ok f) (i : Nat) (hi : i < d.sections.length) :
    (getSection env f.S bytes f.header f.shstr i).toOption = obs.sections[i]? := by
  have hL := layout_facts hl
  have hd := (observe_inv ho).1
  obtain ⟨-, -, -, hS, hH⟩ := openElf_fields hw hL hd hf
  obtain ⟨st, X, hst⟩ := open_setup hw hL hd hf (by omega)
  have hlen : obs.sections.length = d.sections.length := (mapM_ok_inv _ _ _ (observe_inv ho).2.1).1
  have hi' : i < obs.sections.length := by omega
  rw [hS, hH, hst, getSection_obs X ho hi hi', List.getElem?_eq_getElem hi']
  rfl

theorem sections_gen {env : Env} {d : ElfDesc} {bytes : Bytes} {obs : ElfObs} {f : ElfFile}
    (hw : WfFacts env d) (hl : Layout d bytes) (ho : d.observe env = .ok obs)
    (hf : openElf env specSF specMC bytes = .ok f) :
    iterSections env f.S bytes f.header f.shstr = .ok obs.sections := by
  have hL := layout_facts hl
  have hd := (observe_inv ho).1
  have hlen : obs.sections.length = d.sections.length := (mapM_ok_inv _ _ _ (observe_inv ho).2.1).1
  unfold iterSections
  rw [(counts_gen hw hl ho hf).1]
  simp only [bind, Except.bind]
  obtain ⟨-, -, -, hS, hH⟩ := openElf_fields hw hL hd hf
  apply range_mapM_ok _ _ _ hlen
  intro i hi
  obtain ⟨st, X, hst⟩ := open_setup hw hL hd hf (by omega)
  rw [hS, hH, hst]
  exact getSection_obs X ho (by omega) hi

/-! ### program headers and segments -/

def phdrFields (c : ElfCfg) : ConFields :=
  let le := c.le
  let w := c.cls / 8
  let word := Con.uint 4 le
  let addr := Con.uint w le
  if c.cls = 32 then
    mkFields [f "p_type" (enumOf word (pTypeTable c.mclass)), f "p_offset" addr, f "p_vaddr" addr, f "p_paddr" addr,
        f "p_filesz" word, f "p_memsz" word, f "p_flags" word, f "p_align" word]
  else
    mkFields [f "p_type" (enumOf word (pTypeTable c.mclass)), f "p_flags" word, f "p_offset" addr, f "p_vaddr" addr,
        f "p_paddr" addr, f "p_filesz" addr, f "p_memsz" addr, f "p_align" addr]

theorem phdr_eq (c : ElfCfg) : (elfStructs c).Elf_Phdr = .struct (phdrFields c) := by
  simp only [elfStructs, phdrFields, st]
  split <;> rfl

theorem phdr_field_offset (c : ElfCfg) :
    fieldCon (phdrFields c) "p_offset" = some (.uint (c.cls / 8) c.le) := by
  unfold phdrFields
  split <;> simp [mkFields, f, fieldCon, fieldNames]

theorem phdr_field_type (c : ElfCfg) :
    fieldCon (phdrFields c) "p_type" = some (.enum (.uint 4 c.le) (pTypeTable c.mclass) true) := by
  unfold phdrFields
  split <;> simp [mkFields, f, fieldCon, fieldNames, enumOf]

theorem dS_phdr_fixed (d : ElfDesc) : d.S.Elf_Phdr.fixed = true := phdr_fixed d.cfg

structure SegFacts (ph : Val) : Prop where
  off : ∃ z : Nat, ph.getNat "p_offset" = .ok z
  ty : ∃ t, ph.getField "p_type" = .ok t

theorem seg_facts {env : Env} {d : ElfDesc} {p : Fields} {b : Bytes} {ph : Val}
    (he : d.S.Elf_Phdr.encodeRaw (.record p) = some b) (hd : d.S.Elf_Phdr.decodeRaw env [] (.record p) = .ok ph) :
    SegFacts ph := by
  have hS : d.S.Elf_Phdr = .struct (phdrFields d.cfg) := phdr_eq d.cfg
  rw [hS] at he hd
  constructor
  · obtain ⟨z, -, -, h2⟩ := uint_field (phdr_field_offset d.cfg) he hd
    exact ⟨z, getNat_of_getField h2⟩
  · obtain ⟨_, x, _, hx⟩ := struct_field_exists (phdr_field_type d.cfg) hd
    exact ⟨x, hx⟩

theorem getSegmentHeader_ok {env : Env} {d : ElfDesc} {bytes : Bytes} {hdr : Val} (hw : WfFacts env d)
    (hL : LayoutFacts d bytes) (hf : HdrFacts d hdr) {i : Nat} (hi : i < d.segments.length) {ph : Val}
    (hd : d.S.Elf_Phdr.decodeRaw env [] (.record d.segments[i]) = .ok ph) :
    getSegmentHeader env d.S bytes hdr i = .ok ph := by
  obtain ⟨b, hb, hr⟩ := hL.phdr i hi
  have hm : d.segments.length ≠ 0 := by omega
  have hsz := encodeRaw_length _ (dS_phdr_fixed d) _ _ hb
  have hle : b.length ≤ d.phentsize := by
    rcases hw.phent with h | h
    · exact absurd h hm
    · rw [hsz] at h; simpa using h
  have hpos : d.phoff + i * d.phentsize < 2 ^ 63 := by
    have := hw.phbound
    have : i * d.phentsize ≤ d.segments.length * d.phentsize := Nat.mul_le_mul_right _ (by omega)
    omega
  unfold getSegmentHeader segmentOffset sizeofR
  rw [hf.phentsize, hf.phoff, hsz]
  have hlt : ¬ d.phentsize < b.length := by omega
  simp only [bind, Except.bind, hlt, if_false, hm, pure, Except.pure]
  rw [structParseAt_layout env _ (dS_phdr_fixed d) _ b hb bytes _ hr hpos, hd]
  rfl

theorem segKind_eq (ty : Val) :
    (if isStr ty "PT_INTERP" then "InterpSegment"
     else if isStr ty "PT_DYNAMIC" then "DynamicSegment"
     else if isStr ty "PT_NOTE" then "NoteSegment" else "Segment") = segKindOf ty := by
  cases ty <;> simp [isStr, segKindOf]
  rename_i t
  by_cases h1 : t = "PT_INTERP"
  · subst h1; simp
  · by_cases h2 : t = "PT_DYNAMIC"
    · subst h2; simp
    · by_cases h3 : t = "PT_NOTE"
      · subst h3; simp
      · simp [h1, h2, h3]

theorem kindOf_dynamic {ty : Val} {name : Bytes} (h : kindOf ty name = "DynamicSection") :
    ty = .str "SHT_DYNAMIC" := by
  unfold kindOf at h
  split at h
  all_goals first | rfl | (simp at h; done) | (split at h <;> simp at h)

theorem find_ok {env : Env} {d : ElfDesc} {bytes : Bytes} {hdr : Val} {st : Option Val}
    (X : Setup env d bytes hdr st) (poff : Nat) :
    ∀ l : List Nat, (∀ i ∈ l, i < d.sections.length) →
      makeSegment.find env d.S bytes hdr st poff l = .ok () := by
  intro l
  induction l with
  | nil => intro _; rfl
  | cons i rest ih =>
    intro hall
    have hi := hall i (by simp)
    obtain ⟨h, ty, hdec, hsf, hty, hget⟩ := getSection_ok X hi
    rw [makeSegment.find]
    simp only [hget, bind, Except.bind]
    rw [hsf.nat "sh_offset" (by simp [shdrNatKeys])]
    simp only
    split
    · -- a DynamicSection at the segment's offset: its string table is fetched
      rename_i hcond
      simp only [Bool.and_eq_true, beq_iff_eq] at hcond
      have hok := X.hw.secs i hi
      obtain ⟨_, h', fuel', hfu, hdec', _, _, hc⟩ := sec_bundle X.hw.cls X.hL hok
      rw [hdec] at hdec'; cases hdec'
      have htd : ty = .str "SHT_DYNAMIC" := kindOf_dynamic hcond.1
      subst htd
      obtain ⟨lh, t, hldec, -, -, -⟩ := linkIs_unpack (secCond_dynamic hty hc)
      obtain ⟨hli, -⟩ := decHdr_some hldec
      obtain ⟨_, _, _, _, _, hget'⟩ := getSection_ok X hli
      rw [hsf.nat "sh_link" (by simp [shdrNatKeys])]
      simp only [hget', pure, Except.pure]
    · exact ih (fun j hj => hall j (by simp [hj]))

theorem makeSegment_ok {env : Env} {d : ElfDesc} {bytes : Bytes} {hdr : Val} {shstr : Option Val} {ph : Val}
    (hw : WfFacts env d) (hL : LayoutFacts d bytes) (hf : HdrFacts d hdr) (hsf : SegFacts ph)
    {ty : Val} (hty : ph.getField "p_type" = .ok ty)
    (hfind : ∀ poff, makeSegment.find env d.S bytes hdr shstr poff (List.range d.sections.length) = .ok ()) :
    makeSegment env d.S bytes hdr shstr ph = .ok (segKindOf ty) := by
  obtain ⟨z, hz⟩ := hsf.off
  obtain ⟨n1, hn1⟩ := dyn_sizeof d.cfg
  obtain ⟨n2, hn2⟩ := sym_sizeof d.cfg
  have hn1' : d.S.Elf_Dyn.sizeof = some n1 := hn1
  have hn2' : d.S.Elf_Sym.sizeof = some n2 := hn2
  unfold makeSegment
  rw [← segKind_eq]
  simp only [hty, bind, Except.bind]
  by_cases h1 : isStr ty "PT_INTERP" = true
  · simp [h1, pure, Except.pure]
  · by_cases h2 : isStr ty "PT_DYNAMIC" = true
    · simp [h1, h2, numSections_ok hw hL hf, hz, hfind, sizeofR, hn1', hn2', pure, Except.pure]
    · by_cases h3 : isStr ty "PT_NOTE" = true
      · simp [h1, h2, h3, pure, Except.pure]
      · simp [h1, h2, h3, pure, Except.pure]

theorem obsSeg_eq {env : Env} {d : ElfDesc} {p : Fields} {r : String × Val} (h : obsSeg env d p = .ok r) :
    ∃ ph ty, d.S.Elf_Phdr.decodeRaw env [] (.record p) = .ok ph ∧ ph.getField "p_type" = .ok ty ∧
      r = (segKindOf ty, ph) := by
  unfold obsSeg at h
  cases h1 : d.S.Elf_Phdr.decodeRaw env [] (.record p) with
  | error e => simp [h1, bind, Except.bind] at h
  | ok ph =>
    cases h2 : ph.getField "p_type" with
    | error e => simp [h1, h2, bind, Except.bind] at h
    | ok ty =>
      simp [h1, h2, bind, Except.bind, pure, Except.pure] at h
      exact ⟨ph, ty, rfl, h2, h.symm⟩

theorem segments_gen {env : Env} {d : ElfDesc} {bytes : Bytes} {obs : ElfObs} {f : ElfFile}
    (hw : WfFacts env d) (hl : Layout d bytes) (ho : d.observe env = .ok obs)
    (hf : openElf env specSF specMC bytes = .ok f) :
    iterSegments env f.S bytes f.header f.shstr = .ok obs.segments := by
  have hL := layout_facts hl
  have hd := (observe_inv ho).1
  obtain ⟨eh, he, -⟩ := hL.ehdr
  have hF := hdr_facts he hd
  obtain ⟨hlen, hall⟩ := mapM_ok_inv _ _ _ (observe_inv ho).2.2
  unfold iterSegments
  rw [(counts_gen hw hl ho hf).2]
  simp only [bind, Except.bind]
  obtain ⟨-, -, -, hS, hH⟩ := openElf_fields hw hL hd hf
  have hfind : ∀ poff, makeSegment.find env d.S bytes obs.header f.shstr poff
      (List.range d.sections.length) = .ok () := by
    intro poff
    by_cases hn : d.sections.length = 0
    · rw [hn]; rfl
    · obtain ⟨st, X, hst⟩ := open_setup hw hL hd hf (by omega)
      rw [hst]
      exact find_ok X poff _ (fun i hi => by simpa using hi)
  apply range_mapM_ok _ _ _ hlen
  intro i hi
  have hi' : i < d.segments.length := by omega
  obtain ⟨ph, ty, hdec, hty, hr⟩ := obsSeg_eq (hall i hi' hi)
  obtain ⟨b, hb, -⟩ := hL.phdr i hi'
  rw [hS, hH]
  unfold getSegment
  rw [getSegmentHeader_ok hw hL hF hi' hdec]
  simp only [bind, Except.bind]
  rw [makeSegment_ok hw hL hF (seg_facts hb hdec) hty hfind, hr]
  rfl

/-! ### a file without section headers

  Before the repair of `no-name-table`, `ELFFile()` read "section 0" of such a file from the file
  header's bytes (`ehdr_as_shdr` and the lemmas before it say that this parse succeeds; they are kept,
  nothing uses them any more): now `e_shstrndx` = SHN_UNDEF means "no name table" and nothing is read. -/

theorem and_0x800_of_testBit (x : Nat) (h : x.testBit 11 = false) : x &&& 0x800 = 0 := by
  apply Nat.eq_of_testBit_eq
  intro i
  rw [Nat.testBit_and, show (0x800 : Nat) = 2 ^ 11 from rfl, Nat.testBit_two_pow]
  by_cases hi : 11 = i
  · subst hi; simp [h]
  · simp [hi]

theorem and_0x800_small (x : Nat) (h : x < 256) : x &&& 0x800 = 0 :=
  and_0x800_of_testBit x (Nat.testBit_lt_two_pow (by omega))

theorem and_0x800_shift (x k : Nat) (hk : 12 ≤ k) : (x * 2 ^ k) &&& 0x800 = 0 := by
  apply and_0x800_of_testBit
  rw [Nat.testBit_mul_two_pow]
  have : ¬ k ≤ 11 := by omega
  simp [this]

theorem parse_shdr_any (env : Env) (c : ElfCfg) (data : Bytes) (hlen : 16 + 6 * (c.cls / 8) ≤ data.length) :
    ∃ v p, structParse env (elfStructs c).Elf_Shdr data 0 = .ok (v, p) ∧
      v.getNat "sh_flags" = .ok (decNat c.le (readN data 8 (c.cls / 8))) := by
  rw [shdr_eq]
  unfold structParse shdrFields
  simp only [mkFields, f, enumOf]
  generalize c.cls / 8 = w at hlen ⊢
  rw [Con.parse, Con.parseFields]
  simp only [Bool.false_eq_true, if_false, bind, Except.bind]
  rw [parse_uint_len (by omega)]
  simp only
  rw [Con.parseFields]
  simp only [Bool.false_eq_true, if_false, bind, Except.bind]
  obtain ⟨v1, hv1⟩ := parse_enum_uint_ok (env := env) (data := data) (pos := 0 + 4) (n := 4) (le := c.le)
    (ctx := Fields.set [] "sh_name" (Val.int (decNat c.le (readN data 0 4)))) (t := shTypeTable c.mclass) (by omega)
  rw [hv1]
  simp only
  rw [Con.parseFields]
  simp only [Bool.false_eq_true, if_false, bind, Except.bind]
  rw [parse_uint_len (by omega)]
  simp only
  rw [Con.parseFields]
  simp only [Bool.false_eq_true, if_false, bind, Except.bind]
  rw [parse_uint_len (by omega)]
  simp only
  rw [Con.parseFields]
  simp only [Bool.false_eq_true, if_false, bind, Except.bind]
  rw [parse_uint_len (by omega)]
  simp only
  rw [Con.parseFields]
  simp only [Bool.false_eq_true, if_false, bind, Except.bind]
  rw [parse_uint_len (by omega)]
  simp only
  rw [Con.parseFields]
  simp only [Bool.false_eq_true, if_false, bind, Except.bind]
  rw [parse_uint_len (by omega)]
  simp only
  rw [Con.parseFields]
  simp only [Bool.false_eq_true, if_false, bind, Except.bind]
  rw [parse_uint_len (by omega)]
  simp only
  rw [Con.parseFields]
  simp only [Bool.false_eq_true, if_false, bind, Except.bind]
  rw [parse_uint_len (by omega)]
  simp only
  rw [Con.parseFields]
  simp only [Bool.false_eq_true, if_false, bind, Except.bind]
  rw [parse_uint_len (by omega)]
  simp only [Con.parseFields]
  refine ⟨_, _, rfl, ?_⟩
  simp [Val.getNat, Val.getField, Fields.getR, Fields.set, Fields.get?, bind, Except.bind, Val.asNat, Val.asInt]

theorem enc_len_one {le : Bool} {c : Con} (hc : c = .uint 1 le ∨ ∃ t p, c = .enum (.uint 1 le) t p)
    {v : Val} {a : Bytes} (h : c.encodeRaw v = some a) : ∃ b, a = [b] := by
  have hl : a.length = 1 := by
    rcases hc with rfl | ⟨t, p, rfl⟩
    · have := el_uint 1 le v a h
      simp [Con.sizeof] at this; omega
    · rw [Con.encodeRaw] at h
      have := el_uint 1 le v a h
      simp [Con.sizeof] at this; omega
  match a, hl with
  | [b], _ => exact ⟨b, rfl⟩

theorem ident_shape {d : ElfDesc} {a : Bytes}
    (ha : ConFields.encodeRaw (identFields d.le) (identRawFields d) = some a) :
    ∃ (x : Bytes) (b : UInt8), x.length = 8 ∧ a = x ++ b :: List.replicate 7 0 := by
  simp only [identFields, mkFields, f, anon, enumOf] at ha
  rw [ConFields.encodeRaw] at ha
  obtain ⟨a1, b1, ha1, hb1, rfl⟩ := bind2_eq_some ha
  rw [ConFields.encodeRaw] at hb1
  obtain ⟨a2, b2, ha2, hb2, rfl⟩ := bind2_eq_some hb1
  rw [ConFields.encodeRaw] at hb2
  obtain ⟨a3, b3, ha3, hb3, rfl⟩ := bind2_eq_some hb2
  rw [ConFields.encodeRaw] at hb3
  obtain ⟨a4, b4, ha4, hb4, rfl⟩ := bind2_eq_some hb3
  rw [ConFields.encodeRaw] at hb4
  obtain ⟨a5, b5, ha5, hb5, rfl⟩ := bind2_eq_some hb4
  rw [ConFields.encodeRaw] at hb5
  obtain ⟨a6, b6, ha6, hb6, rfl⟩ := bind2_eq_some hb5
  rw [ConFields.encodeRaw] at hb6
  obtain ⟨a7, b7, ha7, hb7, rfl⟩ := bind2_eq_some hb6
  have l1 : a1.length = 4 := by
    have := el_con (.array (lit 4) (.uint 1 d.le)) rfl _ _ ha1
    simp [Con.sizeof, lit, Expr.litNat?] at this; omega
  obtain ⟨x2, rfl⟩ := enc_len_one (Or.inr ⟨_, _, rfl⟩) ha2
  obtain ⟨x3, rfl⟩ := enc_len_one (Or.inr ⟨_, _, rfl⟩) ha3
  obtain ⟨x4, rfl⟩ := enc_len_one (Or.inr ⟨_, _, rfl⟩) ha4
  obtain ⟨x5, rfl⟩ := enc_len_one (Or.inr ⟨_, _, rfl⟩) ha5
  obtain ⟨x6, rfl⟩ := enc_len_one (Or.inl rfl) ha6
  have e7 : a7 = List.replicate 7 0 := by
    simp [Con.encodeRaw, lit, Expr.litNat?] at ha7; exact ha7.symm
  have e8 : b7 = [] := by simp [ConFields.encodeRaw] at hb7; exact hb7
  subst e7 e8
  exact ⟨a1 ++ [x2, x3, x4, x5], x6, by simp [l1], by simp⟩

theorem ehdr_sizeof (c : ElfCfg) : (elfStructs c).Elf_Ehdr.sizeof = some (40 + 3 * (c.cls / 8)) := by
  simp [elfStructs, st, mkFields, f, anon, Con.sizeof, ConFields.sizeof, enumOf, lit, Expr.litNat?]
  omega

theorem ehdr_shape {d : ElfDesc} {eh : Bytes} (he : d.S.Elf_Ehdr.encodeRaw d.ehdrRaw = some eh) :
    eh.length = 40 + 3 * (d.cls / 8) ∧
    ∃ (x : Bytes) (b : UInt8) (t : Bytes), x.length = 8 ∧ eh = x ++ b :: List.replicate 7 0 ++ t := by
  constructor
  · have := encodeRaw_length _ (dS_ehdr_fixed d) _ _ he
    rw [show d.S.Elf_Ehdr.sizeof = _ from ehdr_sizeof d.cfg] at this
    simp only [Option.some.injEq] at this
    exact this.symm
  · have hS : d.S.Elf_Ehdr = .struct (ehdrFields d.cfg) := rfl
    rw [hS, ehdrRaw_eq, Con.encodeRaw] at he
    simp only [ehdrFields, mkFields, f] at he
    rw [ConFields.encodeRaw] at he
    obtain ⟨a, b, ha, -, rfl⟩ := bind2_eq_some he
    have : Fields.get? (ehdrRawFields d) "e_ident" = some (.record (identRawFields d)) := by
      simp [ehdrRawFields, Fields.get?]
    rw [this] at ha
    simp only [Option.getD_some, Con.encodeRaw] at ha
    obtain ⟨x, b0, hx, rfl⟩ := ident_shape ha
    exact ⟨x, b0, b, hx, by simp⟩

theorem flags_of_ehdr_bytes (le : Bool) (b : UInt8) (w : Nat) (hw : w = 4 ∨ w = 8) :
    decNat le ((b :: List.replicate 7 0).take w) &&& 0x800 = 0 := by
  have hb := b.toNat_lt
  rcases hw with rfl | rfl <;> cases le
  · have : decNat false ((b :: List.replicate 7 0).take 4) = b.toNat * 2 ^ 24 := by
      simp [decNat, beNat, leNat, List.replicate]; omega
    rw [this]; exact and_0x800_shift _ _ (by omega)
  · have : decNat true ((b :: List.replicate 7 0).take 4) = b.toNat := by
      simp [decNat, leNat, List.replicate]
    rw [this]; exact and_0x800_small _ (by omega)
  · have : decNat false ((b :: List.replicate 7 0).take 8) = b.toNat * 2 ^ 56 := by
      simp [decNat, beNat, leNat, List.replicate]; omega
    rw [this]; exact and_0x800_shift _ _ (by omega)
  · have : decNat true ((b :: List.replicate 7 0).take 8) = b.toNat := by
      simp [decNat, leNat, List.replicate]
    rw [this]; exact and_0x800_small _ (by omega)

theorem ehdr_as_shdr {env : Env} {d : ElfDesc} {bytes eh : Bytes} (hcls : d.cls = 32 ∨ d.cls = 64)
    (he : d.S.Elf_Ehdr.encodeRaw d.ehdrRaw = some eh) (hr : readN bytes 0 eh.length = eh) :
    ∃ v p, structParseAt env d.S.Elf_Shdr bytes 0 = .ok (v, p) ∧ sectionInit env d.S bytes v = .ok () := by
  obtain ⟨hlen, x, b, t, hx, rfl⟩ := ehdr_shape he
  have hb := drop_of_readN hr
  simp only [List.drop_zero, Nat.zero_add] at hb
  have hbl : 40 + 3 * (d.cls / 8) ≤ bytes.length := by
    have := congrArg List.length hb
    rw [List.length_append, hlen] at this
    omega
  have hw : d.cls / 8 = 4 ∨ d.cls / 8 = 8 := by rcases hcls with h | h <;> simp [h]
  obtain ⟨v, p, hp, hfl⟩ := parse_shdr_any env d.cfg bytes (by
    show 16 + 6 * (d.cls / 8) ≤ bytes.length
    rcases hw with h | h <;> omega)
  have hread : readN bytes 8 (d.cls / 8) = (b :: List.replicate 7 0).take (d.cls / 8) := by
    unfold readN
    rw [hb]
    have : x ++ b :: List.replicate 7 0 ++ t ++ List.drop (x ++ b :: List.replicate 7 0 ++ t).length bytes
        = x ++ ((b :: List.replicate 7 0) ++ (t ++ List.drop (x ++ b :: List.replicate 7 0 ++ t).length bytes)) := by
      simp
    rw [this, List.drop_left' hx, List.take_append_of_le_length]
    rcases hw with h | h <;> simp [h]
  refine ⟨v, p, ?_, ?_⟩
  · unfold structParseAt
    simp only [show ¬ (0 ≥ 2 ^ 63) by omega, if_false]
    exact hp
  · unfold sectionInit
    have : d.cfg.le = d.le := rfl
    have hc : d.cfg.cls = d.cls := rfl
    rw [hfl, hc, this, hread]
    have hz := flags_of_ehdr_bytes d.le b _ hw
    simp only [bind, Except.bind, hz]
    rfl

theorem openElf_ok_zero {env : Env} {d : ElfDesc} {bytes : Bytes} {hdr : Val} (hw : WfFacts env d)
    (hL : LayoutFacts d bytes) (hd : d.S.Elf_Ehdr.decodeRaw env [] d.ehdrRaw = .ok hdr)
    (hn : d.sections.length = 0) : ∃ f, openElf env specSF specMC bytes = .ok f := by
  obtain ⟨eh, he, hr⟩ := hL.ehdr
  have hf := hdr_facts he hd
  obtain ⟨p, hp⟩ := parse_ehdr_ok hL hd
  unfold openElf
  rw [identify_ok hw.cls he hr]
  simp only [bind, Except.bind, specSF, hp, cfgOfHeader_ok hd hw.cfg hf]
  have : elfStructs d.cfg = d.S := rfl
  rw [this, getShstrndx_ok hw hL hf, hw.noshstr hn]
  exact ⟨_, rfl⟩

theorem open_gen {env : Env} {d : ElfDesc} {bytes : Bytes} {obs : ElfObs}
    (hw : WfFacts env d) (hl : Layout d bytes) (ho : d.observe env = .ok obs) :
    ∃ f, openElf env specSF specMC bytes = .ok f ∧
      f.data = bytes ∧ f.cls = d.cls ∧ f.le = d.le ∧ f.S = d.S ∧ f.header = obs.header := by
  have hL := layout_facts hl
  have hd := (observe_inv ho).1
  have hex : ∃ f, openElf env specSF specMC bytes = .ok f := by
    by_cases hn : d.sections.length = 0
    · exact openElf_ok_zero hw hL hd hn
    · obtain ⟨st, -, h⟩ := openElf_ok_pos hw hL hd (by omega)
      exact ⟨_, h⟩
  obtain ⟨f, hf⟩ := hex
  exact ⟨f, hf, openElf_fields hw hL hd hf⟩

/-! ### the assembler -/

theorem layOut_prefix : ∀ (rs : List (Nat × Bytes)) (acc : Bytes), ∃ ext, layOut rs acc = acc ++ ext := by
  intro rs
  induction rs with
  | nil => intro acc; exact ⟨[], by simp [layOut]⟩
  | cons r rs ih =>
    intro acc
    obtain ⟨off, b⟩ := r
    obtain ⟨ext, he⟩ := ih (acc ++ List.replicate (off - acc.length) 0 ++ b)
    exact ⟨List.replicate (off - acc.length) 0 ++ b ++ ext, by rw [layOut, he]; simp⟩

theorem readN_append_left {a ext : Bytes} {off n : Nat} (h : off + n ≤ a.length) :
    readN (a ++ ext) off n = readN a off n := by
  unfold readN
  rw [List.drop_append_of_le_length (by omega), List.take_append_of_le_length (by rw [List.length_drop]; omega)]

theorem layOut_reads : ∀ (rs : List (Nat × Bytes)) (acc : Bytes), regionsDisjoint rs = true →
    (∀ r ∈ rs.head?, acc.length ≤ r.1) →
    ∀ r ∈ rs, readN (layOut rs acc) r.1 r.2.length = r.2 := by
  intro rs
  induction rs with
  | nil => intro acc _ _ r hr; simp at hr
  | cons r0 rs ih =>
    intro acc hd hacc r hr
    obtain ⟨off, b⟩ := r0
    have hle : acc.length ≤ off := hacc (off, b) (by simp)
    have hlen : (acc ++ List.replicate (off - acc.length) 0 ++ b).length = off + b.length := by
      simp; omega
    rw [layOut]
    rcases List.mem_cons.1 hr with rfl | hr'
    · obtain ⟨ext, he⟩ := layOut_prefix rs (acc ++ List.replicate (off - acc.length) 0 ++ b)
      rw [he, readN_append_left (by rw [hlen]; simp)]
      unfold readN
      have : (acc ++ List.replicate (off - acc.length) 0).length = off := by simp; omega
      rw [List.drop_left' this]
      simp
    · apply ih _ ?_ ?_ r hr'
      · cases rs with
        | nil => rfl
        | cons r1 rs' =>
          obtain ⟨o1, b1⟩ := r1
          simp only [regionsDisjoint, Bool.and_eq_true] at hd
          exact hd.2
      · intro r1 hr1
        cases rs with
        | nil => simp at hr1
        | cons r1' rs' =>
          obtain ⟨o1, b1⟩ := r1'
          simp only [List.head?_cons, Option.mem_def, Option.some.injEq] at hr1
          subst hr1
          simp only [regionsDisjoint, Bool.and_eq_true, decide_eq_true_eq] at hd
          rw [hlen]; exact hd.1

theorem readN_append_right_pad {a ext : Bytes} {off : Nat} {b : Bytes}
    (h : readN a off b.length = b) : readN (a ++ ext) off b.length = b := by
  rcases readN_le_length h with h0 | h0
  · subst h0; simp [readN]
  · rw [readN_append_left h0, h]

theorem assemble_layout_gen {env : Env} {d : ElfDesc} {tail : Nat} {bytes : Bytes}
    (hw : WfFacts env d) (h : d.assemble tail = some bytes) : Layout d bytes := by
  obtain ⟨rs, hrs, hdisj⟩ := hw.disj
  unfold ElfDesc.assemble at h
  simp only [hrs, Option.bind_eq_bind, Option.bind_some, Option.pure_def, Option.some.injEq] at h
  subst h
  refine ⟨rs, hrs, ?_⟩
  intro r hr
  have hmem : r ∈ sortRegions rs := by
    unfold sortRegions
    exact (List.mergeSort_perm rs _).mem_iff.2 hr
  apply readN_append_right_pad
  exact layOut_reads (sortRegions rs) [] hdisj (fun _ _ => Nat.zero_le _) r hmem

/-! ### the property theorems for `wf` (C01) and for `wfZ` (compressed sections admitted) -/

section variants
variable {env : Env} {d : ElfDesc} {bytes : Bytes} {obs : ElfObs} {f : ElfFile}

theorem open_aux (hwf : d.wf env = true) (hl : Layout d bytes) (ho : d.observe env = .ok obs) :
    ∃ f, openElf env specSF specMC bytes = .ok f ∧
      f.data = bytes ∧ f.cls = d.cls ∧ f.le = d.le ∧ f.S = d.S ∧ f.header = obs.header :=
  open_gen (wf_facts hwf) hl ho

theorem open_aux_z (hwf : d.wfZ env = true) (hl : Layout d bytes) (ho : d.observe env = .ok obs) :
    ∃ f, openElf env specSF specMC bytes = .ok f ∧
      f.data = bytes ∧ f.cls = d.cls ∧ f.le = d.le ∧ f.S = d.S ∧ f.header = obs.header :=
  open_gen (wfZ_facts hwf) hl ho

theorem counts_aux (hwf : d.wf env = true) (hl : Layout d bytes) (ho : d.observe env = .ok obs)
    (hf : openElf env specSF specMC bytes = .ok f) :
    numSections env f.S bytes f.header = .ok d.sections.length ∧
    numSegments env f.S bytes f.header f.shstr = .ok d.segments.length :=
  counts_gen (wf_facts hwf) hl ho hf

theorem counts_aux_z (hwf : d.wfZ env = true) (hl : Layout d bytes) (ho : d.observe env = .ok obs)
    (hf : openElf env specSF specMC bytes = .ok f) :
    numSections env f.S bytes f.header = .ok d.sections.length ∧
    numSegments env f.S bytes f.header f.shstr = .ok d.segments.length :=
  counts_gen (wfZ_facts hwf) hl ho hf

theorem get_section_aux (hwf : d.wf env = true) (hl : Layout d bytes) (ho : d.observe env = .ok obs)
    (hf : openElf env specSF specMC bytes = .ok f) (i : Nat) (hi : i < d.sections.length) :
    (getSection env f.S bytes f.header f.shstr i).toOption = obs.sections[i]? :=
  get_section_gen (wf_facts hwf) hl ho hf i hi

theorem get_section_aux_z (hwf : d.wfZ env = true) (hl : Layout d bytes) (ho : d.observe env = .ok obs)
    (hf : openElf env specSF specMC bytes = .ok f) (i : Nat) (hi : i < d.sections.length) :
    (getSection env f.S bytes f.header f.shstr i).toOption = obs.sections[i]? :=
  get_section_gen (wfZ_facts hwf) hl ho hf i hi

theorem sections_aux (hwf : d.wf env = true) (hl : Layout d bytes) (ho : d.observe env = .ok obs)
    (hf : openElf env specSF specMC bytes = .ok f) :
    iterSections env f.S bytes f.header f.shstr = .ok obs.sections :=
  sections_gen (wf_facts hwf) hl ho hf

theorem sections_aux_z (hwf : d.wfZ env = true) (hl : Layout d bytes) (ho : d.observe env = .ok obs)
    (hf : openElf env specSF specMC bytes = .ok f) :
    iterSections env f.S bytes f.header f.shstr = .ok obs.sections :=
  sections_gen (wfZ_facts hwf) hl ho hf

theorem segments_aux (hwf : d.wf env = true) (hl : Layout d bytes) (ho : d.observe env = .ok obs)
    (hf : openElf env specSF specMC bytes = .ok f) :
    iterSegments env f.S bytes f.header f.shstr = .ok obs.segments :=
  segments_gen (wf_facts hwf) hl ho hf

theorem segments_aux_z (hwf : d.wfZ env = true) (hl : Layout d bytes) (ho : d.observe env = .ok obs)
    (hf : openElf env specSF specMC bytes = .ok f) :
    iterSegments env f.S bytes f.header f.shstr = .ok obs.segments :=
  segments_gen (wfZ_facts hwf) hl ho hf

theorem assemble_layout_aux {tail : Nat} (hwf : d.wf env = true) (h : d.assemble tail = some bytes) :
    Layout d bytes :=
  assemble_layout_gen (wf_facts hwf) h

theorem assemble_layout_aux_z {tail : Nat} (hwf : d.wfZ env = true) (h : d.assemble tail = some bytes) :
    Layout d bytes :=
  assemble_layout_gen (wfZ_facts hwf) h

end variants

end PyElf.Proofs
