/-
  Helper lemmas for C01 (model of elffile.py vs. abstract ELF descriptions).
-/
import PyElf.Model.ElfFile
import PyElf.Spec.ElfImage
import PyElf.Proofs.Fixed
namespace PyElf.Proofs
open PyElf PyElf.Spec PyElf.Model

end PyElf.Proofs
