/-
  C20, image level: every entry of an index/handler table pair laid out by the Spec encoder
  `Spec.Ehabi.encImage` is read back by the model of `EHABIInfo.get_entry` as the abstract entry
  prescribes (`exidx_roundtrip`).  Route: `getEntry_eq_std` (model = reference decoder on every image)
  and `decodeEntry_enc` (reference decoder on an encoded entry), plus the bookkeeping that locates
  the encoded words inside the image.
-/
import PyElf.Proofs.EhabiEntry
namespace PyElf.Proofs
open PyElf PyElf.Spec PyElf.Spec.Ehabi
open EhabiEntry

/-- file offset of the handler-table entry of `es[i]` when the entries are laid out from `tab0` -/
def tabOf (tab0 : Nat) (es : List Entry) (i : Nat) : Nat :=
  tab0 + 4 * ((es.take i).flatMap Entry.tableWords).length

namespace EhabiImage

/-- the words of the index table -/
def idxWords : Nat → List Entry → List Nat → List Nat
  | place, e :: es, t :: ts => encIndex e place t ++ idxWords (place + 8) es ts
  | _, _, _ => []

theorem encWords_length (le : Bool) (ws : List Nat) : (encWords le ws).length = 4 * ws.length := by
  induction ws with
  | nil => rfl
  | cons w ws ih =>
    have : encWords le (w :: ws) = encNat le 4 w ++ encWords le ws := by simp [encWords]
    rw [this, List.length_append, ih, encNat_length, List.length_cons]; omega

theorem encWords_append (le : Bool) (a b : List Nat) :
    encWords le (a ++ b) = encWords le a ++ encWords le b := by simp [encWords]

theorem encWords_cons (le : Bool) (w : Nat) (ws : List Nat) :
    encWords le (w :: ws) = encNat le 4 w ++ encWords le ws := by simp [encWords]

/-- the `j`-th word of an encoded word list embedded in a byte string -/
theorem wordAt_encWords (le : Bool) (a b : Bytes) (ws : List Nat) (hws : ∀ w ∈ ws, w < 2 ^ 32)
    (j : Nat) (hj : j < ws.length) :
    wordAt le (a ++ encWords le ws ++ b) (a.length + 4 * j) = ws[j]? := by
  have hw : ws[j] < 2 ^ 32 := hws _ (List.getElem_mem _)
  have e : encWords le ws
      = encWords le (ws.take j) ++ (encNat le 4 ws[j] ++ encWords le (ws.drop (j + 1))) := by
    conv => lhs; rw [← List.take_append_drop j ws, List.drop_eq_getElem_cons hj]
    rw [encWords_append, encWords_cons]
  have hl : (a ++ encWords le (ws.take j)).length = a.length + 4 * j := by
    rw [List.length_append, encWords_length, List.length_take, Nat.min_eq_left (Nat.le_of_lt hj)]
  have e2 : a ++ encWords le ws ++ b
      = (a ++ encWords le (ws.take j)) ++ (encNat le 4 ws[j] ++ (encWords le (ws.drop (j + 1)) ++ b)) := by
    rw [e]; simp only [List.append_assoc]
  rw [e2]
  unfold wordAt
  simp only
  rw [List.drop_left' hl, List.take_left' (encNat_length le 4 _), if_pos (encNat_length le 4 _),
    decNat_encNat_of_lt le (n := 4) hw, List.getElem?_eq_getElem hj]

theorem encExidxFrom_eq (le : Bool) : ∀ (es : List Entry) (ts : List Nat) (place : Nat),
    encExidxFrom le place es ts = encWords le (idxWords place es ts) := by
  intro es
  induction es with
  | nil => intro ts place; cases ts <;> rfl
  | cons e es ih =>
    intro ts place
    cases ts with
    | nil => rfl
    | cons t ts => rw [encExidxFrom, idxWords, encWords_append, ih]

theorem beWord3_lt (b0 b1 b2 : UInt8) : beWord [b0, b1, b2] < 2 ^ 24 := by
  have := b0.toNat_lt; have := b1.toNat_lt; have := b2.toNat_lt
  rw [beWord3]; omega

theorem beWord2_lt (b0 b1 : UInt8) : beWord [b0, b1] < 2 ^ 16 := by
  have := b0.toNat_lt; have := b1.toNat_lt
  rw [beWord2]; omega

theorem encIndex_pair (e : Entry) (p t : Nat) :
    ∃ a b, encIndex e p t = [a, b] ∧ a < 2 ^ 32 ∧ b < 2 ^ 32 := by
  cases e with
  | cantUnwind d => exact ⟨_, _, rfl, by have := encPrel31_lt d; omega, by decide⟩
  | inline d b0 b1 b2 =>
    exact ⟨_, _, rfl, by have := encPrel31_lt d; omega, by have := beWord3_lt b0 b1 b2; omega⟩
  | table d t' =>
    exact ⟨_, _, rfl, by have := encPrel31_lt d; omega,
      by have := encPrel31_lt ((t : Int) - ((p : Int) + 4)); omega⟩

theorem idxWords_length : ∀ (es : List Entry) (ts : List Nat) (place : Nat), ts.length = es.length →
    (idxWords place es ts).length = 2 * es.length := by
  intro es
  induction es with
  | nil => intro ts place h; cases ts <;> rfl
  | cons e es ih =>
    intro ts place h
    cases ts with
    | nil => simp at h
    | cons t ts =>
      obtain ⟨a, b, hab, -, -⟩ := encIndex_pair e place t
      rw [idxWords, hab, List.length_append, ih ts _ (by simpa using h)]
      simp only [List.length_cons, List.length_nil]; omega

theorem idxWords_lt : ∀ (es : List Entry) (ts : List Nat) (place : Nat),
    ∀ w ∈ idxWords place es ts, w < 2 ^ 32 := by
  intro es
  induction es with
  | nil => intro ts place w hw; cases ts <;> simp [idxWords] at hw
  | cons e es ih =>
    intro ts place w hw
    cases ts with
    | nil => simp [idxWords] at hw
    | cons t ts =>
      obtain ⟨a, b, hab, ha, hb⟩ := encIndex_pair e place t
      rw [idxWords, hab] at hw
      simp only [List.mem_append, List.mem_cons, List.not_mem_nil, or_false] at hw
      rcases hw with (rfl | rfl) | hw
      · exact ha
      · exact hb
      · exact ih ts _ w hw

theorem idxWords_get : ∀ (es : List Entry) (ts : List Nat) (place i : Nat) (e : Entry) (t : Nat),
    es[i]? = some e → ts[i]? = some t →
    (idxWords place es ts)[2 * i]? = (encIndex e (place + 8 * i) t)[0]? ∧
    (idxWords place es ts)[2 * i + 1]? = (encIndex e (place + 8 * i) t)[1]? := by
  intro es
  induction es with
  | nil => intro ts place i e t he; simp at he
  | cons e0 es ih =>
    intro ts place i e t he ht
    cases ts with
    | nil => simp at ht
    | cons t0 ts =>
      obtain ⟨a, b, hab, -, -⟩ := encIndex_pair e0 place t0
      cases i with
      | zero =>
        simp at he ht
        subst he; subst ht
        rw [idxWords]
        simp [hab]
      | succ i =>
        simp at he ht
        have := ih ts (place + 8) i e t he ht
        rw [idxWords, hab, show place + 8 * (i + 1) = place + 8 + 8 * i by omega,
          show 2 * (i + 1) = 2 * i + 1 + 1 by omega]
        simpa using this

theorem tableOffsets_length : ∀ (es : List Entry) (tab0 : Nat), (tableOffsets tab0 es).length = es.length := by
  intro es
  induction es with
  | nil => intro _; rfl
  | cons e es ih => intro tab0; simp [tableOffsets, ih]

/-- `tabOf tab0 es i` is the `i`-th element of `tableOffsets tab0 es` -/
theorem tableOffsets_get : ∀ (es : List Entry) (tab0 i : Nat), i < es.length →
    (tableOffsets tab0 es)[i]? = some (tabOf tab0 es i) := by
  intro es
  induction es with
  | nil => intro tab0 i h; simp at h
  | cons e es ih =>
    intro tab0 i h
    cases i with
    | zero => simp [tableOffsets, tabOf]
    | succ i =>
      rw [tableOffsets, List.getElem?_cons_succ, ih _ i (by simpa using h)]
      simp only [tabOf, List.take_succ_cons, List.flatMap_cons, List.length_append]
      congr 1; omega

theorem flatMap_take_length_le {α β} (f : α → List β) (l : List α) (i : Nat) :
    ((l.take i).flatMap f).length ≤ (l.flatMap f).length := by
  conv => rhs; rw [← List.take_append_drop i l, List.flatMap_append, List.length_append]
  omega

theorem tableWords_get : ∀ (es : List Entry) (i : Nat) (e : Entry) (j : Nat),
    es[i]? = some e → j < e.tableWords.length →
    (es.flatMap Entry.tableWords)[((es.take i).flatMap Entry.tableWords).length + j]? = e.tableWords[j]? := by
  intro es
  induction es with
  | nil => intro i e j he; simp at he
  | cons e0 es ih =>
    intro i e j he hj
    cases i with
    | zero =>
      simp at he; subst he
      simp only [List.take_zero, List.flatMap_nil, List.length_nil, Nat.zero_add, List.flatMap_cons]
      rw [List.getElem?_append_left hj]
    | succ i =>
      simp at he
      simp only [List.take_succ_cons, List.flatMap_cons, List.length_append]
      rw [Nat.add_assoc, List.getElem?_append_right (by omega), Nat.add_sub_cancel_left]
      exact ih i e j he hj

theorem beWord_lt {m : Bytes} (h : m.length = 4) : beWord m < 2 ^ 32 := by
  have := leNat_lt m.reverse
  rw [List.length_reverse, h] at this
  exact this

theorem tableWords_lt {e : Entry} (hwf : entryWf e = true) : ∀ w ∈ e.tableWords, w < 2 ^ 32 := by
  intro w hw
  cases e with
  | cantUnwind d => simp [Entry.tableWords] at hw
  | inline d b0 b1 b2 => simp [Entry.tableWords] at hw
  | table d t =>
    simp only [entryWf, Bool.and_eq_true] at hwf
    obtain ⟨-, hwt⟩ := hwf
    cases t with
    | generic p =>
      simp [Entry.tableWords, encTableEntry] at hw
      have := encPrel31_lt p; omega
    | su16 b0 b1 b2 =>
      simp [Entry.tableWords, encTableEntry] at hw
      have := beWord3_lt b0 b1 b2; omega
    | long idx b0 b1 more =>
      simp [tableEntryWf] at hwt
      obtain ⟨⟨hidx, hlen⟩, h4⟩ := hwt
      simp [Entry.tableWords, encTableEntry] at hw
      rcases hw with rfl | ⟨m, hm, rfl⟩
      · have := beWord2_lt b0 b1; omega
      · exact beWord_lt (h4 m hm)

theorem allTableWords_lt {es : List Entry} (hwf : es.all entryWf = true) :
    ∀ w ∈ es.flatMap Entry.tableWords, w < 2 ^ 32 := by
  intro w hw
  rw [List.mem_flatMap] at hw
  obtain ⟨e, he, hw⟩ := hw
  exact tableWords_lt (List.all_eq_true.1 hwf e he) w hw

/-- positive displacements do not wrap -/
theorem expand_nonneg {w p : Nat} (h : w % 2 ^ 31 < 2 ^ 30) (hp : p < 2 ^ 62) :
    expand w p = w % 2 ^ 31 + p := by
  unfold expand prel31 toSigned
  rw [if_pos (by simpa using h)]
  omega

theorem image_length (le : Bool) (pre gap rest : Bytes) (es : List Entry) :
    (encImage le pre gap rest es).length
      = pre.length + 8 * es.length + gap.length + 4 * (es.flatMap Entry.tableWords).length + rest.length := by
  unfold encImage
  simp only [encExidxFrom_eq, List.length_append, encWords_length,
    idxWords_length _ _ _ (tableOffsets_length es _)]
  omega

theorem image_index_word (le : Bool) (pre gap rest : Bytes) (es : List Entry) (k : Nat)
    (hk : k < 2 * es.length) :
    wordAt le (encImage le pre gap rest es) (pre.length + 4 * k)
      = (idxWords pre.length es
          (tableOffsets (pre.length + 8 * es.length + gap.length) es))[k]? := by
  unfold encImage
  simp only [encExidxFrom_eq]
  have := wordAt_encWords le pre (gap ++ encWords le (es.flatMap Entry.tableWords) ++ rest)
    (idxWords pre.length es (tableOffsets (pre.length + 8 * es.length + gap.length) es))
    (idxWords_lt _ _ _) k (by rw [idxWords_length _ _ _ (tableOffsets_length es _)]; exact hk)
  simpa only [List.append_assoc] using this

theorem image_table_word (le : Bool) (pre gap rest : Bytes) (es : List Entry)
    (hwf : es.all entryWf = true) (k : Nat) (hk : k < (es.flatMap Entry.tableWords).length) :
    wordAt le (encImage le pre gap rest es) (pre.length + 8 * es.length + gap.length + 4 * k)
      = (es.flatMap Entry.tableWords)[k]? := by
  unfold encImage
  simp only [encExidxFrom_eq]
  have hl : (pre ++ encWords le (idxWords pre.length es
      (tableOffsets (pre.length + 8 * es.length + gap.length) es)) ++ gap).length
      = pre.length + 8 * es.length + gap.length := by
    simp only [List.length_append, encWords_length, idxWords_length _ _ _ (tableOffsets_length es _)]
    omega
  have := wordAt_encWords le (pre ++ encWords le (idxWords pre.length es
      (tableOffsets (pre.length + 8 * es.length + gap.length) es)) ++ gap) rest
    (es.flatMap Entry.tableWords) (allTableWords_lt hwf) k hk
  rw [hl] at this
  exact this

end EhabiImage
open EhabiImage

/-- `tabOf tab0 es i` is the `i`-th member of the Spec's `tableOffsets tab0 es` -/
theorem tabOf_eq_tableOffsets (tab0 : Nat) (es : List Entry) (i : Nat) (hi : i < es.length) :
    (tableOffsets tab0 es)[i]? = some (tabOf tab0 es i) := tableOffsets_get es tab0 i hi

/-- Image-level round trip: for any list of well-formed abstract entries, either byte order and
    arbitrary surrounding bytes, the model of `EHABIInfo.get_entry(i)` run on the image produced by
    the Spec encoder returns exactly the observation prescribed for `es[i]` (function offset,
    personality, byte-code, table offset, flags). -/
theorem exidx_roundtrip (env : Env) (le : Bool) (pre gap rest : Bytes) (es : List Spec.Ehabi.Entry)
    (i : Nat) (hi : i < es.length)
    (hwf : es.all Spec.Ehabi.entryWf = true)
    (hsize : (Spec.Ehabi.encImage le pre gap rest es).length < 2 ^ 30) :
    Model.Ehabi.getEntry env (Spec.ehabiStructs le) (Spec.Ehabi.encImage le pre gap rest es)
        pre.length (8 * es.length) i
      = .ok (Spec.Ehabi.obsEntry es[i] (pre.length + 8 * i)
          (tabOf (pre.length + 8 * es.length + gap.length) es i)) := by
  have hlen := image_length le pre gap rest es
  have hoff := flatMap_take_length_le Entry.tableWords es i
  have hei : es[i]? = some es[i] := List.getElem?_eq_getElem hi
  have hwfe : entryWf es[i] = true := List.all_eq_true.1 hwf _ (List.getElem_mem hi)
  have hti := tableOffsets_get es (pre.length + 8 * es.length + gap.length) i hi
  obtain ⟨g0, g1⟩ := idxWords_get es _ pre.length i _ _ hei hti
  have h0 := image_index_word le pre gap rest es (2 * i) (by omega)
  have h1 := image_index_word le pre gap rest es (2 * i + 1) (by omega)
  rw [g0, show pre.length + 4 * (2 * i) = pre.length + 8 * i by omega] at h0
  rw [g1, show pre.length + 4 * (2 * i + 1) = pre.length + 8 * i + 4 by omega] at h1
  have hT : ∀ j, j < es[i].tableWords.length →
      wordAt le (encImage le pre gap rest es)
        (tabOf (pre.length + 8 * es.length + gap.length) es i + 4 * j) = es[i].tableWords[j]? := by
    intro j hj
    have hg := tableWords_get es i _ j hei hj
    have hk : ((es.take i).flatMap Entry.tableWords).length + j < (es.flatMap Entry.tableWords).length := by
      rw [List.getElem?_eq_getElem hj] at hg
      exact (List.getElem?_eq_some_iff.1 hg).1
    have := image_table_word le pre gap rest es hwf _ hk
    rw [hg] at this
    rw [← this, tabOf]
    congr 1; omega
  generalize htab : tabOf (pre.length + 8 * es.length + gap.length) es i = tab at *
  have htab_lt : tab < 2 ^ 30 := by rw [← htab, tabOf]; omega
  have htab_ge : pre.length + 8 * es.length ≤ tab := by rw [← htab, tabOf]; omega
  generalize encImage le pre gap rest es = image at *
  generalize hpl : pre.length + 8 * i = place at *
  have hplace : place + 8 < 2 ^ 30 := by omega
  have hd : dispOk ((tab : Int) - ((place : Int) + 4)) = true := by
    rw [dispOk_iff]; omega
  have hstd := getEntry_eq_std env le image pre.length (8 * es.length) i (by omega)
    (by rw [hpl]; omega)
    (by
      rw [hpl]
      intro w1 hw1
      rw [h1] at hw1
      cases he : es[i] with
      | cantUnwind d =>
        rw [he] at hw1; simp [encIndex] at hw1; subst hw1
        rw [expand_nonneg (by decide) (by omega)]; omega
      | inline d b0 b1 b2 =>
        rw [he] at hw1; simp [encIndex] at hw1; subst hw1
        have := beWord3_lt b0 b1 b2
        rw [expand_nonneg (by omega) (by omega)]; omega
      | table d t =>
        rw [he] at hw1; simp [encIndex] at hw1; subst hw1
        rw [expand_enc_tab hd (by omega)]; omega)
  rw [hpl] at hstd
  rw [hstd]
  have henc := decodeEntry_enc (wordAt le image) es[i] place tab hwfe hd (by omega) (by omega) h0 h1 hT
  cases hdec : decodeEntry (wordAt le image) place with
  | none => rw [hdec] at henc; simp at henc
  | some dcd =>
    rw [hdec] at henc
    simp only [Option.map_some, Option.some.injEq] at henc
    simp only [henc]

end PyElf.Proofs
