/-
  C13 helper lemmas: the mapping built from name pairs; encoded unit sequences.
-/
import PyElf.Proofs.DwarfTables
namespace PyElf.Proofs.Lookup
open PyElf PyElf.Spec.Lookup PyElf.Model.Lookup PyElf.Proofs

theorem encNameSets_length_ge (le : Bool) (sets : List NameSet) : sets.length ≤ (encNameSets le sets).length := by
  induction sets with
  | nil => simp [encNameSets]
  | cons s ss ih =>
    have : encNameSets le (s :: ss) = encNameSet le s ++ encNameSets le ss := by simp [encNameSets]
    rw [this, List.length_append, encNameSet_length]
    simp only [List.length_cons]; omega

/-! ### the mapping of a pair list -/

theorem assocSet_of_not_mem {V} (d : List (Bytes × V)) (k : Bytes) (v : V) (h : k ∉ d.map (·.1)) :
    assocSet d k v = d ++ [(k, v)] := by
  induction d with
  | nil => rfl
  | cons p d ih =>
    obtain ⟨k', v'⟩ := p
    simp only [List.map_cons, List.mem_cons, not_or] at h
    have hne : ¬ k' = k := fun e => h.1 e.symm
    simp [assocSet, hne, ih h.2]

theorem foldl_assocSet_nodup {V} : ∀ (ps d : List (Bytes × V)),
    (∀ p ∈ ps, p.1 ∉ d.map (·.1)) → (ps.map (·.1)).Nodup →
    ps.foldl (fun d p => assocSet d p.1 p.2) d = d ++ ps := by
  intro ps
  induction ps with
  | nil => intro d _ _; simp
  | cons p ps ih =>
    intro d hd hn
    rw [List.map_cons, List.nodup_cons] at hn
    rw [List.foldl_cons, assocSet_of_not_mem d p.1 p.2 (hd p List.mem_cons_self), ih]
    · simp
    · intro q hq
      simp only [List.map_append, List.map_cons, List.map_nil, List.mem_append, List.mem_singleton, not_or]
      refine ⟨hd q (List.mem_cons_of_mem _ hq), ?_⟩
      intro e
      exact hn.1 (e ▸ List.mem_map_of_mem hq)
    · exact hn.2

theorem mappingOf_nodup {V} (ps : List (Bytes × V)) (h : (ps.map (·.1)).Nodup) : mappingOf ps = ps := by
  unfold mappingOf
  rw [foldl_assocSet_nodup ps [] (by simp) h]; simp

theorem assocGet_assocSet {V} (d : List (Bytes × V)) (k k' : Bytes) (v : V) :
    assocGet? (assocSet d k v) k' = if k = k' then some v else assocGet? d k' := by
  induction d with
  | nil =>
    by_cases h : k = k' <;> simp [assocSet, assocGet?, h]
  | cons p d ih =>
    obtain ⟨k0, v0⟩ := p
    unfold assocSet
    by_cases h0 : k0 = k
    · subst h0
      by_cases h : k0 = k' <;> simp [assocGet?, h]
    · simp only [h0, if_false]
      by_cases h1 : k0 = k'
      · subst h1
        have : ¬ k = k0 := fun e => h0 e.symm
        simp [assocGet?, this]
      · have e1 : assocGet? ((k0, v0) :: assocSet d k v) k' = assocGet? (assocSet d k v) k' := by
          simp [assocGet?, h1]
        have e2 : assocGet? ((k0, v0) :: d) k' = assocGet? d k' := by simp [assocGet?, h1]
        rw [e1, e2, ih]

theorem assocGet_foldl {V} : ∀ (ps d : List (Bytes × V)) (k : Bytes),
    assocGet? (ps.foldl (fun d p => assocSet d p.1 p.2) d) k
      = match assocGet? ps.reverse k with
        | some v => some v
        | none => assocGet? d k := by
  intro ps
  induction ps with
  | nil => intro d k; simp [assocGet?]
  | cons p ps ih =>
    intro d k
    rw [List.foldl_cons, ih, assocGet_assocSet]
    have hrev : assocGet? (p :: ps).reverse k
        = match assocGet? ps.reverse k with
          | some v => some v
          | none => if p.1 = k then some p.2 else none := by
      simp only [assocGet?, List.reverse_cons, List.find?_append]
      cases h : List.find? (fun x => x.1 == k) ps.reverse with
      | some q => simp
      | none =>
        by_cases hk : p.1 = k <;> simp [hk]
    rw [hrev]
    cases h : assocGet? ps.reverse k with
    | some v => rfl
    | none =>
      by_cases hk : p.1 = k <;> simp [hk]

theorem assocGet_mappingOf {V} (ps : List (Bytes × V)) (k : Bytes) :
    assocGet? (mappingOf ps) k = assocGet? ps.reverse k := by
  unfold mappingOf
  rw [assocGet_foldl]
  cases assocGet? ps.reverse k <;> simp [assocGet?]


/-! ### encoded unit sequences -/

theorem parseFields_initlen64 {env : Env} {data : Bytes} {nm : String} {le : Bool} {rest : ConFields}
    {obj ctx : Fields} {pos : Nat} {bs bs2 tail : Bytes} (hd : data.drop pos = bs ++ (bs2 ++ tail))
    (hn : bs.length = 4) (hn2 : bs2.length = 8) (h : decNat le bs = 0xFFFFFFFF) :
    Con.parseFields env data (.cons (some nm) false (.initialLength le) rest) obj ctx pos
      = Con.parseFields env data rest (Fields.set obj nm (.int (decNat le bs2)))
          (Fields.set (Fields.set ctx "is64" (.bool true)) nm (.int (decNat le bs2))) (pos + 12) := by
  rw [Con.parseFields]
  simp [parse_initlen_64 hd hn hn2 h, bind, Except.bind]

/-- the embedded version switch of the unit header, for versions below 5 -/
theorem parseFields_cu_body4 {env : Env} {data : Bytes} {le : Bool} {n : Nat} {t5 : Con}
    {obj ctx : Fields} {pos ver ao asz : Nat} {rest : Bytes}
    (hctx : Fields.getR ctx "version" = .ok (.int ver)) (hver : ver < 5)
    (hd : data.drop pos = encNat le n ao ++ (encNat le 1 asz ++ rest)) (hao : ao < 256 ^ n) (hasz : asz < 256 ^ 1) :
    Con.parseFields env data
        (.cons none true (.ifThenElse (.ge (.ctx "version") (.lit 5)) t5
          (.struct (.cons (some "debug_abbrev_offset") false (.uint n le)
                   (.cons (some "address_size") false (.uint 1 le) .nil)))) .nil) obj ctx pos
      = .ok (Fields.set (Fields.set obj "debug_abbrev_offset" (.int ao)) "address_size" (.int asz), pos + n + 1,
             Fields.set (Fields.set ctx "debug_abbrev_offset" (.int ao)) "address_size" (.int asz)) := by
  have h1 := drop_add_of_drop hd
  simp only [encNat_length] at h1
  have hnot : ¬ ((ver : Int) ≥ 5) := by omega
  rw [Con.parseFields]
  simp only [if_true]
  rw [Con.parseEmb]
  simp only [Expr.eval, hctx, bind, Except.bind, Expr.cmp, Val.asInt, pure, Except.pure, Val.truthy, hnot,
    decide_false, Bool.false_eq_true, if_false]
  rw [Con.parseEmb, parseFields_uint hd (encNat_length le n ao), parseFields_uint h1 (encNat_length le 1 asz),
    Con.parseFields, decNat_encNat_of_lt le hao, decNat_encNat_of_lt le hasz]
  simp [Con.parseFields]


theorem cu_header_parse32 {env : Env} {data : Bytes} {off : Nat} {le : Bool} {ul ver ao asz : Nat} {rest : Bytes}
    (hd : data.drop off = encNat le 4 ul ++ (encNat le 2 ver ++ (encNat le 4 ao ++ (encNat le 1 asz ++ rest))))
    (hul : ul < 0xFFFFFF00) (hver : ver < 5) (hao : ao < 256 ^ 4) (hasz : asz < 256 ^ 1) :
    structParse env (Spec.dwarfStructs ⟨le, 32, 4, 2⟩).Dwarf_CU_header data off
      = .ok (.record [("unit_length", .int ul), ("version", .int ver), ("debug_abbrev_offset", .int ao),
                      ("address_size", .int asz)], off + 11) := by
  have h1 := drop_add_of_drop hd
  have h2 := drop_add_of_drop h1
  simp only [encNat_length] at h1 h2
  have e0 : decNat le (encNat le 4 ul) = ul := decNat_encNat_of_lt le (by omega)
  simp only [Spec.dwarfStructs, Spec.st, Spec.f, Spec.emb, Spec.mkFields, structParse, Spec.ctx, Spec.lit]
  rw [Con.parse, parseFields_initlen32 hd (encNat_length le 4 ul) (by rw [e0]; exact hul),
    parseFields_uint h1 (encNat_length le 2 ver), e0, decNat_encNat_of_lt le (show ver < 256 ^ 2 by omega),
    parseFields_cu_body4 (by simp [Fields.set, Fields.getR, Fields.get?]) hver h2 hao hasz]
  simp [bind, Except.bind, pure, Except.pure, Fields.set]

theorem cu_header_parse64 {env : Env} {data : Bytes} {off : Nat} {le : Bool} {ul ver ao asz : Nat} {rest : Bytes}
    (hd : data.drop off = encNat le 4 0xFFFFFFFF ++ (encNat le 8 ul ++ (encNat le 2 ver ++ (encNat le 8 ao ++
            (encNat le 1 asz ++ rest)))))
    (hul : ul < 256 ^ 8) (hver : ver < 5) (hao : ao < 256 ^ 8) (hasz : asz < 256 ^ 1) :
    structParse env (Spec.dwarfStructs ⟨le, 64, 4, 2⟩).Dwarf_CU_header data off
      = .ok (.record [("unit_length", .int ul), ("version", .int ver), ("debug_abbrev_offset", .int ao),
                      ("address_size", .int asz)], off + 23) := by
  have h1 := drop_add_of_drop hd
  have h2 := drop_add_of_drop h1
  have h3 := drop_add_of_drop h2
  simp only [encNat_length] at h1 h2 h3
  have h2' : data.drop (off + 12) = encNat le 2 ver ++ (encNat le 8 ao ++ (encNat le 1 asz ++ rest)) := h2
  have h3' : data.drop (off + 12 + 2) = encNat le 8 ao ++ (encNat le 1 asz ++ rest) := h3
  simp only [Spec.dwarfStructs, Spec.st, Spec.f, Spec.emb, Spec.mkFields, structParse, Spec.ctx, Spec.lit]
  rw [Con.parse, parseFields_initlen64 hd (encNat_length le 4 _) (encNat_length le 8 ul)
      (decNat_encNat_of_lt le (by decide)),
    parseFields_uint h2' (encNat_length le 2 ver), decNat_encNat_of_lt le hul,
    decNat_encNat_of_lt le (show ver < 256 ^ 2 by omega),
    parseFields_cu_body4 (by simp [Fields.set, Fields.getR, Fields.get?]) hver h3' hao hasz]
  simp [bind, Except.bind, pure, Except.pure, Fields.set]


/-- the unit object the library must build for `u` at section offset `off` -/
def cuOf (le : Bool) (off : Nat) (u : InfoUnit) : CU :=
  ⟨unitHdrVal le u, u.fmt, off, off + u.ilSize + (unitHdrRest le u).length⟩

/-- the pure parser of the model with the Spec bundles -/
abbrev specP (enumDecode : String → Int → Option String) (le : Bool) (dasz : Nat) (data : Bytes) : Nat → R CU :=
  parseCUAtOffset enumDecode (fun c => some (Spec.dwarfStructs c)) (Spec.dwarfStructs ⟨le, 32, dasz, 2⟩) le data

theorem wfUnit_lt5 {le : Bool} {u : InfoUnit} (h : wfUnit le u = true) (h5 : u.version < 5) :
    2 ≤ u.version ∧ (u.asz = 4 ∨ u.asz = 8) ∧ u.abbrevOff < 256 ^ u.offSize ∧
      (if u.fmt64 then unitLength le u < 256 ^ 8 else unitLength le u < 0xFFFFFF00) := by
  unfold wfUnit at h
  simp only [Bool.and_eq_true, decide_eq_true_eq, Bool.or_eq_true, beq_iff_eq] at h
  obtain ⟨⟨⟨⟨⟨⟨⟨h1, _⟩, h3⟩, h4⟩, _⟩, _⟩, _⟩, h8⟩ := h
  refine ⟨h1, h3, h4, ?_⟩
  cases hf : u.fmt64 <;> simp [hf] at h8 ⊢ <;> exact h8

theorem parseCU_encoded {enumDecode : String → Int → Option String} {le : Bool} {dasz off : Nat} {data rest : Bytes}
    {u : InfoUnit} (hwf : wfUnit le u = true) (h5 : u.version < 5)
    (hd : data.drop off = encUnit le u ++ rest) :
    specP enumDecode le dasz data off = .ok (cuOf le off u) := by
  obtain ⟨hv2, hasz, hao, hul⟩ := wfUnit_lt5 hwf h5
  have hasz' : u.asz < 256 ^ 1 := by rcases hasz with h | h <;> omega
  have hne : ¬ (u.asz ≠ 8 ∧ u.asz ≠ 4) := by rcases hasz with h | h <;> omega
  have hrest : unitHdrRest le u = encNat le 2 u.version ++ (encNat le u.offSize u.abbrevOff ++ encNat le 1 u.asz) := by
    simp [unitHdrRest, h5]
  cases hf : u.fmt64 with
  | false =>
    simp only [hf, Bool.false_eq_true, if_false] at hul
    have hos : u.offSize = 4 := by simp [InfoUnit.offSize, hf]
    rw [hos] at hao hrest
    have hd0 : data.drop off = encNat le 4 (unitLength le u) ++ (encNat le 2 u.version ++
        (encNat le 4 u.abbrevOff ++ (encNat le 1 u.asz ++ (u.body ++ rest)))) := by
      rw [hd]; simp [encUnit, encInitialLength, hf, hrest, List.append_assoc]
    have hhdr := cu_header_parse32 (env := { enumDecode := enumDecode, forms := (Spec.dwarfStructs ⟨le, 32, 4, 2⟩).form })
      hd0 hul h5 hao hasz'
    have hil : parseNat { enumDecode := enumDecode, forms := (Spec.dwarfStructs ⟨le, 32, dasz, 2⟩).form }
        (Spec.dwarfStructs ⟨le, 32, dasz, 2⟩).the_Dwarf_uint32 data off = .ok (unitLength le u, off + 4) := by
      have : (Spec.dwarfStructs ⟨le, 32, dasz, 2⟩).the_Dwarf_uint32 = .uint 4 le := by simp [Spec.dwarfStructs]
      rw [this]; exact parseNat_uint hd0 (by omega)
    have hnf : ¬ unitLength le u = 0xFFFFFFFF := by omega
    have g1 : ∀ (a b c : Val), (Val.record [("unit_length", a), ("version", b), ("debug_abbrev_offset", c),
        ("address_size", .int (u.asz : Int))]).getNat "address_size" = .ok u.asz := by
      intro a b c
      rw [getNat_skip _ _ _ _ (by decide), getNat_skip _ _ _ _ (by decide), getNat_skip _ _ _ _ (by decide), getNat_hit]
    have g2 : ∀ (a c d : Val), (Val.record [("unit_length", a), ("version", .int (u.version : Int)),
        ("debug_abbrev_offset", c), ("address_size", d)]).getNat "version" = .ok u.version := by
      intro a c d
      rw [getNat_skip _ _ _ _ (by decide), getNat_hit]
    have hvv : 2 ≤ u.version ∧ u.version ≤ 5 := by omega
    unfold specP parseCUAtOffset
    simp only [hil, bind, Except.bind, hnf, if_false, hhdr, g1, g2, hne, hvv, not_true_eq_false, and_self,
      pure, Except.pure]
    simp [cuOf, unitHdrVal, h5, InfoUnit.fmt, InfoUnit.ilSize, hf, hrest, encNat_length]
  | true =>
    simp only [hf, if_true] at hul
    have hos : u.offSize = 8 := by simp [InfoUnit.offSize, hf]
    rw [hos] at hao hrest
    have hd0 : data.drop off = encNat le 4 0xFFFFFFFF ++ (encNat le 8 (unitLength le u) ++ (encNat le 2 u.version ++
        (encNat le 8 u.abbrevOff ++ (encNat le 1 u.asz ++ (u.body ++ rest))))) := by
      rw [hd]; simp [encUnit, encInitialLength, hf, hrest, List.append_assoc]
    have hhdr := cu_header_parse64 (env := { enumDecode := enumDecode, forms := (Spec.dwarfStructs ⟨le, 64, 4, 2⟩).form })
      hd0 hul h5 hao hasz'
    have hil : parseNat { enumDecode := enumDecode, forms := (Spec.dwarfStructs ⟨le, 32, dasz, 2⟩).form }
        (Spec.dwarfStructs ⟨le, 32, dasz, 2⟩).the_Dwarf_uint32 data off = .ok (0xFFFFFFFF, off + 4) := by
      have : (Spec.dwarfStructs ⟨le, 32, dasz, 2⟩).the_Dwarf_uint32 = .uint 4 le := by simp [Spec.dwarfStructs]
      rw [this]; exact parseNat_uint hd0 (by decide)
    have g1 : ∀ (a b c : Val), (Val.record [("unit_length", a), ("version", b), ("debug_abbrev_offset", c),
        ("address_size", .int (u.asz : Int))]).getNat "address_size" = .ok u.asz := by
      intro a b c
      rw [getNat_skip _ _ _ _ (by decide), getNat_skip _ _ _ _ (by decide), getNat_skip _ _ _ _ (by decide), getNat_hit]
    have g2 : ∀ (a c d : Val), (Val.record [("unit_length", a), ("version", .int (u.version : Int)),
        ("debug_abbrev_offset", c), ("address_size", d)]).getNat "version" = .ok u.version := by
      intro a c d
      rw [getNat_skip _ _ _ _ (by decide), getNat_hit]
    have hvv : 2 ≤ u.version ∧ u.version ≤ 5 := by omega
    unfold specP parseCUAtOffset
    simp only [hil, bind, Except.bind, if_true, hhdr, g1, g2, hne, hvv, not_true_eq_false, and_self, if_false,
      pure, Except.pure]
    simp [cuOf, unitHdrVal, h5, InfoUnit.fmt, InfoUnit.ilSize, hf, hrest, encNat_length]


/-- a unit object records the offset it was parsed at -/
theorem parseCU_offset {enumDecode : String → Int → Option String} {structsOf : DwarfCfg → Option DwarfStructs}
    {S0 : DwarfStructs} {le : Bool} {data : Bytes} (o : Nat) (c : CU)
    (h : parseCUAtOffset enumDecode structsOf S0 le data o = .ok c) : c.cuOffset = o := by
  unfold parseCUAtOffset at h
  simp only [bind, Except.bind, pure, Except.pure] at h
  repeat' split at h
  all_goals first | (cases h; done) | (injection h with h; rw [← h]) | skip


def cusOf (le : Bool) : Nat → List InfoUnit → List CU
  | _, [] => []
  | off, u :: us => cuOf le off u :: cusOf le (off + unitSize le u) us

theorem cuOf_size {le : Bool} {off : Nat} {u : InfoUnit} (h5 : u.version < 5) :
    (cuOf le off u).size = .ok (unitSize le u) := by
  unfold CU.size cuOf unitHdrVal
  simp only [h5, if_true]
  rw [getNat_hit]
  cases hf : u.fmt64 <;>
    simp [bind, Except.bind, pure, Except.pure, initialLengthFieldSize, InfoUnit.fmt, unitSize, InfoUnit.ilSize, hf,
      Nat.add_comm]

theorem encUnit_length (le : Bool) (u : InfoUnit) : (encUnit le u).length = unitSize le u := by
  cases hf : u.fmt64 <;>
    simp [encUnit, encInitialLength, unitSize, unitLength, InfoUnit.ilSize, hf, encNat_length] <;> omega

theorem unitSize_pos (le : Bool) (u : InfoUnit) : 0 < unitSize le u := by
  unfold unitSize InfoUnit.ilSize; split <;> omega

/-- an encoded sequence of (version 2–4) units is a chain for the model's parser -/
theorem chain_encoded {enumDecode : String → Int → Option String} {le : Bool} {dasz size : Nat} {data : Bytes} :
    ∀ (us : List InfoUnit) (off : Nat), (∀ u ∈ us, wfUnit le u = true ∧ u.version < 5) →
      data.drop off = encUnits le us → off + (encUnits le us).length = size →
      Chain (specP enumDecode le dasz data) size off (cusOf le off us) := by
  intro us
  induction us with
  | nil => intro off _ _ hsz; simpa [Chain, cusOf, encUnits] using hsz
  | cons u us ih =>
    intro off hwf hd hsz
    have hcons : encUnits le (u :: us) = encUnit le u ++ encUnits le us := by simp [encUnits]
    obtain ⟨hw, h5⟩ := hwf u List.mem_cons_self
    rw [hcons] at hd hsz
    rw [List.length_append, encUnit_length] at hsz
    have hpos := unitSize_pos le u
    refine ⟨by omega, parseCU_encoded hw h5 hd, unitSize le u, cuOf_size h5, hpos, ?_⟩
    apply ih (off + unitSize le u) (fun x hx => hwf x (List.mem_cons_of_mem _ hx))
    · rw [← encUnit_length le u]; exact drop_add_of_drop hd
    · omega

theorem mem_cusOf {le : Bool} : ∀ (us : List InfoUnit) (off o : Nat) (u : InfoUnit),
    (o, u) ∈ unitStarts le off us → cuOf le o u ∈ cusOf le off us := by
  intro us
  induction us with
  | nil => intro off o u h; simp [unitStarts] at h
  | cons v us ih =>
    intro off o u h
    simp only [unitStarts, List.mem_cons, Prod.mk.injEq] at h
    rcases h with ⟨rfl, rfl⟩ | h
    · exact List.mem_cons_self
    · exact List.mem_cons_of_mem _ (ih _ o u h)

theorem unitStarts_version {le : Bool} : ∀ (us : List InfoUnit) (off o : Nat) (u : InfoUnit),
    (o, u) ∈ unitStarts le off us → u ∈ us := by
  intro us
  induction us with
  | nil => intro off o u h; simp [unitStarts] at h
  | cons v us ih =>
    intro off o u h
    simp only [unitStarts, List.mem_cons, Prod.mk.injEq] at h
    rcases h with ⟨_, rfl⟩ | h
    · exact List.mem_cons_self
    · exact List.mem_cons_of_mem _ (ih _ o u h)

end PyElf.Proofs.Lookup
