/-
  C10, fourth wave: the CFI entry cache (`CallFrameInfo._entry_cache`) never changes an answer.

  `pureEnt` / `pureList` are the cache-free reference: the entry at an offset is its fresh parse, an FDE carries the
  reference entry at the offset its CIE pointer designates, and the section is the entries back to back.  In EVERY
  state of the cache that holds only reference entries (`CInv`: in particular after a `get_entries()` that raised
  half way and left the cache partly filled) `_parse_entry_at` returns the reference entry — a hit returns what a
  miss would build, all FDEs designating one offset share one CIE value — and `get_entries()` returns the reference
  list.  `CfiWF`: a fresh parse ends where the entry's length field says (instructions padded to the end of the
  entry, as the standard requires), which is what makes the seek of a cache hit agree with the end of a fresh parse.
-/
import PyElf.Model.HistoryCaches
namespace PyElf.Proofs.C10
open PyElf PyElf.Model.Lookup PyElf.Model.C10

/-- the entry at `off` without any cache -/
def pureEnt (X : XFile) (eh : Bool) : Nat → Int → R CEnt
  | 0, _ => .error .outOfFuel
  | f+1, off =>
    match X.cfiHead eh off with
    | .error e => .error e
    | .ok (.zero _) => .ok (.zero off.toNat)
    | .ok (.cie raw) => .ok (.cie off raw.skip raw.payload)
    | .ok (.fde ptr) =>
      match pureEnt X eh f ptr with
      | .error e => .error e
      | .ok c =>
        match X.cfiFde eh off (if eh then c.tag else 0) c.tag with
        | .error e => .error e
        | .ok raw => .ok (.fde off raw.skip raw.payload c)

/-- the entries of the section from `offset` on, back to back -/
def pureList (X : XFile) (eh : Bool) (depth : Nat) : Nat → Nat → R (List CEnt)
  | 0, _ => .error .outOfFuel
  | f+1, offset =>
    if offset < X.cfiSize eh then
      match pureEnt X eh depth offset with
      | .error e => .error e
      | .ok e =>
        match pureList X eh depth f (offset + e.len) with
        | .error e' => .error e'
        | .ok rest => .ok (e :: rest)
    else .ok []

/-- the stateless meaning of `get_entries()` -/
def pureAll (X : XFile) (eh : Bool) : R (List CEnt) :=
  pureList X eh (X.cfiSize eh + 2) (X.cfiSize eh + 2) 0

/-- a fresh parse leaves the stream where the entry's length field says the entry ends -/
structure CfiWF (X : XFile) (eh : Bool) : Prop where
  zero : ∀ off p, X.cfiHead eh off = .ok (.zero p) → p = off.toNat + 4
  cie : ∀ off raw, X.cfiHead eh off = .ok (.cie raw) → raw.endPos = off.toNat + raw.skip
  fde : ∀ off t1 t2 raw, X.cfiFde eh off t1 t2 = .ok raw → raw.endPos = off.toNat + raw.skip

/-- the cache holds reference entries only (and never a ZERO, which has no header to skip by) -/
def CInv (X : XFile) (eh : Bool) (cache : CCache) : Prop :=
  ∀ k e, cacheGet cache k = some e → (∃ f, pureEnt X eh f k = .ok e) ∧ e.skip? ≠ none

theorem cinv_nil (X : XFile) (eh : Bool) : CInv X eh [] := by
  intro k e h; simp [cacheGet] at h

section
variable {X : XFile} {eh : Bool}

/-- more fuel does not change a result that is not "out of fuel" -/
theorem pureEnt_succ : ∀ (f : Nat) (off : Int) (r : R CEnt), pureEnt X eh f off = r → r ≠ .error .outOfFuel →
    pureEnt X eh (f + 1) off = r := by
  intro f
  induction f with
  | zero =>
    intro off r h hr
    rw [pureEnt] at h
    exact absurd h.symm hr
  | succ f ih =>
    intro off r h hr
    rw [pureEnt] at h ⊢
    cases hh : X.cfiHead eh off with
    | error e => simp only [hh] at h ⊢; exact h
    | ok hd =>
      cases hd with
      | zero p => simp only [hh] at h ⊢; exact h
      | cie raw => simp only [hh] at h ⊢; exact h
      | fde ptr =>
        simp only [hh] at h ⊢
        cases h1 : pureEnt X eh f ptr with
        | error e1 =>
          rw [h1] at h
          simp only at h
          have hne : (Except.error e1 : R CEnt) ≠ .error .outOfFuel := by rw [h]; exact hr
          rw [ih ptr _ h1 hne]
          exact h
        | ok c =>
          rw [h1] at h
          rw [ih ptr _ h1 (by simp)]
          exact h

theorem pureEnt_le {f f' : Nat} (hle : f ≤ f') {off : Int} {r : R CEnt} (h : pureEnt X eh f off = r)
    (hr : r ≠ .error .outOfFuel) : pureEnt X eh f' off = r := by
  induction hle with
  | refl => exact h
  | step _ ih => exact pureEnt_succ _ _ _ ih hr

/-- the reference entry at an offset is unique -/
theorem pureEnt_det {f f' : Nat} {off : Int} {e : CEnt} {r : R CEnt} (h : pureEnt X eh f off = .ok e)
    (h' : pureEnt X eh f' off = r) (hr : r ≠ .error .outOfFuel) : r = .ok e := by
  have a := pureEnt_le (Nat.le_max_left f f') h (by simp)
  have b := pureEnt_le (Nat.le_max_right f f') h' hr
  rw [a] at b
  exact b.symm

theorem cacheGet_cons (k : Int) (e : CEnt) (c : CCache) (k' : Int) :
    cacheGet ((k, e) :: c) k' = if k = k' then some e else cacheGet c k' := by
  rw [cacheGet]

theorem cinv_cons {cache : CCache} (h : CInv X eh cache) {k : Int} {e : CEnt} {f : Nat} (he : pureEnt X eh f k = .ok e)
    (hs : e.skip? ≠ none) : CInv X eh ((k, e) :: cache) := by
  intro k' e' hg
  rw [cacheGet_cons] at hg
  by_cases hk : k = k'
  · simp only [hk, if_true] at hg
    injection hg with hg
    subst hg; subst hk
    exact ⟨⟨f, he⟩, hs⟩
  · simp only [hk, if_false] at hg
    exact h k' e' hg

theorem len_of_skip {e : CEnt} {s : Nat} (h : e.skip? = some s) : e.len = s := by
  cases e with
  | zero o => simp [CEnt.skip?] at h
  | cie o s' p => simp only [CEnt.skip?] at h; injection h
  | fde o s' p c => simp only [CEnt.skip?] at h; injection h

/-- `with preserve_stream_pos: return self._parse_entry_at(ptr)` when `_parse_entry_at` answers the reference entry -/
theorem fetchCie_spec {recur : Int → CCache → R (CEnt × Nat) × CCache} {ptr : Int} {cache : CCache} {r1 : R CEnt}
    (h : (recur ptr cache).1.map (·.1) = r1) : fetchCie recur ptr cache = (r1, (recur ptr cache).2) := by
  unfold fetchCie
  generalize recur ptr cache = x at h
  obtain ⟨a, b⟩ := x
  simp only at h
  subst h
  cases a with
  | error e => rfl
  | ok ep => obtain ⟨e, p⟩ := ep; rfl

/-- `_parse_entry_at(off)` in ANY cache state that holds reference entries, for ANY section contents (no
    well-formedness assumed): the ENTRY returned is the reference entry — a hit returns what a miss would build —
    and the cache still holds reference entries only -/
theorem centAt_ent : ∀ (f : Nat) (off : Int) (cache : CCache) (r : R CEnt), CInv X eh cache →
    pureEnt X eh f off = r → r ≠ .error .outOfFuel →
    (centAt X eh f off cache).1.map (·.1) = r ∧ CInv X eh (centAt X eh f off cache).2 := by
  intro f
  induction f with
  | zero =>
    intro off cache r _ h hr
    rw [pureEnt] at h
    exact absurd h.symm hr
  | succ f ih =>
    intro off cache r hc hp hr
    rw [centAt]
    cases hg : cacheGet cache off with
    | some e =>
      obtain ⟨⟨f', hf'⟩, hs⟩ := hc off e hg
      have hre := pureEnt_det hf' hp hr
      subst hre
      simp only
      cases hsk : e.skip? with
      | none => exact absurd hsk hs
      | some s => exact ⟨rfl, hc⟩
    | none =>
      simp only
      rw [pureEnt] at hp
      cases hh : X.cfiHead eh off with
      | error e => simp only [hh] at hp ⊢; subst hp; exact ⟨rfl, hc⟩
      | ok hd =>
        cases hd with
        | zero p =>
          simp only [hh] at hp ⊢
          subst hp
          exact ⟨rfl, hc⟩
        | cie raw =>
          simp only [hh] at hp ⊢
          subst hp
          exact ⟨rfl, cinv_cons hc (f := f + 1) (by rw [pureEnt]; simp only [hh]) (by simp [CEnt.skip?])⟩
        | fde ptr =>
          simp only [hh] at hp ⊢
          have hne1 : pureEnt X eh f ptr ≠ .error .outOfFuel := by
            intro h1
            rw [h1] at hp
            exact hr hp.symm
          have fetch : ∀ c0, CInv X eh c0 →
              ∃ c1, fetchCie (centAt X eh f) ptr c0 = (pureEnt X eh f ptr, c1) ∧ CInv X eh c1 := by
            intro c0 h0
            obtain ⟨a1, a2⟩ := ih ptr c0 _ h0 rfl hne1
            exact ⟨_, fetchCie_spec a1, a2⟩
          cases h1 : pureEnt X eh f ptr with
          | error e1 =>
            rw [h1] at hp fetch
            simp only at hp
            subst hp
            obtain ⟨c1, hf1, hc1⟩ := fetch cache hc
            cases eh with
            | true => simp only [fetchTag, hf1, if_true]; exact ⟨rfl, hc1⟩
            | false => simp only [fetchTag, Bool.false_eq_true, if_false, hf1]; exact ⟨rfl, hc1⟩
          | ok c =>
            rw [h1] at hp fetch
            simp only at hp
            obtain ⟨c1, ht1, hc1⟩ : ∃ c1, fetchTag (centAt X eh f) eh ptr cache = (.ok (if eh then c.tag else 0), c1) ∧
                CInv X eh c1 := by
              cases eh with
              | true =>
                obtain ⟨c1, hf1, hc1⟩ := fetch cache hc
                exact ⟨c1, by simp only [fetchTag, hf1, if_true], hc1⟩
              | false => exact ⟨cache, by simp only [fetchTag, Bool.false_eq_true, if_false], hc⟩
            obtain ⟨c2, hf2, hc2⟩ := fetch c1 hc1
            simp only [ht1, hf2]
            cases hb : X.cfiFde eh off (if eh then c.tag else 0) c.tag with
            | error e2 => simp only [hb] at hp ⊢; subst hp; exact ⟨rfl, hc2⟩
            | ok raw =>
              simp only [hb] at hp ⊢
              obtain ⟨c3, hf3, hc3⟩ := fetch c2 hc2
              simp only [hf3]
              subst hp
              exact ⟨rfl, cinv_cons hc3 (f := f + 1) (by rw [pureEnt]; simp only [hh, h1, hb]) (by simp [CEnt.skip?])⟩

/-- where `_parse_entry_at(off)` leaves the stream when every fresh parse ends where the entry's length field says:
    right behind the entry, hit or miss -/
theorem centAt_pos (wf : CfiWF X eh) (f : Nat) (off : Int) (cache : CCache) {e : CEnt} {p : Nat}
    (h : (centAt X eh f off cache).1 = .ok (e, p)) : p = off.toNat + e.len := by
  cases f with
  | zero => rw [centAt] at h; cases h
  | succ f =>
    rw [centAt] at h
    split at h
    · split at h
      · cases h
      · rename_i e' _ s hsk
        injection h with h; injection h with h1 h2
        subst h1
        rw [← h2, len_of_skip hsk]
    · split at h
      · cases h
      · rename_i p' hh
        injection h with h; injection h with h1 h2
        subst h1
        rw [← h2, wf.zero off p' hh]; rfl
      · rename_i raw hh
        injection h with h; injection h with h1 h2
        subst h1
        rw [← h2, wf.cie off raw hh]; rfl
      · split at h
        · cases h
        · split at h
          · cases h
          · split at h
            · cases h
            · rename_i raw hb
              split at h
              · cases h
              · injection h with h; injection h with h1 h2
                subst h1
                rw [← h2, wf.fde off _ _ raw hb]; rfl

/-- both together -/
theorem centAt_spec (wf : CfiWF X eh) (f : Nat) (off : Int) (cache : CCache) (r : R CEnt) (hc : CInv X eh cache)
    (hp : pureEnt X eh f off = r) (hr : r ≠ .error .outOfFuel) :
    (centAt X eh f off cache).1 = r.map (fun e => (e, off.toNat + e.len)) ∧ CInv X eh (centAt X eh f off cache).2 := by
  obtain ⟨h1, h2⟩ := centAt_ent f off cache r hc hp hr
  refine ⟨?_, h2⟩
  have hpos := fun e p => centAt_pos wf f off cache (e := e) (p := p)
  generalize (centAt X eh f off cache).1 = x at h1 hpos
  cases x with
  | error e => simp only [Except.map] at h1; subst h1; rfl
  | ok ep =>
    obtain ⟨e, p⟩ := ep
    simp only [Except.map] at h1
    subst h1
    rw [hpos e p rfl]; rfl

/-- `_parse_entries()` from `offset` on, in any cache state that holds reference entries -/
theorem centLoop_spec (wf : CfiWF X eh) (depth : Nat) : ∀ (f offset : Nat) (cache : CCache) (r : R (List CEnt)),
    CInv X eh cache → pureList X eh depth f offset = r → r ≠ .error .outOfFuel →
    (centLoop X eh depth f offset cache).1 = r ∧ CInv X eh (centLoop X eh depth f offset cache).2 := by
  intro f
  induction f with
  | zero =>
    intro offset cache r _ h hr
    rw [pureList] at h
    exact absurd h.symm hr
  | succ f ih =>
    intro offset cache r hc hp hr
    rw [centLoop]
    rw [pureList] at hp
    by_cases hlt : offset < X.cfiSize eh
    · simp only [hlt, if_true] at hp ⊢
      have hne1 : pureEnt X eh depth (offset : Int) ≠ .error .outOfFuel := by
        intro h1
        rw [h1] at hp
        exact hr hp.symm
      obtain ⟨a1, a2⟩ := centAt_spec wf depth (offset : Int) cache _ hc rfl hne1
      generalize centAt X eh depth (offset : Int) cache = x at a1 a2
      obtain ⟨ra, ca⟩ := x
      simp only at a1 a2
      subst a1
      cases h1 : pureEnt X eh depth (offset : Int) with
      | error e1 => rw [h1] at hp; simp only at hp; subst hp; exact ⟨rfl, a2⟩
      | ok e =>
        rw [h1] at hp
        simp only [Except.map, Int.toNat_natCast] at hp ⊢
        have hne2 : pureList X eh depth f (offset + e.len) ≠ .error .outOfFuel := by
          intro h2
          rw [h2] at hp
          exact hr hp.symm
        obtain ⟨b1, b2⟩ := ih (offset + e.len) ca _ a2 rfl hne2
        generalize centLoop X eh depth f (offset + e.len) ca = y at b1 b2
        obtain ⟨rb, cb⟩ := y
        simp only at b1 b2
        subst b1
        cases h2 : pureList X eh depth f (offset + e.len) with
        | error e2 => rw [h2] at hp; simp only at hp; subst hp; exact ⟨rfl, b2⟩
        | ok rest => rw [h2] at hp; simp only at hp; subst hp; exact ⟨rfl, b2⟩
    · simp only [hlt, if_false] at hp ⊢
      subst hp
      exact ⟨rfl, hc⟩

/-- a `CallFrameInfo` object: its cache holds reference entries, a memorised list is the reference list -/
structure CObjInv (X : XFile) (eh : Bool) (o : CfiObj) : Prop where
  cache : CInv X eh o.cache
  entries : ∀ l, o.entries = some l → pureAll X eh = .ok l

theorem cobj_new (X : XFile) (eh : Bool) : CObjInv X eh CfiObj.new :=
  { cache := cinv_nil X eh, entries := fun l h => by simp [CfiObj.new] at h }

/-- `get_entries()` in every state of the object — fresh, answered before, or after attempts that raised: the
    reference list -/
theorem cfiGetEntries_spec (wf : CfiWF X eh) (hfuel : pureAll X eh ≠ .error .outOfFuel) {o : CfiObj} (ho : CObjInv X eh o) :
    (cfiGetEntries X eh o).1 = pureAll X eh ∧ CObjInv X eh (cfiGetEntries X eh o).2 := by
  unfold cfiGetEntries
  cases he : o.entries with
  | some l => simp only; exact ⟨(ho.entries l he).symm, ho⟩
  | none =>
    simp only
    obtain ⟨a1, a2⟩ := centLoop_spec wf (X.cfiSize eh + 2) (X.cfiSize eh + 2) 0 o.cache _ ho.cache rfl hfuel
    generalize centLoop X eh (X.cfiSize eh + 2) (X.cfiSize eh + 2) 0 o.cache = x at a1 a2
    obtain ⟨r, c⟩ := x
    simp only at a1 a2
    cases r with
    | error e => exact ⟨a1, { cache := a2, entries := fun l h => by simp at h }⟩
    | ok l => exact ⟨a1, { cache := a2, entries := fun l' h => by injection h with h; subst h; exact a1.symm }⟩

/-- FDE → CIE sharing: the CIE an FDE of the reference list carries is the reference entry at the offset the FDE's
    CIE pointer designates — one value for all FDEs that designate it -/
theorem pureEnt_fde_cie {f : Nat} {off : Int} {s p : Nat} {c : CEnt} (h : pureEnt X eh f off = .ok (.fde off s p c)) :
    ∃ ptr f', X.cfiHead eh off = .ok (.fde ptr) ∧ pureEnt X eh f' ptr = .ok c := by
  cases f with
  | zero => rw [pureEnt] at h; cases h
  | succ f =>
    rw [pureEnt] at h
    cases hh : X.cfiHead eh off with
    | error e => simp only [hh] at h; cases h
    | ok hd =>
      cases hd with
      | zero p' => simp only [hh] at h; cases h
      | cie raw => simp only [hh] at h; cases h
      | fde ptr =>
        simp only [hh] at h
        cases h1 : pureEnt X eh f ptr with
        | error e1 => rw [h1] at h; cases h
        | ok c' =>
          rw [h1] at h
          simp only at h
          cases hb : X.cfiFde eh off (if eh then c'.tag else 0) c'.tag with
          | error e2 => rw [hb] at h; cases h
          | ok raw =>
            rw [hb] at h
            simp only at h
            injection h with h
            injection h with _ _ _ h4
            subst h4
            exact ⟨ptr, f, rfl, h1⟩

end
end PyElf.Proofs.C10
