/-
  Helper lemmas for C08, part 2: the recipe tables against the psABI table
  (kernel-evaluated walks), the calc functions against the formulas, and the
  read–compute–wrap–write step.
-/
import PyElf.Spec.Reloc
import PyElf.Model.Relocation
import PyElf.Proofs.Primitives
namespace PyElf.Proofs.Reloc
open PyElf PyElf.Spec PyElf.Model PyElf.Model.Reloc PyElf.Proofs

/-! ### naming bridge between the Spec's architectures and the library's strings -/

/-- `get_machine_arch()` strings the `if/elif` chain of `_do_apply_relocation` tests -/
def archString : Arch → String
  | .x86 => "x86" | .x64 => "x64" | .arm => "ARM" | .aarch64 => "AArch64" | .mips => "MIPS"
  | .ppc64 => "64-bit PowerPC" | .s390 => "IBM S/390" | .loongarch => "LoongArch"

/-- the recipe dict the chain consults for an architecture / flavour -/
def recipeTable : Arch → Bool → String
  | .x86, _ => "_RELOCATION_RECIPES_X86"
  | .x64, _ => "_RELOCATION_RECIPES_X64"
  | .arm, _ => "_RELOCATION_RECIPES_ARM"
  | .aarch64, _ => "_RELOCATION_RECIPES_AARCH64"
  | .mips, true => "_RELOCATION_RECIPES_MIPS_RELA"
  | .mips, false => "_RELOCATION_RECIPES_MIPS_REL"
  | .ppc64, _ => "_RELOCATION_RECIPES_PPC64"
  | .s390, _ => "_RELOCATION_RECIPES_S390X"
  | .loongarch, _ => "_RELOCATION_RECIPES_LOONGARCH"

def allAF : List (Arch × Bool) :=
  [(.x86, false), (.x86, true), (.x64, false), (.x64, true), (.arm, false), (.arm, true), (.aarch64, false),
   (.aarch64, true), (.mips, false), (.mips, true), (.ppc64, false), (.ppc64, true), (.s390, false), (.s390, true),
   (.loongarch, false), (.loongarch, true)]

theorem mem_allAF (a : Arch) (rela : Bool) : (a, rela) ∈ allAF := by
  cases a <;> cases rela <;> decide

/-- the entries of the recipe dict for (arch, flavour) -/
def entsOf (a : Arch) (rela : Bool) : List (Int × Nat × Bool × String) :=
  match Gen.relocRecipes.find? (·.1 == recipeTable a rela) with
  | some (_, e) => e
  | none => []

/-- which formula (with which use of the addend) a calc function computes -/
def calcMatches (name : String) (hasAddend rela : Bool) (fm : Formula) : Bool :=
  match name, fm with
  | "reloc_calc_identity", .keep => !hasAddend || rela
  | "reloc_calc_sym_plus_addend", .sa => hasAddend && rela
  | "reloc_calc_sym_plus_value", .sa => !hasAddend && !rela
  | "reloc_calc_sym_plus_value", .add => hasAddend && rela
  | "reloc_calc_sym_plus_addend_pcrel", .sap => hasAddend && rela
  | "reloc_calc_sym_plus_value_pcrel", .sap => !hasAddend && !rela
  | "reloc_calc_value_minus_sym_addend", .sub => hasAddend && rela
  | _, _ => false

def widthOk (w bytesize : Nat) (fm : Formula) : Bool :=
  if fm = .keep then w == 0 && (bytesize == 4 || bytesize == 8)
  else bytesize == w && (w == 1 || w == 2 || w == 4 || w == 8)

def recipeRowOk (a : Arch) (rela : Bool) (t : Nat) : Bool :=
  match psabi a rela t, (entsOf a rela).find? (·.1 == (t : Int)) with
  | some (w, fm), some (_, b, ha, nm) => widthOk w b fm && calcMatches nm ha rela fm
  | _, _ => false

/-- every (machine, flavour, type) the psABI table lists has a recipe of the right width and formula -/
theorem table_walk : psabiTypes.all (fun x => recipeRowOk x.1 x.2.1 x.2.2) = true := by decide +kernel

/-- every recipe dict exists, and each of its keys is a listed psABI type (or the unclaimed R_ARM_CALL) -/
def tableKeysOk (a : Arch) (rela : Bool) : Bool :=
  (Gen.relocRecipes.find? (·.1 == recipeTable a rela)).isSome &&
  (entsOf a rela).all (fun en => decide (0 ≤ en.1) && ((psabi a rela en.1.toNat).isSome || unclaimed a rela en.1.toNat))

theorem keys_walk : (allAF.filter fun x => flavourOk x.1 x.2).all (fun x => tableKeysOk x.1 x.2) = true := by
  decide +kernel

theorem tables_exist : allAF.all (fun x => (Gen.relocRecipes.find? (·.1 == recipeTable x.1 x.2)).isSome) = true := by
  decide +kernel

theorem psabiTypes_complete {a : Arch} {rela : Bool} {t : Nat} {x : Nat × Formula} (h : psabi a rela t = some x) :
    (a, rela, t) ∈ psabiTypes := by
  unfold psabi at h
  split at h <;> (cases h; first | decide | (cases rela <;> decide) | skip)



def toRecipe (en : Int × Nat × Bool × String) : Recipe := ⟨en.2.1, en.2.2.1, en.2.2.2⟩

theorem recipeGet_eq (a : Arch) (rela : Bool) (t : Int) :
    recipeGet (recipeTable a rela) t = .ok (((entsOf a rela).find? (·.1 == t)).map toRecipe) := by
  have h := List.all_eq_true.mp tables_exist (a, rela) (mem_allAF a rela)
  simp only at h
  unfold recipeGet entsOf
  cases hf : Gen.relocRecipes.find? (·.1 == recipeTable a rela) with
  | none => simp [hf] at h
  | some p =>
    obtain ⟨nm, ents⟩ := p
    simp only
    cases ents.find? (·.1 == t) with
    | none => rfl
    | some en => obtain ⟨k, b, ha, c⟩ := en; rfl

theorem recipe_listed {a : Arch} {rela : Bool} {t w : Nat} {fm : Formula} (h : psabi a rela t = some (w, fm)) :
    ∃ en, (entsOf a rela).find? (·.1 == (t : Int)) = some en ∧ widthOk w en.2.1 fm = true ∧
      calcMatches en.2.2.2 en.2.2.1 rela fm = true := by
  have hw := List.all_eq_true.mp table_walk (a, rela, t) (psabiTypes_complete h)
  simp only [recipeRowOk, h] at hw
  cases hf : (entsOf a rela).find? (·.1 == (t : Int)) with
  | none => simp [hf] at hw
  | some en =>
    obtain ⟨k, b, ha, c⟩ := en
    simp only [hf, Bool.and_eq_true] at hw
    exact ⟨_, rfl, hw.1, hw.2⟩

theorem recipe_unlisted {a : Arch} {rela : Bool} {t : Nat} (hf : flavourOk a rela = true)
    (h : psabi a rela t = none) (hu : unclaimed a rela t = false) :
    (entsOf a rela).find? (·.1 == (t : Int)) = none := by
  have hk := List.all_eq_true.mp keys_walk (a, rela)
    (List.mem_filter.mpr ⟨mem_allAF a rela, hf⟩)
  simp only [tableKeysOk, Bool.and_eq_true, List.all_eq_true, decide_eq_true_eq, Bool.or_eq_true] at hk
  cases hfind : (entsOf a rela).find? (·.1 == (t : Int)) with
  | none => rfl
  | some en =>
    exfalso
    have hmem := List.mem_of_find?_eq_some hfind
    have hkey := List.find?_some hfind
    have hk2 := hk.2 en hmem
    have : en.1 = (t : Int) := by simpa using hkey
    rw [this] at hk2
    simp [h, hu] at hk2

theorem calcMatches_sound {nm : String} {ha rela : Bool} {fm : Formula} (h : calcMatches nm ha rela fm = true) :
    ∃ fn, Gen.relocCalc nm = some fn ∧ (ha = true → rela = true) ∧
      ∀ V S P A : Int, fn V S P (if ha then A else 0) = fm.eval S (if rela then A else V) P V := by
  unfold calcMatches at h
  split at h
  all_goals first
    | (exfalso; exact Bool.false_ne_true h)
    | (cases ha <;> cases rela <;> simp at h <;>
        (refine ⟨_, rfl, by simp, ?_⟩
         intro V S P A
         simp [Formula.eval, Gen.Pure.reloc_calc_identity, Gen.Pure.reloc_calc_sym_plus_addend,
           Gen.Pure.reloc_calc_sym_plus_value, Gen.Pure.reloc_calc_sym_plus_addend_pcrel,
           Gen.Pure.reloc_calc_sym_plus_value_pcrel, Gen.Pure.reloc_calc_value_minus_sym_addend] <;> omega))



theorem natLE_leNat : ∀ (bs : Bytes), natLE bs.length (leNat bs) = bs
  | [] => rfl
  | b :: bs => by
    have hb := b.toNat_lt
    have h1 : (b.toNat + 256 * leNat bs) % 256 = b.toNat := by omega
    have h2 : (b.toNat + 256 * leNat bs) / 256 = leNat bs := by omega
    simp only [List.length_cons, natLE, leNat, h1, h2, natLE_leNat bs, UInt8.ofNat_toNat]

theorem encNat_decNat (le : Bool) (bs : Bytes) : encNat le bs.length (decNat le bs) = bs := by
  cases le
  · simp only [encNat, decNat, Bool.false_eq_true, ↓reduceIte, natBE, beNat]
    have := natLE_leNat bs.reverse
    rw [List.length_reverse] at this
    rw [this, List.reverse_reverse]
  · simp only [encNat, decNat, ↓reduceIte, natLE_leNat]

theorem leNat_lt : ∀ (bs : Bytes), leNat bs < 256 ^ bs.length
  | [] => by simp [leNat]
  | b :: bs => by
    have hb := b.toNat_lt
    have := leNat_lt bs
    simp only [leNat, List.length_cons, Nat.pow_succ]
    omega

theorem decNat_lt (le : Bool) (bs : Bytes) : decNat le bs < 256 ^ bs.length := by
  cases le
  · simp only [decNat, Bool.false_eq_true, ↓reduceIte, beNat]
    have := leNat_lt bs.reverse
    rwa [List.length_reverse] at this
  · simp only [decNat, ↓reduceIte]; exact leNat_lt bs

theorem readExact_in {stream : Bytes} {off n : Nat} (h : off + n ≤ stream.length) :
    readExact stream off n = .ok ((stream.drop off).take n) := by
  unfold readExact readN
  have : ((stream.drop off).take n).length = n := by simp; omega
  simp [this]

theorem field_length {stream : Bytes} {off n : Nat} (h : off + n ≤ stream.length) :
    ((stream.drop off).take n).length = n := by simp; omega

/-- writing the field's own value back changes nothing -/
theorem writeField_same (le : Bool) (w : Nat) (sec : Bytes) (off : Nat) (h : off + w ≤ sec.length) :
    writeField le w sec off (readField le w sec off : Int) = sec := by
  unfold writeField readField
  have hl := field_length h
  have hlt := decNat_lt le ((sec.drop off).take w)
  rw [hl, show (256 : Nat) = 2 ^ 8 from rfl, ← Nat.pow_mul] at hlt
  have : (((decNat le ((sec.drop off).take w) : Nat) : Int) % ((2 ^ (8 * w) : Nat) : Int)).toNat
      = decNat le ((sec.drop off).take w) := by
    rw [← Int.natCast_emod, Int.toNat_natCast, Nat.mod_eq_of_lt hlt]
  rw [this]
  have h2 := encNat_decNat le ((sec.drop off).take w)
  rw [hl] at h2
  rw [h2, List.append_assoc, ← List.drop_drop, List.take_append_drop, List.take_append_drop]

theorem applyRecipe_ok {le : Bool} {stream : Bytes} {r : Recipe} {S : Int} {off : Nat} {addendField : R Int}
    {fn : Int → Int → Int → Int → Int} {A : Int}
    (hb : r.bytesize = 1 ∨ r.bytesize = 2 ∨ r.bytesize = 4 ∨ r.bytesize = 8)
    (hoff : off + r.bytesize ≤ stream.length) (hlen : stream.length < 2 ^ 63)
    (hfn : Gen.relocCalc r.calcName = some fn)
    (hadd : (if r.hasAddend then addendField else pure 0) = .ok A) :
    applyRecipe le stream r S off addendField
      = .ok (writeField le r.bytesize stream off (fn (readField le r.bytesize stream off) S off A)) := by
  unfold applyRecipe
  have hb' : (!(decide (r.bytesize = 4) || decide (r.bytesize = 8) || decide (r.bytesize = 1) || decide (r.bytesize = 2))) = false := by
    rcases hb with h | h | h | h <;> simp [h]
  have hmod : ∀ x : Int, PyInt.fmod x (((2 ^ (r.bytesize * 8) : Nat)) : Int) = x % ((2 ^ (8 * r.bytesize) : Nat) : Int) := by
    intro x
    rw [Nat.mul_comm]
    exact Int.fmod_eq_emod_of_nonneg _ (Int.natCast_nonneg _)
  simp only [hb', Bool.false_eq_true, ↓reduceIte, readExact_in hoff, hfn, bind, Except.bind, pure, Except.pure,
    if_neg (show ¬ off ≥ 2 ^ 63 by omega), hmod]
  cases hh : r.hasAddend
  · simp only [hh, Bool.false_eq_true, ↓reduceIte, pure, Except.pure] at hadd ⊢
    cases hadd
    rfl
  · simp only [hh, ↓reduceIte] at hadd ⊢
    subst hadd
    rfl


set_option linter.unusedSimpArgs false

theorem obs_isRela (c : RelCfg) (rela : Bool) (e : RelEntry) : entryIsRela (observeRel c rela e) = rela := by
  cases rela <;> cases hp : c.packed <;> simp [entryIsRela, observeRel, hp, Fields.get?]

theorem obs_type (c : RelCfg) (rela : Bool) (e : RelEntry) :
    (observeRel c rela e).getInt "r_info_type" = .ok (e.type : Int) := by
  cases rela <;> cases hp : c.packed <;>
    simp [observeRel, hp, Val.getInt, Val.getField, Fields.getR, Fields.get?, Val.asInt, bind, Except.bind]

theorem obs_offset (c : RelCfg) (rela : Bool) (e : RelEntry) :
    (observeRel c rela e).getNat "r_offset" = .ok e.offset := by
  cases rela <;> cases hp : c.packed <;>
    simp [observeRel, hp, Val.getNat, Val.asNat, Val.getField, Fields.getR, Fields.get?, Val.asInt, bind, Except.bind,
      pure, Except.pure]

theorem obs_sym (c : RelCfg) (rela : Bool) (e : RelEntry) :
    (observeRel c rela e).getNat "r_info_sym" = .ok e.sym := by
  cases rela <;> cases hp : c.packed <;>
    simp [observeRel, hp, Val.getNat, Val.asNat, Val.getField, Fields.getR, Fields.get?, Val.asInt, bind, Except.bind,
      pure, Except.pure]

theorem obs_addend (c : RelCfg) (e : RelEntry) :
    (observeRel c true e).getInt "r_addend" = .ok e.addend := by
  cases hp : c.packed <;>
    simp [observeRel, hp, Val.getInt, Val.getField, Fields.getR, Fields.get?, Val.asInt, bind, Except.bind]

theorem obs_sub (c : RelCfg) (hp : c.packed = true) (rela : Bool) (e : RelEntry) :
    (observeRel c rela e).getInt "r_type2" = .ok (e.type2 : Int) ∧
    (observeRel c rela e).getInt "r_type3" = .ok (e.type3 : Int) ∧
    (observeRel c rela e).getInt "r_ssym" = .ok (e.ssym : Int) := by
  cases rela <;>
    simp [observeRel, hp, Val.getInt, Val.getField, Fields.getR, Fields.get?, Val.asInt, bind, Except.bind]


/-- the `if/elif` chain, per architecture -/
theorem chooseRecipe_spec (a : Arch) (c : RelCfg) (rela : Bool) (e : RelEntry)
    (hm : c.mips = decide (a = .mips)) :
    chooseRecipe (archString a) c.cls (observeRel c rela e) =
      if !flavourOk a rela then .error .elfRelocError
      else if c.packed && (e.type2 ≠ 0 || e.type3 ≠ 0 || e.ssym ≠ 0) then .error .elfRelocError
      else recipeGet (recipeTable a rela) (e.type : Int) := by
  unfold chooseRecipe
  simp only [obs_isRela, obs_type, bind, Except.bind]
  cases a <;> cases rela <;> simp [archString, flavourOk, recipeTable, RelCfg.packed, hm]
  · by_cases h64 : c.cls = 64
    · have hp : c.packed = true := by simp [RelCfg.packed, h64, hm]
      obtain ⟨h2, h3, h4⟩ := obs_sub c hp false e
      simp only [h2, h3, h4, h64, ↓reduceIte, Int.natCast_eq_zero, true_and]
    · simp only [h64, ↓reduceIte, false_and]
  · by_cases h64 : c.cls = 64
    · have hp : c.packed = true := by simp [RelCfg.packed, h64, hm]
      obtain ⟨h2, h3, h4⟩ := obs_sub c hp true e
      simp only [h2, h3, h4, h64, ↓reduceIte, Int.natCast_eq_zero, true_and]
    · simp only [h64, ↓reduceIte, false_and]

/-- a calc function that matches a formula is the identity exactly for `keep` -/
theorem calcMatches_identity {nm : String} {ha rela : Bool} {fm : Formula} (h : calcMatches nm ha rela fm = true) :
    nm = "reloc_calc_identity" ↔ fm = .keep := by
  unfold calcMatches at h
  split at h <;> first | (exfalso; exact Bool.false_ne_true h) | simp

theorem applyWithSym_eq_std (a : Arch) (c : RelCfg) (hm : c.mips = decide (a = .mips)) (rela : Bool) (sec : Bytes)
    (e : RelEntry) (s : Nat) (hwf : WFApplyOne a c rela sec.length e = true) (hlen : sec.length < 2 ^ 63) :
    applyWithSym c.le c.cls (archString a) sec (observeRel c rela e) (s : Int) =
      match applyAfterSym a c rela s sec e with
      | some b => .ok b
      | none => .error .elfRelocError := by
  unfold applyWithSym applyAfterSym
  rw [chooseRecipe_spec a c rela e hm]
  simp only [WFApplyOne, Bool.and_eq_true] at hwf
  obtain ⟨⟨hrel, hunc⟩, hfit⟩ := hwf
  cases hf : flavourOk a rela
  · simp only [Bool.not_false, ↓reduceIte]; rfl
  · simp only [Bool.not_true, Bool.false_eq_true, ↓reduceIte]
    have hunc' : unclaimed a rela e.type = false := by simpa using hunc
    cases hcomp : (c.packed && (decide (e.type2 ≠ 0) || decide (e.type3 ≠ 0) || decide (e.ssym ≠ 0)))
    · simp only [Bool.false_eq_true, ↓reduceIte]
      rw [recipeGet_eq]
      cases hps : psabi a rela e.type with
      | none =>
        rw [recipe_unlisted hf hps hunc']
        rfl
      | some wf =>
        obtain ⟨w, fm⟩ := wf
        obtain ⟨en, hfind, hwd, hcm⟩ := recipe_listed hps
        obtain ⟨fn, hfn, himp, hcalc⟩ := calcMatches_sound hcm
        have hid := calcMatches_identity hcm
        simp only [hps, Bool.or_eq_true, beq_iff_eq, decide_eq_true_eq] at hfit
        simp only [hfind, Option.map, bind, Except.bind, obs_offset]
        have hadd : (if (toRecipe en).hasAddend then (observeRel c rela e).getInt "r_addend" else pure 0)
            = .ok (if en.2.2.1 then e.addend else 0) := by
          cases hh : en.2.2.1
          · simp [toRecipe, hh]; rfl
          · have := himp hh; subst this
            simp [toRecipe, hh, obs_addend]
        by_cases hk : fm = .keep
        · subst hk
          have hnm : (toRecipe en).calcName = "reloc_calc_identity" := hid.2 rfl
          simp only [hnm, ↓reduceIte, pure, Except.pure]
        · have hnm : ¬ (toRecipe en).calcName = "reloc_calc_identity" := fun h => hk (hid.1 h)
          simp only [hnm, ↓reduceIte]
          simp only [widthOk, hk, ↓reduceIte, Bool.and_eq_true, beq_iff_eq, Bool.or_eq_true] at hwd
          obtain ⟨hbw, hw⟩ := hwd
          have hb : (toRecipe en).bytesize = 1 ∨ (toRecipe en).bytesize = 2 ∨ (toRecipe en).bytesize = 4 ∨ (toRecipe en).bytesize = 8 := by
            show en.2.1 = 1 ∨ en.2.1 = 2 ∨ en.2.1 = 4 ∨ en.2.1 = 8
            rw [hbw]; rcases hw with ((h | h) | h) | h <;> simp [h]
          have hoff : e.offset + (toRecipe en).bytesize ≤ sec.length := by
            show e.offset + en.2.1 ≤ _
            rw [hbw]
            rcases hfit with h | h
            · exact absurd h hk
            · exact h
          rw [applyRecipe_ok hb hoff hlen hfn hadd, hcalc]
          have hbw' : (toRecipe en).bytesize = w := hbw
          rw [hbw']
          simp only [hk, ↓reduceIte]
    · simp only [↓reduceIte]
      rfl

theorem doApply_rejects_sym (env : Env) (S : ElfStructs) (le : Bool) (cls : Nat) (arch : String) (data : Bytes)
    (symtab : SymTab) (stream : Bytes) (c : RelCfg) (rela : Bool) (e : RelEntry)
    (hent : symtab.shEntsize ≠ 0) (h : e.sym ≥ symtab.shSize / symtab.shEntsize) :
    doApplyRelocation env S le cls arch data symtab stream (observeRel c rela e) = .error .elfRelocError := by
  unfold doApplyRelocation
  simp only [obs_sym, bind, Except.bind, hent, ↓reduceIte, h]

theorem doApply_with_sym (env : Env) (S : ElfStructs) (le : Bool) (cls : Nat) (arch : String) (data : Bytes)
    (symtab : SymTab) (stream : Bytes) (c : RelCfg) (rela : Bool) (e : RelEntry) (symv : Val) (s : Int)
    (hent : symtab.shEntsize ≠ 0) (h : e.sym < symtab.shSize / symtab.shEntsize)
    (hparse : seekParse env S.Elf_Sym data (symtab.shOffset + e.sym * symtab.shEntsize) = .ok symv)
    (hval : symv.getInt "st_value" = .ok s) :
    doApplyRelocation env S le cls arch data symtab stream (observeRel c rela e)
      = applyWithSym le cls arch stream (observeRel c rela e) s := by
  unfold doApplyRelocation
  have h' : ¬ e.sym ≥ symtab.shSize / symtab.shEntsize := by omega
  simp only [obs_sym, bind, Except.bind, hent, ↓reduceIte, h', hparse, hval]

theorem writeField_frame (le : Bool) (w : Nat) (sec : Bytes) (off : Nat) (v : Int) (h : off + w ≤ sec.length) :
    (writeField le w sec off v).length = sec.length ∧
    (writeField le w sec off v).take off = sec.take off ∧
    (writeField le w sec off v).drop (off + w) = sec.drop (off + w) ∧
    readField le w (writeField le w sec off v) off = (v % ((2 ^ (8 * w) : Nat) : Int)).toNat := by
  have hl : (sec.take off).length = off := by simp; omega
  have he : (encNat le w (v % ((2 ^ (8 * w) : Nat) : Int)).toNat).length = w := encNat_length _ _ _
  have hlt : (v % ((2 ^ (8 * w) : Nat) : Int)).toNat < 256 ^ w := by
    have hpos : (0 : Int) < ((2 ^ (8 * w) : Nat) : Int) := Int.natCast_pos.mpr (Nat.two_pow_pos _)
    have h1 := Int.emod_lt_of_pos v hpos
    have h2 := Int.emod_nonneg v (Int.ne_of_gt hpos)
    rw [show (256 : Nat) = 2 ^ 8 from rfl, ← Nat.pow_mul]
    omega
  generalize hB : encNat le w (v % ((2 ^ (8 * w) : Nat) : Int)).toNat = B at he hlt
  have hAB : (sec.take off ++ B).length = off + w := by rw [List.length_append, hl, he]
  refine ⟨?_, ?_, ?_, ?_⟩
  · simp only [writeField, hB, List.length_append, hl, he, List.length_drop]; omega
  · simp only [writeField, hB, List.append_assoc]
    exact List.take_left' hl
  · simp only [writeField, hB]
    exact List.drop_left' hAB
  · simp only [writeField, readField, hB, List.append_assoc]
    rw [List.drop_left' hl, List.take_left' he, ← hB, decNat_encNat_of_lt le hlt]

end PyElf.Proofs.Reloc
