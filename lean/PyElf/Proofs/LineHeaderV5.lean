/-
  Helper lemmas for C05: the header of a version 5 line-number program (DWARF 5 §6.2.4,
  §6.2.4.1), as encoded by the Spec, is parsed by the model of
  `_parse_line_program_at_offset` into the `LineProgram` object the property prescribes:
  (1) the entry formats, (2) the `FormattedEntry` parser built from the parsed format,
  (3) string resolution and the legacy-compatible tables.
-/
import PyElf.Proofs.LineHeader
namespace PyElf.Proofs.Line
open PyElf PyElf.Spec PyElf.Spec.Line PyElf.Model.Line PyElf.Proofs

/-! ### minimal ULEB128 -/

theorem ulebLenF_pos (fuel v : Nat) : 1 ≤ ulebLenF fuel v := by
  cases fuel with
  | zero => simp [ulebLenF]
  | succ fuel => rw [ulebLenF]; split <;> omega

theorem ulebLenF_bound : ∀ (fuel v : Nat), v ≤ fuel → v < 2 ^ (7 * ulebLenF fuel v) := by
  intro fuel
  induction fuel with
  | zero => intro v hv; simp [ulebLenF]; omega
  | succ fuel ih =>
    intro v hv
    rw [ulebLenF]
    split
    · omega
    · have h1 := ih (v / 128) (by omega)
      have e : 2 ^ (7 * (1 + ulebLenF fuel (v / 128))) = 128 * 2 ^ (7 * ulebLenF fuel (v / 128)) := by
        rw [Nat.mul_add, Nat.pow_add]
      rw [e]
      omega

/-- the minimal encoding of `v` as an operand -/
def minLeb (v : Nat) : Leb := ⟨v, ulebLenF v v⟩

theorem minLeb_wf (v : Nat) : (minLeb v).WF = true := by
  simp [Leb.WF, minLeb, ulebLenF_pos, ulebLenF_bound v v (Nat.le_refl v)]

theorem encUleb_eq (v : Nat) : encUleb v = (minLeb v).enc := rfl

theorem encUleb_length (v : Nat) : (encUleb v).length = ulebLenF v v := by
  simp [encUleb, encUlebN_length]

theorem parse_minleb {env : Env} {data : Bytes} {pos : Nat} {c : Fields} {v : Nat} {rest : Bytes}
    (hd : data.drop pos = encUleb v ++ rest) :
    Con.parse env data .uleb c pos = .ok (.int (v : Int), pos + (encUleb v).length, c) := by
  rw [encUleb_length]
  exact parse_leb (l := minLeb v) (minLeb_wf v) hd

/-! ### what the enum environment must decode (true of the regenerated tables: `TieC05`) -/

structure EnvOK (env : Env) : Prop where
  lnct : ∀ ct nm, lnctName ct = some nm → env.enumDecode "ENUM_DW_LNCT" (ct : Int) = some nm
  form : ∀ fc nm k, formOf fc = some (nm, k) → env.enumDecode "ENUM_DW_FORM" (fc : Int) = some nm

theorem parse_enum_ok {env : Env} {data : Bytes} {sub : Con} {t s : String} {pass : Bool} {c c' : Fields}
    {pos p : Nat} {n : Int} (h : Con.parse env data sub c pos = .ok (.int n, p, c'))
    (hdec : env.enumDecode t n = some s) :
    Con.parse env data (.enum sub t pass) c pos = .ok (.str s, p, c') := by
  rw [Con.parse, h]
  simp [bind, Except.bind, hdec, pure, Except.pure]

/-! ### (1) entry formats: `PrefixedArray(ubyte, Struct(content_type, form))` -/

/-- one element of a decoded entry format -/
def fmtItem : Nat × Nat → Val := fun (ct, fc) =>
  .record [("content_type", match lnctName ct with | some n => .str n | none => .int ct),
           ("form", match formOf fc with | some (n, _) => .str n | none => .int fc)]

theorem fmtObs_eq (fmt : List (Nat × Nat)) : fmtObs fmt = .list (fmt.map fmtItem) := rfl

def pairEnc : Nat × Nat → Bytes := fun (ct, fc) => encUleb ct ++ encUleb fc

theorem fmtEnc_eq (fmt : List (Nat × Nat)) : fmtEnc fmt = [byte fmt.length] ++ fmt.flatMap pairEnc := rfl

/-- the per-element part of `fmtWF` -/
def itemOK (x : Nat × Nat) : Prop :=
  ∃ nm fnm k, lnctName x.1 = some nm ∧ formOf x.2 = some (fnm, k) ∧ formAllowed x.1 k = true

theorem fmtWF_items {fmt : List (Nat × Nat)} (h : fmtWF fmt = true) : ∀ x ∈ fmt, itemOK x := by
  simp only [fmtWF, Bool.and_eq_true, List.all_eq_true] at h
  intro x hx
  have := h.1.1.2 x hx
  obtain ⟨ct, fc⟩ := x
  obtain ⟨h1, h2⟩ := this
  cases hl : lnctName ct with
  | none => simp [hl] at h1
  | some nm =>
    cases hf : formOf fc with
    | none => simp [hf] at h2
    | some nk =>
      obtain ⟨fnm, k⟩ := nk
      simp only [hf] at h2
      exact ⟨nm, fnm, k, hl, hf, h2⟩

theorem parse_entry_format {env : Env} (henv : EnvOK env) {data rest : Bytes} {pos : Nat} {c : Fields}
    {x : Nat × Nat} (hx : itemOK x) (hd : data.drop pos = pairEnc x ++ rest) :
    Con.parse env data entryFormatCon c pos = .ok (fmtItem x, pos + (pairEnc x).length, c) := by
  obtain ⟨ct, fc⟩ := x
  obtain ⟨nm, fnm, k, hl, hf, -⟩ := hx
  have hd0 : data.drop pos = encUleb ct ++ (encUleb fc ++ rest) := by
    simpa [pairEnc, List.append_assoc] using hd
  have hd1 : data.drop (pos + (encUleb ct).length) = encUleb fc ++ rest := drop_add_of_drop hd0
  have c0 := fun cx => parse_enum_ok (env := env) (t := "ENUM_DW_LNCT") (pass := false)
    (parse_minleb (env := env) (c := cx) hd0) (henv.lnct ct nm hl)
  have c1 := fun cx => parse_enum_ok (env := env) (t := "ENUM_DW_FORM") (pass := true)
    (parse_minleb (env := env) (c := cx) hd1) (henv.form fc fnm k hf)
  simp only [entryFormatCon, st, mkFields, f, enumOf, parse_struct, parseFields_named, c0, c1, parseFields_nil,
    fmtItem, hl, hf, pairEnc, List.length_append, Fields.set]
  simp [Nat.add_assoc]

theorem arrayLoop_fmt {env : Env} (henv : EnvOK env) (data rest : Bytes) (c : Fields) :
    ∀ (fmt : List (Nat × Nat)) (pos : Nat) (acc : List Val), (∀ x ∈ fmt, itemOK x) →
      data.drop pos = fmt.flatMap pairEnc ++ rest →
      arrayLoop (fun p cx => Con.parse env data entryFormatCon cx p) fmt.length pos c acc
        = .ok (.list (acc.reverse ++ fmt.map fmtItem), pos + (fmt.flatMap pairEnc).length, c) := by
  intro fmt
  induction fmt with
  | nil => intro pos acc _ _; simp [arrayLoop]
  | cons x fmt ih =>
    intro pos acc hx hd
    have hd0 : data.drop pos = pairEnc x ++ (fmt.flatMap pairEnc ++ rest) := by
      simpa [List.append_assoc] using hd
    have hd1 := drop_add_of_drop hd0
    simp only [List.length_cons, arrayLoop]
    rw [parse_entry_format henv (hx x (by simp)) hd0]
    simp only
    rw [ih _ _ (fun y hy => hx y (by simp [hy])) hd1]
    simp [Nat.add_assoc]

theorem parse_fmt {env : Env} (henv : EnvOK env) {data rest : Bytes} {pos : Nat} {le : Bool} {c : Fields}
    {fmt : List (Nat × Nat)} (hw : fmtWF fmt = true) (hd : data.drop pos = fmtEnc fmt ++ rest) :
    Con.parse env data (.prefixed (.uint 1 le) entryFormatCon) c pos
      = .ok (fmtObs fmt, pos + (fmtEnc fmt).length, c) := by
  have hlen : fmt.length < 256 := by
    simp only [fmtWF, Bool.and_eq_true, decide_eq_true_eq] at hw
    exact hw.1.1.1
  have hd0 : data.drop pos = [byte fmt.length] ++ (fmt.flatMap pairEnc ++ rest) := by
    simpa [fmtEnc_eq, List.append_assoc] using hd
  have hd1 : data.drop (pos + 1) = fmt.flatMap pairEnc ++ rest := drop_add_of_drop hd0
  rw [Con.parse, parse_u8_val hlen hd0]
  simp only [bind, Except.bind, Val.asInt, Int.toNat_natCast]
  rw [arrayLoop_fmt henv data rest c fmt (pos + 1) [] (fmtWF_items hw) hd1]
  simp [fmtObs_eq, fmtEnc_eq, Nat.add_assoc, Nat.add_comm]

/-! ### (2) `FormattedEntry`: the struct built from the parsed format -/

/-- the parser `Dwarf_dw_form` holds for each form kind an entry format may use -/
def kindCon (le : Bool) (osz : Nat) : FormKind → Con
  | .string => .cstring
  | .lineStrp | .strp | .strpSup => .uint osz le
  | .data n => .uint n le
  | .udata => .uleb
  | .data16 => .array (lit 16) (.uint 1 le)
  | .block => .prefixed .uleb (.uint 1 le)

theorem form_kindCon (cfg : DwarfCfg) {fc : Nat} {fnm : String} {k : FormKind} (h : formOf fc = some (fnm, k)) :
    (Spec.dwarfStructs cfg).form fnm = some (kindCon cfg.le (cfg.fmt / 8) k) := by
  unfold formOf at h
  split at h <;> cases h <;> rfl

theorem kindCon_supported (le : Bool) (osz : Nat) (k : FormKind) : ∀ w, kindCon le osz k ≠ .unsupported w := by
  intro w; cases k <;> simp [kindCon]

/-- a field as the header struct delivers it: string references are still offsets -/
def rawVal : FormKind → FieldVal → Val
  | .string, .str s => .bytes s
  | _, .ref o => .int o
  | _, .fixed v => .int v
  | _, .udata l => .int l.v
  | _, .data16 bs => bytesList bs
  | _, .block _ bs => bytesList bs
  | _, _ => .none

def entryRaw : List (Nat × Nat) → List FieldVal → Fields
  | (ct, fc) :: fs, v :: vs =>
    match lnctName ct, formOf fc with
    | some nm, some (_, k) => (nm, rawVal k v) :: entryRaw fs vs
    | _, _ => []
  | _, _ => []

/-- `formattedFields` on a decoded format -/
def fmtCons (le : Bool) (osz : Nat) : List (Nat × Nat) → ConFields
  | [] => .nil
  | (ct, fc) :: fs =>
    match lnctName ct, formOf fc with
    | some nm, some (_, k) => .cons (some nm) false (kindCon le osz k) (fmtCons le osz fs)
    | _, _ => .nil

theorem formattedFields_fmt (cfg : DwarfCfg) :
    ∀ (fmt : List (Nat × Nat)), (∀ x ∈ fmt, itemOK x) →
      formattedFields (Spec.dwarfStructs cfg) (fmt.map fmtItem) = .ok (fmtCons cfg.le (cfg.fmt / 8) fmt) := by
  intro fmt
  induction fmt with
  | nil => intro _; rfl
  | cons x fmt ih =>
    intro hx
    obtain ⟨nm, fnm, k, hl, hf, -⟩ := hx x (by simp)
    obtain ⟨ct, fc⟩ := x
    simp only at hl hf
    simp only [List.map_cons, formattedFields, fmtItem, hl, hf, Val.getField, Fields.getR, Fields.get?,
      bind, Except.bind, pure, Except.pure, fmtCons]
    -- (the discharger of the `match con with | .unsupported _ => …` equation uses `hsup`)
    have hsup := kindCon_supported cfg.le (cfg.fmt / 8) k
    simp only [if_true, show ("content_type" = "form") = False by decide, if_false,
      form_kindCon cfg hf, ih (fun y hy => hx y (by simp [hy]))]

/-- per-form round trip: every form an entry format may use (C16 lemmas) -/
theorem parse_kind {env : Env} {data rest : Bytes} {pos : Nat} {le fmt64 : Bool} {secs : StrSecs} {c : Fields}
    {k : FormKind} {v : FieldVal} (hw : v.WF fmt64 secs k = true)
    (hd : data.drop pos = v.enc le fmt64 k ++ rest) :
    Con.parse env data (kindCon le (offSize fmt64) k) c pos
      = .ok (rawVal k v, pos + (v.enc le fmt64 k).length, c) := by
  cases k with
  | string =>
    cases v with
    | str s =>
      have hs : ∀ b ∈ s, b ≠ 0 := by simpa [FieldVal.WF, cstrOk] using hw
      have hd0 : data.drop pos = s ++ [0] ++ rest := by simpa [FieldVal.enc] using hd
      simp [kindCon, rawVal, FieldVal.enc, parse_cstring_ok hs hd0, Nat.add_assoc]
    | _ => simp [FieldVal.WF] at hw
  | lineStrp =>
    cases v with
    | ref o =>
      simp only [FieldVal.WF, Bool.and_eq_true, decide_eq_true_eq] at hw
      simp [kindCon, rawVal, FieldVal.enc, parse_uint_val hw.1 (show data.drop pos = encNat le _ o ++ rest from hd),
        encNat_length]
    | _ => simp [FieldVal.WF] at hw
  | strp =>
    cases v with
    | ref o =>
      simp only [FieldVal.WF, Bool.and_eq_true, decide_eq_true_eq] at hw
      simp [kindCon, rawVal, FieldVal.enc, parse_uint_val hw.1 (show data.drop pos = encNat le _ o ++ rest from hd),
        encNat_length]
    | _ => simp [FieldVal.WF] at hw
  | strpSup =>
    cases v with
    | ref o =>
      simp only [FieldVal.WF, Bool.and_eq_true, decide_eq_true_eq] at hw
      simp [kindCon, rawVal, FieldVal.enc, parse_uint_val hw.1 (show data.drop pos = encNat le _ o ++ rest from hd),
        encNat_length]
    | _ => simp [FieldVal.WF] at hw
  | data n =>
    cases v with
    | fixed x =>
      simp only [FieldVal.WF, decide_eq_true_eq] at hw
      simp [kindCon, rawVal, FieldVal.enc, parse_uint_val hw (show data.drop pos = encNat le n x ++ rest from hd),
        encNat_length]
    | _ => simp [FieldVal.WF] at hw
  | udata =>
    cases v with
    | udata l =>
      simp only [FieldVal.WF] at hw
      simp [kindCon, rawVal, FieldVal.enc, parse_leb hw (show data.drop pos = l.enc ++ rest from hd), Leb.enc,
        encUlebN_length]
    | _ => simp [FieldVal.WF] at hw
  | data16 =>
    cases v with
    | data16 bs =>
      simp only [FieldVal.WF, decide_eq_true_eq] at hw
      have hcount : (lit 16).eval c .none = .ok (.int (bs.length : Nat)) := by simp [lit, Expr.eval, hw]
      simp [kindCon, rawVal, FieldVal.enc, bytesList,
        parse_array_bytes (env := env) (le := le) hcount (show data.drop pos = bs ++ rest from hd)]
    | _ => simp [FieldVal.WF] at hw
  | block =>
    cases v with
    | block lk bs =>
      simp only [FieldVal.WF, Bool.and_eq_true, decide_eq_true_eq] at hw
      have hd0 : data.drop pos = encUlebN lk bs.length ++ (bs ++ rest) := by
        simpa [FieldVal.enc, List.append_assoc] using hd
      simp [kindCon, rawVal, FieldVal.enc, bytesList, parse_block_uleb (env := env) (le := le) (ctx := c) hw.1 hw.2 hd0,
        encUlebN_length, Nat.add_assoc]
    | _ => simp [FieldVal.WF] at hw

theorem Fields.set_notin (A : Fields) (nm : String) (v : Val) (h : nm ∉ A.map (·.1)) :
    Fields.set A nm v = A ++ [(nm, v)] := by
  induction A with
  | nil => rfl
  | cons a A ih =>
    obtain ⟨k, x⟩ := a
    simp only [List.map_cons, List.mem_cons, not_or] at h
    have hk : ¬ k = nm := fun e => h.1 e.symm
    simp [Fields.set, hk, ih h.2]

theorem lnctName_inj {a b : Nat} {n : String} (ha : lnctName a = some n) (hb : lnctName b = some n) : a = b := by
  unfold lnctName at ha hb
  split at ha <;> split at hb <;> first | rfl | (cases ha <;> simp at hb)

/-- the names of a format's fields are not among the keys `A` already holds -/
def Fresh (fmt : List (Nat × Nat)) (A : Fields) : Prop :=
  ∀ x ∈ fmt, ∀ nm, lnctName x.1 = some nm → nm ∉ A.map (·.1)

theorem Fresh.tail {ct fc : Nat} {fmt : List (Nat × Nat)} {A : Fields} {nm : String} {v : Val}
    (hfr : Fresh ((ct, fc) :: fmt) A) (hnd : (((ct, fc) :: fmt).map (·.1)).Nodup) (hl : lnctName ct = some nm) :
    Fresh fmt (A ++ [(nm, v)]) := by
  intro y hy n hn
  simp only [List.map_append, List.map_cons, List.map_nil, List.mem_append, List.mem_singleton, not_or]
  refine ⟨hfr y (by simp [hy]) n hn, ?_⟩
  intro e
  subst e
  have : y.1 = ct := lnctName_inj hn hl
  simp only [List.map_cons, List.nodup_cons, List.mem_map] at hnd
  exact hnd.1 ⟨y, hy, this⟩

/-- a well-formed entry under a format whose head is `(ct, fc)` has a head field -/
theorem entryWF_cons {fmt64 : Bool} {secs : StrSecs} {ct fc : Nat} {fmt : List (Nat × Nat)} {vs : List FieldVal}
    {fnm : String} {k : FormKind} (hf : formOf fc = some (fnm, k))
    (hw : entryWF fmt64 secs (kindsOf ((ct, fc) :: fmt)) vs = true) :
    ∃ v vs', vs = v :: vs' ∧ v.WF fmt64 secs k = true ∧ entryWF fmt64 secs (kindsOf fmt) vs' = true := by
  cases vs with
  | nil => simp [kindsOf, hf, entryWF] at hw
  | cons v vs' =>
    simp only [kindsOf, List.map_cons, hf, Option.map_some, entryWF, Bool.and_eq_true] at hw
    exact ⟨v, vs', rfl, hw.1, hw.2⟩

theorem parseFields_fmt {env : Env} {data rest : Bytes} {le fmt64 : Bool} {secs : StrSecs} :
    ∀ (fmt : List (Nat × Nat)) (vs : List FieldVal) (A : Fields) (pos : Nat),
      (∀ x ∈ fmt, itemOK x) → (fmt.map (·.1)).Nodup → Fresh fmt A →
      entryWF fmt64 secs (kindsOf fmt) vs = true →
      data.drop pos = entryEnc le fmt64 (kindsOf fmt) vs ++ rest →
      Con.parseFields env data (fmtCons le (offSize fmt64) fmt) A A pos
        = .ok (A ++ entryRaw fmt vs, pos + (entryEnc le fmt64 (kindsOf fmt) vs).length, A ++ entryRaw fmt vs) := by
  intro fmt
  induction fmt with
  | nil =>
    intro vs A pos _ _ _ hw hd
    cases vs with
    | nil => simp [fmtCons, parseFields_nil, entryRaw, kindsOf, entryEnc]
    | cons v vs => simp [kindsOf, entryWF] at hw
  | cons x fmt ih =>
    intro vs A pos hx hnd hfr hw hd
    obtain ⟨nm, fnm, k, hl, hf, -⟩ := hx x (by simp)
    obtain ⟨ct, fc⟩ := x
    simp only at hl hf
    obtain ⟨v, vs', rfl, hv, hw'⟩ := entryWF_cons hf hw
    have hd0 : data.drop pos = v.enc le fmt64 k ++ (entryEnc le fmt64 (kindsOf fmt) vs' ++ rest) := by
      simpa [kindsOf, hf, entryEnc, List.append_assoc] using hd
    have hd1 := drop_add_of_drop hd0
    have hnm : nm ∉ A.map (·.1) := hfr (ct, fc) (by simp) nm hl
    simp only [fmtCons, hl, hf, parseFields_named, parse_kind hv hd0, Fields.set_notin A nm _ hnm]
    rw [ih vs' (A ++ [(nm, rawVal k v)]) _ (fun y hy => hx y (by simp [hy])) (by simpa using (List.nodup_cons.1 hnd).2)
      (hfr.tail hnd hl) hw' hd1]
    simp [entryRaw, hl, hf, kindsOf, entryEnc, List.append_assoc, Nat.add_assoc]

/-- `FormattedEntry._parse` on one encoded entry -/
theorem formattedParse_ok {env : Env} {cfg : DwarfCfg} {data rest : Bytes} {fmt64 : Bool} {secs : StrSecs}
    {ff : String} {c : Fields} {pos : Nat} {fmt : List (Nat × Nat)} {vs : List FieldVal}
    (hosz : cfg.fmt / 8 = offSize fmt64) (hfw : fmtWF fmt = true)
    (hc : Fields.getR c ff = .ok (fmtObs fmt))
    (hw : entryWF fmt64 secs (kindsOf fmt) vs = true)
    (hd : data.drop pos = entryEnc cfg.le fmt64 (kindsOf fmt) vs ++ rest) :
    formattedParse env (Spec.dwarfStructs cfg) data ff pos c
      = .ok (.record (entryRaw fmt vs), pos + (entryEnc cfg.le fmt64 (kindsOf fmt) vs).length, c) := by
  have hnd : (fmt.map (·.1)).Nodup := by
    simp only [fmtWF, Bool.and_eq_true, List.nodup_iff_count, decide_eq_true_eq] at hfw
    simpa [List.nodup_iff_count] using hfw.1.2
  have hfr : Fresh fmt [] := by intro x _ nm _; simp
  have := parseFields_fmt (env := env) (data := data) (rest := rest) (le := cfg.le) fmt vs [] pos
    (fmtWF_items hfw) hnd hfr hw hd
  simp only [formattedParse, hc, fmtObs_eq, bind, Except.bind, formattedFields_fmt cfg fmt (fmtWF_items hfw),
    parse_struct, hosz, this]
  simp

def rawRec (fmt : List (Nat × Nat)) (vs : List FieldVal) : Val := .record (entryRaw fmt vs)

theorem arrayLoop_entries {env : Env} {cfg : DwarfCfg} {data rest : Bytes} {fmt64 : Bool} {secs : StrSecs}
    {ff : String} {c : Fields} {fmt : List (Nat × Nat)}
    (hosz : cfg.fmt / 8 = offSize fmt64) (hfw : fmtWF fmt = true) (hc : Fields.getR c ff = .ok (fmtObs fmt)) :
    ∀ (es : List (List FieldVal)) (pos : Nat) (acc : List Val),
      (∀ e ∈ es, entryWF fmt64 secs (kindsOf fmt) e = true) →
      data.drop pos = es.flatMap (entryEnc cfg.le fmt64 (kindsOf fmt)) ++ rest →
      arrayLoop (fun p cx => formattedParse env (Spec.dwarfStructs cfg) data ff p cx) es.length pos c acc
        = .ok (.list (acc.reverse ++ es.map (rawRec fmt)),
               pos + (es.flatMap (entryEnc cfg.le fmt64 (kindsOf fmt))).length, c) := by
  intro es
  induction es with
  | nil => intro pos acc _ _; simp [arrayLoop]
  | cons e es ih =>
    intro pos acc hw hd
    have hd0 : data.drop pos = entryEnc cfg.le fmt64 (kindsOf fmt) e
        ++ (es.flatMap (entryEnc cfg.le fmt64 (kindsOf fmt)) ++ rest) := by
      simpa [List.append_assoc] using hd
    have hd1 := drop_add_of_drop hd0
    simp only [List.length_cons, arrayLoop]
    rw [formattedParse_ok hosz hfw hc (hw e (by simp)) hd0]
    simp only
    rw [ih _ _ (fun y hy => hw y (by simp [hy])) hd1]
    simp [rawRec, Nat.add_assoc]

/-! ### (3) `resolve_strings`: strp / line_strp / strp_sup offsets become the strings they designate -/

/-- the model-side view (`Secs`: sections of the running `DWARFInfo`) of the string sections `s` a
    version 5 header refers to: `.debug_line_str` and `.debug_str` are present with those contents, a
    supplementary file's `.debug_str` is attached when the Spec has one, and each fits a `BytesIO`
    (at most `PY_SSIZE_T_MAX` bytes: `stream.seek(offset)` raises OverflowError beyond) -/
structure SecsView (m : Secs) (s : StrSecs) : Prop where
  lineStr : m.lineStr = some s.lineStr
  str : m.str = some s.str
  sup : ∀ b, s.sup = some b → m.sup = some (some b)
  lineStr_len : s.lineStr.length ≤ ssizeMax
  str_len : s.str.length ≤ ssizeMax
  sup_len : ∀ b, s.sup = some b → b.length ≤ ssizeMax

theorem firstNul_isSome_lt {s : Bytes} {o : Nat} (h : (firstNul (s.drop o)).isSome = true) : o < s.length := by
  apply Classical.byContradiction
  intro hn
  have : s.drop o = [] := List.drop_eq_nil_of_le (by omega)
  simp [this, firstNul] at h

theorem getString_ok {s : Bytes} {o : Nat} (hlen : s.length ≤ ssizeMax)
    (h : (firstNul (s.drop o)).isSome = true) :
    getString (some s) (.int (o : Int)) = .ok (optBytes (firstNul (s.drop o))) := by
  have hlt := firstNul_isSome_lt h
  have hno : ¬ o > ssizeMax := by omega
  have hp : Model.parseCStringFromStream s o = .ok (firstNul (s.drop o)) := by
    rw [Model.parseCStringFromStream, cstringChunkLoop_eq s 64 (by decide) _ o [] (by omega)]
    cases firstNul (s.drop o) <;> simp
  simp [getString, asNat_nat, bind, Except.bind, hno, hp, pure, Except.pure]

theorem obs_ref (secs : StrSecs) (k : FormKind) (o : Nat) :
    (FieldVal.ref o).obs secs k = optBytes (resolve secs k o) := by
  cases k <;> simp only [FieldVal.obs] <;> cases resolve secs _ o <;> rfl

theorem getString_lineStrp {m : Secs} {secs : StrSecs} {fmt64 : Bool} {v : FieldVal} (hv : SecsView m secs)
    (hw : v.WF fmt64 secs .lineStrp = true) :
    getString m.lineStr (rawVal .lineStrp v) = .ok (v.obs secs .lineStrp) := by
  cases v with
  | ref o =>
    simp only [FieldVal.WF, Bool.and_eq_true, decide_eq_true_eq, resolve] at hw
    rw [hv.lineStr, rawVal, getString_ok hv.lineStr_len hw.2, obs_ref, resolve]
  | _ => simp [FieldVal.WF] at hw

theorem getString_strp {m : Secs} {secs : StrSecs} {fmt64 : Bool} {v : FieldVal} (hv : SecsView m secs)
    (hw : v.WF fmt64 secs .strp = true) :
    getString m.str (rawVal .strp v) = .ok (v.obs secs .strp) := by
  cases v with
  | ref o =>
    simp only [FieldVal.WF, Bool.and_eq_true, decide_eq_true_eq, resolve] at hw
    rw [hv.str, rawVal, getString_ok hv.str_len hw.2, obs_ref, resolve]
  | _ => simp [FieldVal.WF] at hw

theorem getString_strpSup {m : Secs} {secs : StrSecs} {fmt64 : Bool} {v : FieldVal} (hv : SecsView m secs)
    (hw : v.WF fmt64 secs .strpSup = true) :
    ∃ b, m.sup = some (some b) ∧ getString (some b) (rawVal .strpSup v) = .ok (v.obs secs .strpSup) := by
  cases v with
  | ref o =>
    simp only [FieldVal.WF, Bool.and_eq_true, decide_eq_true_eq, resolve] at hw
    cases hs : secs.sup with
    | none => simp [hs] at hw
    | some b =>
      simp only [hs, Option.bind_some] at hw
      refine ⟨b, hv.sup b hs, ?_⟩
      rw [rawVal, getString_ok (hv.sup_len b hs) hw.2, obs_ref, resolve, hs]
      rfl
  | _ => simp [FieldVal.WF] at hw

/-- forms that are not string references are delivered as they are -/
theorem raw_eq_obs {fmt64 : Bool} {secs : StrSecs} {k : FormKind} {v : FieldVal} (hw : v.WF fmt64 secs k = true)
    (h1 : k ≠ .lineStrp) (h2 : k ≠ .strp) (h3 : k ≠ .strpSup) : rawVal k v = v.obs secs k := by
  cases k <;> cases v <;> first | rfl | contradiction | (simp [FieldVal.WF] at hw)

theorem Fields.getR_mid (A B : Fields) (nm : String) (x : Val) (h : nm ∉ A.map (·.1)) :
    Fields.getR (A ++ (nm, x) :: B) nm = .ok x := by
  induction A with
  | nil => simp [Fields.getR, Fields.get?]
  | cons a A ih =>
    obtain ⟨k, y⟩ := a
    simp only [List.map_cons, List.mem_cons, not_or] at h
    have hk : ¬ k = nm := fun e => h.1 e.symm
    have := ih h.2
    simp only [Fields.getR, List.cons_append, Fields.get?, hk, if_false] at this ⊢
    exact this

theorem Fields.set_mid (A B : Fields) (nm : String) (x y : Val) (h : nm ∉ A.map (·.1)) :
    Fields.set (A ++ (nm, x) :: B) nm y = A ++ (nm, y) :: B := by
  induction A with
  | nil => simp [Fields.set]
  | cons a A ih =>
    obtain ⟨k, z⟩ := a
    simp only [List.map_cons, List.mem_cons, not_or] at h
    have hk : ¬ k = nm := fun e => h.1 e.symm
    simp [Fields.set, hk, ih h.2]

theorem replaceValue_map {α : Type} (replacer : Val → R Val) (nm : String) (A : α → Fields) (old new : α → Val)
    (B : α → Fields) :
    ∀ rows : List α, (∀ r ∈ rows, nm ∉ (A r).map (·.1)) → (∀ r ∈ rows, replacer (old r) = .ok (new r)) →
      replaceValue replacer nm (rows.map fun r => .record (A r ++ (nm, old r) :: B r))
        = .ok (rows.map fun r => .record (A r ++ (nm, new r) :: B r)) := by
  intro rows
  induction rows with
  | nil => intro _ _; rfl
  | cons r rows ih =>
    intro hA hrep
    simp only [List.map_cons, replaceValue, Fields.getR_mid _ _ _ _ (hA r (by simp)), hrep r (by simp),
      ih (fun x hx => hA x (by simp [hx])) (fun x hx => hrep x (by simp [hx])),
      Fields.set_mid _ _ _ _ _ (hA r (by simp)), bind, Except.bind, pure, Except.pure]

theorem valStr_beq (a b : String) : ((Val.str a) == (Val.str b)) = (a == b) := rfl

/-- one iteration of the `for field in lineprog_header[format_field]` loop -/
theorem resolveLoop_step {α : Type} {m : Secs} {secs : StrSecs} {fmt64 : Bool} (hv : SecsView m secs)
    {fc : Nat} {nm fnm : String} {k : FormKind} (hf : formOf fc = some (fnm, k)) (rest : List Val)
    (A : α → Fields) (v : α → FieldVal) (B : α → Fields) (rows : List α)
    (hA : ∀ r ∈ rows, nm ∉ (A r).map (·.1)) (hw : ∀ r ∈ rows, (v r).WF fmt64 secs k = true) :
    resolveLoop m (.record [("content_type", .str nm), ("form", .str fnm)] :: rest)
        (rows.map fun r => .record (A r ++ (nm, rawVal k (v r)) :: B r))
      = resolveLoop m rest (rows.map fun r => .record (A r ++ (nm, (v r).obs secs k) :: B r)) := by
  unfold formOf at hf
  split at hf <;> cases hf
  case h_2 =>
    have := replaceValue_map (getString m.lineStr) nm A (fun r => rawVal .lineStrp (v r))
      (fun r => (v r).obs secs .lineStrp) B rows hA (fun r hr => getString_lineStrp hv (hw r hr))
    simp [resolveLoop, Val.getField, Fields.getR, Fields.get?, bind, Except.bind, pure, Except.pure, valStr_beq, this]
  case h_3 =>
    have := replaceValue_map (getString m.str) nm A (fun r => rawVal .strp (v r))
      (fun r => (v r).obs secs .strp) B rows hA (fun r hr => getString_strp hv (hw r hr))
    simp [resolveLoop, Val.getField, Fields.getR, Fields.get?, bind, Except.bind, pure, Except.pure, valStr_beq, this]
  case h_4 =>
    cases rows with
    | nil => simp [resolveLoop, Val.getField, Fields.getR, Fields.get?, bind, Except.bind, pure, Except.pure, valStr_beq,
        replaceValue]; cases m.sup <;> rfl
    | cons r0 rows0 =>
      obtain ⟨b, hb, -⟩ := getString_strpSup hv (hw r0 (by simp))
      have := replaceValue_map (getString (some b)) nm A (fun r => rawVal .strpSup (v r))
        (fun r => (v r).obs secs .strpSup) B (r0 :: rows0) hA (fun r hr => by
          obtain ⟨b', hb', h'⟩ := getString_strpSup hv (hw r hr)
          have : b' = b := by rw [hb] at hb'; simpa using hb'.symm
          rw [← this]; exact h')
      simp only [List.map_cons] at this
      simp [resolveLoop, Val.getField, Fields.getR, Fields.get?, bind, Except.bind, pure, Except.pure, valStr_beq, hb,
        this]
  all_goals
    rw [List.map_congr_left (fun r hr => by
      rw [raw_eq_obs (hw r hr) (by intro h; cases h) (by intro h; cases h) (by intro h; cases h)])]
    simp [resolveLoop, Val.getField, Fields.getR, Fields.get?, bind, Except.bind, pure, Except.pure, valStr_beq]

/-- the head field of a row (rows are well-formed, so there is one) -/
def hdv (r : Fields × List FieldVal) : FieldVal := r.2.headD (.str [])

/-- the loop of `resolve_strings`, by induction over the format list: with the fields of the format
    prefix already handled collected in `r.1`, the remaining ones go from raw to resolved -/
theorem resolveLoop_rows {m : Secs} {secs : StrSecs} {fmt64 : Bool} (hv : SecsView m secs) :
    ∀ (todo : List (Nat × Nat)) (rows : List (Fields × List FieldVal)),
      (∀ x ∈ todo, itemOK x) → (todo.map (·.1)).Nodup →
      (∀ r ∈ rows, Fresh todo r.1 ∧ entryWF fmt64 secs (kindsOf todo) r.2 = true) →
      resolveLoop m (todo.map fmtItem) (rows.map fun r => .record (r.1 ++ entryRaw todo r.2))
        = .ok (rows.map fun r => .record (r.1 ++ entryObs secs todo r.2)) := by
  intro todo
  induction todo with
  | nil =>
    intro rows _ _ _
    simp [resolveLoop, entryRaw, entryObs]
  | cons x ts ih =>
    intro rows hx hnd hrows
    obtain ⟨nm, fnm, k, hl, hf, -⟩ := hx x (by simp)
    obtain ⟨ct, fc⟩ := x
    simp only at hl hf
    have hshape : ∀ r ∈ rows, ∃ v vs', r.2 = v :: vs' ∧ v.WF fmt64 secs k = true
        ∧ entryWF fmt64 secs (kindsOf ts) vs' = true :=
      fun r hr => entryWF_cons hf (hrows r hr).2
    have e1 : (rows.map fun r => Val.record (r.1 ++ entryRaw ((ct, fc) :: ts) r.2))
        = rows.map fun r => Val.record (r.1 ++ (nm, rawVal k (hdv r)) :: entryRaw ts r.2.tail) :=
      List.map_congr_left fun r hr => by
        obtain ⟨v, vs', h2, -, -⟩ := hshape r hr
        simp [hdv, h2, entryRaw, hl, hf]
    have e2 : (rows.map fun r => Val.record (r.1 ++ entryObs secs ((ct, fc) :: ts) r.2))
        = (rows.map fun r => (r.1 ++ [(nm, (hdv r).obs secs k)], r.2.tail)).map
            fun r => Val.record (r.1 ++ entryObs secs ts r.2) := by
      rw [List.map_map]
      exact List.map_congr_left fun r hr => by
        obtain ⟨v, vs', h2, -, -⟩ := hshape r hr
        simp [hdv, h2, entryObs, hl, hf]
    have e0 : fmtItem (ct, fc) = .record [("content_type", .str nm), ("form", .str fnm)] := by
      simp [fmtItem, hl, hf]
    have hih := ih (rows.map fun r => (r.1 ++ [(nm, (hdv r).obs secs k)], r.2.tail))
      (fun y hy => hx y (by simp [hy])) (by simpa using (List.nodup_cons.1 hnd).2) (by
        intro r' hr'
        obtain ⟨r, hr, rfl⟩ := List.mem_map.1 hr'
        obtain ⟨v, vs', h2, -, hw'⟩ := hshape r hr
        exact ⟨(hrows r hr).1.tail hnd hl, by simpa [h2] using hw'⟩)
    rw [List.map_cons, e0, e1,
      resolveLoop_step hv hf _ (fun r => r.1) hdv (fun r => entryRaw ts r.2.tail) rows
        (fun r hr => (hrows r hr).1 (ct, fc) (by simp) nm hl)
        (fun r hr => by obtain ⟨v, vs', h2, hw, -⟩ := hshape r hr; simpa [hdv, h2] using hw), e2, ← hih, List.map_map]
    congr 1
    exact List.map_congr_left fun r _ => by simp [List.append_assoc]

/-- `resolve_strings(lineprog_header, format_field, data_field)` on a parsed version 5 header -/
theorem resolveStrings_ok {m : Secs} {secs : StrSecs} {fmt64 : Bool} (hv : SecsView m secs)
    {hdr : Fields} {ff df : String} {fmt : List (Nat × Nat)} {es : List (List FieldVal)}
    (hfw : fmtWF fmt = true) (hes : ∀ e ∈ es, entryWF fmt64 secs (kindsOf fmt) e = true)
    (hf : Fields.get? hdr ff = some (fmtObs fmt))
    (hd : Fields.get? hdr df = some (.list (es.map (rawRec fmt)))) :
    resolveStrings m hdr ff df
      = .ok (Fields.set hdr df (.list (es.map fun e => .record (entryObs secs fmt e)))) := by
  have hnd : (fmt.map (·.1)).Nodup := by
    simp only [fmtWF, Bool.and_eq_true, decide_eq_true_eq] at hfw
    simpa using hfw.1.2
  have hne : ∃ x xs, fmt = x :: xs := by
    cases fmt with
    | nil => simp [fmtWF] at hfw
    | cons x xs => exact ⟨x, xs, rfl⟩
  obtain ⟨x, xs, hxs⟩ := hne
  have hloop := resolveLoop_rows hv fmt (es.map fun e => (([] : Fields), e)) (fmtWF_items hfw) hnd (by
    intro r hr
    obtain ⟨e, he, rfl⟩ := List.mem_map.1 hr
    exact ⟨fun _ _ _ _ => by simp, hes e he⟩)
  simp only [List.map_map, Function.comp_def, List.nil_append] at hloop
  have hf' : Fields.get? hdr ff = some (.list (fmtItem x :: xs.map fmtItem)) := by
    rw [hf, fmtObs_eq, hxs]; rfl
  have hloop' : resolveLoop m (fmtItem x :: xs.map fmtItem) (es.map (rawRec fmt))
      = .ok (es.map fun e => .record (entryObs secs fmt e)) := by
    rw [← hloop, hxs]; rfl
  simp only [resolveStrings, hf', Fields.getR, hd, bind, Except.bind, hloop', pure, Except.pure]

/-! ### the version 5 header struct, field by field -/

section
variable {env : Env} {S : DwarfStructs} {data : Bytes} {c : Fields} {pos : Nat}

theorem v5e_true {ver : Nat} (hver : Fields.getR c "version" = .ok (.int (ver : Int))) (h5 : ver ≥ 5) :
    v5e.eval c .none = .ok (.bool true) := by
  have : ((5 : Int) ≤ (ver : Int)) := by omega
  simp [v5e, Expr.eval, ctx, lit, hver, Expr.cmp, Val.asInt, bind, Except.bind, pure, Except.pure, this]

theorem phf_v5_plain {ver : Nat} {t : Con} {r : PRes} (hver : Fields.getR c "version" = .ok (.int (ver : Int)))
    (h5 : ver ≥ 5) (ht : ∀ len ff, t ≠ .prefixed len (.formatted ff))
    (hr : Con.parse env data t c pos = r) :
    parseHeaderField env S data (ifc v5e t) c pos = r := by
  unfold parseHeaderField ifc
  split
  · rename_i heq
    simp only [Con.ifThenElse.injEq] at heq
    exact absurd heq.2.1 (ht _ _)
  · rw [parse_ite, v5e_true hver h5]; simp [Val.truthy, hr]

theorem phf_lt5_v5 {ver : Nat} {t : Con} (hver : Fields.getR c "version" = .ok (.int (ver : Int)))
    (h5 : ver ≥ 5) (ht : ∀ len ff, t ≠ .prefixed len (.formatted ff)) :
    parseHeaderField env S data (ifc (.lt (ctx "version") (lit 5)) t) c pos = .ok (.none, pos, c) := by
  have hlt : ¬ ((ver : Int) < 5) := by omega
  have hev : (Expr.lt (ctx "version") (lit 5)).eval c .none = .ok (.bool false) := by
    simp [Expr.eval, ctx, lit, hver, Expr.cmp, Val.asInt, bind, Except.bind, pure, Except.pure, hlt]
  unfold parseHeaderField ifc
  split
  · rename_i heq
    simp only [Con.ifThenElse.injEq] at heq
    exact absurd heq.2.1 (ht _ _)
  · rw [parse_ite, hev]; simp [Val.truthy, parse_value, Expr.eval]

end

theorem entriesEnc_eq (le fmt64 : Bool) (fmt : List (Nat × Nat)) (es : List (List FieldVal)) :
    entriesEnc le fmt64 fmt es = encUleb es.length ++ es.flatMap (entryEnc le fmt64 (kindsOf fmt)) := rfl

/-- (2) the `directories` / `file_names` field: `If(ver5, PrefixedArray(FormattedEntry(format), uleb128))` -/
theorem phf_v5_entries {env : Env} {cfg : DwarfCfg} {data rest : Bytes} {fmt64 : Bool} {secs : StrSecs}
    {ff : String} {c : Fields} {pos ver : Nat} {fmt : List (Nat × Nat)} {es : List (List FieldVal)}
    (hver : Fields.getR c "version" = .ok (.int (ver : Int))) (h5 : ver ≥ 5)
    (hosz : cfg.fmt / 8 = offSize fmt64) (hfw : fmtWF fmt = true) (hc : Fields.getR c ff = .ok (fmtObs fmt))
    (hes : ∀ e ∈ es, entryWF fmt64 secs (kindsOf fmt) e = true)
    (hd : data.drop pos = entriesEnc cfg.le fmt64 fmt es ++ rest) :
    parseHeaderField env (Spec.dwarfStructs cfg) data (ifc v5e (.prefixed .uleb (.formatted ff))) c pos
      = .ok (.list (es.map (rawRec fmt)), pos + (entriesEnc cfg.le fmt64 fmt es).length, c) := by
  have hd0 : data.drop pos = encUleb es.length ++ (es.flatMap (entryEnc cfg.le fmt64 (kindsOf fmt)) ++ rest) := by
    simpa [entriesEnc_eq, List.append_assoc] using hd
  have hd1 := drop_add_of_drop hd0
  simp only [parseHeaderField, ifc, v5e_true hver h5, bind, Except.bind, Val.truthy, if_true, parse_minleb hd0,
    Val.asInt, Int.toNat_natCast]
  rw [arrayLoop_entries hosz hfw hc es _ [] hes hd1]
  simp [entriesEnc_eq, Nat.add_assoc]

/-- a version 5 header with the given `directories`, `file_names`, `include_directory`, `file_entry` -/
def v5FieldsWith (h : Header) (is : List Instr) (dirs fns incl fe : Val) : Fields :=
  [("unit_length", .int (h.mid ++ h.tail ++ encodeProgram h.p is).length),
   ("version", .int h.version), ("address_size", .int h.p.asz), ("segment_selector_size", .int h.segSel),
   ("header_length", .int h.tail.length),
   ("minimum_instruction_length", .int h.p.minInst),
   ("maximum_operations_per_instruction", .int h.p.maxOps),
   ("default_is_stmt", .int h.p.defaultIsStmt), ("line_base", .int h.p.lineBase),
   ("line_range", .int h.p.lineRange), ("opcode_base", .int h.p.opcodeBase),
   ("standard_opcode_lengths", .list (h.p.stdLens.map fun n => .int (Int.ofNat n))),
   ("directory_entry_format", fmtObs h.dirFmt), ("directories", dirs),
   ("file_name_entry_format", fmtObs h.fileFmt), ("file_names", fns),
   ("include_directory", incl), ("file_entry", fe)]

/-- what `struct_parse(Dwarf_lineprog_header)` delivers for a version 5 unit: string references
    are still offsets, the legacy tables are absent -/
def v5RawFields (h : Header) (is : List Instr) : Fields :=
  v5FieldsWith h is (.list (h.dirs.map (rawRec h.dirFmt))) (.list (h.fileNames.map (rawRec h.fileFmt))) .none .none

theorem parseHeader_v5 {env : Env} (henv : EnvOK env) {cfg : DwarfCfg} (h : Header) (secs : StrSecs) (is : List Instr)
    (pre rest : Bytes) (hwf : unitWF h secs is = true) (hv5 : h.version ≥ 5) (hle : h.p.le = cfg.le)
    (hfmt : cfg.fmt = if h.fmt64 then 64 else 32) :
    parseHeader env (Spec.dwarfStructs cfg) (pre ++ encodeUnit h is ++ rest) pre.length
      = .ok (v5RawFields h is, pre.length + headerSize h) := by
  simp only [unitWF, Header.WF, Bool.and_eq_true, decide_eq_true_eq, if_pos hv5, Bool.or_eq_true] at hwf
  obtain ⟨⟨⟨⟨⟨⟨⟨⟨hv2, hvle⟩, hp⟩, hasz⟩, hseg⟩, htail⟩, ⟨⟨⟨⟨hdf, hff⟩, _⟩, _⟩, hdall⟩, hfall⟩, _⟩, hbody⟩ := hwf
  have hp' := hp
  simp only [Params.WF, Bool.and_eq_true, decide_eq_true_eq, Bool.or_eq_true] at hp'
  obtain ⟨⟨⟨⟨⟨⟨⟨⟨⟨⟨⟨⟨⟨hmin, hm1⟩, hm256⟩, hm4⟩, hdis⟩, hlb1⟩, hlb2⟩, hlr1⟩, hlr256⟩, hob1⟩, hob256⟩, hlen⟩, hlens⟩, _⟩ := hp'
  have hlens' : ∀ n ∈ h.p.stdLens, n < 256 := by simpa [List.all_eq_true] using hlens
  have hdall' : ∀ e ∈ h.dirs, entryWF h.fmt64 secs (kindsOf h.dirFmt) e = true := by
    simpa [List.all_eq_true] using hdall
  have hfall' : ∀ e ∈ h.fileNames, entryWF h.fmt64 secs (kindsOf h.fileFmt) e = true := by
    simpa [List.all_eq_true] using hfall
  have hasz256 : h.p.asz < 256 := by rcases hasz with h | h <;> omega
  have hosz : cfg.fmt / 8 = offSize h.fmt64 := by rw [hfmt]; cases h.fmt64 <;> rfl
  have htl : h.tail.length < 256 ^ offSize h.fmt64 := by
    cases h.fmt64 <;> simp [offSize] <;> omega
  have hv4 : h.version ≥ 4 := by omega
  -- the bytes, piece by piece
  obtain ⟨N, hN⟩ : ∃ N, N = (h.mid ++ h.tail ++ encodeProgram h.p is).length := ⟨_, rfl⟩
  obtain ⟨data, hdata⟩ : ∃ d, d = pre ++ encodeUnit h is ++ rest := ⟨_, rfl⟩
  obtain ⟨DF, hDF⟩ : ∃ b : Bytes, b = fmtEnc h.dirFmt := ⟨_, rfl⟩
  obtain ⟨DE, hDE⟩ : ∃ b : Bytes, b = entriesEnc cfg.le h.fmt64 h.dirFmt h.dirs := ⟨_, rfl⟩
  obtain ⟨FF, hFF⟩ : ∃ b : Bytes, b = fmtEnc h.fileFmt := ⟨_, rfl⟩
  obtain ⟨FE, hFE⟩ : ∃ b : Bytes, b = entriesEnc cfg.le h.fmt64 h.fileFmt h.fileNames := ⟨_, rfl⟩
  have hsplit : data = pre ++ (encInitLen cfg.le (initLenOf h.fmt64 N) ++ (encNat cfg.le 2 h.version
      ++ ([byte h.p.asz] ++ ([byte h.segSel]
      ++ (encNat cfg.le (offSize h.fmt64) h.tail.length ++ ([byte h.p.minInst] ++ ([byte h.p.maxOps]
      ++ ([byte h.p.defaultIsStmt]
      ++ ([byte (ofSigned 8 h.p.lineBase)] ++ ([byte h.p.lineRange] ++ ([byte h.p.opcodeBase] ++ (h.p.stdLens.map byte
      ++ (DF ++ (DE ++ (FF ++ (FE ++ (encodeProgram h.p is ++ rest))))))))))))))))) := by
    have e1 : h.mid = encNat cfg.le 2 h.version ++ [byte h.p.asz, byte h.segSel]
        ++ encNat cfg.le (offSize h.fmt64) h.tail.length := by
      simp [Header.mid, hv5, hle]
    have e2 : h.tail = [byte h.p.minInst] ++ [byte h.p.maxOps] ++ [byte h.p.defaultIsStmt, byte (ofSigned 8 h.p.lineBase),
        byte h.p.lineRange, byte h.p.opcodeBase] ++ h.p.stdLens.map byte ++ (DF ++ DE ++ FF ++ FE) := by
      rw [Header.tail, if_pos hv5, if_pos hv4, hDF, hDE, hFF, hFE, hle]
    rw [hdata, encodeUnit, ← hN, e1, hle]
    generalize h.tail.length = TL
    rw [e2]
    simp [List.append_assoc]
  obtain ⟨p1, hp1⟩ : ∃ x, x = pre.length + initLenSize h.fmt64 := ⟨_, rfl⟩
  obtain ⟨p2, hp2⟩ : ∃ x, x = p1 + 2 := ⟨_, rfl⟩
  obtain ⟨p3, hp3⟩ : ∃ x, x = p2 + 1 := ⟨_, rfl⟩
  obtain ⟨p4, hp4⟩ : ∃ x, x = p3 + 1 := ⟨_, rfl⟩
  obtain ⟨p5, hp5⟩ : ∃ x, x = p4 + cfg.fmt / 8 := ⟨_, rfl⟩
  obtain ⟨p6, hp6⟩ : ∃ x, x = p5 + 1 := ⟨_, rfl⟩
  obtain ⟨p7, hp7⟩ : ∃ x, x = p6 + 1 := ⟨_, rfl⟩
  obtain ⟨p8, hp8⟩ : ∃ x, x = p7 + 1 := ⟨_, rfl⟩
  obtain ⟨p9, hp9⟩ : ∃ x, x = p8 + 1 := ⟨_, rfl⟩
  obtain ⟨p10, hp10⟩ : ∃ x, x = p9 + 1 := ⟨_, rfl⟩
  obtain ⟨p11, hp11⟩ : ∃ x, x = p10 + 1 := ⟨_, rfl⟩
  obtain ⟨p12, hp12⟩ : ∃ x, x = p11 + (h.p.stdLens.map byte).length := ⟨_, rfl⟩
  obtain ⟨p13, hp13⟩ : ∃ x, x = p12 + DF.length := ⟨_, rfl⟩
  obtain ⟨p14, hp14⟩ : ∃ x, x = p13 + DE.length := ⟨_, rfl⟩
  obtain ⟨p15, hp15⟩ : ∃ x, x = p14 + FF.length := ⟨_, rfl⟩
  obtain ⟨p16, hp16⟩ : ∃ x, x = p15 + FE.length := ⟨_, rfl⟩
  have d0 := congrArg (List.drop pre.length) hsplit
  rw [List.drop_left] at d0
  have d1 := drop_add_of_drop d0; rw [encInitLen_length, ← hp1] at d1
  have d2 := drop_add_of_drop d1; rw [encNat_length, ← hp2] at d2
  have d3 := drop_add_of_drop d2; rw [List.length_singleton, ← hp3] at d3
  have d4 := drop_add_of_drop d3; rw [List.length_singleton, ← hp4] at d4
  have d5 := drop_add_of_drop d4; rw [encNat_length, ← hosz, ← hp5] at d5
  have d6 := drop_add_of_drop d5; rw [List.length_singleton, ← hp6] at d6
  have d7 := drop_add_of_drop d6; rw [List.length_singleton, ← hp7] at d7
  have d8 := drop_add_of_drop d7; rw [List.length_singleton, ← hp8] at d8
  have d9 := drop_add_of_drop d8; rw [List.length_singleton, ← hp9] at d9
  have d10 := drop_add_of_drop d9; rw [List.length_singleton, ← hp10] at d10
  have d11 := drop_add_of_drop d10; rw [List.length_singleton, ← hp11] at d11
  have d12 := drop_add_of_drop d11; rw [← hp12] at d12
  have d13 := drop_add_of_drop d12; rw [← hp13] at d13
  have d14 := drop_add_of_drop d13; rw [← hp14] at d14
  have d15 := drop_add_of_drop d14; rw [← hp15] at d15
  -- field results
  have c0 := fun cx => parse_initlen_val (env := env) (c := cx) h.fmt64 N (by rw [hN]; exact hbody) d0
  have c1 := fun cx => parse_uint_val (env := env) (c := cx) (n := 2) (v := h.version) (by omega) d1
  have c2 := fun cx => parse_u8_val (env := env) (le := cfg.le) (c := cx) hasz256 d2
  have c3 := fun cx => parse_u8_val (env := env) (le := cfg.le) (c := cx) hseg d3
  have htl' : h.tail.length < 256 ^ (cfg.fmt / 8) := by rw [hosz]; exact htl
  have d4' := d4
  rw [← hosz] at d4'
  have c4 := fun cx => parse_uint_val (env := env) (c := cx) htl' d4'
  have c5 := fun cx => parse_u8_val (env := env) (le := cfg.le) (c := cx) hmin d5
  have c6 := fun cx => parse_u8_val (env := env) (le := cfg.le) (c := cx) hm256 d6
  have c7 := fun cx => parse_u8_val (env := env) (le := cfg.le) (c := cx) hdis d7
  have c8 := fun cx => parse_s8_val (env := env) (le := cfg.le) (c := cx) hlb1 hlb2 d8
  have c9 := fun cx => parse_u8_val (env := env) (le := cfg.le) (c := cx) hlr256 d9
  have c10 := fun cx => parse_u8_val (env := env) (le := cfg.le) (c := cx) hob256 d10
  simp only [← hp1] at c0
  simp only [← hp2] at c1
  simp only [← hp3] at c2
  simp only [← hp4] at c3
  simp only [← hp5] at c4
  simp only [← hp6] at c5
  simp only [← hp7] at c6
  simp only [← hp8] at c7
  simp only [← hp9] at c8
  simp only [← hp10] at c9
  simp only [← hp11] at c10
  have c6' : ∀ cx, (if h.version ≥ 4 then Con.parse env data (.uint 1 cfg.le) cx p6 else .ok (.int 1, p6, cx))
      = .ok (.int (h.p.maxOps : Int), p7, cx) := fun cx => by rw [if_pos hv4, c6]
  have c11 : ∀ cx, Fields.getR cx "opcode_base" = .ok (.int h.p.opcodeBase) →
      Con.parse env data (.array (.sub (ctx "opcode_base") (lit 1)) (.uint 1 cfg.le)) cx p11
        = .ok (.list (h.p.stdLens.map fun n => .int (Int.ofNat n)), p12, cx) := by
    intro cx hcx
    have hcount : (Expr.sub (ctx "opcode_base") (lit 1)).eval cx .none
        = .ok (.int ((h.p.stdLens.map byte).length : Nat)) := by
      have : (h.p.opcodeBase : Int) - 1 = ((h.p.opcodeBase - 1 : Nat) : Int) := by omega
      simp [Expr.eval, ctx, lit, hcx, Expr.arith, Val.asInt, bind, Except.bind, pure, Except.pure, hlen, this]
    rw [parse_array_bytes hcount d11, map_byte_toNat _ hlens', ← hp12]
  have c12 := fun cx => parse_fmt henv (le := cfg.le) (c := cx) hdf (by rw [← hDF]; exact d12)
  have c14 := fun cx => parse_fmt henv (le := cfg.le) (c := cx) hff (by rw [← hFF]; exact d14)
  rw [← hDF, ← hp13] at c12
  rw [← hFF, ← hp15] at c14
  have c13 : ∀ cx, Fields.getR cx "version" = .ok (.int (h.version : Int)) →
      Fields.getR cx "directory_entry_format" = .ok (fmtObs h.dirFmt) →
      parseHeaderField env (Spec.dwarfStructs cfg) data
          (ifc v5e (.prefixed .uleb (.formatted "directory_entry_format"))) cx p13
        = .ok (.list (h.dirs.map (rawRec h.dirFmt)), p14, cx) := by
    intro cx h1 h2
    rw [phf_v5_entries (secs := secs) h1 hv5 hosz hdf h2 hdall' (by rw [← hDE]; exact d13), ← hDE, ← hp14]
  have c15 : ∀ cx, Fields.getR cx "version" = .ok (.int (h.version : Int)) →
      Fields.getR cx "file_name_entry_format" = .ok (fmtObs h.fileFmt) →
      parseHeaderField env (Spec.dwarfStructs cfg) data
          (ifc v5e (.prefixed .uleb (.formatted "file_name_entry_format"))) cx p15
        = .ok (.list (h.fileNames.map (rawRec h.fileFmt)), p16, cx) := by
    intro cx h1 h2
    rw [phf_v5_entries (secs := secs) h1 hv5 hosz hff h2 hfall' (by rw [← hFE]; exact d15), ← hFE, ← hp16]
  have hend : p16 = pre.length + headerSize h := by
    have e1 : h.mid.length = 2 + 2 + offSize h.fmt64 := by simp [Header.mid, hv5, encNat_length] <;> omega
    have e2 : h.tail.length = 1 + 1 + 4 + h.p.stdLens.length + (DF.length + DE.length + FF.length + FE.length) := by
      rw [Header.tail, if_pos hv5, if_pos hv4, hDF, hDE, hFF, hFE, hle]
      simp; omega
    rw [headerSize, e1, e2]
    simp at hp12
    omega
  rw [parseHeader_eq _ (S_header cfg), ← hdata]
  simp only [headerFields, mkFields, f]
  have look : ∀ {cx : Fields} {k : String} {v : Val}, Fields.get? cx k = some v → Fields.getR cx k = .ok v := by
    intro cx k v hk; simp [Fields.getR, hk]
  refine Eq.trans (congrArg (Except.map _) (phf_step (by simp only [parseHeaderField]; exact c0 _))) ?_
  refine Eq.trans (congrArg (Except.map _) (phf_step (by simp only [parseHeaderField]; exact c1 _))) ?_
  refine Eq.trans (congrArg (Except.map _) (phf_step (phf_v5_plain (ver := h.version) (look (by simp [Fields.get?, Fields.set])) hv5
    (by intro _ _ hc; cases hc) (c2 _)))) ?_
  refine Eq.trans (congrArg (Except.map _) (phf_step (phf_v5_plain (ver := h.version) (look (by simp [Fields.get?, Fields.set])) hv5
    (by intro _ _ hc; cases hc) (c3 _)))) ?_
  refine Eq.trans (congrArg (Except.map _) (phf_step (by simp only [parseHeaderField]; exact c4 _))) ?_
  refine Eq.trans (congrArg (Except.map _) (phf_step (by simp only [parseHeaderField]; exact c5 _))) ?_
  refine Eq.trans (congrArg (Except.map _) (phf_step (phf_maxops (ver := h.version) (look (by simp [Fields.get?, Fields.set])) (c6' _)))) ?_
  refine Eq.trans (congrArg (Except.map _) (phf_step (by simp only [parseHeaderField]; exact c7 _))) ?_
  refine Eq.trans (congrArg (Except.map _) (phf_step (by simp only [parseHeaderField]; exact c8 _))) ?_
  refine Eq.trans (congrArg (Except.map _) (phf_step (by simp only [parseHeaderField]; exact c9 _))) ?_
  refine Eq.trans (congrArg (Except.map _) (phf_step (by simp only [parseHeaderField]; exact c10 _))) ?_
  refine Eq.trans (congrArg (Except.map _) (phf_step (by simp only [parseHeaderField]; exact c11 _ (look (by simp [Fields.get?, Fields.set]))))) ?_
  refine Eq.trans (congrArg (Except.map _) (phf_step (phf_v5_plain (ver := h.version) (look (by simp [Fields.get?, Fields.set])) hv5
    (by intro _ _ hc; simp [entryFormatCon, st] at hc) (c12 _)))) ?_
  refine Eq.trans (congrArg (Except.map _) (phf_step (c13 _ (look (by simp [Fields.get?, Fields.set]))
    (look (by simp [Fields.get?, Fields.set]))))) ?_
  refine Eq.trans (congrArg (Except.map _) (phf_step (phf_v5_plain (ver := h.version) (look (by simp [Fields.get?, Fields.set])) hv5
    (by intro _ _ hc; simp [entryFormatCon, st] at hc) (c14 _)))) ?_
  refine Eq.trans (congrArg (Except.map _) (phf_step (c15 _ (look (by simp [Fields.get?, Fields.set]))
    (look (by simp [Fields.get?, Fields.set]))))) ?_
  refine Eq.trans (congrArg (Except.map _) (phf_step (phf_lt5_v5 (ver := h.version) (look (by simp [Fields.get?, Fields.set])) hv5
    (by intro _ _ hc; cases hc)))) ?_
  refine Eq.trans (congrArg (Except.map _) (phf_step (phf_lt5_v5 (ver := h.version) (look (by simp [Fields.get?, Fields.set])) hv5
    (by intro _ _ hc; cases hc)))) ?_
  simp [parseHeaderFields, Except.map, Fields.set, v5RawFields, v5FieldsWith, hend, hN]

/-! ### the legacy-compatible tables and the whole of `_parse_line_program_at_offset` -/

theorem mapM_ok {α β : Type} (f : α → R β) (g : α → β) :
    ∀ l : List α, (∀ x ∈ l, f x = .ok (g x)) → l.mapM f = .ok (l.map g) := by
  intro l
  induction l with
  | nil => intro _; rfl
  | cons a l ih =>
    intro hl
    rw [List.mapM_cons, hl a (by simp), ih (fun x hx => hl x (by simp [hx]))]
    rfl

def obsRec (secs : StrSecs) (fmt : List (Nat × Nat)) (vs : List FieldVal) : Val := .record (entryObs secs fmt vs)

/-- every entry of a format that lists `DW_LNCT_path` has a path -/
theorem path_present (secs : StrSecs) {fmt64 : Bool} :
    ∀ (fmt : List (Nat × Nat)) (vs : List FieldVal), (∀ x ∈ fmt, itemOK x) → 1 ∈ fmt.map (·.1) →
      entryWF fmt64 secs (kindsOf fmt) vs = true →
      ∃ v, Fields.get? (entryObs secs fmt vs) "DW_LNCT_path" = some v := by
  intro fmt
  induction fmt with
  | nil => intro vs _ h1 _; simp at h1
  | cons x fmt ih =>
    intro vs hx h1 hw
    obtain ⟨nm, fnm, k, hl, hf, -⟩ := hx x (by simp)
    obtain ⟨ct, fc⟩ := x
    simp only at hl hf
    obtain ⟨v, vs', rfl, -, hw'⟩ := entryWF_cons hf hw
    simp only [entryObs, hl, hf, Fields.get?]
    by_cases hnm : nm = "DW_LNCT_path"
    · simp [hnm]
    · simp only [hnm, if_false]
      simp only [List.map_cons, List.mem_cons] at h1
      rcases h1 with h1 | h1
      · subst h1; simp [lnctName] at hl; exact absurd hl.symm hnm
      · exact ih vs' (fun y hy => hx y (by simp [hy])) h1 hw'

theorem legacyFileEntry_ok (fs : Fields) : legacyFileEntry (.record fs) = .ok (legacyFile fs) := by
  simp only [legacyFileEntry, Model.Line.getOrNone, legacyFile, Spec.Line.getOrNone, bind, Except.bind, pure,
    Except.pure]
  cases Fields.get? fs "DW_LNCT_path" <;> cases Fields.get? fs "DW_LNCT_directory_index"
    <;> cases Fields.get? fs "DW_LNCT_timestamp" <;> cases Fields.get? fs "DW_LNCT_size" <;> rfl

theorem observe_v5 (h : Header) (secs : StrSecs) (is : List Instr) (hv5 : h.version ≥ 5) :
    h.observe secs is = .record (v5FieldsWith h is (.list (h.dirs.map (obsRec secs h.dirFmt)))
      (.list (h.fileNames.map (obsRec secs h.fileFmt)))
      (.list (h.dirs.map fun e => Spec.Line.getOrNone (entryObs secs h.dirFmt e) "DW_LNCT_path"))
      (.list (h.fileNames.map fun e => legacyFile (entryObs secs h.fileFmt e)))) := by
  simp [Header.observe, v5FieldsWith, hv5, List.map_map, Function.comp_def, obsRec]

/-- `_parse_line_program_at_offset` on a well-formed version 5 unit builds exactly the
    `LineProgram` object the property prescribes -/
theorem parseFresh_v5 {env : Env} (henv : EnvOK env) {cfg : DwarfCfg} {msecs : Secs} (h : Header) (secs : StrSecs)
    (is : List Instr) (pre rest : Bytes) (hwf : unitWF h secs is = true) (hv5 : h.version ≥ 5)
    (hle : h.p.le = cfg.le) (hfmt : cfg.fmt = if h.fmt64 then 64 else 32) (hview : SecsView msecs secs) :
    parseLineProgramFresh env (Spec.dwarfStructs cfg) cfg.fmt msecs (pre ++ encodeUnit h is ++ rest) pre.length
      = .ok (lpOf h secs is pre.length) := by
  have hwf0 := hwf
  simp only [unitWF, Header.WF, Bool.and_eq_true, decide_eq_true_eq, if_pos hv5, Bool.or_eq_true] at hwf0
  obtain ⟨⟨⟨⟨⟨⟨⟨⟨_, _⟩, _⟩, _⟩, _⟩, _⟩, ⟨⟨⟨⟨hdf, hff⟩, hdne⟩, hfne⟩, hdall⟩, hfall⟩, _⟩, _⟩ := hwf0
  have hdall' : ∀ e ∈ h.dirs, entryWF h.fmt64 secs (kindsOf h.dirFmt) e = true := by
    simpa [List.all_eq_true] using hdall
  have hfall' : ∀ e ∈ h.fileNames, entryWF h.fmt64 secs (kindsOf h.fileFmt) e = true := by
    simpa [List.all_eq_true] using hfall
  have hpath : 1 ∈ h.dirFmt.map (·.1) := by
    simp only [fmtWF, Bool.and_eq_true] at hdf
    simpa using hdf.2
  obtain ⟨d0, ds0, hd⟩ : ∃ d ds, h.dirs = d :: ds := by
    cases hh : h.dirs with
    | nil => exact absurd hh hdne
    | cons d ds => exact ⟨d, ds, rfl⟩
  obtain ⟨f0, fs0, hf⟩ : ∃ d ds, h.fileNames = d :: ds := by
    cases hh : h.fileNames with
    | nil => exact absurd hh hfne
    | cons d ds => exact ⟨d, ds, rfl⟩
  have hneg : ∀ n : Nat, ¬ ((n : Int) < 0) := fun n => by omega
  have hend : (encodeUnit h is).length
      = (h.mid ++ h.tail ++ encodeProgram h.p is).length + (if cfg.fmt = 32 then 4 else 12) := by
    rw [hfmt]
    cases hf : h.fmt64 <;> simp [encodeUnit, encInitLen_length, initLenSize, hf] <;> omega
  -- resolve_strings, twice
  have r1 := resolveStrings_ok (m := msecs) (fmt64 := h.fmt64) hview (hdr := v5RawFields h is)
    (ff := "directory_entry_format") (df := "directories") hdf hdall'
    (by simp [v5RawFields, v5FieldsWith, Fields.get?]) (by simp [v5RawFields, v5FieldsWith, Fields.get?])
  have s1 : Fields.set (v5RawFields h is) "directories" (.list (h.dirs.map fun e => .record (entryObs secs h.dirFmt e)))
      = v5FieldsWith h is (.list (h.dirs.map (obsRec secs h.dirFmt)))
          (.list (h.fileNames.map (rawRec h.fileFmt))) .none .none := by
    simp [v5RawFields, v5FieldsWith, Fields.set, obsRec]
  rw [s1] at r1
  have r2 := resolveStrings_ok (m := msecs) (fmt64 := h.fmt64) hview
    (hdr := v5FieldsWith h is (.list (h.dirs.map (obsRec secs h.dirFmt))) (.list (h.fileNames.map (rawRec h.fileFmt))) .none .none)
    (ff := "file_name_entry_format") (df := "file_names") hff hfall'
    (by simp [v5FieldsWith, Fields.get?]) (by simp [v5FieldsWith, Fields.get?])
  have s2 : Fields.set (v5FieldsWith h is (.list (h.dirs.map (obsRec secs h.dirFmt)))
        (.list (h.fileNames.map (rawRec h.fileFmt))) .none .none) "file_names"
        (.list (h.fileNames.map fun e => .record (entryObs secs h.fileFmt e)))
      = v5FieldsWith h is (.list (h.dirs.map (obsRec secs h.dirFmt)))
          (.list (h.fileNames.map (obsRec secs h.fileFmt))) .none .none := by
    simp [v5FieldsWith, Fields.set, obsRec]
  rw [s2] at r2
  -- the legacy-compatible tables
  have g1 : Fields.get? (v5FieldsWith h is (.list (h.dirs.map (obsRec secs h.dirFmt)))
        (.list (h.fileNames.map (obsRec secs h.fileFmt))) .none .none) "directories"
      = some (.list (obsRec secs h.dirFmt d0 :: ds0.map (obsRec secs h.dirFmt))) := by
    simp [v5FieldsWith, Fields.get?, hd]
  have m1 : (obsRec secs h.dirFmt d0 :: ds0.map (obsRec secs h.dirFmt)).mapM (attrOf "DW_LNCT_path")
      = .ok (h.dirs.map fun e => Spec.Line.getOrNone (entryObs secs h.dirFmt e) "DW_LNCT_path") := by
    rw [show obsRec secs h.dirFmt d0 :: ds0.map (obsRec secs h.dirFmt) = h.dirs.map (obsRec secs h.dirFmt) by
      rw [hd]; rfl, mapM_ok _ (fun v => match v with
        | .record fs => Spec.Line.getOrNone fs "DW_LNCT_path"
        | _ => .none), List.map_map]
    · rfl
    · intro v hv
      obtain ⟨e, he, rfl⟩ := List.mem_map.1 hv
      obtain ⟨x, hx⟩ := path_present secs h.dirFmt e (fmtWF_items hdf) hpath (hdall' e he)
      simp [obsRec, attrOf, hx, Spec.Line.getOrNone]
  have s3 : ∀ x, Fields.set (v5FieldsWith h is (.list (h.dirs.map (obsRec secs h.dirFmt)))
        (.list (h.fileNames.map (obsRec secs h.fileFmt))) .none .none) "include_directory" x
      = v5FieldsWith h is (.list (h.dirs.map (obsRec secs h.dirFmt)))
          (.list (h.fileNames.map (obsRec secs h.fileFmt))) x .none := by
    intro x; simp [v5FieldsWith, Fields.set]
  have g2 : ∀ x, Fields.get? (v5FieldsWith h is (.list (h.dirs.map (obsRec secs h.dirFmt)))
        (.list (h.fileNames.map (obsRec secs h.fileFmt))) x .none) "file_names"
      = some (.list (obsRec secs h.fileFmt f0 :: fs0.map (obsRec secs h.fileFmt))) := by
    intro x; simp [v5FieldsWith, Fields.get?, hf]
  have m2 : (obsRec secs h.fileFmt f0 :: fs0.map (obsRec secs h.fileFmt)).mapM legacyFileEntry
      = .ok (h.fileNames.map fun e => legacyFile (entryObs secs h.fileFmt e)) := by
    rw [show obsRec secs h.fileFmt f0 :: fs0.map (obsRec secs h.fileFmt) = h.fileNames.map (obsRec secs h.fileFmt) by
      rw [hf]; rfl, mapM_ok _ (fun v => match v with
        | .record fs => legacyFile fs
        | _ => .none), List.map_map]
    · rfl
    · intro v hv
      obtain ⟨e, he, rfl⟩ := List.mem_map.1 hv
      simp [obsRec, legacyFileEntry_ok]
  have s4 : ∀ x y, Fields.set (v5FieldsWith h is (.list (h.dirs.map (obsRec secs h.dirFmt)))
        (.list (h.fileNames.map (obsRec secs h.fileFmt))) x .none) "file_entry" y
      = v5FieldsWith h is (.list (h.dirs.map (obsRec secs h.dirFmt)))
          (.list (h.fileNames.map (obsRec secs h.fileFmt))) x y := by
    intro x y; simp [v5FieldsWith, Fields.set]
  rw [parseLineProgramFresh, parseHeader_v5 henv h secs is pre rest hwf hv5 hle hfmt]
  simp only [bind, Except.bind, pure, Except.pure, r1, r2, g1, m1, s3, g2, m2, s4]
  have hvi5 : ((5 : Int) ≤ (h.version : Int)) := by omega
  -- `program_start_offset`: `header_length` bytes past the `header_length` field
  have hstart : pre.length + headerSize h
      = pre.length + (if cfg.fmt = 32 then 4 else 12) + 2 + 2 + cfg.fmt / 8 + h.tail.length := by
    have e1 : h.mid.length = 2 + 2 + offSize h.fmt64 := by simp [Header.mid, hv5, encNat_length] <;> omega
    rw [headerSize, e1, hfmt]
    cases h.fmt64 <;> simp [initLenSize, offSize] <;> omega
  simp only [lpOf, observe_v5 h secs is hv5, v5FieldsWith, hend, if_pos hv5, hstart]
  generalize (h.mid ++ h.tail ++ encodeProgram h.p is).length = N
  simp [Fields.get?, Val.getNat, Val.getInt, Val.getField, Fields.getR, Val.asNat, Val.asInt, bind, Except.bind, hneg,
    hvi5]
  omega

/-- versions 2–5 together -/
theorem parseFresh_all {env : Env} {cfg : DwarfCfg} (msecs : Secs) (h : Header) (secs : StrSecs) (is : List Instr)
    (pre rest : Bytes) (hwf : unitWF h secs is = true) (hle : h.p.le = cfg.le)
    (hfmt : cfg.fmt = if h.fmt64 then 64 else 32)
    (henv : h.version ≥ 5 → EnvOK env) (hsecs : h.version ≥ 5 → SecsView msecs secs) :
    parseLineProgramFresh env (Spec.dwarfStructs cfg) cfg.fmt msecs (pre ++ encodeUnit h is ++ rest) pre.length
      = .ok (lpOf h secs is pre.length) := by
  by_cases hv : h.version ≤ 4
  · exact parseFresh_legacy msecs h secs is pre rest hwf hv hle hfmt
  · have hv5 : h.version ≥ 5 := by omega
    exact parseFresh_v5 (henv hv5) h secs is pre rest hwf hv5 hle hfmt (hsecs hv5)

end PyElf.Proofs.Line
