/-
  C14, edge of the domain (fourth wave): lemmas about `iter_notes` on extents that are not a whole
  number of padded notes followed by < 12 bytes:

  * a last note whose descriptor padding (or more) lies beyond the extent — the loop only asks
    `offset + 12 <= end` before it reads a note, the note itself is read from the stream;
  * a header the extent promises but the file does not hold (ELFParseError);
  * a name field without a terminator (construct's error, not wrapped by `struct_parse`);
  * the drop form of the round trip (`data.drop off = …` instead of `pre ++ … ++ post`), which the
    whole-file theorems (Proofs/NotesFile.lean) use.
-/
import PyElf.Spec.NotesEdge
import PyElf.Proofs.Notes
namespace PyElf.Proofs.NotesEdge
open PyElf PyElf.Spec PyElf.Spec.C14 PyElf.Model PyElf.Proofs PyElf.Proofs.Notes

/-! ### a note without its trailing padding -/

theorem encNote_eq_bare (c : ElfCfg) (n : Note) :
    encNote c n = encNoteBare c n ++ zeros (pad4 (encDesc c n.desc).length) := by
  simp [encNote, encNoteBare, encNhdr, List.append_assoc]

theorem encNhdr_length (c : ElfCfg) (a b t : Nat) : (encNhdr c a b t).length = 12 := by
  simp [encNhdr, encNat_length]

theorem encNoteBare_length (c : ElfCfg) (n : Note) :
    (encNoteBare c n).length = 12 + ((nameField n.owner).length + pad4 (nameField n.owner).length)
      + (encDesc c n.desc).length := by
  simp [encNoteBare, encNhdr_length, zeros_length]; omega

/-- `noteRest_ok` without asking the file for the descriptor's padding -/
theorem noteRest_bare {env : Env} (he : EnvOK env) (c : ElfCfg) (hc : cfgWf c = true) (n : Note) (hn : n.wf c = true)
    {data : Bytes} {off offD : Nat} {rest : Bytes}
    (hd : data.drop offD = encDesc c n.desc ++ rest)
    (hoff : offD = off + 12 + ((nameField n.owner).length + pad4 (nameField n.owner).length)) :
    noteRest (Spec.elfStructs c) env c.cls data off
      (.record [("n_namesz", .int (nameField n.owner).length), ("n_descsz", .int (encDesc c n.desc).length),
                ("n_type", enumVal (typeTable c.core) n.type), ("n_offset", .int off), ("n_name", obsOwner n.owner)])
      offD offD = .ok (obsNote c off n, off + (encNote c n).length) := by
  unfold noteRest
  simp only [bind, Except.bind, setItem, Fields.set, Val.getField, Val.getNat, Val.asNat, Val.asInt, Fields.getR, Fields.get?,
    String.reduceEq, if_false, if_true, reduceIte, reduceCtorEq, streamRead, Int.toNat_natCast,
    show ¬ (((encDesc c n.desc).length : Int) < 0) by omega]
  rw [readN_of_drop hd, decodeDesc_ok he c hc n hn hd]
  simp only [roundup2, pure, Except.pure, obsNote, encNote_length]
  have e1 : ((offD + ((encDesc c n.desc).length + pad4 (encDesc c n.desc).length) : Nat) : Int) - (off : Int)
      = ((12 + ((nameField n.owner).length + pad4 (nameField n.owner).length)
          + ((encDesc c n.desc).length + pad4 (encDesc c n.desc).length) : Nat) : Int) := by omega
  have e2 : offD + ((encDesc c n.desc).length + pad4 (encDesc c n.desc).length)
      = off + (12 + ((nameField n.owner).length + pad4 (nameField n.owner).length)
          + ((encDesc c n.desc).length + pad4 (encDesc c n.desc).length)) := by omega
  rw [e1, e2]

/-- one iteration of the loop on a note whose descriptor is followed by anything (or nothing):
    the note is yielded in full — the padding is never read — and the next offset is past the padding -/
theorem noteAt_bare {env : Env} (he : EnvOK env) (c : ElfCfg) (hc : cfgWf c = true) (n : Note) (hn : n.wf c = true)
    {data : Bytes} {off : Nat} {rest : Bytes} (hd : data.drop off = encNoteBare c n ++ rest) :
    noteAt (Spec.elfStructs c) env c.cls data 12 off = .ok (obsNote c off n, off + (encNote c n).length) := by
  have hwf := hn
  simp only [Note.wf, Bool.and_eq_true, decide_eq_true_eq] at hwf
  obtain ⟨⟨⟨⟨⟨how, hnl⟩, htl⟩, hdl⟩, -⟩, -⟩ := hwf
  have hd0 : data.drop off = encAll (nhdrSpec c (nameField n.owner).length (encDesc c n.desc).length n.type)
      ++ ((nameField n.owner ++ zeros (pad4 (nameField n.owner).length))
        ++ (encDesc c n.desc ++ rest)) := by
    rw [hd]; simp [encNoteBare, encNhdr, encAll, nhdrSpec, List.append_assoc]
  have hlen12 : (encAll (nhdrSpec c (nameField n.owner).length (encDesc c n.desc).length n.type)).length = 12 := by
    simp [encAll, nhdrSpec, encNat_length]
  have hd1 := drop_add_of_drop hd0
  rw [hlen12] at hd1
  have hd2 := drop_add_of_drop hd1
  simp only [List.length_append, zeros_length] at hd2
  have hhdr := structParse_flat (nhdr_good he c hnl hdl htl) hd0
  rw [hlen12] at hhdr
  unfold noteAt
  rw [nhdr_con c (nameField n.owner).length (encDesc c n.desc).length n.type, hhdr]
  simp only [bind, Except.bind, setAll, nhdrSpec, setItem, Fields.set, Val.getField, Fields.getR, Fields.get?,
    String.reduceEq, if_false, if_true, reduceIte, reduceCtorEq]
  cases ho : n.owner with
  | none =>
    simp only [ho, nameField, List.length_nil] at hd2 ⊢
    simp only [Val.truthy, Int.natCast_zero, ne_eq, not_true, decide_false, if_false, Bool.false_eq_true]
    have hp0 : pad4 0 = 0 := by decide
    rw [hp0] at hd2
    have := noteRest_bare he c hc n hn (off := off) hd2 (by simp [ho, nameField, hp0])
    simpa [ho, nameField, obsOwner] using this
  | some s =>
    have hs : ∀ b ∈ s, b ≠ 0 := by
      intro b hb
      have := how
      simp only [ho, ownerWf, List.all_eq_true] at this
      simpa using this b hb
    simp only [ho, nameField] at hd1 hd2 ⊢
    have htr : (Val.int ((s ++ [0]).length : Nat)).truthy = true := by
      simp only [Val.truthy, List.length_append, List.length_singleton]
      exact decide_eq_true (by omega)
    simp only [htr, if_true, Val.asNat, Val.asInt, bind, Except.bind, Int.toNat_natCast,
      show ¬ (((s ++ [0]).length : Int) < 0) by omega, if_false, roundup2, streamRead]
    have hchunk : readN data (off + 12) ((s ++ [0]).length + pad4 (s ++ [0]).length)
        = s ++ [0] ++ zeros (pad4 (s ++ [0]).length) := by
      have := readN_of_drop hd1
      rw [List.length_append (as := s ++ [0]), zeros_length] at this
      exact this
    rw [hchunk, cstring_chunk s _ hs]
    simp only [List.length_append, zeros_length]
    have := noteRest_bare he c hc n hn (off := off) hd2 (by simp [ho, nameField])
    simp only [ho, nameField, obsOwner, latin1_eq] at this
    simpa [Nat.add_assoc] using this

/-! ### the loop over a prefix of well-formed notes -/

theorem obsNotes_append (c : ElfCfg) : ∀ (ns ms : List Note) (off : Nat),
    obsNotes c off (ns ++ ms) = obsNotes c off ns ++ obsNotes c (off + (encodeNotes c ns).length) ms := by
  intro ns
  induction ns with
  | nil => intro ms off; simp [obsNotes, encodeNotes]
  | cons n ns ih =>
    intro ms off
    simp only [List.cons_append, obsNotes, ih, encodeNotes_cons, List.length_append]
    simp [Nat.add_assoc]

theorem encodeNotes_append (c : ElfCfg) (ns ms : List Note) :
    encodeNotes c (ns ++ ms) = encodeNotes c ns ++ encodeNotes c ms := by
  simp [encodeNotes]

theorem encodeNotes_singleton (c : ElfCfg) (n : Note) : encodeNotes c [n] = encNote c n := by
  simp [encodeNotes]

/-- while whole notes lie inside the extent the loop yields them and moves on -/
theorem iterNotesLoop_prefix {env : Env} (he : EnvOK env) (c : ElfCfg) (hc : cfgWf c = true) (data : Bytes) (end_ : Nat) :
    ∀ (ns : List Note), (∀ n ∈ ns, n.wf c = true) → ∀ (fuel off : Nat) (acc : List Val) (rest : Bytes),
      data.drop off = encodeNotes c ns ++ rest → off + (encodeNotes c ns).length ≤ end_ →
      iterNotesLoop (Spec.elfStructs c) env c.cls data 12 end_ (fuel + ns.length) off acc
        = iterNotesLoop (Spec.elfStructs c) env c.cls data 12 end_ fuel (off + (encodeNotes c ns).length)
            (acc ++ obsNotes c off ns) := by
  intro ns
  induction ns with
  | nil => intro _ fuel off acc rest _ _; simp [encodeNotes, obsNotes]
  | cons n ns ih =>
    intro hwf fuel off acc rest hd hend
    rw [encodeNotes_cons] at hd hend
    rw [List.append_assoc] at hd
    have hlen := encNote_length c n
    rw [List.length_append] at hend
    rw [List.length_cons, ← Nat.add_assoc, iterNotesLoop, if_pos (by omega), noteAt_ok he c hc n (hwf n (by simp)) hd]
    simp only
    rw [ih (fun m hm => hwf m (by simp [hm])) fuel _ _ rest (drop_add_of_drop hd) (by omega)]
    simp [obsNotes, encodeNotes_cons, Nat.add_assoc]

theorem iterNotesLoop_stop (S : ElfStructs) (env : Env) (cls : Nat) (data : Bytes) (end_ fuel off : Nat) (acc : List Val)
    (h : end_ < off + 12) : iterNotesLoop S env cls data 12 end_ (fuel + 1) off acc = .ok acc := by
  rw [iterNotesLoop, if_neg (by omega)]

theorem iterNotesLoop_err (S : ElfStructs) (env : Env) (cls : Nat) (data : Bytes) (end_ fuel off : Nat) (acc : List Val)
    (e : Err) (h : off + 12 ≤ end_) (hn : noteAt S env cls data 12 off = .error e) :
    iterNotesLoop S env cls data 12 end_ (fuel + 1) off acc = .error e := by
  rw [iterNotesLoop, if_pos h, hn]

/-- fuel bookkeeping: `size + 1 = (size - k) + 1 + k` iterations -/
theorem iterNotes_unfold (c : ElfCfg) (env : Env) (data : Bytes) (off size : Nat) :
    iterNotes (Spec.elfStructs c) env c.cls data off size
      = iterNotesLoop (Spec.elfStructs c) env c.cls data 12 (off + size) (size + 1) off [] := by
  unfold iterNotes
  rw [sizeof_nhdr]
  rfl

/-- the round trip in drop form: the extent holds the encoded notes and fewer than 12 more bytes -/
theorem iterNotes_drop {env : Env} (he : EnvOK env) (c : ElfCfg) (hc : cfgWf c = true) (ns : List Note)
    (hwf : ∀ n ∈ ns, n.wf c = true) (data : Bytes) (off k : Nat) (rest : Bytes) (hk : k < 12)
    (hd : data.drop off = encodeNotes c ns ++ rest) :
    iterNotes (Spec.elfStructs c) env c.cls data off ((encodeNotes c ns).length + k) = .ok (obsNotes c off ns) := by
  rw [iterNotes_unfold]
  have hge := encodeNotes_length_ge c ns
  rw [iterNotesLoop_ok he c hc _ _ ns hwf _ _ [] rest k (by omega) hd (by omega) hk]
  simp

/-- a last note that begins (its header) inside the extent but whose name, descriptor or padding run
    past the extent end is yielded in full from the bytes of the file, and the walk stops -/
theorem iterNotes_overrun {env : Env} (he : EnvOK env) (c : ElfCfg) (hc : cfgWf c = true) (ns : List Note)
    (hwf : ∀ n ∈ ns, n.wf c = true) (n : Note) (hn : n.wf c = true) (data : Bytes) (off size : Nat) (rest : Bytes)
    (hd : data.drop off = encodeNotes c ns ++ (encNoteBare c n ++ rest))
    (hlo : (encodeNotes c ns).length + 12 ≤ size)
    (hhi : size < (encodeNotes c ns).length + (encNote c n).length + 12) :
    iterNotes (Spec.elfStructs c) env c.cls data off size = .ok (obsNotes c off (ns ++ [n])) := by
  rw [iterNotes_unfold]
  have hge := encodeNotes_length_ge c ns
  have hf : size + 1 = (size - ns.length) + 1 + ns.length := by omega
  rw [hf, iterNotesLoop_prefix he c hc data _ ns hwf _ off [] _ hd (by omega)]
  have hd' := drop_add_of_drop hd
  have hlen := encNote_length c n
  rw [iterNotesLoop, if_pos (by omega), noteAt_bare he c hc n hn hd']
  simp only
  have hpos : 0 < size - ns.length := by omega
  obtain ⟨m, hm⟩ : ∃ m, size - ns.length = m + 1 := ⟨size - ns.length - 1, by omega⟩
  rw [hm, iterNotesLoop_stop _ _ _ _ _ _ _ _ (by omega)]
  simp [obsNotes_append, obsNotes]

/-! ### a header the extent promises but the file does not hold -/

theorem parse_enum_err {env : Env} {data : Bytes} {sub : Con} {tbl : String} {pass : Bool} {ctx : Fields}
    {pos : Nat} {e : Err} (h : Con.parse env data sub ctx pos = .error e) :
    Con.parse env data (.enum sub tbl pass) ctx pos = .error e := by
  rw [Con.parse, h]; rfl

theorem pf_err {env : Env} {data : Bytes} {nm : Option String} {c : Con} {rest : ConFields} {obj ctx : Fields} {pos : Nat}
    {e : Err} (h : Con.parse env data c ctx pos = .error e) :
    Con.parseFields env data (.cons nm false c rest) obj ctx pos = .error e := by
  rw [Con.parseFields]; simp only [Bool.false_eq_true, if_false, h, bind, Except.bind]

theorem split_take {bs : Bytes} {k : Nat} (h : k ≤ bs.length) : bs = bs.take k ++ bs.drop k ∧ (bs.take k).length = k := by
  refine ⟨(List.take_append_drop k bs).symm, ?_⟩
  simp [List.length_take]; omega

/-- fewer than 12 bytes left in the file: the note header does not parse -/
theorem nhdr_truncated (env : Env) (c : ElfCfg) (data : Bytes) (pos : Nat) (h : (data.drop pos).length < 12) :
    structParse env (Spec.elfStructs c).Elf_Nhdr data pos = .error .elfParseError := by
  rw [nhdr_con c 0 0 0]
  unfold structParse
  simp only [Con.parse, toConFields, nhdrSpec]
  by_cases h4 : (data.drop pos).length < 4
  · rw [pf_err (parse_uint_short rfl h4)]; rfl
  obtain ⟨e1, l1⟩ := split_take (bs := data.drop pos) (k := 4) (by omega)
  rw [pf_named (parse_uint_ok e1 l1)]
  have hd1 := drop_add_of_drop e1
  rw [l1] at hd1
  by_cases h8 : ((data.drop pos).drop 4).length < 4
  · rw [pf_err (parse_uint_short hd1 h8)]; rfl
  obtain ⟨e2, l2⟩ := split_take (bs := (data.drop pos).drop 4) (k := 4) (by omega)
  rw [pf_named (parse_uint_ok (hd1.trans e2) l2)]
  have hd2 := drop_add_of_drop (hd1.trans e2)
  rw [l2] at hd2
  have h12 : (((data.drop pos).drop 4).drop 4).length < 4 := by
    simp only [List.length_drop] at h h4 h8 ⊢; omega
  rw [pf_err (parse_enum_err (parse_uint_short hd2 h12))]; rfl

theorem noteAt_truncated (env : Env) (c : ElfCfg) (data : Bytes) (off : Nat) (h : (data.drop off).length < 12) :
    noteAt (Spec.elfStructs c) env c.cls data 12 off = .error .elfParseError := by
  unfold noteAt
  rw [nhdr_truncated env c data off h]
  rfl

/-- the extent has room for one more header after the notes, the file has not: ELFParseError -/
theorem iterNotes_truncated {env : Env} (he : EnvOK env) (c : ElfCfg) (hc : cfgWf c = true) (ns : List Note)
    (hwf : ∀ n ∈ ns, n.wf c = true) (data : Bytes) (off size : Nat) (rest : Bytes)
    (hd : data.drop off = encodeNotes c ns ++ rest) (hrest : rest.length < 12)
    (hsize : (encodeNotes c ns).length + 12 ≤ size) :
    iterNotes (Spec.elfStructs c) env c.cls data off size = .error .elfParseError := by
  rw [iterNotes_unfold]
  have hge := encodeNotes_length_ge c ns
  have hf : size + 1 = (size - ns.length) + 1 + ns.length := by omega
  rw [hf, iterNotesLoop_prefix he c hc data _ ns hwf _ off [] _ hd (by omega)]
  have hd' := drop_add_of_drop hd
  exact iterNotesLoop_err _ _ _ _ _ _ _ _ _ (by omega) (noteAt_truncated env c data _ (by rw [hd']; exact hrest))

/-! ### a name field without terminator -/

theorem cstring_no_nul (chunk : Bytes) (h : ∀ b ∈ chunk, b ≠ 0) : cstringParseBytes chunk = .error .structError := by
  unfold cstringParseBytes
  rw [parseCString_unterminated (data := chunk) (pos := 0) h (by simp)]

/-- the header parses, `n_namesz > 0`, and the (up to) `roundup(n_namesz, 4)` bytes after it hold no NUL:
    `CString('').parse` raises construct's error -/
theorem noteAt_name_unterminated {env : Env} (he : EnvOK env) (c : ElfCfg) (namesz descsz type : Nat)
    (hn0 : 0 < namesz) (hns : namesz < 2 ^ 32) (hds : descsz < 2 ^ 32) (hty : type < 2 ^ 32)
    {data : Bytes} {off : Nat} {rest : Bytes} (hd : data.drop off = encNhdr c namesz descsz type ++ rest)
    (hnul : ∀ b ∈ rest.take (namesz + pad4 namesz), b ≠ 0) :
    noteAt (Spec.elfStructs c) env c.cls data 12 off = .error .structError := by
  have hd0 : data.drop off = encAll (nhdrSpec c namesz descsz type) ++ rest := by
    rw [hd]; simp [encNhdr, encAll, nhdrSpec, List.append_assoc]
  have hlen12 : (encAll (nhdrSpec c namesz descsz type)).length = 12 := by
    simp [encAll, nhdrSpec, encNat_length]
  have hd1 := drop_add_of_drop hd0
  rw [hlen12] at hd1
  have hhdr := structParse_flat (nhdr_good he c hns hds hty) hd0
  rw [hlen12] at hhdr
  unfold noteAt
  rw [nhdr_con c namesz descsz type, hhdr]
  simp only [bind, Except.bind, setAll, nhdrSpec, setItem, Fields.set, Val.getField, Fields.getR, Fields.get?,
    String.reduceEq, if_false, if_true, reduceIte, reduceCtorEq]
  have htr : (Val.int (namesz : Nat)).truthy = true := by
    simp only [Val.truthy]
    exact decide_eq_true (by omega)
  simp only [htr, if_true, Val.asNat, Val.asInt, bind, Except.bind, Int.toNat_natCast,
    show ¬ ((namesz : Int) < 0) by omega, if_false, roundup2, streamRead]
  have hchunk : readN data (off + 12) (namesz + pad4 namesz) = rest.take (namesz + pad4 namesz) := by
    simp [readN, hd1]
  rw [hchunk, cstring_no_nul _ hnul]

theorem iterNotes_name_unterminated {env : Env} (he : EnvOK env) (c : ElfCfg) (hc : cfgWf c = true) (ns : List Note)
    (hwf : ∀ n ∈ ns, n.wf c = true) (namesz descsz type : Nat)
    (hn0 : 0 < namesz) (hns : namesz < 2 ^ 32) (hds : descsz < 2 ^ 32) (hty : type < 2 ^ 32)
    (data : Bytes) (off size : Nat) (rest : Bytes)
    (hd : data.drop off = encodeNotes c ns ++ (encNhdr c namesz descsz type ++ rest))
    (hnul : ∀ b ∈ rest.take (namesz + pad4 namesz), b ≠ 0)
    (hsize : (encodeNotes c ns).length + 12 ≤ size) :
    iterNotes (Spec.elfStructs c) env c.cls data off size = .error .structError := by
  rw [iterNotes_unfold]
  have hge := encodeNotes_length_ge c ns
  have hf : size + 1 = (size - ns.length) + 1 + ns.length := by omega
  rw [hf, iterNotesLoop_prefix he c hc data _ ns hwf _ off [] _ hd (by omega)]
  have hd' := drop_add_of_drop hd
  exact iterNotesLoop_err _ _ _ _ _ _ _ _ _ (by omega)
    (noteAt_name_unterminated he c namesz descsz type hn0 hns hds hty hd' hnul)

/-! ### a raw descriptor cut short by the end of the file -/

theorem readN_short {data : Bytes} {pos n : Nat} {avail : Bytes} (hd : data.drop pos = avail) (h : avail.length ≤ n) :
    readN data pos n = avail := by
  simp [readN, hd, List.take_of_length_le h]

theorem noteRest_cut {env : Env} (c : ElfCfg) (owner : Option Bytes) (type descsz : Nat) (avail : Bytes)
    (hk : descKind c.core owner type = .raw) (hlt : avail.length ≤ descsz)
    {data : Bytes} {off offD : Nat} (hd : data.drop offD = avail)
    (hoff : offD = off + 12 + paddedLen (nameField owner).length) :
    noteRest (Spec.elfStructs c) env c.cls data off
      (.record [("n_namesz", .int (nameField owner).length), ("n_descsz", .int descsz),
                ("n_type", enumVal (typeTable c.core) type), ("n_offset", .int off), ("n_name", obsOwner owner)])
      offD offD = .ok (obsNoteCut c off owner type descsz avail,
                       off + (12 + paddedLen (nameField owner).length + paddedLen descsz)) := by
  unfold noteRest
  simp only [bind, Except.bind, setItem, Fields.set, Val.getField, Val.getNat, Val.asNat, Val.asInt, Fields.getR, Fields.get?,
    String.reduceEq, if_false, if_true, reduceIte, reduceCtorEq, streamRead, Int.toNat_natCast,
    show ¬ ((descsz : Int) < 0) by omega]
  rw [readN_short hd hlt, decodeDesc_eq, modelKind_spec, hk]
  simp only [roundup2, pure, Except.pure, obsNoteCut, paddedLen]
  have e1 : ((offD + (descsz + pad4 descsz) : Nat) : Int) - (off : Int)
      = ((12 + ((nameField owner).length + pad4 (nameField owner).length) + (descsz + pad4 descsz) : Nat) : Int) := by
    simp only [paddedLen] at hoff; omega
  have e2 : offD + (descsz + pad4 descsz)
      = off + (12 + ((nameField owner).length + pad4 (nameField owner).length) + (descsz + pad4 descsz)) := by
    simp only [paddedLen] at hoff; omega
  rw [e1, e2]

theorem noteAt_cut {env : Env} (he : EnvOK env) (c : ElfCfg) (owner : Option Bytes) (type descsz : Nat) (avail : Bytes)
    (how : ownerWf owner = true) (hnl : (nameField owner).length < 2 ^ 32) (htl : type < 2 ^ 32) (hdl : descsz < 2 ^ 32)
    (hk : descKind c.core owner type = .raw) (hlt : avail.length ≤ descsz)
    {data : Bytes} {off : Nat} (hd : data.drop off = encNoteCut c owner type descsz avail) :
    noteAt (Spec.elfStructs c) env c.cls data 12 off
      = .ok (obsNoteCut c off owner type descsz avail, off + (12 + paddedLen (nameField owner).length + paddedLen descsz)) := by
  have hd0 : data.drop off = encAll (nhdrSpec c (nameField owner).length descsz type)
      ++ ((nameField owner ++ zeros (pad4 (nameField owner).length)) ++ avail) := by
    rw [hd]; simp [encNoteCut, encNhdr, encAll, nhdrSpec, List.append_assoc]
  have hlen12 : (encAll (nhdrSpec c (nameField owner).length descsz type)).length = 12 := by
    simp [encAll, nhdrSpec, encNat_length]
  have hd1 := drop_add_of_drop hd0
  rw [hlen12] at hd1
  have hd2 := drop_add_of_drop hd1
  simp only [List.length_append, zeros_length] at hd2
  have hhdr := structParse_flat (nhdr_good he c hnl hdl htl) hd0
  rw [hlen12] at hhdr
  unfold noteAt
  rw [nhdr_con c (nameField owner).length descsz type, hhdr]
  simp only [bind, Except.bind, setAll, nhdrSpec, setItem, Fields.set, Val.getField, Fields.getR, Fields.get?,
    String.reduceEq, if_false, if_true, reduceIte, reduceCtorEq]
  cases ho : owner with
  | none =>
    simp only [ho, nameField, List.length_nil] at hd2 ⊢
    simp only [Val.truthy, Int.natCast_zero, ne_eq, not_true, decide_false, if_false, Bool.false_eq_true]
    have hp0 : pad4 0 = 0 := by decide
    rw [hp0] at hd2
    have := noteRest_cut (env := env) c none type descsz avail (by rw [← ho]; exact hk) hlt (off := off) hd2
      (by simp [nameField, paddedLen, hp0])
    simpa [nameField, obsOwner] using this
  | some s =>
    have hs : ∀ b ∈ s, b ≠ 0 := by
      intro b hb
      have := how
      simp only [ho, ownerWf, List.all_eq_true] at this
      simpa using this b hb
    simp only [ho, nameField] at hd1 hd2 ⊢
    have htr : (Val.int ((s ++ [0]).length : Nat)).truthy = true := by
      simp only [Val.truthy, List.length_append, List.length_singleton]
      exact decide_eq_true (by omega)
    simp only [htr, if_true, Val.asNat, Val.asInt, bind, Except.bind, Int.toNat_natCast,
      show ¬ (((s ++ [0]).length : Int) < 0) by omega, if_false, roundup2, streamRead]
    have hchunk : readN data (off + 12) ((s ++ [0]).length + pad4 (s ++ [0]).length)
        = s ++ [0] ++ zeros (pad4 (s ++ [0]).length) := by
      have := readN_of_drop hd1
      rw [List.length_append (as := s ++ [0]), zeros_length] at this
      exact this
    rw [hchunk, cstring_chunk s _ hs]
    simp only [List.length_append, zeros_length]
    have := noteRest_cut (env := env) c (some s) type descsz avail (by rw [← ho]; exact hk) hlt (off := off) hd2
      (by simp [nameField, paddedLen])
    simp only [nameField, obsOwner, latin1_eq] at this
    simpa [Nat.add_assoc] using this

/-- the file ends inside the descriptor of the last note (a type without structured descriptor): the
    note is yielded with the bytes that were there; the walk stops when the extent does not reach 12 bytes
    past the note's declared end -/
theorem iterNotes_desc_cut {env : Env} (he : EnvOK env) (c : ElfCfg) (hc : cfgWf c = true) (ns : List Note)
    (hwf : ∀ n ∈ ns, n.wf c = true) (owner : Option Bytes) (type descsz : Nat) (avail : Bytes)
    (how : ownerWf owner = true) (hnl : (nameField owner).length < 2 ^ 32) (htl : type < 2 ^ 32) (hdl : descsz < 2 ^ 32)
    (hk : descKind c.core owner type = .raw) (hlt : avail.length ≤ descsz)
    (data : Bytes) (off size : Nat)
    (hd : data.drop off = encodeNotes c ns ++ encNoteCut c owner type descsz avail)
    (hlo : (encodeNotes c ns).length + 12 ≤ size)
    (hhi : size < (encodeNotes c ns).length + (12 + paddedLen (nameField owner).length + paddedLen descsz) + 12) :
    iterNotes (Spec.elfStructs c) env c.cls data off size
      = .ok (obsNotes c off ns ++ [obsNoteCut c (off + (encodeNotes c ns).length) owner type descsz avail]) := by
  rw [iterNotes_unfold]
  have hge := encodeNotes_length_ge c ns
  have hf : size + 1 = (size - ns.length) + 1 + ns.length := by omega
  rw [hf, iterNotesLoop_prefix he c hc data _ ns hwf _ off [] _ hd (by omega)]
  have hd' := drop_add_of_drop hd
  rw [iterNotesLoop, if_pos (by omega), noteAt_cut he c owner type descsz avail how hnl htl hdl hk hlt hd']
  simp only
  obtain ⟨m, hm⟩ : ∃ m, size - ns.length = m + 1 := ⟨size - ns.length - 1, by omega⟩
  rw [hm, iterNotesLoop_stop _ _ _ _ _ _ _ _ (by omega)]
  simp

end PyElf.Proofs.NotesEdge
