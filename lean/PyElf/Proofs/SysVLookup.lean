/-
  The System V hash lookup over a well-formed table: what the walk returns.
-/
import PyElf.Model.Symbols
import PyElf.Spec.Symbols
import PyElf.Proofs.HashFns
namespace PyElf.Proofs
open PyElf PyElf.Spec PyElf.Model

/-- a Python list of ints -/
def natsVal (l : List Nat) : Val := .list (l.map fun (c : Nat) => Val.int (c : Int))

/-- the params Container an `Elf_Hash` parse yields for table `t` -/
def sysvParams (t : SysVTable) : Val :=
  .record [("nbuckets", .int t.nbucket), ("nchains", .int t.nchain),
           ("buckets", natsVal t.buckets), ("chains", natsVal t.chains)]

theorem listIdx_map (l : List Nat) (i : Nat) :
    listIdx (natsVal l) i = match l[i]? with
      | some x => .ok x
      | none => .error .indexError := by
  simp only [listIdx, natsVal, List.getElem?_map]
  cases h : l[i]? with
  | none => rfl
  | some x =>
    simp only [Option.map_some, Val.asNat, Val.asInt, bind, Except.bind]
    have : ¬ ((x : Int) < 0) := by omega
    simp [this]

theorem chainFrom_mem (chains : List Nat) : ∀ (fuel i : Nat) (l : List Nat),
    chainFrom chains fuel i = some l → ∀ j ∈ l, j ≠ 0 ∧ j < chains.length := by
  intro fuel
  induction fuel with
  | zero => intro i l h; simp [chainFrom] at h
  | succ f ih =>
    intro i l h j hj
    simp only [chainFrom] at h
    by_cases hi : i = 0
    · simp [hi] at h; subst h; simp at hj
    · simp only [hi, if_false] at h
      cases hc : chains[i]? with
      | none => simp [hc] at h
      | some nx =>
        simp only [hc, Option.map_eq_some_iff] at h
        obtain ⟨l', hl', rfl⟩ := h
        rcases List.mem_cons.mp hj with rfl | hj'
        · exact ⟨hi, by
            have := List.getElem?_eq_some_iff.mp hc
            exact this.1⟩
        · exact ih nx l' hl' j hj'

/-- the walk over a chain returns the first symbol on it bearing the name -/
theorem elfHashLoop_eq (getSym : Nat → R Symbol) (sym : Nat → Symbol) (chains : List Nat) (name : Bytes)
    (hget : ∀ j, j < chains.length → getSym j = .ok (sym j)) :
    ∀ (fuel i : Nat) (l : List Nat), chainFrom chains fuel i = some l →
      elfHashLoop getSym (natsVal chains) name fuel i
        = .ok ((l.find? fun j => decide ((sym j).2 = name)).map sym) := by
  intro fuel
  induction fuel with
  | zero => intro i l h; simp [chainFrom] at h
  | succ f ih =>
    intro i l h
    simp only [chainFrom] at h
    by_cases hi : i = 0
    · simp [hi] at h; subst h; simp [elfHashLoop, hi]
    · simp only [hi, if_false] at h
      cases hc : chains[i]? with
      | none => simp [hc] at h
      | some nx =>
        simp only [hc, Option.map_eq_some_iff] at h
        obtain ⟨l', hl', rfl⟩ := h
        have hlt : i < chains.length := (List.getElem?_eq_some_iff.mp hc).1
        simp only [elfHashLoop, hi, if_false, hget i hlt, bind, Except.bind]
        by_cases hn : (sym i).2 = name
        · simp [hn, pure, Except.pure]
        · simp only [hn, if_false, listIdx_map, hc, List.find?_cons, decide_false]
          exact ih nx l' hl'

/-- the facts `WFSysV` packs -/
structure SysVFacts (names : List Bytes) (t : SysVTable) : Prop where
  nb : 1 ≤ t.nbucket
  blen : t.buckets.length = t.nbucket
  clen : t.chains.length = t.nchain
  n : t.nchain = names.length
  ends : ∀ b ∈ t.buckets, (chainFrom t.chains (t.nchain + 1) b).isSome
  hashed : ∀ i, 1 ≤ i → i < names.length →
    ∃ l, sysvBucketChain t (names.getD i []) = some l ∧ i ∈ l

theorem WFSysV_facts {names : List Bytes} {t : SysVTable} (h : WFSysV names t = true) : SysVFacts names t := by
  simp only [WFSysV, Bool.and_eq_true, decide_eq_true_eq, List.all_eq_true] at h
  obtain ⟨⟨⟨⟨⟨⟨⟨⟨⟨h1, h2⟩, h3⟩, h4⟩, _⟩, _⟩, _⟩, _⟩, h9⟩, h10⟩ := h
  refine ⟨h1, h2, h3, h4, h9, ?_⟩
  intro i hi1 hin
  have := h10 i (List.mem_range.mpr hin)
  have hne : (i == 0) = false := by simp; omega
  simp only [hne, Bool.false_or] at this
  have hget : names[i]? = some names[i] := List.getElem?_eq_getElem hin
  rw [hget] at this
  simp only at this
  have hD : names.getD i [] = names[i] := by simp [List.getD, hget]
  rw [hD]
  cases hc : sysvBucketChain t names[i] with
  | none => simp [hc] at this
  | some l =>
    simp only [hc] at this
    exact ⟨l, rfl, by simpa using this⟩

/-- `ELFHashTable.get_symbol` on a well-formed table: the first symbol with that name on the chain of
    the name's bucket -/
theorem elfHashGetSymbol_eq (names : List Bytes) (t : SysVTable) (getSym : Nat → R Symbol) (sym : Nat → Symbol)
    (name : Bytes) (hwf : WFSysV names t = true)
    (hget : ∀ j, j < names.length → getSym j = .ok (sym j)) :
    ∃ l, sysvBucketChain t name = some l ∧
      elfHashGetSymbol (sysvParams t) getSym name
        = .ok ((l.find? fun j => decide ((sym j).2 = name)).map sym) := by
  have F := WFSysV_facts hwf
  have hb : (elfHash32 name).toNat % t.nbucket < t.buckets.length := by
    rw [F.blen]; exact Nat.mod_lt _ F.nb
  have hbk : t.buckets[(elfHash32 name).toNat % t.nbucket]? = some t.buckets[(elfHash32 name).toNat % t.nbucket] :=
    List.getElem?_eq_getElem hb
  have hmem : t.buckets[(elfHash32 name).toNat % t.nbucket] ∈ t.buckets := List.getElem_mem hb
  have hsome := F.ends _ hmem
  obtain ⟨l, hl⟩ := Option.isSome_iff_exists.mp hsome
  refine ⟨l, ?_, ?_⟩
  · simp only [sysvBucketChain, hbk]; exact hl
  · have hnb : ¬ t.nbucket = 0 := by have := F.nb; omega
    have hnn1 : ¬ ((t.nbucket : Int) < 0) := by omega
    have hnn2 : ¬ ((t.nchain : Int) < 0) := by omega
    simp only [elfHashGetSymbol, sysvParams, Val.getNat, Val.getField, Fields.getR, Fields.get?, Val.asNat, Val.asInt,
      bind, Except.bind, pure, Except.pure, hnn1, hnn2, if_false, Int.toNat_natCast, hnb,
      String.reduceEq, if_true, elf_hash_eq, listIdx_map, hbk]
    exact elfHashLoop_eq getSym sym t.chains name (by rw [F.clen, F.n]; exact hget) _ _ l hl

end PyElf.Proofs

namespace PyElf.Proofs
open PyElf PyElf.Spec PyElf.Model

section corollaries
variable (names : List Bytes) (t : SysVTable) (getSym : Nat → R Symbol) (sym : Nat → Symbol) (name : Bytes)

/-- soundness: whatever is returned is a symbol `1 ≤ j < n` of the table bearing the requested name -/
theorem sysv_sound (hwf : WFSysV names t = true) (hget : ∀ j, j < names.length → getSym j = .ok (sym j))
    (hname : ∀ j, j < names.length → (sym j).2 = names.getD j []) :
    ∃ r, elfHashGetSymbol (sysvParams t) getSym name = .ok r ∧
      ∀ s, r = some s → ∃ j, 1 ≤ j ∧ j < names.length ∧ names.getD j [] = name ∧ s = sym j := by
  obtain ⟨l, hl, heq⟩ := elfHashGetSymbol_eq names t getSym sym name hwf hget
  refine ⟨_, heq, ?_⟩
  intro s hs
  obtain ⟨j, hj, rfl⟩ := Option.map_eq_some_iff.mp hs
  have hmem := List.mem_of_find?_eq_some hj
  have hp := List.find?_some hj
  have F := WFSysV_facts hwf
  have hb : (elfHash32 name).toNat % t.nbucket < t.buckets.length := by rw [F.blen]; exact Nat.mod_lt _ F.nb
  simp only [sysvBucketChain, List.getElem?_eq_getElem hb] at hl
  obtain ⟨h0, hlt⟩ := chainFrom_mem t.chains _ _ l hl j hmem
  rw [F.clen, F.n] at hlt
  refine ⟨j, by omega, hlt, ?_, rfl⟩
  rw [← hname j hlt]; simpa using hp

/-- completeness: if some symbol `1 ≤ i < n` bears the name, a symbol bearing it is returned -/
theorem sysv_complete (hwf : WFSysV names t = true) (hget : ∀ j, j < names.length → getSym j = .ok (sym j))
    (hname : ∀ j, j < names.length → (sym j).2 = names.getD j [])
    (i : Nat) (hi1 : 1 ≤ i) (hin : i < names.length) (hnm : names.getD i [] = name) :
    ∃ j, 1 ≤ j ∧ j < names.length ∧ names.getD j [] = name ∧
      elfHashGetSymbol (sysvParams t) getSym name = .ok (some (sym j)) := by
  obtain ⟨l, hl, heq⟩ := elfHashGetSymbol_eq names t getSym sym name hwf hget
  have F := WFSysV_facts hwf
  obtain ⟨l', hl', himem⟩ := F.hashed i hi1 hin
  rw [hnm, hl] at hl'
  have hll : l = l' := Option.some.inj hl'
  subst hll
  have hpi : decide ((sym i).2 = name) = true := by rw [hname i hin, hnm]; simp
  cases hf : l.find? (fun j => decide ((sym j).2 = name)) with
  | none =>
    have := List.find?_eq_none.mp hf i himem
    rw [hpi] at this; exact absurd rfl this
  | some j =>
    obtain ⟨r, hr, hsound⟩ := sysv_sound names t getSym sym name hwf hget hname
    rw [heq, hf] at hr
    obtain ⟨j', h1, h2, h3, h4⟩ := hsound (sym j) (by rw [← Except.ok.inj hr]; rfl)
    exact ⟨j', h1, h2, h3, by rw [heq, hf]; simp [h4]⟩

/-- absent names (no symbol `1 ≤ i < n` bears it) yield `None` — including names that collide in hash or bucket -/
theorem sysv_absent_none (hwf : WFSysV names t = true) (hget : ∀ j, j < names.length → getSym j = .ok (sym j))
    (hname : ∀ j, j < names.length → (sym j).2 = names.getD j [])
    (habs : ∀ i, 1 ≤ i → i < names.length → names.getD i [] ≠ name) :
    elfHashGetSymbol (sysvParams t) getSym name = .ok none := by
  obtain ⟨r, hr, hsound⟩ := sysv_sound names t getSym sym name hwf hget hname
  cases r with
  | none => exact hr
  | some s =>
    obtain ⟨j, h1, h2, h3, _⟩ := hsound s rfl
    exact absurd h3 (habs j h1 h2)

theorem sysv_count_eq (hwf : WFSysV names t = true) : elfHashCount (sysvParams t) = .ok (.int names.length) := by
  have F := WFSysV_facts hwf
  simp [elfHashCount, sysvParams, Val.getField, Fields.getR, Fields.get?, F.n]

theorem sysv_empty (hnb : t.nbucket = 0) : elfHashGetSymbol (sysvParams t) getSym name = .ok none := by
  simp [elfHashGetSymbol, sysvParams, Val.getNat, Val.getField, Fields.getR, Fields.get?, Val.asNat, Val.asInt,
    bind, Except.bind, pure, Except.pure, hnb]

end corollaries
end PyElf.Proofs
