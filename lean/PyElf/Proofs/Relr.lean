/-
  Helper lemmas for C08, part 3: RELR — bit-level induction for the bitmap loop
  and induction over the word stream for the outer loop.
-/
import PyElf.Proofs.Reloc
namespace PyElf.Proofs.Reloc
open PyElf PyElf.Spec PyElf.Model PyElf.Model.Reloc PyElf.Proofs
set_option linter.unusedSimpArgs false

/-- bit-level induction: the shift-until-zero loop yields exactly the set bits above bit 0 -/
theorem relrBitmapLoop_eq (base es : Nat) :
    ∀ (fuel n i : Nat), n < 2 ^ (fuel + 1) →
      relrBitmapLoop base es (fuel + 1) n i
        = .ok ((List.range fuel).filterMap fun j => if n.testBit (j + 1) then some (base + (i + j) * es) else none) := by
  intro fuel
  induction fuel with
  | zero =>
    intro n i hn
    have : n >>> 1 = 0 := by rw [Nat.shiftRight_eq_div_pow]; simp at hn ⊢; omega
    simp [relrBitmapLoop, this]
  | succ f ih =>
    intro n i hn
    have hdiv : n >>> 1 = n / 2 := by rw [Nat.shiftRight_eq_div_pow]
    have hlt : n / 2 < 2 ^ (f + 1) := by
      rw [Nat.pow_succ] at hn; omega
    have hbit : ∀ j, n.testBit (j + 1) = (n / 2).testBit j := fun j => by
      rw [Nat.testBit_succ]
    rw [relrBitmapLoop]
    simp only [hdiv]
    by_cases h0 : n / 2 = 0
    · simp only [h0, ↓reduceIte]
      have : (List.range (f + 1)).filterMap (fun j => if n.testBit (j + 1) then some (base + (i + j) * es) else none) = [] := by
        apply List.filterMap_eq_nil_iff.mpr
        intro j _
        simp [hbit, h0]
      rw [this]
    · simp only [h0, ↓reduceIte]
      rw [ih (n / 2) (i + 1) hlt]
      rw [List.range_succ_eq_map, List.filterMap_cons, List.filterMap_map]
      have hfun : ((fun j => if n.testBit (j + 1) then some (base + (i + j) * es) else none) ∘ Nat.succ)
          = fun j => if (n / 2).testBit (j + 1) then some (base + (i + 1 + j) * es) else none := by
        funext j
        simp only [Function.comp, Nat.succ_eq_add_one, hbit (j + 1)]
        have : i + (j + 1) = i + 1 + j := by omega
        rw [this]
      rw [hfun]
      have h1 : n.testBit (0 + 1) = decide ((n / 2) % 2 = 1) := by rw [hbit 0, Nat.testBit_zero]
      have hand : (n / 2) &&& 1 = (n / 2) % 2 := Nat.and_one_is_mod _
      rw [h1, hand]
      by_cases hb : (n / 2) % 2 = 1
      · have : (n / 2) % 2 ≠ 0 := by omega
        simp [hb, this, bind, Except.bind, pure, Except.pure]
      · have : (n / 2) % 2 = 0 := by omega
        simp [hb, this]


def relrCon (le : Bool) (w : Nat) : Con := st [f "r_offset" (.uint w le)]

theorem parse_relr_entry {env : Env} {data : Bytes} {pos w x : Nat} {le : Bool} {rest : Bytes}
    (hd : data.drop pos = encNat le w x ++ rest) (hx : x < 256 ^ w) (hpos : pos < 2 ^ 63) :
    seekParse env (relrCon le w) data pos = .ok (.record [("r_offset", .int x)]) := by
  unfold seekParse
  rw [if_neg (by omega)]
  have key : Con.parseFields env data (mkFields [f "r_offset" (.uint w le)]) [] [] pos
      = .ok ([("r_offset", .int x)], pos + w, [("r_offset", .int x)]) := by
    simp only [mkFields, f]
    rw [parseFields_named, parse_uint_at hd hx]
    simp only [Fields.set]
    rw [parseFields_nil]
  simp only [relrCon, st]
  rw [structParse_struct env _ data pos key]
  rfl

def specRelrTable (le : Bool) (w : Nat) (off : Option Nat) (size : Nat) : RelrTable :=
  { offset := off, size := size, relrStruct := relrCon le w, entrySize := w, addrSize := w }

theorem encRelr_cons (le : Bool) (w x : Nat) (ws : List Nat) :
    encRelr le w (x :: ws) = encNat le w x ++ encRelr le w ws := by
  simp [encRelr]

theorem relrLoop_eq (env : Env) (data : Bytes) (le : Bool) (w : Nat) (hw : 1 ≤ w) (off : Option Nat) (size : Nat)
    (tail : Bytes) :
    ∀ (ws : List Nat) (relr fuel : Nat) (base : Option Nat),
      (∀ x ∈ ws, x < 2 ^ (8 * w)) → data.drop relr = encRelr le w ws ++ tail →
      relr + ws.length * w ≤ 2 ^ 63 → ws.length + 1 ≤ fuel →
      relrLoop env data (specRelrTable le w off size) (relr + ws.length * w) fuel relr base =
        match relrStd w base ws with
        | some xs => .ok xs
        | none => .error .elfError := by
  intro ws
  induction ws with
  | nil =>
    intro relr fuel base _ _ _ hfuel
    obtain ⟨f', rfl⟩ : ∃ f', fuel = f' + 1 := ⟨fuel - 1, by omega⟩
    simp [relrLoop, relrStd]
  | cons x ws ih =>
    intro relr fuel base hws hd hfit hfuel
    obtain ⟨f', rfl⟩ : ∃ f', fuel = f' + 1 := ⟨fuel - 1, by omega⟩
    have hx : x < 2 ^ (8 * w) := hws x (List.mem_cons_self)
    have hx' : x < 256 ^ w := by rw [show (256 : Nat) = 2 ^ 8 from rfl, ← Nat.pow_mul]; exact hx
    have hws' : ∀ y ∈ ws, y < 2 ^ (8 * w) := fun y hy => hws y (List.mem_cons_of_mem _ hy)
    have hlen : (x :: ws).length * w = ws.length * w + w := by simp [Nat.succ_mul]
    rw [encRelr_cons, List.append_assoc] at hd
    have hnext : data.drop (relr + w) = encRelr le w ws ++ tail := drop_next hd
    have hlim : relr + (x :: ws).length * w = relr + w + ws.length * w := by rw [hlen]; omega
    have hpos : relr < 2 ^ 63 := by rw [hlen] at hfit; omega
    have hparse := parse_relr_entry (env := env) hd hx' hpos
    have hget : (Val.record [("r_offset", Val.int (x : Int))]).getNat "r_offset" = .ok x := by
      simp [Val.getNat, Val.asNat, Val.getField, Fields.getR, Fields.get?, Val.asInt, bind, Except.bind, pure, Except.pure]
    have hih := fun b => ih (relr + w) f' b hws' hnext (by rw [hlen] at hfit; omega) (by simp at hfuel; omega)
    simp only [specRelrTable] at hih
    rw [relrLoop]
    have hcond : relr < relr + (x :: ws).length * w := by rw [hlen]; omega
    simp only [hcond, ↓reduceIte, specRelrTable]
    simp only [hparse, hget, bind, Except.bind, Nat.and_one_is_mod]
    by_cases hev : x % 2 = 0
    · simp only [hev, ↓reduceIte]
      rw [hlim, hih]
      simp only [relrStd, hev, ↓reduceIte]
      cases relrStd w (some (x + w)) ws <;> rfl
    · simp only [hev, ↓reduceIte]
      cases base with
      | none => simp [relrStd, hev]
      | some b =>
        simp only
        have hb := relrBitmapLoop_eq b w (8 * w - 1) x 0 (by rw [show 8 * w - 1 + 1 = 8 * w by omega]; exact hx)
        rw [show 8 * w - 1 + 1 = 8 * w by omega] at hb
        rw [hb, hlim, hih]
        simp only [relrStd, hev, ↓reduceIte, relrBitmap, Nat.zero_add, pure, Except.pure]
        cases relrStd w (some (b + (8 * w - 1) * w)) ws <;> rfl


theorem encRelr_length (le : Bool) (w : Nat) (ws : List Nat) : (encRelr le w ws).length = ws.length * w := by
  induction ws with
  | nil => simp [encRelr]
  | cons x ws ih => rw [encRelr_cons, List.length_append, encNat_length, ih, List.length_cons, Nat.succ_mul]; omega

theorem relrInit_spec (cfg : ElfCfg) (off : Option Nat) (size : Nat) :
    relrInit (Spec.elfStructs cfg) off size (cfg.cls / 8) = .ok (specRelrTable cfg.le (cfg.cls / 8) off size) := by
  unfold relrInit
  simp [spec_Elf_Relr, spec_Elf_addr, st, f, mkFields, conSizeof, fieldsSizeof, bind, Except.bind, pure, Except.pure,
    specRelrTable, relrCon]

theorem relrIter_spec (env : Env) (le : Bool) (w : Nat) (hw : 1 ≤ w) (ws : List Nat)
    (hws : ∀ x ∈ ws, x < 2 ^ (8 * w)) (pre rest : Bytes) (hfit : pre.length + ws.length * w ≤ 2 ^ 63) :
    relrIter env (pre ++ encRelr le w ws ++ rest) (specRelrTable le w (some pre.length) (encRelr le w ws).length)
      = match relrStd w none ws with
        | some xs => .ok xs
        | none => .error .elfError := by
  unfold relrIter
  simp only [specRelrTable, encRelr_length]
  by_cases h0 : ws.length * w = 0
  · have : ws = [] := by
      cases ws with
      | nil => rfl
      | cons x ws => simp [Nat.succ_mul] at h0; omega
    subst this
    simp [relrStd]
  · simp only [h0, ↓reduceIte]
    have hle : ws.length ≤ ws.length * w := Nat.le_mul_of_pos_right _ hw
    have := relrLoop_eq env (pre ++ encRelr le w ws ++ rest) le w hw (some pre.length) (ws.length * w) rest ws
      pre.length (ws.length * w + 1) none hws (drop_pre pre _ rest) hfit (by omega)
    simpa [specRelrTable] using this

end PyElf.Proofs.Reloc
