/-
  C10, fourth wave: `die.iter_siblings()` as a generator (created, partially consumed, resumed in any cache state).
  Unit level, with the tree-shaped layout: every `next()` of a suspended sibling generator produces the head of
  what the generator still has to produce — the remaining non-null entries of the owner's sibling list without the
  entry itself — whatever the DIE cache, the `_parent` / `_terminator` links and the stream position are.
-/
import PyElf.Proofs.HistoryTree
namespace PyElf.Proofs.C10
open PyElf PyElf.Model.Lookup PyElf.Model.C10 PyElf.Proofs.Lookup

/-- `if sibling is not self` -/
def sibFilter (o : Nat) (r : List DIE) : List DIE := r.filter (fun s => s.offset != o)

theorem sibFilter_cons_eq {o : Nat} {x : DIE} (r : List DIE) (h : x.offset = o) : sibFilter o (x :: r) = sibFilter o r := by
  simp [sibFilter, h]

theorem sibFilter_cons_ne {o : Nat} {x : DIE} (r : List DIE) (h : ¬ x.offset = o) :
    sibFilter o (x :: r) = x :: sibFilter o r := by
  simp [sibFilter, h]

theorem kids_len_le_cntF : ∀ (ts : List DTree), ts.length ≤ cntF ts
  | [] => by simp [cntF]
  | t :: ts => by have := kids_len_le_cntF ts; have := cnt_pos t; rw [cntF]; simp only [List.length_cons]; omega

section unit
variable {PD : Nat → R DIE} {dieOff : Nat} {t : DTree}

/-- what a suspended child generator still has to produce is no longer than the unit's extent -/
theorem childRem_length (tw : TW PD dieOff t) {e : Nat} (he : Lay dieOff t e) {ci : ChildIter} {r : List DIE}
    (h : ChildRem t ci r) : r.length ≤ e - dieOff := by
  rcases h with ⟨_, rfl⟩ | ⟨_, _, rfl⟩ | ⟨n, q, m, ts, w, hn, hp, _, rfl⟩
  · simp
  · simp
  · have h1 := tw_cnt tw hn he
    obtain ⟨pre, hpre⟩ := hp.suf
    have h2 : (kidsOut ts).length ≤ ts.length := by
      unfold kidsOut
      exact Nat.le_trans (List.length_filter_le _ _) (by rw [List.length_map]; exact Nat.le_refl _)
    have h3 : ts.length ≤ n.kids.length := by rw [hpre]; simp
    have h4 := kids_len_le_cntF n.kids
    have h5 := cnt_def n
    omega

/-- the filtered walk up to the next `yield`: the head of the filtered remainder -/
theorem sibSkip_rem (tw : TW PD dieOff t) {e : Nat} (he : Lay dieOff t e) (self : DIE) {fuel : Nat}
    (hf : 2 * (e - dieOff) + 3 ≤ fuel) :
    ∀ (n : Nat) (ci : ChildIter) (r : List DIE) (u : UnitCache), ChildRem t ci r → r.length < n → UT PD dieOff t u →
      ∃ ci' r' u', sibSkip PD dieOff fuel self n ci u = (.ok (sibFilter self.offset r).head?, ci', u') ∧
        ChildRem t ci' r' ∧ sibFilter self.offset r' = (sibFilter self.offset r).tail ∧ UT PD dieOff t u' := by
  intro n
  induction n with
  | zero => intro ci r u _ hlen; omega
  | succ n ih =>
    intro ci r u hr hlen hu
    obtain ⟨ci1, u1, h1, hr1, hu1⟩ := childNext_rem tw he hr (fuel := fuel) hf hu
    rw [sibSkip, h1]
    cases r with
    | nil => exact ⟨ci1, [], u1, rfl, by simpa using hr1, rfl, hu1⟩
    | cons x r' =>
      simp only [List.head?_cons, List.tail_cons] at hr1 ⊢
      by_cases hx : x.offset = self.offset
      · simp only [hx, if_true]
        obtain ⟨ci2, r2, u2, h2, hr2, hf2, hu2⟩ := ih ci1 r' u1 hr1 (by simp only [List.length_cons] at hlen; omega) hu1
        refine ⟨ci2, r2, u2, ?_, hr2, ?_, hu2⟩
        · rw [h2, sibFilter_cons_eq r' hx]
        · rw [hf2, sibFilter_cons_eq r' hx]
      · simp only [hx, if_false]
        refine ⟨ci1, r', u1, ?_, hr1, ?_, hu1⟩
        · rw [sibFilter_cons_ne r' hx]; rfl
        · rw [sibFilter_cons_ne r' hx]; rfl

/-- a suspended `iter_siblings()` generator of the entry `self` still has to produce `rem` -/
def SibRem (t : DTree) (self : DIE) (ci : Option ChildIter) (rem : List DIE) : Prop :=
  ∃ x ∈ ents none t, x.1.d = self ∧ ∃ n q, (n, q) ∈ ents none t ∧ x.2 = some n.d ∧
    ((ci = none ∧ rem = sibFilter self.offset (kidsOut n.kids)) ∨
     (∃ ci' r, ci = some ci' ∧ ChildRem t ci' r ∧ rem = sibFilter self.offset r))

/-- a freshly created sibling generator of an entry that has an owner -/
theorem sibRem_new {x : DTree × Option DIE} (hx : x ∈ ents none t) {n : DTree} {q : Option DIE}
    (hn : (n, q) ∈ ents none t) (hp : x.2 = some n.d) :
    SibRem t x.1.d none (sibFilter x.1.d.offset (kidsOut n.kids)) :=
  ⟨x, hx, rfl, n, q, hn, hp, Or.inl ⟨rfl, rfl⟩⟩

/-- one `next()` of a suspended sibling generator produces the head of what remains, in every cache state -/
theorem sibNext_rem (tw : TW PD dieOff t) {e : Nat} (he : Lay dieOff t e) {self : DIE} {ci : Option ChildIter}
    {rem : List DIE} (h : SibRem t self ci rem) {fuel : Nat} (hf : 2 * (e - dieOff) + 3 ≤ fuel) {u : UnitCache}
    (hu : UT PD dieOff t u) :
    ∃ ci' u', sibNext PD dieOff fuel self ci u = (.ok rem.head?, ci', u') ∧ SibRem t self ci' rem.tail ∧
      UT PD dieOff t u' := by
  obtain ⟨x, hx, rfl, n, q, hn, hp, hcase⟩ := h
  have key : ∀ (ci0 : ChildIter) (r : List DIE) (u0 : UnitCache), ChildRem t ci0 r → UT PD dieOff t u0 →
      ∃ ci' u', ((sibSkip PD dieOff fuel x.1.d fuel ci0 u0).1, some (sibSkip PD dieOff fuel x.1.d fuel ci0 u0).2.1,
          (sibSkip PD dieOff fuel x.1.d fuel ci0 u0).2.2)
        = ((.ok (sibFilter x.1.d.offset r).head? : R (Option DIE)), ci', u') ∧
        SibRem t x.1.d ci' (sibFilter x.1.d.offset r).tail ∧ UT PD dieOff t u' := by
    intro ci0 r u0 hr hu0
    have hlen := childRem_length tw he hr
    obtain ⟨ci1, r1, u1, h1, hr1, hf1, hu1⟩ := sibSkip_rem tw he x.1.d hf fuel ci0 r u0 hr (by omega) hu0
    refine ⟨some ci1, u1, by rw [h1], ?_, hu1⟩
    exact ⟨x, hx, rfl, n, q, hn, hp, Or.inr ⟨ci1, r1, rfl, hr1, hf1.symm⟩⟩
  rcases hcase with ⟨rfl, rfl⟩ | ⟨ci0, r, rfl, hr, rfl⟩
  · obtain ⟨u1, h1, hu1⟩ := getParent_spec tw hx he (fuel := fuel) (by omega) hu
    simp only [sibNext, h1, hp]
    exact key _ _ u1 (childRem_new tw hn) hu1
  · simp only [sibNext]
    exact key ci0 r u hr hu

end unit
end PyElf.Proofs.C10
