/-
  C13 helper lemmas (fourth wave): address → range table → unit, including the cases in which
  the table gives nothing (absent, empty, address outside every range).
-/
import PyElf.Model.DwarfLookupInfo
import PyElf.Proofs.DwarfLookup
namespace PyElf.Proofs.Lookup
open PyElf PyElf.Spec.Lookup PyElf.Model.Lookup PyElf.Proofs

/-- the composition `cu_offset_at_addr` ; `get_CU_containing` / `get_CU_at`, on a table sorted from
    shadow-free entries `es` whose unit offsets are starts of units of the chain `cs`, in any
    reachable cache state: `none` exactly when no range contains the address, otherwise the unit
    that starts at the offset of the range containing it -/
theorem unitForAddr_spec {P : Bytes → Nat → R CU} {data : Bytes} {cs : List CU} {st : CUCache} {es : List AREntry}
    (hPo : ∀ o c, P data o = .ok c → c.cuOffset = o) (hch : Chain (P data) data.length 0 cs)
    (hinv : Inv (P data) cs st) (hns : es.Pairwise noShadow)
    (hstarts : ∀ e ∈ es, ∃ c ∈ cs, c.cuOffset = e.infoOff) (byC : Bool) (a : Nat) :
    match cuOffsetAt es a with
    | none => unitForAddr byC (some ⟨pySortBy (·.begin) es, (pySortBy (·.begin) es).map (·.begin)⟩) P (some data) st a
                = (.ok none, st)
    | some o => ∃ c ∈ cs, c.cuOffset = o ∧ ∃ st',
        unitForAddr byC (some ⟨pySortBy (·.begin) es, (pySortBy (·.begin) es).map (·.begin)⟩) P (some data) st a
          = (.ok (some c), st') ∧ Inv (P data) cs st' := by
  have hl := cuOffsetAtAddr_eq es hns a
  cases hr : cuOffsetAt es a with
  | none =>
    simp only [unitForAddr, hl, hr]
  | some o =>
    obtain ⟨e, he, _, heo⟩ := (cuOffsetAt_some_iff hns a o).1 hr
    obtain ⟨c, hc, hco⟩ := hstarts e he
    rw [heo] at hco
    refine ⟨c, hc, hco, ?_⟩
    obtain ⟨_, _, sz, hsz, hpos, _⟩ := chain_mem hPo cs 0 hch c hc
    cases byC with
    | true =>
      obtain ⟨st', hg, hinv'⟩ := getCUContaining_exact (x := o) hPo hch hinv hc hsz (by omega) (by omega)
      refine ⟨st', ?_, hinv'⟩
      simp only [unitForAddr, hl, hr, getCUContainingI, if_true, hg]
    | false =>
      obtain ⟨st', hg, hinv'⟩ := getCUAt_exact hPo hch hinv hc
      rw [hco] at hg
      refine ⟨st', ?_, hinv'⟩
      simp only [unitForAddr, hl, hr, getCUAtI, Bool.false_eq_true, if_false, hg]

end PyElf.Proofs.Lookup
