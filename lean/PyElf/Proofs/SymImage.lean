/-
  The symbol-table side of the run's inputs is built by `Spec.buildStrtab` (string table, with or
  without sharing of equal names) and `Spec.encSymtab` (entries at stride `symSize + pad`).  For every
  symbol list whose names contain no NUL these bytes form a `SymtabLayout`: the hypothesis of the
  enumeration / by-name / whole-file lookup theorems is discharged for all built inputs.
-/
import PyElf.Proofs.SymTable
namespace PyElf.Proofs.C03
open PyElf PyElf.Spec PyElf.Model PyElf.Proofs

/-! ### the string table builder -/

abbrev StrSt := Bytes × List (Bytes × Nat) × List Nat

/-- one step of `buildStrtab`'s fold, as a named function -/
def strtabStep (share : Bool) (st : StrSt) (nm : Bytes) : StrSt :=
  if nm.isEmpty then (st.1, st.2.1, st.2.2 ++ [0])
  else match (if share then st.2.1.find? (·.1 == nm) else none) with
    | some (_, o) => (st.1, st.2.1, st.2.2 ++ [o])
    | none => (st.1 ++ nm ++ [0], if share then (nm, st.1.length) :: st.2.1 else st.2.1, st.2.2 ++ [st.1.length])

def strtabFold (share : Bool) (names : List Bytes) : StrSt := names.foldl (strtabStep share) ([0], [], [])

theorem buildStrtab_eq (share : Bool) (names : List Bytes) :
    buildStrtab share names = ((strtabFold share names).1, (strtabFold share names).2.2) := by
  unfold buildStrtab strtabFold
  rfl

theorem firstNul_append_some {a x : Bytes} (r : Bytes) (h : firstNul a = some x) : firstNul (a ++ r) = some x := by
  induction a generalizing x with
  | nil => simp [firstNul] at h
  | cons b a ih =>
    simp only [List.cons_append, firstNul] at h ⊢
    by_cases hb : b = 0
    · simpa [hb] using h
    · simp only [hb, if_false] at h ⊢
      cases hf : firstNul a with
      | none => simp [hf] at h
      | some y => rw [ih hf]; simpa [hf] using h

theorem strAt_lt {tab : Bytes} {o : Nat} {nm : Bytes} (h : strAt tab o = some nm) : o < tab.length := by
  apply Classical.byContradiction
  intro hn
  have : tab.drop o = [] := List.drop_eq_nil_of_le (by omega)
  simp [strAt, this, firstNul] at h

/-- names already in the table survive any extension of the table -/
theorem strAt_append {tab : Bytes} {o : Nat} {nm : Bytes} (ext : Bytes) (h : strAt tab o = some nm) :
    strAt (tab ++ ext) o = some nm := by
  have hlt := strAt_lt h
  unfold strAt at h ⊢
  rw [List.drop_append_of_le_length (by omega)]
  exact firstNul_append_some ext h

/-- the table starts with NUL and every remembered (name, offset) is right -/
def StrGood (st : StrSt) : Prop := (∃ t, st.1 = 0 :: t) ∧ ∀ p ∈ st.2.1, strAt st.1 p.2 = some p.1

theorem strtabStep_spec (share : Bool) (st : StrSt) (nm : Bytes) (hg : StrGood st) (hnul : (0 : UInt8) ∉ nm) :
    ∃ o ext, (strtabStep share st nm).1 = st.1 ++ ext ∧ (strtabStep share st nm).2.2 = st.2.2 ++ [o]
      ∧ StrGood (strtabStep share st nm) ∧ strAt (st.1 ++ ext) o = some nm := by
  obtain ⟨⟨t, ht⟩, hseen⟩ := hg
  unfold strtabStep
  by_cases he : nm.isEmpty = true
  · have hnil : nm = [] := List.isEmpty_iff.mp he
    refine ⟨0, [], by simp [he], by simp [he], ?_, ?_⟩
    · simp only [he, if_true]; exact ⟨⟨t, ht⟩, hseen⟩
    · simp [strAt, ht, firstNul, hnil]
  · simp only [he, Bool.false_eq_true, if_false]
    -- a fresh name appended at the end of the table
    have hfresh : strAt (st.1 ++ (nm ++ [0])) st.1.length = some nm := by
      unfold strAt
      rw [List.drop_left' rfl, firstNul_append_of_no_nul nm [0] hnul]
      simp [firstNul]
    cases hf : (if share = true then st.2.1.find? (·.1 == nm) else none) with
    | some p =>
      obtain ⟨nm', o⟩ := p
      have hs : share = true := by
        by_cases hs : share = true
        · exact hs
        · simp [hs] at hf
      simp only [hs, if_true] at hf
      have hmem := List.mem_of_find?_eq_some hf
      have hp : nm' = nm := by simpa using List.find?_some hf
      refine ⟨o, [], by simp, rfl, ⟨⟨t, ht⟩, hseen⟩, ?_⟩
      rw [List.append_nil, ← hp]; exact hseen _ hmem
    | none =>
      refine ⟨st.1.length, nm ++ [0], by simp, rfl, ⟨⟨t ++ nm ++ [0], by simp [ht]⟩, ?_⟩, hfresh⟩
      intro p hp
      simp only [List.append_assoc]
      by_cases hs : share = true
      · simp only [hs, if_true] at hp
        rcases List.mem_cons.mp hp with rfl | hp
        · exact hfresh
        · exact strAt_append _ (hseen p hp)
      · simp only [hs, Bool.false_eq_true, if_false] at hp
        exact strAt_append _ (hseen p hp)

theorem strtabFold_spec (share : Bool) : ∀ (names : List Bytes) (st : StrSt), StrGood st →
    (∀ nm ∈ names, (0 : UInt8) ∉ nm) →
    (names.foldl (strtabStep share) st).2.2.length = st.2.2.length + names.length
      ∧ (∀ i, i < st.2.2.length → (names.foldl (strtabStep share) st).2.2[i]? = st.2.2[i]?)
      ∧ (∀ i (hi : i < names.length), ∃ o, (names.foldl (strtabStep share) st).2.2[st.2.2.length + i]? = some o
            ∧ strAt (names.foldl (strtabStep share) st).1 o = some names[i])
      ∧ (∀ o nm, strAt st.1 o = some nm → strAt (names.foldl (strtabStep share) st).1 o = some nm) := by
  intro names
  induction names with
  | nil => intro st _ _; exact ⟨rfl, fun _ _ => rfl, fun i hi => by simp at hi, fun _ _ h => h⟩
  | cons nm rest ih =>
    intro st hg hnul
    obtain ⟨o, ext, h1, h2, h3, h4⟩ := strtabStep_spec share st nm hg (hnul nm List.mem_cons_self)
    obtain ⟨a, b, c, d⟩ := ih (strtabStep share st nm) h3 (fun x hx => hnul x (List.mem_cons_of_mem _ hx))
    rw [List.foldl_cons]
    have hl' : (strtabStep share st nm).2.2.length = st.2.2.length + 1 := by rw [h2]; simp
    refine ⟨by rw [a, hl']; simp; omega, ?_, ?_, ?_⟩
    · intro i hi
      rw [b i (by omega), h2, List.getElem?_append_left hi]
    · intro i hi
      cases i with
      | zero =>
        refine ⟨o, ?_, ?_⟩
        · rw [Nat.add_zero, b _ (by omega), h2, List.getElem?_append_right (Nat.le_refl _)]; simp
        · exact d o nm (by rw [h1]; exact h4)
      | succ j =>
        obtain ⟨o', ho1, ho2⟩ := c j (by simpa using hi)
        refine ⟨o', ?_, by simpa using ho2⟩
        rw [show st.2.2.length + (j + 1) = (strtabStep share st nm).2.2.length + j by omega]; exact ho1
    · intro o' nm' h
      exact d o' nm' (by rw [h1]; exact strAt_append ext h)

/-- `buildStrtab`: one offset per name, and every offset denotes its name — with or without sharing,
    duplicates and empty names included; the only requirement is that no name contains NUL -/
theorem buildStrtab_ok (share : Bool) (names : List Bytes) (hnul : ∀ nm ∈ names, (0 : UInt8) ∉ nm) :
    (buildStrtab share names).2.length = names.length
      ∧ ∀ i (hi : i < names.length), ∃ o, (buildStrtab share names).2[i]? = some o
          ∧ strAt (buildStrtab share names).1 o = some names[i] := by
  rw [buildStrtab_eq]
  unfold strtabFold
  obtain ⟨a, _, c, _⟩ := strtabFold_spec share names ([0], [], []) ⟨⟨[], rfl⟩, fun p hp => by simp at hp⟩ hnul
  refine ⟨by simpa using a, fun i hi => ?_⟩
  obtain ⟨o, h1, h2⟩ := c i hi
  exact ⟨o, by simpa using h1, h2⟩

/-! ### the entry array -/

theorem encSym_length (le : Bool) (cls : Nat) (e : SymE) : (encSym le cls e).length = symSize cls := by
  unfold encSym symSize
  split <;> simp [encNat_length]

theorem encSymtab_cons (le : Bool) (cls pad : Nat) (e : SymE) (es : List SymE) :
    encSymtab le cls pad (e :: es) = encSym le cls e ++ (List.replicate pad 0 ++ encSymtab le cls pad es) := by
  simp [encSymtab]

theorem drop_encSymtab {data : Bytes} {le : Bool} {cls pad : Nat} {rest : Bytes} : ∀ (es : List SymE) (pos k : Nat)
    (hk : k < es.length), data.drop pos = encSymtab le cls pad es ++ rest →
    ∃ rest', data.drop (pos + k * (symSize cls + pad)) = encSym le cls es[k] ++ rest' := by
  intro es
  induction es with
  | nil => intro pos k hk; simp at hk
  | cons e es ih =>
    intro pos k hk hd
    rw [encSymtab_cons, List.append_assoc] at hd
    cases k with
    | zero => exact ⟨_, by simpa using hd⟩
    | succ k =>
      have hd1 := drop_add_of_drop hd; rw [encSym_length, List.append_assoc] at hd1
      have hd2 := drop_add_of_drop hd1; rw [List.length_replicate] at hd2
      obtain ⟨r, hr⟩ := ih (pos + symSize cls + pad) k (by simpa using hk) hd2
      refine ⟨r, ?_⟩
      rw [show pos + (k + 1) * (symSize cls + pad) = pos + symSize cls + pad + k * (symSize cls + pad) by
        rw [Nat.succ_mul]; omega]
      simpa using hr

/-! ### the built image -/

/-- the entries the run builds: each symbol's fields with `st_name` from the built string table -/
def builtEntries (syms : List (Bytes × SymE)) (offs : List Nat) : List SymE :=
  (syms.zip offs).map fun ((_, e), o) => { e with stName := o }

/-- a symbol table section and its string table, both built from ANY symbol list with NUL-free names and
    in-range fields, anywhere in a file, are a `SymtabLayout` -/
theorem built_layout (le : Bool) (cls pad : Nat) (share : Bool) (syms : List (Bytes × SymE))
    (hcls : cls = 32 ∨ cls = 64)
    (hnul : ∀ s ∈ syms, (0 : UInt8) ∉ s.1) (hwf : ∀ s ∈ syms, s.2.WF cls = true)
    (hlen : (buildStrtab share (syms.map (·.1))).1.length < 2 ^ 32)
    (data : Bytes) (symOff strOff : Nat) (rest1 rest2 : Bytes)
    (h1 : data.drop symOff
        = encSymtab le cls pad (builtEntries syms (buildStrtab share (syms.map (·.1))).2) ++ rest1)
    (h2 : data.drop strOff = (buildStrtab share (syms.map (·.1))).1 ++ rest2) :
    SymtabLayout le cls data ⟨symOff, syms.length * (symSize cls + pad), symSize cls + pad⟩ strOff
      (builtEntries syms (buildStrtab share (syms.map (·.1))).2) (syms.map (·.1)) := by
  obtain ⟨hol, hoff⟩ := buildStrtab_ok share (syms.map (·.1)) (by
    intro nm hnm
    obtain ⟨s, hs, rfl⟩ := List.mem_map.mp hnm
    exact hnul s hs)
  generalize hT : buildStrtab share (syms.map (·.1)) = T at *
  have hel : (builtEntries syms T.2).length = syms.length := by
    simp [builtEntries, hol]
  -- entry `i` is symbol `i` with its offset
  have hent : ∀ i (hi : i < syms.length), ∃ o, T.2[i]? = some o ∧ strAt T.1 o = some syms[i].1
      ∧ (builtEntries syms T.2)[i]? = some { syms[i].2 with stName := o } := by
    intro i hi
    obtain ⟨o, ho1, ho2⟩ := hoff i (by simpa using hi)
    refine ⟨o, ho1, by simpa using ho2, ?_⟩
    have hz : (syms.zip T.2)[i]? = some (syms[i], o) :=
      List.getElem?_zip_eq_some.mpr ⟨List.getElem?_eq_getElem hi, ho1⟩
    unfold builtEntries
    rw [List.getElem?_map, hz]
    rfl
  have hsz : 0 < symSize cls := by unfold symSize; split <;> omega
  refine ⟨hcls, by show 0 < symSize cls + pad; omega, by show _ = _; rw [hel], by simp [hel], ?_, ?_, ?_⟩
  · intro i hi
    rw [hel] at hi
    obtain ⟨o, _, ho2, ho3⟩ := hent i hi
    have : (builtEntries syms T.2)[i] = { syms[i].2 with stName := o } :=
      (List.getElem?_eq_some_iff.mp ho3).2
    rw [this]
    have hw := hwf _ (List.getElem_mem hi)
    have hlt := strAt_lt ho2
    simp only [SymE.WF, Bool.and_eq_true, decide_eq_true_eq] at hw ⊢
    exact ⟨⟨⟨⟨⟨by omega, hw.1.1.1.1.2⟩, hw.1.1.1.2⟩, hw.1.1.2⟩, hw.1.2⟩, hw.2⟩
  · intro i hi
    exact drop_encSymtab _ symOff i hi h1
  · intro i hi
    rw [hel] at hi
    obtain ⟨o, _, ho2, ho3⟩ := hent i hi
    have : (builtEntries syms T.2)[i] = { syms[i].2 with stName := o } :=
      (List.getElem?_eq_some_iff.mp ho3).2
    rw [this, h2]
    simp only [List.getD_eq_getElem?_getD, List.getElem?_map, List.getElem?_eq_getElem hi, Option.map_some,
      Option.getD_some]
    exact strAt_append rest2 ho2

end PyElf.Proofs.C03
