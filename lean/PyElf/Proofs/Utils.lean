/-
  Small facts about Model/Utils.lean used by several properties.
-/
import PyElf.Model.Utils
namespace PyElf.Proofs
open PyElf PyElf.Model

/-- below 2^63 the seek of `struct_parse(…, stream_pos)` is a no-op -/
theorem structParseAt_eq {env : Env} {c : Con} {data : Bytes} {pos : Nat} (h : pos < 2 ^ 63) :
    structParseAt env c data pos = structParse env c data pos := by
  have h' : ¬ (2 ^ 63 ≤ pos) := by omega
  simp [structParseAt, h']

theorem structParseAt_big {env : Env} {c : Con} {data : Bytes} {pos : Nat} (h : 2 ^ 63 ≤ pos) :
    structParseAt env c data pos = .error .elfParseError := by
  simp [structParseAt, h]; rfl

end PyElf.Proofs
