/-
  Helper lemmas for C19: which errors the construct engine and the elffile model
  can produce on arbitrary bytes.
-/
import PyElf.Model.ElfFile
import PyElf.Spec.ElfFactory
import PyElf.Proofs.Fixed
namespace PyElf.Proofs
open PyElf PyElf.Spec PyElf.Model

end PyElf.Proofs
