/-
  Helper lemmas for C19: which errors the construct engine and the elffile model
  can produce on arbitrary bytes.

  Everything lives in `PyElf.Proofs.ElfErrors` (several names — `identify_ok`, `bind_ok`, … —
  are natural for other proof files of `PyElf.Proofs` too).

  Layout:
  * `Only P x` ("every error of `x` satisfies `P`") with its `bind`/`ite`/`throw` rules;
  * `mapM_range_stops`;
  * sizes of the Spec's Shdr/Phdr for every configuration and the configuration-generic
    bounds `getSection_ok_bound`, `getSegment_ok_bound`; `openElf_ok` (class is 32 or 64);
  * `Con.tame` and `tame_parse`: a construct built from integers, enums, literal-length
    padding/bytes, structs and arrays fails only with ELFParseError (plus KeyError/TypeError
    when arrays counted by an earlier field are allowed);
  * `ConFields.lastNamed` and `parseFields_lastNamed`: which keys a successfully parsed struct
    has, and which construct produced each value;
  * `openElf_only` / `openElf_error_closed`;
  * `NF` (never `outOfFuel`), `rank` and `makeSection_nf` / `getSection_nf`;
  * the end-to-end forms used by `Props/C19.lean`.
-/
import PyElf.Model.ElfFile
import PyElf.Spec.ElfFactory
import PyElf.Proofs.Fixed
namespace PyElf.Proofs.ElfErrors
open PyElf PyElf.Spec PyElf.Model PyElf.Proofs

/-! ### `Except` plumbing -/

theorem bind_ok {α β : Type} {x : R α} {f : α → R β} {b : β} :
    (x >>= f) = .ok b ↔ ∃ a, x = .ok a ∧ f a = .ok b := by
  cases x <;> simp [bind, Except.bind]

theorem bind_err {α β : Type} {x : R α} {f : α → R β} {e : Err} :
    (x >>= f) = .error e ↔ x = .error e ∨ ∃ a, x = .ok a ∧ f a = .error e := by
  cases x <;> simp [bind, Except.bind]

/-- every error `x` can raise satisfies `P` -/
def Only {α : Type} (P : Err → Prop) (x : R α) : Prop := ∀ e, x = .error e → P e

namespace Only
variable {α β : Type} {P : Err → Prop}

theorem ok (a : α) : Only P (.ok a : R α) := by intro e h; cases h
theorem pure (a : α) : Only P (Pure.pure a : R α) := by intro e h; cases h
theorem error {e : Err} (h : P e) : Only P (.error e : R α) := by intro e' h'; cases h'; exact h
theorem throw {e : Err} (h : P e) : Only P (MonadExcept.throw e : R α) := by intro e' h'; cases h'; exact h
theorem bind {x : R α} {f : α → R β} (hx : Only P x) (hf : ∀ a, x = .ok a → Only P (f a)) :
    Only P (x >>= f) := by
  intro e h
  cases x with
  | error e' => cases h; exact hx _ rfl
  | ok a => exact hf a rfl e h
theorem ite {c : Prop} [Decidable c] {a b : R α} (ha : c → Only P a) (hb : ¬c → Only P b) :
    Only P (if c then a else b) := by
  split
  · exact ha ‹_›
  · exact hb ‹_›
theorem mono {Q : Err → Prop} {x : R α} (h : Only P x) (hpq : ∀ e, P e → Q e) : Only Q x :=
  fun e he => hpq e (h e he)
theorem of_eq_ok {x : R α} {a : α} (h : x = .ok a) : Only P x := by rw [h]; exact ok a
end Only

/-! ### enumeration stops at the first failure -/

theorem mapM_range'_stops {α : Type} (f : Nat → R α) (e : Err) (k : Nat) (hfail : f k = .error e) :
    ∀ (n s : Nat), s ≤ k → k < s + n → (∀ j, s ≤ j → j < k → ∃ v, f j = .ok v) →
      (List.range' s n).mapM f = .error e := by
  intro n
  induction n with
  | zero => intro s h1 h2; omega
  | succ n ih =>
    intro s h1 h2 hok
    rw [List.range'_succ, List.mapM_cons]
    by_cases hs : s = k
    · subst hs; rw [hfail]; rfl
    · obtain ⟨v, hv⟩ := hok s (Nat.le_refl _) (by omega)
      rw [hv, ih (s+1) (by omega) (by omega) (fun j h1 h2 => hok j (by omega) h2)]
      rfl

theorem mapM_range_stops {α : Type} (f : Nat → R α) (n k : Nat) (e : Err) (hk : k < n)
    (hfail : f k = .error e) (hok : ∀ j < k, ∃ v, f j = .ok v) :
    (List.range n).mapM f = .error e := by
  rw [List.range_eq_range']
  exact mapM_range'_stops f e k hfail n 0 (Nat.zero_le _) (by omega) (fun j _ h => hok j h)

/-! ### the header structures of the Spec: shape and size -/

theorem shdr_fixed (c : ElfCfg) : (elfStructs c).Elf_Shdr.fixed = true := by rfl
theorem shdr_sizeof (c : ElfCfg) : (elfStructs c).Elf_Shdr.sizeof = some (16 + 6 * (c.cls/8)) := by
  simp [elfStructs, st, mkFields, f, enumOf, Con.sizeof, ConFields.sizeof]
  omega
theorem phdr_fixed (c : ElfCfg) : (elfStructs c).Elf_Phdr.fixed = true := by
  simp only [elfStructs]; split <;> rfl
def phdrSize (c : ElfCfg) : Nat := if c.cls = 32 then 20 + 3 * (c.cls/8) else 8 + 6 * (c.cls/8)
theorem phdr_sizeof (c : ElfCfg) : (elfStructs c).Elf_Phdr.sizeof = some (phdrSize c) := by
  simp only [elfStructs, phdrSize]; split <;> simp [st, mkFields, f, enumOf, Con.sizeof, ConFields.sizeof] <;> omega

theorem structParseAt_ok {env : Env} {c : Con} {data : Bytes} {pos : Nat} {r : Val × Nat}
    (h : structParseAt env c data pos = .ok r) :
    pos < 2 ^ 63 ∧ ∃ ctx', Con.parse env data c [] pos = .ok (r.1, r.2, ctx') := by
  unfold structParseAt at h
  by_cases hp : pos ≥ 2 ^ 63
  · simp [hp, bind, Except.bind, throw, throwThe, MonadExceptOf.throw] at h
  · simp only [hp, if_false] at h
    refine ⟨by omega, ?_⟩
    simp only [structParse] at h
    obtain ⟨⟨v, p, cx⟩, h1, h2⟩ := bind_ok.1 h
    simp [pure, Except.pure] at h2
    subst h2
    exact ⟨cx, h1⟩

theorem structParseAt_ok_bound {env : Env} {c : Con} (hc : c.fixed = true) {n : Nat}
    (hn : c.sizeof = some n) (h0 : 0 < n) {data : Bytes} {pos : Nat} {r : Val × Nat}
    (h : structParseAt env c data pos = .ok r) : pos + n ≤ data.length := by
  obtain ⟨_, cx, hp⟩ := structParseAt_ok h
  by_cases hlt : data.length < pos + n
  · obtain ⟨e, he⟩ := parse_fixed_truncated' env c hc n hn h0 data pos [] hlt
    rw [he] at hp; cases hp
  · omega

theorem sizeofR_ok {c : Con} {n : Nat} (h : c.sizeof = some n) : sizeofR c = .ok n := by
  simp [sizeofR, h]

theorem phdrSize_pos (c : ElfCfg) : 8 ≤ phdrSize c := by unfold phdrSize; split <;> omega

theorem segmentOffset_ok {c : ElfCfg} {hdr : Val} {i pos : Nat}
    (h : segmentOffset (elfStructs c) hdr i = .ok pos) :
    ∃ phoff phentsize, phdrSize c ≤ phentsize ∧ pos = phoff + i * phentsize := by
  unfold segmentOffset at h
  obtain ⟨phentsize, -, h⟩ := bind_ok.1 h
  obtain ⟨phoff, -, h⟩ := bind_ok.1 h
  rw [sizeofR_ok (phdr_sizeof c)] at h
  obtain ⟨sz, hsz, h⟩ := bind_ok.1 h
  cases hsz
  by_cases hlt : phentsize < phdrSize c
  · simp [hlt, throw, throwThe, MonadExceptOf.throw, bind, Except.bind] at h
  · simp [hlt, pure, Except.pure] at h
    exact ⟨phoff, phentsize, by omega, h.symm⟩

theorem getSegmentHeader_ok_bound {env : Env} {c : ElfCfg} {data : Bytes} {hdr : Val} {i : Nat} {ph : Val}
    (h : getSegmentHeader env (elfStructs c) data hdr i = .ok ph) :
    phdrSize c * i + phdrSize c ≤ data.length := by
  unfold getSegmentHeader at h
  obtain ⟨pos, hpos, h⟩ := bind_ok.1 h
  obtain ⟨r, hr, -⟩ := bind_ok.1 h
  obtain ⟨phoff, phentsize, hge, rfl⟩ := segmentOffset_ok hpos
  have := structParseAt_ok_bound (phdr_fixed c) (phdr_sizeof c) (by have := phdrSize_pos c; omega) hr
  have h2 : phdrSize c * i ≤ i * phentsize := by
    rw [Nat.mul_comm]; exact Nat.mul_le_mul_left i hge
  omega

theorem getSegment_ok_bound {env : Env} {c : ElfCfg} {data : Bytes} {hdr : Val} {shstr : Option Val}
    {i : Nat} {r : String × Val}
    (h : getSegment env (elfStructs c) data hdr shstr i = .ok r) :
    phdrSize c * (i + 1) ≤ data.length := by
  unfold getSegment at h
  obtain ⟨ph, hph, -⟩ := bind_ok.1 h
  have := getSegmentHeader_ok_bound hph
  rw [Nat.mul_add]; omega

def shdrSize (c : ElfCfg) : Nat := 16 + 6 * (c.cls / 8)
theorem shdr_sizeof' (c : ElfCfg) : (elfStructs c).Elf_Shdr.sizeof = some (shdrSize c) := shdr_sizeof c

theorem sectionOffset_ok {c : ElfCfg} {hdr : Val} {i pos : Nat}
    (h : sectionOffset (elfStructs c) hdr i = .ok pos) :
    ∃ shoff shentsize, hdr.getNat "e_shoff" = .ok shoff ∧ hdr.getNat "e_shentsize" = .ok shentsize ∧
      (0 < shoff → shdrSize c ≤ shentsize) ∧ pos = shoff + i * shentsize := by
  unfold sectionOffset at h
  obtain ⟨shentsize, h1, h⟩ := bind_ok.1 h
  obtain ⟨shoff, h2, h⟩ := bind_ok.1 h
  rw [sizeofR_ok (shdr_sizeof' c)] at h
  obtain ⟨sz, hsz, h⟩ := bind_ok.1 h
  cases hsz
  by_cases hlt : (decide (shoff > 0) && decide (shentsize < shdrSize c)) = true
  · simp [hlt, throw, throwThe, MonadExceptOf.throw, bind, Except.bind] at h
  · simp [hlt, pure, Except.pure] at h
    refine ⟨shoff, shentsize, h2, h1, ?_, h.symm⟩
    intro h0
    simp at hlt
    exact hlt h0

theorem getSectionHeader_ok_some {env : Env} {c : ElfCfg} {data : Bytes} {hdr : Val} {i : Nat} {sh : Val}
    (h : getSectionHeader env (elfStructs c) data hdr i = .ok (some sh)) :
    ∃ pos p, sectionOffset (elfStructs c) hdr i = .ok pos ∧ pos ≤ data.length ∧
      structParseAt env (elfStructs c).Elf_Shdr data pos = .ok (sh, p) := by
  unfold getSectionHeader at h
  obtain ⟨pos, hpos, h⟩ := bind_ok.1 h
  by_cases hgt : pos > data.length
  · simp [hgt, pure, Except.pure] at h
  · simp only [hgt, if_false] at h
    obtain ⟨⟨v, p⟩, hr, h⟩ := bind_ok.1 h
    simp [pure, Except.pure] at h
    subst h
    exact ⟨pos, p, hpos, by omega, hr⟩

theorem getSection_ok {env : Env} {S : ElfStructs} {data : Bytes} {hdr : Val} {shstr : Option Val}
    {i : Nat} {r : String × Bytes × Val}
    (h : getSection env S data hdr shstr i = .ok r) :
    getSectionHeader env S data hdr i = .ok (some r.2.2) ∧
      makeSection env S data hdr shstr 4 (some r.2.2) = .ok (r.1, r.2.1) := by
  unfold getSection at h
  obtain ⟨oh, h1, h⟩ := bind_ok.1 h
  obtain ⟨⟨kind, name⟩, h2, h⟩ := bind_ok.1 h
  cases oh with
  | none => simp [throw, throwThe, MonadExceptOf.throw] at h
  | some sh =>
    simp [pure, Except.pure] at h
    subst h
    exact ⟨h1, h2⟩

theorem numSections_pos {env : Env} {S : ElfStructs} {data : Bytes} {hdr : Val} {n : Nat}
    (h : numSections env S data hdr = .ok n) (hn : 0 < n) :
    ∃ shoff, hdr.getNat "e_shoff" = .ok shoff ∧ 0 < shoff := by
  unfold numSections at h
  obtain ⟨shoff, h1, h⟩ := bind_ok.1 h
  refine ⟨shoff, h1, ?_⟩
  by_cases h0 : shoff = 0
  · simp [h0, pure, Except.pure] at h; omega
  · omega

theorem getSection_ok_bound {env : Env} {c : ElfCfg} {data : Bytes} {hdr : Val} {shstr : Option Val}
    {n i : Nat} {r : String × Bytes × Val}
    (hn : numSections env (elfStructs c) data hdr = .ok n) (hi : i < n)
    (h : getSection env (elfStructs c) data hdr shstr i = .ok r) :
    shdrSize c * (i + 1) ≤ data.length := by
  obtain ⟨shoff, hs1, hs0⟩ := numSections_pos hn (by omega)
  obtain ⟨pos, p, hpos, hle, hparse⟩ := getSectionHeader_ok_some (getSection_ok h).1
  obtain ⟨shoff', shentsize, hs1', -, hge, rfl⟩ := sectionOffset_ok hpos
  rw [hs1] at hs1'; cases hs1'
  have := structParseAt_ok_bound (shdr_fixed c) (shdr_sizeof' c) (by unfold shdrSize; omega) hparse
  have h2 : shdrSize c * i ≤ i * shentsize := by
    rw [Nat.mul_comm]; exact Nat.mul_le_mul_left i (hge hs0)
  rw [Nat.mul_add]; omega

theorem identify_ok {data : Bytes} {cls : Nat} {le : Bool} (h : identify data = .ok (cls, le)) :
    cls = 32 ∨ cls = 64 := by
  unfold identify at h
  by_cases hm : (readN data 0 4 != [0x7f, 0x45, 0x4c, 0x46]) = true
  · simp [hm, throw, throwThe, MonadExceptOf.throw, bind, Except.bind] at h
  · simp only [hm] at h
    simp only [Bool.false_eq_true, if_false] at h
    split at h <;> split at h <;>
      simp [pure, Except.pure, throw, throwThe, MonadExceptOf.throw, bind, Except.bind] at h <;> omega

theorem openElf_ok {env : Env} {data : Bytes} {f : ElfFile}
    (h : openElf env structsFor machineClassOfVal data = .ok f) :
    ∃ c : ElfCfg, (c.cls = 32 ∨ c.cls = 64) ∧ f.S = elfStructs c ∧ f.data = data := by
  unfold openElf at h
  obtain ⟨⟨cls, le⟩, hid, h⟩ := bind_ok.1 h
  have hcls := identify_ok hid
  simp only [structsFor] at h
  obtain ⟨⟨hdr, p0⟩, -, h⟩ := bind_ok.1 h
  obtain ⟨cfg, hcfg, h⟩ := bind_ok.1 h
  have hc : cfg.cls = cls := by
    unfold cfgOfHeader at hcfg
    obtain ⟨_, -, hcfg⟩ := bind_ok.1 hcfg
    obtain ⟨_, -, hcfg⟩ := bind_ok.1 hcfg
    obtain ⟨_, -, hcfg⟩ := bind_ok.1 hcfg
    obtain ⟨_, -, hcfg⟩ := bind_ok.1 hcfg
    simp [pure, Except.pure] at hcfg
    rw [← hcfg]
  obtain ⟨ndx, -, h⟩ := bind_ok.1 h
  refine ⟨cfg, hc ▸ hcls, ?_⟩
  by_cases hz : (ndx == 0) = true
  · simp [hz, pure, Except.pure] at h; subst h; exact ⟨rfl, rfl⟩
  simp only [hz, Bool.false_eq_true, if_false] at h
  obtain ⟨sh, -, h⟩ := bind_ok.1 h
  cases sh with
  | none => simp [pure, Except.pure] at h; subst h; exact ⟨rfl, rfl⟩
  | some st =>
    obtain ⟨_, -, h⟩ := bind_ok.1 h
    simp [pure, Except.pure] at h; subst h; exact ⟨rfl, rfl⟩

/-! ### tame constructs: parse errors are ELFParseError -/

def Expr.isCtx : Expr → Bool
  | .ctx _ => true
  | _ => false

mutual
/-- constructs whose parse can only fail by running out of data or on an unnamed enum value
    (`b = true`: also arrays counted by an earlier field, which can add KeyError/TypeError) -/
def Con.tame (b : Bool) : Con → Bool
  | .uint _ _ => true
  | .sint _ _ => true
  | .enum sub _ _ => Con.tame b sub
  | .struct fs => ConFields.tame b fs
  | .array e sub => (e.litNat?.isSome || (b && Expr.isCtx e)) && Con.tame b sub
  | .padding e strict => e.litNat?.isSome && !strict
  | .bytesN e => e.litNat?.isSome
  | _ => false
def ConFields.tame (b : Bool) : ConFields → Bool
  | .nil => true
  | .cons _ embed c rest => !embed && Con.tame b c && ConFields.tame b rest
end

def TameErr (b : Bool) (e : Err) : Prop :=
  e = .elfParseError ∨ (b = true ∧ (e = .keyError ∨ e = .typeError))

theorem readExact_only (b : Bool) (data : Bytes) (pos n : Nat) : Only (TameErr b) (readExact data pos n) := by
  unfold readExact
  simp only
  split
  · exact Only.ok _
  · exact Only.error (Or.inl rfl)

theorem arrayLoop_only {P : Err → Prop} {step : Nat → Fields → PRes}
    (hstep : ∀ p c, Only P (step p c)) :
    ∀ n pos ctx acc, Only P (arrayLoop step n pos ctx acc) := by
  intro n
  induction n with
  | zero => intro pos ctx acc; rw [arrayLoop]; exact Only.ok _
  | succ n ih =>
    intro pos ctx acc
    rw [arrayLoop]
    cases h : step pos ctx with
    | error e => exact Only.error (hstep pos ctx e h)
    | ok r => obtain ⟨v, p, c⟩ := r; exact ih _ _ _

mutual
theorem tame_parse (env : Env) (data : Bytes) (b : Bool) :
    ∀ (c : Con), Con.tame b c = true → ∀ ctx pos, Only (TameErr b) (Con.parse env data c ctx pos)
  | .uint n le, _, ctx, pos => by
      rw [Con.parse]; exact Only.bind (readExact_only b data pos n) (fun _ _ => Only.pure _)
  | .sint n le, _, ctx, pos => by
      rw [Con.parse]; exact Only.bind (readExact_only b data pos n) (fun _ _ => Only.pure _)
  | .enum sub t pass, hc, ctx, pos => by
      rw [Con.parse]
      refine Only.bind (tame_parse env data b sub (by simpa [Con.tame] using hc) ctx pos) ?_
      rintro ⟨v, p, ctx'⟩ _
      simp only
      split
      · split
        · exact Only.pure _
        · split
          · exact Only.pure _
          · exact Only.error (Or.inl rfl)
      · split
        · exact Only.pure _
        · exact Only.error (Or.inl rfl)
  | .struct fs, hc, ctx, pos => by
      rw [Con.parse]
      exact Only.bind (tame_parseFields env data b fs (by simpa [Con.tame] using hc) [] [] pos)
        (fun _ _ => Only.pure _)
  | .array e sub, hc, ctx, pos => by
      have h : (e.litNat?.isSome = true ∨ (b = true ∧ Expr.isCtx e = true)) ∧ Con.tame b sub = true := by
        simpa [Con.tame] using hc
      have hloop := fun n => arrayLoop_only (P := TameErr b)
        (step := fun p c => Con.parse env data sub c p)
        (fun p c => tame_parse env data b sub h.2 c p) n pos ctx []
      rcases h.1 with h1 | ⟨hb, h1⟩
      · obtain ⟨n, hn⟩ := litNat?_isSome h1
        rw [parse_array_lit env hn]
        exact hloop n
      · cases e <;> simp [Expr.isCtx] at h1
        rename_i k
        rw [Con.parse]
        simp only [Expr.eval]
        refine Only.bind ?_ (fun v _ => Only.bind ?_ (fun n _ => hloop _))
        · unfold Fields.getR; split
          · exact Only.ok _
          · exact Only.error (Or.inr ⟨hb, Or.inl rfl⟩)
        · unfold Val.asInt; split
          · exact Only.ok _
          · exact Only.ok _
          · exact Only.error (Or.inr ⟨hb, Or.inr rfl⟩)
  | .padding e strict, hc, ctx, pos => by
      have h : e.litNat?.isSome = true ∧ strict = false := by simpa [Con.tame] using hc
      obtain ⟨n, hn⟩ := litNat?_isSome h.1
      obtain ⟨-, rfl⟩ := h
      rw [parse_padding_lit env hn]
      intro e he
      cases hr : readExact data pos n with
      | error e' => rw [hr] at he; cases he; exact readExact_only b data pos n _ hr
      | ok a => rw [hr] at he; cases he
  | .bytesN e, hc, ctx, pos => by
      obtain ⟨n, hn⟩ := litNat?_isSome (e := e) (by simpa [Con.tame] using hc)
      rw [parse_bytesN_lit env hn]
      intro e he
      cases hr : readExact data pos n with
      | error e' => rw [hr] at he; cases he; exact readExact_only b data pos n _ hr
      | ok a => rw [hr] at he; cases he
  | .u24 _, hc, _, _ => by simp [Con.tame] at hc
  | .uleb, hc, _, _ => by simp [Con.tame] at hc
  | .sleb, hc, _, _ => by simp [Con.tame] at hc
  | .cstring, hc, _, _ => by simp [Con.tame] at hc
  | .prefixed _ _, hc, _, _ => by simp [Con.tame] at hc
  | .repeatUntilExcl _ _, hc, _, _ => by simp [Con.tame] at hc
  | .value _, hc, _, _ => by simp [Con.tame] at hc
  | .ifThenElse _ _ _, hc, _, _ => by simp [Con.tame] at hc
  | .switch _ _ _, hc, _, _ => by simp [Con.tame] at hc
  | .noDefault, hc, _, _ => by simp [Con.tame] at hc
  | .bits _, hc, _, _ => by simp [Con.tame] at hc
  | .streamOffset, hc, _, _ => by simp [Con.tame] at hc
  | .initialLength _, hc, _, _ => by simp [Con.tame] at hc
  | .formatted _, hc, _, _ => by simp [Con.tame] at hc
  | .unsupported _, hc, _, _ => by simp [Con.tame] at hc
theorem tame_parseFields (env : Env) (data : Bytes) (b : Bool) :
    ∀ (fs : ConFields), ConFields.tame b fs = true →
      ∀ obj ctx pos, Only (TameErr b) (Con.parseFields env data fs obj ctx pos)
  | .nil, _, obj, ctx, pos => by rw [Con.parseFields]; exact Only.ok _
  | .cons name embed c rest, hc, obj, ctx, pos => by
      have h : (embed = false ∧ Con.tame b c = true) ∧ ConFields.tame b rest = true := by
        simpa [ConFields.tame] using hc
      obtain ⟨⟨rfl, h2⟩, h3⟩ := h
      rw [Con.parseFields]
      simp only [Bool.false_eq_true, if_false]
      refine Only.bind (tame_parse env data b c h2 ctx pos) ?_
      rintro ⟨v, p, ctx'⟩ _
      simp only
      split
      · exact tame_parseFields env data b rest h3 _ _ _
      · exact tame_parseFields env data b rest h3 _ _ _
end

/-! ### which keys a successfully parsed struct has -/

theorem Fields.get?_set (fs : Fields) (k : String) (v : Val) (k' : String) :
    Fields.get? (Fields.set fs k v) k' = if k = k' then some v else Fields.get? fs k' := by
  induction fs with
  | nil => simp [Fields.set, Fields.get?]
  | cons kv rest ih =>
    obtain ⟨k0, v0⟩ := kv
    simp only [Fields.set]
    by_cases h0 : k0 = k
    · subst h0
      simp only [if_true, Fields.get?]
      split <;> rfl
    · simp only [h0, if_false, Fields.get?, ih]
      by_cases h1 : k0 = k'
      · subst h1
        have : ¬ k = k0 := fun h => h0 h.symm
        simp [this]
      · simp [h1]

/-- the construct that produces the final value of key `k` in a struct's object
    (`acc`: the producer of the value already there) -/
def ConFields.lastNamed (k : String) : ConFields → Option Con → Option Con
  | .nil, acc => acc
  | .cons (some nm) false c rest, acc => ConFields.lastNamed k rest (if nm = k then some c else acc)
  | .cons none false _ rest, acc => ConFields.lastNamed k rest acc
  | .cons _ true _ _, _ => none

def ParsedBy (env : Env) (data : Bytes) (c : Con) (v : Val) : Prop :=
  ∃ ctx pos p ctx', Con.parse env data c ctx pos = .ok (v, p, ctx')

theorem parseFields_lastNamed (env : Env) (data : Bytes) (k : String) :
    ∀ (fs : ConFields) (acc : Option Con) (c : Con) (obj ctx : Fields) (pos : Nat)
      (obj' : Fields) (p : Nat) (ctx' : Fields),
      Con.parseFields env data fs obj ctx pos = .ok (obj', p, ctx') →
      ConFields.lastNamed k fs acc = some c →
      (∀ c0, acc = some c0 → ∃ v, Fields.get? obj k = some v ∧ ParsedBy env data c0 v) →
      ∃ v, Fields.get? obj' k = some v ∧ ParsedBy env data c v
  | .nil, acc, c, obj, ctx, pos, obj', p, ctx', h, hl, hacc => by
      rw [Con.parseFields] at h
      cases h
      exact hacc c hl
  | .cons name true c1 rest, acc, c, obj, ctx, pos, obj', p, ctx', h, hl, hacc => by
      cases name <;> simp [ConFields.lastNamed] at hl
  | .cons none false c1 rest, acc, c, obj, ctx, pos, obj', p, ctx', h, hl, hacc => by
      rw [Con.parseFields] at h
      simp only [Bool.false_eq_true, if_false] at h
      obtain ⟨⟨v1, p1, cx1⟩, h1, h⟩ := bind_ok.1 h
      simp only [ConFields.lastNamed] at hl
      exact parseFields_lastNamed env data k rest acc c obj cx1 p1 obj' p ctx' h hl hacc
  | .cons (some nm) false c1 rest, acc, c, obj, ctx, pos, obj', p, ctx', h, hl, hacc => by
      rw [Con.parseFields] at h
      simp only [Bool.false_eq_true, if_false] at h
      obtain ⟨⟨v1, p1, cx1⟩, h1, h⟩ := bind_ok.1 h
      simp only [ConFields.lastNamed] at hl
      refine parseFields_lastNamed env data k rest _ c _ _ p1 obj' p ctx' h hl ?_
      intro c0 hc0
      rw [Fields.get?_set]
      by_cases hk : nm = k
      · simp only [hk, if_true] at hc0 ⊢
        cases hc0
        exact ⟨v1, rfl, ctx, pos, p1, cx1, h1⟩
      · simp only [hk, if_false] at hc0 ⊢
        exact hacc c0 hc0

theorem parse_struct_ok {env : Env} {data : Bytes} {fs : ConFields} {ctx : Fields} {pos : Nat}
    {v : Val} {p : Nat} {ctx' : Fields}
    (h : Con.parse env data (.struct fs) ctx pos = .ok (v, p, ctx')) :
    ∃ obj cx, v = .record obj ∧ Con.parseFields env data fs [] [] pos = .ok (obj, p, cx) := by
  rw [Con.parse] at h
  obtain ⟨⟨obj, p1, cx⟩, h1, h⟩ := bind_ok.1 h
  simp [pure, Except.pure] at h
  obtain ⟨rfl, rfl, -⟩ := h
  exact ⟨obj, cx, rfl, h1⟩

/-- a successfully parsed struct has every key `lastNamed` finds, holding a value its construct parsed -/
theorem parsedBy_struct_field {env : Env} {data : Bytes} {fs : ConFields} {v : Val} {k : String} {c : Con}
    (h : ParsedBy env data (.struct fs) v) (hl : ConFields.lastNamed k fs none = some c) :
    ∃ x, v.getField k = .ok x ∧ ParsedBy env data c x := by
  obtain ⟨ctx, pos, p, ctx', h⟩ := h
  obtain ⟨obj, cx, rfl, hf⟩ := parse_struct_ok h
  obtain ⟨x, hx, hp⟩ := parseFields_lastNamed env data k fs none c [] [] pos obj p cx hf hl
    (fun c0 h0 => by cases h0)
  exact ⟨x, by simp [Val.getField, Fields.getR, hx], hp⟩

theorem parsedBy_uint {env : Env} {data : Bytes} {n : Nat} {le : Bool} {v : Val}
    (h : ParsedBy env data (.uint n le) v) : ∃ m : Nat, v = .int m := by
  obtain ⟨ctx, pos, p, ctx', h⟩ := h
  rw [Con.parse] at h
  obtain ⟨bs, -, h⟩ := bind_ok.1 h
  simp [pure, Except.pure] at h
  exact ⟨_, h.1.symm⟩

theorem parsedBy_struct_nat {env : Env} {data : Bytes} {fs : ConFields} {v : Val} {k : String}
    {n : Nat} {le : Bool}
    (h : ParsedBy env data (.struct fs) v) (hl : ConFields.lastNamed k fs none = some (.uint n le)) :
    ∃ m, v.getNat k = .ok m := by
  obtain ⟨x, hx, hp⟩ := parsedBy_struct_field h hl
  obtain ⟨m, rfl⟩ := parsedBy_uint hp
  exact ⟨m, by simp [Val.getNat, hx, bind, Except.bind, Val.asNat, Val.asInt]⟩


/-! ### `ELFFile(stream)` raises only ELFError / ELFParseError -/

/-- the two error classes `ELFFile(...)` may raise -/
def E2 (e : Err) : Prop := e = .elfError ∨ e = .elfParseError

theorem tameErr_false {e : Err} (h : TameErr false e) : e = .elfParseError := by
  rcases h with h | ⟨h, -⟩
  · exact h
  · cases h

theorem structParse_only {env : Env} {c : Con} {b : Bool} (hc : Con.tame b c = true) (data : Bytes) (pos : Nat) :
    Only (TameErr b) (structParse env c data pos) := by
  unfold structParse
  exact Only.bind (tame_parse env data b c hc [] pos) (fun _ _ => Only.pure _)

theorem structParseAt_only {env : Env} {c : Con} {b : Bool} (hc : Con.tame b c = true) (data : Bytes) (pos : Nat) :
    Only (TameErr b) (structParseAt env c data pos) := by
  unfold structParseAt
  by_cases hp : pos ≥ 2 ^ 63
  · simp only [hp, if_true]
    exact Only.bind (Only.throw (Or.inl rfl)) (fun _ _ => structParse_only hc data pos)
  · simp only [hp, if_false]
    exact structParse_only hc data pos

theorem structParseAt_parsedBy {env : Env} {c : Con} {data : Bytes} {pos : Nat} {v : Val} {p : Nat}
    (h : structParseAt env c data pos = .ok (v, p)) : ParsedBy env data c v := by
  obtain ⟨-, cx, h⟩ := structParseAt_ok h
  exact ⟨[], pos, p, cx, h⟩

theorem ehdr_tame (c : ElfCfg) : Con.tame false (elfStructs c).Elf_Ehdr = true := by rfl
theorem shdr_tame (c : ElfCfg) (b : Bool) : Con.tame b (elfStructs c).Elf_Shdr = true := by rfl
theorem chdr_tame (c : ElfCfg) (b : Bool) : Con.tame b (elfStructs c).Elf_Chdr = true := by
  simp only [elfStructs]; split <;> rfl


structure HdrOK (hdr : Val) : Prop where
  shstrndx : ∃ m, hdr.getNat "e_shstrndx" = .ok m
  shentsize : ∃ m, hdr.getNat "e_shentsize" = .ok m
  shoff : ∃ m, hdr.getNat "e_shoff" = .ok m
  etype : ∃ a, hdr.getField "e_type" = .ok a
  emachine : ∃ a, hdr.getField "e_machine" = .ok a
  osabi : ∃ id a, hdr.getField "e_ident" = .ok id ∧ id.getField "EI_OSABI" = .ok a

structure ShdrOK (sh : Val) : Prop where
  link : ∃ m, sh.getNat "sh_link" = .ok m
  flags : ∃ m, sh.getNat "sh_flags" = .ok m
  offset : ∃ m, sh.getNat "sh_offset" = .ok m

theorem ehdr_shape {env : Env} {data : Bytes} {c : ElfCfg} {hdr : Val}
    (h : ParsedBy env data (elfStructs c).Elf_Ehdr hdr) : HdrOK hdr := by
  refine ⟨?_, ?_, ?_, ?_, ?_, ?_⟩
  · exact parsedBy_struct_nat h (by simp [mkFields, f, ConFields.lastNamed]; exact ⟨rfl, rfl⟩)
  · exact parsedBy_struct_nat h (by simp [mkFields, f, ConFields.lastNamed]; exact ⟨rfl, rfl⟩)
  · exact parsedBy_struct_nat h (by simp [mkFields, f, ConFields.lastNamed]; exact ⟨rfl, rfl⟩)
  · obtain ⟨x, hx, -⟩ := parsedBy_struct_field (k := "e_type") h (by simp [mkFields, f, ConFields.lastNamed]; rfl)
    exact ⟨x, hx⟩
  · obtain ⟨x, hx, -⟩ := parsedBy_struct_field (k := "e_machine") h (by simp [mkFields, f, ConFields.lastNamed]; rfl)
    exact ⟨x, hx⟩
  · obtain ⟨x, hx, hp⟩ := parsedBy_struct_field (k := "e_ident") h (by simp [mkFields, f, ConFields.lastNamed]; rfl)
    obtain ⟨y, hy, -⟩ := parsedBy_struct_field (k := "EI_OSABI") hp (by simp [mkFields, ConFields.lastNamed]; rfl)
    exact ⟨x, y, hx, hy⟩


theorem shdr_shape {env : Env} {data : Bytes} {c : ElfCfg} {sh : Val}
    (h : ParsedBy env data (elfStructs c).Elf_Shdr sh) : ShdrOK sh := by
  refine ⟨?_, ?_, ?_⟩
  · exact parsedBy_struct_nat h (by simp [mkFields, f, ConFields.lastNamed]; exact ⟨rfl, rfl⟩)
  · exact parsedBy_struct_nat h (by simp [mkFields, f, ConFields.lastNamed]; exact ⟨rfl, rfl⟩)
  · exact parsedBy_struct_nat h (by simp [mkFields, f, ConFields.lastNamed]; exact ⟨rfl, rfl⟩)

theorem identify_only (data : Bytes) : Only E2 (identify data) := by
  unfold identify
  intro e h
  by_cases hm : (readN data 0 4 != [0x7f, 0x45, 0x4c, 0x46]) = true
  · simp [hm, throw, throwThe, MonadExceptOf.throw, bind, Except.bind] at h
    exact Or.inl h.symm
  · simp only [hm] at h
    simp only [Bool.false_eq_true, if_false] at h
    split at h <;> split at h <;>
      simp [pure, Except.pure, throw, throwThe, MonadExceptOf.throw, bind, Except.bind] at h <;>
      exact Or.inl h.symm

theorem cfgOfHeader_ok {hdr : Val} (h : HdrOK hdr) (mc : Val → String) (cls : Nat) (le : Bool) :
    ∃ cfg, cfgOfHeader mc cls le hdr = .ok cfg := by
  obtain ⟨a, ha⟩ := h.etype
  obtain ⟨b, hb⟩ := h.emachine
  obtain ⟨id, c, hid, hc⟩ := h.osabi
  exact ⟨⟨le, cls, mc b, isStr c "ELFOSABI_SOLARIS", isStr a "ET_CORE"⟩,
    by simp [cfgOfHeader, ha, hb, hid, hc, bind, Except.bind, pure, Except.pure]⟩

theorem sectionOffset_only {c : ElfCfg} {hdr : Val} (h : HdrOK hdr) (n : Nat) :
    Only E2 (sectionOffset (elfStructs c) hdr n) := by
  obtain ⟨a, ha⟩ := h.shentsize
  obtain ⟨b, hb⟩ := h.shoff
  unfold sectionOffset
  rw [ha, hb, sizeofR_ok (shdr_sizeof' c)]
  intro e he
  by_cases hlt : (decide (b > 0) && decide (a < shdrSize c)) = true
  · simp [hlt, throw, throwThe, MonadExceptOf.throw, bind, Except.bind] at he
    exact Or.inl he.symm
  · simp [hlt, pure, Except.pure, bind, Except.bind] at he

theorem getSectionHeader_only {env : Env} {c : ElfCfg} {data : Bytes} {hdr : Val} (h : HdrOK hdr) (n : Nat) :
    Only E2 (getSectionHeader env (elfStructs c) data hdr n) := by
  unfold getSectionHeader
  refine Only.bind (sectionOffset_only h n) (fun pos _ => ?_)
  refine Only.ite (fun _ => Only.pure _) (fun _ => ?_)
  refine Only.bind ?_ (fun _ _ => Only.pure _)
  exact (structParseAt_only (shdr_tame c false) data pos).mono (fun e he => Or.inr (tameErr_false he))

theorem getSectionHeader_shape {env : Env} {c : ElfCfg} {data : Bytes} {hdr : Val} {n : Nat} {sh : Val}
    (h : getSectionHeader env (elfStructs c) data hdr n = .ok (some sh)) : ShdrOK sh := by
  obtain ⟨pos, p, -, -, hp⟩ := getSectionHeader_ok_some h
  exact shdr_shape (structParseAt_parsedBy hp)

theorem getShstrndx_only {env : Env} {c : ElfCfg} {data : Bytes} {hdr : Val} (h : HdrOK hdr) :
    Only E2 (getShstrndx env (elfStructs c) data hdr) := by
  unfold getShstrndx
  obtain ⟨x, hx⟩ := h.shstrndx
  rw [hx]
  refine Only.bind (Only.ok _) (fun x _ => ?_)
  refine Only.ite (fun _ => Only.pure _) (fun _ => ?_)
  refine Only.bind (getSectionHeader_only h 0) (fun oh hoh => ?_)
  cases oh with
  | none => exact Only.throw (Or.inr rfl)
  | some h0 =>
    obtain ⟨m, hm⟩ := (getSectionHeader_shape hoh).link
    exact Only.of_eq_ok hm

theorem sectionInit_only {env : Env} {c : ElfCfg} {data : Bytes} {sh : Val} (h : ShdrOK sh) :
    Only E2 (sectionInit env (elfStructs c) data sh) := by
  unfold sectionInit
  obtain ⟨fl, hfl⟩ := h.flags
  obtain ⟨off, hoff⟩ := h.offset
  rw [hfl]
  refine Only.bind (Only.ok _) (fun x _ => ?_)
  simp only []
  refine Only.ite (fun _ => ?_) (fun _ => Only.pure _)
  rw [hoff]
  refine Only.bind (Only.ok _) (fun o _ => Only.bind ?_ (fun _ _ => Only.pure _))
  exact (structParseAt_only (chdr_tame c false) data o).mono (fun e he => Or.inr (tameErr_false he))


theorem openElf_only (env : Env) (data : Bytes) :
    Only E2 (openElf env structsFor machineClassOfVal data) := by
  unfold openElf
  refine Only.bind (identify_only data) ?_
  rintro ⟨cls, le⟩ -
  simp only [structsFor]
  refine Only.bind ((structParseAt_only (ehdr_tame _) data 0).mono
    (fun e he => Or.inr (tameErr_false he))) ?_
  rintro ⟨hdr, p0⟩ hparse
  have hok : HdrOK hdr := ehdr_shape (structParseAt_parsedBy hparse)
  obtain ⟨cfg, hcfg⟩ := cfgOfHeader_ok hok machineClassOfVal cls le
  simp only [hcfg]
  refine Only.bind (Only.ok _) ?_
  rintro cfg' -
  refine Only.bind (getShstrndx_only hok) (fun ndx _ => ?_)
  refine Only.ite (fun _ => Only.pure _) (fun _ => ?_)
  refine Only.bind (getSectionHeader_only hok ndx) (fun osh hosh => ?_)
  cases osh with
  | none => exact Only.pure _
  | some st =>
    exact Only.bind (sectionInit_only (getSectionHeader_shape hosh)) (fun _ _ => Only.pure _)

theorem openElf_error_closed (env : Env) (data : Bytes) :
    (∃ f, openElf env structsFor machineClassOfVal data = .ok f) ∨
    openElf env structsFor machineClassOfVal data = .error .elfError ∨
    openElf env structsFor machineClassOfVal data = .error .elfParseError := by
  cases h : openElf env structsFor machineClassOfVal data with
  | ok f => exact Or.inl ⟨f, rfl⟩
  | error e =>
    rcases openElf_only env data e h with rfl | rfl
    · exact Or.inr (Or.inl rfl)
    · exact Or.inr (Or.inr rfl)


/-! ### the link recursion of `_make_section` never runs out of fuel -/

/-- errors other than the model's own "ran out of fuel" -/
abbrev NFE (e : Err) : Prop := e ≠ .outOfFuel
abbrev NF {α : Type} (x : R α) : Prop := Only NFE x

theorem nf_asInt (v : Val) : NF v.asInt := by
  intro e h; cases v <;> simp [Val.asInt] at h <;> subst h <;> decide
theorem nf_asNat (v : Val) : NF v.asNat := by
  unfold Val.asNat
  refine Only.bind (nf_asInt v) (fun n _ => ?_)
  split
  · exact Only.error (by decide)
  · exact Only.ok _
theorem nf_getR (fs : Fields) (k : String) : NF (Fields.getR fs k) := by
  unfold Fields.getR; split
  · exact Only.ok _
  · exact Only.error (by decide)
theorem nf_getField (v : Val) (k : String) : NF (v.getField k) := by
  unfold Val.getField; split
  · exact nf_getR _ _
  · exact Only.error (by decide)
theorem nf_getNat (v : Val) (k : String) : NF (v.getNat k) := by
  unfold Val.getNat
  exact Only.bind (nf_getField v k) (fun _ _ => nf_asNat _)
theorem nf_subscript (v : Option Val) (k : String) : NF (subscript v k) := by
  unfold subscript; split
  · exact Only.error (by decide)
  · exact nf_getField _ _
theorem nf_sizeofR (c : Con) : NF (sizeofR c) := by
  unfold sizeofR; split
  · exact Only.ok _
  · exact Only.error (by decide)

theorem tameErr_nf {b : Bool} {e : Err} (h : TameErr b e) : NFE e := by
  rcases h with rfl | ⟨-, rfl | rfl⟩ <;> decide

theorem nf_structParseAt {env : Env} {c : Con} (hc : Con.tame true c = true) (data : Bytes) (pos : Nat) :
    NF (structParseAt env c data pos) :=
  (structParseAt_only hc data pos).mono (fun _ => tameErr_nf)

theorem nf_parseCStringAt (data : Bytes) (pos : Nat) : NF (parseCStringAt data pos) := by
  unfold parseCStringAt
  refine Only.bind ?_ (fun _ _ => ?_)
  · unfold seekCheck; split
    · exact Only.error (by decide)
    · exact Only.ok _
  · unfold parseCStringFromStream
    rw [cstringChunkLoop_eq data 64 (by decide) _ _ _ (by omega)]
    exact Only.ok _

theorem nf_getString (data : Bytes) (st : Val) (off : Nat) : NF (getString data st off) := by
  unfold getString
  refine Only.bind (nf_getNat _ _) (fun _ _ => Only.bind (nf_parseCStringAt _ _) (fun r _ => ?_))
  cases r <;> exact Only.pure _

theorem nf_sectionOffset (S : ElfStructs) (hdr : Val) (n : Nat) : NF (sectionOffset S hdr n) := by
  unfold sectionOffset
  refine Only.bind (nf_getNat _ _) (fun _ _ => Only.bind (nf_getNat _ _) (fun _ _ =>
    Only.bind (nf_sizeofR _) (fun _ _ => ?_)))
  simp only []
  exact Only.ite (fun _ => Only.bind (Only.throw (by decide)) (fun _ _ => Only.pure _)) (fun _ => Only.pure _)

theorem nf_getSectionHeader (env : Env) (c : ElfCfg) (data : Bytes) (hdr : Val) (n : Nat) :
    NF (getSectionHeader env (elfStructs c) data hdr n) := by
  unfold getSectionHeader
  refine Only.bind (nf_sectionOffset _ _ _) (fun pos _ => ?_)
  refine Only.ite (fun _ => Only.pure _) (fun _ => ?_)
  exact Only.bind (nf_structParseAt (shdr_tame c true) data pos) (fun _ _ => Only.pure _)

theorem nf_getShstrndx (env : Env) (c : ElfCfg) (data : Bytes) (hdr : Val) :
    NF (getShstrndx env (elfStructs c) data hdr) := by
  unfold getShstrndx
  refine Only.bind (nf_getNat _ _) (fun x _ => ?_)
  refine Only.ite (fun _ => Only.pure _) (fun _ => ?_)
  refine Only.bind (nf_getSectionHeader _ _ _ _ _) (fun oh _ => ?_)
  cases oh with
  | none => exact Only.throw (by decide)
  | some h0 => exact nf_getNat _ _

/-- (statement follows the definition: since the repair of `no-name-table`, `getSectionName` consults
    `get_shstrndx()` when there is no table object, so it takes the file's header and structures) -/
theorem nf_getSectionName (env : Env) (c : ElfCfg) (data : Bytes) (hdr : Val) (shstr sh : Option Val) :
    NF (getSectionName env (elfStructs c) data hdr shstr sh) := by
  unfold getSectionName
  cases shstr with
  | none =>
    refine Only.bind (nf_getShstrndx _ _ _ _) (fun ndx _ => ?_)
    exact Only.ite (fun _ => Only.pure _) (fun _ => Only.throw (by decide))
  | some st =>
    exact Only.bind (nf_subscript _ _) (fun _ _ => Only.bind (nf_asNat _) (fun _ _ => nf_getString _ _ _))

theorem nf_sectionInit (env : Env) (c : ElfCfg) (data : Bytes) (sh : Val) :
    NF (sectionInit env (elfStructs c) data sh) := by
  unfold sectionInit
  refine Only.bind (nf_getNat _ _) (fun x _ => ?_)
  simp only []
  refine Only.ite (fun _ => ?_) (fun _ => Only.pure _)
  exact Only.bind (nf_getNat _ _) (fun o _ => Only.bind (nf_structParseAt (chdr_tame c true) data o)
    (fun _ _ => Only.pure _))

theorem byte_tame (c : ElfCfg) : Con.tame true (elfStructs c).Elf_byte = true := by rfl
theorem hash_tame (c : ElfCfg) : Con.tame true (elfStructs c).Elf_Hash = true := by rfl
theorem gnuhash_tame (c : ElfCfg) : Con.tame true (elfStructs c).Gnu_Hash = true := by rfl


/-- how deep the link recursion of `_make_section` can go from a header of type `ty`
    (the cascade mirrors `makeSection`) -/
def rankTy (ty : Val) : Nat :=
  if isStr ty "SHT_STRTAB" then 1
  else if isStr ty "SHT_NULL" then 1
  else if isStr ty "SHT_SYMTAB" || isStr ty "SHT_DYNSYM" || isStr ty "SHT_SUNW_LDYNSYM" then 2
  else if isStr ty "SHT_SYMTAB_SHNDX" then 1
  else if isStr ty "SHT_SUNW_syminfo" then 3
  else if isStr ty "SHT_GNU_verneed" then 2
  else if isStr ty "SHT_GNU_verdef" then 2
  else if isStr ty "SHT_GNU_versym" then 3
  else if isStr ty "SHT_REL" || isStr ty "SHT_RELA" then 1
  else if isStr ty "SHT_DYNAMIC" then 2
  else if isStr ty "SHT_NOTE" then 1
  else if isStr ty "SHT_ARM_ATTRIBUTES" || isStr ty "SHT_RISCV_ATTRIBUTES" then 1
  else if isStr ty "SHT_HASH" then 3
  else if isStr ty "SHT_GNU_HASH" then 3
  else 1

def rank (osh : Option Val) : Nat :=
  match subscript osh "sh_type" with
  | .ok t => rankTy t
  | .error _ => 1

theorem ite_prop {α : Type} {P : α → Prop} {c : Prop} [Decidable c] {a b : α} (ha : P a) (hb : P b) :
    P (if c then a else b) := by split <;> assumption
def RB (n : Nat) : Prop := 1 ≤ n ∧ n ≤ 3
theorem rankTy_bounds (ty : Val) : RB (rankTy ty) := by
  unfold rankTy
  repeat' (first | exact ⟨by omega, by omega⟩ | refine ite_prop (P := RB) ?_ ?_)
theorem rankTy_pos (ty : Val) : 1 ≤ rankTy ty := (rankTy_bounds ty).1
theorem rankTy_le (ty : Val) : rankTy ty ≤ 3 := (rankTy_bounds ty).2
theorem rank_pos (osh : Option Val) : 1 ≤ rank osh := by
  unfold rank; split
  · exact rankTy_pos _
  · omega
theorem rank_le (osh : Option Val) : rank osh ≤ 3 := by
  unfold rank; split
  · exact rankTy_le _
  · omega

theorem isStr_eq {t : Val} {s : String} (h : isStr t s = true) : t = .str s := by
  cases t <;> simp [isStr] at h
  rw [h]

theorem rank_of_type {osh : Option Val} {t : Val} (h : subscript osh "sh_type" = .ok t) :
    rank osh = rankTy t := by simp [rank, h]

theorem rankTy_strtab {t : Val} (h : isStr t "SHT_STRTAB" = true) : rankTy t = 1 := by
  rw [isStr_eq h]; simp [rankTy, isStr]
theorem rankTy_nobits {t : Val} (h : isStr t "SHT_NOBITS" = true) : rankTy t = 1 := by
  rw [isStr_eq h]; simp [rankTy, isStr]
theorem rankTy_symtab {t : Val} (h : (isStr t "SHT_SYMTAB" || isStr t "SHT_DYNSYM") = true) : rankTy t = 2 := by
  rcases Bool.or_eq_true _ _ ▸ h with h | h <;> rw [isStr_eq h] <;> simp [rankTy, isStr]

theorem rankTy_strtab_nobits {t : Val} (h : (isStr t "SHT_STRTAB" || isStr t "SHT_NOBITS") = true) :
    rankTy t = 1 := by
  rcases Bool.or_eq_true _ _ ▸ h with h | h
  · exact rankTy_strtab h
  · exact rankTy_nobits h

theorem not_bnot {b : Bool} (h : ¬(!b) = true) : b = true := by simpa using h

theorem makeSection_nf (env : Env) (c : ElfCfg) (data : Bytes) (hdr : Val) (shstr : Option Val) :
    ∀ (fuel : Nat) (osh : Option Val), rank osh ≤ fuel →
      NF (makeSection env (elfStructs c) data hdr shstr fuel osh) := by
  intro fuel
  induction fuel with
  | zero => intro osh h; have := rank_pos osh; omega
  | succ fuel ih =>
    intro osh hrank
    rw [makeSection]
    refine Only.bind (nf_getSectionName _ _ _ _ _ _) (fun name _ => ?_)
    cases osh with
    | none => exact Only.throw (by decide)
    | some sh =>
      simp only []
      refine Only.bind (nf_getField _ _) (fun ty hty => ?_)
      refine Only.bind (nf_getNat _ _) (fun link _ => ?_)
      have hr : rankTy ty ≤ fuel + 1 := by
        rw [← rank_of_type (osh := some sh) (by simpa [subscript] using hty)]; exact hrank
      clear hrank
      refine Only.bind ?_ (fun _ _ => Only.pure _)
      repeat' (with_reducible first
        | refine ih _ ?_
        | exact Only.pure _ | exact Only.ok _
        | exact Only.throw (by decide) | exact Only.error (by decide)
        | exact nf_getField _ _ | exact nf_getNat _ _ | exact nf_asInt _ | exact nf_sizeofR _
        | exact nf_sectionInit _ _ _ _ | exact nf_getSectionHeader _ _ _ _ _ | exact nf_subscript _ _
        | exact nf_structParseAt (byte_tame _) _ _
        | exact nf_structParseAt (hash_tame _) _ _
        | exact nf_structParseAt (gnuhash_tame _) _ _
        | refine Only.bind ?_ (fun _ _ => ?_)
        | refine Only.ite (fun _ => ?_) (fun _ => ?_)
        | split)
      all_goals try (next h => cases h)
      all_goals
        refine Nat.le_trans (Nat.le_of_eq (rank_of_type ‹_›)) ?_
        simp [rankTy, *] at hr
        first
        | (rw [rankTy_strtab (not_bnot ‹¬(!isStr _ "SHT_STRTAB") = true›)]; omega)
        | (rw [rankTy_symtab (not_bnot ‹¬(!(isStr _ "SHT_SYMTAB" || isStr _ "SHT_DYNSYM")) = true›)]; omega)
        | (rw [rankTy_strtab_nobits (not_bnot ‹¬(!(isStr _ "SHT_STRTAB" || isStr _ "SHT_NOBITS")) = true›)]; omega)


theorem getSection_nf (env : Env) (c : ElfCfg) (data : Bytes) (hdr : Val) (shstr : Option Val) (i : Nat) :
    getSection env (elfStructs c) data hdr shstr i ≠ .error .outOfFuel := by
  intro h
  refine (?_ : NF (getSection env (elfStructs c) data hdr shstr i)) _ h rfl
  unfold getSection
  refine Only.bind (nf_getSectionHeader _ _ _ _ _) (fun oh _ => ?_)
  refine Only.bind (makeSection_nf env c data hdr shstr 4 oh (by have := rank_le oh; omega)) ?_
  rintro ⟨kind, name⟩ -
  cases oh with
  | none => exact Only.throw (by decide)
  | some sh => exact Only.pure _


/-! ### end-to-end forms: the file was opened by `openElf`, so its class is 32 or 64 -/

theorem openElf_getSection_bound {env : Env} {data : Bytes} {f : ElfFile}
    (hf : openElf env structsFor machineClassOfVal data = .ok f)
    {n i : Nat} {r : String × Bytes × Val}
    (hn : numSections env f.S data f.header = .ok n) (hi : i < n)
    (h : getSection env f.S data f.header f.shstr i = .ok r) :
    40 * i + 40 ≤ data.length := by
  obtain ⟨c, hc, hS, -⟩ := openElf_ok hf
  rw [hS] at hn h
  have hb := getSection_ok_bound hn hi h
  have h40 : 40 ≤ shdrSize c := by unfold shdrSize; rcases hc with hc | hc <;> rw [hc] <;> decide
  have := Nat.mul_le_mul_right (i + 1) h40
  omega

theorem openElf_getSegment_bound {env : Env} {data : Bytes} {f : ElfFile}
    (hf : openElf env structsFor machineClassOfVal data = .ok f)
    {i : Nat} {r : String × Val}
    (h : getSegment env f.S data f.header f.shstr i = .ok r) :
    32 * i + 32 ≤ data.length := by
  obtain ⟨c, hc, hS, -⟩ := openElf_ok hf
  rw [hS] at h
  have hb := getSegment_ok_bound h
  have h32 : 32 ≤ phdrSize c := by unfold phdrSize; rcases hc with hc | hc <;> rw [hc] <;> decide
  have := Nat.mul_le_mul_right (i + 1) h32
  omega

theorem openElf_getSection_nf {env : Env} {data : Bytes} {f : ElfFile}
    (hf : openElf env structsFor machineClassOfVal data = .ok f) (i : Nat) :
    getSection env f.S data f.header f.shstr i ≠ .error .outOfFuel := by
  obtain ⟨c, -, hS, -⟩ := openElf_ok hf
  rw [hS]
  exact getSection_nf env c data f.header f.shstr i

end PyElf.Proofs.ElfErrors
