/-
  DWARF 2–4 location / range list readers, the address table lookup and the
  offset table lookup: the model functions of Model/Lists.lean compute what
  Spec/Lists.lean prescribes.
-/
import PyElf.Spec.Lists
import PyElf.Model.Lists
import PyElf.Proofs.Primitives
namespace PyElf.Proofs.ListsV4
open PyElf PyElf.Spec PyElf.Spec.Lists PyElf.Model PyElf.Model.Lists PyElf.Proofs

/-! ### small facts -/

theorem valInt_beq (a b : Int) : (Val.int a == Val.int b) = (a == b) := by
  show Val.beq (.int a) (.int b) = (a == b)
  rw [Val.beq]

theorem valNat_beq (a b : Nat) : (Val.int (a : Int) == Val.int (b : Int)) = (a == b) := by
  rw [valInt_beq, Bool.eq_iff_iff, beq_iff_eq, beq_iff_eq]; omega

theorem valNat_beq_zero (a : Nat) : (Val.int (a : Int) == Val.int 0) = (a == 0) :=
  valNat_beq a 0

theorem pow256 (asz : Nat) : 256 ^ asz = 2 ^ (8 * asz) := by
  rw [Nat.pow_mul]

theorem maxAddr_eq (l : Model.Lists.Lists) : l.maxAddr = Spec.Lists.maxAddr l.asz := by
  unfold Model.Lists.Lists.maxAddr Spec.Lists.maxAddr
  rw [Nat.mul_comm]

theorem maxAddr_lt (asz : Nat) : Spec.Lists.maxAddr asz < 256 ^ asz := by
  unfold Spec.Lists.maxAddr
  rw [pow256]
  have := Nat.two_pow_pos (8 * asz)
  omega

theorem maxAddr_ne_zero {asz : Nat} (h : 1 ≤ asz) : Spec.Lists.maxAddr asz ≠ 0 := by
  unfold Spec.Lists.maxAddr
  have : 2 ^ 8 ≤ 2 ^ (8 * asz) := Nat.pow_le_pow_right (by decide) (by omega)
  omega

theorem structParse_uint {env : Env} {data : Bytes} {pos n : Nat} {le : Bool} {bs rest : Bytes}
    (hd : data.drop pos = bs ++ rest) (hn : bs.length = n) :
    structParse env (.uint n le) data pos = .ok (.int (decNat le bs), pos + n) := by
  unfold structParse
  rw [parse_uint_ok hd hn]; rfl

theorem structParse_enc {env : Env} {data : Bytes} {pos n v : Nat} {le : Bool} {rest : Bytes}
    (hd : data.drop pos = encNat le n v ++ rest) (hv : v < 256 ^ n) :
    structParse env (.uint n le) data pos = .ok (.int (v : Int), pos + n) := by
  rw [structParse_uint hd (encNat_length le n v), decNat_encNat_of_lt le hv]

theorem drop_enc {data : Bytes} {pos n v : Nat} {le : Bool} {rest : Bytes}
    (hd : data.drop pos = encNat le n v ++ rest) : data.drop (pos + n) = rest := by
  have := drop_add_of_drop hd
  rwa [encNat_length] at this

/-- two consecutive address-sized values -/
theorem pair_parse {env : Env} {data : Bytes} {pos asz a b : Nat} {le : Bool} {rest : Bytes}
    (hd : data.drop pos = encNat le asz a ++ encNat le asz b ++ rest)
    (ha : a < 256 ^ asz) (hb : b < 256 ^ asz) :
    structParse env (.uint asz le) data pos = .ok (.int (a : Int), pos + asz)
    ∧ structParse env (.uint asz le) data (pos + asz) = .ok (.int (b : Int), pos + asz + asz)
    ∧ data.drop (pos + asz + asz) = rest := by
  have hd1 : data.drop pos = encNat le asz a ++ (encNat le asz b ++ rest) := by
    rw [hd, List.append_assoc]
  have hd2 := drop_enc hd1
  exact ⟨structParse_enc hd1 ha, structParse_enc hd2 hb, drop_enc hd2⟩

/-! ### range lists, DWARF 2–4 -/

theorem encV4Rng_cons (le : Bool) (asz : Nat) (e : V4Rng) (es : List V4Rng) :
    encV4Rng le asz (e :: es) = e.enc le asz ++ encV4Rng le asz es := by
  simp [encV4Rng, List.append_assoc]

theorem V4Rng.enc_length (le : Bool) (asz : Nat) (e : V4Rng) : (e.enc le asz).length = asz + asz := by
  cases e <;> simp [V4Rng.enc, encNat_length]

theorem encV4Rng_length_ge (le : Bool) {asz : Nat} (h : 1 ≤ asz) (es : List V4Rng) :
    es.length ≤ (encV4Rng le asz es).length := by
  induction es with
  | nil => simp
  | cons e es ih =>
    rw [encV4Rng_cons, List.length_append, V4Rng.enc_length, List.length_cons]; omega

theorem parseRngV4Loop_ok (env : Env) (l : Model.Lists.Lists) (le : Bool) (rest : Bytes)
    (hA : l.S.the_Dwarf_target_addr = .uint l.asz le) (hasz : 1 ≤ l.asz) :
    ∀ (es : List V4Rng) (fuel pos : Nat) (acc : List Val), es.length + 1 ≤ fuel →
      (∀ e ∈ es, e.wf l.asz = true) →
      l.data.drop pos = encV4Rng le l.asz es ++ rest →
      Model.Lists.parseRngV4Loop env l fuel pos acc
        = .ok (acc.reverse ++ obsV4Rng l.asz pos es, pos + (encV4Rng le l.asz es).length) := by
  intro es
  induction es with
  | nil =>
    intro fuel pos acc hf _ hd
    cases fuel with
    | zero => omega
    | succ fuel =>
      have hpos : 0 < 256 ^ l.asz := Nat.pow_pos (by decide)
      obtain ⟨h1, h2, -⟩ := pair_parse (env := env) (a := 0) (b := 0)
        (by simpa [encV4Rng, v4End] using hd) hpos hpos
      rw [parseRngV4Loop, hA, h1]
      simp only []
      rw [h2]
      simp [valInt_beq, obsV4Rng, encV4Rng, v4End, encNat_length, Nat.add_assoc]
  | cons e es ih =>
    intro fuel pos acc hf hwf hd
    cases fuel with
    | zero => omega
    | succ fuel =>
      have hwfe := hwf e (by simp)
      have hwf' : ∀ x ∈ es, x.wf l.asz = true := fun x hx => hwf x (by simp [hx])
      have hf' : es.length + 1 ≤ fuel := by simp at hf; omega
      rw [encV4Rng_cons] at hd
      cases e with
      | base a =>
        have ha : a < 256 ^ l.asz := by simpa [V4Rng.wf] using hwfe
        obtain ⟨h1, h2, h3⟩ := pair_parse (env := env) (a := Spec.Lists.maxAddr l.asz) (b := a)
          (rest := encV4Rng le l.asz es ++ rest)
          (by simpa [V4Rng.enc, List.append_assoc] using hd) (maxAddr_lt _) ha
        rw [parseRngV4Loop, hA, h1]
        simp only []
        rw [h2]
        have hne : (Spec.Lists.maxAddr l.asz == 0) = false := by
          simpa using maxAddr_ne_zero hasz
        simp only [valNat_beq_zero, hne, Bool.false_and, maxAddr_eq, valNat_beq, beq_self_eq_true]
        simp only [Bool.false_eq_true, if_false, if_true]
        rw [ih fuel _ _ hf' hwf' h3]
        simp [obsV4Rng, V4Rng.obs, rngBaseEntry, nt, encV4Rng_cons, V4Rng.enc_length, Nat.add_assoc]
      | range b e =>
        simp only [V4Rng.wf, Bool.and_eq_true, decide_eq_true_eq, Bool.not_eq_true',
          Bool.and_eq_false_imp, beq_iff_eq, beq_eq_false_iff_ne] at hwfe
        obtain ⟨⟨⟨hb, he⟩, hnz⟩, hnm⟩ := hwfe
        obtain ⟨h1, h2, h3⟩ := pair_parse (env := env) (a := b) (b := e)
          (rest := encV4Rng le l.asz es ++ rest)
          (by simpa [V4Rng.enc, List.append_assoc] using hd) hb he
        rw [parseRngV4Loop, hA, h1]
        simp only []
        rw [h2]
        have hz : (b == 0 && e == 0) = false := by
          by_cases hb0 : b = 0
          · simp [hb0, hnz hb0]
          · simp [hb0]
        have hm : (b == Spec.Lists.maxAddr l.asz) = false := by simpa using hnm
        simp only [valNat_beq_zero, hz, maxAddr_eq, valNat_beq, hm]
        simp only [Bool.false_eq_true, if_false]
        rw [ih fuel _ _ hf' hwf' h3]
        simp [obsV4Rng, V4Rng.obs, rangeEntry, nt, encV4Rng_cons, V4Rng.enc_length, Nat.add_assoc]

theorem parseRngV4_roundtrip (env : Env) (l : Model.Lists.Lists) (le : Bool) (pre rest : Bytes) (es : List V4Rng)
    (hA : l.S.the_Dwarf_target_addr = .uint l.asz le) (hasz : 1 ≤ l.asz)
    (hd : l.data = pre ++ encV4Rng le l.asz es ++ rest)
    (hwf : ∀ e ∈ es, e.wf l.asz = true) :
    Model.Lists.parseRngV4 env l pre.length
      = .ok (obsV4Rng l.asz pre.length es, pre.length + (encV4Rng le l.asz es).length) := by
  have hdrop : l.data.drop pre.length = encV4Rng le l.asz es ++ rest := by
    rw [hd]; exact drop_pre _ _ _
  have hge := encV4Rng_length_ge le hasz es
  have hlen : (encV4Rng le l.asz es).length ≤ l.data.length := by
    rw [hd]; simp only [List.length_append]; omega
  unfold Model.Lists.parseRngV4
  rw [parseRngV4Loop_ok env l le rest hA hasz es _ _ [] (by omega) hwf hdrop]
  simp

/-! ### location lists, DWARF 2–4 -/

theorem readElems_bytes (env : Env) (data : Bytes) (le : Bool) (rest : Bytes) :
    ∀ (payload : Bytes) (pos : Nat) (acc : List Val), data.drop pos = payload ++ rest →
      readElems env (.uint 1 le) data payload.length pos acc
        = .ok (acc.reverse ++ payload.map (fun b => Val.int b.toNat), pos + payload.length) := by
  intro payload
  induction payload with
  | nil => intro pos acc _; simp [readElems]
  | cons b payload ih =>
    intro pos acc hd
    have hd1 : data.drop pos = [b] ++ (payload ++ rest) := by simpa using hd
    obtain ⟨-, hd'⟩ := drop_cons_inv (by simpa using hd)
    simp only [List.length_cons, readElems]
    rw [structParse_uint (n := 1) hd1 rfl, decNat_singleton]
    simp only
    rw [ih (pos + 1) _ hd']
    simp; omega

theorem encV4Loc_cons (le : Bool) (asz : Nat) (e : V4Loc) (es : List V4Loc) :
    encV4Loc le asz (e :: es) = e.enc le asz ++ encV4Loc le asz es := by
  simp [encV4Loc, List.append_assoc]

theorem V4Loc.enc_length (le : Bool) (asz : Nat) (e : V4Loc) : (e.enc le asz).length = e.size asz := by
  cases e <;> simp [V4Loc.enc, V4Loc.size, encNat_length] <;> omega

theorem encV4Loc_length_ge (le : Bool) {asz : Nat} (h : 1 ≤ asz) (es : List V4Loc) :
    es.length ≤ (encV4Loc le asz es).length := by
  induction es with
  | nil => simp
  | cons e es ih =>
    rw [encV4Loc_cons, List.length_append, V4Loc.enc_length, List.length_cons]
    cases e <;> simp only [V4Loc.size] <;> omega

theorem parseLocV4Loop_ok (env : Env) (l : Model.Lists.Lists) (le : Bool) (rest : Bytes)
    (hA : l.S.the_Dwarf_target_addr = .uint l.asz le) (h16 : l.S.the_Dwarf_uint16 = .uint 2 le)
    (h8 : l.S.the_Dwarf_uint8 = .uint 1 le) (hasz : 1 ≤ l.asz) :
    ∀ (es : List V4Loc) (fuel pos : Nat) (acc : List Val), es.length + 1 ≤ fuel →
      (∀ e ∈ es, e.wf l.asz = true) →
      l.data.drop pos = encV4Loc le l.asz es ++ rest →
      Model.Lists.parseLocV4Loop env l fuel pos acc
        = .ok (acc.reverse ++ obsV4Loc l.asz pos es, pos + (encV4Loc le l.asz es).length) := by
  intro es
  induction es with
  | nil =>
    intro fuel pos acc hf _ hd
    cases fuel with
    | zero => omega
    | succ fuel =>
      have hpos : 0 < 256 ^ l.asz := Nat.pow_pos (by decide)
      obtain ⟨h1, h2, -⟩ := pair_parse (env := env) (a := 0) (b := 0)
        (by simpa [encV4Loc, v4End] using hd) hpos hpos
      rw [parseLocV4Loop, hA, h1]
      simp only []
      rw [h2]
      simp [valInt_beq, obsV4Loc, encV4Loc, v4End, encNat_length, Nat.add_assoc]
  | cons e es ih =>
    intro fuel pos acc hf hwf hd
    cases fuel with
    | zero => omega
    | succ fuel =>
      have hwfe := hwf e (by simp)
      have hwf' : ∀ x ∈ es, x.wf l.asz = true := fun x hx => hwf x (by simp [hx])
      have hf' : es.length + 1 ≤ fuel := by simp at hf; omega
      rw [encV4Loc_cons] at hd
      cases e with
      | base a =>
        have ha : a < 256 ^ l.asz := by simpa [V4Loc.wf] using hwfe
        obtain ⟨h1, h2, h3⟩ := pair_parse (env := env) (a := Spec.Lists.maxAddr l.asz) (b := a)
          (rest := encV4Loc le l.asz es ++ rest)
          (by simpa [V4Loc.enc, List.append_assoc] using hd) (maxAddr_lt _) ha
        rw [parseLocV4Loop, hA, h1]
        simp only []
        rw [h2]
        have hne : (Spec.Lists.maxAddr l.asz == 0) = false := by
          simpa using maxAddr_ne_zero hasz
        simp only [valNat_beq_zero, hne, Bool.false_and, maxAddr_eq, valNat_beq, beq_self_eq_true]
        simp only [Bool.false_eq_true, if_false, if_true]
        rw [ih fuel _ _ hf' hwf' h3]
        simp [obsV4Loc, V4Loc.obs, V4Loc.size, locBaseEntry, nt, encV4Loc_cons, V4Loc.enc_length,
          Nat.add_assoc]
      | loc b e x =>
        simp only [V4Loc.wf, Bool.and_eq_true, decide_eq_true_eq, Bool.not_eq_true',
          Bool.and_eq_false_imp, beq_iff_eq, beq_eq_false_iff_ne] at hwfe
        obtain ⟨⟨⟨⟨hb, he⟩, hnz⟩, hnm⟩, hx⟩ := hwfe
        obtain ⟨h1, h2, h3⟩ := pair_parse (env := env) (a := b) (b := e)
          (rest := encNat le 2 x.length ++ (x ++ (encV4Loc le l.asz es ++ rest)))
          (by simpa [V4Loc.enc, List.append_assoc] using hd) hb he
        have hx' : x.length < 256 ^ 2 := Nat.lt_of_lt_of_eq hx (by decide)
        have h4 := structParse_enc (env := env) h3 hx'
        have h5 := drop_enc h3
        have h6 := readElems_bytes env l.data le _ x _ [] h5
        have h7 := drop_add_of_drop h5
        rw [parseLocV4Loop, hA, h1]
        simp only []
        rw [h2]
        have hz : (b == 0 && e == 0) = false := by
          by_cases hb0 : b = 0
          · simp [hb0, hnz hb0]
          · simp [hb0]
        have hm : (b == Spec.Lists.maxAddr l.asz) = false := by simpa using hnm
        simp only [valNat_beq_zero, hz, maxAddr_eq, valNat_beq, hm]
        simp only [Bool.false_eq_true, if_false]
        rw [h16, h4]
        simp only [Val.asInt, Int.toNat_natCast]
        rw [h8, h6]
        simp only []
        rw [ih fuel _ _ hf' hwf' h7]
        simp [obsV4Loc, V4Loc.obs, V4Loc.size, locationEntry, exprVal, nt, encV4Loc_cons, V4Loc.enc_length,
          Nat.add_assoc]

theorem parseLocV4_roundtrip (env : Env) (l : Model.Lists.Lists) (le : Bool) (pre rest : Bytes) (es : List V4Loc)
    (hA : l.S.the_Dwarf_target_addr = .uint l.asz le) (h16 : l.S.the_Dwarf_uint16 = .uint 2 le)
    (h8 : l.S.the_Dwarf_uint8 = .uint 1 le) (hasz : 1 ≤ l.asz)
    (hd : l.data = pre ++ encV4Loc le l.asz es ++ rest)
    (hwf : ∀ e ∈ es, e.wf l.asz = true) :
    Model.Lists.parseLocV4 env l pre.length
      = .ok (obsV4Loc l.asz pre.length es, pre.length + (encV4Loc le l.asz es).length) := by
  have hdrop : l.data.drop pre.length = encV4Loc le l.asz es ++ rest := by
    rw [hd]; exact drop_pre _ _ _
  have hge := encV4Loc_length_ge le hasz es
  have hlen : (encV4Loc le l.asz es).length ≤ l.data.length := by
    rw [hd]; simp only [List.length_append]; omega
  unfold Model.Lists.parseLocV4
  rw [parseLocV4Loop_ok env l le rest hA h16 h8 hasz es _ _ [] (by omega) hwf hdrop]
  simp

/-! ### tables of fixed-width entries: .debug_addr arrays, offset tables -/

theorem flatMap_enc_drop (le : Bool) (n : Nat) :
    ∀ (xs : List Nat) (i : Nat) (hi : i < xs.length),
      (xs.flatMap (encNat le n)).drop (i * n)
        = encNat le n (xs[i]'hi) ++ (xs.drop (i + 1)).flatMap (encNat le n) := by
  intro xs
  induction xs with
  | nil => intro i hi; simp at hi
  | cons x xs ih =>
    intro i hi
    cases i with
    | zero => simp
    | succ i =>
      have hi' : i < xs.length := by simpa using hi
      have e : (i + 1) * n = (encNat le n x).length + i * n := by
        rw [encNat_length, Nat.add_mul]; omega
      rw [List.flatMap_cons, e, ← List.drop_drop, List.drop_left, ih i hi']
      simp

theorem flatMap_enc_length (le : Bool) (n : Nat) (xs : List Nat) :
    (xs.flatMap (encNat le n)).length = xs.length * n := by
  induction xs with
  | nil => simp
  | cons x xs ih => rw [List.flatMap_cons, List.length_append, ih, encNat_length, List.length_cons, Nat.add_mul]; omega

theorem seekParseInt_nat {n : Nat} (h : n < 2 ^ 63) : seekParseInt (n : Int) = .ok n := by
  unfold seekParseInt
  have h1 : ¬ ((n : Int) < 0) := by omega
  simp [h1, Int.toNat_natCast]
  omega

theorem seekInt_nat {n : Nat} (h : n < 2 ^ 63) : seekInt (n : Int) = .ok n := by
  unfold seekInt
  have h1 : ¬ ((n : Int) < 0) := by omega
  have h2 : ¬ ((n : Int).toNat ≥ 2 ^ 63) := by simpa using h
  rw [if_neg h1, if_neg h2]; simp

theorem table_entry_parse (env : Env) (le : Bool) (n : Nat) (pre rest : Bytes) (xs : List Nat) (i : Nat)
    (hi : i < xs.length) (hwf : ∀ a ∈ xs, a < 256 ^ n) :
    structParse env (.uint n le) (pre ++ xs.flatMap (encNat le n) ++ rest) (pre.length + i * n)
      = .ok (.int ((xs[i]'hi : Nat) : Int), pre.length + i * n + n) := by
  have hd : (pre ++ xs.flatMap (encNat le n) ++ rest).drop (pre.length + i * n)
      = encNat le n (xs[i]'hi) ++ ((xs.drop (i + 1)).flatMap (encNat le n) ++ rest) := by
    have hlen : i * n ≤ (xs.flatMap (encNat le n)).length := by
      rw [flatMap_enc_length]
      exact Nat.mul_le_mul_right n (Nat.le_of_lt hi)
    rw [← List.drop_drop, drop_pre, List.drop_append_of_le_length hlen, flatMap_enc_drop le n xs i hi,
      List.append_assoc]
  exact structParse_enc hd (hwf _ (List.getElem_mem hi))

theorem getAddr_exact (env : Env) (secs : Secs) (cu : Cu) (le : Bool) (pre rest : Bytes) (addrs : List Nat) (i : Nat)
    (hS : cu.S.the_Dwarf_target_addr = .uint cu.asz le)
    (hbase : getBaseOffset cu "DW_AT_addr_base" = .ok (.int pre.length))
    (hsec : secs.addr = some (pre ++ encAddrs le cu.asz addrs ++ rest))
    (hi : i < addrs.length) (hwf : ∀ a ∈ addrs, a < 256 ^ cu.asz)
    (hsmall : pre.length + i * cu.asz < 2 ^ 63) :
    getAddr env secs cu (.int i) = .ok (.int (addrs[i]'hi)) := by
  have hpos : (pre.length : Int) + (i : Int) * (cu.asz : Int) = ((pre.length + i * cu.asz : Nat) : Int) := by
    simp
  unfold getAddr
  rw [hsec]
  simp only [hbase, bind, Except.bind, Val.asInt, hpos, seekParseInt_nat hsmall, hS, encAddrs,
    table_entry_parse env le cu.asz pre rest addrs i hi hwf]
  rfl

theorem resolveViaOffsetTable_exact (env : Env) (cu : Cu) (le : Bool) (pre rest : Bytes) (offs : List Nat) (i : Nat)
    (baseName : String) (osz : Nat) (hosz : osz = if cu.fmt = 32 then 4 else 8)
    (hS : cu.S.the_Dwarf_offset = .uint osz le)
    (hbase : getBaseOffset cu baseName = .ok (.int pre.length))
    (hi : i < offs.length) (hwf : ∀ o ∈ offs, o < 256 ^ osz)
    (hsmall : pre.length + i * osz < 2 ^ 63) :
    resolveViaOffsetTable env (some (pre ++ encOffsets le osz offs ++ rest)) cu (.int i) baseName
      = .ok (.int ((pre.length + offs[i]'hi : Nat) : Int)) := by
  have hsz : (if cu.fmt = 32 then (4 : Int) else 8) = (osz : Int) := by
    rw [hosz]; split <;> rfl
  have hpos : (pre.length : Int) + (i : Int) * (osz : Int) = ((pre.length + i * osz : Nat) : Int) := by
    simp
  unfold resolveViaOffsetTable
  simp only [hbase, bind, Except.bind, Val.asInt, hsz, hpos, seekParseInt_nat hsmall, hS, encOffsets,
    table_entry_parse env le osz pre rest offs i hi hwf, addV, pure, Except.pure]
  simp

/-! ### the hypotheses are satisfiable -/

example : (V4Loc.loc 1 2 [0x50]).wf 4 = true := by decide
example : (V4Loc.base 0x1000).wf 4 = true := by decide
example : ∀ e ∈ [V4Loc.base 0x1000, V4Loc.loc 1 2 [0x50]], e.wf 4 = true := by decide
example : (V4Rng.range 0x10 0x20).wf 8 = true := by decide
example : (V4Rng.base 0x400000).wf 8 = true := by decide
example : ∀ e ∈ [V4Rng.base 0x400000, V4Rng.range 0x10 0x20], e.wf 8 = true := by decide
example : ∀ a ∈ [0x1000, 0x2000, 0xFFFFFFFF], a < 256 ^ 4 := by decide

end PyElf.Proofs.ListsV4
