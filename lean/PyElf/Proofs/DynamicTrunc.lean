/-
  C09 helper lemmas: the string table of a layout whose dynamic table runs off
  the end of the file (no DT_NULL), by route; the tags of such a layout.
-/
import PyElf.Proofs.DynamicRoutes
import PyElf.Proofs.DynamicErrors
namespace PyElf.Proofs.Dynamic
open PyElf PyElf.Spec PyElf.Spec.Dynamic PyElf.Model PyElf.Model.Dynamic PyElf.Proofs

section
variable {env : Env} {S : ElfStructs} {data : Bytes} {d : Dyn} {le : Bool} {w : Nat} {tbl : String}
  {tags : List (Int × Nat)} {ifc : FileIfc} {hs : List Val}

/-- on a table that runs off the end, a stored DT_STRTAB is still found (the search stops at it) -/
theorem getStringtable_pointer_trunc (T : TruncView S data d le w tbl tags) (hnull : NullIs env tbl)
    (SV : SegsView ifc hs) (hstrtab : TagIs env tbl "DT_STRTAB" DT_STRTAB) (hnone : d.strtab = none)
    {a o : Nat} (ha : firstVal tags DT_STRTAB = some a) (ho : mapAddr hs a = some o) :
    getStringtable env S data ifc d = .ok (some (.dynamic o)) := by
  unfold getStringtable
  simp only [hnone]
  rw [getTableOffset_trunc T hnull SV "DT_STRTAB" DT_STRTAB hstrtab]
  simp [ha, ho, bind, Except.bind, pure, Except.pure]

/-- … and a missing one makes `_get_stringtable()` itself run off the end: ELFParseError -/
theorem getStringtable_absent_trunc (T : TruncView S data d le w tbl tags) (hnull : NullIs env tbl)
    (SV : SegsView ifc hs) (hstrtab : TagIs env tbl "DT_STRTAB" DT_STRTAB) (hnone : d.strtab = none)
    (ha : firstVal tags DT_STRTAB = none) :
    getStringtable env S data ifc d = .error .elfParseError := by
  unfold getStringtable
  simp only [hnone]
  rw [getTableOffset_trunc T hnull SV "DT_STRTAB" DT_STRTAB hstrtab]
  simp [ha, bind, Except.bind]

end

section
variable {env : Env} {d : DynDesc} {full : Bool} {bytes : Bytes} {f : ElfFile} {dy : Dyn}

theorem live_noTerm {d : DynDesc} (h : hasTerminator d.tags = false) : d.live = d.tags := liveTags_noTerm h

theorem truncView_of (X : SegBase env d full bytes f dy) (hnt : hasTerminator d.tags = false)
    (hoff : dy.offset = d.dynOff)
    (hend : bytes.length < d.dynOff + d.tags.length * (2 * d.w) + 2 * d.w) :
    TruncView f.S f.data dy d.le d.w (dTagTable d.mclass d.solaris) d.tags :=
  ⟨X.view, hnt, by rw [X.data, hoff]; exact hend⟩

/-- the string table of a layout whose table runs off the end, by the section link or by a stored,
    mapped DT_STRTAB -/
theorem strtab_of_route_trunc (X : SegBase env d full bytes f dy)
    (T : TruncView f.S f.data dy d.le d.w (dTagTable d.mclass d.solaris) d.tags)
    (hnull : NullIs env (dTagTable d.mclass d.solaris))
    (hst : TagIs env (dTagTable d.mclass d.solaris) "DT_STRTAB" DT_STRTAB)
    (hok : d.strOk env full = true) (hr : d.strRoute env full ≠ .byName) :
    ∃ tab, getStringtable env f.S f.data (realIfc env f) dy = .ok (some tab) ∧ Serves f.data tab d.strtab := by
  obtain ⟨srest, hsr⟩ := strPlaced X
  unfold DynDesc.strOk at hok
  unfold DynDesc.strRoute at hok hr
  by_cases hlink : (full && d.secDynOff.isNone) = true
  · simp only [Bool.and_eq_true, Option.isNone_iff_eq_none] at hlink
    obtain ⟨hstr, hoff, hstn⟩ := X.strLink hlink.1 hlink.2
    exact ⟨_, getStringtable_given hstn, serves_section hoff hsr X.small⟩
  · have hlink' : (full && d.secDynOff.isNone) = false := by
      cases hx : (full && d.secDynOff.isNone)
      · rfl
      · exact absurd hx hlink
    have hnone : dy.strtab = none := by
      apply X.strNone
      cases full with
      | false => exact Or.inl rfl
      | true =>
        right
        simp only [Bool.true_and] at hlink'
        cases hs : d.secDynOff with
        | none => simp [hs] at hlink'
        | some o => rfl
    simp only [hlink', Bool.false_eq_true, if_false] at hok hr
    cases hp : d.strPtrOff env with
    | some o =>
      simp only [hp, beq_iff_eq, Option.some.injEq] at hok
      subst hok
      unfold DynDesc.strPtrOff at hp
      rw [live_noTerm T.noTerm] at hp
      cases ha : firstVal d.tags DT_STRTAB with
      | none => simp [ha] at hp
      | some a =>
        simp only [ha, Option.bind_some] at hp
        exact ⟨_, getStringtable_pointer_trunc T hnull X.segs hst hnone ha hp, serves_dynamic hsr X.small⟩
    | none =>
      simp only [hp] at hok hr
      cases full with
      | false => simp at hok
      | true => simp at hr

end

end PyElf.Proofs.Dynamic
