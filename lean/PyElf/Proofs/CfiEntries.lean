/-
  C06 helper lemmas: entry scan — zero terminator, cache hit, FDE → CIE pointer arithmetic.
-/
import PyElf.Spec.CFI
import PyElf.Spec.DwarfStructs
import PyElf.Model.CallFrame
import PyElf.Proofs.Primitives
import PyElf.Proofs.CfiParse
namespace PyElf.Proofs.Cfi
open PyElf PyElf.Spec PyElf.Model PyElf.Proofs

theorem seekPos_nat (n : Nat) (h : n < 2 ^ 63) : seekPos (n : Int) = .ok n := by
  unfold seekPos
  have h1 : ¬ ((n : Int) < 0) := by omega
  have h2 : ¬ ((n : Int) ≥ 2 ^ 63) := by omega
  rw [if_neg h1, if_neg h2]; simp

/-- a cached entry is returned as is (same object: same CIE for every FDE that designates it),
    the stream moves on by the entry's size, the cache is unchanged -/
theorem entry_cached (C : Cfi) (fuel : Nat) (off : Int) (pos : Nat) (cache : Cache) (e : Model.Entry)
    (h : Fields) (len ilfs : Nat) (hc : cache.get off = some e) (hh : e.header = .ok h)
    (hl : Fields.getR h "length" = .ok (.int len)) (hi : e.ilfs = .ok ilfs) :
    parseEntryAt C (fuel + 1) off pos cache = .ok (e, pos + (len + ilfs), cache) := by
  simp only [parseEntryAt, hc, hh, hl, hi, asNat_nat, bind, Except.bind, pure, Except.pure]

/-- `.eh_frame` zero terminator: a zero length word is a ZERO entry of 4 bytes, not cached -/
theorem entry_zero (C : Cfi) (S32 : DwarfStructs) (le : Bool) (fuel off pos : Nat) (cache : Cache) (rest : Bytes)
    (heh : C.eh = true) (hS : C.structs 32 = .ok S32) (hu32 : S32.the_Dwarf_uint32 = .uint 4 le)
    (hoff : off < 2 ^ 63) (hmiss : cache.get (off : Int) = none)
    (hd : C.data.drop off = [0, 0, 0, 0] ++ rest) :
    parseEntryAt C (fuel + 1) off pos cache = .ok (.zero off, off + 4, cache) := by
  have hd' : C.data.drop off = encNat le 4 0 ++ rest := by
    rw [hd]; cases le <;> rfl
  have hp := sp_uint (env := C.env) hd' (by decide : 0 < 256 ^ 4)
  simp only [parseEntryAt, hmiss, seekPos_nat off hoff, hS, hu32, hp, heh, bind, Except.bind, pure, Except.pure,
    Val.asNat, Val.asInt]
  simp

/-- `.eh_frame`: the CIE pointer is the distance back from the pointer field (at `fdeOff + 4`) to the CIE;
    `.debug_frame`: it is the CIE's section offset.  Either way the entry at the designated offset is fetched
    (here: from the cache) and the stream position is preserved. -/
theorem cie_link (C : Cfi) (recur : Int → Nat → Cache → R (Model.Entry × Nat × Cache)) (fdeOff cieOff : Nat)
    (header : Fields) (pos p' : Nat) (cache cache' : Cache) (e : Model.Entry)
    (hptr : Fields.getR header "CIE_pointer"
      = .ok (.int (if C.eh then ((fdeOff + 4 - cieOff : Nat) : Int) else (cieOff : Int))))
    (hback : C.eh = true → cieOff ≤ fdeOff + 4)
    (hrec : recur (cieOff : Int) pos cache = .ok (e, p', cache')) :
    parseCieForFde C recur fdeOff header 32 pos cache = .ok (e, cache') := by
  unfold parseCieForFde
  simp only [hptr, Val.asInt, bind, Except.bind, pure, Except.pure]
  cases heh : C.eh with
  | false => simp only [heh, Bool.false_eq_true, if_false, hrec]
  | true =>
    have hb := hback heh
    have : ((fdeOff : Int) + ((32 / 8 : Nat) : Int) - ((fdeOff + 4 - cieOff : Nat) : Int)) = (cieOff : Int) := by
      omega
    simp only [if_true, this, hrec]

end PyElf.Proofs.Cfi
