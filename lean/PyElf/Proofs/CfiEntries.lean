/-
  C06 helper lemmas: entry scan — zero terminator, cache hit, FDE → CIE pointer arithmetic; the objects a
  section's entries must be parsed to (`modelOf`, `modelFrom`), layout of `encodeSection`, the cache invariant,
  single-entry theorems (`cie_miss`, `cie_fetch`, `link_ok`, `fde_miss_df`), the induction over the entry list
  (`loop_ok`, `parseEntries_ok`), and the observation lemmas (`modelOf_core`, `modelOf_table`).
  `FdeMissOk` for `.eh_frame` is proved in Proofs/CfiEhFde.lean.
-/
import PyElf.Spec.CFI
import PyElf.Spec.DwarfStructs
import PyElf.Model.CallFrame
import PyElf.Proofs.Primitives
import PyElf.Proofs.CfiParse
import PyElf.Proofs.CfiHeaders
namespace PyElf.Proofs.Cfi
open PyElf PyElf.Spec PyElf.Model PyElf.Proofs

theorem seekPos_nat (n : Nat) (h : n < 2 ^ 63) : seekPos (n : Int) = .ok n := by
  unfold seekPos
  have h1 : ¬ ((n : Int) < 0) := by omega
  have h2 : ¬ ((n : Int) ≥ 2 ^ 63) := by omega
  rw [if_neg h1, if_neg h2]; simp

/-- a cached entry is returned as is (same object: same CIE for every FDE that designates it),
    the stream moves on by the entry's size, the cache is unchanged -/
theorem entry_cached (C : Cfi) (fuel : Nat) (off : Int) (pos : Nat) (cache : Cache) (e : Model.Entry)
    (h : Fields) (len ilfs : Nat) (hc : cache.get off = some e) (hh : e.header = .ok h)
    (hl : Fields.getR h "length" = .ok (.int len)) (hi : e.ilfs = .ok ilfs) :
    parseEntryAt C (fuel + 1) off pos cache = .ok (e, pos + (len + ilfs), cache) := by
  simp only [parseEntryAt, hc, hh, hl, hi, asNat_nat, bind, Except.bind, pure, Except.pure]

/-- `.eh_frame` zero terminator: a zero length word is a ZERO entry of 4 bytes, not cached -/
theorem entry_zero (C : Cfi) (S32 : DwarfStructs) (le : Bool) (fuel off pos : Nat) (cache : Cache) (rest : Bytes)
    (heh : C.eh = true) (hS : C.structs 32 = .ok S32) (hu32 : S32.the_Dwarf_uint32 = .uint 4 le)
    (hoff : off < 2 ^ 63) (hmiss : cache.get (off : Int) = none)
    (hd : C.data.drop off = [0, 0, 0, 0] ++ rest) :
    parseEntryAt C (fuel + 1) off pos cache = .ok (.zero off, off + 4, cache) := by
  have hd' : C.data.drop off = encNat le 4 0 ++ rest := by
    rw [hd]; cases le <;> rfl
  have hp := sp_uint (env := C.env) hd' (by decide : 0 < 256 ^ 4)
  simp only [parseEntryAt, hmiss, seekPos_nat off hoff, hS, hu32, hp, heh, bind, Except.bind, pure, Except.pure,
    Val.asNat, Val.asInt]
  simp

/-- `.eh_frame`: the CIE pointer is the distance back from the pointer field (at `fdeOff + 4`) to the CIE;
    `.debug_frame`: it is the CIE's section offset.  Either way the entry at the designated offset is fetched
    (here: from the cache) and the stream position is preserved. -/
theorem cie_link (C : Cfi) (recur : Int → Nat → Cache → R (Model.Entry × Nat × Cache)) (fdeOff cieOff : Nat)
    (header : Fields) (pos p' : Nat) (cache cache' : Cache) (e : Model.Entry)
    (hptr : Fields.getR header "CIE_pointer"
      = .ok (.int (if C.eh then ((fdeOff + 4 - cieOff : Nat) : Int) else (cieOff : Int))))
    (hback : C.eh = true → cieOff ≤ fdeOff + 4)
    (hrec : recur (cieOff : Int) pos cache = .ok (e, p', cache')) :
    parseCieForFde C recur fdeOff header 32 pos cache = .ok (e, cache') := by
  unfold parseCieForFde
  simp only [hptr, Val.asInt, bind, Except.bind, pure, Except.pure]
  cases heh : C.eh with
  | false => simp only [heh, Bool.false_eq_true, if_false, hrec]
  | true =>
    have hb := hback heh
    have : ((fdeOff : Int) + ((32 / 8 : Nat) : Int) - ((fdeOff + 4 - cieOff : Nat) : Int)) = (cieOff : Int) := by
      omega
    simp only [if_true, this, hrec]


/-! ## the section scan: `parseEntries (encodeSection sec) = the entries of sec` -/

/-- the parser object for a section: the tables and struct bundles of the Spec (= the regenerated ones,
    Props/TieC06.lean), the section's bytes, address and kind -/
def cfiOf (sec : Section) (env : Env) (data : Bytes) : Cfi :=
  { T := Spec.cfiTables, structs := fun fmt => .ok (Spec.dwarfStructs ⟨sec.le, fmt, sec.asz, 2⟩),
    env := env, data := data, address := sec.address, eh := sec.eh }

def fmtOf (b : Bool) : Nat := if b then 64 else 32

def cieIdv (sec : Section) (c : Cie) : Nat := if sec.eh then 0 else 256 ^ offSize c.fmt64 - 1

def cieAugPart (sec : Section) (c : Cie) : Bytes :=
  match c.aug with
  | some items => if sec.eh then encUlebN c.augLenN (augData sec.le sec.asz items).length ++ augData sec.le sec.asz items else []
  | none => []

def cieAugBytes (sec : Section) (c : Cie) : Bytes :=
  match c.aug with
  | some items => if sec.eh then augData sec.le sec.asz items else []
  | none => []

/-- the CIE object the library must build -/
def mCie (sec : Section) (off : Nat) (c : Cie) : Model.Entry :=
  .cie (cieFields (c.body sec).length (cieIdv sec c) c.version (augString c.aug) c.addrSize c.segSize c.caf.v c.daf.v c.ra.v)
    (c.instrs.map toInstr) off (augDictObs sec.le sec.asz c.aug) (cieAugBytes sec c) (fmtOf c.fmt64)

def fdeLocOff (off : Nat) (f : Fde) : Nat := off + ilfs f.fmt64 + offSize f.fmt64
def fdeEncIn (sec : Section) (c : Cie) : Nat := if sec.eh then c.fdeEnc else 0
def fdeAugSkip (sec : Section) (f : Fde) (c : Cie) : Nat := if sec.eh ∧ c.aug.isSome then f.augLenN else 0
def fdeLsdaOff (sec : Section) (off : Nat) (f : Fde) (c : Cie) : Nat :=
  fdeLocOff off f + (encPtr sec.le sec.asz (fdeEncIn sec c % 16) f.loc).length
    + (encPtr sec.le sec.asz (fdeEncIn sec c % 16) f.range).length + fdeAugSkip sec f c

def fdeFields (sec : Section) (off : Nat) (f : Fde) (c : Cie) : Fields :=
  [("length", .int (offSize f.fmt64 + (f.tail sec c).length)), ("CIE_pointer", .int (sec.ciePointer off f)),
   ("initial_location", .int (f.loc + pcrelAdj sec (fdeEncIn sec c) (fdeLocOff off f))), ("address_range", .int f.range)]

/-- the FDE object the library must build; its `cie` is THE object built for the designated CIE -/
def mFde (sec : Section) (off : Nat) (f : Fde) (c : Cie) : Model.Entry :=
  .fde (fdeFields sec off f c) (f.instrs.map toInstr) off (mCie sec (sec.offsetOf f.cie) c)
    ((f.augPart sec c).drop (fdeAugSkip sec f c))
    (if sec.eh ∧ c.lsdaEnc ≠ 0xff then some (f.lsda + pcrelAdj sec c.lsdaEnc (fdeLsdaOff sec off f c)) else none)
    (fmtOf f.fmt64)

def modelOf (sec : Section) (off : Nat) : Spec.Entry → Model.Entry
  | .cie c => mCie sec off c
  | .fde f =>
    match sec.cieAt f.cie with
    | some c => mFde sec off f c
    | none => .zero off           -- not well-formed
  | .zero => .zero off

def modelFrom (sec : Section) : Nat → List Spec.Entry → List Model.Entry
  | _, [] => []
  | off, e :: es => modelOf sec off e :: modelFrom sec (off + e.size sec) es

/-! ### layout of the encoded section -/

theorem encLength_length (le fmt64 : Bool) (len : Nat) : (encLength le fmt64 len).length = ilfs fmt64 := by
  cases fmt64 <;> simp [encLength, ilfs, encNat_length]

theorem enc_length (sec : Section) (off : Nat) (e : Spec.Entry) : (e.enc sec off).length = e.size sec := by
  cases e with
  | cie c => simp [Entry.enc, Entry.size, encLength_length]
  | fde f =>
    simp only [Entry.enc, Entry.size]
    cases sec.cieAt f.cie with
    | none => rfl
    | some c => simp [encLength_length, encNat_length]; omega
  | zero => rfl

def sizes (sec : Section) (es : List Spec.Entry) : Nat := (es.map (Entry.size sec)).sum

theorem encFrom_append (sec : Section) (a b : List Spec.Entry) : ∀ off,
    encFrom sec off (a ++ b) = encFrom sec off a ++ encFrom sec (off + sizes sec a) b := by
  induction a with
  | nil => intro off; simp [encFrom, sizes]
  | cons e a ih =>
    intro off
    simp only [List.cons_append, encFrom, ih, sizes, List.map_cons, List.sum_cons, List.append_assoc]
    rw [Nat.add_assoc]

theorem encFrom_length (sec : Section) (a : List Spec.Entry) : ∀ off, (encFrom sec off a).length = sizes sec a := by
  induction a with
  | nil => intro off; rfl
  | cons e a ih => intro off; simp [encFrom, enc_length, ih, sizes]

theorem offsetOf_eq (sec : Section) (i : Nat) : sec.offsetOf i = sizes sec (sec.entries.take i) := rfl

theorem offsetOf_succ (sec : Section) (i : Nat) (e : Spec.Entry) (h : sec.entries[i]? = some e) :
    sec.offsetOf (i + 1) = sec.offsetOf i + e.size sec := by
  have hi : i < sec.entries.length := by
    rcases Nat.lt_or_ge i sec.entries.length with h' | h'
    · exact h'
    · rw [List.getElem?_eq_none h'] at h; cases h
  have he : sec.entries[i] = e := by rw [List.getElem?_eq_getElem hi] at h; injection h
  simp only [Section.offsetOf]
  rw [List.take_succ_eq_append_getElem hi, he]
  simp

theorem drop_offsetOf (sec : Section) (i : Nat) (e : Spec.Entry) (h : sec.entries[i]? = some e) :
    (encodeSection sec).drop (sec.offsetOf i)
      = e.enc sec (sec.offsetOf i) ++ encFrom sec (sec.offsetOf (i + 1)) (sec.entries.drop (i + 1)) := by
  have hi : i < sec.entries.length := by
    rcases Nat.lt_or_ge i sec.entries.length with h' | h'
    · exact h'
    · rw [List.getElem?_eq_none h'] at h; cases h
  have he : sec.entries[i] = e := by rw [List.getElem?_eq_getElem hi] at h; injection h
  have hsplit : sec.entries = sec.entries.take i ++ (e :: sec.entries.drop (i + 1)) := by
    rw [← he, List.getElem_cons_drop_succ_eq_drop hi, List.take_append_drop]
  have : encodeSection sec = encFrom sec 0 (sec.entries.take i) ++ encFrom sec (sec.offsetOf i) (e :: sec.entries.drop (i + 1)) := by
    unfold encodeSection
    conv => lhs; rw [hsplit]
    rw [encFrom_append, Nat.zero_add, offsetOf_eq]
  rw [this, offsetOf_eq, ← encFrom_length sec _ 0, List.drop_left]
  rw [encFrom_length, ← offsetOf_eq, encFrom, ← offsetOf_succ sec i e h]

def wfEntry (sec : Section) (off : Nat) : Spec.Entry → Bool
  | .cie c => c.wf sec
  | .fde f => f.wf sec off
  | .zero => sec.eh

theorem wfFrom_append (sec : Section) (a : List Spec.Entry) (e : Spec.Entry) (b : List Spec.Entry) : ∀ off,
    wfFrom sec off (a ++ e :: b) = true → wfEntry sec (off + sizes sec a) e = true := by
  induction a with
  | nil =>
    intro off h
    simp only [List.nil_append, wfFrom, Bool.and_eq_true] at h
    simp only [sizes, List.map_nil, List.sum_nil, Nat.add_zero]
    cases e <;> exact h.1
  | cons x a ih =>
    intro off h
    simp only [List.cons_append, wfFrom, Bool.and_eq_true] at h
    have := ih _ h.2
    simpa [sizes, Nat.add_assoc] using this

theorem wf_at (sec : Section) (hwf : sec.wf = true) (i : Nat) (e : Spec.Entry) (h : sec.entries[i]? = some e) :
    wfEntry sec (sec.offsetOf i) e = true := by
  have hi : i < sec.entries.length := by
    rcases Nat.lt_or_ge i sec.entries.length with h' | h'
    · exact h'
    · rw [List.getElem?_eq_none h'] at h; cases h
  have he : sec.entries[i] = e := by rw [List.getElem?_eq_getElem hi] at h; injection h
  have hsplit : sec.entries = sec.entries.take i ++ (e :: sec.entries.drop (i + 1)) := by
    rw [← he, List.getElem_cons_drop_succ_eq_drop hi, List.take_append_drop]
  simp only [Section.wf, Bool.and_eq_true] at hwf
  have h2 := hwf.2
  rw [hsplit] at h2
  have := wfFrom_append sec _ e _ 0 h2
  rwa [Nat.zero_add, ← offsetOf_eq] at this

theorem size_ge4 (sec : Section) (off : Nat) (e : Spec.Entry) (h : wfEntry sec off e = true) : 4 ≤ e.size sec := by
  cases e with
  | cie c => simp only [Entry.size, ilfs]; split <;> omega
  | fde f =>
    simp only [wfEntry, Fde.wf] at h
    simp only [Entry.size]
    cases hc : sec.cieAt f.cie with
    | none => rw [hc] at h; cases h
    | some c => simp only [ilfs]; split <;> omega
  | zero => simp [Entry.size]


theorem getElem?_lt {α} {l : List α} {i : Nat} {e : α} (h : l[i]? = some e) : i < l.length := by
  rcases Nat.lt_or_ge i l.length with h' | h'
  · exact h'
  · rw [List.getElem?_eq_none h'] at h; cases h

/-- offsets are strictly increasing (every well-formed entry occupies at least its length word) -/
theorem offsetOf_lt (sec : Section) (hwf : sec.wf = true) : ∀ (j i : Nat), i < j → j ≤ sec.entries.length →
    sec.offsetOf i < sec.offsetOf j := by
  intro j
  induction j with
  | zero => intro i h; omega
  | succ j ih =>
    intro i hij hj
    have hjl : j < sec.entries.length := by omega
    have hget : sec.entries[j]? = some sec.entries[j] := List.getElem?_eq_getElem hjl
    have h4 := size_ge4 sec _ _ (wf_at sec hwf j _ hget)
    rw [offsetOf_succ sec j _ hget]
    rcases Nat.lt_or_ge i j with h | h
    · have := ih i h (by omega); omega
    · have : i = j := by omega
      subst this; omega

theorem offsetOf_inj (sec : Section) (hwf : sec.wf = true) {i j : Nat} (hi : i < sec.entries.length)
    (hj : j < sec.entries.length) (h : sec.offsetOf i = sec.offsetOf j) : i = j := by
  rcases Nat.lt_trichotomy i j with hl | he | hg
  · have := offsetOf_lt sec hwf j i hl (by omega); omega
  · exact he
  · have := offsetOf_lt sec hwf i j hg (by omega); omega

theorem offsetOf_end (sec : Section) : sec.offsetOf sec.entries.length = (encodeSection sec).length := by
  rw [offsetOf_eq, List.take_length, encodeSection, encFrom_length]

theorem offsetOf_succ_le (sec : Section) (hwf : sec.wf = true) (i : Nat) (hi : i < sec.entries.length) :
    sec.offsetOf (i + 1) ≤ (encodeSection sec).length := by
  rw [← offsetOf_end]
  rcases Nat.lt_or_ge (i + 1) sec.entries.length with h | h
  · exact Nat.le_of_lt (offsetOf_lt sec hwf _ _ h (Nat.le_refl _))
  · have : i + 1 = sec.entries.length := by omega
    rw [this]; exact Nat.le_refl _

theorem index_le_offset (sec : Section) (hwf : sec.wf = true) : ∀ i, i ≤ sec.entries.length → i ≤ sec.offsetOf i := by
  intro i
  induction i with
  | zero => intro _; exact Nat.zero_le _
  | succ i ih =>
    intro hi
    have := offsetOf_lt sec hwf (i + 1) i (Nat.lt_succ_self i) hi
    have := ih (by omega)
    omega

/-! ### the cache invariant -/

def CacheInv (sec : Section) (cache : Cache) : Prop :=
  ∀ (k : Int) (e : Model.Entry), cache.get k = some e →
    ∃ i se, sec.entries[i]? = some se ∧ se ≠ .zero ∧ k = (sec.offsetOf i : Int) ∧ e = modelOf sec (sec.offsetOf i) se

theorem CacheInv.nil (sec : Section) : CacheInv sec [] := by
  intro k e h; simp [Cache.get] at h

theorem CacheInv.cons {sec : Section} {cache : Cache} (h : CacheInv sec cache) (i : Nat) (se : Spec.Entry)
    (hi : sec.entries[i]? = some se) (hz : se ≠ .zero) :
    CacheInv sec (((sec.offsetOf i : Int), modelOf sec (sec.offsetOf i) se) :: cache) := by
  intro k e hk
  simp only [Cache.get] at hk
  split at hk
  · rename_i heq
    injection hk with hk
    exact ⟨i, se, hi, hz, heq.symm, hk.symm⟩
  · exact h k e hk

/-- a hit at the offset of entry `i` returns the object built for entry `i` -/
theorem CacheInv.hit {sec : Section} (hwf : sec.wf = true) {cache : Cache} (h : CacheInv sec cache) {i : Nat}
    {se : Spec.Entry} (hi : sec.entries[i]? = some se) {e : Model.Entry}
    (hk : cache.get (sec.offsetOf i : Int) = some e) : se ≠ .zero ∧ e = modelOf sec (sec.offsetOf i) se := by
  obtain ⟨j, se', hj, hz, hkj, he⟩ := h _ _ hk
  have : i = j := offsetOf_inj sec hwf (getElem?_lt hi) (getElem?_lt hj) (by omega)
  subst this
  rw [hi] at hj; injection hj with hj; subst hj
  exact ⟨hz, he⟩

/-- the cache after fetching the entry at `k` -/
def Kc (k : Int) (e : Model.Entry) (cache : Cache) : Cache :=
  match cache.get k with
  | some _ => cache
  | none => (k, e) :: cache

theorem CacheInv.Kc {sec : Section} {cache : Cache} (h : CacheInv sec cache) (i : Nat) (se : Spec.Entry)
    (hi : sec.entries[i]? = some se) (hz : se ≠ .zero) :
    CacheInv sec (Kc (sec.offsetOf i : Int) (modelOf sec (sec.offsetOf i) se) cache) := by
  unfold Proofs.Cfi.Kc
  split
  · exact h
  · exact h.cons i se hi hz

/-! ### one CIE -/

theorem augString_nonzero (aug : Option (List AugItem)) : ∀ b ∈ augString aug, b ≠ 0 := by
  cases aug with
  | none => intro b hb; simp [augString] at hb
  | some items =>
    intro b hb
    simp only [augString, List.mem_cons, List.mem_map] at hb
    rcases hb with rfl | ⟨i, _, rfl⟩
    · decide
    · cases i <;> simp [AugItem.letter]

theorem cie_body_eq (sec : Section) (c : Cie) :
    c.body sec = cieHdrBytes sec.le (offSize c.fmt64) (cieIdv sec c) c.version (augString c.aug) c.addrSize c.segSize
      c.caf c.daf c.ra (cieAugPart sec c ++ encInstrs sec.le sec.asz c.instrs) := by
  unfold Cie.body cieHdrBytes cieTail cieIdv cieAugPart
  cases sec.eh <;> simp [List.append_assoc] <;> (cases c.aug <;> rfl)

theorem cie_size_eq (sec : Section) (c : Cie) :
    (c.body sec).length = cieHdrLen (offSize c.fmt64) c.version (augString c.aug) c.caf c.daf c.ra
      + (cieAugPart sec c).length + (encInstrs sec.le sec.asz c.instrs).length := by
  rw [cie_body_eq]
  unfold cieHdrBytes cieTail cieHdrLen
  simp only [List.length_append, List.length_cons, encNat_length, byte_length, uleb_len, sleb_len]
  split <;> split <;> simp [byte_length, uleb_len] <;> omega

theorem instrs_length_le (le : Bool) (asz : Nat) (is : List Cfa) : is.length ≤ (encInstrs le asz is).length := by
  induction is with
  | nil => simp [encInstrs]
  | cons i r ih =>
    have := enc_length_pos le asz i
    simp only [encInstrs, List.flatMap_cons, List.length_append, List.length_cons] at ih ⊢
    omega

theorem cieHdrBytes_append (le : Bool) (osz idv ver : Nat) (aug : Bytes) (a s : Nat) (caf : ULeb) (daf : SLeb) (ra : ULeb)
    (r t : Bytes) : cieHdrBytes le osz idv ver aug a s caf daf ra r ++ t = cieHdrBytes le osz idv ver aug a s caf daf ra (r ++ t) := by
  simp [cieHdrBytes, cieTail, List.append_assoc]

theorem cieHdrBytes_length (le : Bool) (osz idv ver : Nat) (aug : Bytes) (a s : Nat) (caf : ULeb) (daf : SLeb) (ra : ULeb)
    (r : Bytes) : (cieHdrBytes le osz idv ver aug a s caf daf ra r).length = cieHdrLen osz ver aug caf daf ra + r.length := by
  unfold cieHdrBytes cieTail cieHdrLen
  simp only [List.length_append, List.length_cons, encNat_length, byte_length, uleb_len, sleb_len]
  split <;> split <;> simp [byte_length, uleb_len] <;> omega

/-- the first length word and the CIE_id / CIE_pointer word of an entry, as `_parse_entry_at` reads them -/
theorem entry_words {env : Env} {data : Bytes} {off : Nat} {le fmt64 : Bool} {len w : Nat} {rest : Bytes}
    (hd : data.drop off = encLength le fmt64 len ++ (encNat le (offSize fmt64) w ++ rest))
    (hlen : lenOk fmt64 len = true) (hw : w < 256 ^ offSize fmt64) :
    structParse env (.uint 4 le) data off = .ok (.int (if fmt64 then 0xFFFFFFFF else len : Nat), off + 4)
    ∧ structParse env (.uint (fmtOf fmt64 / 8) le) data (off + ilfs fmt64) = .ok (.int w, off + ilfs fmt64 + offSize fmt64) := by
  cases fmt64 with
  | false =>
    simp only [encLength, Bool.false_eq_true, if_false, lenOk, decide_eq_true_eq, ilfs, offSize, fmtOf] at hd hlen hw ⊢
    have h1 := drop_after hd (encNat_length le 4 len)
    exact ⟨sp_uint hd (by omega), sp_uint h1 hw⟩
  | true =>
    simp only [encLength, if_true, lenOk, decide_eq_true_eq, ilfs, offSize, fmtOf, List.append_assoc] at hd hlen hw ⊢
    have h1 := drop_after hd (encNat_length le 4 _)
    have h2 := drop_after h1 (encNat_length le 8 _)
    rw [Nat.add_assoc] at h2
    exact ⟨sp_uint hd (by decide), sp_uint h2 hw⟩


theorem fmtOf_div (b : Bool) : fmtOf b / 8 = offSize b := by cases b <;> rfl
theorem fmtOf_ilfs (b : Bool) : (if fmtOf b = 32 then 4 else 12) = ilfs b := by cases b <;> rfl
theorem the_offset_eq (le : Bool) (fmt asz ver : Nat) :
    (Spec.dwarfStructs ⟨le, fmt, asz, ver⟩).the_Dwarf_offset = .uint (fmt / 8) le := rfl
theorem the_u32_eq (le : Bool) (fmt asz ver : Nat) :
    (Spec.dwarfStructs ⟨le, fmt, asz, ver⟩).the_Dwarf_uint32 = .uint 4 le := rfl

/-- the format decision of `_parse_entry_at` on the first word -/
theorem first_word (eh fmt64 : Bool) (len : Nat) (hlen : lenOk fmt64 len = true) (hpos : 0 < len) :
    (eh && ((if fmt64 then 0xFFFFFFFF else len : Nat) == 0)) = false
    ∧ (if (if fmt64 then 0xFFFFFFFF else len : Nat) = 0xFFFFFFFF then 64 else 32) = fmtOf fmt64 := by
  cases fmt64 with
  | true => simp [fmtOf]
  | false =>
    simp only [lenOk, Bool.false_eq_true, if_false, decide_eq_true_eq] at hlen
    have h1 : len ≠ 0 := by omega
    have h2 : len ≠ 0xFFFFFFFF := by omega
    simp [fmtOf, h1, h2]

theorem cieHdrBytes_split (le : Bool) (osz idv ver : Nat) (aug : Bytes) (a s : Nat) (caf : ULeb) (daf : SLeb) (ra : ULeb)
    (r : Bytes) : ∃ pre : Bytes, pre.length = cieHdrLen osz ver aug caf daf ra ∧
      cieHdrBytes le osz idv ver aug a s caf daf ra r = pre ++ r := by
  refine ⟨cieHdrBytes le osz idv ver aug a s caf daf ra [], ?_, ?_⟩
  · rw [cieHdrBytes_length]; rfl
  · rw [cieHdrBytes_append]; rfl

theorem cieFields_length (len idv ver : Nat) (aug : Bytes) (a s : Nat) (caf daf : Int) (ra : Nat) :
    Fields.getR (cieFields len idv ver aug a s caf daf ra) "length" = .ok (.int len) := rfl

theorem cieFields_aug (len idv ver : Nat) (aug : Bytes) (a s : Nat) (caf daf : Int) (ra : Nat) :
    Fields.get? (cieFields len idv ver aug a s caf daf ra) "augmentation" = some (.bytes aug) := by
  simp (config := { decide := true }) [cieFields, Fields.get?]

@[simp] theorem cfiOf_structs (sec : Section) (env : Env) (data : Bytes) (fmt : Nat) :
    (cfiOf sec env data).structs fmt = .ok (Spec.dwarfStructs ⟨sec.le, fmt, sec.asz, 2⟩) := rfl
@[simp] theorem cfiOf_eh (sec : Section) (env : Env) (data : Bytes) : (cfiOf sec env data).eh = sec.eh := rfl
@[simp] theorem cfiOf_data (sec : Section) (env : Env) (data : Bytes) : (cfiOf sec env data).data = data := rfl
@[simp] theorem cfiOf_env (sec : Section) (env : Env) (data : Bytes) : (cfiOf sec env data).env = env := rfl
@[simp] theorem cfiOf_T (sec : Section) (env : Env) (data : Bytes) : (cfiOf sec env data).T = Spec.cfiTables := rfl
@[simp] theorem cfiOf_address (sec : Section) (env : Env) (data : Bytes) : (cfiOf sec env data).address = sec.address := rfl

theorem asz_of_wf (sec : Section) (hwf : sec.wf = true) : sec.asz = 4 ∨ sec.asz = 8 := by
  simp only [Section.wf, Bool.and_eq_true, Bool.or_eq_true, beq_iff_eq] at hwf
  exact hwf.1

theorem cie_miss (sec : Section) (env : Env) (hwf : sec.wf = true) (hsz : (encodeSection sec).length < 2 ^ 63)
    (j : Nat) (c : Cie) (hj : sec.entries[j]? = some (.cie c)) (fuel pos : Nat) (cache : Cache)
    (hmiss : cache.get (sec.offsetOf j : Int) = none) :
    parseEntryAt (cfiOf sec env (encodeSection sec)) (fuel + 1) (sec.offsetOf j) pos cache
      = .ok (mCie sec (sec.offsetOf j) c, sec.offsetOf j + Entry.size sec (.cie c),
             ((sec.offsetOf j : Int), mCie sec (sec.offsetOf j) c) :: cache) := by
  have hw := wf_at sec hwf j _ hj
  have hd := drop_offsetOf sec j _ hj
  have hle := offsetOf_succ_le sec hwf j (getElem?_lt hj)
  rw [offsetOf_succ sec j _ hj] at hle
  generalize hrest : encFrom sec (sec.offsetOf (j + 1)) (sec.entries.drop (j + 1)) = restS at hd
  generalize sec.offsetOf j = off at *
  generalize hdata : encodeSection sec = data at *
  simp only [wfEntry, Cie.wf, Bool.and_eq_true] at hw
  obtain ⟨⟨⟨⟨⟨⟨⟨⟨hkind, hv4⟩, hcaf⟩, hdaf⟩, hra⟩, haug⟩, hins⟩, hsl⟩, hlen⟩ := hw
  have hasz := asz_of_wf sec hwf
  have hL := cie_size_eq sec c
  have hd' : data.drop off = encLength sec.le c.fmt64 (c.body sec).length ++
      cieHdrBytes sec.le (offSize c.fmt64) (cieIdv sec c) c.version (augString c.aug) c.addrSize c.segSize c.caf c.daf
        c.ra (cieAugPart sec c ++ (encInstrs sec.le sec.asz c.instrs ++ restS)) := by
    rw [hd]; simp only [Entry.enc, List.append_assoc]; congr 1
    rw [cie_body_eq, cieHdrBytes_append, List.append_assoc]
  clear hd
  have hver : c.version = 1 ∨ c.version = 3 ∨ c.version = 4 := by
    cases heh : sec.eh <;> simp [heh] at hkind <;> omega
  have hid : cieIdv sec c < 256 ^ offSize c.fmt64 := by
    unfold cieIdv; split
    · exact Nat.pow_pos (by decide)
    · exact Nat.sub_lt (Nat.pow_pos (by decide)) (by decide)
  have ha : 4 ≤ c.version → c.addrSize < 256 := by
    intro h4
    simp only [Bool.or_eq_true, decide_eq_true_eq, Bool.and_eq_true, beq_iff_eq] at hv4
    omega
  have hs : 4 ≤ c.version → c.segSize < 256 := by
    intro h4
    simp only [Bool.or_eq_true, decide_eq_true_eq, Bool.and_eq_true, beq_iff_eq] at hv4
    omega
  have hra' : if c.version = 1 then c.ra.v < 256 else c.ra.wf = true := by
    split at hra
    · rename_i h1; simp only [h1, if_true]; simpa using hra
    · rename_i h1; simp only [h1, if_false]; exact hra
  have hwords := entry_words (env := env) hd' hlen hid
  have hhdr := sp_cie_header (env := env) hd' hlen hid hver (augString_nonzero c.aug) ha hs hcaf hdaf hra'
  obtain ⟨pre, hprelen, hpre⟩ := cieHdrBytes_split sec.le (offSize c.fmt64) (cieIdv sec c) c.version (augString c.aug)
    c.addrSize c.segSize c.caf c.daf c.ra (cieAugPart sec c ++ (encInstrs sec.le sec.asz c.instrs ++ restS))
  have hd1 := drop_after hd' (encLength_length ..)
  rw [hpre] at hd1
  have hd2 := drop_after hd1 hprelen
  have hd3 := drop_after hd2 rfl
  -- the augmentation
  have haugp : parseCieAugmentation (cfiOf sec env data) (Spec.dwarfStructs ⟨sec.le, fmtOf c.fmt64, sec.asz, 2⟩)
      (cieFields (c.body sec).length (cieIdv sec c) c.version (augString c.aug) c.addrSize c.segSize c.caf.v c.daf.v c.ra.v)
      (off + ilfs c.fmt64 + cieHdrLen (offSize c.fmt64) c.version (augString c.aug) c.caf c.daf c.ra)
      = .ok (cieAugBytes sec c, augDictObs sec.le sec.asz c.aug,
          off + ilfs c.fmt64 + cieHdrLen (offSize c.fmt64) c.version (augString c.aug) c.caf c.daf c.ra
            + (cieAugPart sec c).length) := by
    cases hau : c.aug with
    | none =>
      rw [cieAug_none (by rw [cieFields_aug]; rfl)]
      simp [cieAugBytes, cieAugPart, hau, augDictObs]
    | some items =>
      cases heh : sec.eh with
      | false => simp [heh, hau] at hkind
      | true =>
        rw [hau] at haug
        simp only [Bool.and_eq_true, decide_eq_true_eq, List.all_eq_true] at haug
        have hd2' : (cfiOf sec env data).data.drop
            (off + ilfs c.fmt64 + cieHdrLen (offSize c.fmt64) c.version (augString c.aug) c.caf c.daf c.ra)
            = encUlebN c.augLenN (augData sec.le sec.asz items).length ++ (augData sec.le sec.asz items
                ++ (encInstrs sec.le sec.asz c.instrs ++ restS)) := by
          rw [show (cfiOf sec env data).data = data from rfl, hd2]
          simp [cieAugPart, hau, heh, List.append_assoc]
        rw [← hau]
        rw [cieAug_some (C := cfiOf sec env data) rfl heh (by rw [cieFields_aug, hau]; rfl) haug.1.1.1 haug.1.1.2
          haug.1.2 haug.2 hd2']
        simp [cieAugBytes, cieAugPart, hau, heh, encUlebN_length, Nat.add_assoc]
  -- the instructions
  have hinsw : ∀ i ∈ c.instrs, Cfa.wf sec.asz i = true := by simpa [List.all_eq_true] using hins
  have hil := instrs_length_le sec.le sec.asz c.instrs
  have hsize : Entry.size sec (.cie c) = ilfs c.fmt64 + (c.body sec).length := rfl
  have hpi := parseInstructions_ok (instrStructs_spec sec.le (fmtOf c.fmt64) sec.asz 2) env data c.instrs
    (off + ilfs c.fmt64 + cieHdrLen (offSize c.fmt64) c.version (augString c.aug) c.caf c.daf c.ra
      + (cieAugPart sec c).length)
    (data.length + 1 - (off + ilfs c.fmt64 + cieHdrLen (offSize c.fmt64) c.version (augString c.aug) c.caf c.daf c.ra
      + (cieAugPart sec c).length)) restS hd3 hinsw (by omega)
  have hend : off + (c.body sec).length + ilfs c.fmt64
      = off + ilfs c.fmt64 + cieHdrLen (offSize c.fmt64) c.version (augString c.aug) c.caf c.daf c.ra
        + (cieAugPart sec c).length + (encInstrs sec.le sec.asz c.instrs).length := by omega
  have hbpos : 0 < (c.body sec).length := by
    rw [hL]; unfold cieHdrLen offSize; split <;> omega
  obtain ⟨hw1, hw2⟩ := first_word sec.eh c.fmt64 _ hlen hbpos
  have hisCie : (if sec.eh = true then (cieIdv sec c == 0)
      else (fmtOf c.fmt64 == 32 && cieIdv sec c == 0xFFFFFFFF) || cieIdv sec c == 0xFFFFFFFFFFFFFFFF) = true := by
    unfold cieIdv fmtOf offSize
    cases sec.eh <;> cases c.fmt64 <;> decide
  have hoff : off < 2 ^ 63 := by omega
  have hw2' := hwords.2
  rw [fmtOf_div] at hw2'
  rw [parseEntryAt]
  simp only [hmiss, seekPos_nat off hoff, cfiOf_structs, cfiOf_eh, cfiOf_data, cfiOf_env, cfiOf_T, bind, Except.bind, pure,
    Except.pure, the_u32_eq, hwords.1, asNat_nat,
    hw1, hw2, Bool.false_eq_true, if_false, fmtOf_ilfs, the_offset_eq, fmtOf_div, hw2', hisCie, if_true, eh_cie_header_eq,
    cie_header_eq, ite_self, hhdr, asFields, haugp, cieFields_length, hend, hpi]
  rw [← hend, show off + (c.body sec).length + ilfs c.fmt64 = off + Entry.size sec (.cie c) by rw [hsize]; omega]
  rfl

theorem modelOf_size (sec : Section) (off : Nat) (se : Spec.Entry) (hw : wfEntry sec off se = true) (hz : se ≠ .zero) :
    ∃ h len il, (modelOf sec off se).header = .ok h ∧ Fields.getR h "length" = .ok (.int (len : Nat))
      ∧ (modelOf sec off se).ilfs = .ok il ∧ len + il = se.size sec := by
  cases se with
  | zero => exact absurd rfl hz
  | cie c =>
    refine ⟨_, (c.body sec).length, ilfs c.fmt64, rfl, rfl, ?_, ?_⟩
    · simp only [modelOf, mCie, Model.Entry.ilfs, fmtOf_ilfs]
    · simp [Entry.size]; omega
  | fde f =>
    simp only [wfEntry, Fde.wf] at hw
    cases hc : sec.cieAt f.cie with
    | none => rw [hc] at hw; cases hw
    | some c =>
      refine ⟨fdeFields sec off f c, offSize f.fmt64 + (f.tail sec c).length, ilfs f.fmt64, ?_, ?_, ?_, ?_⟩
      · simp only [modelOf, hc, mFde, Model.Entry.header]
      · rfl
      · simp only [modelOf, hc, mFde, Model.Entry.ilfs, fmtOf_ilfs]
      · simp [Entry.size, hc]; omega

/-- a cache hit at the offset of entry `i` -/
theorem entry_hit (sec : Section) (env : Env) (data : Bytes) (hwf : sec.wf = true) (i : Nat) (se : Spec.Entry)
    (hi : sec.entries[i]? = some se) (fuel pos : Nat) (cache : Cache) (hinv : CacheInv sec cache) (e : Model.Entry)
    (hk : cache.get (sec.offsetOf i : Int) = some e) :
    parseEntryAt (cfiOf sec env data) (fuel + 1) (sec.offsetOf i) pos cache
      = .ok (modelOf sec (sec.offsetOf i) se, pos + se.size sec, cache) := by
  obtain ⟨hz, he⟩ := hinv.hit hwf hi hk
  subst he
  obtain ⟨h, len, il, h1, h2, h3, h4⟩ := modelOf_size sec _ se (wf_at sec hwf i se hi) hz
  rw [entry_cached _ fuel _ pos cache _ h len il hk h1 h2 h3, h4]

/-- fetching a CIE (hit or miss) -/
theorem cie_fetch (sec : Section) (env : Env) (hwf : sec.wf = true) (hsz : (encodeSection sec).length < 2 ^ 63)
    (j : Nat) (c : Cie) (hj : sec.entries[j]? = some (.cie c)) (fuel pos : Nat) (cache : Cache)
    (hinv : CacheInv sec cache) :
    parseEntryAt (cfiOf sec env (encodeSection sec)) (fuel + 1) (sec.offsetOf j) pos cache
      = .ok (mCie sec (sec.offsetOf j) c,
             (match cache.get (sec.offsetOf j : Int) with
              | some _ => pos + Entry.size sec (.cie c) | none => sec.offsetOf j + Entry.size sec (.cie c)),
             Kc (sec.offsetOf j : Int) (mCie sec (sec.offsetOf j) c) cache) := by
  cases hk : cache.get (sec.offsetOf j : Int) with
  | some e =>
    rw [entry_hit sec env _ hwf j _ hj fuel pos cache hinv e hk]
    simp only [Kc, hk]; rfl
  | none =>
    rw [cie_miss sec env hwf hsz j c hj fuel pos cache hk]
    simp only [Kc, hk]


/-- what remains to be shown for an FDE that is not in the cache -/
def FdeMissOk (sec : Section) (env : Env) : Prop :=
  ∀ (i : Nat) (f : Fde) (c : Cie), sec.entries[i]? = some (.fde f) → sec.cieAt f.cie = some c →
    ∀ (fuel pos : Nat) (cache : Cache), CacheInv sec cache → cache.get (sec.offsetOf i : Int) = none →
    ∃ cache', parseEntryAt (cfiOf sec env (encodeSection sec)) (fuel + 2) (sec.offsetOf i) pos cache
        = .ok (mFde sec (sec.offsetOf i) f c, sec.offsetOf i + Entry.size sec (.fde f), cache')
      ∧ CacheInv sec cache'

theorem entry_at (sec : Section) (env : Env) (hwf : sec.wf = true) (hsz : (encodeSection sec).length < 2 ^ 63)
    (hfde : FdeMissOk sec env) (i : Nat) (se : Spec.Entry) (hi : sec.entries[i]? = some se) (fuel : Nat)
    (cache : Cache) (hinv : CacheInv sec cache) :
    ∃ cache', parseEntryAt (cfiOf sec env (encodeSection sec)) (fuel + 2) (sec.offsetOf i) (sec.offsetOf i) cache
        = .ok (modelOf sec (sec.offsetOf i) se, sec.offsetOf (i + 1), cache')
      ∧ CacheInv sec cache' := by
  rw [offsetOf_succ sec i se hi]
  cases hk : cache.get (sec.offsetOf i : Int) with
  | some e =>
    exact ⟨cache, entry_hit sec env _ hwf i se hi (fuel + 1) _ cache hinv e hk, hinv⟩
  | none =>
    have hw := wf_at sec hwf i se hi
    cases se with
    | zero =>
      have hd := drop_offsetOf sec i _ hi
      have hle := offsetOf_succ_le sec hwf i (getElem?_lt hi)
      rw [offsetOf_succ sec i _ hi] at hle
      simp only [Entry.size] at hle
      refine ⟨cache, ?_, hinv⟩
      exact entry_zero (cfiOf sec env (encodeSection sec)) _ sec.le (fuel + 1) _ _ cache _ hw rfl rfl (by omega) hk hd
    | cie c =>
      refine ⟨_, cie_miss sec env hwf hsz i c hi (fuel + 1) _ cache hk, ?_⟩
      exact hinv.cons i (.cie c) hi (by simp)
    | fde f =>
      simp only [wfEntry, Fde.wf] at hw
      cases hc : sec.cieAt f.cie with
      | none => rw [hc] at hw; cases hw
      | some c =>
        obtain ⟨cache', h1, h2⟩ := hfde i f c hi hc fuel (sec.offsetOf i) cache hinv hk
        refine ⟨cache', ?_, h2⟩
        rw [h1]; simp only [modelOf, hc]

theorem loop_ok (sec : Section) (env : Env) (hwf : sec.wf = true) (hsz : (encodeSection sec).length < 2 ^ 63)
    (hfde : FdeMissOk sec env) (d : Nat) : ∀ (k i : Nat), i + k = sec.entries.length → ∀ (fuel : Nat) (cache : Cache),
    k < fuel → CacheInv sec cache →
    parseEntriesLoop (cfiOf sec env (encodeSection sec)) (encodeSection sec).length (d + 2) fuel (sec.offsetOf i) cache
      = .ok (modelFrom sec (sec.offsetOf i) (sec.entries.drop i)) := by
  intro k
  induction k with
  | zero =>
    intro i hi fuel cache hf _
    have : i = sec.entries.length := by omega
    subst this
    cases fuel with
    | zero => omega
    | succ fuel =>
      rw [parseEntriesLoop, offsetOf_end]
      simp [modelFrom]
  | succ k ih =>
    intro i hi fuel cache hf hinv
    cases fuel with
    | zero => omega
    | succ fuel =>
      have hil : i < sec.entries.length := by omega
      have hget : sec.entries[i]? = some sec.entries[i] := List.getElem?_eq_getElem hil
      obtain ⟨cache', h1, h2⟩ := entry_at sec env hwf hsz hfde i _ hget d cache hinv
      have hlt : sec.offsetOf i < (encodeSection sec).length := by
        have := offsetOf_succ_le sec hwf i hil
        have := offsetOf_lt sec hwf (i + 1) i (Nat.lt_succ_self i) (by omega)
        omega
      rw [parseEntriesLoop]
      simp only [hlt, if_true, h1, bind, Except.bind, pure, Except.pure]
      rw [ih (i + 1) (by omega) fuel cache' (by omega) h2]
      rw [← List.getElem_cons_drop_succ_eq_drop hil, modelFrom, offsetOf_succ sec i _ hget]

theorem parseEntries_ok (sec : Section) (env : Env) (hwf : sec.wf = true) (hsz : (encodeSection sec).length < 2 ^ 63)
    (hfde : FdeMissOk sec env) :
    parseEntries (cfiOf sec env (encodeSection sec)) (encodeSection sec).length
      = .ok (modelFrom sec 0 sec.entries) := by
  have h0 : sec.offsetOf 0 = 0 := rfl
  have hlen := index_le_offset sec hwf sec.entries.length (Nat.le_refl _)
  rw [offsetOf_end] at hlen
  have := loop_ok sec env hwf hsz hfde (encodeSection sec).length sec.entries.length 0 (by omega)
    ((encodeSection sec).length + 2) [] (by omega) (CacheInv.nil sec)
  rw [h0, List.drop_zero] at this
  exact this

theorem cieAt_get {sec : Section} {j : Nat} {c : Cie} (h : sec.cieAt j = some c) : sec.entries[j]? = some (.cie c) := by
  unfold Section.cieAt at h
  split at h
  · rename_i c' hc; injection h with h; subst h; exact hc
  · cases h

theorem fdeFields_ptr (sec : Section) (off : Nat) (f : Fde) (c : Cie) :
    Fields.getR (fdeFields sec off f c) "CIE_pointer" = .ok (.int (sec.ciePointer off f)) := by
  simp (config := { decide := true }) [fdeFields, Fields.getR, Fields.get?]

/-- `_parse_cie_for_fde`: the CIE pointer designates the CIE's offset in both section kinds; the entry there is
    fetched (parsed and cached, or taken from the cache) and the stream position is preserved -/
theorem link_ok (sec : Section) (env : Env) (hwf : sec.wf = true) (hsz : (encodeSection sec).length < 2 ^ 63)
    (off : Nat) (f : Fde) (c : Cie) (hc : sec.cieAt f.cie = some c)
    (hback : sec.eh = true → f.fmt64 = false ∧ sec.offsetOf f.cie < off)
    (header : Fields) (hptr : Fields.getR header "CIE_pointer" = .ok (.int (sec.ciePointer off f)))
    (fuel pos : Nat) (cache : Cache) (hinv : CacheInv sec cache) :
    parseCieForFde (cfiOf sec env (encodeSection sec)) (parseEntryAt (cfiOf sec env (encodeSection sec)) (fuel + 1))
        off header (fmtOf f.fmt64) pos cache
      = .ok (mCie sec (sec.offsetOf f.cie) c,
             Kc (sec.offsetOf f.cie : Int) (mCie sec (sec.offsetOf f.cie) c) cache) := by
  have hj := cieAt_get hc
  have hf := cie_fetch sec env hwf hsz f.cie c hj fuel pos cache hinv
  unfold parseCieForFde
  cases heh : sec.eh with
  | false =>
    simp only [hptr, Val.asInt, bind, Except.bind, pure, Except.pure, cfiOf_eh, heh, Bool.false_eq_true, if_false]
    rw [show sec.ciePointer off f = sec.offsetOf f.cie by simp [Section.ciePointer, heh], hf]
  | true =>
    obtain ⟨h64, hlt⟩ := hback heh
    simp only [hptr, Val.asInt, bind, Except.bind, pure, Except.pure, cfiOf_eh, heh, if_true]
    have : ((off : Int) + ((fmtOf f.fmt64 / 8 : Nat) : Int) - (sec.ciePointer off f : Int)) = (sec.offsetOf f.cie : Int) := by
      simp only [Section.ciePointer, heh, h64, fmtOf, ilfs, if_true, Bool.false_eq_true, if_false]
      omega
    rw [this, hf]


theorem encPtr0_length (le : Bool) (asz : Nat) (v : Int) : (encPtr le asz 0 v).length = asz := by
  simp [encPtr, encNat_length]

theorem mCie_header (sec : Section) (off : Nat) (c : Cie) :
    (mCie sec off c).header = .ok (cieFields (c.body sec).length (cieIdv sec c) c.version (augString c.aug) c.addrSize
      c.segSize c.caf.v c.daf.v c.ra.v) := rfl
theorem mCie_augDict (sec : Section) (off : Nat) (c : Cie) :
    (mCie sec off c).augDict = .ok (augDictObs sec.le sec.asz c.aug) := rfl

theorem fde_miss_df (sec : Section) (env : Env) (hwf : sec.wf = true) (hsz : (encodeSection sec).length < 2 ^ 63)
    (heh : sec.eh = false) (i : Nat) (f : Fde) (c : Cie) (hi : sec.entries[i]? = some (.fde f))
    (hc : sec.cieAt f.cie = some c) (fuel pos : Nat) (cache : Cache) (hinv : CacheInv sec cache)
    (hmiss : cache.get (sec.offsetOf i : Int) = none) :
    ∃ cache', parseEntryAt (cfiOf sec env (encodeSection sec)) (fuel + 2) (sec.offsetOf i) pos cache
        = .ok (mFde sec (sec.offsetOf i) f c, sec.offsetOf i + Entry.size sec (.fde f), cache')
      ∧ CacheInv sec cache' := by
  have hw := wf_at sec hwf i _ hi
  have hj := cieAt_get hc
  have hwc := wf_at sec hwf f.cie _ hj
  have hd := drop_offsetOf sec i _ hi
  have hle := offsetOf_succ_le sec hwf i (getElem?_lt hi)
  rw [offsetOf_succ sec i _ hi] at hle
  have hmodel : modelOf sec (sec.offsetOf i) (.fde f) = mFde sec (sec.offsetOf i) f c := by simp only [modelOf, hc]
  have hinvI : ∀ ch : Cache, CacheInv sec ch →
      CacheInv sec (((sec.offsetOf i : Int), mFde sec (sec.offsetOf i) f c) :: ch) :=
    fun ch h => by rw [← hmodel]; exact h.cons i (.fde f) hi (by simp)
  have hinvK : ∀ ch : Cache, CacheInv sec ch →
      CacheInv sec (Kc (sec.offsetOf f.cie : Int) (mCie sec (sec.offsetOf f.cie) c) ch) :=
    fun ch h => h.Kc f.cie (.cie c) hj (by simp)
  have hlink := fun (hdr : Fields) (hp : Fields.getR hdr "CIE_pointer" = .ok (.int (sec.ciePointer (sec.offsetOf i) f)))
      (p : Nat) (ch : Cache) (h : CacheInv sec ch) =>
    link_ok sec env hwf hsz (sec.offsetOf i) f c hc (by intro h; rw [heh] at h; cases h) hdr hp fuel p ch h
  generalize hrest : encFrom sec (sec.offsetOf (i + 1)) (sec.entries.drop (i + 1)) = restS at hd
  generalize hk : sec.offsetOf f.cie = k at *
  generalize sec.offsetOf i = off at *
  generalize hdata : encodeSection sec = data at *
  simp only [wfEntry, Fde.wf, hc, heh, Bool.false_eq_true, if_false, Bool.and_eq_true, decide_eq_true_eq] at hw
  obtain ⟨⟨⟨⟨⟨hfl, hfr⟩, hkl⟩, hins⟩, _⟩, hlen⟩ := hw
  simp only [wfEntry, Cie.wf, heh, Bool.false_eq_true, if_false, Bool.and_eq_true] at hwc
  have haugn : c.aug = none := by
    have := hwc.1.1.1.1.1.1.1.1.2
    cases h : c.aug with
    | none => rfl
    | some x => rw [h] at this; cases this
  have hptrv : sec.ciePointer off f = k := by simp [Section.ciePointer, heh, hk]
  have htail : f.tail sec c = encPtr sec.le sec.asz 0 f.loc ++ (encPtr sec.le sec.asz 0 f.range
      ++ encInstrs sec.le sec.asz f.instrs) := by
    simp [Fde.tail, Fde.augPart, heh, encPtr, List.append_assoc]
  have htl : (f.tail sec c).length = sec.asz + sec.asz + (encInstrs sec.le sec.asz f.instrs).length := by
    rw [htail]; simp [encPtr0_length]; omega
  have hd' : data.drop off = encLength sec.le f.fmt64 (offSize f.fmt64 + (f.tail sec c).length) ++
      (encNat sec.le (offSize f.fmt64) k ++ (encPtr sec.le sec.asz 0 f.loc ++ (encPtr sec.le sec.asz 0 f.range
        ++ (encInstrs sec.le sec.asz f.instrs ++ restS)))) := by
    rw [hd]; simp only [Entry.enc, hc, hptrv, List.append_assoc]; rw [htail]; simp only [List.append_assoc]
  clear hd
  have hkl' : k < 256 ^ offSize f.fmt64 := by omega
  have hwords := entry_words (env := env) hd' hlen hkl'
  have hw2' := hwords.2
  rw [fmtOf_div] at hw2'
  have hd1 := drop_after hd' (encLength_length ..)
  have hd2 := drop_after hd1 (encNat_length ..)
  have hd3 := drop_after hd2 (encPtr0_length ..)
  have hd4 := drop_after hd3 (encPtr0_length ..)
  have hhdr := sp_fde_full (env := env) (c := .uint sec.asz sec.le) hd' hlen hkl'
    (fun ctx => by
      have := parse_ptr (env := env) (ctx := ctx) (le := sec.le) (asz := sec.asz) (base := 0) rfl hfl hd2
      rwa [encPtr0_length] at this)
    (fun ctx => by
      have := parse_ptr (env := env) (ctx := ctx) (le := sec.le) (asz := sec.asz) (base := 0) rfl hfr hd3
      rwa [encPtr0_length] at this)
  have hinsw : ∀ x ∈ f.instrs, Cfa.wf sec.asz x = true := by simpa [List.all_eq_true] using hins
  have hil := instrs_length_le sec.le sec.asz f.instrs
  have hsize : Entry.size sec (.fde f) = ilfs f.fmt64 + offSize f.fmt64 + (f.tail sec c).length := by
    simp only [Entry.size, hc]
  have hpi := parseInstructions_ok (instrStructs_spec sec.le (fmtOf f.fmt64) sec.asz 2) env data f.instrs
    (off + ilfs f.fmt64 + offSize f.fmt64 + sec.asz + sec.asz)
    (data.length + 1 - (off + ilfs f.fmt64 + offSize f.fmt64 + sec.asz + sec.asz)) restS hd4 hinsw (by omega)
  have hend : off + (offSize f.fmt64 + (f.tail sec c).length) + ilfs f.fmt64
      = off + ilfs f.fmt64 + offSize f.fmt64 + sec.asz + sec.asz + (encInstrs sec.le sec.asz f.instrs).length := by omega
  have hbpos : 0 < offSize f.fmt64 + (f.tail sec c).length := by unfold offSize; split <;> omega
  obtain ⟨hw1, hw2⟩ := first_word sec.eh f.fmt64 _ hlen hbpos
  have hisCie : ((fmtOf f.fmt64 == 32 && k == 0xFFFFFFFF) || k == 0xFFFFFFFFFFFFFFFF) = false := by
    revert hkl; unfold fmtOf offSize
    cases f.fmt64 <;> simp <;> omega
  have hoff : off < 2 ^ 63 := by omega
  have hfp : Fields.getR (fdeFields sec off f c) "CIE_pointer" = .ok (.int (sec.ciePointer off f)) := fdeFields_ptr ..
  have hfields : [("length", Val.int ((offSize f.fmt64 + (f.tail sec c).length : Nat) : Int)), ("CIE_pointer", Val.int (k : Nat)),
      ("initial_location", Val.int f.loc), ("address_range", Val.int f.range)] = fdeFields sec off f c := by
    simp [fdeFields, hptrv, pcrelAdj, fdeEncIn, heh]
  rw [hfields] at hhdr
  refine ⟨_, ?_, hinvI _ (hinvK _ (hinvK _ hinv))⟩
  rw [parseEntryAt]
  simp only [hmiss, seekPos_nat off hoff, cfiOf_structs, cfiOf_eh, cfiOf_data, cfiOf_env, cfiOf_T, bind, Except.bind, pure,
    Except.pure, the_u32_eq, hwords.1, asNat_nat,
    hw1, hw2, Bool.false_eq_true, if_false, fmtOf_ilfs, the_offset_eq, fmtOf_div, hw2', heh, hisCie,
    parseFdeHeader, Bool.not_false, if_true, fde_header_eq, hhdr, asFields,
    hlink _ hfp _ _ hinv, hlink _ hfp _ _ (hinvK _ hinv), mCie_header, mCie_augDict, cieFields_aug, haugn]
  have hflen : Fields.getR (fdeFields sec off f c) "length" = .ok (.int ((offSize f.fmt64 + (f.tail sec c).length : Nat) : Int)) := rfl
  simp only [Bool.false_and, Bool.false_eq_true, if_false, Option.getD, augString, List.isPrefixOf, augDictObs, Fields.get?,
    ne_eq, not_true_eq_false, hflen, asNat_nat, hend, hpi, hlink _ hfp _ _ (hinvK _ hinv), pure, Except.pure]
  have hmf : mFde sec off f c = Model.Entry.fde (fdeFields sec off f c) (List.map toInstr f.instrs) off (mCie sec k c) []
      none (fmtOf f.fmt64) := by
    simp [mFde, hk, Fde.augPart, heh]
  have hpos : off + ilfs f.fmt64 + offSize f.fmt64 + sec.asz + sec.asz + (encInstrs sec.le sec.asz f.instrs).length
      = off + Entry.size sec (.fde f) := by rw [hsize]; omega
  rw [hmf, hpos]




/-- an entry's canonical value without the decoded table and the pyelftools-only `order` field -/
def coreVal : Val → Val
  | .record fs => .record (fs.filter fun kv => kv.1 != "table" && kv.1 != "order")
  | v => v

/-- the table the Spec prescribes for an entry (the `table` field of `Entry.obs`) -/
def stdTableOf (sec : Section) (off : Nat) : Spec.Entry → Option (List Row)
  | .cie c => stdTableCie c.caf.v c.daf.v c.instrs
  | .fde f =>
    match sec.cieAt f.cie with
    | none => none
    | some c => stdTableFde c.caf.v c.daf.v c.instrs (f.loc + pcrelAdj sec (fdeEncIn sec c) (fdeLocOff off f)) f.instrs
  | .zero => none

theorem modelOf_core (sec : Section) (off : Nat) (e : Spec.Entry) (hw : wfEntry sec off e = true) :
    coreVal ((modelOf sec off e).toVal Spec.cfiTables) = coreVal (e.obs sec off) := by
  cases e with
  | zero => rfl
  | cie c =>
    simp only [modelOf, mCie, Model.Entry.toVal, Entry.obs]
    rcases tableVals cfiTables _ with ⟨t, o⟩
    simp (config := { decide := true }) only [coreVal, List.filter, Cie.headerObs, cieFields, cieAugBytes, cieIdv]
    cases sec.eh <;> simp <;> exact ⟨by cases c.aug <;> rfl, fun a _ => rfl⟩
  | fde f =>
    simp only [wfEntry, Fde.wf] at hw
    cases hc : sec.cieAt f.cie with
    | none => rw [hc] at hw; cases hw
    | some c =>
      simp only [modelOf, hc, mFde, Model.Entry.toVal, Entry.obs]
      rcases tableVals cfiTables _ with ⟨t, o⟩
      have hto : ∀ a ∈ f.instrs, (toInstr a).toVal = instrObs a := fun a _ => rfl
      by_cases h : sec.eh = true ∧ ¬ c.lsdaEnc = 255
      · simp (config := { decide := true }) [coreVal, List.filter, fdeFields, Model.Entry.offset, mCie, fdeLocOff,
          fdeEncIn, fdeAugSkip, fdeLsdaOff, h, optInt]
        exact hto
      · simp (config := { decide := true }) [coreVal, List.filter, fdeFields, Model.Entry.offset, mCie, fdeLocOff,
          fdeEncIn, fdeAugSkip, fdeLsdaOff, h, optInt]
        exact hto

theorem cie_instrs_wf (sec : Section) (hwf : sec.wf = true) (j : Nat) (c : Cie) (hj : sec.entries[j]? = some (.cie c)) :
    ∀ x ∈ c.instrs, Cfa.wf sec.asz x = true := by
  have hw := wf_at sec hwf j _ hj
  simp only [wfEntry, Cie.wf, Bool.and_eq_true] at hw
  simpa [List.all_eq_true] using hw.1.1.2

/-- the decoded table of the object built for entry `i` is the table of DWARF §6.4, whenever the Spec defines one -/
theorem modelOf_table (sec : Section) (hwf : sec.wf = true) (i : Nat) (se : Spec.Entry) (hi : sec.entries[i]? = some se)
    (rows : List Row) (hstd : stdTableOf sec (sec.offsetOf i) se = some rows) :
    ∃ d, decodeTable Spec.cfiTables (modelOf sec (sec.offsetOf i) se) = .ok d ∧ All₂ LineRel d.table rows := by
  cases se with
  | zero => cases hstd
  | cie c =>
    exact decode_cie sec.asz c.caf.v c.daf.v _ rfl rfl c.instrs (cie_instrs_wf sec hwf i c hi) rows hstd _ _ _ _
  | fde f =>
    have hw := wf_at sec hwf i _ hi
    simp only [wfEntry, Fde.wf] at hw
    simp only [stdTableOf] at hstd
    cases hc : sec.cieAt f.cie with
    | none => rw [hc] at hw; cases hw
    | some c =>
      rw [hc] at hstd hw
      simp only [Bool.and_eq_true] at hw
      have hfw : ∀ x ∈ f.instrs, Cfa.wf sec.asz x = true := by simpa [List.all_eq_true] using hw.1.1.2
      simp only [modelOf, hc, mFde, mCie]
      exact decode_fde sec.asz c.caf.v c.daf.v _ _ _ rfl rfl rfl c.instrs f.instrs
        (cie_instrs_wf sec hwf f.cie c (cieAt_get hc)) hfw rows hstd _ _ _ _ _ _ _ _


theorem core_from (sec : Section) : ∀ (es : List Spec.Entry) (off : Nat), wfFrom sec off es = true →
    All₂ (fun m v => coreVal (Model.Entry.toVal Spec.cfiTables m) = coreVal v) (modelFrom sec off es) (obsFrom sec off es) := by
  intro es
  induction es with
  | nil => intro off _; exact .nil
  | cons e es ih =>
    intro off h
    simp only [wfFrom, Bool.and_eq_true] at h
    have hw : wfEntry sec off e = true := by cases e <;> exact h.1
    exact .cons (modelOf_core sec off e hw) (ih _ h.2)

theorem fdeMissOk_df (sec : Section) (env : Env) (hwf : sec.wf = true) (hsz : (encodeSection sec).length < 2 ^ 63)
    (heh : sec.eh = false) : FdeMissOk sec env :=
  fun i f c hi hc fuel pos cache hinv hmiss => fde_miss_df sec env hwf hsz heh i f c hi hc fuel pos cache hinv hmiss

theorem fdeMissOk_noFde (sec : Section) (env : Env) (h : ∀ f, Spec.Entry.fde f ∉ sec.entries) : FdeMissOk sec env :=
  fun i f _ hi _ _ _ _ _ _ => absurd (List.mem_of_getElem? hi) (h f)

end PyElf.Proofs.Cfi
