/-
  Helper lemmas for C05 (fourth wave): `_decode_line_program` under header parameters that are only
  ENCODABLE (`Params.WFenc`: `maximum_operations_per_instruction` and `line_range` may be 0).

  * an instruction that does not divide by a zero field is executed exactly as the standard says
    (`stepOK_weak`), whatever the two fields hold: the decoder reads `line_range` only for special
    opcodes and DW_LNS_const_add_pc, `maximum_operations_per_instruction` only inside `advance_pc`;
  * an instruction that does (`Instr.divZero`) makes the decoder raise ZeroDivisionError (`step_divZero`);
  * the loop over a prefix of the program (`decodeLoop_prefix`), from which: the whole program
    (`decodeLoop_runW`) and the program up to the first dividing instruction (`decodeLoop_divZero`).
-/
import PyElf.Spec.LineProgramExt
import PyElf.Proofs.LineProgram
namespace PyElf.Proofs.Line
open PyElf PyElf.Spec PyElf.Spec.Line PyElf.Model.Line PyElf.Proofs

/-! ### the decoder reads the two divisors only where the standard divides -/

section frame
variable {env : Env} {S : DwarfStructs} {K : LnConsts} {data : Bytes}

theorem stepExtended_frame (H : Hdr) (m l p1 : Nat) (st : LineState) (files : Option (List Val)) :
    stepExtended env S K data { H with maximum_operations_per_instruction := m, line_range := l } p1 st files
      = stepExtended env S K data H p1 st files := rfl

theorem stepStandard_frame (H : Hdr) (m l opcode p1 : Nat) (st : LineState) (files : Option (List Val))
    (hc : opcode ≠ K.const_add_pc) (ha : opcode = K.advance_pc → m = H.maximum_operations_per_instruction) :
    stepStandard env S K data { H with maximum_operations_per_instruction := m, line_range := l } opcode p1 st files
      = stepStandard env S K data H opcode p1 st files := by
  by_cases h2 : opcode = K.advance_pc
  · have := ha h2
    subst this
    simp only [stepStandard, hc, if_false]
    try rfl
  · simp only [stepStandard, hc, h2, if_false]
    try rfl

end frame

/-- the parameters with the two divisors made non-zero (only used to transfer the lemmas of
    Proofs/LineProgram.lean) -/
def fixP (p : Params) : Params :=
  { p with maxOps := if p.maxOps = 0 then 1 else p.maxOps,
           lineRange := if p.lineRange = 0 then 1 else p.lineRange }

theorem hdrOf_fix (p : Params) :
    hdrOf p = { hdrOf (fixP p) with maximum_operations_per_instruction := p.maxOps, line_range := p.lineRange } := rfl

theorem fixP_maxOps {p : Params} (h : p.maxOps ≠ 0) : (fixP p).maxOps = p.maxOps := by simp [fixP, h]

theorem fixP_WF {p : Params} {ver : Nat} (h : p.WFenc ver = true) (hs : p.stdLensOK = true) :
    (fixP p).WF ver = true := by
  simp only [Params.WFenc, Bool.and_eq_true, decide_eq_true_eq, Bool.or_eq_true] at h
  simp only [Params.stdLensOK, decide_eq_true_eq] at hs
  obtain ⟨⟨⟨⟨⟨⟨⟨⟨⟨⟨h1, h3⟩, h4⟩, h5⟩, h6⟩, h7⟩, h9⟩, h10⟩, h11⟩, h12⟩, h13⟩ := h
  have e1 : 1 ≤ (if p.maxOps = 0 then 1 else p.maxOps) := by split <;> omega
  have e2 : (if p.maxOps = 0 then 1 else p.maxOps) < 256 := by split <;> omega
  have e3 : 4 ≤ ver ∨ (if p.maxOps = 0 then 1 else p.maxOps) = 1 := by
    rcases h4 with h | h
    · exact Or.inl h
    · right; simp [h]
  have e4 : 1 ≤ (if p.lineRange = 0 then 1 else p.lineRange) := by split <;> omega
  have e5 : (if p.lineRange = 0 then 1 else p.lineRange) < 256 := by split <;> omega
  have h13' : ∀ x ∈ p.stdLens, x < 256 := by simpa [List.all_eq_true] using h13
  simp [Params.WF, fixP, h1, h5, h6, h7, h10, h11, h12, hs, e1, e2, e3, e4, e5]
  refine ⟨?_, h13'⟩
  rcases h4 with h | h
  · exact Or.inl h
  · exact Or.inr (Or.inr h)

theorem enc_fix (p : Params) (i : Instr) : i.enc (fixP p) = i.enc p := by cases i <;> rfl

theorem WF_fix (p : Params) (ver : Nat) (i : Instr) : i.WF (fixP p) ver = i.WF p ver := by cases i <;> rfl

theorem stdStep_fix (p : Params) (r : Row) (i : Instr) (h : i.divZero p = false) :
    stdStep (fixP p) r i = stdStep p r i := by
  cases i
  case special op =>
    simp [Instr.divZero, Instr.usesLineRange, Instr.advances] at h
    simp [stdStep, fixP, Row.advance, h.1, h.2]
  case advancePc n =>
    simp [Instr.divZero, Instr.usesLineRange, Instr.advances] at h
    simp [stdStep, fixP, Row.advance, h]
  case constAddPc =>
    simp [Instr.divZero, Instr.usesLineRange, Instr.advances] at h
    simp [stdStep, fixP, Row.advance, h.1, h.2]
  all_goals rfl

/-- the first byte of an encoded instruction that is not a special opcode -/
theorem enc_head {p : Params} {ver : Nat} (hob1 : 1 ≤ p.opcodeBase) (hob : p.opcodeBase < 256) (i : Instr)
    (hw : i.WF p ver = true) (hns : ∀ op, i ≠ .special op) :
    ∃ (b : UInt8) (tl : Bytes), i.enc p = b :: tl ∧ b.toNat < p.opcodeBase
      ∧ (b.toNat = 8 → i = .constAddPc) ∧ (b.toNat = 2 → ∃ n, i = .advancePc n) := by
  have hb : ∀ n : Nat, n < 256 → (byte n).toNat = n := fun n h => byte_toNat h
  have h00 : (0 : UInt8).toNat < p.opcodeBase := by
    have : (0 : UInt8).toNat = 0 := by decide
    omega
  cases i
  case special op => exact absurd rfl (hns op)
  case unknownStd op args =>
    simp only [Instr.WF, Bool.and_eq_true, stdOk, decide_eq_true_eq] at hw
    refine ⟨byte op, lebsEnc args, by simp [Instr.enc], ?_, ?_, ?_⟩ <;> rw [hb op (by omega)] <;> omega
  case endSequence lk =>
    exact ⟨0, _, rfl, h00, fun h => absurd h (by decide), fun h => absurd h (by decide)⟩
  case setAddress lk a =>
    exact ⟨0, _, rfl, h00, fun h => absurd h (by decide), fun h => absurd h (by decide)⟩
  case defineFile lk name d m l =>
    exact ⟨0, _, rfl, h00, fun h => absurd h (by decide), fun h => absurd h (by decide)⟩
  case setDiscriminator lk d =>
    exact ⟨0, _, rfl, h00, fun h => absurd h (by decide), fun h => absurd h (by decide)⟩
  case unknownExt lk op payload =>
    exact ⟨0, _, rfl, h00, fun h => absurd h (by decide), fun h => absurd h (by decide)⟩
  case constAddPc =>
    have hw' : 8 < p.opcodeBase := of_decide_eq_true hw
    exact ⟨8, [], by simp [Instr.enc]; decide, by simpa using hw', fun _ => rfl, fun h => absurd h (by decide)⟩
  case advancePc n =>
    simp only [Instr.WF, Bool.and_eq_true] at hw
    have hw' : 2 < p.opcodeBase := of_decide_eq_true hw.1
    exact ⟨2, n.enc, by simp [Instr.enc]; decide, by simpa using hw', fun h => absurd h (by decide), fun _ => ⟨n, rfl⟩⟩
  case copy =>
    have hw' : 1 < p.opcodeBase := of_decide_eq_true hw
    exact ⟨1, [], by simp [Instr.enc]; decide, by simpa using hw', fun h => absurd h (by decide), fun h => absurd h (by decide)⟩
  case advanceLine d =>
    simp only [Instr.WF, Bool.and_eq_true] at hw
    have hw' : 3 < p.opcodeBase := of_decide_eq_true hw.1
    exact ⟨3, d.enc, by simp [Instr.enc]; decide, by simpa using hw', fun h => absurd h (by decide), fun h => absurd h (by decide)⟩
  case setFile n =>
    simp only [Instr.WF, Bool.and_eq_true] at hw
    have hw' : 4 < p.opcodeBase := of_decide_eq_true hw.1
    exact ⟨4, n.enc, by simp [Instr.enc]; decide, by simpa using hw', fun h => absurd h (by decide), fun h => absurd h (by decide)⟩
  case setColumn n =>
    simp only [Instr.WF, Bool.and_eq_true] at hw
    have hw' : 5 < p.opcodeBase := of_decide_eq_true hw.1
    exact ⟨5, n.enc, by simp [Instr.enc]; decide, by simpa using hw', fun h => absurd h (by decide), fun h => absurd h (by decide)⟩
  case negateStmt =>
    have hw' : 6 < p.opcodeBase := of_decide_eq_true hw
    exact ⟨6, [], by simp [Instr.enc]; decide, by simpa using hw', fun h => absurd h (by decide), fun h => absurd h (by decide)⟩
  case setBasicBlock =>
    have hw' : 7 < p.opcodeBase := of_decide_eq_true hw
    exact ⟨7, [], by simp [Instr.enc]; decide, by simpa using hw', fun h => absurd h (by decide), fun h => absurd h (by decide)⟩
  case fixedAdvancePc n =>
    simp only [Instr.WF, Bool.and_eq_true] at hw
    have hw' : 9 < p.opcodeBase := of_decide_eq_true hw.1
    exact ⟨9, encNat p.le 2 n, by simp [Instr.enc]; decide, by simpa using hw', fun h => absurd h (by decide), fun h => absurd h (by decide)⟩
  case setPrologueEnd =>
    have hw' : 10 < p.opcodeBase := of_decide_eq_true hw
    exact ⟨10, [], by simp [Instr.enc]; decide, by simpa using hw', fun h => absurd h (by decide), fun h => absurd h (by decide)⟩
  case setEpilogueBegin =>
    have hw' : 11 < p.opcodeBase := of_decide_eq_true hw
    exact ⟨11, [], by simp [Instr.enc]; decide, by simpa using hw', fun h => absurd h (by decide), fun h => absurd h (by decide)⟩
  case setIsa n =>
    simp only [Instr.WF, Bool.and_eq_true] at hw
    have hw' : 12 < p.opcodeBase := of_decide_eq_true hw.1
    exact ⟨12, n.enc, by simp [Instr.enc]; decide, by simpa using hw', fun h => absurd h (by decide), fun h => absurd h (by decide)⟩

/-- on the encoding of an instruction that does not divide by a zero field, the decoder's step does
    not depend on what the zero fields were replaced with -/
theorem step_fix {env : Env} {cfg : DwarfCfg} {p : Params} {ver : Nat} (henc : p.WFenc ver = true) (i : Instr)
    (hw : i.WF p ver = true) (hz : i.divZero p = false) {data rest : Bytes} {off : Nat} {st : LineState}
    {files : Option (List Val)} (hd : data.drop off = i.enc p ++ rest) :
    step env (Spec.dwarfStructs cfg) specConsts data (hdrOf p) off st files
      = step env (Spec.dwarfStructs cfg) specConsts data (hdrOf (fixP p)) off st files := by
  have henc' := henc
  simp only [Params.WFenc, Bool.and_eq_true, decide_eq_true_eq, Bool.or_eq_true] at henc'
  have hob1 : 1 ≤ p.opcodeBase := henc'.1.1.1.2
  have hob : p.opcodeBase < 256 := henc'.1.1.2
  by_cases hs : i.usesLineRange = true
  · -- special opcode / const_add_pc: both fields are divided by, both are non-zero, nothing was replaced
    have hz' : p.lineRange ≠ 0 ∧ p.maxOps ≠ 0 := by
      cases i <;> simp [Instr.usesLineRange] at hs
        <;> simpa [Instr.divZero, Instr.usesLineRange, Instr.advances] using hz
    have : fixP p = p := by
      cases p
      simp only [fixP] at hz' ⊢
      simp [hz'.1, hz'.2]
    rw [this]
  · have hns : ∀ op, i ≠ .special op := by
      intro op h; subst h; exact hs rfl
    obtain ⟨b, tl, he, hlt, h8, h2⟩ := enc_head hob1 hob i hw hns
    have hd' : data.drop off = b :: (tl ++ rest) := by rw [hd, he]; rfl
    by_cases h0 : b.toNat = 0
    · have hb0 : b = 0 := by
        apply UInt8.toNat_inj.1; simpa using h0
      subst hb0
      rw [step_ext (p := p) hd' hob1, step_ext (p := fixP p) hd' hob1, hdrOf_fix p, stepExtended_frame]
    · rw [step_std (p := p) hd' hlt h0, step_std (p := fixP p) hd' hlt h0, hdrOf_fix p]
      apply stepStandard_frame
      · intro h
        have hi := h8 (by simpa [specConsts, dw_consts] using h)
        subst hi
        exact hs rfl
      · intro h
        obtain ⟨n, hi⟩ := h2 (by simpa [specConsts, dw_consts] using h)
        subst hi
        simp [Instr.divZero, Instr.usesLineRange, Instr.advances] at hz
        show p.maxOps = (fixP p).maxOps
        rw [fixP_maxOps hz]

/-! ### one instruction under encodable parameters -/

/-- an instruction that divides by no zero field is executed as the standard says, whatever
    `maximum_operations_per_instruction` and `line_range` hold -/
theorem stepOK_weak {env : Env} {cfg : DwarfCfg} {p : Params} {ver : Nat} (henc : p.WFenc ver = true)
    (hs : p.stdLensOK = true) (hle : p.le = cfg.le) (hasz : p.asz = cfg.asz) (i : Instr)
    (hw : i.WF p ver = true) (hz : i.divZero p = false) : StepOK env cfg p ver i := by
  intro data rest off st files hd hfiles hsz
  have hle' : (fixP p).le = cfg.le := hle
  have hasz' : (fixP p).asz = cfg.asz := hasz
  have h' := stepOK_all (env := env) (fixP_WF henc hs) hle' hasz' i (by rw [WF_fix]; exact hw) data rest off st files
    (by rw [enc_fix]; exact hd) hfiles (by rw [enc_fix]; exact hsz)
  rw [step_fix henc i hw hz hd]
  cases hstep : step env (Spec.dwarfStructs cfg) specConsts data (hdrOf (fixP p)) off st files with
  | error e => rw [hstep] at h'; exact h'.elim
  | ok r =>
    rw [hstep] at h'
    obtain ⟨off', st', files', new⟩ := r
    simpa only [StepPost, enc_fix, stdStep_fix p _ i hz] using h'

/-- an instruction that divides by a zero field raises ZeroDivisionError -/
theorem step_divZero {env : Env} {cfg : DwarfCfg} {p : Params} {ver : Nat} (henc : p.WFenc ver = true) (i : Instr)
    (hw : i.WF p ver = true) (hz : i.divZero p = true) {data rest : Bytes} {off : Nat} {st : LineState}
    {files : Option (List Val)} (hd : data.drop off = i.enc p ++ rest) :
    step env (Spec.dwarfStructs cfg) specConsts data (hdrOf p) off st files = .error .zeroDivision := by
  have henc' := henc
  simp only [Params.WFenc, Bool.and_eq_true, decide_eq_true_eq, Bool.or_eq_true] at henc'
  have hob1 : 1 ≤ p.opcodeBase := henc'.1.1.1.2
  cases i <;> try (simp [Instr.divZero, Instr.usesLineRange, Instr.advances] at hz; done)
  case special op =>
    simp only [Instr.WF, Bool.and_eq_true, decide_eq_true_eq] at hw
    have hb : (byte op).toNat = op := byte_toNat (by omega)
    have hd' : data.drop off = byte op :: rest := by simpa [Instr.enc] using hd
    rw [step_special hd' (by omega), hb]
    simp only [Instr.divZero, Instr.usesLineRange, Instr.advances, Bool.true_and, Bool.or_eq_true,
      decide_eq_true_eq] at hz
    by_cases hl : p.lineRange = 0
    · simp [stepSpecial, hdrOf, hl]
    · have hm : p.maxOps = 0 := by rcases hz with h | h; exact absurd h hl; exact h
      simp [stepSpecial, hdrOf, hl, advancePc, hm, bind, Except.bind]
  case advancePc n =>
    simp only [Instr.WF, Bool.and_eq_true] at hw
    have hw' : 2 < p.opcodeBase := of_decide_eq_true hw.1
    have hb : byte DW_LNS_advance_pc = (2 : UInt8) := by decide
    have hd0 : data.drop off = [(2 : UInt8)] ++ (n.enc ++ rest) := by simpa [Instr.enc, hb] using hd
    have hd' : data.drop off = (2 : UInt8) :: (n.enc ++ rest) := by simpa using hd0
    have hd1 : data.drop (off + 1) = n.enc ++ rest := drop_add_of_drop hd0
    have hm : p.maxOps = 0 := by
      simpa [Instr.divZero, Instr.usesLineRange, Instr.advances] using hz
    rw [step_std hd' (by simpa using hw') (by decide)]
    simp [stepStandard, specConsts, dw_consts, S_uleb, sp_uleb hw.2 hd1, asNat_nat, advancePc, hdrOf, hm, bind,
      Except.bind]
  case constAddPc =>
    have hw' : 8 < p.opcodeBase := of_decide_eq_true hw
    have hb : byte DW_LNS_const_add_pc = (8 : UInt8) := by decide
    have hd' : data.drop off = (8 : UInt8) :: rest := by simpa [Instr.enc, hb] using hd
    simp only [Instr.divZero, Instr.usesLineRange, Instr.advances, Bool.true_and, Bool.or_eq_true,
      decide_eq_true_eq] at hz
    rw [step_std hd' (by simpa using hw') (by decide)]
    by_cases hl : p.lineRange = 0
    · simp [stepStandard, specConsts, dw_consts, hdrOf, hl]
    · have hm : p.maxOps = 0 := by rcases hz with h | h; exact absurd h hl; exact h
      simp [stepStandard, specConsts, dw_consts, hdrOf, hl, advancePc, hm, bind, Except.bind]

/-! ### the loop -/

/-- the registers after a list of instructions (the rows are `stdRunFrom`) -/
def stdRegs (p : Params) : Row → List Instr → Row
  | r, [] => r
  | r, i :: is => stdRegs p (stdStep p r i).1 is

theorem encodeProgram_append (p : Params) (a b : List Instr) :
    encodeProgram p (a ++ b) = encodeProgram p a ++ encodeProgram p b := by
  induction a with
  | nil => rfl
  | cons i a ih => simp [encodeProgram, ih, List.append_assoc]

theorem stdRunFrom_append (p : Params) (r : Row) (a b : List Instr) :
    stdRunFrom p r (a ++ b) = stdRunFrom p r a ++ stdRunFrom p (stdRegs p r a) b := by
  induction a generalizing r with
  | nil => rfl
  | cons i a ih =>
    rw [List.cons_append, stdRunFrom_cons, stdRunFrom_cons, ih, stdRegs, List.append_assoc]

theorem length_le_encodeProgram (p : Params) (is : List Instr) : is.length ≤ (encodeProgram p is).length := by
  induction is with
  | nil => simp
  | cons i is ih =>
    have := enc_length_pos p i
    simp only [encodeProgram, List.length_append, List.length_cons]; omega

theorem definedFiles_append (a b : List Instr) : definedFiles (a ++ b) = definedFiles a ++ definedFiles b := by
  induction a with
  | nil => rfl
  | cons i a ih => rw [List.cons_append, definedFiles_cons, ih, definedFiles_cons i a, List.append_assoc]

section
variable {env : Env} {cfg : DwarfCfg} {p : Params} {ver : Nat}

/-- the loop over a prefix `is` of the program (every instruction of which steps as the standard says):
    `is.length` iterations later the loop stands behind the prefix, with the standard's registers, having
    appended the standard's rows -/
theorem decodeLoop_prefix (data : Bytes) (endOff : Nat) :
    ∀ (is : List Instr) (fuel off : Nat) (st : LineState) (files : Option (List Val)) (entries : List Entry)
      (rest : Bytes),
      (∀ i ∈ is, StepOK env cfg p ver i) →
      data.drop off = encodeProgram p is ++ rest →
      off + (encodeProgram p is).length ≤ endOff →
      is.length ≤ fuel →
      (ver ≤ 4 → files.isSome = true) →
      endOff ≤ ssizeMax →
      ∃ new st',
        decodeLoop env (Spec.dwarfStructs cfg) specConsts data (hdrOf p) endOff fuel off st files entries
          = decodeLoop env (Spec.dwarfStructs cfg) specConsts data (hdrOf p) endOff (fuel - is.length)
              (off + (encodeProgram p is).length) st' (files.map (· ++ (definedFiles is).map FileEntry.obs))
              (entries ++ new)
        ∧ rowsOf new = stdRunFrom p (toRow st) is
        ∧ toRow st' = stdRegs p (toRow st) is := by
  intro is
  induction is with
  | nil =>
    intro fuel off st files entries rest _ _ _ _ _ _
    refine ⟨[], st, ?_, by simp [rowsOf, stdRunFrom], rfl⟩
    simp [encodeProgram, definedFiles, files_map_nil]
  | cons i is ih =>
    intro fuel off st files entries rest hok hd hend hfuel hfiles hmax
    cases fuel with
    | zero => simp at hfuel
    | succ fuel =>
      have hpos := enc_length_pos p i
      have hlen : (encodeProgram p (i :: is)).length = (i.enc p).length + (encodeProgram p is).length := by
        simp [encodeProgram]
      have hlt : off < endOff := by omega
      have hd0 : data.drop off = i.enc p ++ (encodeProgram p is ++ rest) := by
        simpa [encodeProgram, List.append_assoc] using hd
      have hstep := hok i (by simp) data _ off st files hd0 hfiles (by omega)
      rw [decodeLoop, if_pos hlt]
      rcases hs : step env (Spec.dwarfStructs cfg) specConsts data (hdrOf p) off st files with e | ⟨off', st', files', new1⟩
      · rw [hs] at hstep; exact hstep.elim
      · rw [hs] at hstep
        obtain ⟨hoff, hfl, hrow, hrows⟩ := hstep
        have hd1 : data.drop off' = encodeProgram p is ++ rest := by
          rw [hoff]; exact drop_add_of_drop hd0
        have hfiles' : ver ≤ 4 → files'.isSome = true := by
          intro hv; rw [hfl]; simpa using hfiles hv
        obtain ⟨new2, st2, h2, hr2, hreg2⟩ := ih fuel off' st' files' (entries ++ new1) rest
          (fun j hj => hok j (by simp [hj])) hd1 (by omega) (by simp at hfuel; omega) hfiles' hmax
        refine ⟨new1 ++ new2, st2, ?_, ?_, ?_⟩
        · show decodeLoop env (Spec.dwarfStructs cfg) specConsts data (hdrOf p) endOff fuel off' st' files'
              (entries ++ new1) = _
          rw [h2, hfl, definedFiles_cons i is, hoff, hlen]
          have e1 : fuel + 1 - (i :: is).length = fuel - is.length := by simp
          rw [e1]
          cases files <;> simp [List.append_assoc, Nat.add_assoc]
        · rw [rowsOf_append, hrows, hr2, hrow, stdRunFrom_cons]
        · rw [hreg2, hrow, stdRegs]

/-- the whole program, every instruction of which steps as the standard says -/
theorem decodeLoop_runW (data : Bytes) (endOff : Nat) (is : List Instr) (fuel off : Nat) (st : LineState)
    (files : Option (List Val)) (entries : List Entry) (rest : Bytes)
    (hok : ∀ i ∈ is, StepOK env cfg p ver i)
    (hd : data.drop off = encodeProgram p is ++ rest) (hend : endOff = off + (encodeProgram p is).length)
    (hfuel : (encodeProgram p is).length + 1 ≤ fuel) (hfiles : ver ≤ 4 → files.isSome = true)
    (hmax : endOff ≤ ssizeMax) :
    ∃ new, decodeLoop env (Spec.dwarfStructs cfg) specConsts data (hdrOf p) endOff fuel off st files entries
        = .ok (entries ++ new, files.map (· ++ (definedFiles is).map FileEntry.obs), endOff)
      ∧ rowsOf new = stdRunFrom p (toRow st) is := by
  have hl := length_le_encodeProgram p is
  obtain ⟨new, st', h1, hr, _⟩ := decodeLoop_prefix (env := env) (cfg := cfg) (p := p) (ver := ver) data endOff is fuel off
    st files entries rest hok hd (by omega) (by omega) hfiles hmax
  refine ⟨new, ?_, hr⟩
  rw [h1, ← hend]
  obtain ⟨k, hk⟩ : ∃ k, fuel - is.length = k + 1 := ⟨fuel - is.length - 1, by omega⟩
  rw [hk, decodeLoop, if_neg (by omega)]

/-- the program up to and including the first instruction that divides by a zero field:
    ZeroDivisionError, whatever follows -/
theorem decodeLoop_divZero (henc : p.WFenc ver = true) (data : Bytes) (endOff : Nat) (is1 : List Instr) (i : Instr)
    (fuel off : Nat) (st : LineState) (files : Option (List Val)) (entries : List Entry) (rest : Bytes)
    (hok : ∀ j ∈ is1, StepOK env cfg p ver j) (hw : i.WF p ver = true) (hz : i.divZero p = true)
    (hd : data.drop off = encodeProgram p is1 ++ (i.enc p ++ rest))
    (hend : off + (encodeProgram p is1).length + (i.enc p).length ≤ endOff)
    (hfuel : (encodeProgram p is1).length + 1 ≤ fuel) (hfiles : ver ≤ 4 → files.isSome = true)
    (hmax : endOff ≤ ssizeMax) :
    decodeLoop env (Spec.dwarfStructs cfg) specConsts data (hdrOf p) endOff fuel off st files entries
      = .error .zeroDivision := by
  have hl := length_le_encodeProgram p is1
  have hpos := enc_length_pos p i
  obtain ⟨new, st', h1, _, _⟩ := decodeLoop_prefix (env := env) (cfg := cfg) (p := p) (ver := ver) data endOff is1 fuel off
    st files entries (i.enc p ++ rest) hok hd (by omega) (by omega) hfiles hmax
  rw [h1]
  obtain ⟨k, hk⟩ : ∃ k, fuel - is1.length = k + 1 := ⟨fuel - is1.length - 1, by omega⟩
  have hd1 : data.drop (off + (encodeProgram p is1).length) = i.enc p ++ rest := drop_add_of_drop hd
  rw [hk, decodeLoop, if_pos (by omega), step_divZero henc i hw hz hd1]

end

end PyElf.Proofs.Line
