/-
  C14 over whole files (fourth wave): composition of C01's theorems about opening a byte string
  that carries an abstract ELF description (`Layout d bytes`, Proofs/ElfFile.lean) with the note
  walk (Proofs/Notes.lean, Proofs/NotesEdge.lean).
-/
import PyElf.Model.NotesFile
import PyElf.Spec.NotesFile
import PyElf.Proofs.ElfFile
import PyElf.Proofs.NotesEdge
namespace PyElf.Proofs.NotesFile
open PyElf PyElf.Spec PyElf.Spec.C14 PyElf.Model PyElf.Model.C14 PyElf.Proofs PyElf.Proofs.Notes PyElf.Proofs.NotesEdge

theorem ok_of_toOption {α : Type} {x : R α} {a : α} (h : x.toOption = some a) : x = .ok a := by
  cases x with
  | error e => simp [Except.toOption] at h
  | ok b => simp [Except.toOption] at h; rw [h]

/-- the enum environment names the gABI's SHT_NOTE (7) and PT_NOTE (4) in every machine's table -/
structure EnvNote (env : Env) : Prop where
  sh : ∀ m, env.enumDecode (shTypeTable m) 7 = some "SHT_NOTE"
  pt : ∀ m, env.enumDecode (pTypeTable m) 4 = some "PT_NOTE"

/-! ### what the decoded headers say -/

theorem shType_note {env : Env} (hn : EnvNote env) {d : ElfDesc} {sd : SecDesc} {h : Val}
    (hdec : d.S.Elf_Shdr.decodeRaw env [] sd.raw = .ok h)
    (hty : Fields.get? sd.hdr "sh_type" = some (.int 7)) :
    h.getField "sh_type" = .ok (.str "SHT_NOTE") := by
  have hS : d.S.Elf_Shdr = .struct (shdrFields d.cfg) := rfl
  rw [hS] at hdec
  unfold SecDesc.raw at hdec
  obtain ⟨ctx0, x, hx, hg⟩ := struct_field_exists (shdr_field_type d.cfg) hdec
  have hraw : Fields.get? (("sh_name", Val.int sd.nameOff) :: sd.hdr) "sh_type" = some (.int 7) := by
    simpa [Fields.get?] using hty
  rw [hraw] at hx
  simp only [Option.getD_some, Con.decodeRaw, hn.sh] at hx
  cases hx
  exact hg

theorem kindOf_note (name : Bytes) : kindOf (.str "SHT_NOTE") name = "NoteSection" := rfl

theorem phdr_field_filesz (c : ElfCfg) : ∃ n, fieldCon (phdrFields c) "p_filesz" = some (.uint n c.le) := by
  unfold phdrFields
  split
  · exact ⟨4, by simp [mkFields, f, fieldCon, fieldNames]⟩
  · exact ⟨c.cls / 8, by simp [mkFields, f, fieldCon, fieldNames]⟩

/-- a decoded program header: type PT_NOTE, `p_offset` and `p_filesz` the description's -/
theorem seg_note_facts {env : Env} (hn : EnvNote env) {d : ElfDesc} {p : Fields} {b : Bytes} {ph : Val}
    (he : d.S.Elf_Phdr.encodeRaw (.record p) = some b) (hd : d.S.Elf_Phdr.decodeRaw env [] (.record p) = .ok ph)
    (hty : Fields.get? p "p_type" = some (.int 4)) :
    ph.getField "p_type" = .ok (.str "PT_NOTE") ∧ ph.getNat "p_offset" = .ok (getNatD p "p_offset") ∧
      ph.getNat "p_filesz" = .ok (getNatD p "p_filesz") := by
  have hS : d.S.Elf_Phdr = .struct (phdrFields d.cfg) := phdr_eq d.cfg
  rw [hS] at he hd
  refine ⟨?_, ?_, ?_⟩
  · obtain ⟨ctx0, x, hx, hg⟩ := struct_field_exists (phdr_field_type d.cfg) hd
    rw [hty] at hx
    simp only [Option.getD_some, Con.decodeRaw, hn.pt] at hx
    cases hx
    exact hg
  · obtain ⟨z, -, h1, h2⟩ := uint_field (phdr_field_offset d.cfg) he hd
    rw [getNat_of_getField h2]
    simp [getNatD, h1]
  · obtain ⟨n, hf⟩ := phdr_field_filesz d.cfg
    obtain ⟨z, -, h1, h2⟩ := uint_field hf he hd
    rw [getNat_of_getField h2]
    simp [getNatD, h1]

theorem cfgWf_of_cls {d : ElfDesc} (h : d.cls = 32 ∨ d.cls = 64) : cfgWf d.cfg = true := by
  rcases h with h | h <;> simp [cfgWf, ElfDesc.cfg, h]

/-! ### sections -/

theorem obsSec_eq {env : Env} {d : ElfDesc} {s : SecDesc} {r : String × Bytes × Val} (h : obsSec env d s = .ok r) :
    ∃ hd ty, d.S.Elf_Shdr.decodeRaw env [] s.raw = .ok hd ∧ hd.getField "sh_type" = .ok ty ∧
      r = (kindOf ty s.name, s.name, hd) := by
  unfold obsSec at h
  cases h1 : d.S.Elf_Shdr.decodeRaw env [] s.raw with
  | error e => simp [h1, bind, Except.bind] at h
  | ok hd =>
    cases h2 : hd.getField "sh_type" with
    | error e => simp [h1, h2, bind, Except.bind] at h
    | ok ty =>
      simp [h1, h2, bind, Except.bind, pure, Except.pure] at h
      exact ⟨hd, ty, rfl, h2, h.symm⟩

/-- `get_section(i)` on a byte string that carries `d`: the class, name and decoded header the
    description reports, for a section whose raw type is SHT_NOTE -/
theorem getSection_note {env : Env} (hn : EnvNote env) {d : ElfDesc} {bytes : Bytes} {obs : ElfObs} {f : ElfFile}
    (hwf : d.wfZ env = true) (hl : Layout d bytes) (ho : d.observe env = .ok obs)
    (hf : openElf env specSF specMC bytes = .ok f)
    {i : Nat} {sd : SecDesc} (hsd : d.sections[i]? = some sd)
    (hty : Fields.get? sd.hdr "sh_type" = some (.int 7)) :
    ∃ sh, getSection env f.S bytes f.header f.shstr i = .ok ("NoteSection", sd.name, sh) ∧
      sh.getNat "sh_offset" = .ok (getNatD sd.hdr "sh_offset") ∧ sh.getNat "sh_size" = .ok (getNatD sd.hdr "sh_size") := by
  obtain ⟨hi, rfl⟩ := List.getElem?_eq_some_iff.1 hsd
  have hL := layout_facts hl
  obtain ⟨-, h2, -⟩ := observe_inv ho
  obtain ⟨hlen, hall⟩ := mapM_ok_inv _ _ _ h2
  have hi' : i < obs.sections.length := by omega
  obtain ⟨sh, ty, hdec, hgt, hr⟩ := obsSec_eq (hall i hi hi')
  have hnote := shType_note hn hdec hty
  rw [hgt] at hnote
  cases hnote
  obtain ⟨b, hb, -⟩ := hL.shdr i hi
  have hsf := sec_facts hb hdec
  have hget := get_section_aux_z hwf hl ho hf i hi
  rw [List.getElem?_eq_getElem hi', hr] at hget
  refine ⟨sh, ok_of_toOption hget, ?_, ?_⟩
  · rw [hsf.nat "sh_offset" (by simp [shdrNatKeys]), hsf.raw "sh_offset" (by simp [shdrNatKeys]) (by decide)]
  · rw [hsf.nat "sh_size" (by simp [shdrNatKeys]), hsf.raw "sh_size" (by simp [shdrNatKeys]) (by decide)]

/-- the bytes of a file at the offset of a section the description gives a body -/
theorem body_drop {d : ElfDesc} {bytes : Bytes} (hL : LayoutFacts d bytes) {sd : SecDesc} (hm : sd ∈ d.sections)
    {body : Bytes} (hb : sd.body = some body) :
    bytes.drop (getNatD sd.hdr "sh_offset") = body ++ bytes.drop (getNatD sd.hdr "sh_offset" + body.length) :=
  drop_of_readN (hL.body sd hm body hb)

/-- `ELFFile(BytesIO(bytes)).get_section(i).iter_notes()` for a section of type SHT_NOTE whose body
    is the encoding of `ns` followed by fewer than 12 bytes -/
theorem fileSectionNotes_ok {env : Env} (he : EnvOK env) (hn : EnvNote env) {d : ElfDesc} {bytes : Bytes} {obs : ElfObs}
    (hwf : d.wfZ env = true) (hl : Layout d bytes) (ho : d.observe env = .ok obs)
    {i : Nat} {sd : SecDesc} (hsd : d.sections[i]? = some sd)
    (hty : Fields.get? sd.hdr "sh_type" = some (.int 7))
    (ns : List Note) (hns : ∀ n ∈ ns, n.wf d.cfg = true) (tail : Bytes) (htail : tail.length < 12)
    (hbody : sd.body = some (encodeNotes d.cfg ns ++ tail))
    (hsize : getNatD sd.hdr "sh_size" = (encodeNotes d.cfg ns).length + tail.length) :
    fileSectionNotes env specSF specMC bytes i = .ok (obsNotes d.cfg (getNatD sd.hdr "sh_offset") ns) := by
  obtain ⟨f, hf, hdata, hcls, hle, hS, hH⟩ := open_aux_z hwf hl ho
  obtain ⟨sh, hget, hoff, hsz⟩ := getSection_note hn hwf hl ho hf hsd hty
  have hm : sd ∈ d.sections := List.mem_of_getElem? hsd
  have hdrop := body_drop (layout_facts hl) hm hbody
  rw [List.append_assoc] at hdrop
  unfold fileSectionNotes
  simp only [hf, bind, Except.bind, hget]
  simp only [bne_self_eq_false, Bool.false_eq_true, if_false]
  unfold noteSectionIterNotes
  simp only [hoff, hsz, hsize, bind, Except.bind]
  rw [hS, hcls]
  exact iterNotes_drop he d.cfg (cfgWf_of_cls (wfZ_facts hwf).cls) ns hns bytes _ tail.length _ htail hdrop

/-! ### segments -/

theorem getSegment_of_iter {env : Env} {S : ElfStructs} {bytes : Bytes} {hdr : Val} {shstr : Option Val} {n : Nat}
    {segs : List (String × Val)} (hnum : numSegments env S bytes hdr shstr = .ok n)
    (hit : iterSegments env S bytes hdr shstr = .ok segs) {j : Nat} (hj : j < n) :
    ∃ hj' : j < segs.length, getSegment env S bytes hdr shstr j = .ok segs[j] := by
  unfold iterSegments at hit
  simp only [hnum, bind, Except.bind] at hit
  obtain ⟨hlen, hall⟩ := mapM_ok_inv _ _ _ hit
  have hj' : j < segs.length := by simpa [hlen] using hj
  refine ⟨hj', ?_⟩
  have := hall j (by simpa using hj) hj'
  simpa using this

/-- `get_segment(j)` on a byte string that carries `d`, for a program header whose raw type is PT_NOTE -/
theorem getSegment_note {env : Env} (hn : EnvNote env) {d : ElfDesc} {bytes : Bytes} {obs : ElfObs} {f : ElfFile}
    (hwf : d.wfZ env = true) (hl : Layout d bytes) (ho : d.observe env = .ok obs)
    (hf : openElf env specSF specMC bytes = .ok f)
    {j : Nat} {p : Fields} (hp : d.segments[j]? = some p)
    (hty : Fields.get? p "p_type" = some (.int 4)) :
    ∃ ph, getSegment env f.S bytes f.header f.shstr j = .ok ("NoteSegment", ph) ∧
      ph.getNat "p_offset" = .ok (getNatD p "p_offset") ∧ ph.getNat "p_filesz" = .ok (getNatD p "p_filesz") := by
  obtain ⟨hj, rfl⟩ := List.getElem?_eq_some_iff.1 hp
  have hL := layout_facts hl
  obtain ⟨-, -, h3⟩ := observe_inv ho
  obtain ⟨hlen, hall⟩ := mapM_ok_inv _ _ _ h3
  have hj' : j < obs.segments.length := by omega
  obtain ⟨ph, ty, hdec, hgt, hr⟩ := obsSeg_eq (hall j hj hj')
  obtain ⟨b, hb, -⟩ := hL.phdr j hj
  obtain ⟨hnote, hoff, hsz⟩ := seg_note_facts hn hb hdec hty
  rw [hgt] at hnote
  cases hnote
  obtain ⟨_, hget⟩ := getSegment_of_iter (counts_aux_z hwf hl ho hf).2 (segments_aux_z hwf hl ho hf) hj
  rw [hr] at hget
  exact ⟨ph, hget, hoff, hsz⟩

/-- `ELFFile(BytesIO(bytes)).get_segment(j).iter_notes()` for a PT_NOTE program header whose extent
    lies in the body the description gives a section (in particular: is the body of a note section) -/
theorem fileSegmentNotes_ok {env : Env} (he : EnvOK env) (hn : EnvNote env) {d : ElfDesc} {bytes : Bytes} {obs : ElfObs}
    (hwf : d.wfZ env = true) (hl : Layout d bytes) (ho : d.observe env = .ok obs)
    {j : Nat} {p : Fields} (hp : d.segments[j]? = some p)
    (hty : Fields.get? p "p_type" = some (.int 4))
    {sd : SecDesc} (hm : sd ∈ d.sections)
    (ns : List Note) (hns : ∀ n ∈ ns, n.wf d.cfg = true) (pre tail post : Bytes) (htail : tail.length < 12)
    (hbody : sd.body = some (pre ++ (encodeNotes d.cfg ns ++ tail) ++ post))
    (hoff : getNatD p "p_offset" = getNatD sd.hdr "sh_offset" + pre.length)
    (hsize : getNatD p "p_filesz" = (encodeNotes d.cfg ns).length + tail.length) :
    fileSegmentNotes env specSF specMC bytes j = .ok (obsNotes d.cfg (getNatD p "p_offset") ns) := by
  obtain ⟨f, hf, hdata, hcls, hle, hS, hH⟩ := open_aux_z hwf hl ho
  obtain ⟨ph, hget, hpo, hps⟩ := getSegment_note hn hwf hl ho hf hp hty
  have hdrop := body_drop (layout_facts hl) hm hbody
  have hdrop' : bytes.drop (getNatD sd.hdr "sh_offset" + pre.length)
      = encodeNotes d.cfg ns ++ (tail ++ (post ++ bytes.drop (getNatD sd.hdr "sh_offset"
          + (pre ++ (encodeNotes d.cfg ns ++ tail) ++ post).length))) := by
    have : bytes.drop (getNatD sd.hdr "sh_offset") = pre ++ (encodeNotes d.cfg ns ++ (tail ++ (post
        ++ bytes.drop (getNatD sd.hdr "sh_offset" + (pre ++ (encodeNotes d.cfg ns ++ tail) ++ post).length)))) := by
      rw [hdrop]; simp [List.append_assoc]
    exact drop_add_of_drop this
  unfold fileSegmentNotes
  simp only [hf, bind, Except.bind, hget]
  simp only [bne_self_eq_false, Bool.false_eq_true, if_false]
  unfold noteSegmentIterNotes
  simp only [hpo, hps, hsize, hoff, bind, Except.bind]
  rw [hS, hcls]
  exact iterNotes_drop he d.cfg (cfgWf_of_cls (wfZ_facts hwf).cls) ns hns bytes _ tail.length _ htail hdrop'

/-! ### a segment over several sections laid end to end (`.note.gnu.property`, `.note.gnu.build-id`,
    `.note.ABI-tag` … under one PT_NOTE) -/

theorem adjacent_drop {d : ElfDesc} {bytes : Bytes} (hL : LayoutFacts d bytes) :
    ∀ (is : List Nat) (off : Nat) (B : Bytes), adjacentBodies d off is = some B →
      bytes.drop off = B ++ bytes.drop (off + B.length) := by
  intro is
  induction is with
  | nil => intro off B h; simp only [adjacentBodies, Option.some.injEq] at h; subst h; simp
  | cons i rest ih =>
    intro off B h
    simp only [adjacentBodies] at h
    cases hs : d.sections[i]? with
    | none => simp [hs] at h
    | some s =>
      cases hb : s.body with
      | none => simp [hs, hb] at h
      | some b =>
        simp only [hs, hb] at h
        split at h
        · rename_i ho
          cases hr : adjacentBodies d (off + b.length) rest with
          | none => simp [hr] at h
          | some B' =>
            simp only [hr, Option.map_some, Option.some.injEq] at h
            subst h
            have h1 := body_drop hL (List.mem_of_getElem? hs) hb
            rw [ho] at h1
            rw [h1, ih _ _ hr, List.length_append, List.append_assoc, Nat.add_assoc]
        · cases h

/-- `get_segment(j).iter_notes()` for a PT_NOTE program header that covers sections laid end to end
    whose bodies together are the encoding of `ns` followed by fewer than 12 bytes -/
theorem fileSegmentNotes_adjacent {env : Env} (he : EnvOK env) (hn : EnvNote env) {d : ElfDesc} {bytes : Bytes} {obs : ElfObs}
    (hwf : d.wfZ env = true) (hl : Layout d bytes) (ho : d.observe env = .ok obs)
    {j : Nat} {p : Fields} (hp : d.segments[j]? = some p)
    (hty : Fields.get? p "p_type" = some (.int 4))
    (is : List Nat) (ns : List Note) (hns : ∀ n ∈ ns, n.wf d.cfg = true) (tail : Bytes) (htail : tail.length < 12)
    (hadj : adjacentBodies d (getNatD p "p_offset") is = some (encodeNotes d.cfg ns ++ tail))
    (hsize : getNatD p "p_filesz" = (encodeNotes d.cfg ns).length + tail.length) :
    fileSegmentNotes env specSF specMC bytes j = .ok (obsNotes d.cfg (getNatD p "p_offset") ns) := by
  obtain ⟨f, hf, hdata, hcls, hle, hS, hH⟩ := open_aux_z hwf hl ho
  obtain ⟨ph, hget, hpo, hps⟩ := getSegment_note hn hwf hl ho hf hp hty
  have hdrop := adjacent_drop (layout_facts hl) _ _ _ hadj
  rw [List.append_assoc] at hdrop
  unfold fileSegmentNotes
  simp only [hf, bind, Except.bind, hget]
  simp only [bne_self_eq_false, Bool.false_eq_true, if_false]
  unfold noteSegmentIterNotes
  simp only [hpo, hps, hsize, bind, Except.bind]
  rw [hS, hcls]
  exact iterNotes_drop he d.cfg (cfgWf_of_cls (wfZ_facts hwf).cls) ns hns bytes _ tail.length _ htail hdrop

/-! ### reduction: the file-level walks are `iter_notes` at the extent the description's header gives -/

/-- for ANY body: `get_section(i).iter_notes()` on a byte string carrying `d` is `iter_notes` at
    (`sh_offset`, `sh_size`) of the description's section header, with the description's bundle and class -/
theorem fileSectionNotes_reduce {env : Env} (hn : EnvNote env) {d : ElfDesc} {bytes : Bytes} {obs : ElfObs}
    (hwf : d.wfZ env = true) (hl : Layout d bytes) (ho : d.observe env = .ok obs)
    {i : Nat} {sd : SecDesc} (hsd : d.sections[i]? = some sd)
    (hty : Fields.get? sd.hdr "sh_type" = some (.int 7)) :
    fileSectionNotes env specSF specMC bytes i
      = iterNotes (elfStructs d.cfg) env d.cls bytes (getNatD sd.hdr "sh_offset") (getNatD sd.hdr "sh_size") := by
  obtain ⟨f, hf, hdata, hcls, hle, hS, hH⟩ := open_aux_z hwf hl ho
  obtain ⟨sh, hget, hoff, hsz⟩ := getSection_note hn hwf hl ho hf hsd hty
  unfold fileSectionNotes
  simp only [hf, bind, Except.bind, hget]
  simp only [bne_self_eq_false, Bool.false_eq_true, if_false]
  unfold noteSectionIterNotes
  simp only [hoff, hsz, bind, Except.bind]
  rw [hS, hcls]
  rfl

theorem fileSegmentNotes_reduce {env : Env} (hn : EnvNote env) {d : ElfDesc} {bytes : Bytes} {obs : ElfObs}
    (hwf : d.wfZ env = true) (hl : Layout d bytes) (ho : d.observe env = .ok obs)
    {j : Nat} {p : Fields} (hp : d.segments[j]? = some p)
    (hty : Fields.get? p "p_type" = some (.int 4)) :
    fileSegmentNotes env specSF specMC bytes j
      = iterNotes (elfStructs d.cfg) env d.cls bytes (getNatD p "p_offset") (getNatD p "p_filesz") := by
  obtain ⟨f, hf, hdata, hcls, hle, hS, hH⟩ := open_aux_z hwf hl ho
  obtain ⟨ph, hget, hpo, hps⟩ := getSegment_note hn hwf hl ho hf hp hty
  unfold fileSegmentNotes
  simp only [hf, bind, Except.bind, hget]
  simp only [bne_self_eq_false, Bool.false_eq_true, if_false]
  unfold noteSegmentIterNotes
  simp only [hpo, hps, bind, Except.bind]
  rw [hS, hcls]
  rfl

end PyElf.Proofs.NotesFile
