/-
  C03 helper lemmas (fifth wave, task 3): the symbol-table model WITH the name decoding of
  `StringTableSection.get_string` (`Model/SymbolsDecoded.lean`) over a laid-out table, for names that are
  arbitrary byte strings: every symbol is reported with `utf8Replace` of the bytes its `st_name` denotes;
  the by-name map is keyed by these reported names; SysV hash lookups compare reported names.  On tables
  whose names are valid UTF-8 the decoding model is the plain one (`Model/Symbols.lean`), so everything
  proved about that one carries over.
-/
import PyElf.Model.SymbolsDecoded
import PyElf.Proofs.SymUtf8
import PyElf.Proofs.SymBuilt
namespace PyElf.Proofs.C03D
open PyElf PyElf.Spec PyElf.Spec.C03 PyElf.Model PyElf.Model.C03 PyElf.Proofs PyElf.Proofs.C03 PyElf.Proofs.C03U

/-- a symbol with its name decoded -/
def decSym (s : Symbol) : Symbol := (s.1, utf8Replace s.2)

/-- the decoding model is the raw model followed by the decoding of the name -/
theorem getSymbolD_eq (S : ElfStructs) (env : Env) (data : Bytes) (h : SecHdr) (strOff n : Nat) :
    getSymbolD S env data h strOff n = (getSymbol S env data h strOff n).map decSym := by
  unfold getSymbolD getSymbol symGetStringD symGetString pyDecodeReplace
  simp only [bind, Except.bind]
  cases structParse env S.Elf_Sym data (h.off + n * h.entsize) with
  | error e => rfl
  | ok r =>
    obtain ⟨entry, p⟩ := r
    simp only
    cases entry.getNat "st_name" with
    | error e => rfl
    | ok off =>
      simp only
      cases parseCStringFromStream data (strOff + off) with
      | error e => rfl
      | ok o =>
        cases o with
        | none => simp [pure, Except.pure, Except.map, decSym, utf8Replace_nil]
        | some s => rfl

theorem getD_map_utf8 (names : List Bytes) (i : Nat) :
    (names.map utf8Replace).getD i [] = utf8Replace (names.getD i []) := by
  simp only [List.getD_eq_getElem?_getD, List.getElem?_map]
  cases names[i]? with
  | none => simp [utf8Replace_nil]
  | some x => rfl

theorem decSym_symObs (dec : String → Int → Option String) (cls : Nat) (es : List SymE) (names : List Bytes) (i : Nat) :
    decSym (symObs dec cls es names i) = symObs dec cls es (names.map utf8Replace) i := by
  simp only [decSym, symObs, getD_map_utf8]

section table
variable {le : Bool} {cls : Nat} {data : Bytes} {h : SecHdr} {strOff : Nat} {es : List SymE} {names : List Bytes}
variable (env : Env) (m : String) (sol core : Bool)

/-- `get_symbol(i)`: the entry, and the name the string table holds at `st_name` AS PYTHON REPORTS IT -/
theorem layout_getSymbolD (L : SymtabLayout le cls data h strOff es names) (i : Nat) (hi : i < es.length) :
    getSymbolD (Spec.elfStructs ⟨le, cls, m, sol, core⟩) env data h strOff i
      = .ok (symObs env.enumDecode cls es (names.map utf8Replace) i) := by
  rw [getSymbolD_eq, layout_getSymbol env m sol core L i hi, ← decSym_symObs]
  rfl

theorem layout_iterSymbolsD (L : SymtabLayout le cls data h strOff es names) :
    iterSymbolsD (Spec.elfStructs ⟨le, cls, m, sol, core⟩) env data h strOff
      = .ok ((List.range es.length).map (symObs env.enumDecode cls es (names.map utf8Replace))) := by
  simp only [iterSymbolsD, layout_numSymbols L, bind, Except.bind]
  rw [collectRange_ok _ (symObs env.enumDecode cls es (names.map utf8Replace)) es.length 0
    (fun i _ hi => layout_getSymbolD env m sol core L i (by omega))]
  simp [List.range_eq_range']

/-- `get_symbol_by_name(n)`: exactly the symbols whose REPORTED name is `n`, in index order, or `None` -/
theorem layout_byNameD (L : SymtabLayout le cls data h strOff es names) (name : Bytes) :
    getSymbolByNameD (Spec.elfStructs ⟨le, cls, m, sol, core⟩) env data h strOff name
      = .ok (if byName (names.map utf8Replace) name = [] then none
             else some ((byName (names.map utf8Replace) name).map
                    (symObs env.enumDecode cls es (names.map utf8Replace)))) := by
  have hlen : (names.map utf8Replace).length = es.length := by rw [List.length_map]; exact L.nlen
  have hnames : ((List.range es.length).map (symObs env.enumDecode cls es (names.map utf8Replace))).map (·.2)
      = names.map utf8Replace := by
    apply List.ext_getElem
    · simp [L.nlen]
    · intro i h1 h2
      have h3 : i < names.length := by simpa using h2
      simp [symObs, List.getD_eq_getElem?_getD, List.getElem?_eq_getElem h3]
  simp only [getSymbolByNameD, layout_iterSymbolsD env m sol core L, bind, Except.bind, getSymbolByNameFrom,
    buildNameMap_get, idxNamed_eq_byName, hnames]
  by_cases hb : byName (names.map utf8Replace) name = []
  · simp [hb, pure, Except.pure]
  · simp only [hb, if_false]
    cases hl : byName (names.map utf8Replace) name with
    | nil => exact absurd hl hb
    | cons i is =>
      rw [← hl, mapM_ok _ (symObs env.enumDecode cls es (names.map utf8Replace)) _ (fun i hi =>
        layout_getSymbolD env m sol core L i (by
          have := byName_lt (names.map utf8Replace) name i hi; rw [hlen] at this; exact this))]
      rfl

end table

/-! ### valid UTF-8: nothing changes -/

theorem map_utf8Replace_valid (names : List Bytes) (hv : ∀ nm ∈ names, validUtf8 nm = true) :
    names.map utf8Replace = names := by
  induction names with
  | nil => rfl
  | cons x xs ih =>
    rw [List.map_cons, utf8Replace_of_valid x.length x (Nat.le_refl _) (hv x List.mem_cons_self),
      ih (fun nm h => hv nm (List.mem_cons_of_mem _ h))]

/-- on a table whose names are valid UTF-8 the decoding model reports what the raw model reports -/
theorem layout_getSymbolD_valid {le : Bool} {cls : Nat} {data : Bytes} {h : SecHdr} {strOff : Nat} {es : List SymE}
    {names : List Bytes} (env : Env) (m : String) (sol core : Bool) (L : SymtabLayout le cls data h strOff es names)
    (hv : ∀ nm ∈ names, validUtf8 nm = true) (i : Nat) (hi : i < es.length) :
    getSymbolD (Spec.elfStructs ⟨le, cls, m, sol, core⟩) env data h strOff i
      = getSymbol (Spec.elfStructs ⟨le, cls, m, sol, core⟩) env data h strOff i := by
  rw [layout_getSymbolD env m sol core L i hi, layout_getSymbol env m sol core L i hi, map_utf8Replace_valid names hv]

/-! ### System V hash lookups over reported names -/

section sysv
variable (names : List Bytes) (t : SysVTable) (getSym : Nat → R Symbol) (sym : Nat → Symbol) (name : Bytes)

/-- soundness for reported names: whatever is returned is a symbol `1 ≤ j < n` whose REPORTED name is the
    requested one (`hname`: symbol `j` is reported with `utf8Replace` of its bytes) -/
theorem sysv_sound_decoded (hwf : WFSysV names t = true) (hget : ∀ j, j < names.length → getSym j = .ok (sym j))
    (hname : ∀ j, j < names.length → (sym j).2 = utf8Replace (names.getD j [])) :
    ∃ r, elfHashGetSymbol (sysvParams t) getSym name = .ok r ∧
      ∀ s, r = some s → ∃ j, 1 ≤ j ∧ j < names.length ∧ utf8Replace (names.getD j []) = name ∧ s = sym j := by
  obtain ⟨l, hl, heq⟩ := elfHashGetSymbol_eq names t getSym sym name hwf hget
  refine ⟨_, heq, ?_⟩
  intro s hs
  obtain ⟨j, hj, rfl⟩ := Option.map_eq_some_iff.mp hs
  have hmem := List.mem_of_find?_eq_some hj
  have hp := List.find?_some hj
  have F := WFSysV_facts hwf
  have hb : (elfHash32 name).toNat % t.nbucket < t.buckets.length := by rw [F.blen]; exact Nat.mod_lt _ F.nb
  simp only [sysvBucketChain, List.getElem?_eq_getElem hb] at hl
  obtain ⟨h0, hlt⟩ := chainFrom_mem t.chains _ _ l hl j hmem
  rw [F.clen, F.n] at hlt
  refine ⟨j, by omega, hlt, ?_, rfl⟩
  rw [← hname j hlt]; simpa using hp

/-- completeness: a name that is a valid string and is borne (as bytes) by a symbol `1 ≤ i < n` is found —
    a symbol reported under that name is returned -/
theorem sysv_complete_decoded (hwf : WFSysV names t = true) (hget : ∀ j, j < names.length → getSym j = .ok (sym j))
    (hname : ∀ j, j < names.length → (sym j).2 = utf8Replace (names.getD j []))
    (hvalid : validUtf8 name = true)
    (i : Nat) (hi1 : 1 ≤ i) (hin : i < names.length) (hnm : names.getD i [] = name) :
    ∃ j, 1 ≤ j ∧ j < names.length ∧ utf8Replace (names.getD j []) = name ∧
      elfHashGetSymbol (sysvParams t) getSym name = .ok (some (sym j)) := by
  obtain ⟨l, hl, heq⟩ := elfHashGetSymbol_eq names t getSym sym name hwf hget
  have F := WFSysV_facts hwf
  obtain ⟨l', hl', himem⟩ := F.hashed i hi1 hin
  rw [hnm, hl] at hl'
  have hll : l = l' := Option.some.inj hl'
  subst hll
  have hpi : decide ((sym i).2 = name) = true := by
    rw [hname i hin, hnm, utf8Replace_of_valid name.length name (Nat.le_refl _) hvalid]; simp
  cases hf : l.find? (fun j => decide ((sym j).2 = name)) with
  | none =>
    have := List.find?_eq_none.mp hf i himem
    rw [hpi] at this; exact absurd rfl this
  | some j =>
    obtain ⟨r, hr, hsound⟩ := sysv_sound_decoded names t getSym sym name hwf hget hname
    rw [heq, hf] at hr
    obtain ⟨j', h1, h2, h3, h4⟩ := hsound (sym j) (by rw [← Except.ok.inj hr]; rfl)
    exact ⟨j', h1, h2, h3, by rw [heq, hf]; simp [h4]⟩

/-- a name under which no symbol `1 ≤ i < n` is reported yields `None` -/
theorem sysv_absent_decoded (hwf : WFSysV names t = true) (hget : ∀ j, j < names.length → getSym j = .ok (sym j))
    (hname : ∀ j, j < names.length → (sym j).2 = utf8Replace (names.getD j []))
    (habs : ∀ i, 1 ≤ i → i < names.length → utf8Replace (names.getD i []) ≠ name) :
    elfHashGetSymbol (sysvParams t) getSym name = .ok none := by
  obtain ⟨r, hr, hsound⟩ := sysv_sound_decoded names t getSym sym name hwf hget hname
  cases r with
  | none => exact hr
  | some s =>
    obtain ⟨j, h1, h2, h3, _⟩ := hsound s rfl
    exact absurd h3 (habs j h1 h2)

end sysv

end PyElf.Proofs.C03D
