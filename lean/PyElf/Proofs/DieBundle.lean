/-
  C04 helper lemmas, part 0: agreement of two struct bundles on the fields the DIE code reads.

  The theorems of the entry / value / unit layers are about a unit context whose bundle `U.S` agrees with the
  standard's `Spec.dwarfStructs c` on these fields (`UnitOK.structs`), not about `U.S = Spec.dwarfStructs c`:
  Props/TieC04 `dwarf_fields` proves exactly this agreement of every REGENERATED bundle, so the section theorems
  (Props/C04 `debug_info_exact`) hold of the model as the driver runs it — with `Model.dwarfStructsFor` — and an
  unrelated struct of the bundle (line program header, CIE, …) may change without touching them.
-/
import PyElf.Core.Bundles
namespace PyElf.Proofs.C04
open PyElf

/-- `S` and `S'` agree on: the form → parser table, the abbreviation declaration, both unit headers, and the
    scalar readers `the_Dwarf_uleb128`, `the_Dwarf_offset`, `the_Dwarf_target_addr`, `the_Dwarf_uint32` -/
structure BundleEq (S S' : DwarfStructs) : Prop where
  forms : S.forms = S'.forms
  decl : S.Dwarf_abbrev_declaration = S'.Dwarf_abbrev_declaration
  cu : S.Dwarf_CU_header = S'.Dwarf_CU_header
  tu : S.Dwarf_TU_header = S'.Dwarf_TU_header
  uleb : S.the_Dwarf_uleb128 = S'.the_Dwarf_uleb128
  offset : S.the_Dwarf_offset = S'.the_Dwarf_offset
  addr : S.the_Dwarf_target_addr = S'.the_Dwarf_target_addr
  u32 : S.the_Dwarf_uint32 = S'.the_Dwarf_uint32

theorem BundleEq.refl (S : DwarfStructs) : BundleEq S S := ⟨rfl, rfl, rfl, rfl, rfl, rfl, rfl, rfl⟩

theorem BundleEq.of_eq {S S' : DwarfStructs} (h : S = S') : BundleEq S S' := h ▸ BundleEq.refl S

/-- `Dwarf_dw_form[f]` agrees -/
theorem BundleEq.form {S S' : DwarfStructs} (h : BundleEq S S') (f : String) : S.form f = S'.form f := by
  unfold DwarfStructs.form; rw [h.forms]

theorem BundleEq.formFn {S S' : DwarfStructs} (h : BundleEq S S') : S.form = S'.form := funext h.form

end PyElf.Proofs.C04
