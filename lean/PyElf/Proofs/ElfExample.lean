/-
  C01, non-vacuity: a concrete description inside `wfZ` (and outside `wf`), with everything the
  hypotheses of the C01 theorems ask for — an ELF32 LSB relocatable file with five sections
  (section 0 carrying the section count and the name-table index by the extended-numbering escapes,
  a SHF_COMPRESSED section whose body is a bare `Elf32_Chdr`, the name table, a symbol table linked
  to it, a section that OVERLAPS the two before it in the file), one segment, entry sizes larger than
  the structures (48 > 40, 40 > 32), two sections bearing the same name, an unnamed `e_machine` code.
  The environment decodes just the codes the example uses.
-/
import PyElf.Proofs.ElfFile
import PyElf.Spec.ElfNoNames
namespace PyElf.Proofs.C01.Ex
open PyElf PyElf.Spec PyElf.Model PyElf.Proofs

def exEnv : Env :=
  ⟨fun t n =>
    if t = "ENUM_EI_CLASS" then (if n = 1 then some "ELFCLASS32" else if n = 2 then some "ELFCLASS64" else none)
    else if t = "ENUM_EI_DATA" then (if n = 1 then some "ELFDATA2LSB" else if n = 2 then some "ELFDATA2MSB" else none)
    else if t = "ENUM_SH_TYPE_BASE" then
      (if n = 0 then some "SHT_NULL" else if n = 1 then some "SHT_PROGBITS" else if n = 2 then some "SHT_SYMTAB"
       else if n = 3 then some "SHT_STRTAB" else none)
    else if t = "ENUM_P_TYPE_BASE" then (if n = 1 then some "PT_LOAD" else if n = 4 then some "PT_NOTE" else none)
    else if t = "ENUM_E_TYPE" then (if n = 4 then some "ET_CORE" else none)
    else none,
   fun _ => none⟩

def exShdr (ty flags off size link entsize : Nat) : Fields :=
  [("sh_type", .int ty), ("sh_flags", .int flags), ("sh_addr", .int 0), ("sh_offset", .int off), ("sh_size", .int size),
   ("sh_link", .int link), ("sh_info", .int 0), ("sh_addralign", .int 1), ("sh_entsize", .int entsize)]

/-- `"\0.a\0.a\0"` -/
def exTab : Bytes := [0, 0x2e, 0x61, 0, 0x2e, 0x61, 0]

def exSecs : List SecDesc :=
  [⟨[], exShdr 0 0 0 5 2 0, none, 0⟩,                                                    -- sh_size = 5 sections, sh_link = 2
   ⟨[0x2e, 0x61], exShdr 1 0x800 332 12 0 0, some [1, 0, 0, 0, 9, 0, 0, 0, 1, 0, 0, 0], 1⟩,  -- ".a", SHF_COMPRESSED, Chdr only
   ⟨[0x2e, 0x61], exShdr 3 0 344 7 0 0, some exTab, 4⟩,                                    -- ".a" again: the name table
   ⟨[], exShdr 2 0 351 0 2 16, none, 0⟩,                                                   -- an empty symbol table → section 2
   ⟨[], exShdr 1 0 334 14 0 0, none, 0⟩]                                                   -- [334, 348): overlaps sections 1 and 2

def exD : ElfDesc :=
  { cls := 32, le := true, mclass := "default", solaris := false, core := false,
    ehdr := [("EI_VERSION", .int 1), ("e_type", .int 1), ("e_machine", .int 0xfe01), ("e_version", .int 1), ("e_ehsize", .int 52)],
    shoff := 52, phoff := 292, shentsize := 48, phentsize := 40,
    sections := exSecs,
    segments := [[("p_type", .int 1), ("p_offset", .int 0), ("p_vaddr", .int 0), ("p_paddr", .int 0), ("p_filesz", .int 0),
                  ("p_memsz", .int 0), ("p_flags", .int 5), ("p_align", .int 4096)]],
    shstrndx := 2, xShnum := true, xShstrndx := true }

/-- the regions of the example, in file order -/
def exRegs : List (Nat × Bytes) :=
  [(0, [127, 69, 76, 70, 1, 1, 1, 0, 0, 0, 0, 0, 0, 0, 0, 0, 1, 0, 1, 254, 1, 0, 0, 0, 0, 0, 0, 0, 36, 1, 0, 0, 52, 0, 0, 0,
        0, 0, 0, 0, 52, 0, 40, 0, 1, 0, 48, 0, 0, 0, 255, 255]),
   (52, [0, 0, 0, 0, 0, 0, 0, 0, 0, 0, 0, 0, 0, 0, 0, 0, 0, 0, 0, 0, 5, 0, 0, 0, 2, 0, 0, 0, 0, 0, 0, 0, 1, 0, 0, 0, 0, 0, 0, 0]),
   (100, [1, 0, 0, 0, 1, 0, 0, 0, 0, 8, 0, 0, 0, 0, 0, 0, 76, 1, 0, 0, 12, 0, 0, 0, 0, 0, 0, 0, 0, 0, 0, 0, 1, 0, 0, 0, 0, 0, 0, 0]),
   (148, [4, 0, 0, 0, 3, 0, 0, 0, 0, 0, 0, 0, 0, 0, 0, 0, 88, 1, 0, 0, 7, 0, 0, 0, 0, 0, 0, 0, 0, 0, 0, 0, 1, 0, 0, 0, 0, 0, 0, 0]),
   (196, [0, 0, 0, 0, 2, 0, 0, 0, 0, 0, 0, 0, 0, 0, 0, 0, 95, 1, 0, 0, 0, 0, 0, 0, 2, 0, 0, 0, 0, 0, 0, 0, 1, 0, 0, 0, 16, 0, 0, 0]),
   (244, [0, 0, 0, 0, 1, 0, 0, 0, 0, 0, 0, 0, 0, 0, 0, 0, 78, 1, 0, 0, 14, 0, 0, 0, 0, 0, 0, 0, 0, 0, 0, 0, 1, 0, 0, 0, 0, 0, 0, 0]),
   (292, [1, 0, 0, 0, 0, 0, 0, 0, 0, 0, 0, 0, 0, 0, 0, 0, 0, 0, 0, 0, 0, 0, 0, 0, 5, 0, 0, 0, 0, 16, 0, 0]),
   (332, [1, 0, 0, 0, 9, 0, 0, 0, 1, 0, 0, 0]),
   (344, [0, 46, 97, 0, 46, 97, 0])]

def exObsHdr (nm : Nat) (ty : String) (flags off size link entsize : Nat) : Val :=
  .record [("sh_name", .int nm), ("sh_type", .str ty), ("sh_flags", .int flags), ("sh_addr", .int 0), ("sh_offset", .int off),
           ("sh_size", .int size), ("sh_link", .int link), ("sh_info", .int 0), ("sh_addralign", .int 1), ("sh_entsize", .int entsize)]

/-- the decoded section headers of the example -/
def exHdrs : List Val :=
  [exObsHdr 0 "SHT_NULL" 0 0 5 2 0, exObsHdr 1 "SHT_PROGBITS" 2048 332 12 0 0, exObsHdr 4 "SHT_STRTAB" 0 344 7 0 0,
   exObsHdr 0 "SHT_SYMTAB" 0 351 0 2 16, exObsHdr 0 "SHT_PROGBITS" 0 334 14 0 0]

theorem exD_regions : exD.regions = some exRegs := by
  simp [ElfDesc.regions, ElfDesc.S, ElfDesc.cfg, ElfDesc.ehdrRaw, exD, exSecs, elfStructs, st, mkFields, f, anon, enumOf, lit,
    Expr.litNat?, SecDesc.raw, exShdr, exTab, exRegs, Con.encodeRaw, ConFields.encodeRaw, Con.encodeRawList, Fields.get?,
    encNat, natLE, getNatD, List.range, List.range.loop]

theorem exRegs_sorted : sortRegions exRegs = exRegs :=
  List.mergeSort_of_pairwise (by simp [exRegs])

theorem exD_decHdr (i : Nat) : exD.decHdr exEnv i = exHdrs[i]? := by
  match i with
  | 0 | 1 | 2 | 3 | 4 =>
    simp [ElfDesc.decHdr, ElfDesc.S, ElfDesc.cfg, exD, exSecs, elfStructs, st, mkFields, f, enumOf, SecDesc.raw, exShdr, exHdrs,
      exObsHdr, Con.decodeRaw, ConFields.decodeRaw, Fields.get?, Fields.set, exEnv, shTypeTable, Except.toOption, bind,
      Except.bind, pure, Except.pure]
  | n + 5 => simp [ElfDesc.decHdr, exD, exSecs, exHdrs]

theorem exD_secs (i : Nat) (hi : i < 5) : exD.secOkZ exEnv 4 i = true := by
  have hsec : exD.sections = exSecs := rfl
  have hcls : exD.cls = 32 := rfl
  match i, hi with
  | 0, _ | 1, _ | 2, _ | 3, _ | 4, _ =>
    simp [ElfDesc.secOkZ, exD_decHdr, exHdrs, exObsHdr, hsec, exSecs, hcls, fieldNat, typeIn, Val.getField, Fields.getR,
      Fields.get?, bodyOf]

/-- the compressed section keeps the example outside `wf` -/
theorem exD_sec1_not_secOk : exD.secOk exEnv 4 1 = false := by
  have hsec : exD.sections = exSecs := rfl
  simp [ElfDesc.secOk, exD_decHdr, exHdrs, exObsHdr, hsec, exSecs, fieldNat, Val.getField, Fields.getR, Fields.get?]

theorem exD_cfgOk : exD.cfgOk exEnv = true := by
  simp [ElfDesc.cfgOk, ElfDesc.S, ElfDesc.cfg, ElfDesc.ehdrRaw, exD, elfStructs, st, mkFields, f, anon, enumOf, lit, Expr.litNat?,
    Con.decodeRaw, ConFields.decodeRaw, Con.decodeRawList, Fields.get?, Fields.set, exEnv, Except.toOption, bind, Except.bind,
    pure, Except.pure, Val.getField, Fields.getR]

theorem exD_wfZ : exD.wfZ exEnv = true := by
  have hn : exD.sections.length = 5 := rfl
  have hm : exD.segments.length = 1 := rfl
  have h1 : exD.escapesOk = true := by decide +kernel
  have h2 : exD.namesOk = true := by decide +kernel
  have h3 : exD.S.Elf_Shdr.sizeof = some 40 := dS_shdr_sizeof exD
  have h4 : exD.S.Elf_Phdr.sizeof = some 32 := by
    simp [ElfDesc.S, ElfDesc.cfg, exD, elfStructs, st, mkFields, f, enumOf, Con.sizeof, ConFields.sizeof]
  have h5 : (List.range 5).all (fun i => exD.secOkZ exEnv 4 i) = true := by
    simp only [List.all_eq_true, List.mem_range]
    exact exD_secs
  have h6 : regionsDisjoint exRegs = true := by decide +kernel
  have h8 : machineClasses.contains exD.mclass = true := by decide +kernel
  unfold ElfDesc.wfZ
  simp only [exD_regions, exRegs_sorted, exD_cfgOk, hn, hm, h1, h2, h3, h4, h5, h6, h8]
  decide

theorem exD_not_wf : exD.wf exEnv = false := by
  cases hw : exD.wf exEnv with
  | false => rfl
  | true =>
    exfalso
    unfold ElfDesc.wf at hw
    simp only [Bool.and_eq_true, List.all_eq_true, List.mem_range] at hw
    have := hw.1.2 1 (by decide)
    rw [exD_sec1_not_secOk] at this
    cases this

theorem exD_assembles : ∃ bytes, exD.assemble 0 = some bytes := by
  unfold ElfDesc.assemble
  rw [exD_regions]
  exact ⟨_, rfl⟩

theorem exD_observes : ∃ obs, exD.observe exEnv = .ok obs := by
  cases h : exD.observe exEnv with
  | ok o => exact ⟨o, rfl⟩
  | error e =>
    exfalso
    simp [ElfDesc.observe, ElfDesc.S, ElfDesc.cfg, ElfDesc.ehdrRaw, exD, exSecs, elfStructs, st, mkFields, f, anon, enumOf, lit,
      Expr.litNat?, SecDesc.raw, exShdr, Con.decodeRaw, ConFields.decodeRaw, Con.decodeRawList, Fields.get?, Fields.set, exEnv,
      shTypeTable, pTypeTable, bind, Except.bind, pure, Except.pure, Val.getField, Fields.getR, List.mapM_cons, List.mapM_nil] at h

/-- the name borne by two sections designates the last of them -/
theorem exD_lookup : exD.indexOfName [0x2e, 0x61] = some 2 := by decide +kernel

/-! ### a core file shaped like the Linux kernel's for ≥ 0xffff segments (`Spec.C01.extnumOnly`)

  ELF32 LSB, `e_type` = ET_CORE, one SHT_NULL section header whose `sh_info` carries the segment count
  (PN_XNUM used although 2 would fit), `e_shnum` = 1, `e_shstrndx` = SHN_UNDEF, a PT_NOTE and a PT_LOAD
  segment.  It has no name table; its one section is nameless: inside `wf` (and `wfZ`) since the repair
  of the finding `no-name-table` (`exC_wf`). -/

def exC : ElfDesc :=
  { cls := 32, le := true, mclass := "default", solaris := false, core := true,
    ehdr := [("EI_VERSION", .int 1), ("e_type", .int 4), ("e_machine", .int 0xfe01), ("e_version", .int 1), ("e_ehsize", .int 52)],
    shoff := 52, phoff := 92, shentsize := 40, phentsize := 32,
    sections := [⟨[], [("sh_type", .int 0), ("sh_flags", .int 0), ("sh_addr", .int 0), ("sh_offset", .int 0), ("sh_size", .int 1),
                       ("sh_link", .int 0), ("sh_info", .int 2), ("sh_addralign", .int 0), ("sh_entsize", .int 0)], none, 0⟩],
    segments := [[("p_type", .int 4), ("p_offset", .int 156), ("p_vaddr", .int 0), ("p_paddr", .int 0), ("p_filesz", .int 0),
                  ("p_memsz", .int 0), ("p_flags", .int 0), ("p_align", .int 0)],
                 [("p_type", .int 1), ("p_offset", .int 4096), ("p_vaddr", .int 0x8048000), ("p_paddr", .int 0), ("p_filesz", .int 0),
                  ("p_memsz", .int 4096), ("p_flags", .int 5), ("p_align", .int 4096)]],
    shstrndx := 0, xPhnum := true }

def exCRegs : List (Nat × Bytes) :=
  [(0, [127, 69, 76, 70, 1, 1, 1, 0, 0, 0, 0, 0, 0, 0, 0, 0, 4, 0, 1, 254, 1, 0, 0, 0, 0, 0, 0, 0, 92, 0, 0, 0, 52, 0, 0, 0,
        0, 0, 0, 0, 52, 0, 32, 0, 255, 255, 40, 0, 1, 0, 0, 0]),
   (52, [0, 0, 0, 0, 0, 0, 0, 0, 0, 0, 0, 0, 0, 0, 0, 0, 0, 0, 0, 0, 1, 0, 0, 0, 0, 0, 0, 0, 2, 0, 0, 0, 0, 0, 0, 0, 0, 0, 0, 0]),
   (92, [4, 0, 0, 0, 156, 0, 0, 0, 0, 0, 0, 0, 0, 0, 0, 0, 0, 0, 0, 0, 0, 0, 0, 0, 0, 0, 0, 0, 0, 0, 0, 0]),
   (124, [1, 0, 0, 0, 0, 16, 0, 0, 0, 128, 4, 8, 0, 0, 0, 0, 0, 0, 0, 0, 0, 16, 0, 0, 5, 0, 0, 0, 0, 16, 0, 0])]

theorem exC_regions : exC.regions = some exCRegs := by
  simp [ElfDesc.regions, ElfDesc.S, ElfDesc.cfg, ElfDesc.ehdrRaw, exC, elfStructs, st, mkFields, f, anon, enumOf, lit,
    Expr.litNat?, SecDesc.raw, exCRegs, Con.encodeRaw, ConFields.encodeRaw, Con.encodeRawList, Fields.get?,
    encNat, natLE, getNatD, List.range, List.range.loop]

theorem exC_cfgOk : exC.cfgOk exEnv = true := by
  simp [ElfDesc.cfgOk, ElfDesc.S, ElfDesc.cfg, ElfDesc.ehdrRaw, exC, elfStructs, st, mkFields, f, anon, enumOf, lit, Expr.litNat?,
    Con.decodeRaw, ConFields.decodeRaw, Con.decodeRawList, Fields.get?, Fields.set, exEnv, Except.toOption, bind, Except.bind,
    pure, Except.pure, Val.getField, Fields.getR]

theorem exC_extnumOnly : Spec.C01.extnumOnly exEnv exC = true := by
  have h1 : exC.escapesOk = true := by decide +kernel
  have h3 : exC.S.Elf_Shdr.sizeof = some 40 := dS_shdr_sizeof exC
  have h4 : exC.S.Elf_Phdr.sizeof = some 32 := by
    simp [ElfDesc.S, ElfDesc.cfg, exC, elfStructs, st, mkFields, f, enumOf, Con.sizeof, ConFields.sizeof]
  have hsec : exC.sections = [⟨[], [("sh_type", .int 0), ("sh_flags", .int 0), ("sh_addr", .int 0), ("sh_offset", .int 0),
      ("sh_size", .int 1), ("sh_link", .int 0), ("sh_info", .int 2), ("sh_addralign", .int 0), ("sh_entsize", .int 0)], none, 0⟩] := rfl
  have hdec : exC.S.Elf_Shdr.decodeRaw exEnv [] (SecDesc.raw ⟨[], [("sh_type", .int 0), ("sh_flags", .int 0), ("sh_addr", .int 0),
      ("sh_offset", .int 0), ("sh_size", .int 1), ("sh_link", .int 0), ("sh_info", .int 2), ("sh_addralign", .int 0),
      ("sh_entsize", .int 0)], none, 0⟩)
      = .ok (.record [("sh_name", .int 0), ("sh_type", .str "SHT_NULL"), ("sh_flags", .int 0), ("sh_addr", .int 0),
          ("sh_offset", .int 0), ("sh_size", .int 1), ("sh_link", .int 0), ("sh_info", .int 2), ("sh_addralign", .int 0),
          ("sh_entsize", .int 0)]) := by
    simp [ElfDesc.S, ElfDesc.cfg, exC, elfStructs, st, mkFields, f, enumOf, SecDesc.raw, Con.decodeRaw, ConFields.decodeRaw,
      Fields.get?, Fields.set, exEnv, shTypeTable, bind, Except.bind, pure, Except.pure]
  unfold Spec.C01.extnumOnly
  rw [hsec]
  simp only [hdec, exC_cfgOk, h1, h3, h4]
  simp [exC, typeIn, fieldNat, Val.getField, Fields.getR, Fields.get?]

theorem exC_decHdr0 : exC.decHdr exEnv 0
    = some (.record [("sh_name", .int 0), ("sh_type", .str "SHT_NULL"), ("sh_flags", .int 0), ("sh_addr", .int 0),
        ("sh_offset", .int 0), ("sh_size", .int 1), ("sh_link", .int 0), ("sh_info", .int 2), ("sh_addralign", .int 0),
        ("sh_entsize", .int 0)]) := by
  simp [ElfDesc.decHdr, ElfDesc.S, ElfDesc.cfg, exC, elfStructs, st, mkFields, f, enumOf, SecDesc.raw, Con.decodeRaw,
    ConFields.decodeRaw, Fields.get?, Fields.set, exEnv, shTypeTable, Except.toOption, bind, Except.bind, pure, Except.pure]

/-- … and it is a well-formed description: a file without a name table (`e_shstrndx` = SHN_UNDEF),
    its one section nameless — the general theorems (`*_exact`) apply to it as well -/
theorem exC_wf : exC.wf exEnv = true := by
  have hn : exC.sections.length = 1 := rfl
  have hm : exC.segments.length = 2 := rfl
  have h1 : exC.escapesOk = true := by decide +kernel
  have h2 : exC.namesOk = true := by decide +kernel
  have h3 : exC.S.Elf_Shdr.sizeof = some 40 := dS_shdr_sizeof exC
  have h4 : exC.S.Elf_Phdr.sizeof = some 32 := by
    simp [ElfDesc.S, ElfDesc.cfg, exC, elfStructs, st, mkFields, f, enumOf, Con.sizeof, ConFields.sizeof]
  have h5 : (List.range 1).all (fun i => exC.secOk exEnv 4 i) = true := by
    have hsec : exC.sections[0]? = some ⟨[], [("sh_type", .int 0), ("sh_flags", .int 0), ("sh_addr", .int 0), ("sh_offset", .int 0),
      ("sh_size", .int 1), ("sh_link", .int 0), ("sh_info", .int 2), ("sh_addralign", .int 0), ("sh_entsize", .int 0)], none, 0⟩ := rfl
    simp [List.range, List.range.loop, ElfDesc.secOk, exC_decHdr0, hsec, fieldNat, typeIn, Val.getField, Fields.getR, Fields.get?]
  have hs : sortRegions exCRegs = exCRegs := List.mergeSort_of_pairwise (by simp [exCRegs])
  have h6 : regionsDisjoint exCRegs = true := by decide +kernel
  have h8 : machineClasses.contains exC.mclass = true := by decide +kernel
  have h9 : exC.shstrndx = 0 := rfl
  unfold ElfDesc.wf
  simp only [exC_regions, hs, exC_cfgOk, hn, hm, h1, h2, h3, h4, h5, h6, h8, h9]
  decide

/-- laying out disjoint regions gives a layout (the part of `assemble_layout` that needs no `wfZ`) -/
theorem layout_of_disjoint {d : ElfDesc} {rs : List (Nat × Bytes)} {tail : Nat} {bytes : Bytes}
    (hrs : d.regions = some rs) (hdisj : regionsDisjoint (sortRegions rs) = true)
    (h : d.assemble tail = some bytes) : Layout d bytes := by
  unfold ElfDesc.assemble at h
  simp only [hrs, Option.bind_eq_bind, Option.bind_some, Option.pure_def, Option.some.injEq] at h
  subst h
  refine ⟨rs, hrs, ?_⟩
  intro r hr
  have hmem : r ∈ sortRegions rs := by
    unfold sortRegions
    exact (List.mergeSort_perm rs _).mem_iff.2 hr
  apply readN_append_right_pad
  exact layOut_reads (sortRegions rs) [] hdisj (fun _ _ => Nat.zero_le _) r hmem

theorem exC_layout : ∃ bytes, Layout exC bytes := by
  have hs : sortRegions exCRegs = exCRegs := List.mergeSort_of_pairwise (by simp [exCRegs])
  have hd : regionsDisjoint (sortRegions exCRegs) = true := by rw [hs]; decide +kernel
  have ha : ∃ bytes, exC.assemble 0 = some bytes := by
    unfold ElfDesc.assemble
    rw [exC_regions]
    exact ⟨_, rfl⟩
  obtain ⟨bytes, hb⟩ := ha
  exact ⟨bytes, layout_of_disjoint exC_regions hd hb⟩

theorem exC_observes : ∃ obs, exC.observe exEnv = .ok obs := by
  cases h : exC.observe exEnv with
  | ok o => exact ⟨o, rfl⟩
  | error e =>
    exfalso
    simp [ElfDesc.observe, ElfDesc.S, ElfDesc.cfg, ElfDesc.ehdrRaw, exC, elfStructs, st, mkFields, f, anon, enumOf, lit,
      Expr.litNat?, SecDesc.raw, Con.decodeRaw, ConFields.decodeRaw, Con.decodeRawList, Fields.get?, Fields.set, exEnv,
      shTypeTable, pTypeTable, bind, Except.bind, pure, Except.pure, Val.getField, Fields.getR, List.mapM_cons, List.mapM_nil] at h

end PyElf.Proofs.C01.Ex
