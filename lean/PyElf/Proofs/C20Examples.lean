/-
  C20, concrete objects for the non-vacuity of the whole-file theorems: a 32-bit little-endian ARM
  shared object with an `.ARM.attributes` section, an `.ARM.extab` section holding two handler-table
  entries 4 bytes in, an `.ARM.exidx` section of four entries placed AFTER it (negative table
  references), a second, later section that also bears the name `.ARM.attributes`, and a RISC-V
  big-endian executable.  Bodies come from the Spec encoders; offsets are computed from their lengths.
-/
import PyElf.Spec.C20File
import PyElf.Spec.AttrMalformed
namespace PyElf.Proofs.C20
open PyElf PyElf.Spec PyElf.Spec.C20

def exShdr (ty flags off size link : Nat) : Fields :=
  [("sh_type", .int ty), ("sh_flags", .int flags), ("sh_addr", .int 0), ("sh_offset", .int off), ("sh_size", .int size),
   ("sh_link", .int link), ("sh_info", .int 0), ("sh_addralign", .int 4), ("sh_entsize", .int 0)]

/-- two vendor subsections, file / section / symbol scopes, padded ULEB128s, NTBS, compatibility, nested tag -/
def exArmSec : Attr.Section :=
  [⟨[0x61, 0x65, 0x61, 0x62, 0x69], [⟨⟨1, 1⟩, [], [⟨⟨6, 1⟩, .simple (.int ⟨10, 2⟩)⟩, ⟨⟨5, 1⟩, .simple (.str [0x41, 0x39])⟩]⟩]⟩,
   ⟨[0x67], [⟨⟨2, 1⟩, [⟨1, 1⟩, ⟨300, 3⟩], [⟨⟨32, 1⟩, .compat ⟨1, 1⟩ [0x67]⟩]⟩,
             ⟨⟨3, 2⟩, [], [⟨⟨65, 1⟩, .also ⟨6, 1⟩ (.int ⟨3, 1⟩)⟩]⟩]⟩]

def exArmSec2 : Attr.Section := [⟨[0x62], [⟨⟨1, 1⟩, [], [⟨⟨7, 1⟩, .simple (.int ⟨65, 1⟩)⟩]⟩]⟩]

def exEntries : List Ehabi.Entry :=
  [.cantUnwind (-0x100), .inline 0x40 0x97 0x84 0x08,
   .table (-4) (.long 1 0xb2 0x81 [[0x01, 0xb0, 0xb0, 0xb0]]), .table 8 (.generic (-0x200))]

/-- ".ARM.attributes", ".x", ".i", ".s" at 1, 17, 20, 23 of the section-name table -/
def nAttr : Bytes := [0x2e, 0x41, 0x52, 0x4d, 0x2e, 0x61, 0x74, 0x74, 0x72, 0x69, 0x62, 0x75, 0x74, 0x65, 0x73]
def nExtab : Bytes := [0x2e, 0x78]
def nExidx : Bytes := [0x2e, 0x69]
def nStr : Bytes := [0x2e, 0x73]
def exNameTab : Bytes := [0] ++ nAttr ++ [0] ++ nExtab ++ [0] ++ nExidx ++ [0] ++ nStr ++ [0]

def exArmFile : ElfDesc :=
  let attr := Attr.encSection true exArmSec
  let attr2 := Attr.encSection true exArmSec2
  let aOff := 320
  let xOff := aOff + attr.length + 3
  let xpre := 4
  let extab := [0xde, 0xad, 0xbe, 0xef] ++ Ehabi.encWords true (tableWordsOf exEntries) ++ [0x55]
  let iOff := xOff + extab.length + 1
  let exidx := Ehabi.encExidxFrom true iOff exEntries (Ehabi.tableOffsets (xOff + xpre) exEntries)
  let a2Off := iOff + exidx.length + 2
  let sOff := a2Off + attr2.length
  { cls := 32, le := true, mclass := "EM_ARM", solaris := false, core := false,
    ehdr := [("EI_VERSION", .int 1), ("EI_OSABI", .int 0), ("EI_ABIVERSION", .int 0), ("e_type", .int 3),
             ("e_machine", .int 40), ("e_version", .int 1), ("e_entry", .int 0), ("e_flags", .int 0),
             ("e_ehsize", .int 52)],
    shoff := 56, phoff := 0, shentsize := 40, phentsize := 0,
    sections :=
      [⟨[], exShdr 0 0 0 0 0, none, 0⟩,
       ⟨nAttr, exShdr 0x70000003 0 aOff attr.length 0, some attr, 1⟩,
       ⟨nExtab, exShdr 1 2 xOff extab.length 0, some extab, 17⟩,
       ⟨nExidx, exShdr 0x70000001 0x82 iOff exidx.length 2, some exidx, 20⟩,
       ⟨nAttr, exShdr 0x70000003 0 a2Off attr2.length 0, some attr2, 1⟩,
       ⟨nStr, exShdr 3 0 sOff exNameTab.length 0, some exNameTab, 23⟩],
    segments := [], shstrndx := 5 }

def exRiscvSec : Attr.Section :=
  [⟨[0x72, 0x69, 0x73, 0x63, 0x76], [⟨⟨1, 1⟩, [], [⟨⟨5, 1⟩, .simple (.str [0x72, 0x76])⟩, ⟨⟨4, 2⟩, .simple (.int ⟨16, 1⟩)⟩]⟩]⟩]

def exRiscvFile : ElfDesc :=
  let attr := Attr.encSection false exRiscvSec
  { cls := 64, le := false, mclass := "EM_RISCV", solaris := false, core := false,
    ehdr := [("EI_VERSION", .int 1), ("EI_OSABI", .int 0), ("EI_ABIVERSION", .int 0), ("e_type", .int 2),
             ("e_machine", .int 243), ("e_version", .int 1), ("e_entry", .int 0), ("e_flags", .int 0),
             ("e_ehsize", .int 64)],
    shoff := 400, phoff := 0, shentsize := 64, phentsize := 0,
    sections :=
      [⟨[], exShdr 0 0 0 0 0, none, 0⟩,
       ⟨nStr, exShdr 3 0 70 exNameTab.length 0, some exNameTab, 23⟩,
       ⟨nAttr, exShdr 0x70000003 0 200 attr.length 0, some attr, 1⟩],
    segments := [], shstrndx := 1 }

/-- an attribute with tag 33 (not an ARM public tag) after a well-formed one, in the second
    sub-subsection of the second subsection; a (well-formed) subsection after it -/
def exUnknownTagSec : Attr.Section :=
  [⟨[0x61], [⟨⟨1, 1⟩, [], [⟨⟨6, 1⟩, .simple (.int ⟨10, 2⟩)⟩]⟩]⟩,
   ⟨[0x62], [⟨⟨1, 1⟩, [], []⟩,
             ⟨⟨2, 1⟩, [⟨7, 1⟩], [⟨⟨8, 1⟩, .simple (.int ⟨1, 1⟩)⟩, ⟨⟨33, 2⟩, .simple (.int ⟨5, 1⟩)⟩, ⟨⟨9, 1⟩, .simple (.int ⟨2, 1⟩)⟩]⟩]⟩,
   ⟨[0x63], [⟨⟨1, 1⟩, [], []⟩]⟩]

end PyElf.Proofs.C20
