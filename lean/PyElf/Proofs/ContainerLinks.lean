/-
  C11 helper lemmas: links between files at the level of abstract ELF descriptions — the
  `.gnu_debuglink` of a stripped file (description-level, through C01), the supplementary file of a
  file whose content carries relocations, and their composition.
-/
import PyElf.Proofs.ContainerRelocFile
namespace PyElf.Proofs.C11
open PyElf PyElf.Spec PyElf.Model PyElf.Model.C11 PyElf.Spec.C11 PyElf.Proofs PyElf.Proofs.Reloc

/-- the description has a `.gnu_debuglink` section (the last one of that name) whose body is the
    Spec encoding of (file name, CRC), possibly followed by junk -/
def DebuglinkD (deflate : Nat → Bytes → Bytes) (d : ElfDesc) (obs : ElfObs) (filename : Bytes) (crc : Nat) : Prop :=
  ∃ (i : Nat) (sd : SecDesc) (sec : Sec) (addr off : Nat) (junk : Bytes),
    d.indexOfName nGnuDebuglink = some i ∧ d.sections[i]? = some sd ∧ obs.sections[i]? = some sec ∧
    StoresD deflate d sd sec.hdr .plain (encDebuglink d.le filename crc ++ junk) addr off ∧
    (∀ b ∈ filename, b ≠ 0) ∧ crc < 2 ^ 32

/-- `get_dwarf_info` on a stripped file with a debug link, a loader that has the target, links on:
    the CRC-32 of the target is compared with the recorded one; on a match the result is the
    target's own `get_dwarf_info` (same loader, links on), otherwise ELFError -/
theorem dwarfView_debuglink_desc {P : Params} {deflate : Nat → Bytes → Bytes} {d : ElfDesc} {bytes : Bytes} {obs : ElfObs}
    {f : ElfFile} (hop : Opened P d bytes obs f) (hL : LayoutFacts d bytes) (ho : d.observe P.env = .ok obs)
    (fuel : Nat) (ld : Loader) (relocate : Bool) (filename ext : Bytes) (crc : Nat)
    (h : DebuglinkD deflate d obs filename crc) (hno : hasDwarfInfo obs.sections true = false)
    (hfile : ld filename = some ext) :
    dwarfView P (fuel + 1) (some ld) bytes relocate true =
      if P.X.crc32 ext ≠ crc then .error (.py .elfError) else dwarfView P fuel (some ld) ext relocate true := by
  obtain ⟨i, sd, sec, addr, off, junk, hidx, hsd, hsec, hst, hnul, hcrc⟩ := h
  have hget : getSectionByName obs.sections nGnuDebuglink = some sec := by
    rw [getSectionByName_obs ho, hidx]; exact hsec
  obtain ⟨ty, rest, flags, hp, -⟩ := stores_of_desc hL ho hsd hsec hst
  simp only [Enc.body] at hp
  have hS : f.S.Gnu_debuglink = debuglinkCon f.le := by rw [hop.hS, hop.hle]; rfl
  have hd : f.data.drop off = encDebuglink f.le filename crc ++ (junk ++ rest) := by
    rw [hop.hdata, hop.hle, hp.hdata, List.append_assoc]
  have hlt : off < 2 ^ 63 := by have := hp.hbound; omega
  rw [dwarfView_loaded P fuel (some ld) bytes relocate true f obs.sections hop.load,
    core_linked P _ ld f obs.sections relocate sec filename crc (linkTarget_some obs.sections sec ld hget hno)
      (parse_debuglink P.env f.S f.le hS f.data sec off filename crc (junk ++ rest) hp.hoff hlt hnul hcrc hd)]
  simp only [hfile, dwarfView]
  split <;> simp [fail, Except.map]

/-- the supplementary file, end to end, for opened byte strings that carry descriptions storing
    contents with relocations -/
theorem view_with_sup_opened_relocated {P : Params} {deflate : Nat → Bytes → Bytes}
    {d dS : ElfDesc} {bytes bytesS : Bytes} {obs obsS : ElfObs} {f fs : ElfFile}
    (hop : Opened P d bytes obs f) (hops : OpenedSecs P d bytes obs f)
    (hopS : Opened P dS bytesS obsS fs) (hopsS : OpenedSecs P dS bytesS obsS fs)
    (hL : LayoutFacts d bytes) (ho : d.observe P.env = .ok obs)
    (hLS : LayoutFacts dS bytesS) (hoS : dS.observe P.env = .ok obsS)
    (hcls : d.cls = 32 ∨ d.cls = 64) (hclsS : dS.cls = 32 ∨ dS.cls = 64)
    (henv : P.env.enumDecode "ENUM_ELFCOMPRESS_TYPE" 1 = some "ELFCOMPRESS_ZLIB") (hz : ZlibOk P.X deflate)
    (hph : hasPhantomBytes obs.header = .ok false) (hphS : hasPhantomBytes obsS.header = .ok false)
    (hk1 : "debug_sup_sec" ∈ P.names.map (·.1)) (hk2 : "gnu_debugaltlink_sec" ∈ P.names.map (·.1))
    (hDS : ∃ DS, P.dwarfStructsFor ⟨d.le, 32, d.cls / 8, 2⟩ = some DS ∧
      DS.Dwarf_debugaltlink = altlinkCon ∧ DS.Dwarf_debugsup = debugsupCon d.le)
    (hDSS : ∃ DS, P.dwarfStructsFor ⟨dS.le, 32, dS.cls / 8, 2⟩ = some DS ∧
      DS.Dwarf_debugaltlink = altlinkCon ∧ DS.Dwarf_debugsup = debugsupCon dS.le)
    (fuel : Nat) (ld : Loader) (relocate : Bool) (a aS : Arch) (cr crS : ContentR) (m mS : Val)
    (hm : obs.header.getField "e_machine" = .ok m) (hmS : obsS.header.getField "e_machine" = .ok mS)
    (harch : P.machineArchOf m = archString a) (harchS : P.machineArchOf mS = archString aS)
    (hmips : decide (d.mclass = "EM_MIPS") = decide (a = .mips))
    (hmipsS : decide (dS.mclass = "EM_MIPS") = decide (aS = .mips))
    {allowed allowedS : Enc → Prop}
    (hh : HoldsRD P.names deflate d obs relocate a cr allowed)
    (hhS : HoldsRD P.names deflate dS obsS true aS crS allowedS)
    (hlink : linkTarget obs.sections (some ld) true = none)
    (path : Bytes) (hsl : SupLink d.le (relocatedContent a (relCfgOf d.cfg) relocate cr) (some path))
    (hld : ld path = some bytesS)
    (pS : Option Bytes) (hslS : SupLink dS.le (relocatedContent aS (relCfgOf dS.cfg) true crS) pS) :
    dwarfView P (fuel + 2) (some ld) bytes relocate true
      = .ok (.mk d.le (d.cls / 8) (P.machineArchOf m)
          (contentView P.names (relocatedContent a (relCfgOf d.cfg) relocate cr))
          (some (.mk dS.le (dS.cls / 8) (P.machineArchOf mS)
            (contentView P.names (relocatedContent aS (relCfgOf dS.cfg) true crS)) none))) := by
  have hf : FileOk P deflate f := hop.fileOk hcls henv hz hph
  have hfs : FileOk P deflate fs := hopS.fileOk hclsS henv hz hphS
  have hs : SupOk P f := ⟨hk1, hk2, by rw [hop.hle, hop.hcls]; exact hDS⟩
  have hss : SupOk P fs := ⟨hk1, hk2, by rw [hopS.hle, hopS.hcls]; exact hDSS⟩
  have hr := relocEnv_of_desc hops hcls a hmips m hm harch
  have hrS := relocEnv_of_desc hopsS hclsS aS hmipsS mS hmS harchS
  have hreads := (holdsR_of_desc hL ho hops hcls hh).reads hf hr
  have hreadsS := (holdsR_of_desc hLS hoS hopsS hclsS hhS).reads hfs hrS
  rw [dwarfView_loaded P (fuel + 1) (some ld) bytes relocate true f obs.sections hop.load,
    core_with_sup_reads hs hss fuel ld obs.sections obsS.sections relocate _ _ m mS
      (by rw [hop.hheader]; exact hm) (by rw [hopS.hheader]; exact hmS) hreads hlink path bytesS
      (by rw [hop.hle]; exact hsl) hld hopS.load hreadsS pS (by rw [hopS.hle]; exact hslS),
    hop.hle, hop.hcls, hopS.hle, hopS.hcls]

end PyElf.Proofs.C11
