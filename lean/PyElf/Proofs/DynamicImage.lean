/-
  C09 helper lemmas: the two layouts of a `DynDesc` as C01 images.  The
  container of each layout is an `ElfDesc`; C01's theorems (`open_exact`,
  `counts_exact`, `get_section_exact`, `segments_exact`) then give what
  `ELFFile` hands to dynamic.py, and the dynamic tables sit where the
  description puts them.  From that: the `Dyn` objects the two constructors
  build, `TableView`, `SegsView`, and the string-table placement.
-/
import PyElf.Proofs.Dynamic
import PyElf.Proofs.DynamicGnu
import PyElf.Proofs.ElfFile
import PyElf.Props.C01
namespace PyElf.Proofs.Dynamic
open PyElf PyElf.Spec PyElf.Spec.Dynamic PyElf.Model PyElf.Model.Dynamic PyElf.Proofs

/-! ### sorted regions: a part of a disjoint family is disjoint -/

def rle (a b : Nat × Bytes) : Bool := decide (a.1 ≤ b.1)

theorem rle_trans (a b c : Nat × Bytes) : rle a b = true → rle b c = true → rle a c = true := by
  simp only [rle, decide_eq_true_eq]; omega

theorem rle_total (a b : Nat × Bytes) : (rle a b || rle b a) = true := by
  simp only [rle, Bool.or_eq_true, decide_eq_true_eq]; omega

theorem sortRegions_eq (rs : List (Nat × Bytes)) : sortRegions rs = rs.mergeSort rle := rfl

/-- stable sorting commutes with taking sublists -/
theorem sort_sublist {l' l : List (Nat × Bytes)} (h : l'.Sublist l) : (sortRegions l').Sublist (sortRegions l) := by
  induction h with
  | slnil => simp [sortRegions]
  | @cons l' l a h ih =>
    obtain ⟨l₁, l₂, h₁, h₂, -⟩ := List.mergeSort_cons rle_trans rle_total a l
    rw [sortRegions_eq, sortRegions_eq] at *
    rw [h₁]
    rw [h₂] at ih
    exact ih.middle a
  | @cons_cons l' l a h ih =>
    obtain ⟨l₁, l₂, h₁, h₂, h₃⟩ := List.mergeSort_cons rle_trans rle_total a l
    obtain ⟨m₁, m₂, k₁, k₂, k₃⟩ := List.mergeSort_cons rle_trans rle_total a l'
    have s1 := List.pairwise_mergeSort rle_trans rle_total (a :: l)
    have s2 := List.pairwise_mergeSort rle_trans rle_total (a :: l')
    rw [sortRegions_eq, sortRegions_eq] at *
    rw [h₁] at s1 ⊢
    rw [k₁] at s2 ⊢
    rw [h₂, k₂] at ih
    have hl₂ : ∀ b ∈ l₂, rle a b = true := by
      intro b hb
      have := (List.pairwise_append.1 s1).2.1
      exact List.rel_of_pairwise_cons this hb
    have hm₂ : ∀ b ∈ m₂, rle a b = true := by
      intro b hb
      have := (List.pairwise_append.1 s2).2.1
      exact List.rel_of_pairwise_cons this hb
    have f1 : (l₁ ++ l₂).filter (fun b => !rle a b) = l₁ := by
      rw [List.filter_append, List.filter_eq_self.2 (fun b hb => h₃ b hb),
        List.filter_eq_nil_iff.2 (fun b hb => by simp [hl₂ b hb])]
      simp
    have f2 : (m₁ ++ m₂).filter (fun b => !rle a b) = m₁ := by
      rw [List.filter_append, List.filter_eq_self.2 (fun b hb => k₃ b hb),
        List.filter_eq_nil_iff.2 (fun b hb => by simp [hm₂ b hb])]
      simp
    have g1 : (l₁ ++ l₂).filter (fun b => rle a b) = l₂ := by
      rw [List.filter_append, List.filter_eq_self.2 (fun b hb => hl₂ b hb),
        List.filter_eq_nil_iff.2 (fun b hb => by have := h₃ b hb; simpa using this)]
      simp
    have g2 : (m₁ ++ m₂).filter (fun b => rle a b) = m₂ := by
      rw [List.filter_append, List.filter_eq_self.2 (fun b hb => hm₂ b hb),
        List.filter_eq_nil_iff.2 (fun b hb => by have := k₃ b hb; simpa using this)]
      simp
    have u1 : m₁.Sublist l₁ := by
      have := ih.filter (fun b => !rle a b)
      rwa [f1, f2] at this
    have u2 : m₂.Sublist l₂ := by
      have := ih.filter (fun b => rle a b)
      rwa [g1, g2] at this
    exact u1.append (u2.cons_cons a)

theorem disjoint_pairwise : ∀ l : List (Nat × Bytes), l.Pairwise (fun a b => rle a b = true) →
    regionsDisjoint l = true → l.Pairwise (fun a b => a.1 + a.2.length ≤ b.1)
  | [], _, _ => List.Pairwise.nil
  | [_], _, _ => by simp
  | (o1, b1) :: (o2, b2) :: rest, hs, hd => by
    simp only [regionsDisjoint, Bool.and_eq_true, decide_eq_true_eq] at hd
    have ih := disjoint_pairwise ((o2, b2) :: rest) (List.Pairwise.of_cons hs) hd.2
    refine List.Pairwise.cons ?_ ih
    intro c hc
    rcases List.mem_cons.1 hc with rfl | hc'
    · exact hd.1
    · have h2 : rle (o2, b2) c = true := List.rel_of_pairwise_cons (List.Pairwise.of_cons hs) hc'
      simp only [rle, decide_eq_true_eq] at h2
      simp only
      omega

theorem pairwise_disjoint : ∀ l : List (Nat × Bytes), l.Pairwise (fun a b => a.1 + a.2.length ≤ b.1) →
    regionsDisjoint l = true
  | [], _ => rfl
  | [_], _ => rfl
  | (o1, b1) :: (o2, b2) :: rest, h => by
    simp only [regionsDisjoint, Bool.and_eq_true, decide_eq_true_eq]
    exact ⟨List.rel_of_pairwise_cons h (a' := (o2, b2)) (by simp), pairwise_disjoint _ (List.Pairwise.of_cons h)⟩

/-- the regions of a part of a disjoint family are disjoint -/
theorem regionsDisjoint_sublist {l' l : List (Nat × Bytes)} (h : l'.Sublist l)
    (hd : regionsDisjoint (sortRegions l) = true) : regionsDisjoint (sortRegions l') = true := by
  have hs : (sortRegions l).Pairwise (fun a b => rle a b = true) := List.pairwise_mergeSort rle_trans rle_total l
  exact pairwise_disjoint _ ((disjoint_pairwise _ hs hd).sublist (sort_sublist h))

/-- regions listed in file order are their own sorting (used by the non-vacuity examples: the
    kernel does not unfold `mergeSort`) -/
theorem disjoint_sorted : ∀ rs : List (Nat × Bytes), regionsDisjoint rs = true →
    rs.Pairwise (fun a b => rle a b = true)
  | [], _ => List.Pairwise.nil
  | [_], _ => by simp
  | (o1, b1) :: (o2, b2) :: rest, hd => by
    simp only [regionsDisjoint, Bool.and_eq_true, decide_eq_true_eq] at hd
    have ih := disjoint_sorted ((o2, b2) :: rest) hd.2
    refine List.Pairwise.cons ?_ ih
    intro c hc
    rcases List.mem_cons.1 hc with rfl | hc'
    · simp only [rle, decide_eq_true_eq]; omega
    · have h2 : rle (o2, b2) c = true := List.rel_of_pairwise_cons ih hc'
      simp only [rle, decide_eq_true_eq] at h2 ⊢
      omega

theorem regions_ok_of {o : Option (List (Nat × Bytes))}
    (h : (match o with | some rs => regionsDisjoint rs | none => false) = true) :
    (match o with | some rs => regionsDisjoint (sortRegions rs) | none => false) = true := by
  cases o with
  | none => simp at h
  | some rs =>
    simp only at h ⊢
    rw [sortRegions_eq, List.mergeSort_of_pairwise (disjoint_sorted rs h)]
    exact h

/-! ### the regions of a layout -/

theorem regions_inv {d : DynDesc} {full : Bool} {rs : List (Nat × Bytes)} (h : d.regions full = some rs) :
    ∃ c b, (d.container full).regions = some c ∧ d.blobs full = some b ∧
      rs = c ++ b.filter (fun r => !r.2.isEmpty) := by
  unfold DynDesc.regions at h
  cases hc : (d.container full).regions with
  | none => simp [hc] at h
  | some c =>
    cases hb : d.blobs full with
    | none => simp [hc, hb] at h
    | some b =>
      simp only [hc, hb, Option.bind_eq_bind, Option.bind_some, Option.pure_def, Option.some.injEq] at h
      exact ⟨c, b, rfl, rfl, h.symm⟩

/-- the container of a layout is carried in the sense of C01 -/
theorem layout_container {d : DynDesc} {full : Bool} {bytes : Bytes} (hl : DynLayout d full bytes) :
    Layout (d.container full) bytes := by
  obtain ⟨rs, hrs, hall⟩ := hl
  obtain ⟨c, b, hc, -, rfl⟩ := regions_inv hrs
  exact ⟨c, hc, fun r hr => hall r (List.mem_append_left _ hr)⟩

/-- every dynamic table sits at its offset -/
theorem layout_blobs {d : DynDesc} {full : Bool} {bytes : Bytes} (hl : DynLayout d full bytes) :
    ∃ b, d.blobs full = some b ∧ ∀ r ∈ b, ∃ rest, bytes.drop r.1 = r.2 ++ rest := by
  obtain ⟨rs, hrs, hall⟩ := hl
  obtain ⟨c, b, -, hb, rfl⟩ := regions_inv hrs
  refine ⟨b, hb, fun r hr => ?_⟩
  by_cases he : r.2 = []
  · exact ⟨bytes.drop r.1, by rw [he]; rfl⟩
  · have : r ∈ c ++ b.filter (fun r => !r.2.isEmpty) := by
      apply List.mem_append_right
      rw [List.mem_filter]
      exact ⟨hr, by simpa using he⟩
    exact ⟨_, drop_of_readN (hall r this)⟩

/-- the assembler produces a layout (non-vacuity of `DynLayout`, and the generator the
    correspondence check uses) -/
theorem assemble_dynLayout {env : Env} {d : DynDesc} {full : Bool} {bytes : Bytes}
    (hwf : d.wf env full = true) (h : d.assemble full = some bytes) : DynLayout d full bytes := by
  unfold DynDesc.assemble at h
  cases hrs : d.regions full with
  | none => simp [hrs] at h
  | some rs =>
    simp only [hrs, Option.bind_eq_bind, Option.bind_some, Option.pure_def, Option.some.injEq] at h
    subst h
    have hdisj : regionsDisjoint (sortRegions rs) = true := by
      unfold DynDesc.wf at hwf
      simp only [hrs, Bool.and_eq_true] at hwf
      exact hwf.1.1.1.1.1.1.1.1.1.1.1.1.1.1.1.1.2
    refine ⟨rs, hrs, fun r hr => ?_⟩
    have hmem : r ∈ sortRegions rs := (List.mergeSort_perm rs _).mem_iff.2 hr
    exact layOut_reads (sortRegions rs) [] hdisj (fun _ _ => Nat.zero_le _) r hmem

/-- the container's own regions are disjoint when the image's are -/
theorem container_disjoint {env : Env} {d : DynDesc} {full : Bool} (hwf : d.wf env full = true) :
    ∃ c, (d.container full).regions = some c ∧ regionsDisjoint (sortRegions c) = true := by
  cases hrs : d.regions full with
  | none =>
    unfold DynDesc.wf at hwf
    simp [hrs] at hwf
  | some rs =>
    have hdisj : regionsDisjoint (sortRegions rs) = true := by
      unfold DynDesc.wf at hwf
      simp only [hrs, Bool.and_eq_true] at hwf
      exact hwf.1.1.1.1.1.1.1.1.1.1.1.1.1.1.1.1.2
    obtain ⟨c, b, hc, -, rfl⟩ := regions_inv hrs
    exact ⟨c, hc, regionsDisjoint_sublist (List.sublist_append_left c _) hdisj⟩

/-- what the description's tables are, and where -/
structure BlobFacts (d : DynDesc) (full : Bool) (b : List (Nat × Bytes)) : Prop where
  tags : ∃ tb, d.tagBytes = some tb ∧ (d.dynOff, tb) ∈ b ∧
    (full = true → ∀ o, d.secDynOff = some o → (o, tb) ∈ b)
  str : (d.strOff, d.strtab) ∈ b
  syms : ∃ sb, d.symBytes = some sb ∧ (d.symOff, sb) ∈ b
  sysv : ∀ h o, d.sysv = some (h, o) → (o, h.enc d.le) ∈ b
  gnu : ∀ h o, d.gnu = some (h, o) → (o, h.enc d.le d.w) ∈ b

theorem blob_facts {d : DynDesc} {full : Bool} {b : List (Nat × Bytes)} (h : d.blobs full = some b) :
    BlobFacts d full b := by
  unfold DynDesc.blobs at h
  simp only [Option.bind_eq_bind, Option.bind_eq_some_iff, Option.pure_def, Option.some.injEq] at h
  obtain ⟨tb, htb, sb, hsb, rs, -, rfl⟩ := h
  refine ⟨⟨tb, htb, by simp, ?_⟩, by simp, ⟨sb, hsb, by simp⟩, ?_, ?_⟩
  · intro hf o ho
    subst hf
    simp [ho]
  · intro hh o ho
    simp [DynDesc.hashBlobs, ho]
  · intro hh o ho
    simp [DynDesc.hashBlobs, ho]

/-! ### what C01 gives for a well-formed, laid-out container -/

theorem mapM_ok_exists {α β : Type} (f : α → R β) :
    ∀ (l : List α), (∀ a ∈ l, ∃ b, f a = .ok b) → ∃ ys, l.mapM f = .ok ys := by
  intro l
  induction l with
  | nil => intro _; exact ⟨[], rfl⟩
  | cons a l ih =>
    intro h
    obtain ⟨b, hb⟩ := h a (by simp)
    obtain ⟨ys, hys⟩ := ih (fun x hx => h x (by simp [hx]))
    exact ⟨b :: ys, by simp [List.mapM_cons, hb, hys, bind, Except.bind, pure, Except.pure]⟩

theorem toOption_eq_some {α : Type} {x : R α} {a : α} (h : x.toOption = some a) : x = .ok a := by
  cases x with
  | error e => simp [Except.toOption] at h
  | ok v => simp [Except.toOption] at h; rw [h]

/-- a well-formed description all of whose program headers decode has an observation -/
theorem observe_ok {env : Env} {e : ElfDesc} (hwf : e.wf env = true)
    (hseg : ∀ p ∈ e.segments, ∃ h, e.S.Elf_Phdr.decodeRaw env [] (.record p) = .ok h) :
    ∃ obs, e.observe env = .ok obs := by
  have hw := wf_facts hwf
  have h1 : ∃ hdr, e.S.Elf_Ehdr.decodeRaw env [] e.ehdrRaw = .ok hdr := by
    have := hw.cfg
    unfold ElfDesc.cfgOk at this
    cases hh : e.S.Elf_Ehdr.decodeRaw env [] e.ehdrRaw with
    | error er => simp [hh] at this
    | ok hdr => exact ⟨hdr, rfl⟩
  obtain ⟨hdr, hhdr⟩ := h1
  have h2 : ∃ ss, e.sections.mapM (obsSec env e) = .ok ss := by
    apply mapM_ok_exists
    intro s hs
    obtain ⟨i, hi, rfl⟩ := List.getElem_of_mem hs
    obtain ⟨_, _, h, _, _, hdec, _, _⟩ := secOkZ_unpack (hw.secs i hi)
    obtain ⟨_, hdd⟩ := decHdr_some hdec
    have hS : e.S.Elf_Shdr = .struct (shdrFields e.cfg) := rfl
    obtain ⟨_, x, _, hx⟩ := struct_field_exists (shdr_field_type e.cfg) (hS ▸ hdd)
    exact ⟨(kindOf x (e.sections[i]).name, (e.sections[i]).name, h),
      by simp [obsSec, hdd, hx, bind, Except.bind, pure, Except.pure]⟩
  obtain ⟨ss, hss⟩ := h2
  have h3 : ∃ gs, e.segments.mapM (obsSeg env e) = .ok gs := by
    apply mapM_ok_exists
    intro p hp
    obtain ⟨h, hh⟩ := hseg p hp
    have hS : e.S.Elf_Phdr = .struct (phdrFields e.cfg) := phdr_eq e.cfg
    obtain ⟨_, x, _, hx⟩ := struct_field_exists (phdr_field_type e.cfg) (hS ▸ hh)
    exact ⟨(segKindOf x, h), by simp [obsSeg, hh, hx, bind, Except.bind, pure, Except.pure]⟩
  obtain ⟨gs, hgs⟩ := h3
  refine ⟨⟨hdr, ss, gs⟩, ?_⟩
  unfold ElfDesc.observe
  change (do
    let header ← e.S.Elf_Ehdr.decodeRaw env [] e.ehdrRaw
    let sections ← e.sections.mapM (obsSec env e)
    let segments ← e.segments.mapM (obsSeg env e)
    (pure ⟨header, sections, segments⟩ : R ElfObs)) = _
  simp [hhdr, hss, hgs, bind, Except.bind, pure, Except.pure]

/-- what `ELFFile` hands out for a well-formed, laid-out description -/
structure FileFacts (env : Env) (e : ElfDesc) (bytes : Bytes) (f : ElfFile) : Prop where
  data : f.data = bytes
  S : f.S = e.S
  le : f.le = e.le
  nsec : numSections env f.S f.data f.header = .ok e.sections.length
  nseg : numSegments env f.S f.data f.header f.shstr = .ok e.segments.length
  sec : ∀ i (hi : i < e.sections.length), ∃ h ty,
      e.S.Elf_Shdr.decodeRaw env [] (e.sections[i]).raw = .ok h ∧ SecFacts e.sections[i] h ∧
      h.getField "sh_type" = .ok ty ∧
      getSection env f.S f.data f.header f.shstr i = .ok (kindOf ty (e.sections[i]).name, (e.sections[i]).name, h)
  seg : ∀ i (hi : i < e.segments.length), ∃ ph ty b,
      e.S.Elf_Phdr.decodeRaw env [] (.record e.segments[i]) = .ok ph ∧
      e.S.Elf_Phdr.encodeRaw (.record e.segments[i]) = some b ∧ ph.getField "p_type" = .ok ty ∧
      getSegment env f.S f.data f.header f.shstr i = .ok (segKindOf ty, ph)
  iterSegs : ∃ gs, iterSegments env f.S f.data f.header f.shstr = .ok gs

theorem file_facts {env : Env} {e : ElfDesc} {bytes : Bytes} (hwf : e.wf env = true) (hl : Layout e bytes)
    (hseg : ∀ p ∈ e.segments, ∃ h, e.S.Elf_Phdr.decodeRaw env [] (.record p) = .ok h) :
    ∃ f, openElf env Props.C01.specStructs Props.C01.specMachineClass bytes = .ok f ∧ FileFacts env e bytes f := by
  obtain ⟨obs, ho⟩ := observe_ok hwf hseg
  obtain ⟨f, hf, hdata, -, hle, hS, -⟩ := Props.C01.open_exact env e bytes obs hwf hl ho
  obtain ⟨hn, hm⟩ := Props.C01.counts_exact env e bytes obs f hwf hl ho hf
  have hL := layout_facts hl
  obtain ⟨-, hsecs, hsegs⟩ := observe_inv ho
  obtain ⟨hlen2, hall2⟩ := mapM_ok_inv _ _ _ hsecs
  obtain ⟨hlen3, hall3⟩ := mapM_ok_inv _ _ _ hsegs
  refine ⟨f, hf, hdata, hS, hle, by rw [hdata]; exact hn, by rw [hdata]; exact hm, ?_, ?_, ?_⟩
  · intro i hi
    have hi' : i < obs.sections.length := by omega
    have hg := Props.C01.get_section_exact env e bytes obs f hwf hl ho hf i hi
    rw [List.getElem?_eq_getElem hi'] at hg
    have hg' := toOption_eq_some hg
    have hobs := hall2 i hi hi'
    unfold obsSec at hobs
    cases hdd : e.S.Elf_Shdr.decodeRaw env [] (e.sections[i]).raw with
    | error er => simp [hdd, bind, Except.bind] at hobs
    | ok h =>
      cases hty : h.getField "sh_type" with
      | error er => simp [hdd, hty, bind, Except.bind] at hobs
      | ok ty =>
        simp only [hdd, hty, bind, Except.bind, pure, Except.pure, Except.ok.injEq] at hobs
        obtain ⟨b, hb, -⟩ := hL.shdr i hi
        refine ⟨h, ty, rfl, sec_facts hb hdd, hty, ?_⟩
        rw [hdata, hg', ← hobs]
  · intro i hi
    have hi' : i < obs.segments.length := by omega
    have hit := Props.C01.segments_exact env e bytes obs f hwf hl ho hf
    unfold iterSegments at hit
    rw [hm] at hit
    simp only [bind, Except.bind] at hit
    obtain ⟨-, hget⟩ := mapM_ok_inv _ _ _ hit
    have hg := hget i (by simpa using hi) hi'
    simp only [List.getElem_range] at hg
    obtain ⟨ph, ty, hdec, hty, hr⟩ := obsSeg_eq (hall3 i hi hi')
    obtain ⟨b, hb, -⟩ := hL.phdr i hi
    exact ⟨ph, ty, b, hdec, hb, hty, by rw [hdata, hg, hr]⟩
  · exact ⟨obs.segments, by rw [hdata]; exact Props.C01.segments_exact env e bytes obs f hwf hl ho hf⟩

/-! ### the program headers: `SegsView` -/

theorem filterMap_full {α β : Type} (g : α → Option β) : ∀ l : List α, (l.filterMap g).length = l.length →
    ∀ i (h1 : i < l.length) (h2 : i < (l.filterMap g).length), g l[i] = some (l.filterMap g)[i] := by
  intro l
  induction l with
  | nil => intro _ i h1; simp at h1
  | cons a l ih =>
    intro hlen i h1 h2
    cases hg : g a with
    | none =>
      have hle := List.length_filterMap_le g l
      simp only [List.filterMap_cons, hg, List.length_cons] at hlen
      omega
    | some b =>
      have hfm : (a :: l).filterMap g = b :: l.filterMap g := by simp [hg]
      have hlen' : (l.filterMap g).length = l.length := by
        rw [hfm] at hlen; simpa using hlen
      cases i with
      | zero => simp [hfm, hg]
      | succ j =>
        simp only [hfm, List.getElem_cons_succ]
        exact ih hlen' j (by simpa using h1) (by rw [hlen']; simpa using h1)

def decPhdr (env : Env) (d : DynDesc) (p : Fields) : Option Val :=
  match d.S.Elf_Phdr.decodeRaw env [] (.record p) with
  | .ok h => some h
  | .error _ => none

theorem phdrs_eq (env : Env) (d : DynDesc) : d.phdrs env = d.segments.filterMap (decPhdr env d) := rfl

theorem phdrs_get {env : Env} {d : DynDesc} (hlen : (d.phdrs env).length = d.segments.length)
    (i : Nat) (h1 : i < d.segments.length) (h2 : i < (d.phdrs env).length) :
    d.S.Elf_Phdr.decodeRaw env [] (.record d.segments[i]) = .ok (d.phdrs env)[i] := by
  have := filterMap_full (decPhdr env d) d.segments hlen i h1 h2
  unfold decPhdr at this
  cases hd : d.S.Elf_Phdr.decodeRaw env [] (.record d.segments[i]) with
  | error e => simp [hd] at this
  | ok h =>
    simp only [hd, Option.some.injEq] at this
    rw [this]; rfl

theorem phdr_field_vaddr (c : ElfCfg) :
    fieldCon (phdrFields c) "p_vaddr" = some (.uint (c.cls / 8) c.le) := by
  unfold phdrFields
  split <;> simp [mkFields, f, fieldCon, fieldNames]

theorem phdr_field_filesz (c : ElfCfg) :
    ∃ n, fieldCon (phdrFields c) "p_filesz" = some (.uint n c.le) := by
  unfold phdrFields
  split
  · exact ⟨4, by simp [mkFields, f, fieldCon, fieldNames]⟩
  · exact ⟨c.cls / 8, by simp [mkFields, f, fieldCon, fieldNames]⟩

theorem phdrOk_of {env : Env} {c : ElfCfg} {p : Fields} {b : Bytes} {ph : Val}
    (he : (elfStructs c).Elf_Phdr.encodeRaw (.record p) = some b)
    (hd : (elfStructs c).Elf_Phdr.decodeRaw env [] (.record p) = .ok ph) : PhdrOk ph := by
  rw [phdr_eq c] at he hd
  obtain ⟨_, ty, _, hty⟩ := struct_field_exists (phdr_field_type c) hd
  obtain ⟨va, -, -, hva⟩ := uint_field (phdr_field_vaddr c) he hd
  obtain ⟨n, hn⟩ := phdr_field_filesz c
  obtain ⟨fsz, -, -, hfsz⟩ := uint_field hn he hd
  obtain ⟨po, -, -, hpo⟩ := uint_field (phdr_field_offset c) he hd
  exact ⟨ty, va, fsz, po, hty, getNat_of_getField hva, getNat_of_getField hfsz, getNat_of_getField hpo⟩

theorem container_segments (d : DynDesc) (full : Bool) : (d.container full).segments = d.segments := rfl
theorem container_S (d : DynDesc) (full : Bool) : (d.container full).S = d.S := rfl

/-- every program header of the description decodes (what `DynDesc.wf` says with
    `|phdrs| = |segments|`) -/
theorem segs_decode {env : Env} {d : DynDesc} {full : Bool} (hlen : (d.phdrs env).length = d.segments.length) :
    ∀ p ∈ (d.container full).segments, ∃ h, (d.container full).S.Elf_Phdr.decodeRaw env [] (.record p) = .ok h := by
  intro p hp
  rw [container_segments] at hp
  obtain ⟨i, hi, rfl⟩ := List.getElem_of_mem hp
  exact ⟨_, phdrs_get hlen i hi (by omega)⟩

/-- C01's guarantee for the program headers is the `SegsView` hypothesis of the C09 lemmas -/
theorem segsView_of {env : Env} {d : DynDesc} {full : Bool} {bytes : Bytes} {f : ElfFile}
    (FF : FileFacts env (d.container full) bytes f) (hlen : (d.phdrs env).length = d.segments.length) :
    SegsView (realIfc env f) (d.phdrs env) where
  num := by
    show numSegments env f.S f.data f.header f.shstr = _
    rw [FF.nseg, hlen]; rfl
  get := fun i hi => by
    have hi' : i < d.segments.length := by omega
    obtain ⟨ph, ty, b, hdec, -, -, hget⟩ := FF.seg i hi'
    have := phdrs_get hlen i hi' hi
    simp only [container_segments, container_S] at hdec
    rw [this] at hdec
    cases hdec
    exact ⟨segKindOf ty, hget⟩
  ok := fun h hh => by
    obtain ⟨i, hi, rfl⟩ := List.getElem_of_mem hh
    have hi' : i < d.segments.length := by omega
    obtain ⟨ph, ty, b, hdec, henc, -, -⟩ := FF.seg i hi'
    have := phdrs_get hlen i hi' hi
    simp only [container_segments, container_S] at hdec henc
    rw [this] at hdec
    cases hdec
    exact phdrOk_of (c := d.cfg) henc this

/-! ### the sections of the full layout -/

/-- a section type code as the reader reports it -/
def shTy (env : Env) (m : String) (c : Nat) : Val :=
  match env.enumDecode (shTypeTable m) (c : Int) with
  | some s => .str s
  | none => .int c

/-- the gABI names of the section types the full layout uses, in every machine's table -/
structure ShTypes (env : Env) : Prop where
  null : ∀ m, shTy env m 0 = .str "SHT_NULL"
  progbits : ∀ m, shTy env m 1 = .str "SHT_PROGBITS"
  strtab : ∀ m, shTy env m 3 = .str "SHT_STRTAB"
  dynamic : ∀ m, shTy env m 6 = .str "SHT_DYNAMIC"
  dynsym : ∀ m, shTy env m 11 = .str "SHT_DYNSYM"

theorem sec_type {env : Env} {e : ElfDesc} {s : SecDesc} {h ty : Val} (c : Nat)
    (hc : Fields.get? s.hdr "sh_type" = some (.int c))
    (hdd : e.S.Elf_Shdr.decodeRaw env [] s.raw = .ok h) (hty : h.getField "sh_type" = .ok ty) :
    ty = shTy env e.mclass c := by
  have hS : e.S.Elf_Shdr = .struct (shdrFields e.cfg) := rfl
  rw [hS] at hdd
  obtain ⟨ctx0, x, hx, hg⟩ := struct_field_exists (shdr_field_type e.cfg) hdd
  rw [hty] at hg
  cases hg
  have hr : Fields.get? (("sh_name", Val.int s.nameOff) :: s.hdr) "sh_type" = some (.int c) := by
    simpa [Fields.get?] using hc
  rw [hr] at hx
  simp only [Option.getD_some, decodeRaw_enum_int] at hx
  cases hx
  rfl

theorem sections_length (d : DynDesc) : d.sections.length = d.decoys + 5 := by
  simp [DynDesc.sections]

theorem sections_at_dynstr (d : DynDesc) (h : d.decoys + 1 < d.sections.length) :
    d.sections[d.decoys + 1] = d.secDynstr := by
  simp [DynDesc.sections, List.getElem_append_right]

theorem sections_at_dynamic (d : DynDesc) (h : d.decoys + 3 < d.sections.length) :
    d.sections[d.decoys + 3] = d.secDynamic := by
  simp [DynDesc.sections, List.getElem_append_right]

theorem sections_at_shstrtab (d : DynDesc) (h : d.decoys + 4 < d.sections.length) :
    d.sections[d.decoys + 4] = d.secShstrtab := by
  simp [DynDesc.sections, List.getElem_append_right]

/-- the sections in front of `.dynamic`, and `.shstrtab`, are of other types -/
theorem sections_other (d : DynDesc) (i : Nat) (hi : i < d.sections.length) (hne : i ≠ d.decoys + 3) :
    ∃ c, Fields.get? (d.sections[i]).hdr "sh_type" = some (.int (c : Nat)) ∧ (c = 0 ∨ c = 1 ∨ c = 3 ∨ c = 11) := by
  have hlen := sections_length d
  have hmem : d.sections[i] ∈ [secNull, secDecoy, d.secDynstr, d.secDynsym, d.secShstrtab] := by
    by_cases h0 : i = 0
    · subst h0; simp [DynDesc.sections]
    · by_cases h1 : i ≤ d.decoys
      · have : d.sections[i] = secDecoy := by
          obtain ⟨j, rfl⟩ : ∃ j, i = j + 1 := ⟨i - 1, by omega⟩
          simp only [DynDesc.sections, List.getElem_cons_succ]
          rw [List.getElem_append_left (by simp; omega)]
          simp
        simp [this]
      · by_cases h2 : i = d.decoys + 1
        · subst h2; simp [sections_at_dynstr]
        · by_cases h3 : i = d.decoys + 2
          · subst h3
            have : d.sections[d.decoys + 2] = d.secDynsym := by
              simp [DynDesc.sections, List.getElem_append_right]
            simp [this]
          · have h4 : i = d.decoys + 4 := by omega
            subst h4; simp [sections_at_shstrtab]
  simp only [List.mem_cons, List.not_mem_nil, or_false] at hmem
  rcases hmem with h | h | h | h | h <;> rw [h]
  · exact ⟨0, by simp [secNull, secHdr, Fields.get?], by simp⟩
  · exact ⟨1, by simp [secDecoy, secHdr, Fields.get?], by simp⟩
  · exact ⟨3, by simp [DynDesc.secDynstr, secHdr, Fields.get?], by simp⟩
  · exact ⟨11, by simp [DynDesc.secDynsym, secHdr, Fields.get?], by simp⟩
  · exact ⟨3, by simp [DynDesc.secShstrtab, secHdr, Fields.get?], by simp⟩

theorem container_sections_full (d : DynDesc) : (d.container true).sections = d.sections := rfl
theorem container_sections_stripped (d : DynDesc) : (d.container false).sections = [] := rfl
theorem container_mclass (d : DynDesc) (full : Bool) : (d.container full).mclass = d.mclass := rfl

/-- what `get_section(i)` of the full layout returns, for the sections dynamic.py looks at -/
structure SecView (env : Env) (d : DynDesc) (f : ElfFile) : Prop where
  /-- every section but `.dynamic` is of another class -/
  other : ∀ i, i < d.decoys + 5 → i ≠ d.decoys + 3 → ∃ kind nm sh o,
    getSection env f.S f.data f.header f.shstr i = .ok (kind, nm, sh) ∧ kind ≠ "DynamicSection" ∧
    sh.getNat "sh_offset" = .ok o
  dynamic : ∃ nm sh, getSection env f.S f.data f.header f.shstr (d.decoys + 3) = .ok ("DynamicSection", nm, sh) ∧
    sh.getNat "sh_offset" = .ok (d.secDynOff.getD d.dynOff) ∧ sh.getNat "sh_link" = .ok (d.decoys + 1) ∧
    sh.getField "sh_type" = .ok (.str "SHT_DYNAMIC")
  dynstr : ∃ nm sh, getSection env f.S f.data f.header f.shstr (d.decoys + 1) = .ok ("StringTableSection", nm, sh) ∧
    sh.getNat "sh_offset" = .ok d.strOff

theorem kindOf_ne_dynamic {ty : Val} {name : Bytes} (h : ty ≠ .str "SHT_DYNAMIC") :
    kindOf ty name ≠ "DynamicSection" := fun hk => h (kindOf_dynamic hk)

theorem secView_of {env : Env} (T : ShTypes env) {d : DynDesc} {bytes : Bytes} {f : ElfFile}
    (FF : FileFacts env (d.container true) bytes f) : SecView env d f := by
  have hlen := sections_length d
  refine ⟨?_, ?_, ?_⟩
  · intro i hi hne
    have hi' : i < (d.container true).sections.length := by rw [container_sections_full, hlen]; exact hi
    obtain ⟨h, ty, hdd, hsf, hty, hget⟩ := FF.sec i hi'
    obtain ⟨c, hc, hcs⟩ := sections_other d i (by omega) hne
    have hty' := sec_type c hc hdd hty
    rw [container_mclass] at hty'
    refine ⟨_, _, h, _, hget, ?_, hsf.nat "sh_offset" (by simp [shdrNatKeys])⟩
    apply kindOf_ne_dynamic
    rw [hty']
    rcases hcs with rfl | rfl | rfl | rfl
    · rw [T.null]; simp
    · rw [T.progbits]; simp
    · rw [T.strtab]; simp
    · rw [T.dynsym]; simp
  · have hi' : d.decoys + 3 < (d.container true).sections.length := by rw [container_sections_full, hlen]; omega
    obtain ⟨h, ty, hdd, hsf, hty, hget⟩ := FF.sec _ hi'
    have hs : (d.container true).sections[d.decoys + 3] = d.secDynamic := sections_at_dynamic d (by omega)
    rw [hs] at hdd hsf hget
    have hty' := sec_type (e := d.container true) 6 (by simp [DynDesc.secDynamic, secHdr, Fields.get?]) hdd hty
    rw [container_mclass, T.dynamic] at hty'
    subst hty'
    refine ⟨_, h, hget, ?_, ?_, hty⟩
    · rw [hsf.nat "sh_offset" (by simp [shdrNatKeys]), hsf.raw "sh_offset" (by simp [shdrNatKeys]) (by decide)]
      simp [DynDesc.secDynamic, secHdr, getNatD, Fields.get?]
    · rw [hsf.nat "sh_link" (by simp [shdrNatKeys]), hsf.raw "sh_link" (by simp [shdrNatKeys]) (by decide)]
      simp [DynDesc.secDynamic, secHdr, getNatD, Fields.get?]
  · have hi' : d.decoys + 1 < (d.container true).sections.length := by rw [container_sections_full, hlen]; omega
    obtain ⟨h, ty, hdd, hsf, hty, hget⟩ := FF.sec _ hi'
    have hs : (d.container true).sections[d.decoys + 1] = d.secDynstr := sections_at_dynstr d (by omega)
    rw [hs] at hdd hsf hget
    have hty' := sec_type (e := d.container true) 3 (by simp [DynDesc.secDynstr, secHdr, Fields.get?]) hdd hty
    rw [container_mclass, T.strtab] at hty'
    subst hty'
    refine ⟨_, h, hget, ?_⟩
    rw [hsf.nat "sh_offset" (by simp [shdrNatKeys]), hsf.raw "sh_offset" (by simp [shdrNatKeys]) (by decide)]
    simp [DynDesc.secDynstr, secHdr, getNatD, Fields.get?]

/-! ### the searches: first `DynamicSection`, first `DynamicSegment`, the constructor's section search -/

theorem findFirst_none {α : Type} (get : Nat → R α) (p : α → Bool) : ∀ (k i : Nat),
    (∀ j, i ≤ j → j < i + k → ∃ y, get j = .ok y ∧ p y = false) → findFirst get p k i = .ok none := by
  intro k
  induction k with
  | zero => intro i _; rfl
  | succ k ih =>
    intro i h
    obtain ⟨y, hy, hp⟩ := h i (Nat.le_refl _) (by omega)
    rw [findFirst]
    simp only [hy, hp, bind, Except.bind, Bool.false_eq_true, if_false]
    exact ih (i + 1) (fun j h1 h2 => h j (by omega) (by omega))

theorem findFirst_at {α : Type} (get : Nat → R α) (p : α → Bool) (x : α) (j : Nat) (hx : get j = .ok x)
    (hp : p x = true) : ∀ (k i : Nat), i ≤ j → j < i + k →
    (∀ l, i ≤ l → l < j → ∃ y, get l = .ok y ∧ p y = false) → findFirst get p k i = .ok (some x) := by
  intro k
  induction k with
  | zero => intro i h1 h2; omega
  | succ k ih =>
    intro i h1 h2 hb
    rw [findFirst]
    by_cases hij : i = j
    · subst hij
      simp [hx, hp, bind, Except.bind, pure, Except.pure]
    · obtain ⟨y, hy, hpy⟩ := hb i (Nat.le_refl _) (by omega)
      simp only [hy, hpy, bind, Except.bind, Bool.false_eq_true, if_false]
      exact ih (i + 1) (by omega) (by omega) (fun l h3 h4 => hb l (by omega) h4)

section search
variable {env : Env} {f : ElfFile} {poff : Nat}

theorem segFind_none : ∀ l : List Nat,
    (∀ i ∈ l, ∃ kind nm sh o, getSection env f.S f.data f.header f.shstr i = .ok (kind, nm, sh) ∧
      sh.getNat "sh_offset" = .ok o ∧ (kind ≠ "DynamicSection" ∨ o ≠ poff)) →
    dynOfSegment.find env f poff l = .ok none := by
  intro l
  induction l with
  | nil => intro _; rfl
  | cons i rest ih =>
    intro h
    obtain ⟨kind, nm, sh, o, hget, ho, hne⟩ := h i (by simp)
    rw [dynOfSegment.find]
    have hc : (kind == "DynamicSection" && o == poff) = false := by
      rcases hne with h1 | h1
      · simp [h1]
      · simp [h1]
    simp only [hget, ho, bind, Except.bind, hc, Bool.false_eq_true, if_false]
    exact ih (fun j hj => h j (by simp [hj]))

theorem segFind_some (l₁ l₂ : List Nat) (j lk : Nat) (nm nm' : Bytes) (sh h : Val) (k : String)
    (hb : ∀ i ∈ l₁, ∃ kind nm sh o, getSection env f.S f.data f.header f.shstr i = .ok (kind, nm, sh) ∧
      sh.getNat "sh_offset" = .ok o ∧ (kind ≠ "DynamicSection" ∨ o ≠ poff))
    (hj : getSection env f.S f.data f.header f.shstr j = .ok ("DynamicSection", nm, sh))
    (ho : sh.getNat "sh_offset" = .ok poff) (hl : sh.getNat "sh_link" = .ok lk)
    (hk : getSection env f.S f.data f.header f.shstr lk = .ok (k, nm', h)) :
    dynOfSegment.find env f poff (l₁ ++ j :: l₂) = .ok (some (.section k h)) := by
  induction l₁ with
  | nil =>
    rw [List.nil_append, dynOfSegment.find]
    simp [hj, ho, hl, hk, bind, Except.bind, pure, Except.pure]
  | cons i rest ih =>
    obtain ⟨kind, nm0, sh0, o, hget, ho0, hne⟩ := hb i (by simp)
    rw [List.cons_append, dynOfSegment.find]
    have hc : (kind == "DynamicSection" && o == poff) = false := by
      rcases hne with h1 | h1
      · simp [h1]
      · simp [h1]
    simp only [hget, ho0, bind, Except.bind, hc, Bool.false_eq_true, if_false]
    exact ih (fun j hj => hb j (by simp [hj]))

end search

theorem segKind_dyn (ty : Val) : (segKindOf ty == "DynamicSegment") = isName ty "PT_DYNAMIC" := by
  cases ty <;> simp [isName, segKindOf]
  rename_i t
  by_cases h1 : t = "PT_INTERP"
  · subst h1; simp
  · by_cases h2 : t = "PT_DYNAMIC"
    · subst h2; simp
    · by_cases h3 : t = "PT_NOTE"
      · subst h3; simp
      · simp [h1, h2, h3]

/-- is this decoded program header a PT_DYNAMIC one? (the predicate of `dynSegOk`) -/
def isDynPh (h : Val) : Bool :=
  match h.getField "p_type" with
  | .ok ty => isName ty "PT_DYNAMIC"
  | _ => false

theorem dynSeg_inv {env : Env} {d : DynDesc} (h : dynSegOk env d = true) :
    ∃ j, ∃ hj : j < (d.phdrs env).length,
      (∀ i (hi : i < j), isDynPh ((d.phdrs env)[i]'(by omega)) = false) ∧ isDynPh (d.phdrs env)[j] = true ∧
      (d.phdrs env)[j].getNat "p_offset" = .ok d.dynOff ∧
      ∃ fsz, (d.phdrs env)[j].getNat "p_filesz" = .ok fsz ∧ fsz ≠ 0 := by
  unfold dynSegOk at h
  change (match (d.phdrs env).filter isDynPh with
    | h :: _ => (match h.getNat "p_offset", h.getNat "p_filesz" with
                 | .ok o, .ok fsz => o == d.dynOff && fsz != 0
                 | _, _ => false)
    | [] => false) = true at h
  cases hf : (d.phdrs env).filter isDynPh with
  | nil => simp [hf] at h
  | cons a as =>
    simp only [hf] at h
    obtain ⟨l₁, l₂, hl, hb, ha, -⟩ := List.filter_eq_cons_iff.1 hf
    have hj : l₁.length < (d.phdrs env).length := by rw [hl]; simp
    have hget : (d.phdrs env)[l₁.length] = a := by simp [hl]
    refine ⟨l₁.length, hj, ?_, by rw [hget]; exact ha, ?_⟩
    · intro i hi
      have : (d.phdrs env)[i]'(by omega) = l₁[i] := by simp [hl, List.getElem_append_left hi]
      rw [this]
      simpa using hb _ (List.getElem_mem hi)
    · rw [hget]
      cases h1 : a.getNat "p_offset" with
      | error e => simp [h1] at h
      | ok o =>
        cases h2 : a.getNat "p_filesz" with
        | error e => simp [h1, h2] at h
        | ok fsz =>
          simp only [h1, h2, Bool.and_eq_true, beq_iff_eq, bne_iff_ne, ne_eq] at h
          exact ⟨by rw [h.1], fsz, rfl, h.2⟩

theorem sizeof_dyn (d : DynDesc) : sizeofR d.S.Elf_Dyn = .ok (2 * d.w) := by
  have : d.S.Elf_Dyn = dynCon d.le d.w (dTagTable d.mclass d.solaris) := spec_dyn d.cfg
  unfold sizeofR
  rw [this, dyn_sizeof]

/-- the `DynamicSegment` object: the first PT_DYNAMIC segment, at the description's table, with the
    string table the constructor's section search finds -/
theorem dynamicSegment_of {env : Env} {d : DynDesc} {full : Bool} {bytes : Bytes} {f : ElfFile}
    (FF : FileFacts env (d.container full) bytes f) (hlen : (d.phdrs env).length = d.segments.length)
    (hdyn : dynSegOk env d = true) (st : Option StrTab)
    (hfind : dynOfSegment.find env f d.dynOff (List.range (d.container full).sections.length) = .ok st) :
    dynamicSegment env f = .ok (some ⟨st, d.dynOff, false, 2 * d.w⟩) := by
  obtain ⟨j, hj, hbefore, hat, hoff, fsz, hfsz, hne⟩ := dynSeg_inv hdyn
  have key : ∀ i (hi : i < (d.phdrs env).length), ∃ ty,
      getSegment env f.S f.data f.header f.shstr i = .ok (segKindOf ty, (d.phdrs env)[i]) ∧
      (segKindOf ty == "DynamicSegment") = isDynPh (d.phdrs env)[i] := by
    intro i hi
    have hi' : i < d.segments.length := by omega
    obtain ⟨ph, ty, b, hdec, -, hty, hget⟩ := FF.seg i hi'
    have := phdrs_get hlen i hi' hi
    simp only [container_segments, container_S] at hdec
    rw [this] at hdec
    cases hdec
    exact ⟨ty, hget, by rw [segKind_dyn]; simp [isDynPh, hty]⟩
  obtain ⟨ty, hget, hk⟩ := key j hj
  unfold dynamicSegment
  rw [FF.nseg, container_segments]
  simp only [bind, Except.bind]
  rw [findFirst_at _ _ _ j hget (by simpa [hat] using hk) _ 0 (Nat.zero_le _) (by omega)
    (fun l _ hl => by
      obtain ⟨ty', hget', hk'⟩ := key l (by omega)
      exact ⟨_, hget', by simpa [hbefore l hl] using hk'⟩)]
  simp only
  unfold dynOfSegment
  rw [FF.nsec, FF.S, container_S, sizeof_dyn]
  simp only [bind, Except.bind, hoff, hfind, hfsz, pure, Except.pure]
  simp [hne]

theorem range_split (k : Nat) : List.range (k + 5) = List.range (k + 3) ++ (k + 3) :: [k + 4] := by
  rw [show k + 5 = (k + 4).succ from rfl, List.range_succ, show k + 4 = (k + 3).succ from rfl, List.range_succ]
  simp

/-- full layout, `.dynamic` section at the segment's offset: the search finds it and takes `.dynstr` -/
theorem segFind_full_match {env : Env} {d : DynDesc} {f : ElfFile} (SV : SecView env d f)
    (h : d.secDynOff = none) :
    ∃ hstr, hstr.getNat "sh_offset" = .ok d.strOff ∧
      dynOfSegment.find env f d.dynOff (List.range (d.container true).sections.length)
        = .ok (some (.section "StringTableSection" hstr)) := by
  obtain ⟨nm, sh, hget, hoff, hlink, -⟩ := SV.dynamic
  obtain ⟨nm', hstr, hget', hoff'⟩ := SV.dynstr
  refine ⟨hstr, hoff', ?_⟩
  rw [container_sections_full, sections_length, range_split]
  rw [h] at hoff
  apply segFind_some _ _ _ _ _ _ _ _ _ _ hget hoff hlink hget'
  intro i hi
  have hi' : i < d.decoys + 3 := by simpa using hi
  obtain ⟨kind, nm0, sh0, o, hg, hk, ho⟩ := SV.other i (by omega) (by omega)
  exact ⟨kind, nm0, sh0, o, hg, ho, Or.inl hk⟩

/-- full layout, `.dynamic` section elsewhere: the search finds nothing -/
theorem segFind_full_nomatch {env : Env} {d : DynDesc} {f : ElfFile} (SV : SecView env d f)
    (o : Nat) (h : d.secDynOff = some o) (hne : o ≠ d.dynOff) :
    dynOfSegment.find env f d.dynOff (List.range (d.container true).sections.length) = .ok none := by
  rw [container_sections_full, sections_length]
  apply segFind_none
  intro i hi
  have hi' : i < d.decoys + 5 := by simpa using hi
  by_cases h3 : i = d.decoys + 3
  · subst h3
    obtain ⟨nm, sh, hget, hoff, -, -⟩ := SV.dynamic
    rw [h] at hoff
    exact ⟨_, nm, sh, o, hget, hoff, Or.inr hne⟩
  · obtain ⟨kind, nm0, sh0, o0, hg, hk, ho⟩ := SV.other i hi' h3
    exact ⟨kind, nm0, sh0, o0, hg, ho, Or.inl hk⟩

/-- the `DynamicSection` object of the full layout -/
theorem dynamicSection_full {env : Env} {d : DynDesc} {bytes : Bytes} {f : ElfFile}
    (FF : FileFacts env (d.container true) bytes f) (SV : SecView env d f) :
    ∃ hstr, hstr.getNat "sh_offset" = .ok d.strOff ∧
      dynamicSection env f
        = .ok (some ⟨some (.section "StringTableSection" hstr), d.secDynOff.getD d.dynOff, false, 2 * d.w⟩) := by
  obtain ⟨nm, sh, hget, hoff, hlink, hty⟩ := SV.dynamic
  obtain ⟨nm', hstr, hget', hoff'⟩ := SV.dynstr
  refine ⟨hstr, hoff', ?_⟩
  unfold dynamicSection
  rw [FF.nsec, container_sections_full, sections_length]
  simp only [bind, Except.bind]
  rw [findFirst_at _ _ _ (d.decoys + 3) hget (by simp) _ 0 (Nat.zero_le _) (by omega)
    (fun l _ hl => by
      obtain ⟨kind, nm0, sh0, o, hg, hk, -⟩ := SV.other l (by omega) (by omega)
      exact ⟨_, hg, by simpa using hk⟩)]
  simp only
  have hsz : sizeofR f.S.Elf_Dyn = .ok (2 * d.w) := by rw [FF.S, container_S]; exact sizeof_dyn d
  unfold dynOfSection
  simp only [bind, Except.bind, hlink, hget', hoff, hty, hsz, pure, Except.pure]
  rfl

/-- the stripped layout has no `DynamicSection` -/
theorem dynamicSection_stripped {env : Env} {d : DynDesc} {bytes : Bytes} {f : ElfFile}
    (FF : FileFacts env (d.container false) bytes f) : dynamicSection env f = .ok none := by
  unfold dynamicSection
  rw [FF.nsec, container_sections_stripped]
  rfl

/-! ### `TableView`, and where the strings are -/

theorem tableView_of {env : Env} {d : DynDesc} {full : Bool} {bytes : Bytes} {f : ElfFile}
    (FF : FileFacts env (d.container full) bytes f) (hw : 1 ≤ d.w) (hsmall : bytes.length < 2 ^ 63)
    (dy : Dyn) (hne : dy.empty = false) (hts : dy.tagsize = 2 * d.w)
    (tb : Bytes) (htb : d.tagBytes = some tb) (rest : Bytes) (hpl : bytes.drop dy.offset = tb ++ rest) :
    TableView f.S f.data dy d.le d.w (dTagTable d.mclass d.solaris) d.tags where
  con := by rw [FF.S]; exact spec_dyn d.cfg
  wpos := hw
  nonempty := hne
  tagsize := hts
  placed := ⟨tb, rest, by
    have : d.S.Elf_Dyn = dynCon d.le d.w (dTagTable d.mclass d.solaris) := spec_dyn d.cfg
    rw [← this]; exact htb, by rw [FF.data]; exact hpl⟩
  small := by rw [FF.data]; exact hsmall

/-! ### `DynDesc.wf`, unpacked -/

structure DynWf (env : Env) (d : DynDesc) (full : Bool) : Prop where
  term : hasTerminator d.tags = true
  strings : stringsOk d = true
  dynSeg : dynSegOk env d = true
  strtab : ptrOk env d DT_STRTAB (some d.strOff) = true
  symtab : ptrOk env d DT_SYMTAB (some d.symOff) = true
  hash : ptrOk env d DT_HASH (d.sysv.map (·.2)) = true
  gnuHash : ptrOk env d DT_GNU_HASH (d.gnu.map (·.2)) = true
  copy : ∀ o, d.secDynOff = some o → o ≠ d.dynOff
  phlen : (d.phdrs env).length = d.segments.length

theorem dyn_wf {env : Env} {d : DynDesc} {full : Bool} (h : d.wf env full = true) : DynWf env d full := by
  unfold DynDesc.wf at h
  simp only [Bool.and_eq_true, decide_eq_true_eq] at h
  obtain ⟨⟨⟨⟨⟨⟨⟨⟨⟨⟨⟨⟨⟨⟨⟨⟨⟨h1, -⟩, -⟩, h4⟩, h5⟩, h6⟩, h7⟩, h8⟩, h9⟩, -⟩, -⟩, -⟩, -⟩, -⟩, h15⟩, -⟩, -⟩, h18⟩ := h
  refine ⟨h1, h4, h5, h6, h7, h8, h9, ?_, h18⟩
  intro o ho
  rw [ho] at h15
  simpa using h15

theorem ptrOk_some {env : Env} {d : DynDesc} {t : Int} {o : Nat} (h : ptrOk env d t (some o) = true) :
    ∃ a, firstVal d.live t = some a ∧ mapAddr (d.phdrs env) a = some o := by
  unfold ptrOk at h
  cases hf : firstVal d.live t with
  | none => simp [hf] at h
  | some a => exact ⟨a, rfl, by simpa [hf] using h⟩

theorem ptrOk_none {env : Env} {d : DynDesc} {t : Int} (h : ptrOk env d t none = true) :
    firstVal d.live t = none := by
  unfold ptrOk at h
  cases hf : firstVal d.live t with
  | none => rfl
  | some a => simp [hf] at h

theorem stringsOk_tags {d : DynDesc} (h : stringsOk d = true) : StringsOk d.sunw d.strtab d.live := by
  unfold stringsOk at h
  simp only [Bool.and_eq_true, List.all_eq_true, Bool.or_eq_true] at h
  intro t ht
  rcases h.1 t ht with h1 | h1
  · exact Or.inl h1
  · exact Or.inr h1

theorem stringsOk_syms {d : DynDesc} (h : stringsOk d = true) :
    ∀ s ∈ d.syms, (strAt d.strtab (getNatD s "st_name")).isSome := by
  unfold stringsOk at h
  simp only [Bool.and_eq_true, List.all_eq_true] at h
  exact h.2

theorem w_pos {env : Env} {d : DynDesc} {full : Bool} (hc : (d.container full).wf env = true) : 1 ≤ d.w := by
  have := (wf_facts hc).cls
  have h2 : (d.container full).cls = d.cls := rfl
  rw [h2] at this
  unfold DynDesc.w
  rcases this with h | h <;> rw [h] <;> decide

/-! ### the segment side and the section side of a layout -/

/-- everything the C09 lemmas assume about the `DynamicSegment` of an image, established -/
structure SegSide (env : Env) (d : DynDesc) (full : Bool) (bytes : Bytes) (f : ElfFile) (dy : Dyn) (tab : StrTab) : Prop where
  opened : openElf env Props.C01.specStructs Props.C01.specMachineClass bytes = .ok f
  S : f.S = d.S
  le : f.le = d.le
  data : f.data = bytes
  seg : dynamicSegment env f = .ok (some dy)
  view : TableView f.S f.data dy d.le d.w (dTagTable d.mclass d.solaris) d.tags
  segs : SegsView (realIfc env f) (d.phdrs env)
  strtab : getStringtable env f.S f.data (realIfc env f) dy = .ok (some tab)
  serves : Serves f.data tab d.strtab
  iterSegs : ∃ gs, iterSegments env f.S f.data f.header f.shstr = .ok gs
  blobs : ∃ b, BlobFacts d full b ∧ ∀ r ∈ b, ∃ rest, f.data.drop r.1 = r.2 ++ rest

theorem serves_section {data strtab rest : Bytes} {hdr : Val} {toff : Nat}
    (hoff : hdr.getNat "sh_offset" = .ok toff) (hd : data.drop toff = strtab ++ rest)
    (hsmall : data.length < 2 ^ 63) : Serves data (.section "StringTableSection" hdr) strtab :=
  fun _ _ hs => getString_section hoff hd hs hsmall

theorem serves_dynamic {data strtab rest : Bytes} {toff : Nat}
    (hd : data.drop toff = strtab ++ rest) (hsmall : data.length < 2 ^ 63) :
    Serves data (.dynamic toff) strtab :=
  fun _ _ hs => getString_dynamic hd hs hsmall

theorem segSide_of {env : Env} (T : ShTypes env) {d : DynDesc}
    (hnull : NullIs env (dTagTable d.mclass d.solaris))
    (hst : TagIs env (dTagTable d.mclass d.solaris) "DT_STRTAB" DT_STRTAB)
    {full : Bool} {bytes : Bytes} (hc : (d.container full).wf env = true) (hd : d.wf env full = true)
    (hl : DynLayout d full bytes) (hsmall : bytes.length < 2 ^ 63) :
    ∃ f dy tab, SegSide env d full bytes f dy tab := by
  have W := dyn_wf hd
  obtain ⟨f, hopen, FF⟩ := file_facts hc (layout_container hl) (segs_decode W.phlen)
  obtain ⟨b, hb, hplaced⟩ := layout_blobs hl
  have B := blob_facts hb
  obtain ⟨tb, htb, hmem, -⟩ := B.tags
  obtain ⟨rest, hrest⟩ := hplaced _ hmem
  obtain ⟨srest, hsrest⟩ := hplaced _ B.str
  have SV := segsView_of FF W.phlen
  have hS : f.S = d.S := by rw [FF.S]; rfl
  have hle : f.le = d.le := by rw [FF.le]; rfl
  have hbl : ∃ b, BlobFacts d full b ∧ ∀ r ∈ b, ∃ rest, f.data.drop r.1 = r.2 ++ rest :=
    ⟨b, B, by rw [FF.data]; exact hplaced⟩
  have hsm : f.data.length < 2 ^ 63 := by rw [FF.data]; exact hsmall
  have hsr : f.data.drop d.strOff = d.strtab ++ srest := by rw [FF.data]; exact hsrest
  -- the string table the constructor finds, and the one `_get_stringtable` settles on
  have mk : ∀ st, dynOfSegment.find env f d.dynOff (List.range (d.container full).sections.length) = .ok st →
      ∃ dy, dynamicSegment env f = .ok (some dy) ∧ dy.strtab = st ∧
        TableView f.S f.data dy d.le d.w (dTagTable d.mclass d.solaris) d.tags := by
    intro st hfind
    refine ⟨_, dynamicSegment_of FF W.phlen W.dynSeg st hfind, rfl, ?_⟩
    exact tableView_of FF (w_pos hc) hsmall _ rfl rfl tb htb rest hrest
  have byPointer : ∀ dy, dy.strtab = none →
      TableView f.S f.data dy d.le d.w (dTagTable d.mclass d.solaris) d.tags →
      getStringtable env f.S f.data (realIfc env f) dy = .ok (some (.dynamic d.strOff)) := by
    intro dy hnone V
    obtain ⟨a, ha, ho⟩ := ptrOk_some W.strtab
    exact getStringtable_pointer V hnull W.term SV hst hnone ha ho
  cases full with
  | false =>
    obtain ⟨dy, hseg, hstn, V⟩ := mk none rfl
    exact ⟨f, dy, .dynamic d.strOff, hopen, hS, hle, FF.data, hseg, V, SV, byPointer dy hstn V,
      serves_dynamic hsr hsm, FF.iterSegs, hbl⟩
  | true =>
    have SecV := secView_of T FF
    cases hsd : d.secDynOff with
    | none =>
      obtain ⟨hstr, hoff, hfind⟩ := segFind_full_match SecV hsd
      obtain ⟨dy, hseg, hstn, V⟩ := mk _ hfind
      exact ⟨f, dy, _, hopen, hS, hle, FF.data, hseg, V, SV, getStringtable_given hstn,
        serves_section hoff hsr hsm, FF.iterSegs, hbl⟩
    | some o =>
      have hfind := segFind_full_nomatch SecV o hsd (W.copy o hsd)
      obtain ⟨dy, hseg, hstn, V⟩ := mk none hfind
      exact ⟨f, dy, .dynamic d.strOff, hopen, hS, hle, FF.data, hseg, V, SV, byPointer dy hstn V,
        serves_dynamic hsr hsm, FF.iterSegs, hbl⟩

/-- the same for the `DynamicSection` of the full layout -/
structure SecSide (env : Env) (d : DynDesc) (bytes : Bytes) (f : ElfFile) (dy : Dyn) (tab : StrTab) : Prop where
  sec : dynamicSection env f = .ok (some dy)
  view : TableView f.S f.data dy d.le d.w (dTagTable d.mclass d.solaris) d.tags
  strtab : getStringtable env f.S f.data (realIfc env f) dy = .ok (some tab)
  serves : Serves f.data tab d.strtab

theorem secSide_of {env : Env} (T : ShTypes env) {d : DynDesc} {bytes : Bytes}
    (hc : (d.container true).wf env = true) (hd : d.wf env true = true)
    (hl : DynLayout d true bytes) (hsmall : bytes.length < 2 ^ 63) (f : ElfFile)
    (hopen : openElf env Props.C01.specStructs Props.C01.specMachineClass bytes = .ok f) :
    ∃ dy tab, SecSide env d bytes f dy tab := by
  have W := dyn_wf hd
  obtain ⟨f', hopen', FF⟩ := file_facts hc (layout_container hl) (segs_decode W.phlen)
  rw [hopen] at hopen'
  cases hopen'
  obtain ⟨b, hb, hplaced⟩ := layout_blobs hl
  have B := blob_facts hb
  obtain ⟨tb, htb, hmem, hcopy⟩ := B.tags
  obtain ⟨srest, hsrest⟩ := hplaced _ B.str
  have hsm : f.data.length < 2 ^ 63 := by rw [FF.data]; exact hsmall
  have hsr : f.data.drop d.strOff = d.strtab ++ srest := by rw [FF.data]; exact hsrest
  obtain ⟨hstr, hoff, hsec⟩ := dynamicSection_full FF (secView_of T FF)
  have hpl : ∃ rest, bytes.drop (d.secDynOff.getD d.dynOff) = tb ++ rest := by
    cases hsd : d.secDynOff with
    | none => exact hplaced _ hmem
    | some o => exact hplaced _ (hcopy rfl o hsd)
  obtain ⟨rest, hrest⟩ := hpl
  exact ⟨_, _, hsec, tableView_of FF (w_pos hc) hsmall _ rfl rfl tb htb rest hrest,
    getStringtable_given rfl, serves_section hoff hsr hsm⟩

end PyElf.Proofs.Dynamic
