/-
  C06 helper lemmas: DATA ENDING INSIDE AN INSTRUCTION, at any byte.  For every DW_CFA opcode and every proper
  prefix of the instruction's encoding that contains the opcode byte, `_parse_instructions` raises ELFParseError
  (`parseInstr_cut`); after any well-formed prefix of instructions (`parseInstructions_cut`).
-/
import PyElf.Proofs.CfiMalformed
import PyElf.Proofs.CfiMalformedEntry
namespace PyElf.Proofs.CfiBad
open PyElf PyElf.Spec PyElf.Model PyElf.Proofs PyElf.Proofs.Cfi

/-! ### operands cut by the end of the data -/

theorem valid_take_high : ∀ (bs : Bytes), ValidLEB bs = true → ∀ j, j < bs.length → ∀ b ∈ bs.take j, 128 ≤ b.toNat := by
  intro bs
  induction bs with
  | nil => intro h; simp [ValidLEB] at h
  | cons x xs ih =>
    intro h j hj b hb
    cases j with
    | zero => simp at hb
    | succ j =>
      have hne : xs ≠ [] := by
        intro h0; subst h0; simp at hj
      rw [ValidLEB_cons_of_ne_nil _ hne, Bool.and_eq_true, decide_eq_true_eq] at h
      simp only [List.take_succ_cons, List.mem_cons] at hb
      rcases hb with rfl | hb
      · exact h.1
      · exact ih h.2 j (by simpa using hj) b hb

theorem sp_uint_cut {env : Env} {data : Bytes} {pos n v j : Nat} {le : Bool}
    (hd : data.drop pos = (encNat le n v).take j) (hj : j < n) :
    structParse env (.uint n le) data pos = .error .elfParseError :=
  sp_uint_eof hd (by rw [List.length_take, encNat_length]; omega)

theorem sp_uleb_cut {env : Env} {data : Bytes} {pos j : Nat} {u : ULeb} (hw : u.wf = true)
    (hd : data.drop pos = u.enc.take j) (hj : j < u.n) :
    structParse env .uleb data pos = .error .elfParseError := by
  simp only [ULeb.wf, Bool.and_eq_true, decide_eq_true_eq] at hw
  have hv := valid_take_high u.enc (encUlebN_valid u.n u.v hw.1) j (by rw [uleb_len]; exact hj)
  simp only [structParse, Con.parse, parseUleb_trunc hd hv, bind, Except.bind]

theorem sp_sleb_cut {env : Env} {data : Bytes} {pos j : Nat} {u : SLeb} (hw : u.wf = true)
    (hd : data.drop pos = u.enc.take j) (hj : j < u.n) :
    structParse env .sleb data pos = .error .elfParseError := by
  simp only [SLeb.wf, Bool.and_eq_true, decide_eq_true_eq] at hw
  have hv := valid_take_high u.enc (encSlebN_valid u.n u.v hw.1.1) j (by rw [sleb_len]; exact hj)
  simp only [structParse, Con.parse, parseSleb_trunc hd hv, bind, Except.bind]

theorem take_append_le {A B : Bytes} {j : Nat} (hj : j ≤ A.length) : (A ++ B).take j = A.take j := by
  rw [List.take_append, show j - A.length = 0 by omega]; simp

theorem take_append_ge {A B : Bytes} {j : Nat} (hj : A.length ≤ j) : (A ++ B).take j = A ++ B.take (j - A.length) := by
  rw [List.take_append, List.take_of_length_le hj]

theorem sp_block_cut {env : Env} {data : Bytes} {pos j : Nat} {le : Bool} {b : Block} (hw : b.wf = true)
    (hd : data.drop pos = b.enc.take j) (hj : j < b.n + b.bytes.length) :
    structParse env (.prefixed .uleb (.uint 1 le)) data pos = .error .elfParseError := by
  simp only [Block.wf, Bool.and_eq_true, decide_eq_true_eq] at hw
  have hlen : (encUlebN b.n b.bytes.length).length = b.n := encUlebN_length _ _
  by_cases hjn : j < b.n
  · have hd' : data.drop pos = (encUlebN b.n b.bytes.length).take j := by
      rw [hd, Block.enc, take_append_le (by omega)]
    have hv := valid_take_high _ (encUlebN_valid b.n b.bytes.length hw.1) j (by omega)
    simp only [structParse, Con.parse, parseUleb_trunc hd' hv, bind, Except.bind]
  · have hd' : data.drop pos = encUlebN b.n b.bytes.length ++ b.bytes.take (j - b.n) := by
      rw [hd, Block.enc, take_append_ge (by omega), hlen]
    have h1 := parse_uleb_ok (env := env) (ctx := []) hd' (encUlebN_valid b.n b.bytes.length hw.1)
    rw [ulebVal_enc_of_lt hw.2, hlen] at h1
    have hl := length_of_drop hd'
    simp only [List.length_append, hlen, List.length_take] at hl
    have := parse_prefixed_bytes_trunc (le := le) h1 (by omega)
    simp only [structParse, this, bind, Except.bind]

/-- the operand bytes after a one-byte opcode -/
theorem cut_opcode {data : Bytes} {pos op k : Nat} {A : Bytes} (hd : data.drop pos = (byte op ++ A).take k) (hk : 1 ≤ k) :
    data.drop pos = byte op ++ A.take (k - 1) := by
  rw [hd, take_append_ge (by simpa [byte] using hk)]; rfl

/-- two operands `A`, `B` in a row, cut at `j`: either the first read fails, or it succeeds and the second fails -/
theorem seq2_cut {env : Env} {c1 c2 : Con} {A B : Bytes} {v1 : Val} {data : Bytes} {p j n1 : Nat}
    (hd : data.drop p = (A ++ B).take j) (hA : A.length = n1) (hj : j < n1 + B.length)
    (ok1 : ∀ rest, data.drop p = A ++ rest → structParse env c1 data p = .ok (v1, p + n1))
    (cut1 : ∀ j', j' < n1 → data.drop p = A.take j' → structParse env c1 data p = .error .elfParseError)
    (cut2 : ∀ j', j' < B.length → data.drop (p + n1) = B.take j' → structParse env c2 data (p + n1) = .error .elfParseError) :
    structParse env c1 data p = .error .elfParseError ∨
      (structParse env c1 data p = .ok (v1, p + n1) ∧ structParse env c2 data (p + n1) = .error .elfParseError) := by
  by_cases h : j < n1
  · exact Or.inl (cut1 j h (by rw [hd, take_append_le (by omega)]))
  · have hd' : data.drop p = A ++ B.take (j - n1) := by rw [hd, take_append_ge (by omega), hA]
    exact Or.inr ⟨ok1 _ hd', cut2 (j - n1) (by omega) (drop_after hd' hA)⟩

theorem parseInstr_err {T : CfiTables} {S : DwarfStructs} {env : Env} {data : Bytes} {pos op : Nat} {le : Bool} {e : Err}
    (hu8 : S.the_Dwarf_uint8 = .uint 1 le)
    (hop : structParse env (.uint 1 le) data pos = .ok (.int (op : Nat), pos + 1))
    (hargs : parseInstrArgs T S env data op (pos + 1) = .error e) :
    parseInstr T S env data pos = .error e := by
  simp only [parseInstr, hu8, hop, asNat_nat, hargs, bind, Except.bind]

set_option maxHeartbeats 1000000 in
set_option linter.unusedSimpArgs false in
set_option linter.unusedVariables false in
/-- CLASS truncated instruction, in full: the data ends after `k` bytes of the instruction, `1 ≤ k < length` -/
theorem parseInstr_cut {S : DwarfStructs} {le : Bool} {asz : Nat} (hS : InstrStructs S le asz) (env : Env)
    (data : Bytes) (pos : Nat) (i : Cfa) (hw : i.wf asz = true) (k : Nat) (hk1 : 1 ≤ k)
    (hk : k < (i.enc le asz).length) (hd : data.drop pos = (i.enc le asz).take k) :
    parseInstr Spec.cfiTables S env data pos = .error .elfParseError := by
  cases i with
  | nop => simp [Cfa.enc, byte] at hk; omega
  | remember_state => simp [Cfa.enc, byte] at hk; omega
  | restore_state => simp [Cfa.enc, byte] at hk; omega
  | negate_ra_state => simp [Cfa.enc, byte] at hk; omega
  | advance_loc d => simp [Cfa.enc, byte] at hk; omega
  | restore d => simp [Cfa.enc, byte] at hk; omega
  | restore_extended r =>
    simp only [Cfa.wf] at hw
    have hlen : (Cfa.enc le asz (.restore_extended r)).length = 1 + r.n := by
      simp [Cfa.enc, byte, uleb_len, sleb_len, block_len, encNat_length] <;> omega
    have hd0 := cut_opcode (A := r.enc) (op := 6) (by simpa [Cfa.enc, List.append_assoc] using hd) hk1
    have hd1 := drop_after hd0 (n := 1) rfl
    have hf := sp_uleb_cut (env := env) hw hd1 (by omega)
    have hargs : parseInstrArgs Spec.cfiTables S env data (6) (pos + 1) = .error .elfParseError := by
      simp (config := { decide := true }) [parseInstrArgs, Spec.cfiTables, cfaOps, hS.uleb, hS.sleb, hS.u8, hS.u16, hS.u32, hS.addr, formBlock_ok hS, bind, Except.bind, pure, Except.pure, hf]
    exact parseInstr_err hS.u8 (sp_byte hd0 (by decide)) hargs
  | undefined r =>
    simp only [Cfa.wf] at hw
    have hlen : (Cfa.enc le asz (.undefined r)).length = 1 + r.n := by
      simp [Cfa.enc, byte, uleb_len, sleb_len, block_len, encNat_length] <;> omega
    have hd0 := cut_opcode (A := r.enc) (op := 7) (by simpa [Cfa.enc, List.append_assoc] using hd) hk1
    have hd1 := drop_after hd0 (n := 1) rfl
    have hf := sp_uleb_cut (env := env) hw hd1 (by omega)
    have hargs : parseInstrArgs Spec.cfiTables S env data (7) (pos + 1) = .error .elfParseError := by
      simp (config := { decide := true }) [parseInstrArgs, Spec.cfiTables, cfaOps, hS.uleb, hS.sleb, hS.u8, hS.u16, hS.u32, hS.addr, formBlock_ok hS, bind, Except.bind, pure, Except.pure, hf]
    exact parseInstr_err hS.u8 (sp_byte hd0 (by decide)) hargs
  | same_value r =>
    simp only [Cfa.wf] at hw
    have hlen : (Cfa.enc le asz (.same_value r)).length = 1 + r.n := by
      simp [Cfa.enc, byte, uleb_len, sleb_len, block_len, encNat_length] <;> omega
    have hd0 := cut_opcode (A := r.enc) (op := 8) (by simpa [Cfa.enc, List.append_assoc] using hd) hk1
    have hd1 := drop_after hd0 (n := 1) rfl
    have hf := sp_uleb_cut (env := env) hw hd1 (by omega)
    have hargs : parseInstrArgs Spec.cfiTables S env data (8) (pos + 1) = .error .elfParseError := by
      simp (config := { decide := true }) [parseInstrArgs, Spec.cfiTables, cfaOps, hS.uleb, hS.sleb, hS.u8, hS.u16, hS.u32, hS.addr, formBlock_ok hS, bind, Except.bind, pure, Except.pure, hf]
    exact parseInstr_err hS.u8 (sp_byte hd0 (by decide)) hargs
  | def_cfa_register r =>
    simp only [Cfa.wf] at hw
    have hlen : (Cfa.enc le asz (.def_cfa_register r)).length = 1 + r.n := by
      simp [Cfa.enc, byte, uleb_len, sleb_len, block_len, encNat_length] <;> omega
    have hd0 := cut_opcode (A := r.enc) (op := 0xd) (by simpa [Cfa.enc, List.append_assoc] using hd) hk1
    have hd1 := drop_after hd0 (n := 1) rfl
    have hf := sp_uleb_cut (env := env) hw hd1 (by omega)
    have hargs : parseInstrArgs Spec.cfiTables S env data (0xd) (pos + 1) = .error .elfParseError := by
      simp (config := { decide := true }) [parseInstrArgs, Spec.cfiTables, cfaOps, hS.uleb, hS.sleb, hS.u8, hS.u16, hS.u32, hS.addr, formBlock_ok hS, bind, Except.bind, pure, Except.pure, hf]
    exact parseInstr_err hS.u8 (sp_byte hd0 (by decide)) hargs
  | def_cfa_offset r =>
    simp only [Cfa.wf] at hw
    have hlen : (Cfa.enc le asz (.def_cfa_offset r)).length = 1 + r.n := by
      simp [Cfa.enc, byte, uleb_len, sleb_len, block_len, encNat_length] <;> omega
    have hd0 := cut_opcode (A := r.enc) (op := 0xe) (by simpa [Cfa.enc, List.append_assoc] using hd) hk1
    have hd1 := drop_after hd0 (n := 1) rfl
    have hf := sp_uleb_cut (env := env) hw hd1 (by omega)
    have hargs : parseInstrArgs Spec.cfiTables S env data (0xe) (pos + 1) = .error .elfParseError := by
      simp (config := { decide := true }) [parseInstrArgs, Spec.cfiTables, cfaOps, hS.uleb, hS.sleb, hS.u8, hS.u16, hS.u32, hS.addr, formBlock_ok hS, bind, Except.bind, pure, Except.pure, hf]
    exact parseInstr_err hS.u8 (sp_byte hd0 (by decide)) hargs
  | gnu_args_size r =>
    simp only [Cfa.wf] at hw
    have hlen : (Cfa.enc le asz (.gnu_args_size r)).length = 1 + r.n := by
      simp [Cfa.enc, byte, uleb_len, sleb_len, block_len, encNat_length] <;> omega
    have hd0 := cut_opcode (A := r.enc) (op := 0x2e) (by simpa [Cfa.enc, List.append_assoc] using hd) hk1
    have hd1 := drop_after hd0 (n := 1) rfl
    have hf := sp_uleb_cut (env := env) hw hd1 (by omega)
    have hargs : parseInstrArgs Spec.cfiTables S env data (0x2e) (pos + 1) = .error .elfParseError := by
      simp (config := { decide := true }) [parseInstrArgs, Spec.cfiTables, cfaOps, hS.uleb, hS.sleb, hS.u8, hS.u16, hS.u32, hS.addr, formBlock_ok hS, bind, Except.bind, pure, Except.pure, hf]
    exact parseInstr_err hS.u8 (sp_byte hd0 (by decide)) hargs
  | def_cfa_offset_sf r =>
    simp only [Cfa.wf] at hw
    have hlen : (Cfa.enc le asz (.def_cfa_offset_sf r)).length = 1 + r.n := by
      simp [Cfa.enc, byte, uleb_len, sleb_len, block_len, encNat_length] <;> omega
    have hd0 := cut_opcode (A := r.enc) (op := 0x13) (by simpa [Cfa.enc, List.append_assoc] using hd) hk1
    have hd1 := drop_after hd0 (n := 1) rfl
    have hf := sp_sleb_cut (env := env) hw hd1 (by omega)
    have hargs : parseInstrArgs Spec.cfiTables S env data (0x13) (pos + 1) = .error .elfParseError := by
      simp (config := { decide := true }) [parseInstrArgs, Spec.cfiTables, cfaOps, hS.uleb, hS.sleb, hS.u8, hS.u16, hS.u32, hS.addr, formBlock_ok hS, bind, Except.bind, pure, Except.pure, hf]
    exact parseInstr_err hS.u8 (sp_byte hd0 (by decide)) hargs
  | def_cfa_expression e =>
    simp only [Cfa.wf] at hw
    have hlen : (Cfa.enc le asz (.def_cfa_expression e)).length = 1 + (e.n + e.bytes.length) := by
      simp [Cfa.enc, byte, uleb_len, sleb_len, block_len, encNat_length] <;> omega
    have hd0 := cut_opcode (A := e.enc) (op := 0xf) (by simpa [Cfa.enc, List.append_assoc] using hd) hk1
    have hd1 := drop_after hd0 (n := 1) rfl
    have hf := sp_block_cut (env := env) (le := le) hw hd1 (by omega)
    have hargs : parseInstrArgs Spec.cfiTables S env data (0xf) (pos + 1) = .error .elfParseError := by
      simp (config := { decide := true }) [parseInstrArgs, Spec.cfiTables, cfaOps, hS.uleb, hS.sleb, hS.u8, hS.u16, hS.u32, hS.addr, formBlock_ok hS, bind, Except.bind, pure, Except.pure, hf]
    exact parseInstr_err hS.u8 (sp_byte hd0 (by decide)) hargs
  | set_loc a =>
    simp only [Cfa.wf, decide_eq_true_eq] at hw
    have hlen : (Cfa.enc le asz (.set_loc a)).length = 1 + asz := by
      simp [Cfa.enc, byte, uleb_len, sleb_len, block_len, encNat_length] <;> omega
    have hd0 := cut_opcode (A := encNat le asz a) (op := 1) (by simpa [Cfa.enc, List.append_assoc] using hd) hk1
    have hd1 := drop_after hd0 (n := 1) rfl
    have hf := sp_uint_cut (env := env) (le := le) hd1 (by omega)
    have hargs : parseInstrArgs Spec.cfiTables S env data (1) (pos + 1) = .error .elfParseError := by
      simp (config := { decide := true }) [parseInstrArgs, Spec.cfiTables, cfaOps, hS.uleb, hS.sleb, hS.u8, hS.u16, hS.u32, hS.addr, formBlock_ok hS, bind, Except.bind, pure, Except.pure, hf]
    exact parseInstr_err hS.u8 (sp_byte hd0 (by decide)) hargs
  | advance_loc1 a =>
    simp only [Cfa.wf, decide_eq_true_eq] at hw
    have hlen : (Cfa.enc le asz (.advance_loc1 a)).length = 1 + 1 := by
      simp [Cfa.enc, byte, uleb_len, sleb_len, block_len, encNat_length] <;> omega
    have hd0 := cut_opcode (A := encNat le 1 a) (op := 2) (by simpa [Cfa.enc, List.append_assoc] using hd) hk1
    have hd1 := drop_after hd0 (n := 1) rfl
    have hf := sp_uint_cut (env := env) (le := le) hd1 (by omega)
    have hargs : parseInstrArgs Spec.cfiTables S env data (2) (pos + 1) = .error .elfParseError := by
      simp (config := { decide := true }) [parseInstrArgs, Spec.cfiTables, cfaOps, hS.uleb, hS.sleb, hS.u8, hS.u16, hS.u32, hS.addr, formBlock_ok hS, bind, Except.bind, pure, Except.pure, hf]
    exact parseInstr_err hS.u8 (sp_byte hd0 (by decide)) hargs
  | advance_loc2 a =>
    simp only [Cfa.wf, decide_eq_true_eq] at hw
    have hlen : (Cfa.enc le asz (.advance_loc2 a)).length = 1 + 2 := by
      simp [Cfa.enc, byte, uleb_len, sleb_len, block_len, encNat_length] <;> omega
    have hd0 := cut_opcode (A := encNat le 2 a) (op := 3) (by simpa [Cfa.enc, List.append_assoc] using hd) hk1
    have hd1 := drop_after hd0 (n := 1) rfl
    have hf := sp_uint_cut (env := env) (le := le) hd1 (by omega)
    have hargs : parseInstrArgs Spec.cfiTables S env data (3) (pos + 1) = .error .elfParseError := by
      simp (config := { decide := true }) [parseInstrArgs, Spec.cfiTables, cfaOps, hS.uleb, hS.sleb, hS.u8, hS.u16, hS.u32, hS.addr, formBlock_ok hS, bind, Except.bind, pure, Except.pure, hf]
    exact parseInstr_err hS.u8 (sp_byte hd0 (by decide)) hargs
  | advance_loc4 a =>
    simp only [Cfa.wf, decide_eq_true_eq] at hw
    have hlen : (Cfa.enc le asz (.advance_loc4 a)).length = 1 + 4 := by
      simp [Cfa.enc, byte, uleb_len, sleb_len, block_len, encNat_length] <;> omega
    have hd0 := cut_opcode (A := encNat le 4 a) (op := 4) (by simpa [Cfa.enc, List.append_assoc] using hd) hk1
    have hd1 := drop_after hd0 (n := 1) rfl
    have hf := sp_uint_cut (env := env) (le := le) hd1 (by omega)
    have hargs : parseInstrArgs Spec.cfiTables S env data (4) (pos + 1) = .error .elfParseError := by
      simp (config := { decide := true }) [parseInstrArgs, Spec.cfiTables, cfaOps, hS.uleb, hS.sleb, hS.u8, hS.u16, hS.u32, hS.addr, formBlock_ok hS, bind, Except.bind, pure, Except.pure, hf]
    exact parseInstr_err hS.u8 (sp_byte hd0 (by decide)) hargs
  | offset d o =>
    simp only [Cfa.wf, Bool.and_eq_true, decide_eq_true_eq] at hw
    have hlen : (Cfa.enc le asz (.offset d o)).length = 1 + o.n := by
      simp [Cfa.enc, byte, uleb_len, sleb_len, block_len, encNat_length] <;> omega
    have hd0 := cut_opcode (A := o.enc) (op := 0x80 + d) (by simpa [Cfa.enc, List.append_assoc] using hd) hk1
    have hd1 := drop_after hd0 (n := 1) rfl
    have hf := sp_uleb_cut (env := env) hw.2 hd1 (by omega)
    have hargs : parseInstrArgs Spec.cfiTables S env data (0x80 + d) (pos + 1) = .error .elfParseError := by
      simp (config := { decide := true }) [parseInstrArgs, Spec.cfiTables, cfaOps, hS.uleb, hS.sleb, hS.u8, hS.u16, hS.u32, hS.addr, formBlock_ok hS, bind, Except.bind, pure, Except.pure, and_c0_80 d hw.1, and_3f_80 d hw.1, hf]
    exact parseInstr_err hS.u8 (sp_byte hd0 (by omega)) hargs
  | offset_extended r o =>
    simp only [Cfa.wf, Bool.and_eq_true] at hw
    have hlen : (Cfa.enc le asz (.offset_extended r o)).length = 1 + r.n + (o.n) := by
      simp [Cfa.enc, byte, uleb_len, sleb_len, block_len, encNat_length] <;> omega
    have hd0 := cut_opcode (A := r.enc ++ o.enc) (op := 5) (by simpa [Cfa.enc, List.append_assoc] using hd) hk1
    have hd1 := drop_after hd0 (n := 1) rfl
    have hB : o.enc.length = o.n := uleb_len o
    have hargs : parseInstrArgs Spec.cfiTables S env data (5) (pos + 1) = .error .elfParseError := by
      rcases seq2_cut (env := env) (c1 := .uleb) (c2 := .uleb) (v1 := .int r.v) hd1 (uleb_len r) (by rw [hB]; omega)
          (fun rest h => sp_uleb h hw.1) (fun j' hj' h => sp_uleb_cut hw.1 h hj')
          (fun j' hj' h => sp_uleb_cut hw.2 h (by rw [hB] at hj'; exact hj')) with h1 | ⟨h1, h2⟩
      · simp (config := { decide := true }) [parseInstrArgs, Spec.cfiTables, cfaOps, hS.uleb, hS.sleb, hS.u8, hS.u16, hS.u32, hS.addr, formBlock_ok hS, bind, Except.bind, pure, Except.pure, h1]
      · simp (config := { decide := true }) [parseInstrArgs, Spec.cfiTables, cfaOps, hS.uleb, hS.sleb, hS.u8, hS.u16, hS.u32, hS.addr, formBlock_ok hS, bind, Except.bind, pure, Except.pure, h1, h2]
    exact parseInstr_err hS.u8 (sp_byte hd0 (by decide)) hargs
  | register r o =>
    simp only [Cfa.wf, Bool.and_eq_true] at hw
    have hlen : (Cfa.enc le asz (.register r o)).length = 1 + r.n + (o.n) := by
      simp [Cfa.enc, byte, uleb_len, sleb_len, block_len, encNat_length] <;> omega
    have hd0 := cut_opcode (A := r.enc ++ o.enc) (op := 9) (by simpa [Cfa.enc, List.append_assoc] using hd) hk1
    have hd1 := drop_after hd0 (n := 1) rfl
    have hB : o.enc.length = o.n := uleb_len o
    have hargs : parseInstrArgs Spec.cfiTables S env data (9) (pos + 1) = .error .elfParseError := by
      rcases seq2_cut (env := env) (c1 := .uleb) (c2 := .uleb) (v1 := .int r.v) hd1 (uleb_len r) (by rw [hB]; omega)
          (fun rest h => sp_uleb h hw.1) (fun j' hj' h => sp_uleb_cut hw.1 h hj')
          (fun j' hj' h => sp_uleb_cut hw.2 h (by rw [hB] at hj'; exact hj')) with h1 | ⟨h1, h2⟩
      · simp (config := { decide := true }) [parseInstrArgs, Spec.cfiTables, cfaOps, hS.uleb, hS.sleb, hS.u8, hS.u16, hS.u32, hS.addr, formBlock_ok hS, bind, Except.bind, pure, Except.pure, h1]
      · simp (config := { decide := true }) [parseInstrArgs, Spec.cfiTables, cfaOps, hS.uleb, hS.sleb, hS.u8, hS.u16, hS.u32, hS.addr, formBlock_ok hS, bind, Except.bind, pure, Except.pure, h1, h2]
    exact parseInstr_err hS.u8 (sp_byte hd0 (by decide)) hargs
  | def_cfa r o =>
    simp only [Cfa.wf, Bool.and_eq_true] at hw
    have hlen : (Cfa.enc le asz (.def_cfa r o)).length = 1 + r.n + (o.n) := by
      simp [Cfa.enc, byte, uleb_len, sleb_len, block_len, encNat_length] <;> omega
    have hd0 := cut_opcode (A := r.enc ++ o.enc) (op := 0xc) (by simpa [Cfa.enc, List.append_assoc] using hd) hk1
    have hd1 := drop_after hd0 (n := 1) rfl
    have hB : o.enc.length = o.n := uleb_len o
    have hargs : parseInstrArgs Spec.cfiTables S env data (0xc) (pos + 1) = .error .elfParseError := by
      rcases seq2_cut (env := env) (c1 := .uleb) (c2 := .uleb) (v1 := .int r.v) hd1 (uleb_len r) (by rw [hB]; omega)
          (fun rest h => sp_uleb h hw.1) (fun j' hj' h => sp_uleb_cut hw.1 h hj')
          (fun j' hj' h => sp_uleb_cut hw.2 h (by rw [hB] at hj'; exact hj')) with h1 | ⟨h1, h2⟩
      · simp (config := { decide := true }) [parseInstrArgs, Spec.cfiTables, cfaOps, hS.uleb, hS.sleb, hS.u8, hS.u16, hS.u32, hS.addr, formBlock_ok hS, bind, Except.bind, pure, Except.pure, h1]
      · simp (config := { decide := true }) [parseInstrArgs, Spec.cfiTables, cfaOps, hS.uleb, hS.sleb, hS.u8, hS.u16, hS.u32, hS.addr, formBlock_ok hS, bind, Except.bind, pure, Except.pure, h1, h2]
    exact parseInstr_err hS.u8 (sp_byte hd0 (by decide)) hargs
  | val_offset r o =>
    simp only [Cfa.wf, Bool.and_eq_true] at hw
    have hlen : (Cfa.enc le asz (.val_offset r o)).length = 1 + r.n + (o.n) := by
      simp [Cfa.enc, byte, uleb_len, sleb_len, block_len, encNat_length] <;> omega
    have hd0 := cut_opcode (A := r.enc ++ o.enc) (op := 0x14) (by simpa [Cfa.enc, List.append_assoc] using hd) hk1
    have hd1 := drop_after hd0 (n := 1) rfl
    have hB : o.enc.length = o.n := uleb_len o
    have hargs : parseInstrArgs Spec.cfiTables S env data (0x14) (pos + 1) = .error .elfParseError := by
      rcases seq2_cut (env := env) (c1 := .uleb) (c2 := .uleb) (v1 := .int r.v) hd1 (uleb_len r) (by rw [hB]; omega)
          (fun rest h => sp_uleb h hw.1) (fun j' hj' h => sp_uleb_cut hw.1 h hj')
          (fun j' hj' h => sp_uleb_cut hw.2 h (by rw [hB] at hj'; exact hj')) with h1 | ⟨h1, h2⟩
      · simp (config := { decide := true }) [parseInstrArgs, Spec.cfiTables, cfaOps, hS.uleb, hS.sleb, hS.u8, hS.u16, hS.u32, hS.addr, formBlock_ok hS, bind, Except.bind, pure, Except.pure, h1]
      · simp (config := { decide := true }) [parseInstrArgs, Spec.cfiTables, cfaOps, hS.uleb, hS.sleb, hS.u8, hS.u16, hS.u32, hS.addr, formBlock_ok hS, bind, Except.bind, pure, Except.pure, h1, h2]
    exact parseInstr_err hS.u8 (sp_byte hd0 (by decide)) hargs
  | offset_extended_sf r o =>
    simp only [Cfa.wf, Bool.and_eq_true] at hw
    have hlen : (Cfa.enc le asz (.offset_extended_sf r o)).length = 1 + r.n + (o.n) := by
      simp [Cfa.enc, byte, uleb_len, sleb_len, block_len, encNat_length] <;> omega
    have hd0 := cut_opcode (A := r.enc ++ o.enc) (op := 0x11) (by simpa [Cfa.enc, List.append_assoc] using hd) hk1
    have hd1 := drop_after hd0 (n := 1) rfl
    have hB : o.enc.length = o.n := sleb_len o
    have hargs : parseInstrArgs Spec.cfiTables S env data (0x11) (pos + 1) = .error .elfParseError := by
      rcases seq2_cut (env := env) (c1 := .uleb) (c2 := .sleb) (v1 := .int r.v) hd1 (uleb_len r) (by rw [hB]; omega)
          (fun rest h => sp_uleb h hw.1) (fun j' hj' h => sp_uleb_cut hw.1 h hj')
          (fun j' hj' h => sp_sleb_cut hw.2 h (by rw [hB] at hj'; exact hj')) with h1 | ⟨h1, h2⟩
      · simp (config := { decide := true }) [parseInstrArgs, Spec.cfiTables, cfaOps, hS.uleb, hS.sleb, hS.u8, hS.u16, hS.u32, hS.addr, formBlock_ok hS, bind, Except.bind, pure, Except.pure, h1]
      · simp (config := { decide := true }) [parseInstrArgs, Spec.cfiTables, cfaOps, hS.uleb, hS.sleb, hS.u8, hS.u16, hS.u32, hS.addr, formBlock_ok hS, bind, Except.bind, pure, Except.pure, h1, h2]
    exact parseInstr_err hS.u8 (sp_byte hd0 (by decide)) hargs
  | def_cfa_sf r o =>
    simp only [Cfa.wf, Bool.and_eq_true] at hw
    have hlen : (Cfa.enc le asz (.def_cfa_sf r o)).length = 1 + r.n + (o.n) := by
      simp [Cfa.enc, byte, uleb_len, sleb_len, block_len, encNat_length] <;> omega
    have hd0 := cut_opcode (A := r.enc ++ o.enc) (op := 0x12) (by simpa [Cfa.enc, List.append_assoc] using hd) hk1
    have hd1 := drop_after hd0 (n := 1) rfl
    have hB : o.enc.length = o.n := sleb_len o
    have hargs : parseInstrArgs Spec.cfiTables S env data (0x12) (pos + 1) = .error .elfParseError := by
      rcases seq2_cut (env := env) (c1 := .uleb) (c2 := .sleb) (v1 := .int r.v) hd1 (uleb_len r) (by rw [hB]; omega)
          (fun rest h => sp_uleb h hw.1) (fun j' hj' h => sp_uleb_cut hw.1 h hj')
          (fun j' hj' h => sp_sleb_cut hw.2 h (by rw [hB] at hj'; exact hj')) with h1 | ⟨h1, h2⟩
      · simp (config := { decide := true }) [parseInstrArgs, Spec.cfiTables, cfaOps, hS.uleb, hS.sleb, hS.u8, hS.u16, hS.u32, hS.addr, formBlock_ok hS, bind, Except.bind, pure, Except.pure, h1]
      · simp (config := { decide := true }) [parseInstrArgs, Spec.cfiTables, cfaOps, hS.uleb, hS.sleb, hS.u8, hS.u16, hS.u32, hS.addr, formBlock_ok hS, bind, Except.bind, pure, Except.pure, h1, h2]
    exact parseInstr_err hS.u8 (sp_byte hd0 (by decide)) hargs
  | val_offset_sf r o =>
    simp only [Cfa.wf, Bool.and_eq_true] at hw
    have hlen : (Cfa.enc le asz (.val_offset_sf r o)).length = 1 + r.n + (o.n) := by
      simp [Cfa.enc, byte, uleb_len, sleb_len, block_len, encNat_length] <;> omega
    have hd0 := cut_opcode (A := r.enc ++ o.enc) (op := 0x15) (by simpa [Cfa.enc, List.append_assoc] using hd) hk1
    have hd1 := drop_after hd0 (n := 1) rfl
    have hB : o.enc.length = o.n := sleb_len o
    have hargs : parseInstrArgs Spec.cfiTables S env data (0x15) (pos + 1) = .error .elfParseError := by
      rcases seq2_cut (env := env) (c1 := .uleb) (c2 := .sleb) (v1 := .int r.v) hd1 (uleb_len r) (by rw [hB]; omega)
          (fun rest h => sp_uleb h hw.1) (fun j' hj' h => sp_uleb_cut hw.1 h hj')
          (fun j' hj' h => sp_sleb_cut hw.2 h (by rw [hB] at hj'; exact hj')) with h1 | ⟨h1, h2⟩
      · simp (config := { decide := true }) [parseInstrArgs, Spec.cfiTables, cfaOps, hS.uleb, hS.sleb, hS.u8, hS.u16, hS.u32, hS.addr, formBlock_ok hS, bind, Except.bind, pure, Except.pure, h1]
      · simp (config := { decide := true }) [parseInstrArgs, Spec.cfiTables, cfaOps, hS.uleb, hS.sleb, hS.u8, hS.u16, hS.u32, hS.addr, formBlock_ok hS, bind, Except.bind, pure, Except.pure, h1, h2]
    exact parseInstr_err hS.u8 (sp_byte hd0 (by decide)) hargs
  | expression r e =>
    simp only [Cfa.wf, Bool.and_eq_true] at hw
    have hlen : (Cfa.enc le asz (.expression r e)).length = 1 + r.n + (e.n + e.bytes.length) := by
      simp [Cfa.enc, byte, uleb_len, sleb_len, block_len, encNat_length] <;> omega
    have hd0 := cut_opcode (A := r.enc ++ e.enc) (op := 0x10) (by simpa [Cfa.enc, List.append_assoc] using hd) hk1
    have hd1 := drop_after hd0 (n := 1) rfl
    have hB : e.enc.length = e.n + e.bytes.length := block_len e
    have hargs : parseInstrArgs Spec.cfiTables S env data (0x10) (pos + 1) = .error .elfParseError := by
      rcases seq2_cut (env := env) (c1 := .uleb) (c2 := (.prefixed .uleb (.uint 1 le))) (v1 := .int r.v) hd1 (uleb_len r) (by rw [hB]; omega)
          (fun rest h => sp_uleb h hw.1) (fun j' hj' h => sp_uleb_cut hw.1 h hj')
          (fun j' hj' h => sp_block_cut (le := le) hw.2 h (by rw [hB] at hj'; exact hj')) with h1 | ⟨h1, h2⟩
      · simp (config := { decide := true }) [parseInstrArgs, Spec.cfiTables, cfaOps, hS.uleb, hS.sleb, hS.u8, hS.u16, hS.u32, hS.addr, formBlock_ok hS, bind, Except.bind, pure, Except.pure, h1]
      · simp (config := { decide := true }) [parseInstrArgs, Spec.cfiTables, cfaOps, hS.uleb, hS.sleb, hS.u8, hS.u16, hS.u32, hS.addr, formBlock_ok hS, bind, Except.bind, pure, Except.pure, h1, h2]
    exact parseInstr_err hS.u8 (sp_byte hd0 (by decide)) hargs
  | val_expression r e =>
    simp only [Cfa.wf, Bool.and_eq_true] at hw
    have hlen : (Cfa.enc le asz (.val_expression r e)).length = 1 + r.n + (e.n + e.bytes.length) := by
      simp [Cfa.enc, byte, uleb_len, sleb_len, block_len, encNat_length] <;> omega
    have hd0 := cut_opcode (A := r.enc ++ e.enc) (op := 0x16) (by simpa [Cfa.enc, List.append_assoc] using hd) hk1
    have hd1 := drop_after hd0 (n := 1) rfl
    have hB : e.enc.length = e.n + e.bytes.length := block_len e
    have hargs : parseInstrArgs Spec.cfiTables S env data (0x16) (pos + 1) = .error .elfParseError := by
      rcases seq2_cut (env := env) (c1 := .uleb) (c2 := (.prefixed .uleb (.uint 1 le))) (v1 := .int r.v) hd1 (uleb_len r) (by rw [hB]; omega)
          (fun rest h => sp_uleb h hw.1) (fun j' hj' h => sp_uleb_cut hw.1 h hj')
          (fun j' hj' h => sp_block_cut (le := le) hw.2 h (by rw [hB] at hj'; exact hj')) with h1 | ⟨h1, h2⟩
      · simp (config := { decide := true }) [parseInstrArgs, Spec.cfiTables, cfaOps, hS.uleb, hS.sleb, hS.u8, hS.u16, hS.u32, hS.addr, formBlock_ok hS, bind, Except.bind, pure, Except.pure, h1]
      · simp (config := { decide := true }) [parseInstrArgs, Spec.cfiTables, cfaOps, hS.uleb, hS.sleb, hS.u8, hS.u16, hS.u32, hS.addr, formBlock_ok hS, bind, Except.bind, pure, Except.pure, h1, h2]
    exact parseInstr_err hS.u8 (sp_byte hd0 (by decide)) hargs

/-- … after any well-formed prefix of instructions, before the declared end -/
theorem parseInstructions_cut {S : DwarfStructs} {le : Bool} {asz : Nat} (hS : InstrStructs S le asz) (env : Env)
    (data : Bytes) (endOff : Nat) (is : List Cfa) (pos fuel : Nat) (i : Cfa) (k : Nat)
    (hd : data.drop pos = encInstrs le asz is ++ (i.enc le asz).take k) (hw : ∀ j ∈ is, j.wf asz = true)
    (hwi : i.wf asz = true) (hk1 : 1 ≤ k) (hk : k < (i.enc le asz).length)
    (hend : pos + (encInstrs le asz is).length < endOff) :
    parseInstructions Spec.cfiTables S env data endOff (fuel + 1 + is.length) pos = .error .elfParseError := by
  rw [parseInstructions_prefix hS env data endOff is pos (fuel + 1) _ hd hw (by omega), parseInstructions]
  simp only [hend, if_true, parseInstr_cut hS env data _ i hwi k hk1 hk (drop_add_of_drop hd), bind, Except.bind, Except.map]

/-- CLASS truncated instruction, whole CIE: the data ends after `k` bytes of an instruction of the CIE -/
theorem cie_instr_cut (sec : Section) (env : Env) (data : Bytes) (c : Cie) (L : Nat) (is : List Cfa) (i : Cfa) (k : Nat)
    (off fuel pos : Nat) (cache : Cache)
    (hw : cieHeaderWf sec c = true) (hasz : sec.asz = 4 ∨ sec.asz = 8)
    (hd' : data.drop off = encLength sec.le c.fmt64 L ++
      cieHdrBytes sec.le (offSize c.fmt64) (cieIdv sec c) c.version (augString c.aug) c.addrSize c.segSize c.caf c.daf
        c.ra (cieAugPart sec c ++ (encInstrs sec.le sec.asz is ++ (i.enc sec.le sec.asz).take k)))
    (hlen : lenOk c.fmt64 L = true) (hLpos : 0 < L) (hoff : off < 2 ^ 63) (hmiss : cache.get (off : Int) = none)
    (hwi : ∀ j ∈ is, j.wf sec.asz = true) (hi : i.wf sec.asz = true) (hk1 : 1 ≤ k)
    (hk : k < (i.enc sec.le sec.asz).length)
    (hend : cieInstrStart sec c off + (encInstrs sec.le sec.asz is).length < off + L + ilfs c.fmt64) :
    parseEntryAt (cfiOf sec env data) (fuel + 1) off pos cache = .error .elfParseError := by
  rw [cie_prologue sec env data c L _ off fuel pos cache hw hasz hd' hlen hLpos hoff hmiss]
  have hl := cie_start_le sec data c L _ off hd'
  have hil := instrs_length_le sec.le sec.asz is
  simp only [List.length_append, List.length_take] at hl
  obtain ⟨f, hf⟩ : ∃ f, data.length + 1 - cieInstrStart sec c off = f + 1 + is.length :=
    ⟨data.length + 1 - cieInstrStart sec c off - 1 - is.length, by omega⟩
  rw [hf, parseInstructions_cut (instrStructs_spec sec.le (fmtOf c.fmt64) sec.asz 2) env data _ is _ f i k
    (cie_tail_drop sec data c L _ off hd') hwi hi hk1 hk hend]
  rfl

end PyElf.Proofs.CfiBad
