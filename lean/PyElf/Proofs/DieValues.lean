/-
  C04 helper lemmas, part 8: value translation (`DIE._translate_attr_value`) against the
  standard's `Spec.C04.resolve`, under an explicit layout of the referenced sections.
-/
import PyElf.Spec.DieTree
import PyElf.Model.Die
import PyElf.Proofs.Primitives
import PyElf.Proofs.DieEntry
namespace PyElf.Proofs.C04
open PyElf PyElf.Spec PyElf.Spec.C04 PyElf.Model PyElf.Model.C04 PyElf.Proofs

/-- how the unit context relates to the abstract sections: the same section contents, the
    unit's DWARF format and address size, and every section addressable by a `Py_ssize_t` -/
structure SecsOK (U : UnitCtx) (c : DwarfCfg) (secs : Sections) : Prop where
  secsEq : U.secs = secs
  fmt : U.fmt = c.fmt
  asz : U.addrSize = c.asz
  fmtOK : c.fmt = 32 ∨ c.fmt = 64
  aszPos : 1 ≤ c.asz
  small : ∀ s, (secs.str = some s ∨ secs.lineStr = some s ∨ secs.addr = some s ∨ secs.strOffsets = some s ∨
            secs.loclists = some s ∨ secs.rnglists = some s) → s.length < 2 ^ 63

/-- the base attributes the cached top entry presents are the unit's bases -/
structure BasesOK (top : List AttrObs) (b : Bases) : Prop where
  strOffsets : ∀ v, b.strOffsets = some v → getBaseOffset top "DW_AT_str_offsets_base" = .ok (.int v)
  addr : ∀ v, b.addr = some v → getBaseOffset top "DW_AT_addr_base" = .ok (.int v)
  loclists : ∀ v, b.loclists = some v → getBaseOffset top "DW_AT_loclists_base" = .ok (.int v)
  rnglists : ∀ v, b.rnglists = some v → getBaseOffset top "DW_AT_rnglists_base" = .ok (.int v)

/-! ### strings and table slots -/

theorem getString_stringAt {sec : Option Bytes} {s : Bytes} {v : Nat} (hs : sec = some s) (hlt : v < s.length)
    (hsz : s.length < 2 ^ 63) : getString sec (.int v) = .ok (stringAt s v) := by
  subst hs
  have hneg : ¬ ((v : Int) < 0) := by omega
  have hns : ¬ v ≥ 2 ^ 63 := by omega
  have hloop := cstringChunkLoop_eq s 64 (by decide) (s.length - v + 2) v [] (by omega)
  simp only [getString, Val.asInt, bind, Except.bind, hneg, if_false, Int.toNat_natCast, parseCStringAt, seekCheck, hns,
    parseCStringFromStream, hloop, pure, Except.pure, stringAt]
  cases firstNul (List.drop v s) <;> simp

theorem structParseAtInt_uint {env : Env} {data : Bytes} {le : Bool} {n pos a : Nat}
    (h : uintAt le data pos n = some a) (hn : 1 ≤ n) (hsz : data.length < 2 ^ 63) :
    structParseAtInt env (.uint n le) data (pos : Int) = .ok (.int a, pos + n) := by
  unfold uintAt at h
  simp only at h
  split at h
  · rename_i hl
    injection h with h
    have hlen : pos < data.length := by
      rw [List.length_take, List.length_drop] at hl; omega
    have h1 : ¬ ((pos : Int) < -((2 ^ 63 : Nat) : Int)) := by omega
    have h2 : ¬ ((pos : Int) < 0) := by omega
    have h3 : ¬ pos ≥ 2 ^ 63 := by omega
    simp only [structParseAtInt, h1, h2, if_false, Int.toNat_natCast, structParseAt, h3, structParse, bind, Except.bind,
      pure, Except.pure]
    rw [Con.parse]
    simp only [readExact, readN, hl, if_true, bind, Except.bind, pure, Except.pure, h]
  · cases h

theorem stringAt?_some {s : Bytes} {o : Nat} {v : Val} (h : stringAt? s o = some v) : o < s.length ∧ v = stringAt s o := by
  unfold stringAt? at h
  split at h
  · rename_i hl; injection h with h; exact ⟨hl, h.symm⟩
  · cases h

/-! ### the forms that need translation -/

/-- forms whose raw value must be a number for the translation to make sense -/
def intForms : List String :=
  ["DW_FORM_strp", "DW_FORM_line_strp", "DW_FORM_flag"] ++ Spec.C04.strxForms ++ Spec.C04.addrxForms
    ++ ["DW_FORM_loclistx", "DW_FORM_rnglistx"]

theorem offsetSize_eq {U : UnitCtx} {c : DwarfCfg} {secs : Sections} (hS : SecsOK U c secs) :
    (if U.fmt = 32 then (4 : Int) else 8) = ((c.fmt / 8 : Nat) : Int) := by
  rw [hS.fmt]
  rcases hS.fmtOK with h | h <;> rw [h] <;> rfl

theorem offSize_pos {U : UnitCtx} {c : DwarfCfg} {secs : Sections} (hS : SecsOK U c secs) : 1 ≤ c.fmt / 8 := by
  rcases hS.fmtOK with h | h <;> rw [h] <;> decide

theorem the_offset_eq (c : DwarfCfg) : (Spec.dwarfStructs c).the_Dwarf_offset = .uint (c.fmt / 8) c.le := rfl
theorem the_addr_eq (c : DwarfCfg) : (Spec.dwarfStructs c).the_Dwarf_target_addr = .uint c.asz c.le := rfl

theorem cast_slot (base v n : Nat) : (base : Int) + (v : Int) * (n : Int) = ((base + v * n : Nat) : Int) := by
  push_cast; rfl

/-- `_resolve_via_offset_table` against the offset-table slot -/
theorem resolveViaOffsetTable_slot {U : UnitCtx} {c : DwarfCfg} {nm : Names} {secs : Sections} (hU : UnitOK U c nm)
    (hS : SecsOK U c secs) {sec : Option Bytes} {data : Bytes} (hsec : sec = some data) (hsz : data.length < 2 ^ 63)
    {top : List AttrObs} {baseName : String} {base v o : Nat}
    (hb : getBaseOffset top baseName = .ok (.int base))
    (ho : uintAt c.le data (base + v * (c.fmt / 8)) (c.fmt / 8) = some o) :
    resolveViaOffsetTable U sec top (.int v) baseName = .ok (.int ((base + o : Nat) : Int)) := by
  subst hsec
  have hp := structParseAtInt_uint (env := U.env) ho (offSize_pos hS) hsz
  simp only [resolveViaOffsetTable, hb, bind, Except.bind, Val.asInt, pyAddInt, pure, Except.pure, offsetSize_eq hS,
    cast_slot, hU.structs.offset, hU.structs.addr, the_offset_eq, hp]
  rfl

/-! ### `_translate_attr_value` against `resolve` -/

theorem strx_not_addrx {name : String} (h : Spec.C04.strxForms.contains name = true) :
    Model.C04.addrxForms.contains name = false ∧ Model.C04.strxForms.contains name = true := by
  simp only [Spec.C04.strxForms, List.contains_eq_mem, List.mem_cons, List.not_mem_nil, or_false, decide_eq_true_eq] at h
  rcases h with rfl | rfl | rfl | rfl | rfl <;> decide

theorem addrx_not_strx {name : String} (h : Spec.C04.addrxForms.contains name = true) :
    Model.C04.addrxForms.contains name = true ∧ Spec.C04.strxForms.contains name = false := by
  simp only [Spec.C04.addrxForms, List.contains_eq_mem, List.mem_cons, List.not_mem_nil, or_false, decide_eq_true_eq] at h
  rcases h with rfl | rfl | rfl | rfl | rfl <;> decide

theorem mem_intForms_strx {name : String} (h : Spec.C04.strxForms.contains name = true) : name ∈ intForms := by
  have : name ∈ Spec.C04.strxForms := by simpa using h
  simp [intForms, this]

theorem mem_intForms_addrx {name : String} (h : Spec.C04.addrxForms.contains name = true) : name ∈ intForms := by
  have : name ∈ Spec.C04.addrxForms := by simpa using h
  simp [intForms, this]

theorem translate_resolve {U : UnitCtx} {c : DwarfCfg} {nm : Names} {secs : Sections} (hU : UnitOK U c nm)
    (hS : SecsOK U c secs) {top : List AttrObs} {b : Bases} (hB : BasesOK top b) (name : String) (r v : Val)
    (hint : name ∈ intForms → ∃ n : Nat, r = .int n) (hres : resolve c secs b (.str name) r = some v) :
    translate U (some top) (.str name) r = .ok v := by
  unfold translate
  split
  · rename_i heq
    injection heq with heq; subst heq
    obtain ⟨n, rfl⟩ := hint (by decide)
    simp only [resolve, Int.toNat_natCast] at hres
    cases hs : secs.str with
    | none => rw [hs] at hres; cases hres
    | some s =>
      rw [hs] at hres
      obtain ⟨hlt, rfl⟩ := stringAt?_some hres
      exact getString_stringAt (by rw [hS.secsEq, hs]) hlt (hS.small s (Or.inl hs))
  · rename_i heq
    injection heq with heq; subst heq
    obtain ⟨n, rfl⟩ := hint (by decide)
    simp only [resolve, Int.toNat_natCast] at hres
    cases hs : secs.lineStr with
    | none => rw [hs] at hres; cases hres
    | some s =>
      rw [hs] at hres
      obtain ⟨hlt, rfl⟩ := stringAt?_some hres
      exact getString_stringAt (by rw [hS.secsEq, hs]) hlt (hS.small s (Or.inr (Or.inl hs)))
  · rename_i heq
    injection heq with heq; subst heq
    obtain ⟨n, rfl⟩ := hint (by decide)
    simp only [resolve] at hres
    injection hres with hres
    subst hres
    by_cases h0 : n = 0 <;> simp [h0, BEq.beq, Val.beq]
  · rename_i heq
    injection heq with heq; subst heq
    simp only [resolve] at hres
    injection hres with hres
    subst hres; rfl
  · rename_i f h1 h2 h3 h4 heq
    injection heq with heq; subst heq
    unfold resolve at hres
    split at hres
    · rename_i e; injection e with e; exact absurd e h1
    · rename_i e; injection e with e; exact absurd e h2
    · rename_i e; injection e with e; exact absurd e h3
    · rename_i e; injection e with e; exact absurd e h4
    · rename_i f' w _ _ _ _ e
      injection e with e; subst e
      by_cases hs : Spec.C04.strxForms.contains name = true
      · obtain ⟨ha, hs'⟩ := strx_not_addrx hs
        obtain ⟨n, hn⟩ := hint (mem_intForms_strx hs)
        injection hn with hn; subst hn
        rw [if_pos hs] at hres
        cases hso : secs.strOffsets with
        | none => rw [hso] at hres; cases hres
        | some so =>
          cases hb : b.strOffsets with
          | none => rw [hso, hb] at hres; cases hres
          | some base =>
            cases ho : uintAt c.le so (base + n * (c.fmt / 8)) (c.fmt / 8) with
            | none => rw [hso, hb] at hres; simp [ho] at hres
            | some o =>
              cases hstr : secs.str with
              | none => rw [hso, hb, hstr] at hres; simp [ho] at hres
              | some s =>
                rw [hso, hb, hstr] at hres
                simp only [Int.toNat_natCast, ho, Option.bind_eq_bind, Option.bind_some] at hres
                obtain ⟨hlt, rfl⟩ := stringAt?_some hres
                have hp := structParseAtInt_uint (env := U.env) ho (offSize_pos hS) (hS.small so (Or.inr (Or.inr (Or.inr (Or.inl hso)))))
                have hg := getString_stringAt (sec := U.secs.str) (by rw [hS.secsEq, hstr]) hlt (hS.small s (Or.inl hstr))
                simp only [ha, hs', Bool.false_eq_true, if_false, if_true, hS.secsEq, hso, hB.strOffsets _ hb, bind,
                  Except.bind, Val.asInt, pyAddInt, pure, Except.pure, offsetSize_eq hS, cast_slot, hU.structs.offset, hU.structs.addr,
                  the_offset_eq, hp]
                rw [← hS.secsEq]; exact hg
      · rw [if_neg hs] at hres
        have hs' : Model.C04.strxForms.contains name = false := by
          have : Model.C04.strxForms = Spec.C04.strxForms := rfl
          rw [this]; simpa using hs
        by_cases ha : Spec.C04.addrxForms.contains name = true
        · obtain ⟨ha', _⟩ := addrx_not_strx ha
          obtain ⟨n, hn⟩ := hint (mem_intForms_addrx ha)
          injection hn with hn; subst hn
          rw [if_pos ha] at hres
          cases hsec : secs.addr with
          | none => rw [hsec] at hres; cases hres
          | some sec =>
            cases hb : b.addr with
            | none => rw [hsec, hb] at hres; cases hres
            | some base =>
              cases ho : uintAt c.le sec (base + n * c.asz) c.asz with
              | none => rw [hsec, hb] at hres; simp [ho] at hres
              | some a =>
                rw [hsec, hb] at hres
                simp only [Int.toNat_natCast, ho, Option.bind_eq_bind, Option.bind_some, Option.pure_def, Option.some.injEq] at hres
                subst hres
                have hp := structParseAtInt_uint (env := U.env) ho hS.aszPos (hS.small sec (Or.inr (Or.inr (Or.inl hsec))))
                simp only [ha', if_true, hS.secsEq, hsec, hB.addr _ hb, bind, Except.bind, Val.asInt, pyAddInt, pure,
                  Except.pure, hS.asz, cast_slot, hU.structs.offset, hU.structs.addr, the_addr_eq, hp]
        · rw [if_neg ha] at hres
          have ha' : Model.C04.addrxForms.contains name = false := by
            have : Model.C04.addrxForms = Spec.C04.addrxForms := rfl
            rw [this]; simpa using ha
          simp only [ha', hs', Bool.false_eq_true, if_false]
          by_cases hl : name = "DW_FORM_loclistx"
          · obtain ⟨n, hn⟩ := hint (by rw [hl]; decide)
            injection hn with hn; subst hn
            rw [if_pos hl] at hres ⊢
            cases hsec : secs.loclists with
            | none => rw [hsec] at hres; cases hres
            | some sec =>
              cases hb : b.loclists with
              | none => rw [hsec, hb] at hres; cases hres
              | some base =>
                cases ho : uintAt c.le sec (base + n * (c.fmt / 8)) (c.fmt / 8) with
                | none => rw [hsec, hb] at hres; simp [ho] at hres
                | some o =>
                  rw [hsec, hb] at hres
                  simp only [Int.toNat_natCast, ho, Option.bind_eq_bind, Option.bind_some, Option.pure_def, Option.some.injEq] at hres
                  subst hres
                  rw [resolveViaOffsetTable_slot hU hS (by rw [hS.secsEq, hsec])
                    (hS.small sec (Or.inr (Or.inr (Or.inr (Or.inr (Or.inl hsec)))))) (hB.loclists _ hb) ho]
                  simp
          · rw [if_neg hl] at hres ⊢
            by_cases hr : name = "DW_FORM_rnglistx"
            · obtain ⟨n, hn⟩ := hint (by rw [hr]; decide)
              injection hn with hn; subst hn
              rw [if_pos hr] at hres ⊢
              cases hsec : secs.rnglists with
              | none => rw [hsec] at hres; cases hres
              | some sec =>
                cases hb : b.rnglists with
                | none => rw [hsec, hb] at hres; cases hres
                | some base =>
                  cases ho : uintAt c.le sec (base + n * (c.fmt / 8)) (c.fmt / 8) with
                  | none => rw [hsec, hb] at hres; simp [ho] at hres
                  | some o =>
                    rw [hsec, hb] at hres
                    simp only [Int.toNat_natCast, ho, Option.bind_eq_bind, Option.bind_some, Option.pure_def, Option.some.injEq] at hres
                    subst hres
                    rw [resolveViaOffsetTable_slot hU hS (by rw [hS.secsEq, hsec])
                      (hS.small sec (Or.inr (Or.inr (Or.inr (Or.inr (Or.inr hsec)))))) (hB.rnglists _ hb) ho]
                    simp
            · rw [if_neg hr] at hres ⊢
              injection hres with hres; subst hres; rfl
    · rename_i hx
      injection hres with hres; subst hres
      have hni : name ∉ intForms := fun hm => by
        obtain ⟨n, hn⟩ := hint hm
        exact hx name n rfl hn
      have ha : Model.C04.addrxForms.contains name = false := by
        apply Bool.eq_false_iff.2
        intro h; exact hni (mem_intForms_addrx h)
      have hs : Model.C04.strxForms.contains name = false := by
        apply Bool.eq_false_iff.2
        intro h; exact hni (mem_intForms_strx h)
      have hl : ¬ name = "DW_FORM_loclistx" := fun e => hni (by rw [e]; decide)
      have hr : ¬ name = "DW_FORM_rnglistx" := fun e => hni (by rw [e]; decide)
      simp only [ha, hs, Bool.false_eq_true, if_false, hl, hr]
  · rename_i h
    exact absurd rfl (h name)

/-- the value an attribute has while `translate_indirect` is off (the unit's top entry while it is being
    parsed): the index forms stay raw, everything else is resolved -/
def preResolve (c : DwarfCfg) (secs : Sections) (b : Bases) (form raw : Val) : Option Val :=
  match form with
  | .str f => if indexForms.contains f then some raw else resolve c secs b form raw
  | _ => some raw

theorem indexForms_mem {name : String} (h : indexForms.contains name = true) :
    Spec.C04.strxForms.contains name = true ∨ Spec.C04.addrxForms.contains name = true ∨ name = "DW_FORM_loclistx"
      ∨ name = "DW_FORM_rnglistx" := by
  simp only [indexForms, Model.C04.strxForms, Model.C04.addrxForms, List.contains_eq_mem, List.mem_append, List.mem_cons,
    List.not_mem_nil, or_false, decide_eq_true_eq] at h
  rcases h with ((h | h | h | h | h) | (h | h | h | h | h)) | (h | h) <;> subst h <;> decide

theorem not_indexForms {name : String} (h : indexForms.contains name = false) :
    Model.C04.strxForms.contains name = false ∧ Model.C04.addrxForms.contains name = false ∧ ¬ name = "DW_FORM_loclistx"
      ∧ ¬ name = "DW_FORM_rnglistx" := by
  simp only [indexForms, List.contains_eq_mem, List.mem_append, List.mem_cons,
    List.not_mem_nil, or_false, decide_eq_false_iff_not, not_or] at h
  obtain ⟨⟨h1, h2⟩, h3, h4⟩ := h
  exact ⟨by simpa using h1, by simpa using h2, h3, h4⟩

theorem translate_none {U : UnitCtx} {c : DwarfCfg} {secs : Sections}
    (hS : SecsOK U c secs) (b : Bases) (name : String) (r v : Val)
    (hint : name ∈ intForms → ∃ n : Nat, r = .int n) (hres : preResolve c secs b (.str name) r = some v) :
    translate U none (.str name) r = .ok v := by
  unfold preResolve at hres
  simp only at hres
  unfold translate
  split
  · rename_i heq
    injection heq with heq; subst heq
    obtain ⟨n, rfl⟩ := hint (by decide)
    rw [if_neg (by decide)] at hres
    simp only [resolve, Int.toNat_natCast] at hres
    cases hs : secs.str with
    | none => rw [hs] at hres; cases hres
    | some s =>
      rw [hs] at hres
      obtain ⟨hlt, rfl⟩ := stringAt?_some hres
      exact getString_stringAt (by rw [hS.secsEq, hs]) hlt (hS.small s (Or.inl hs))
  · rename_i heq
    injection heq with heq; subst heq
    obtain ⟨n, rfl⟩ := hint (by decide)
    rw [if_neg (by decide)] at hres
    simp only [resolve, Int.toNat_natCast] at hres
    cases hs : secs.lineStr with
    | none => rw [hs] at hres; cases hres
    | some s =>
      rw [hs] at hres
      obtain ⟨hlt, rfl⟩ := stringAt?_some hres
      exact getString_stringAt (by rw [hS.secsEq, hs]) hlt (hS.small s (Or.inr (Or.inl hs)))
  · rename_i heq
    injection heq with heq; subst heq
    obtain ⟨n, rfl⟩ := hint (by decide)
    rw [if_neg (by decide)] at hres
    simp only [resolve] at hres
    injection hres with hres
    subst hres
    by_cases h0 : n = 0 <;> simp [h0, BEq.beq, Val.beq]
  · rename_i heq
    injection heq with heq; subst heq
    rw [if_neg (by decide)] at hres
    simp only [resolve] at hres
    injection hres with hres
    subst hres; rfl
  · rename_i f h1 h2 h3 h4 heq
    injection heq with heq; subst heq
    simp only
    by_cases hi : indexForms.contains name = true
    · rw [if_pos hi] at hres; injection hres with hres; subst hres; rfl
    · rw [if_neg hi] at hres
      have hi' : indexForms.contains name = false := by simpa using hi
      obtain ⟨hs, ha, hl, hr⟩ := not_indexForms hi'
      unfold resolve at hres
      split at hres
      · rename_i e; injection e with e; exact absurd e h1
      · rename_i e; injection e with e; exact absurd e h2
      · rename_i e; injection e with e; exact absurd e h3
      · rename_i e; injection e with e; exact absurd e h4
      · rename_i f' w _ _ _ _ e
        injection e with e; subst e
        have hs' : Spec.C04.strxForms.contains name = false := hs
        have ha' : Spec.C04.addrxForms.contains name = false := ha
        simp only [hs', ha', Bool.false_eq_true, if_false, hl, hr] at hres
        injection hres with hres; subst hres; rfl
      · injection hres with hres; subst hres; rfl
  · rename_i h
    exact absurd rfl (h name)

end PyElf.Proofs.C04
