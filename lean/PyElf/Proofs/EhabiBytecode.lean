/-
  C20, byte-code half: the EHABI byte-code decoder model (`Model.Ehabi.decode` driven by the generated
  dispatch table `Gen.ehabiRing`) agrees with the disassembly prescribed by EHABI32 table 4
  (`Spec.Ehabi.ehabiStd`), and raises IndexError exactly when the array ends inside an instruction.

  Layout: dispatch (`cls`, `findHandler_cls`), bit facts about `hits` / register lists (finite checks
  over byte values), the unfolding equations of `handler`, `_printGPR`, the ULEB128 operand, the
  one-instruction lemma `handler_step`, spec-side fuel lemmas, the loop, and `decode_eq_std`.
-/
import PyElf.Model.Ehabi
import PyElf.Proofs.Primitives
namespace PyElf.Proofs
open PyElf PyElf.Spec PyElf.Model
open PyElf.Model.Ehabi (handler byteAt findHandler hits calculateRange printGPR printRegisters popD
  ulebBuffer decodeLoop)
open PyElf.Spec.Ehabi (step Insn regsRange regsMask splitUleb gprName render decodeFuel ehabiStd)

namespace EhabiBytecode

/-! ### dispatch -/

/-- the handler the ring picks for opcode `o`, along the ranges of table 4.  (The ring lists
    `11001yyy` with mask 0xc8, so it also catches 0xd8–0xdf, 0xe8–0xef, 0xf8–0xff before `11xxxyyy`;
    both handlers print "spare".) -/
def cls (o : Nat) : String :=
  if o < 0x40 then "_decode_00xxxxxx"
  else if o < 0x80 then "_decode_01xxxxxx"
  else if o < 0x90 then "_decode_1000iiii_iiiiiiii"
  else if o = 0x9d then "_decode_10011101"
  else if o = 0x9f then "_decode_10011111"
  else if o < 0xa0 then "_decode_1001nnnn"
  else if o < 0xa8 then "_decode_10100nnn"
  else if o < 0xb0 then "_decode_10101nnn"
  else if o = 0xb0 then "_decode_10110000"
  else if o = 0xb1 then "_decode_10110001_0000iiii"
  else if o = 0xb2 then "_decode_10110010_uleb128"
  else if o = 0xb3 then "_decode_10110011_sssscccc"
  else if o < 0xb8 then "_decode_101101nn"
  else if o < 0xc0 then "_decode_10111nnn"
  else if o < 0xc6 then "_decode_11000nnn"
  else if o = 0xc6 then "_decode_11000110_sssscccc"
  else if o = 0xc7 then "_decode_11000111_0000iiii"
  else if o = 0xc8 then "_decode_11001000_sssscccc"
  else if o = 0xc9 then "_decode_11001001_sssscccc"
  else if o < 0xd0 then "_decode_11001yyy"
  else if o < 0xd8 then "_decode_11010nnn"
  else if o % 16 ≥ 8 then "_decode_11001yyy"
  else "_decode_11xxxyyy"

/-- first-match lookup in the generated ring, all 256 opcodes -/
theorem findHandler_cls : ∀ o < 256, findHandler Gen.ehabiRing o = some (cls o) := by decide +kernel

/-! ### `hits` (the `for i in range(32): if mask & (1 << i)` loop) and the spec's register lists -/

theorem and_pow_ne_zero (mask i : Nat) : (mask &&& 2 ^ i ≠ 0) ↔ mask.testBit i = true := by
  constructor
  · intro h
    cases hb : mask.testBit i with
    | true => rfl
    | false =>
      exfalso; apply h
      apply Nat.eq_of_testBit_eq; intro j
      rw [Nat.testBit_and, Nat.testBit_two_pow, Nat.zero_testBit]
      by_cases hij : i = j
      · subst hij; simp [hb]
      · simp [hij]
  · intro h h0
    have : (mask &&& 2 ^ i).testBit i = true := by
      rw [Nat.testBit_and, Nat.testBit_two_pow_self, h]; rfl
    rw [h0, Nat.zero_testBit] at this
    cases this

/-- `hits` lists the set bits below 32 -/
theorem hits_eq (mask : Nat) : hits mask = (List.range 32).filter (fun i => mask.testBit i) := by
  unfold hits
  apply List.filter_congr
  intro i _
  rw [Nat.one_shiftLeft]
  by_cases h : mask.testBit i = true
  · simp [h, (and_pow_ne_zero mask i).2 h]
  · have := mt (and_pow_ne_zero mask i).1 h
    simp only [Bool.not_eq_true] at h
    simp [h]
    simpa using this

/-- the 12-bit mask of 1000iiii iiiiiiii, shifted to r4–r15 -/
theorem hits_shl4 (m : Nat) (h : m < 4096) : hits (m <<< 4) = regsMask m 4 12 := by
  have hr : List.range 32 = List.range 4 ++ (List.range 12).map (· + 4) ++ (List.range 16).map (· + 16) := by
    decide
  rw [hits_eq, regsMask, hr, List.filter_append, List.filter_append, List.filter_map, List.filter_map]
  have h1 : (List.range 4).filter (fun i => (m <<< 4).testBit i) = [] := by
    rw [List.filter_eq_nil_iff]; intro a ha
    rw [List.mem_range] at ha
    rw [Nat.testBit_shiftLeft]
    simp; omega
  have h3 : (List.range 16).filter ((fun i => (m <<< 4).testBit i) ∘ (· + 16)) = [] := by
    rw [List.filter_eq_nil_iff]; intro a _
    simp only [Function.comp, Nat.testBit_shiftLeft]
    have : m < 2 ^ (a + 12) :=
      Nat.lt_of_lt_of_le h (by rw [show 4096 = 2 ^ 12 from rfl]; exact Nat.pow_le_pow_right (by decide) (by omega))
    simp [Nat.testBit_lt_two_pow this]
  have h2 : (List.range 12).filter ((fun i => (m <<< 4).testBit i) ∘ (· + 4))
      = (List.range 12).filter (fun i => m.testBit i) := by
    apply List.filter_congr; intro a _
    simp [Function.comp, Nat.testBit_shiftLeft]
  rw [h1, h2, h3]; simp

/-- `mask` selects exactly `regs`, all of them core registers r0–r15 -/
def gprGood (mask : Nat) (regs : List Nat) : Bool := hits mask == regs && regs.all (· < 16)

set_option maxRecDepth 100000 in
theorem fact_vsp : ∀ o < 256, ((o &&& 0x3f) <<< 2) + 4 = o % 64 * 4 + 4 := by decide +kernel

set_option maxRecDepth 100000 in
theorem fact_and_f : ∀ o < 256, o &&& 0x0f = o % 16 := by decide +kernel

theorem and_7 (n : Nat) : n &&& 0x07 = n % 8 := by
  have := Nat.and_two_pow_sub_one_eq_mod n 3
  simpa using this

theorem fact_10100_aux : ∀ n < 8, gprGood (calculateRange 4 n) (regsRange 4 n) = true := by decide +kernel

theorem fact_10100 (o : Nat) (_ : o < 256) :
    gprGood (calculateRange 4 (o &&& 0x07)) (regsRange 4 (o % 8)) = true := by
  rw [and_7]; exact fact_10100_aux _ (Nat.mod_lt _ (by decide))

theorem fact_10101_aux : ∀ n < 8,
    gprGood (calculateRange 4 n ||| (1 <<< 14)) (regsRange 4 n ++ [14]) = true := by decide +kernel

theorem fact_10101 (o : Nat) (_ : o < 256) :
    gprGood (calculateRange 4 (o &&& 0x07) ||| (1 <<< 14)) (regsRange 4 (o % 8) ++ [14]) = true := by
  rw [and_7]; exact fact_10101_aux _ (Nat.mod_lt _ (by decide))

set_option maxRecDepth 100000 in
theorem fact_b1 : ∀ b < 256, (((b &&& 0xf0) ≠ 0 ∨ b = 0x00) = (b = 0 ∨ 16 ≤ b)) ∧
    gprGood (b &&& 0x0f) (regsMask b 0 4) = true := by decide +kernel

set_option maxRecDepth 100000 in
theorem fact_popD0 : ∀ b < 256,
    hits (calculateRange (0 + ((b &&& 0xf0) >>> 4)) ((b &&& 0x0f) >>> 0)) = regsRange (b / 16) (b % 16) := by
  decide +kernel

set_option maxRecDepth 100000 in
theorem fact_popD16 : ∀ b < 256,
    hits (calculateRange (16 + ((b &&& 0xf0) >>> 4)) ((b &&& 0x0f) >>> 0)) = regsRange (16 + b / 16) (b % 16) := by
  decide +kernel

theorem fact_r8_aux : ∀ n < 8, hits (calculateRange 8 n) = regsRange 8 n := by decide +kernel

theorem fact_r8 (o : Nat) (_ : o < 256) : hits (calculateRange 8 (o &&& 0x07)) = regsRange 8 (o % 8) := by
  rw [and_7]; exact fact_r8_aux _ (Nat.mod_lt _ (by decide))

theorem fact_r10_aux : ∀ n < 8, hits (calculateRange 10 n) = regsRange 10 n := by decide +kernel

theorem fact_r10 (o : Nat) (_ : o < 256) : hits (calculateRange 10 (o &&& 0x07)) = regsRange 10 (o % 8) := by
  rw [and_7]; exact fact_r10_aux _ (Nat.mod_lt _ (by decide))

/-- `gpr_register_names` against the spec's names -/
theorem fact_names : ∀ i < 16, Gen.ehabiGprNames[i]? = some (gprName i) := by decide +kernel


/-! ### unfolding `handler` at each name of the ring (the string `match` evaluates by `rfl`) -/

section
variable (arr : Bytes) (idx : Nat)
theorem h_00 : handler "_decode_00xxxxxx" arr idx = (do
    let opcode ← byteAt arr idx
    return ("vsp = vsp + " ++ toString (((opcode &&& 0x3f) <<< 2) + 4), idx + 1)) := rfl
theorem h_01 : handler "_decode_01xxxxxx" arr idx = (do
    let opcode ← byteAt arr idx
    return ("vsp = vsp - " ++ toString (((opcode &&& 0x3f) <<< 2) + 4), idx + 1)) := rfl
theorem h_1000 : handler "_decode_1000iiii_iiiiiiii" arr idx = (do
    let op0 ← byteAt arr idx
    let op1 ← byteAt arr (idx + 1)
    let gprMask := (op1 <<< 4) ||| ((op0 &&& 0x0f) <<< 12)
    if gprMask = 0 then return ("refuse to unwind", idx + 2)
    else return ("pop " ++ (← printGPR gprMask), idx + 2)) := rfl
theorem h_9d : handler "_decode_10011101" arr idx = .ok ("reserved (ARM MOVrr)", idx + 1) := rfl
theorem h_9f : handler "_decode_10011111" arr idx = .ok ("reserved (WiMMX MOVrr)", idx + 1) := rfl
theorem h_1001 : handler "_decode_1001nnnn" arr idx = (do
    let opcode ← byteAt arr idx
    return ("vsp = r" ++ toString (opcode &&& 0x0f), idx + 1)) := rfl
theorem h_10100 : handler "_decode_10100nnn" arr idx = (do
    let opcode ← byteAt arr idx
    return ("pop " ++ (← printGPR (calculateRange 4 (opcode &&& 0x07))), idx + 1)) := rfl
theorem h_10101 : handler "_decode_10101nnn" arr idx = (do
    let opcode ← byteAt arr idx
    return ("pop " ++ (← printGPR (calculateRange 4 (opcode &&& 0x07) ||| (1 <<< 14))), idx + 1)) := rfl
theorem h_b0 : handler "_decode_10110000" arr idx = .ok ("finish", idx + 1) := rfl
theorem h_b1 : handler "_decode_10110001_0000iiii" arr idx = (do
    let op1 ← byteAt arr (idx + 1)
    if (op1 &&& 0xf0) ≠ 0 ∨ op1 = 0x00 then return ("spare", idx + 2)
    else return ("pop " ++ (← printGPR (op1 &&& 0x0f)), idx + 2)) := rfl
theorem h_b2 : handler "_decode_10110010_uleb128" arr idx = (do
    let b ← byteAt arr (idx + 1)
    let (buf, idx') ← ulebBuffer arr (arr.length + 1) (idx + 2) [b]
    let value := buf.reverse.foldl (fun v b => (v <<< 7) + (b &&& 0x7F)) 0
    return ("vsp = vsp + " ++ toString (0x204 + (value <<< 2)), idx')) := rfl
theorem h_b3 : handler "_decode_10110011_sssscccc" arr idx = popD arr idx 0 "d" := rfl
theorem h_b4 : handler "_decode_101101nn" arr idx = .ok ("spare", idx + 1) := rfl
theorem h_b8 : handler "_decode_10111nnn" arr idx = (do
    let opcode ← byteAt arr idx
    return ("pop " ++ printRegisters (calculateRange 8 (opcode &&& 0x07)) "d", idx + 1)) := rfl
theorem h_c6 : handler "_decode_11000110_sssscccc" arr idx = popD arr idx 0 "wR" := rfl
theorem h_c7 : handler "_decode_11000111_0000iiii" arr idx = (do
    let op1 ← byteAt arr (idx + 1)
    if (op1 &&& 0xf0) ≠ 0 ∨ op1 = 0x00 then return ("spare", idx + 2)
    else return ("pop " ++ printRegisters (op1 &&& 0x0f) "wCGR", idx + 2)) := rfl
theorem h_c8 : handler "_decode_11001000_sssscccc" arr idx = popD arr idx 16 "d" := rfl
theorem h_c9 : handler "_decode_11001001_sssscccc" arr idx = popD arr idx 0 "d" := rfl
theorem h_cy : handler "_decode_11001yyy" arr idx = .ok ("spare", idx + 1) := rfl
theorem h_c0 : handler "_decode_11000nnn" arr idx = (do
    let opcode ← byteAt arr idx
    return ("pop " ++ printRegisters (calculateRange 10 (opcode &&& 0x07)) "wR", idx + 1)) := rfl
theorem h_d0 : handler "_decode_11010nnn" arr idx = (do
    let opcode ← byteAt arr idx
    return ("pop " ++ printRegisters (calculateRange 8 (opcode &&& 0x07)) "d", idx + 1)) := rfl
theorem h_xy : handler "_decode_11xxxyyy" arr idx = .ok ("spare", idx + 1) := rfl
end

/-! ### `_printGPR` -/

def gprLookup (i : Nat) : R String :=
  match Gen.ehabiGprNames[i]? with
  | some s => .ok s
  | none => .error .indexError

theorem printGPR_def (mask : Nat) :
    printGPR mask = (do let names ← (hits mask).mapM gprLookup; return Model.Ehabi.braces names) := rfl

theorem mapM_gpr : ∀ l : List Nat, (∀ i ∈ l, i < 16) → l.mapM gprLookup = .ok (l.map gprName) := by
  intro l
  induction l with
  | nil => intro _; rfl
  | cons a l ih =>
    intro h
    have ha : gprLookup a = .ok (gprName a) := by
      unfold gprLookup; rw [fact_names a (h a (by simp))]
    rw [List.mapM_cons, ha, ih (fun i hi => h i (by simp [hi]))]
    rfl

/-- when the mask names only r0–r15, `_printGPR` prints the spec's register names -/
theorem printGPR_good {mask : Nat} {regs : List Nat} (h : gprGood mask regs = true) :
    printGPR mask = .ok (Spec.Ehabi.braces (regs.map gprName)) := by
  simp only [gprGood, Bool.and_eq_true, beq_iff_eq, List.all_eq_true, decide_eq_true_eq] at h
  obtain ⟨h1, h2⟩ := h
  rw [printGPR_def, h1, mapM_gpr regs h2]
  rfl

theorem fact_1000 (a b : Nat) (ha : a < 16) (hb : b < 256) :
    (((b <<< 4) ||| (a <<< 12) = 0) = (a * 256 + b = 0)) ∧
      gprGood ((b <<< 4) ||| (a <<< 12)) (regsMask (a * 256 + b) 4 12) = true := by
  have e : (b <<< 4) ||| (a <<< 12) = (a * 256 + b) <<< 4 := by
    rw [or_shl_eq_add _ (by rw [Nat.shiftLeft_eq]; omega), Nat.shiftLeft_eq, Nat.shiftLeft_eq]; omega
  rw [e]
  constructor
  · rw [Nat.shiftLeft_eq]; apply propext; omega
  · simp only [gprGood, Bool.and_eq_true, beq_iff_eq, List.all_eq_true, decide_eq_true_eq]
    refine ⟨hits_shl4 _ (by omega), ?_⟩
    intro x hx
    simp only [regsMask, List.mem_map, List.mem_filter, List.mem_range] at hx
    obtain ⟨i, ⟨hi, _⟩, rfl⟩ := hx
    omega

/-! ### the ULEB128 operand of 10110010 -/

theorem splitUleb_append : ∀ (l u r : Bytes), splitUleb l = some (u, r) → l = u ++ r ∧ u ≠ [] := by
  intro l
  induction l with
  | nil => intro u r h; simp [splitUleb] at h
  | cons b bs ih =>
    intro u r h
    rw [splitUleb] at h
    by_cases hb : b.toNat < 128
    · rw [if_pos hb] at h
      simp only [Option.some.injEq, Prod.mk.injEq] at h
      obtain ⟨rfl, rfl⟩ := h
      simp
    · rw [if_neg hb] at h
      cases hs : splitUleb bs with
      | none => rw [hs] at h; simp at h
      | some p =>
        obtain ⟨u', r'⟩ := p
        rw [hs] at h
        simp only [Option.map_some, Option.some.injEq, Prod.mk.injEq] at h
        obtain ⟨rfl, rfl⟩ := h
        obtain ⟨e, _⟩ := ih u' r' hs
        simp [e]

def ulebOut (pre : List Nat) (pos : Nat) : Option (Bytes × Bytes) → R (List Nat × Nat)
  | some (u, _) => .ok (pre ++ u.map (·.toNat), pos + u.length - 1)
  | none => .error .indexError

/-- the buffer loop reads exactly the spec's complete ULEB128 number -/
theorem ulebBuffer_spec (arr : Bytes) : ∀ (bs : Bytes) (b : UInt8) (pre : List Nat) (fuel pos : Nat),
    arr.drop pos = bs → bs.length + 1 ≤ fuel →
    ulebBuffer arr fuel pos (pre ++ [b.toNat]) = ulebOut pre pos (splitUleb (b :: bs)) := by
  intro bs
  induction bs with
  | nil =>
    intro b pre fuel pos hd hf
    cases fuel with
    | zero => omega
    | succ fuel =>
      rw [ulebBuffer, List.getLast?_concat, splitUleb]
      simp only [ne_eq, and_80_aux _ b.toNat_lt]
      by_cases hb : b.toNat < 128
      · rw [if_neg (fun h => h hb), if_pos hb]; simp [ulebOut]
      · rw [if_pos hb, if_neg hb]
        simp [byteAt, drop_nil_inv hd, splitUleb, ulebOut, bind, Except.bind]
  | cons b' bs ih =>
    intro b pre fuel pos hd hf
    cases fuel with
    | zero => omega
    | succ fuel =>
      obtain ⟨hb', hd'⟩ := drop_cons_inv hd
      rw [ulebBuffer, List.getLast?_concat, splitUleb]
      simp only [ne_eq, and_80_aux _ b.toNat_lt]
      by_cases hb : b.toNat < 128
      · rw [if_neg (fun h => h hb), if_pos hb]; simp [ulebOut]
      · rw [if_pos hb, if_neg hb]
        simp only [byteAt, hb', bind, Except.bind]
        rw [ih b' (pre ++ [b.toNat]) fuel (pos + 1) hd' (by simpa using hf)]
        cases hs : splitUleb (b' :: bs) with
        | none => simp [ulebOut]
        | some p =>
          obtain ⟨u, r⟩ := p
          simp only [ulebOut, Option.map_some, List.map_cons, List.length_cons, List.append_assoc,
            List.singleton_append]
          congr 2
          omega

theorem uleb_fold (u : Bytes) :
    (u.map (·.toNat)).reverse.foldl (fun v b => (v <<< 7) + (b &&& 0x7F)) 0 = ulebVal u := by
  induction u with
  | nil => rfl
  | cons b u ih =>
    rw [List.map_cons, List.reverse_cons, List.foldl_append, ih]
    simp only [List.foldl_cons, List.foldl_nil, ulebVal, and_7F, Nat.shiftLeft_eq]
    omega

/-! ### one instruction -/

/-- what the model handler must return for the spec's reading of the next instruction -/
def conv (idx : Nat) : Option (Bytes × Insn × Bytes) → R (String × Nat)
  | some (ib, insn, _) => .ok (render insn, idx + ib.length)
  | none => .error .indexError

theorem byteAt_of_drop {arr : Bytes} {idx : Nat} {b : UInt8} {t : Bytes} (h : arr.drop idx = b :: t) :
    byteAt arr idx = .ok b.toNat := by
  unfold byteAt; rw [(drop_cons_inv h).1]

theorem byteAt_of_drop_nil {arr : Bytes} {idx : Nat} (h : arr.drop idx = []) :
    byteAt arr idx = .error .indexError := by
  unfold byteAt; rw [drop_nil_inv h]

theorem byteAt1_nil {arr : Bytes} {idx : Nat} {op : UInt8} (h : arr.drop idx = [op]) :
    byteAt arr (idx + 1) = .error .indexError := byteAt_of_drop_nil (drop_cons_inv h).2

theorem byteAt1_cons {arr : Bytes} {idx : Nat} {op b : UInt8} {r : Bytes} (h : arr.drop idx = op :: b :: r) :
    byteAt arr (idx + 1) = .ok b.toNat := byteAt_of_drop (drop_cons_inv h).2

theorem popD_nil {arr : Bytes} {idx : Nat} {op : UInt8} (h : arr.drop idx = [op]) (base : Nat) (pfx : String) :
    popD arr idx base pfx = .error .indexError := by
  unfold popD; rw [byteAt1_nil h]; rfl

theorem popD_cons {arr : Bytes} {idx : Nat} {op b : UInt8} {r : Bytes} (h : arr.drop idx = op :: b :: r)
    (base : Nat) (pfx : String) (start : Nat → Nat)
    (hf : ∀ b < 256, hits (calculateRange (base + ((b &&& 0xf0) >>> 4)) ((b &&& 0x0f) >>> 0))
      = regsRange (start b) (b % 16)) :
    popD arr idx base pfx
      = .ok (render (.popRegs pfx (regsRange (start b.toNat) (b.toNat % 16))), idx + 2) := by
  unfold popD; rw [byteAt1_cons h]
  simp only [bind, Except.bind, pure, Except.pure, printRegisters, hf _ b.toNat_lt]
  rfl

/-- the handler the ring selects for opcode `op` does what table 4 says -/
theorem handler_step (arr : Bytes) (idx : Nat) (op : UInt8) (rest : Bytes)
    (hd : arr.drop idx = op :: rest) :
    handler (cls op.toNat) arr idx = conv idx (step (op :: rest)) := by
  have h0 : byteAt arr idx = .ok op.toNat := byteAt_of_drop hd
  have ho := op.toNat_lt
  rw [step]
  generalize op.toNat = o at *
  by_cases h1 : o < 0x40
  · rw [if_pos h1]
    have hc : cls o = "_decode_00xxxxxx" := by simp [cls, *]
    rw [hc, h_00, h0]
    simp only [bind, Except.bind, pure, Except.pure, conv, render, fact_vsp o ho, List.length_singleton]
  rw [if_neg h1]
  by_cases h2 : o < 0x80
  · rw [if_pos h2]
    have hc : cls o = "_decode_01xxxxxx" := by simp [cls, *]
    rw [hc, h_01, h0]
    simp only [bind, Except.bind, pure, Except.pure, conv, render, fact_vsp o ho, List.length_singleton]
  rw [if_neg h2]
  by_cases h3 : o < 0x90
  · rw [if_pos h3]
    have hc : cls o = "_decode_1000iiii_iiiiiiii" := by simp [cls, *]
    rw [hc, h_1000, h0]
    cases rest with
    | nil => rw [byteAt1_nil hd]; rfl
    | cons b r =>
      rw [byteAt1_cons hd]
      obtain ⟨e1, e2⟩ := fact_1000 (o % 16) b.toNat (by omega) b.toNat_lt
      simp only [bind, Except.bind, pure, Except.pure, conv, fact_and_f o ho]
      by_cases hz : o % 16 * 256 + b.toNat = 0
      · rw [if_pos hz, if_pos (by rw [e1]; exact hz)]; rfl
      · rw [if_neg hz, if_neg (by rw [e1]; exact hz), printGPR_good e2]; rfl
  rw [if_neg h3]
  by_cases h4 : o = 0x9d
  · rw [if_pos h4]
    have hc : cls o = "_decode_10011101" := by simp [cls, *]
    rw [hc, h_9d]; rfl
  rw [if_neg h4]
  by_cases h5 : o = 0x9f
  · rw [if_pos h5]
    have hc : cls o = "_decode_10011111" := by simp [cls, *]
    rw [hc, h_9f]; rfl
  rw [if_neg h5]
  by_cases h6 : o < 0xa0
  · rw [if_pos h6]
    have hc : cls o = "_decode_1001nnnn" := by simp [cls, *]
    rw [hc, h_1001, h0]
    simp only [bind, Except.bind, pure, Except.pure, conv, render, fact_and_f o ho, List.length_singleton]
  rw [if_neg h6]
  by_cases h7 : o < 0xa8
  · rw [if_pos h7]
    have hc : cls o = "_decode_10100nnn" := by simp [cls, *]
    rw [hc, h_10100, h0]
    simp only [bind, Except.bind, pure, Except.pure, printGPR_good (fact_10100 o ho)]
    rfl
  rw [if_neg h7]
  by_cases h8 : o < 0xb0
  · rw [if_pos h8]
    have hc : cls o = "_decode_10101nnn" := by simp [cls, *]
    rw [hc, h_10101, h0]
    simp only [bind, Except.bind, pure, Except.pure, printGPR_good (fact_10101 o ho)]
    rfl
  rw [if_neg h8]
  by_cases h9 : o = 0xb0
  · rw [if_pos h9]
    have hc : cls o = "_decode_10110000" := by simp [cls, *]
    rw [hc, h_b0]; rfl
  rw [if_neg h9]
  by_cases h10 : o = 0xb1
  · rw [if_pos h10]
    have hc : cls o = "_decode_10110001_0000iiii" := by simp [cls, *]
    rw [hc, h_b1]
    cases rest with
    | nil => rw [byteAt1_nil hd]; rfl
    | cons b r =>
      rw [byteAt1_cons hd]
      obtain ⟨e1, e2⟩ := fact_b1 b.toNat b.toNat_lt
      simp only [bind, Except.bind, pure, Except.pure, conv]
      by_cases hz : b.toNat = 0 ∨ 16 ≤ b.toNat
      · rw [if_pos hz, if_pos (by rw [e1]; exact hz)]; rfl
      · rw [if_neg hz, if_neg (by rw [e1]; exact hz), printGPR_good e2]; rfl
  rw [if_neg h10]
  by_cases h11 : o = 0xb2
  · rw [if_pos h11]
    have hc : cls o = "_decode_10110010_uleb128" := by simp [cls, *]
    rw [hc, h_b2]
    cases rest with
    | nil => rw [byteAt1_nil hd]; rfl
    | cons b bs =>
      rw [byteAt1_cons hd]
      have hd2 : arr.drop (idx + 2) = bs := (drop_cons_inv (drop_cons_inv hd).2).2
      have hl := length_of_drop hd2
      have hu := ulebBuffer_spec arr bs b [] (arr.length + 1) (idx + 2) hd2 (by omega)
      simp only [List.nil_append] at hu
      simp only [bind, Except.bind, pure, Except.pure, hu]
      cases hs : splitUleb (b :: bs) with
      | none => rfl
      | some p =>
        obtain ⟨u, r⟩ := p
        simp only [ulebOut, conv, render, List.nil_append, List.length_cons]
        rw [uleb_fold, Nat.shiftLeft_eq]
        congr 2
        omega
  rw [if_neg h11]
  by_cases h12 : o = 0xb3
  · rw [if_pos h12]
    have hc : cls o = "_decode_10110011_sssscccc" := by simp [cls, *]
    rw [hc, h_b3]
    cases rest with
    | nil => rw [popD_nil hd]; rfl
    | cons b r => rw [popD_cons hd 0 "d" (fun b => b / 16) fact_popD0]; rfl
  rw [if_neg h12]
  by_cases h13 : o < 0xb8
  · rw [if_pos h13]
    have hc : cls o = "_decode_101101nn" := by simp [cls, *]
    rw [hc, h_b4]; rfl
  rw [if_neg h13]
  by_cases h14 : o < 0xc0
  · rw [if_pos h14]
    have hc : cls o = "_decode_10111nnn" := by simp [cls, *]
    rw [hc, h_b8, h0]
    simp only [bind, Except.bind, pure, Except.pure, printRegisters, fact_r8 o ho]
    rfl
  rw [if_neg h14]
  by_cases h15 : o < 0xc6
  · rw [if_pos h15]
    have hc : cls o = "_decode_11000nnn" := by simp [cls, *]
    rw [hc, h_c0, h0]
    simp only [bind, Except.bind, pure, Except.pure, printRegisters, fact_r10 o ho]
    rfl
  rw [if_neg h15]
  by_cases h16 : o = 0xc6
  · rw [if_pos h16]
    have hc : cls o = "_decode_11000110_sssscccc" := by simp [cls, *]
    rw [hc, h_c6]
    cases rest with
    | nil => rw [popD_nil hd]; rfl
    | cons b r => rw [popD_cons hd 0 "wR" (fun b => b / 16) fact_popD0]; rfl
  rw [if_neg h16]
  by_cases h17 : o = 0xc7
  · rw [if_pos h17]
    have hc : cls o = "_decode_11000111_0000iiii" := by simp [cls, *]
    rw [hc, h_c7]
    cases rest with
    | nil => rw [byteAt1_nil hd]; rfl
    | cons b r =>
      rw [byteAt1_cons hd]
      obtain ⟨e1, e2⟩ := fact_b1 b.toNat b.toNat_lt
      simp only [gprGood, Bool.and_eq_true, beq_iff_eq] at e2
      simp only [bind, Except.bind, pure, Except.pure, conv, printRegisters, e2.1]
      by_cases hz : b.toNat = 0 ∨ 16 ≤ b.toNat
      · rw [if_pos hz, if_pos (by rw [e1]; exact hz)]; rfl
      · rw [if_neg hz, if_neg (by rw [e1]; exact hz)]; rfl
  rw [if_neg h17]
  by_cases h18 : o = 0xc8
  · rw [if_pos h18]
    have hc : cls o = "_decode_11001000_sssscccc" := by simp [cls, *]
    rw [hc, h_c8]
    cases rest with
    | nil => rw [popD_nil hd]; rfl
    | cons b r => rw [popD_cons hd 16 "d" (fun b => 16 + b / 16) fact_popD16]; rfl
  rw [if_neg h18]
  by_cases h19 : o = 0xc9
  · rw [if_pos h19]
    have hc : cls o = "_decode_11001001_sssscccc" := by simp [cls, *]
    rw [hc, h_c9]
    cases rest with
    | nil => rw [popD_nil hd]; rfl
    | cons b r => rw [popD_cons hd 0 "d" (fun b => b / 16) fact_popD0]; rfl
  rw [if_neg h19]
  by_cases h20 : o < 0xd0
  · rw [if_pos h20]
    have hc : cls o = "_decode_11001yyy" := by simp [cls, *]
    rw [hc, h_cy]; rfl
  rw [if_neg h20]
  by_cases h21 : o < 0xd8
  · rw [if_pos h21]
    have hc : cls o = "_decode_11010nnn" := by simp [cls, *]
    rw [hc, h_d0, h0]
    simp only [bind, Except.bind, pure, Except.pure, printRegisters, fact_r8 o ho]
    rfl
  rw [if_neg h21]
  by_cases h22 : o % 16 ≥ 8
  · have hc : cls o = "_decode_11001yyy" := by simp [cls, *]
    rw [hc, h_cy]; rfl
  · have hc : cls o = "_decode_11xxxyyy" := by simp [cls, *]
    rw [hc, h_xy]; rfl


/-! ### the spec's `step` consumes a non-empty prefix -/

def Good (l : Bytes) (x : Option (Bytes × Insn × Bytes)) : Prop :=
  ∀ ib insn r, x = some (ib, insn, r) → l = ib ++ r ∧ ib ≠ []

theorem good_ite {l : Bytes} {c : Prop} [Decidable c] {a b : Option (Bytes × Insn × Bytes)}
    (ha : Good l a) (hb : Good l b) : Good l (if c then a else b) := by
  by_cases h : c
  · rw [if_pos h]; exact ha
  · rw [if_neg h]; exact hb

theorem step_good (op : UInt8) (rest : Bytes) : Good (op :: rest) (step (op :: rest)) := by
  rw [step]
  repeat' apply good_ite
  all_goals
    first
    | (intro ib insn r h
       cases hs : splitUleb rest with
       | none => rw [hs] at h; simp at h
       | some p =>
         obtain ⟨u, r0⟩ := p
         rw [hs] at h
         simp only [Option.some.injEq, Prod.mk.injEq] at h
         obtain ⟨rfl, _, rfl⟩ := h
         simp [(splitUleb_append _ _ _ hs).1])
    | (intro ib insn r h
       cases rest <;> simp only [Option.some.injEq, Prod.mk.injEq, reduceCtorEq] at h <;>
         (obtain ⟨rfl, _, rfl⟩ := h; simp))

/-- an instruction read by the spec is a non-empty prefix of the input -/
theorem step_some {l ib : Bytes} {insn : Insn} {r : Bytes} (h : step l = some (ib, insn, r)) :
    l = ib ++ r ∧ ib ≠ [] := by
  cases l with
  | nil => simp [step] at h
  | cons op rest => exact step_good op rest ib insn r h

/-! ### fuel -/

theorem decodeFuel_nil (f : Nat) : decodeFuel f [] = some [] := by cases f <;> rfl

theorem decodeFuel_cons_none {f : Nat} {b : UInt8} {t : Bytes} (hs : step (b :: t) = none) :
    decodeFuel (f + 1) (b :: t) = none := by
  rw [decodeFuel, hs]; simp

theorem decodeFuel_cons_some {f : Nat} {b : UInt8} {t ib rest : Bytes} {i : Insn}
    (hs : step (b :: t) = some (ib, i, rest)) :
    decodeFuel (f + 1) (b :: t) = (decodeFuel f rest).map ((ib, i) :: ·) := by
  rw [decodeFuel, hs]; simp

/-- any fuel ≥ the length gives the same answer -/
theorem decodeFuel_stable : ∀ (f1 f2 : Nat) (bs : Bytes), bs.length ≤ f1 → bs.length ≤ f2 →
    decodeFuel f1 bs = decodeFuel f2 bs := by
  intro f1
  induction f1 with
  | zero =>
    intro f2 bs h1 _
    have : bs = [] := List.eq_nil_of_length_eq_zero (by omega)
    subst this; rw [decodeFuel_nil, decodeFuel_nil]
  | succ f1 ih =>
    intro f2 bs h1 h2
    cases bs with
    | nil => rw [decodeFuel_nil, decodeFuel_nil]
    | cons b t =>
      cases f2 with
      | zero => simp at h2
      | succ f2 =>
        cases hs : step (b :: t) with
        | none => rw [decodeFuel_cons_none hs, decodeFuel_cons_none hs]
        | some p =>
          obtain ⟨ib, i, rest⟩ := p
          obtain ⟨happ, hne⟩ := step_some hs
          have hl : rest.length < (b :: t).length := by
            have : 0 < ib.length := List.length_pos_iff.2 hne
            rw [happ, List.length_append]; omega
          rw [decodeFuel_cons_some hs, decodeFuel_cons_some hs, ih f2 rest (by omega) (by omega)]

theorem decode_of_step_none {b : UInt8} {t : Bytes} (hs : step (b :: t) = none) :
    Spec.Ehabi.decode (b :: t) = none := by
  unfold Spec.Ehabi.decode
  rw [List.length_cons, decodeFuel_cons_none hs]

theorem decode_of_step_some {b : UInt8} {t ib rest : Bytes} {i : Insn}
    (hs : step (b :: t) = some (ib, i, rest)) :
    Spec.Ehabi.decode (b :: t) = (Spec.Ehabi.decode rest).map ((ib, i) :: ·) := by
  obtain ⟨happ, hne⟩ := step_some hs
  have hl : rest.length < (b :: t).length := by
    have : 0 < ib.length := List.length_pos_iff.2 hne
    rw [happ, List.length_append]; omega
  unfold Spec.Ehabi.decode
  rw [List.length_cons, decodeFuel_cons_some hs]
  rw [decodeFuel_stable t.length rest.length rest (by simp at hl; omega) (Nat.le_refl _)]

/-! ### the loop -/

def outR (acc : List (Bytes × String)) : Option (List (Bytes × Insn)) → R (List (Bytes × String))
  | some l => .ok (acc.reverse ++ l.map fun (b, i) => (b, render i))
  | none => .error .indexError

/-- `_decode` from index `idx` with enough fuel is the spec's decoding of the remaining bytes -/
theorem decodeLoop_spec (arr : Bytes) : ∀ (fuel idx : Nat) (acc : List (Bytes × String)),
    idx ≤ arr.length → arr.length + 1 ≤ fuel + idx →
    decodeLoop Gen.ehabiRing arr fuel idx acc = outR acc (Spec.Ehabi.decode (arr.drop idx)) := by
  intro fuel
  induction fuel with
  | zero => intro idx acc h1 h2; omega
  | succ fuel ih =>
    intro idx acc h1 h2
    rw [decodeLoop]
    by_cases hlt : idx < arr.length
    · rw [if_pos hlt]
      cases hd : arr.drop idx with
      | nil => have := length_of_drop hd; simp at this; omega
      | cons op rest =>
        have hlen := length_of_drop hd
        rw [byteAt_of_drop hd]
        simp only [bind, Except.bind]
        rw [findHandler_cls _ op.toNat_lt]
        simp only
        rw [handler_step arr idx op rest hd]
        cases hs : step (op :: rest) with
        | none => rw [decode_of_step_none hs]; rfl
        | some p =>
          obtain ⟨ib, insn, rest'⟩ := p
          obtain ⟨happ, hne⟩ := step_some hs
          have hpos : 0 < ib.length := List.length_pos_iff.2 hne
          have hd' : arr.drop idx = ib ++ rest' := hd.trans happ
          have hdrop : arr.drop (idx + ib.length) = rest' := drop_add_of_drop hd'
          have htake : (op :: rest).take (idx + ib.length - idx) = ib := by
            rw [happ, Nat.add_sub_cancel_left]; simp
          have hlen' : arr.length - idx = ib.length + rest'.length := by
            rw [length_of_drop hd', List.length_append]
          simp only [conv]
          rw [htake, ih (idx + ib.length) _ (by omega) (by omega), hdrop, decode_of_step_some hs]
          cases Spec.Ehabi.decode rest' with
          | none => rfl
          | some l => simp [outR]
    · rw [if_neg hlt]
      have : arr.drop idx = [] := List.drop_eq_nil_of_le (by omega)
      rw [this]
      simp [Spec.Ehabi.decode, decodeFuel, outR]

end EhabiBytecode

open EhabiBytecode in
/-- the byte-code decoder with the generated `ring` produces exactly the EHABI disassembly, and raises
    IndexError exactly when the array ends inside an instruction -/
theorem decode_eq_std (arr : Bytes) :
    Model.Ehabi.decode Gen.ehabiRing arr
      = (match Spec.Ehabi.ehabiStd arr with
         | some l => .ok l
         | none => .error .indexError) := by
  unfold Model.Ehabi.decode
  rw [decodeLoop_spec arr (arr.length + 1) 0 [] (Nat.zero_le _) (by omega), List.drop_zero]
  unfold ehabiStd
  cases Spec.Ehabi.decode arr with
  | none => rfl
  | some l => simp [outR]

end PyElf.Proofs
