/-
  Line-protocol driver: one JSON request per line on stdin, one JSON reply per
  line on stdout.  Dispatches on the "p" (property) field.
-/
import PyElf.Driver.Json
import PyElf.Driver.Handlers
open Lean PyElf

partial def loop (hin hout : IO.FS.Stream) : IO Unit := do
  let line ← hin.getLine
  if line.isEmpty then return ()
  let reply : Json :=
    match Json.parse line with
    | .error e => Json.mkObj [("fatal", Json.str s!"json: {e}")]
    | .ok req =>
      let idv := (req.getObjVal? "id").toOption.getD Json.null
      match handle req with
      | .ok (Json.obj o) => Json.obj (o.insert "id" idv)
      | .ok j => Json.mkObj [("id", idv), ("out", j)]
      | .error e => Json.mkObj [("id", idv), ("fatal", Json.str e)]
  hout.putStrLn reply.compress
  hout.flush
  loop hin hout

def main : IO Unit := do
  loop (← IO.getStdin) (← IO.getStdout)
