/-
  Line-protocol driver: one JSON request per line on stdin, one JSON reply per
  line on stdout.  Dispatches on the "p" (property) field.
-/
import PyElf.Driver.Loop
import PyElf.Driver.Handlers
open Lean PyElf

def main : IO Unit := PyElf.Driver.runLoop handle
