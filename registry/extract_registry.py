#!/venv/bin/python
"""Extract the vendored registries for C17 (run ONCE; the TSVs are committed, the check never reads /usr/include).

Sources on this image:
  glibc  /usr/include/elf.h                                   every object-like macro with an integer value
  LLVM14 /usr/include/llvm-14/llvm/BinaryFormat/ELF.h         every enumerator of namespace llvm::ELF, including the
         ELFRelocs/*.def and DynamicTags.def expansions       ones produced by ELF_RELOC(...) / DYNAMIC_TAG(...)
  LLVM14 /usr/include/llvm-14/llvm/BinaryFormat/Dwarf.def     every HANDLE_DW_<FAMILY>(ID, NAME, ...) line

Values are the values the C / C++ compiler of this image assigns (names are found by scanning the preprocessed
text, values by compiling a program that prints them), so expressions such as `(1U << 31)`, `EM_ARC_COMPACT`,
`EF_MIPS_ARCH_ASE_M16 = 0x04000000` and enumerators without an initialiser are evaluated by the language, not by
a regular expression.  Dwarf.def is plain `HANDLE_*(literal, name, ...)` and is read textually.

Outputs (TSV: name, value (decimal), source):
  registry/elf_glibc.tsv  registry/elf_llvm.tsv  registry/dwarf_llvm.tsv
registry/extra_specs.tsv is written by hand (cited specification values) and only copied through.

Decisions (DESIGN.md, C17):
  * count pseudo-constants (`*_NUM`, DT_PROCNUM, DT_VALNUM, DT_ADDRNUM, DT_VERSIONTAGNUM, DT_EXTRANUM, ELFCLASSNUM,
    ELFDATANUM) are table sizes, not codes: excluded.  (DT_VERDEFNUM, DT_VERNEEDNUM, PN_XNUM are real codes: kept.)
"""
import os, re, subprocess, sys, tempfile

HERE = os.path.dirname(os.path.abspath(__file__))
ELF_H = '/usr/include/elf.h'
LLVM_INC = '/usr/include/llvm-14'
LLVM_BF = LLVM_INC + '/llvm/BinaryFormat'

COUNT_PSEUDO = re.compile(r'.*_NUM$|^(DT_PROCNUM|DT_VALNUM|DT_ADDRNUM|DT_VERSIONTAGNUM|DT_EXTRANUM|ELFCLASSNUM|ELFDATANUM)$')


def run(cmd, **kw):
    p = subprocess.run(cmd, stdout=subprocess.PIPE, stderr=subprocess.PIPE, **kw)
    return p.returncode, p.stdout.decode(errors='replace'), p.stderr.decode(errors='replace')


def write_tsv(path, rows):
    with open(path, 'w') as f:
        f.write('# name\tvalue\tsource\n')
        for n, v, s in rows:
            f.write('%s\t%d\t%s\n' % (n, v, s))


# ----------------------------------------------------------------------------- glibc elf.h
def glibc():
    text = open(ELF_H).read()
    text = re.sub(r'\\\n', ' ', text)
    names = []
    for m in re.finditer(r'^[ \t]*#[ \t]*define[ \t]+([A-Za-z_]\w*)([ \t(]?)(.*)$', text, re.M):
        name, sep, body = m.group(1), m.group(2), m.group(3)
        if sep == '(':                      # function-like macro
            continue
        body = re.sub(r'/\*.*?\*/', '', body).strip()
        if not body or '"' in body or name.startswith('_'):
            continue
        if name not in names:
            names.append(name)
    with tempfile.TemporaryDirectory() as d:
        bad = set()
        for attempt in range(20):
            src = os.path.join(d, 'g.c')
            with open(src, 'w') as f:
                f.write('#include <stdio.h>\n#include <elf.h>\n'
                        '#define P(n) do { if ((n) < 0) printf("%s\\t%lld\\n", #n, (long long)(n)); '
                        'else printf("%s\\t%llu\\n", #n, (unsigned long long)(n)); } while (0)\n'
                        'int main(void) {\n')
                for i, n in enumerate(names):
                    if n not in bad:
                        f.write('#line %d\nP(%s);\n' % (100000 + i, n))
                f.write('return 0; }\n')
            rc, out, err = run(['gcc', '-w', '-o', os.path.join(d, 'g'), src])
            if rc == 0:
                break
            newbad = set()
            for mm in re.finditer(r'g\.c:(\d+):\d+: error', err):
                ln = int(mm.group(1))
                if ln >= 100000:
                    newbad.add(names[ln - 100000])
            if not newbad:
                sys.exit('gcc failed:\n' + err[:2000])
            bad |= newbad
        else:
            sys.exit('gcc: too many attempts')
        rc, out, err = run([os.path.join(d, 'g')])
    rows = []
    for line in out.splitlines():
        n, v = line.split('\t')
        if COUNT_PSEUDO.match(n):
            continue
        rows.append((n, int(v), 'glibc:elf.h'))
    return rows, sorted(bad)


# ----------------------------------------------------------------------------- LLVM ELF.h (+ .def expansions)
def llvm_elf():
    rc, pre, err = run(['clang++', '-std=c++14', '-E', '-I', LLVM_INC, LLVM_BF + '/ELF.h'])
    if rc != 0:
        sys.exit('clang++ -E failed: ' + err[:2000])
    # keep only text that comes from BinaryFormat files, remembering which file each line came from
    cur = None
    chunks = []          # (file, text)
    for line in pre.splitlines():
        m = re.match(r'# \d+ "([^"]+)"', line)
        if m:
            cur = m.group(1)
            continue
        if cur and '/llvm/BinaryFormat/' in cur:
            chunks.append((cur, line))
    names = []           # (name, source)
    in_enum = False
    buf = []
    body_src = []
    for src, line in chunks:
        buf.append((src, line))
    text = '\n'.join(l for _, l in buf)
    # map character offsets back to files
    offs = []
    pos = 0
    for src, l in buf:
        offs.append((pos, src))
        pos += len(l) + 1

    def src_at(p):
        lo, hi = 0, len(offs) - 1
        while lo < hi:
            mid = (lo + hi + 1) // 2
            if offs[mid][0] <= p:
                lo = mid
            else:
                hi = mid - 1
        return offs[lo][1]

    for m in re.finditer(r'\benum\b[^{;]*\{([^}]*)\}', text, re.S):
        body = m.group(1)
        base = m.start(1)
        # enumerators: identifier at the start of a comma-separated item
        depth = 0
        item_start = 0
        items = []
        for i, ch in enumerate(body):
            if ch in '([':
                depth += 1
            elif ch in ')]':
                depth -= 1
            elif ch == ',' and depth == 0:
                items.append((item_start, body[item_start:i]))
                item_start = i + 1
        items.append((item_start, body[item_start:]))
        for st, it in items:
            mm = re.match(r'\s*([A-Za-z_]\w*)', it)
            if mm:
                s = src_at(base + st + mm.start(1))
                names.append((mm.group(1), 'llvm14:' + s.split('/llvm/BinaryFormat/')[1]))
    seen = set()
    uniq = []
    for n, s in names:
        if n not in seen:
            seen.add(n)
            uniq.append((n, s))
    with tempfile.TemporaryDirectory() as d:
        src = os.path.join(d, 'l.cpp')
        with open(src, 'w') as f:
            f.write('#include <cstdio>\n#include "llvm/BinaryFormat/ELF.h"\nusing namespace llvm::ELF;\n'
                    'template <class T> void P(const char *n, T v) { if ((long long)v < 0 && !(T(-1) > T(0))) '
                    'printf("%s\\t%lld\\n", n, (long long)v); else printf("%s\\t%llu\\n", n, (unsigned long long)v); }\n'
                    'int main() {\n')
            for n, s in uniq:
                f.write('P("%s", %s);\n' % (n, n))
            f.write('return 0; }\n')
        rc, out, err = run(['clang++', '-std=c++14', '-w', '-I', LLVM_INC, '-o', os.path.join(d, 'l'), src])
        if rc != 0:
            sys.exit('clang++ failed:\n' + err[:3000])
        rc, out, err = run([os.path.join(d, 'l')])
    srcs = dict(uniq)
    rows = []
    for line in out.splitlines():
        n, v = line.split('\t')
        if COUNT_PSEUDO.match(n):
            continue
        rows.append((n, int(v), srcs[n]))
    return rows


# ----------------------------------------------------------------------------- LLVM Dwarf.def
def llvm_dwarf():
    text = open(LLVM_BF + '/Dwarf.def').read()
    text = re.sub(r'//[^\n]*', '', text)
    rows = []
    fam_prefix = {'CFA_PRED': 'DW_CFA_', 'MACRO_GNU': 'DW_MACRO_GNU_'}
    for m in re.finditer(r'^HANDLE_DW_([A-Z_]+)\(\s*(0x[0-9a-fA-F]+|\d+)\s*,\s*(\w+)', text, re.M):
        fam, val, name = m.group(1), m.group(2), m.group(3)
        prefix = fam_prefix.get(fam, 'DW_%s_' % fam)
        rows.append((prefix + name, int(val, 0), 'llvm14:Dwarf.def'))
    return rows


def main():
    g, bad = glibc()
    write_tsv(os.path.join(HERE, 'elf_glibc.tsv'), g)
    l = llvm_elf()
    write_tsv(os.path.join(HERE, 'elf_llvm.tsv'), l)
    d = llvm_dwarf()
    write_tsv(os.path.join(HERE, 'dwarf_llvm.tsv'), d)
    print('glibc elf.h: %d constants (%d macros without an integer value skipped: %s ...)' % (len(g), len(bad), ', '.join(bad[:8])))
    print('LLVM ELF.h + ELFRelocs + DynamicTags: %d constants' % len(l))
    print('LLVM Dwarf.def: %d constants' % len(d))


if __name__ == '__main__':
    main()
