"""C03 — symbol tables and hash lookups.  Streams:

  tab   : abstract symbol table (+ SysV / GNU hash tables, SHNDX companion, SUNW syminfo) → Lean *spec encoders/builders*
          → section contents → wrapped in an ELF container → real library through ELFFile.get_section(...);
          compared with what the property prescribes (`expect`) and with the hand-written model run on the same file
  raw   : the same files with corrupted contents / headers (flipped bytes in hash tables, entsize 0 or not dividing,
          wrong link targets, missing terminators, truncation) → library vs model, errors included (correspondence only)
  hash  : elf_hash / gnu_hash on crafted and random names vs the standard's 32-bit functions and the T3 translation
  utf8  : bytes.decode('utf-8', errors='replace') (CPython's codec, what StringTableSection.get_string applies) vs the Lean
          `utf8Replace` (Unicode 15 §3.9) on crafted ill-formed sequences and random bytes; names that are not valid UTF-8 also
          occur in the tables of the tab / file streams (reported names, by-name lookups on the decoded names)
  file  : the same abstract tables inside an abstract ELF image (C01's ElfDesc, assembled by the Lean Spec assembler): sections in
          random order and position (a table before or after the table it links to), gaps, slack after the tables, sections
          sharing a name, the section-name table shared with .dynstr, compressed-flagged tables, several index tables; observed
          through ELFFile.get_section(i) AND get_section_by_name(name) on fresh file objects; `wf` = the Spec's predicates on the
          description (hypotheses of the whole-file theorems), never a predicate on the bytes
  link  : abstract images whose sh_link values are arbitrary (wrong type: NULL / PROGBITS / NOBITS / STRTAB / SUNW_LDYNSYM / the
          section itself; out of range: beyond the file, straddling its end, stray bytes inside it; nested: a hash table over a
          symbol table whose own link is bad; index tables with any link): every section is constructed by the library and by the
          model; the error class the bad-link theorems prescribe is compared with the library wherever they decide
"""
import io, json
from common import run_impl, canon, hx, rnd_uint, rnd_bytes, BOUNDARY
import elfbuild as eb

RULE = ('tab: symbol tables of 0..300 (quick) / ..4000 (thorough) entries with duplicate, empty, non-ASCII (2-4 byte UTF-8) and '
        'control-character names, every st_info/st_other byte and boundary st_shndx, both classes and byte orders, entry padding, '
        'shared string-table entries; SysV tables for nbucket in {1,2,3,5,17,n,2n+1,1000}; GNU tables over nbuckets, symoffset '
        '(1..n), bloom size/shift, extra bloom bits (false positives); queries: every present name (capped) plus absent names '
        'colliding in SysV bucket, GNU bucket, full GNU hash (33a+b families) and hash|1, prefixes/extensions, names with NUL. '
        'Names that are not valid UTF-8 (invalid start bytes, truncated / overlong / surrogate / > U+10FFFF sequences) in ~8% of the '
        'name pool, queried through their decoded form. file: the tables x ElfDesc container (section order shuffled, gaps {0,1,3,8,17}, '
        'sh/ph entry sizes +0/8, slack after tables, duplicate names, shared name table, SHF_COMPRESSED flag, machine classes, Solaris OSABI, '
        'ET_CORE), by index and by name. link: one bad link scenario per image (see module doc). utf8: crafted boundary sequences of '
        'Table 3-7 and random bytes. Non-trivial = distinct (table, query) evaluations.')
ASSUMPTIONS = ['io.BytesIO read/seek/tell semantics', 'struct.unpack for <>BHIQ', 'str.encode/bytes.decode are mutually inverse on valid UTF-8',
               "bytes.decode('utf-8', errors='replace') substitutes U+FFFD for maximal subparts (Unicode 15 3.9); compared with the Lean utf8Replace on every run",
               'section header parsing (C01/C02) delivers sh_offset/sh_size/sh_entsize/sh_link/sh_type as encoded',
               'float division H1/arch_bits is exact for H1 < 2**32']

MCLASS = 'EM_X86_64'
SHT = {'SHT_SYMTAB': eb.SHT_SYMTAB, 'SHT_DYNSYM': eb.SHT_DYNSYM, 'SHT_SUNW_LDYNSYM': eb.SHT_SUNW_LDYNSYM,
       'SHT_STRTAB': eb.SHT_STRTAB, 'SHT_PROGBITS': eb.SHT_PROGBITS, 'SHT_HASH': eb.SHT_HASH}


# --------------------------------------------------------------------------- reference hash functions (for generation only)
def elf_hash32(b):
    h = 0
    for c in b:
        h = ((h << 4) + c) & 0xffffffff
        g = h & 0xf0000000
        if g:
            h ^= g >> 24
        h &= ~g & 0xffffffff
    return h


def gnu_hash32(b):
    h = 5381
    for c in b:
        h = (h * 33 + c) & 0xffffffff
    return h


# --------------------------------------------------------------------------- name generators
NONASCII = ['é', 'ß', 'Ω', 'ж', '日本', '語', '€', '𝔘', '😀', '\u0080', '߿', 'ࠀ', '￿', '\U00010000', '\U0010ffff']
ALPHA = 'abcdefghijklmnopqrstuvwxyzABCDEFGHIJKLMNOPQRSTUVWXYZ0123456789_.$@'


BAD_UTF8 = [b'\xff', b'\x80', b'\xbf', b'\xc0\x80', b'\xc1\xbf', b'\xc3', b'\xc3(', b'\xe2\x82', b'\xe2(\xa1', b'\xe2\x82(', b'\xe0\x9f\xbf',
            b'\xe0\xa0', b'\xed\xa0\x80', b'\xed\xbf\xbf', b'\xed\x9f', b'\xf0\x8f\xbf\xbf', b'\xf0\x9f\x98', b'\xf0\x9f', b'\xf0', b'\xf0\x9f\x98(',
            b'\xf4\x90\x80\x80', b'\xf4\x8f\xbf', b'\xf5\x80\x80\x80', b'\xf8\x88\x80\x80\x80', b'\xfe', b'\xef\xbf', b'\xef\xbf\xbd\xff']


def rnd_bad_utf8(rng):
    """a NUL-free byte string that is (almost always) not valid UTF-8"""
    parts = []
    for _ in range(rng.choice([1, 1, 2, 3])):
        r = rng.random()
        if r < 0.5:
            parts.append(rng.choice(BAD_UTF8))
        elif r < 0.7:
            parts.append(bytes(rng.randrange(0x80, 0x100) for _ in range(rng.randrange(1, 5))))
        elif r < 0.85:
            parts.append(rng.choice(NONASCII).encode('utf-8')[:-1])              # a truncated sequence
        else:
            parts.append(bytes(rng.randrange(1, 0x100) for _ in range(rng.randrange(1, 6))))
        if rng.random() < 0.5:
            parts.append(''.join(rng.choice(ALPHA + 'é€😀') for _ in range(rng.randrange(1, 4))).encode('utf-8'))
    return b''.join(parts)


def is_utf8(b):
    try:
        b.decode('utf-8')
        return True
    except UnicodeDecodeError:
        return False


def rnd_name(rng, bad=0.08):
    if rng.random() < bad:
        return rnd_bad_utf8(rng)
    r = rng.random()
    if r < 0.08:
        return b''
    if r < 0.55:
        return ''.join(rng.choice(ALPHA) for _ in range(rng.choice([1, 1, 2, 3, 5, 8, 13, 40, 63, 64, 65, 130]))).encode()
    if r < 0.70:
        s = ''.join(rng.choice(ALPHA + ''.join(NONASCII)) for _ in range(rng.randrange(1, 9)))
        return (s + rng.choice(NONASCII)).encode('utf-8')
    if r < 0.80:       # full gnu-hash collision families: 33*a + b is constant
        a = rng.randrange(0x22, 0x7a)
        k = rng.randrange(0, 3)
        pre = ''.join(rng.choice('xyz') for _ in range(rng.randrange(0, 3))).encode()
        if 33 <= 0x7e - 33 * k:
            b = rng.randrange(33 * k + 1, 0x7f)
            return pre + bytes([a + k, b - 33 * k])
        return pre + bytes([a, 0x50])
    if r < 0.88:       # SysV hash: names that drive h to the 28-bit top and carry into bit 32
        return b'\x0f' * 7 + bytes([rng.randrange(0x10, 0x80)]) + ''.join(rng.choice(ALPHA) for _ in range(rng.randrange(0, 4))).encode()
    if r < 0.94:       # control characters
        return bytes(rng.randrange(1, 0x20) for _ in range(rng.randrange(1, 10)))
    return bytes(rng.randrange(1, 0x80) for _ in range(rng.randrange(1, 12)))


def collide(rng, target, key, tries=400):
    """a random name whose key(name) equals key(target), different from target (or None)"""
    kt = key(target)
    for _ in range(tries):
        c = ''.join(rng.choice(ALPHA) for _ in range(rng.randrange(1, 6))).encode()
        if c != target and key(c) == kt:
            return c
    return None


def gnu_twin(name, low_bit=False):
    """a different name with the same gnu hash (33a+b trick), or the same hash|1 — or None"""
    if len(name) >= 2:
        a, b = name[-2], name[-1]
        for da in (1, -1):
            a2, b2 = a + da, b - 33 * da
            if 1 <= a2 < 0x80 and 1 <= b2 < 0x80:
                return name[:-2] + bytes([a2, b2])
    if low_bit and len(name) >= 1:
        b2 = name[-1] ^ 1
        if 1 <= b2 < 0x80:
            return name[:-1] + bytes([b2])
    return None


# --------------------------------------------------------------------------- abstract cases
def gen_case(ctx, rng, big=False):
    le = rng.random() < 0.5
    cls = rng.choice([32, 64])
    if big:
        n = rng.choice([1000, 2500, 4000]) if ctx.tier == 'thorough' else rng.choice([300, 700])
    else:
        n = rng.choice([0, 1, 1, 2, 2, 3, 4, 5, 6, 8, 12, 17, 30, 60])
    pool = [rnd_name(rng) for _ in range(max(1, rng.choice([n, n, max(1, n // 2), max(1, n // 4), 3])))]
    # present names that collide in the full GNU hash / in hash|1 (both twins in the table, same chain)
    for nm in list(pool)[:max(1, len(pool) // 3)]:
        for tw in (gnu_twin(nm), gnu_twin(nm, True)):
            if tw is not None and rng.random() < 0.6:
                try:
                    tw.decode('utf-8')
                    pool.append(tw)
                except UnicodeDecodeError:
                    pass
    syms = []
    for i in range(n):
        if i == 0:
            syms.append(['', 0, 0, 0, 0, 0] if rng.random() < 0.9 else [hx(rng.choice(pool)), 1, 2, 3, 4, 5])
            continue
        nm = rng.choice(pool)
        shndx = rng.choice([0, 1, 2, 0xfff1, 0xfff2, 0xffff, 0xff00, 0xfeff, rng.randrange(0, 0x10000)])
        syms.append([hx(nm), rnd_uint(rng, cls), rnd_uint(rng, cls), rng.randrange(256), rng.randrange(256), shndx])
    c = {'p': 'C03', 'k': 'ast', 'le': le, 'cls': cls, 'pad': rng.choice([0, 0, 0, 0, 1, 8, 24]), 'share': rng.random() < 0.5, 'syms': syms}
    kind = rng.choice(['plain', 'sysv', 'gnu', 'both', 'both']) if n >= 1 else 'plain'
    if kind in ('sysv', 'both'):
        # (large tables: keep chains short — the decidable WF check walks every symbol's chain over lists)
        c['sysv'] = {'nbucket': rng.choice([1, 1, 2, 3, 5, 17, max(1, n), 2 * n + 1, 1000] if n <= 700 else
                                           [n // 8 + 1, n // 3 + 1, n, 2 * n + 1, 1031])}
    if kind in ('gnu', 'both'):
        so = rng.choice([1, 1, 1, min(2, n), max(1, n // 2), max(1, n - 1), n])
        g = {'nbuckets': rng.choice([1, 1, 2, 3, 5, 16, max(1, n), 257] if n <= 700 else [n // 8 + 1, n, 257, 1031]), 'symoffset': so,
             'bloom_size': rng.choice([1, 1, 2, 4, 3, 8]), 'bloom_shift': rng.choice([0, 1, 5, 6, 7, 26, 31, 40])}
        r = rng.random()
        if r < 0.25:
            g['bloom_or'] = [(1 << cls) - 1] * g['bloom_size']                  # filter accepts everything
        elif r < 0.5:
            g['bloom_or'] = [rng.getrandbits(cls) for _ in range(g['bloom_size'])]
        c['gnu'] = g
    if n >= 1 and rng.random() < 0.4:
        c['shndx'] = [rnd_uint(rng, 32) for _ in range(n)]
    if n >= 1 and rng.random() < 0.4:
        c['syminfo'] = [[1, 0]] + [[rng.choice([0xffff, 0xfffe, 0xfffd, 0xfffc, 0, 1, rng.randrange(0x10000)]), rng.randrange(0x10000)] for _ in range(n - 1)]
    c['symtype'] = rng.choice(['SHT_SYMTAB', 'SHT_DYNSYM']) if (kind != 'plain' or 'syminfo' in c) else rng.choice(['SHT_SYMTAB', 'SHT_DYNSYM', 'SHT_SUNW_LDYNSYM'])
    # queries
    names = sorted({bytes.fromhex(s[0]) for s in syms})
    present = names if len(names) <= 40 else rng.sample(names, 40)
    qs = set(present)
    nbk = c.get('sysv', {}).get('nbucket', 1)
    gnb = c.get('gnu', {}).get('nbuckets', 1)
    for nm in (present if len(present) <= 12 else rng.sample(present, 12)):
        for cand in (collide(rng, nm, lambda b: elf_hash32(b) % nbk, 60), collide(rng, nm, lambda b: gnu_hash32(b) % gnb, 60),
                     gnu_twin(nm), gnu_twin(nm, True), nm + b'x', nm[:-1], nm + b'\0', b'\0' + nm):
            if cand is not None:
                qs.add(cand)
    for _ in range(6):
        qs.add(rnd_name(rng))
    qs.add(b'')
    # names that are not valid UTF-8 are looked up by what Python reports for them (and by U+FFFD alone)
    for nm in present:
        if not is_utf8(nm):
            qs.add(nm.decode('utf-8', errors='replace').encode('utf-8'))
            qs.add('\ufffd'.encode('utf-8'))
    c['queries'] = [hx(q) for q in sorted(qs) if is_utf8(q)]
    c['align'] = rng.choice([1, 4, 8, 16])
    return c


# --------------------------------------------------------------------------- file assembly
def build_file(c, r, mut=None):
    """wrap the spec-encoded contents in an ELF file; returns (bytes, layout) — layout = the header fields the model needs"""
    mut = mut or {}
    cont = {k: bytearray.fromhex(r[k]) for k in ('symtab', 'strtab', 'sysv', 'gnu', 'shndx', 'syminfo') if k in r}
    for op in mut.get('bytes', []):          # [section, offset, value]
        sec, off, val = op
        if sec in cont and off < len(cont[sec]):
            cont[sec][off] = val
    for sec, ln in mut.get('trunc', {}).items():
        if sec in cont:
            cont[sec] = cont[sec][:ln]
    img = eb.ElfImage(cls=c['cls'], le=c['le'], e_type=eb.ET_DYN, e_machine=eb.EM_X86_64)
    al = c.get('align', 1)
    strtype = mut.get('strtype', 'SHT_STRTAB')
    symtype = mut.get('symtype', c.get('symtype', 'SHT_DYNSYM'))
    istr = img.add_section('.dynstr', SHT[strtype], cont['strtab'], addralign=al)
    entsize = mut.get('entsize', r['entsize'])
    symsize = len(cont['symtab']) + mut.get('symsize', 0)
    isym = img.add_section('.dynsym', SHT[symtype], cont['symtab'], link=istr, entsize=entsize, addralign=al, info=1, size=symsize)
    idx = {'str': istr, 'sym': isym}
    if 'sysv' in cont:
        idx['sysv'] = img.add_section('.hash', eb.SHT_HASH, cont['sysv'], link=mut.get('hashlink', isym), addralign=al, entsize=4)
    if 'gnu' in cont:
        idx['gnu'] = img.add_section('.gnu.hash', eb.SHT_GNU_HASH, cont['gnu'], link=mut.get('hashlink', isym), addralign=al)
    if 'shndx' in cont:
        idx['shndx'] = img.add_section('.symtab_shndx', eb.SHT_SYMTAB_SHNDX, cont['shndx'], link=isym, addralign=al,
                                       entsize=mut.get('shndx_entsize', 4))
    if 'syminfo' in cont:
        idx['syminfo'] = img.add_section('.SUNW_syminfo', eb.SHT_SUNW_syminfo, cont['syminfo'], link=mut.get('hashlink', isym),
                                         addralign=al, entsize=mut.get('syminfo_entsize', 4))
    data = img.build()
    if 'cut' in mut:
        data = data[:mut['cut']] + bytes(0)
    off = img.offsets
    lay = {'idx': idx, 'symtab': {'off': off[isym], 'size': symsize, 'entsize': entsize, 'link_type': strtype, 'type': symtype},
           'strtab_off': off[istr]}
    hl = mut.get('hashlink', isym)
    lay['hash_target_type'] = symtype if hl == isym else (strtype if hl == istr else 'other')
    if 'sysv' in idx: lay['sysv_off'] = off[idx['sysv']]
    if 'gnu' in idx: lay['gnu_off'] = off[idx['gnu']]
    if 'shndx' in idx: lay['shndx'] = {'off': off[idx['shndx']], 'size': len(cont['shndx']), 'entsize': mut.get('shndx_entsize', 4)}
    if 'syminfo' in idx: lay['syminfo'] = {'off': off[idx['syminfo']], 'size': len(cont['syminfo']), 'entsize': mut.get('syminfo_entsize', 4)}
    return data, lay


def model_request(c, data, lay, shndx_get):
    rq = {'p': 'C03', 'k': 'run', 'le': c['le'], 'cls': c['cls'], 'mclass': MCLASS, 'hex': hx(data), 'symtab': dict(lay['symtab']),
          'strtab_off': lay['strtab_off'], 'queries': c['queries']}
    if lay['hash_target_type'] != lay['symtab']['type']:
        # the hash/syminfo link points somewhere else: the model only needs the type the check sees
        rq['symtab'] = dict(lay['symtab'], type=lay['hash_target_type'])
    for k in ('sysv_off', 'gnu_off'):
        if k in lay: rq[k] = lay[k]
    if 'shndx' in lay: rq['shndx'] = dict(lay['shndx'], get=shndx_get)
    if 'syminfo' in lay: rq['syminfo'] = lay['syminfo']
    return rq


# --------------------------------------------------------------------------- the real library
def csym(s):
    return [canon(s.entry), {'b': s.name.encode('utf-8').hex()}]


def impl_all(c, data, lay, shndx_get, model):
    """every observation of the property, each as {'ok':..}|{'err':..}; shaped like the model's reply.
    `model` is consulted only to skip calls on which the model predicts non-termination (cyclic SysV chain)."""
    from elftools.elf.elffile import ELFFile
    out = {}
    ef = ELFFile(io.BytesIO(data))
    qstr = [bytes.fromhex(q).decode('utf-8') for q in c['queries']]
    idx = lay['idx']
    box = {}

    def mk(i):
        def f():
            box[i] = ef.get_section(i)
            return None
        return f
    out['init'] = run_impl(mk(idx['sym']))
    if 'ok' in out['init']:
        sec = box[idx['sym']]
        out['num'] = run_impl(lambda: sec.num_symbols())
        out['symbols'] = run_impl(lambda: [csym(s) for s in sec.iter_symbols()])
        out['byname'] = []
        for q in qstr:
            def f(q=q):
                r = sec.get_symbol_by_name(q)
                return None if r is None else [csym(s) for s in r]
            out['byname'].append(run_impl(f))
    for key in ('sysv', 'gnu'):
        if key in idx:
            out[key + '_init'] = run_impl(mk(idx[key]))
            if 'ok' in out[key + '_init']:
                hs = box[idx[key]]
                out[key + '_count'] = run_impl(lambda: hs.get_number_of_symbols())
                res = []
                for j, q in enumerate(qstr):
                    mj = (model.get(key) or [None] * len(qstr))[j] if model else None
                    if mj is not None and mj.get('err') == 'outOfFuel':
                        res.append({'err': 'outOfFuel'})       # the code would not return
                        continue
                    def f(q=q):
                        r = hs.get_symbol(q)
                        return None if r is None else csym(r)
                    res.append(run_impl(f))
                out[key] = res
    if 'shndx' in idx:
        box2 = {}
        r0 = run_impl(lambda: box2.setdefault('s', ef.get_section(idx['shndx'])) and None)
        out['shndx'] = [run_impl(lambda n=n: canon(box2['s'].get_section_index(n))) if 'ok' in r0 else r0 for n in shndx_get]
    if 'syminfo' in idx:
        r0 = run_impl(mk(idx['syminfo']))
        if 'ok' in r0:
            si = box[idx['syminfo']]
            out['syminfo_num'] = run_impl(lambda: si.num_symbols())
            out['syminfo'] = run_impl(lambda: [csym(s) for s in si.iter_symbols()])
        else:
            out['syminfo'] = r0
    return out


# --------------------------------------------------------------------------- comparison
def check_property(c, r, impl, sg):
    """list of (what, expect, got) where the property is violated"""
    bad = []
    ex = r['expect']
    wf = r['wf']
    if not wf['sym']:
        return bad

    def want(what, exp, got):
        if got != {'ok': exp}:
            bad.append((what, exp, got))
    want('init', None, impl.get('init'))
    if bad:
        return bad
    want('num_symbols', ex['count'], impl.get('num'))
    want('iter_symbols', ex['symbols'], impl.get('symbols'))
    for q, eq, got in zip(c['queries'], ex['queries'], impl.get('byname', [])):
        exp = [ex['symbols'][i] for i in eq['byname']] or None
        want('get_symbol_by_name(%s)' % q, exp, got)
    for key in ('sysv', 'gnu'):
        if key in wf and wf[key]:
            want(key + '_init', None, impl.get(key + '_init'))
            want(key + '.get_number_of_symbols', ex['count'], impl.get(key + '_count'))
            for q, eq, got in zip(c['queries'], ex['queries'], impl.get(key, [])):
                why = hash_verdict(ex, eq, key, got)
                if why is not None:
                    bad.append(('%s.get_symbol(%s)' % (key, q), why, got))
    if wf.get('shndx') and 'shndx' in ex:
        for n, got in zip(sg, impl.get('shndx', [])):
            want('get_section_index(%d)' % n, ex['shndx'][n], got)
    if wf.get('syminfo') and 'syminfo' in ex:
        want('syminfo.num_symbols', len(ex['syminfo']), impl.get('syminfo_num'))
        want('syminfo.iter_symbols', ex['syminfo'], impl.get('syminfo'))
    return bad


def hash_verdict(ex, eq, key, got):
    """None when `got` is what the property allows for this query, else the expectation.  `eq[key]`: the hashed symbols whose
    name IS the query (one of them must be returned); `eq[key+'_may']`: those REPORTED under it (names that are not valid UTF-8
    are reported through U+FFFD and hashed by their bytes: finding them is not required, returning one is sound)."""
    must = [ex['symbols'][i] for i in eq[key]]
    may = [ex['symbols'][i] for i in eq[key + '_may']]
    if 'ok' not in got:
        return must or None
    if got['ok'] is None:
        return must if must else None
    return None if got['ok'] in may else (may or None)


def diff_model(impl, model):
    bad = []
    for k in sorted(set(impl) | set(model)):
        if impl.get(k) != model.get(k):
            a, b = impl.get(k), model.get(k)
            if isinstance(a, list) and isinstance(b, list) and len(a) == len(b):
                for i, (x, y) in enumerate(zip(a, b)):
                    if x != y:
                        bad.append(('%s[%d]' % (k, i), x, y))
                        break
            else:
                bad.append((k, a, b))
    return bad


def shndx_gets(c, r):
    n = r['n']
    return sorted({0, max(0, n - 1), n // 2}) if 'shndx' in r else []


def eval_case(ctx, case, r=None):
    """case = {'ast': request, 'mut': mutation or None}; returns (violations, info)"""
    c = case['ast']
    if r is None:
        r = ctx.driver.ask(c)
    if 'fatal' in r:
        raise RuntimeError('driver: %s' % r['fatal'])
    mut = case.get('mut')
    data, lay = build_file(c, r, mut)
    sg = shndx_gets(c, r) + ([r['n'], r['n'] + 7] if mut else [])
    m = ctx.driver.ask(model_request(c, data, lay, sg))
    if 'fatal' in m:
        raise RuntimeError('driver: %s' % m['fatal'])
    model = m['model']
    impl = impl_all(c, data, lay, sg, model)
    viol = []
    if not mut:
        for what, exp, got in check_property(c, r, impl, sg):
            viol.append(('property', what, exp, got))
    for what, a, b in diff_model(impl, model):
        viol.append(('correspondence', what, a, b))
    return viol, {'r': r, 'impl': impl, 'model': model}


def small(case):
    """the case as stored in a replay file"""
    return case


def record(ctx, stream, case, viol, nq):
    ctx.out.case({'case': json.dumps(case, sort_keys=True)[:20000]})
    ctx.out.evaluations += max(0, nq - 1)
    seen = set()
    for kind, what, exp, got in viol:
        if kind in seen:
            continue
        seen.add(kind)
        if kind == 'property':
            ctx.out.violation('property', stream, small(case), what=what, expect=exp, got=got)
        else:
            ctx.out.violation('correspondence', stream, small(case), what=what, got=exp, model=got)


def run_tab(ctx):
    rng = ctx.rng('tab')
    cases = [gen_case(ctx, rng) for _ in range(ctx.budget(260, 6000))]
    cases += [gen_case(ctx, rng, big=True) for _ in range(ctx.budget(3, 40))]
    for c in cases:
        r = ctx.driver.ask(c)           # one at a time: requests are large (pipe buffers)
        if 'fatal' in r:
            raise RuntimeError('driver: %s on %s' % (r['fatal'], json.dumps(c)[:300]))
        for k, v in r['wf'].items():
            ctx.out.count('tab:wf:%s:%s' % (k, v))
            if not v:
                # every generated table is in the quantifier's domain: the Spec builders must satisfy the Spec predicates
                raise RuntimeError('spec builder output fails its own well-formedness predicate %s on %s' % (k, json.dumps(c)[:400]))
        ctx.out.count('tab:n=%s' % (r['n'] if r['n'] < 8 else ('8-99' if r['n'] < 100 else '100+')))
        ctx.out.count('tab:cls%d:%s' % (c['cls'], 'le' if c['le'] else 'be'))
        ctx.out.count('tab:names:%s' % ('all-utf8' if r.get('utf8') else 'some-not-utf8'))
        case = {'ast': c, 'mut': None}
        viol, info = eval_case(ctx, case, r)
        nq = len(c['queries']) * (1 + ('sysv' in r) + ('gnu' in r)) + r['n']
        for key in ('sysv', 'gnu'):
            for q, eq in zip(c['queries'], r['expect']['queries']):
                if key in eq:
                    ctx.out.count('tab:%s:%s' % (key, 'hit' if eq[key] else 'miss'))
        record(ctx, 'tab', case, viol, nq)
        if ctx.time_left() < (15 if ctx.tier == 'quick' else 450):
            ctx.out.notes.append('tab: stopped early on the time budget')
            break


def gen_mut(rng, c, r):
    mut = {}
    k = rng.choice(['hashbytes', 'hashbytes', 'hashbytes', 'entsize', 'strtype', 'hashlink', 'trunc', 'cut', 'strnul', 'symbytes', 'entsize2'])
    secs = [s for s in ('sysv', 'gnu') if s in r]
    if k == 'hashbytes' and secs:
        s = rng.choice(secs)
        ln = len(r[s]) // 2
        mut['bytes'] = [[s, rng.randrange(0, max(1, ln)), rng.choice([0, 1, 2, 0xff, rng.randrange(256)])] for _ in range(rng.choice([1, 1, 2, 4]))]
    elif k == 'entsize':
        mut['entsize'] = rng.choice([0, 1, r['entsize'] - 1, r['entsize'] + 1, 2 * r['entsize'], 7])
    elif k == 'entsize2':
        mut['shndx_entsize'] = rng.choice([0, 1, 8])
        mut['syminfo_entsize'] = rng.choice([0, 1, 3, 8])
    elif k == 'strtype':
        mut['strtype'] = 'SHT_PROGBITS'
    elif k == 'hashlink':
        mut['hashlink'] = rng.choice([1, 0, 1])
    elif k == 'trunc':
        s = rng.choice([x for x in ('symtab', 'strtab', 'sysv', 'gnu', 'shndx', 'syminfo') if x in r])
        mut['trunc'] = {s: rng.randrange(0, max(1, len(r[s]) // 2))}
    elif k == 'cut':
        mut['symsize'] = rng.choice([1, 2, 5, 1000, 100000]) * max(1, r['entsize']) + rng.choice([0, 0, 1])
    elif k == 'strnul':
        ln = len(r['strtab']) // 2
        mut['bytes'] = [['strtab', ln - 1, 0x41]] + [['strtab', rng.randrange(0, ln), rng.choice([0, 0x41, 0xff, 0xc3])] for _ in range(2)]
    else:
        ln = len(r['symtab']) // 2
        mut['bytes'] = [['symtab', rng.randrange(0, max(1, ln)), rng.randrange(256)] for _ in range(3)]
    return mut or {'entsize': 0}


def utf8_ok(r, mut):
    """the model represents str names by their bytes: set aside files whose string table stops being valid UTF-8"""
    tab = bytearray.fromhex(r['strtab'])
    for sec, off, val in mut.get('bytes', []):
        if sec == 'strtab' and off < len(tab):
            tab[off] = val
    for s, ln in mut.get('trunc', {}).items():
        if s == 'strtab':
            tab = tab[:ln]
    try:
        for piece in bytes(tab).split(b'\0'):
            piece.decode('utf-8')
        return True
    except UnicodeDecodeError:
        return False


def run_raw(ctx):
    rng = ctx.rng('raw')
    for _ in range(ctx.budget(220, 5000)):
        c = gen_case(ctx, rng)
        if len(c['syms']) > 20:
            c['syms'] = c['syms'][:20]
            c.pop('shndx', None); c.pop('syminfo', None)
            if 'gnu' in c:
                c['gnu']['symoffset'] = min(c['gnu']['symoffset'], 20)
        r = ctx.driver.ask(c)
        if 'fatal' in r:
            raise RuntimeError('driver: %s' % r['fatal'])
        mut = gen_mut(rng, c, r)
        ctx.out.count('raw:' + '+'.join(sorted(mut)))
        if not r['wf']['sym']:
            ctx.out.count('raw:aside')
            continue
        if not utf8_ok(r, mut):
            ctx.out.count('raw:non-utf8-strtab')
        case = {'ast': c, 'mut': mut}
        try:
            viol, info = eval_case(ctx, case, r)
        except Exception as e:          # ELFFile itself may reject a cut file: not this property's business
            from elftools.common.exceptions import ELFError
            if isinstance(e, (ELFError, TypeError)):
                ctx.out.count('raw:container-rejected')
                continue
            raise
        for k, v in info['model'].items():
            if isinstance(v, dict) and 'err' in v:
                ctx.out.count('raw:err:%s:%s' % (k, v['err']))
            elif isinstance(v, list):
                for x in v:
                    if isinstance(x, dict) and 'err' in x:
                        ctx.out.count('raw:err:%s[]:%s' % (k, x['err']))
        record(ctx, 'raw', case, [v for v in viol if v[0] == 'correspondence'], len(c['queries']))
        if ctx.time_left() < 3:
            break


def hash_names(ctx, rng):
    names = [b'', b'a', b'\x0f' * 7 + b'A', b'\x0f' * 7 + b'\x10', b'\x0f' * 7 + b'\x7f' + b'zz', b'\xff' * 9, b'printf', b'bB', b'c!']
    for _ in range(ctx.budget(1500, 60000)):
        r = rng.random()
        if r < 0.5:
            names.append(rnd_name(rng))
        elif r < 0.8:
            names.append(rnd_bytes(rng, rng.choice([1, 2, 6, 7, 8, 9, 16, 33, 100])))
        else:
            names.append(bytes(rng.choice([0x0f, 0xff, 0xf0, 0x7f, 0x80, 0x10]) for _ in range(rng.randrange(1, 20))))
    return names


def run_hash(ctx):
    from elftools.elf.hash import ELFHashTable, GNUHashTable
    rng = ctx.rng('hash')
    names = hash_names(ctx, rng)
    replies = ctx.driver.ask_many([{'p': 'C03', 'k': 'hash', 'name': hx(n)} for n in names])
    for n, r in zip(names, replies):
        if 'fatal' in r:
            raise RuntimeError('driver: %s' % r['fatal'])
        case = {'name': hx(n)}
        ctx.out.case(case)
        ctx.out.count('hash')
        e, g = ELFHashTable.elf_hash(n), GNUHashTable.gnu_hash(n)
        if (e, g) != (r['elf_expect'], r['gnu_expect']):
            ctx.out.violation('property', 'hash', case, expect=[r['elf_expect'], r['gnu_expect']], got=[e, g])
        elif (e, g) != (r['elf_model'], r['gnu_model']):
            ctx.out.violation('correspondence', 'hash', case, got=[e, g], model=[r['elf_model'], r['gnu_model']])


# --------------------------------------------------------------------------- utf8: the codec vs the Lean `utf8Replace`
def utf8_names(ctx, rng):
    names = list(BAD_UTF8) + [b'', b'a', 'é'.encode(), '€'.encode(), '😀'.encode(), b'\xef\xbf\xbd']
    # every boundary of Table 3-7: lead byte x second byte at the edges of its range, full and truncated
    for lead in (0x7f, 0x80, 0xbf, 0xc0, 0xc1, 0xc2, 0xdf, 0xe0, 0xe1, 0xec, 0xed, 0xee, 0xef, 0xf0, 0xf1, 0xf3, 0xf4, 0xf5, 0xf7, 0xf8, 0xff):
        for b1 in (0x7f, 0x80, 0x8f, 0x90, 0x9f, 0xa0, 0xbf, 0xc0):
            for tail in (b'', b'\x80', b'\x80\x80', b'\xbf\xbf\x41', b'\x41', b'\x80\x41', b'\xc3'):
                names.append(bytes([lead, b1]) + tail)
    for _ in range(ctx.budget(2500, 30000)):
        r = rng.random()
        if r < 0.4:
            names.append(rnd_bad_utf8(rng))
        elif r < 0.6:
            names.append(rnd_name(rng, bad=0))
        elif r < 0.8:
            names.append(bytes(rng.choice([0x41, 0x7f, 0x80, 0x9f, 0xa0, 0xbf, 0xc2, 0xdf, 0xe0, 0xed, 0xef, 0xf0, 0xf4, 0xf5, 0xff])
                               for _ in range(rng.randrange(1, 9))))
        else:
            names.append(rnd_bytes(rng, rng.choice([1, 2, 3, 4, 5, 8, 17])))
    return names


def utf8_judge(out, n, r):
    case = {'name': hx(n)}
    got = n.decode('utf-8', errors='replace').encode('utf-8')
    ok = is_utf8(n)
    # correspondence: the codec in the trusted base IS the function the theorems are about
    if hx(got) != r['replace'] or ok != r['valid']:
        out.violation('correspondence', 'utf8', case, got=[hx(got), ok], model=[r['replace'], r['valid']])
    return case


def run_utf8(ctx):
    rng = ctx.rng('utf8')
    names = utf8_names(ctx, rng)
    replies = ctx.driver.ask_many([{'p': 'C03', 'k': 'utf8', 'name': hx(n)} for n in names])
    for n, r in zip(names, replies):
        if 'fatal' in r:
            raise RuntimeError('driver: %s' % r['fatal'])
        ctx.out.case(utf8_judge(ctx.out, n, r))
        ctx.out.count('utf8:%s' % ('valid' if r['valid'] else 'ill-formed'))


# --------------------------------------------------------------------------- whole abstract images (C01's ElfDesc)
CLASS_MACHINES = {
    'EM_SPARC': ['EM_SPARC', 'EM_386', 'EM_68K', 'EM_S390', 'EM_SH', 'EM_CRIS', 'EM_M32R', 'EM_MN10300'],
    'EM_MIPS': ['EM_MIPS'], 'EM_MIPS_RS3_LE': ['EM_MIPS_RS3_LE'], 'EM_ARM': ['EM_ARM'], 'EM_X86_64': ['EM_X86_64'],
    'EM_AARCH64': ['EM_AARCH64'], 'EM_RISCV': ['EM_RISCV'],
}
SYMTYPE = {'SHT_SYMTAB': 2, 'SHT_DYNSYM': 11, 'SHT_SUNW_LDYNSYM': 0x6ffffff3}


def mclass_of(e_machine):
    from elftools.elf.enums import ENUM_E_MACHINE
    names = [k for k, v in ENUM_E_MACHINE.items() if v == e_machine and k != '_default_']
    for cl, ms in CLASS_MACHINES.items():
        if any(n in ms for n in names):
            return cl
    return 'default'


def R(**kw):
    return {'r': [[k, v] for k, v in kw.items()]}


def S(name, type, body=None, link=None, flags=0, info=0, entsize=0, size=None):
    return dict(name=name, type=type, body=body, link=link, flags=flags, info=info, entsize=entsize, size=size)


def table_sections(rng, c, r):
    """the sections holding the tables of case `c` (contents `r` from the Spec encoders): dict key -> section"""
    def slack():
        return rnd_bytes(rng, rng.choice([0, 0, 0, 1, 5, 16]))
    t = {}
    t['str'] = S(b'.dynstr', 3, bytes.fromhex(r['strtab']) + rng.choice([b'', b'', b'tail\0', b'\xff']), flags=2)
    symbody = bytes.fromhex(r['symtab'])
    t['sym'] = S(rng.choice([b'.dynsym', b'.dynsym', b'.symtab']), SYMTYPE[c['symtype']], symbody + slack(), link=t['str'], flags=2,
                 info=1, entsize=r['entsize'], size=len(symbody))
    if 'sysv' in r:
        t['sysv'] = S(b'.hash', 5, bytes.fromhex(r['sysv']) + slack(), link=t['sym'], flags=2, entsize=4)
    if 'gnu' in r:
        t['gnu'] = S(b'.gnu.hash', 0x6ffffff6, bytes.fromhex(r['gnu']) + slack(), link=t['sym'], flags=2)
    if 'shndx' in r:
        t['shndx'] = S(b'.symtab_shndx', 18, bytes.fromhex(r['shndx']) + slack(), link=t['sym'], entsize=4)
    if 'syminfo' in r:
        body = bytes.fromhex(r['syminfo'])
        t['syminfo'] = S(b'.SUNW_syminfo', 0x6ffffffc, body + slack(), link=t['sym'], flags=2, entsize=4, size=len(body))
    return t


def lay_out(rng, cls, le, items, shared_names=None, extra_hdr=None):
    """An abstract ELF image (the JSON of Spec.ElfDesc) of the sections `items` (shuffled here), each body anywhere in the
    file.  `link` of an item is another item (→ its index) or a raw number.  Returns (desc, index-of-item function)."""
    shsz, phsz, ehsize = (40, 32, 52) if cls == 32 else (64, 56, 64)

    def X():
        return rnd_uint(rng, cls)
    null = S(b'', 0)
    items = list(items)
    if shared_names is None:
        items.append(S(b'.shstrtab', 3, b''))
    rng.shuffle(items)
    secs = [null] + items
    names = bytearray(b'\0')
    noff = {b'': 0}
    for t in secs:
        if t['name'] not in noff:
            noff[t['name']] = len(names)
            names += t['name'] + b'\0'
    if shared_names is not None:                # the section-name table is also a string table under test
        base = len(shared_names['body'])
        shared_names['body'] = shared_names['body'] + bytes(names)
        noff = {k: v + base for k, v in noff.items()}
        shstr = shared_names
    else:
        shstr = [t for t in secs if t['name'] == b'.shstrtab'][0]
        shstr['body'] = bytes(names)
    index = {id(t): i for i, t in enumerate(secs)}
    nseg = rng.choice([0, 0, 1, 2])
    shentsize = shsz + rng.choice([0, 0, 8])
    phentsize = phsz + rng.choice([0, 0, 8])
    regions = ['sh', 'ph'] + [('body', i) for i, t in enumerate(secs) if t['body']]
    rng.shuffle(regions)
    pos = ehsize + rng.choice([0, 0, 4])
    shoff = phoff = 0
    for g in regions:
        pos += rng.choice([0, 0, 0, 1, 3, 8, 17])
        if g == 'sh':
            shoff = pos
            pos += shentsize * len(secs)
        elif g == 'ph':
            phoff = pos
            pos += phentsize * nseg
        else:
            secs[g[1]]['offset'] = pos
            pos += len(secs[g[1]]['body'])
    for t in secs:
        t.setdefault('offset', 0 if t is null else rng.choice([pos, 0, ehsize, pos + 5]))
    segs = []
    for _ in range(nseg):
        f = dict(p_type=rng.choice([1, 1, 4, 6, 0x6474e551]), p_offset=X(), p_vaddr=X(), p_paddr=X(), p_filesz=X(), p_memsz=X(),
                 p_flags=rnd_uint(rng, 32), p_align=X())
        order = (['p_type', 'p_offset', 'p_vaddr', 'p_paddr', 'p_filesz', 'p_memsz', 'p_flags', 'p_align'] if cls == 32 else
                 ['p_type', 'p_flags', 'p_offset', 'p_vaddr', 'p_paddr', 'p_filesz', 'p_memsz', 'p_align'])
        segs.append(R(**{k: f[k] for k in order}))
    machine = rng.choice([62, 62, 3, 40, 183, 243, 21, 8])
    osabi = rng.choice([0, 0, 0, 3, 6])
    e_type = rng.choice([1, 2, 3, 3, 4])

    def linkno(t):
        if t['link'] is None:
            return 0
        return t['link'] if isinstance(t['link'], int) else index[id(t['link'])]
    desc = {
        'cls': cls, 'le': le, 'mclass': mclass_of(machine), 'solaris': osabi == 6, 'core': e_type == 4,
        'ehdr': R(EI_VERSION=1, EI_OSABI=osabi, EI_ABIVERSION=0, e_type=e_type, e_machine=machine, e_version=1,
                  e_entry=X(), e_flags=rnd_uint(rng, 32), e_ehsize=ehsize),
        'shoff': shoff, 'phoff': phoff, 'shentsize': shentsize, 'phentsize': phentsize,
        'sections': [{'name': hx(t['name']), 'nameOff': noff[t['name']],
                      'hdr': R(sh_type=t['type'], sh_flags=t['flags'], sh_addr=0 if t is null else X(), sh_offset=t['offset'],
                               sh_size=t['size'] if t['size'] is not None else len(t['body'] or b''), sh_link=linkno(t),
                               sh_info=t['info'], sh_addralign=0 if t is null else rng.choice([1, 2, 4, 8]),
                               sh_entsize=t['entsize']),
                      'body': hx(t['body']) if t['body'] is not None else None} for t in secs],
        'segments': segs, 'shstrndx': index[id(shstr)],
    }
    return desc, (lambda t: index[id(t)]), pos


def build_file_request(rng, c, r):
    """the `file` request of case `c`: the tables inside a random abstract image"""
    t = table_sections(rng, c, r)
    items = list(t.values())
    meta = {}
    if rng.random() < 0.5:
        items.append(S(b'.filler', 1, bytes(range(1, rng.choice([2, 9, 40])))))
    if rng.random() < 0.3:
        items.append(S(b'.bss', 8, None, flags=3, size=rng.choice([0, 16, 1 << 20])))
    dup = rng.random() < 0.25
    if dup:                                     # another section bearing a table's name (the later one is found by name)
        victim = rng.choice(list(t.values()))
        items.append(S(victim['name'], rng.choice([1, 7]), b'\x05\x06\x07'))
        meta['dup'] = True
    if 'shndx' in t and rng.random() < 0.5:     # more index tables: one for another table, one more for ours
        items.append(S(b'.symtab_shndx', 18, b'\1\2\3\4' * 2, link=t['str'], entsize=4))
        if rng.random() < 0.5:
            items.append(S(b'.symtab_shndx', 18, t['shndx']['body'], link=t['sym'], entsize=4))
        meta['more-shndx'] = True
    for k in ('sym', 'str'):
        if len(t[k]['body']) >= 24 and rng.random() < 0.05:
            t[k]['flags'] |= 0x800              # SHF_COMPRESSED: the table classes read the raw bytes regardless
            meta['compressed'] = True
    share = rng.random() < 0.2
    meta['shared-names'] = share
    desc, idx_of, _ = lay_out(rng, c['cls'], c['le'], items, shared_names=t['str'] if share else None)
    idx = {k: idx_of(v) for k, v in t.items()}
    n = r['n']
    rq = dict(c)
    rq.update(k='file', desc=desc, tail=rng.choice([0, 0, 5]), idx=idx, get=sorted({0, n // 2, max(0, n - 1), n, n + 3}),
              secnames=[hx(x) for x in sorted({v['name'] for v in t.values()} | {b'.nonesuch', b''})])
    meta['order'] = 'sym-before-str' if idx['sym'] < idx['str'] else 'str-before-sym'
    return rq, meta


def csym_list(it):
    return [csym(s) for s in it]


def observe_section(sec, qstr, gets):
    """everything observed of a section object; shaped like the driver's `observeObj`"""
    from elftools.elf.sections import SymbolTableSection, SymbolTableIndexSection, SUNWSyminfoTableSection
    from elftools.elf.hash import ELFHashSection, GNUHashSection
    kind = type(sec).__name__
    if isinstance(sec, SymbolTableSection):
        def byname(q):
            x = sec.get_symbol_by_name(q)
            return None if x is None else csym_list(x)
        num = run_impl(lambda: sec.num_symbols())
        # disturbance: a walk abandoned after its first symbol BEFORE the first lookup by name (the name map must not be
        # taken from a walk that was never finished); the complete walk is observed after the lookups
        it = sec.iter_symbols()
        try:
            next(it, None)
        except Exception:       # noqa: BLE001 — the observed calls below report the error
            pass
        del it
        found = [run_impl(lambda q=q: byname(q)) for q in qstr]
        return {'kind': kind, 'num': num, 'byname': found, 'symbols': run_impl(lambda: csym_list(sec.iter_symbols())),
                'get': [run_impl(lambda n=n: csym(sec.get_symbol(n))) for n in gets]}
    if isinstance(sec, SymbolTableIndexSection):
        return {'kind': kind, 'symboltable': sec.symboltable,
                'get': [run_impl(lambda n=n: canon(sec.get_section_index(n))) for n in gets]}
    if isinstance(sec, SUNWSyminfoTableSection):
        return {'kind': kind, 'num': run_impl(lambda: sec.num_symbols()), 'symbols': run_impl(lambda: csym_list(sec.iter_symbols()))}
    if isinstance(sec, (ELFHashSection, GNUHashSection)):
        def look(q):
            x = sec.get_symbol(q)
            return None if x is None else csym(x)
        return {'kind': kind, 'count': run_impl(lambda: sec.get_number_of_symbols()), 'lookup': [run_impl(lambda q=q: look(q)) for q in qstr]}
    return {'kind': kind}


def observe_index(data, i, qstr, gets):
    from elftools.elf.elffile import ELFFile
    return observe_section(ELFFile(io.BytesIO(data)).get_section(i), qstr, gets)


def observe_name(data, name, qstr, gets):
    """ELFFile(BytesIO(data)).get_section_by_name(name) on a fresh file object"""
    from elftools.elf.elffile import ELFFile
    sec = ELFFile(io.BytesIO(data)).get_section_by_name(name.decode('utf-8'))
    return {'kind': None} if sec is None else observe_section(sec, qstr, gets)


def companion_of(data, symidx):
    """how a client finds the extended-index table of symbol table #symidx (scripts/readelf.py)"""
    from elftools.elf.elffile import ELFFile
    from elftools.elf.sections import SymbolTableIndexSection
    ef = ELFFile(io.BytesIO(data))
    m = {sec.symboltable: i for i, sec in enumerate(ef.iter_sections()) if isinstance(sec, SymbolTableIndexSection)}
    return m.get(symidx)


def expect_violations(rq, r, key, got):
    """where `got` (observation of the section holding table `key`) differs from what the property prescribes"""
    ex = r['expect']
    bad = []

    def want(what, exp, g):
        if g != {'ok': exp}:
            bad.append((what, exp, g))
    if 'ok' not in got:
        return [('get_section', 'a section object', got)]
    o = got['ok']
    kinds = {'sym': 'SymbolTableSection', 'sysv': 'ELFHashSection', 'gnu': 'GNUHashSection', 'syminfo': 'SUNWSyminfoTableSection',
             'shndx': 'SymbolTableIndexSection'}
    if o.get('kind') != kinds[key]:
        return [('class', kinds[key], o.get('kind'))]
    if key == 'sym':
        want('num_symbols', ex['count'], o['num'])
        want('iter_symbols', ex['symbols'], o['symbols'])
        for q, eq, g in zip(rq['queries'], ex['queries'], o['byname']):
            want('get_symbol_by_name(%s)' % q, [ex['symbols'][i] for i in eq['byname']] or None, g)
        for n, g in zip(rq['get'], o['get']):
            if n < ex['count']:
                want('get_symbol(%d)' % n, ex['symbols'][n], g)
    elif key in ('sysv', 'gnu'):
        want('get_number_of_symbols', ex['count'], o['count'])
        for q, eq, g in zip(rq['queries'], ex['queries'], o['lookup']):
            why = hash_verdict(ex, eq, key, g)
            if why is not None:
                bad.append(('%s.get_symbol(%s)' % (key, q), why, g))
    elif key == 'syminfo':
        want('syminfo.num_symbols', len(ex['syminfo']), o['num'])
        want('syminfo.iter_symbols', ex['syminfo'], o['symbols'])
    elif key == 'shndx':
        if o['symboltable'] != r['linkOf']['shndx']:
            bad.append(('symboltable', r['linkOf']['shndx'], o['symboltable']))
        for n, g in zip(rq['get'], o['get']):
            if n < len(ex['shndx']):
                want('get_section_index(%d)' % n, ex['shndx'][n], g)
    return bad


def judge_file(out, rq, r):
    """all verdicts of one `file` case (by index, by every queried section name, the companion scan)"""
    data = bytes.fromhex(r['bytes'])
    qstr = [bytes.fromhex(q).decode('utf-8') for q in rq['queries']]
    gets = rq['get']
    case = {'file': rq}
    n_viol = len(out.violations)

    def judge(via, key, wf, model, got):
        if wf:
            for what, exp, g in expect_violations(rq, r, key, got)[:1]:
                out.violation('property', 'file', case, via=via, table=key, what=what, expect=exp, got=g)
                return
        if got != model:
            out.violation('correspondence', 'file', case, via=via, table=key, got=got, model=model)
    for key, model in r['model'].items():
        if key == 'companion':
            got = run_impl(lambda: companion_of(data, rq['idx']['sym']))
            if r['wf']['sym'] and r['wf']['observable'] and got != {'ok': r['companionExpect']}:
                out.violation('property', 'file', case, via='scan', what='index table of the symbol table', expect=r['companionExpect'], got=got)
            elif got != model:
                out.violation('correspondence', 'file', case, via='scan', got=got, model=model)
            continue
        got = run_impl(lambda: observe_index(data, rq['idx'][key], qstr, gets))
        judge('index', key, r['wf'].get(key), model, got)
    key_of = {v: k for k, v in rq['idx'].items()}
    for k, h in enumerate(rq['secnames']):
        name = bytes.fromhex(h)
        got = run_impl(lambda: observe_name(data, name, qstr, gets))
        idx = r['indexOfName'][k]
        ok = r['wf']['sym'] and r['wf']['observable']          # the hypotheses of the by-name theorems (wfZ, every header decodes)
        if ok and idx is None:
            if got != {'ok': {'kind': None}}:
                out.violation('property', 'file', case, via='name', name=h, what='absent name', expect=None, got=got)
                continue
        key = key_of.get(idx)
        if ok and key is not None and r['wf'].get(key):
            judge('name:' + h, key, True, r['modelByName'][k], got)
        elif got != r['modelByName'][k]:
            out.violation('correspondence', 'file', case, via='name', name=h, got=got, model=r['modelByName'][k])
    return len(out.violations) - n_viol


def run_file(ctx):
    rng = ctx.rng('file')
    nwf = 0
    for _ in range(ctx.budget(110, 900)):
        c = gen_case(ctx, rng)
        if len(c['syms']) > 40:
            c['syms'] = c['syms'][:40]
            if 'shndx' in c: c['shndx'] = c['shndx'][:40]
            if 'syminfo' in c: c['syminfo'] = c['syminfo'][:40]
            if 'gnu' in c: c['gnu']['symoffset'] = min(c['gnu']['symoffset'], 40)
        r0 = ctx.driver.ask(c)
        if 'fatal' in r0:
            raise RuntimeError('driver: %s' % r0['fatal'])
        rq, meta = build_file_request(rng, c, r0)
        r = ctx.driver.ask(rq)
        if 'fatal' in r:
            raise RuntimeError('driver: %s on %s' % (r['fatal'], json.dumps(rq)[:300]))
        if 'bytes' not in r:
            ctx.out.count('file:not-encodable')
            continue
        for k, v in r['wf'].items():
            ctx.out.count('file:%s:%s' % (k, 'wf' if v else 'not-wf'))
        if not all(r['wf'].values()):
            # every generated image is in the theorems' domain: the Spec predicates must hold of what the harness lays out
            raise RuntimeError('file stream: a generated image fails the Spec well-formedness predicates %s: %s' % (r['wf'], json.dumps(rq)[:600]))
        nwf += 1
        for k, v in meta.items():
            if v:
                ctx.out.count('file:%s' % (k if v is True else '%s=%s' % (k, v)))
        ctx.out.count('file:names:%s' % ('all-utf8' if r.get('utf8') else 'some-not-utf8'))
        for idx in r['indexOfName']:
            ctx.out.count('file:by-name:%s' % ('absent' if idx is None else 'table' if idx in rq['idx'].values() else 'other-section'))
        ctx.out.case({'file': hashlib_sha(r['bytes']), 'q': rq['queries'], 'idx': rq['idx']}, nontrivial=r0['n'] > 0)
        ctx.out.evaluations += len(rq['queries']) * len(r['model']) + len(rq['secnames'])
        judge_file(ctx.out, rq, r)
        if ctx.time_left() < (8 if ctx.tier == 'quick' else 300):
            ctx.out.notes.append('file: stopped early on the time budget')
            break
    if nwf == 0:
        raise RuntimeError('file stream: no description satisfied the Spec well-formedness predicates (vacuous run)')


def hashlib_sha(hexstr):
    import hashlib
    return hashlib.sha1(hexstr.encode()).hexdigest()[:20]


# --------------------------------------------------------------------------- links that are not what the gABI requires
LINK_SCENARIOS = ['sym-wrong', 'sym-wrong', 'sym-self', 'sym-beyond', 'sym-straddle', 'sym-stray', 'hash-wrong', 'hash-wrong',
                  'hash-ldynsym', 'hash-beyond', 'nested-wrong', 'nested-beyond', 'shndx-any', 'good']


def build_link_request(rng, c, r):
    """an abstract image with ONE bad-link scenario (or none); returns (request, scenario)"""
    if not any(k in r for k in ('sysv', 'gnu', 'syminfo')):
        sc = rng.choice([x for x in LINK_SCENARIOS if x.startswith('sym') or x in ('shndx-any', 'good')])
    else:
        sc = rng.choice(LINK_SCENARIOS)
    t = table_sections(rng, c, r)
    items = list(t.values())
    filler = S(b'.filler', 1, bytes(range(1, 30)))
    nobits = S(b'.bss', 8, None, flags=3, size=64)
    note = S(b'.note', 7, b'\0' * 12)
    other_sym = S(b'.symtab2', rng.choice([2, 11]), b'\0' * r['entsize'], link=t['str'], entsize=r['entsize'], size=r['entsize'])
    items += [filler, nobits, note, other_sym]
    hashy = [t[k] for k in ('sysv', 'gnu', 'syminfo') if k in t]
    wrong_for_sym = [0, filler, nobits, note, other_sym] + hashy          # anything but a string table
    wrong_for_hash = [0, filler, nobits, note, t['str']] + [h for h in hashy]
    far = None                                                              # out-of-range links are resolved after the layout
    if sc == 'sym-wrong':
        t['sym']['link'] = rng.choice(wrong_for_sym)
        if rng.random() < 0.4:
            t['sym']['entsize'] = rng.choice([0, 7])                        # the link guard comes first
    elif sc == 'sym-self':
        t['sym']['link'] = t['sym']
    elif sc in ('sym-beyond', 'sym-straddle', 'sym-stray'):
        far = (t['sym'], sc[4:])
    elif sc == 'hash-wrong':
        rng.choice(hashy)['link'] = rng.choice(wrong_for_hash)
    elif sc == 'hash-ldynsym':
        t['sym']['type'] = 0x6ffffff3                                      # a hash / syminfo table over SHT_SUNW_LDYNSYM
    elif sc == 'hash-beyond':
        far = (rng.choice(hashy), 'beyond')
    elif sc == 'nested-wrong':
        t['sym']['link'] = rng.choice(wrong_for_sym[:4])
    elif sc == 'nested-beyond':
        far = (t['sym'], 'beyond')
    elif sc == 'shndx-any':
        x = t.get('shndx') or S(b'.symtab_shndx', 18, b'\1\0\0\0', entsize=4)
        if 'shndx' not in t:
            items.append(x)
        x['link'] = rng.choice([0, filler, nobits, 999, 0xffffffff, x])
    if far is not None:
        far[0]['link'] = 0                                                  # placeholder, patched below
    desc, idx_of, end = lay_out(rng, c['cls'], c['le'], items)
    tail = rng.choice([0, 0, 5])
    if far is not None:
        sec, how = far
        shdr = 40 if c['cls'] == 32 else 64
        n, shoff, es = len(desc['sections']), desc['shoff'], desc['shentsize']
        size = max(end, shoff + n * es) + tail                              # an upper bound of the assembled length
        if how == 'beyond':
            l = (size - shoff) // es + rng.choice([1, 2, 1000, 0xfffffff])
        elif how == 'straddle':
            l = max(n, (size - shoff - 1) // es)                            # starts inside the file (or at its end), does not fit
        else:
            l = n + rng.choice([0, 1, 2])                                   # right behind the table: stray bytes, if the file goes on
        l = min(l, 0xffffffff)
        for k, v in desc['sections'][idx_of(sec)]['hdr']['r']:
            pass
        desc['sections'][idx_of(sec)]['hdr']['r'] = [[k, (l if k == 'sh_link' else v)] for k, v in desc['sections'][idx_of(sec)]['hdr']['r']]
    rq = {'p': 'C03', 'k': 'link', 'desc': desc, 'tail': tail, 'secs': list(range(len(desc['sections'])))}
    return rq, sc


def kind_of_section(data, i):
    from elftools.elf.elffile import ELFFile
    from elftools.elf.sections import SymbolTableIndexSection
    sec = ELFFile(io.BytesIO(data)).get_section(i)
    if isinstance(sec, SymbolTableIndexSection):
        return [type(sec).__name__, sec.symboltable]
    return type(sec).__name__


def judge_link(out, rq, r):
    data = bytes.fromhex(r['bytes'])
    case = {'link': rq}
    for row in r['rows']:
        got = run_impl(lambda: kind_of_section(data, row['sec']))
        if r['core'] and row['expect'] is not None and got != {'err': row['expect']}:
            out.violation('property', 'link', case, sec=row['sec'], verdict=row['verdict'], expect={'err': row['expect']}, got=got)
        elif got != row['model']:
            out.violation('correspondence', 'link', case, sec=row['sec'], verdict=row['verdict'], got=got, model=row['model'])


def run_link(ctx):
    rng = ctx.rng('link')
    decided = 0
    for _ in range(ctx.budget(160, 1500)):
        c = gen_case(ctx, rng)
        if len(c['syms']) > 12:
            c['syms'] = c['syms'][:12]
            if 'shndx' in c: c['shndx'] = c['shndx'][:12]
            if 'syminfo' in c: c['syminfo'] = c['syminfo'][:12]
            if 'gnu' in c: c['gnu']['symoffset'] = min(c['gnu']['symoffset'], 12)
        c['symtype'] = rng.choice(['SHT_SYMTAB', 'SHT_DYNSYM'])
        r0 = ctx.driver.ask(c)
        if 'fatal' in r0:
            raise RuntimeError('driver: %s' % r0['fatal'])
        rq, sc = build_link_request(rng, c, r0)
        r = ctx.driver.ask(rq)
        if 'fatal' in r:
            raise RuntimeError('driver: %s on %s' % (r['fatal'], json.dumps(rq)[:300]))
        if 'bytes' not in r:
            ctx.out.count('link:not-encodable')
            continue
        ctx.out.count('link:%s' % sc)
        ctx.out.count('link:core:%s' % r['core'])
        if not r['core']:
            raise RuntimeError('link stream: a generated image is outside the relaxed domain wfZCore: %s' % json.dumps(rq)[:600])
        for row in r['rows']:
            if row['verdict'] and row['verdict'][0] != 'unchecked':
                ctx.out.count('link:verdict:%s:%s' % (row['verdict'][0], row['expect'] or ('constructs' if 'ok' in row['model'] else 'undecided:' + row['model'].get('err', '?'))))
                decided += row['expect'] is not None
        ctx.out.case({'link': hashlib_sha(r['bytes'])})
        ctx.out.evaluations += len(r['rows']) - 1
        judge_link(ctx.out, rq, r)
    if decided == 0:
        raise RuntimeError('link stream: no link was decided by the bad-link theorems (vacuous run)')


def run(ctx):
    run_hash(ctx)
    run_utf8(ctx)
    run_tab(ctx)
    run_file(ctx)
    run_link(ctx)
    run_raw(ctx)


def replay(ctx, payload):
    v = payload['violation']
    case = v['case']
    res = {'stream': v['stream']}
    if v['stream'] == 'hash':
        from elftools.elf.hash import ELFHashTable, GNUHashTable
        n = bytes.fromhex(case['name'])
        r = ctx.driver.ask({'p': 'C03', 'k': 'hash', 'name': case['name']})
        got = [ELFHashTable.elf_hash(n), GNUHashTable.gnu_hash(n)]
        res.update(impl=got, expect=[r['elf_expect'], r['gnu_expect']], model=[r['elf_model'], r['gnu_model']],
                   fails=(got != [r['elf_expect'], r['gnu_expect']]))
        return res
    if v['stream'] in ('utf8', 'file', 'link'):
        from common import Outcome
        o = Outcome('C03')
        if v['stream'] == 'utf8':
            n = bytes.fromhex(case['name'])
            utf8_judge(o, n, ctx.driver.ask({'p': 'C03', 'k': 'utf8', 'name': case['name']}))
        elif v['stream'] == 'file':
            rq = case['file']
            judge_file(o, rq, ctx.driver.ask(rq))
        else:
            rq = case['link']
            judge_link(o, rq, ctx.driver.ask(rq))
        same = [x for x in o.violations if x['kind'] == v['kind']]
        res.update(violations=[{k: x[k] for k in x if k != 'case'} for x in o.violations[:5]],
                   fails=bool(same) if v['kind'] == 'property' else bool(o.violations))
        return res
    viol, info = eval_case(ctx, case)
    prop = [x for x in viol if x[0] == 'property']
    res.update(violations=[{'kind': k, 'what': w, 'expect_or_impl': a, 'got_or_model': b} for k, w, a, b in viol[:5]],
               fails=bool(prop) if v['kind'] == 'property' else bool(viol))
    return res


FINDINGS = {}
