"""C03 — symbol tables and hash lookups.  Streams:

  tab   : abstract symbol table (+ SysV / GNU hash tables, SHNDX companion, SUNW syminfo) → Lean *spec encoders/builders*
          → section contents → wrapped in an ELF container → real library through ELFFile.get_section(...);
          compared with what the property prescribes (`expect`) and with the hand-written model run on the same file
  raw   : the same files with corrupted contents / headers (flipped bytes in hash tables, entsize 0 or not dividing,
          wrong link targets, missing terminators, truncation) → library vs model, errors included (correspondence only)
  hash  : elf_hash / gnu_hash on crafted and random names vs the standard's 32-bit functions and the T3 translation
"""
import io, json
from common import run_impl, canon, hx, rnd_uint, rnd_bytes, BOUNDARY
import elfbuild as eb

RULE = ('tab: symbol tables of 0..300 (quick) / ..4000 (thorough) entries with duplicate, empty, non-ASCII (2-4 byte UTF-8) and '
        'control-character names, every st_info/st_other byte and boundary st_shndx, both classes and byte orders, entry padding, '
        'shared string-table entries; SysV tables for nbucket in {1,2,3,5,17,n,2n+1,1000}; GNU tables over nbuckets, symoffset '
        '(1..n), bloom size/shift, extra bloom bits (false positives); queries: every present name (capped) plus absent names '
        'colliding in SysV bucket, GNU bucket, full GNU hash (33a+b families) and hash|1, prefixes/extensions, names with NUL. '
        'Non-trivial = distinct (table, query) evaluations.')
ASSUMPTIONS = ['io.BytesIO read/seek/tell semantics', 'struct.unpack for <>BHIQ', 'str.encode/bytes.decode are mutually inverse on valid UTF-8',
               'section header parsing (C01/C02) delivers sh_offset/sh_size/sh_entsize/sh_link/sh_type as encoded',
               'float division H1/arch_bits is exact for H1 < 2**32']

MCLASS = 'EM_X86_64'
SHT = {'SHT_SYMTAB': eb.SHT_SYMTAB, 'SHT_DYNSYM': eb.SHT_DYNSYM, 'SHT_SUNW_LDYNSYM': eb.SHT_SUNW_LDYNSYM,
       'SHT_STRTAB': eb.SHT_STRTAB, 'SHT_PROGBITS': eb.SHT_PROGBITS, 'SHT_HASH': eb.SHT_HASH}


# --------------------------------------------------------------------------- reference hash functions (for generation only)
def elf_hash32(b):
    h = 0
    for c in b:
        h = ((h << 4) + c) & 0xffffffff
        g = h & 0xf0000000
        if g:
            h ^= g >> 24
        h &= ~g & 0xffffffff
    return h


def gnu_hash32(b):
    h = 5381
    for c in b:
        h = (h * 33 + c) & 0xffffffff
    return h


# --------------------------------------------------------------------------- name generators
NONASCII = ['é', 'ß', 'Ω', 'ж', '日本', '語', '€', '𝔘', '😀', '\u0080', '߿', 'ࠀ', '￿', '\U00010000', '\U0010ffff']
ALPHA = 'abcdefghijklmnopqrstuvwxyzABCDEFGHIJKLMNOPQRSTUVWXYZ0123456789_.$@'


def rnd_name(rng):
    r = rng.random()
    if r < 0.08:
        return b''
    if r < 0.55:
        return ''.join(rng.choice(ALPHA) for _ in range(rng.choice([1, 1, 2, 3, 5, 8, 13, 40, 63, 64, 65, 130]))).encode()
    if r < 0.70:
        s = ''.join(rng.choice(ALPHA + ''.join(NONASCII)) for _ in range(rng.randrange(1, 9)))
        return (s + rng.choice(NONASCII)).encode('utf-8')
    if r < 0.80:       # full gnu-hash collision families: 33*a + b is constant
        a = rng.randrange(0x22, 0x7a)
        k = rng.randrange(0, 3)
        pre = ''.join(rng.choice('xyz') for _ in range(rng.randrange(0, 3))).encode()
        if 33 <= 0x7e - 33 * k:
            b = rng.randrange(33 * k + 1, 0x7f)
            return pre + bytes([a + k, b - 33 * k])
        return pre + bytes([a, 0x50])
    if r < 0.88:       # SysV hash: names that drive h to the 28-bit top and carry into bit 32
        return b'\x0f' * 7 + bytes([rng.randrange(0x10, 0x80)]) + ''.join(rng.choice(ALPHA) for _ in range(rng.randrange(0, 4))).encode()
    if r < 0.94:       # control characters
        return bytes(rng.randrange(1, 0x20) for _ in range(rng.randrange(1, 10)))
    return bytes(rng.randrange(1, 0x80) for _ in range(rng.randrange(1, 12)))


def collide(rng, target, key, tries=400):
    """a random name whose key(name) equals key(target), different from target (or None)"""
    kt = key(target)
    for _ in range(tries):
        c = ''.join(rng.choice(ALPHA) for _ in range(rng.randrange(1, 6))).encode()
        if c != target and key(c) == kt:
            return c
    return None


def gnu_twin(name, low_bit=False):
    """a different name with the same gnu hash (33a+b trick), or the same hash|1 — or None"""
    if len(name) >= 2:
        a, b = name[-2], name[-1]
        for da in (1, -1):
            a2, b2 = a + da, b - 33 * da
            if 1 <= a2 < 0x80 and 1 <= b2 < 0x80:
                return name[:-2] + bytes([a2, b2])
    if low_bit and len(name) >= 1:
        b2 = name[-1] ^ 1
        if 1 <= b2 < 0x80:
            return name[:-1] + bytes([b2])
    return None


# --------------------------------------------------------------------------- abstract cases
def gen_case(ctx, rng, big=False):
    le = rng.random() < 0.5
    cls = rng.choice([32, 64])
    if big:
        n = rng.choice([1000, 2500, 4000]) if ctx.tier == 'thorough' else rng.choice([300, 700])
    else:
        n = rng.choice([0, 1, 1, 2, 2, 3, 4, 5, 6, 8, 12, 17, 30, 60])
    pool = [rnd_name(rng) for _ in range(max(1, rng.choice([n, n, max(1, n // 2), max(1, n // 4), 3])))]
    # present names that collide in the full GNU hash / in hash|1 (both twins in the table, same chain)
    for nm in list(pool)[:max(1, len(pool) // 3)]:
        for tw in (gnu_twin(nm), gnu_twin(nm, True)):
            if tw is not None and rng.random() < 0.6:
                try:
                    tw.decode('utf-8')
                    pool.append(tw)
                except UnicodeDecodeError:
                    pass
    syms = []
    for i in range(n):
        if i == 0:
            syms.append(['', 0, 0, 0, 0, 0] if rng.random() < 0.9 else [hx(rng.choice(pool)), 1, 2, 3, 4, 5])
            continue
        nm = rng.choice(pool)
        shndx = rng.choice([0, 1, 2, 0xfff1, 0xfff2, 0xffff, 0xff00, 0xfeff, rng.randrange(0, 0x10000)])
        syms.append([hx(nm), rnd_uint(rng, cls), rnd_uint(rng, cls), rng.randrange(256), rng.randrange(256), shndx])
    c = {'p': 'C03', 'k': 'ast', 'le': le, 'cls': cls, 'pad': rng.choice([0, 0, 0, 0, 1, 8, 24]), 'share': rng.random() < 0.5, 'syms': syms}
    kind = rng.choice(['plain', 'sysv', 'gnu', 'both', 'both']) if n >= 1 else 'plain'
    if kind in ('sysv', 'both'):
        # (large tables: keep chains short — the decidable WF check walks every symbol's chain over lists)
        c['sysv'] = {'nbucket': rng.choice([1, 1, 2, 3, 5, 17, max(1, n), 2 * n + 1, 1000] if n <= 700 else
                                           [n // 8 + 1, n // 3 + 1, n, 2 * n + 1, 1031])}
    if kind in ('gnu', 'both'):
        so = rng.choice([1, 1, 1, min(2, n), max(1, n // 2), max(1, n - 1), n])
        g = {'nbuckets': rng.choice([1, 1, 2, 3, 5, 16, max(1, n), 257] if n <= 700 else [n // 8 + 1, n, 257, 1031]), 'symoffset': so,
             'bloom_size': rng.choice([1, 1, 2, 4, 3, 8]), 'bloom_shift': rng.choice([0, 1, 5, 6, 7, 26, 31, 40])}
        r = rng.random()
        if r < 0.25:
            g['bloom_or'] = [(1 << cls) - 1] * g['bloom_size']                  # filter accepts everything
        elif r < 0.5:
            g['bloom_or'] = [rng.getrandbits(cls) for _ in range(g['bloom_size'])]
        c['gnu'] = g
    if n >= 1 and rng.random() < 0.4:
        c['shndx'] = [rnd_uint(rng, 32) for _ in range(n)]
    if n >= 1 and rng.random() < 0.4:
        c['syminfo'] = [[1, 0]] + [[rng.choice([0xffff, 0xfffe, 0xfffd, 0xfffc, 0, 1, rng.randrange(0x10000)]), rng.randrange(0x10000)] for _ in range(n - 1)]
    c['symtype'] = rng.choice(['SHT_SYMTAB', 'SHT_DYNSYM']) if (kind != 'plain' or 'syminfo' in c) else rng.choice(['SHT_SYMTAB', 'SHT_DYNSYM', 'SHT_SUNW_LDYNSYM'])
    # queries
    names = sorted({bytes.fromhex(s[0]) for s in syms})
    present = names if len(names) <= 40 else rng.sample(names, 40)
    qs = set(present)
    nbk = c.get('sysv', {}).get('nbucket', 1)
    gnb = c.get('gnu', {}).get('nbuckets', 1)
    for nm in (present if len(present) <= 12 else rng.sample(present, 12)):
        for cand in (collide(rng, nm, lambda b: elf_hash32(b) % nbk, 60), collide(rng, nm, lambda b: gnu_hash32(b) % gnb, 60),
                     gnu_twin(nm), gnu_twin(nm, True), nm + b'x', nm[:-1], nm + b'\0', b'\0' + nm):
            if cand is not None:
                qs.add(cand)
    for _ in range(6):
        qs.add(rnd_name(rng))
    qs.add(b'')

    def is_utf8(b):
        try:
            b.decode('utf-8')
            return True
        except UnicodeDecodeError:
            return False
    c['queries'] = [hx(q) for q in sorted(qs) if is_utf8(q)]
    c['align'] = rng.choice([1, 4, 8, 16])
    return c


# --------------------------------------------------------------------------- file assembly
def build_file(c, r, mut=None):
    """wrap the spec-encoded contents in an ELF file; returns (bytes, layout) — layout = the header fields the model needs"""
    mut = mut or {}
    cont = {k: bytearray.fromhex(r[k]) for k in ('symtab', 'strtab', 'sysv', 'gnu', 'shndx', 'syminfo') if k in r}
    for op in mut.get('bytes', []):          # [section, offset, value]
        sec, off, val = op
        if sec in cont and off < len(cont[sec]):
            cont[sec][off] = val
    for sec, ln in mut.get('trunc', {}).items():
        if sec in cont:
            cont[sec] = cont[sec][:ln]
    img = eb.ElfImage(cls=c['cls'], le=c['le'], e_type=eb.ET_DYN, e_machine=eb.EM_X86_64)
    al = c.get('align', 1)
    strtype = mut.get('strtype', 'SHT_STRTAB')
    symtype = mut.get('symtype', c.get('symtype', 'SHT_DYNSYM'))
    istr = img.add_section('.dynstr', SHT[strtype], cont['strtab'], addralign=al)
    entsize = mut.get('entsize', r['entsize'])
    symsize = len(cont['symtab']) + mut.get('symsize', 0)
    isym = img.add_section('.dynsym', SHT[symtype], cont['symtab'], link=istr, entsize=entsize, addralign=al, info=1, size=symsize)
    idx = {'str': istr, 'sym': isym}
    if 'sysv' in cont:
        idx['sysv'] = img.add_section('.hash', eb.SHT_HASH, cont['sysv'], link=mut.get('hashlink', isym), addralign=al, entsize=4)
    if 'gnu' in cont:
        idx['gnu'] = img.add_section('.gnu.hash', eb.SHT_GNU_HASH, cont['gnu'], link=mut.get('hashlink', isym), addralign=al)
    if 'shndx' in cont:
        idx['shndx'] = img.add_section('.symtab_shndx', eb.SHT_SYMTAB_SHNDX, cont['shndx'], link=isym, addralign=al,
                                       entsize=mut.get('shndx_entsize', 4))
    if 'syminfo' in cont:
        idx['syminfo'] = img.add_section('.SUNW_syminfo', eb.SHT_SUNW_syminfo, cont['syminfo'], link=mut.get('hashlink', isym),
                                         addralign=al, entsize=mut.get('syminfo_entsize', 4))
    data = img.build()
    if 'cut' in mut:
        data = data[:mut['cut']] + bytes(0)
    off = img.offsets
    lay = {'idx': idx, 'symtab': {'off': off[isym], 'size': symsize, 'entsize': entsize, 'link_type': strtype, 'type': symtype},
           'strtab_off': off[istr]}
    hl = mut.get('hashlink', isym)
    lay['hash_target_type'] = symtype if hl == isym else (strtype if hl == istr else 'other')
    if 'sysv' in idx: lay['sysv_off'] = off[idx['sysv']]
    if 'gnu' in idx: lay['gnu_off'] = off[idx['gnu']]
    if 'shndx' in idx: lay['shndx'] = {'off': off[idx['shndx']], 'size': len(cont['shndx']), 'entsize': mut.get('shndx_entsize', 4)}
    if 'syminfo' in idx: lay['syminfo'] = {'off': off[idx['syminfo']], 'size': len(cont['syminfo']), 'entsize': mut.get('syminfo_entsize', 4)}
    return data, lay


def model_request(c, data, lay, shndx_get):
    rq = {'p': 'C03', 'k': 'run', 'le': c['le'], 'cls': c['cls'], 'mclass': MCLASS, 'hex': hx(data), 'symtab': dict(lay['symtab']),
          'strtab_off': lay['strtab_off'], 'queries': c['queries']}
    if lay['hash_target_type'] != lay['symtab']['type']:
        # the hash/syminfo link points somewhere else: the model only needs the type the check sees
        rq['symtab'] = dict(lay['symtab'], type=lay['hash_target_type'])
    for k in ('sysv_off', 'gnu_off'):
        if k in lay: rq[k] = lay[k]
    if 'shndx' in lay: rq['shndx'] = dict(lay['shndx'], get=shndx_get)
    if 'syminfo' in lay: rq['syminfo'] = lay['syminfo']
    return rq


# --------------------------------------------------------------------------- the real library
def csym(s):
    return [canon(s.entry), {'b': s.name.encode('utf-8').hex()}]


def impl_all(c, data, lay, shndx_get, model):
    """every observation of the property, each as {'ok':..}|{'err':..}; shaped like the model's reply.
    `model` is consulted only to skip calls on which the model predicts non-termination (cyclic SysV chain)."""
    from elftools.elf.elffile import ELFFile
    out = {}
    ef = ELFFile(io.BytesIO(data))
    qstr = [bytes.fromhex(q).decode('utf-8') for q in c['queries']]
    idx = lay['idx']
    box = {}

    def mk(i):
        def f():
            box[i] = ef.get_section(i)
            return None
        return f
    out['init'] = run_impl(mk(idx['sym']))
    if 'ok' in out['init']:
        sec = box[idx['sym']]
        out['num'] = run_impl(sec.num_symbols)
        out['symbols'] = run_impl(lambda: [csym(s) for s in sec.iter_symbols()])
        out['byname'] = []
        for q in qstr:
            def f(q=q):
                r = sec.get_symbol_by_name(q)
                return None if r is None else [csym(s) for s in r]
            out['byname'].append(run_impl(f))
    for key in ('sysv', 'gnu'):
        if key in idx:
            out[key + '_init'] = run_impl(mk(idx[key]))
            if 'ok' in out[key + '_init']:
                hs = box[idx[key]]
                out[key + '_count'] = run_impl(hs.get_number_of_symbols)
                res = []
                for j, q in enumerate(qstr):
                    mj = (model.get(key) or [None] * len(qstr))[j] if model else None
                    if mj is not None and mj.get('err') == 'outOfFuel':
                        res.append({'err': 'outOfFuel'})       # the code would not return
                        continue
                    def f(q=q):
                        r = hs.get_symbol(q)
                        return None if r is None else csym(r)
                    res.append(run_impl(f))
                out[key] = res
    if 'shndx' in idx:
        box2 = {}
        r0 = run_impl(lambda: box2.setdefault('s', ef.get_section(idx['shndx'])) and None)
        out['shndx'] = [run_impl(lambda n=n: canon(box2['s'].get_section_index(n))) if 'ok' in r0 else r0 for n in shndx_get]
    if 'syminfo' in idx:
        r0 = run_impl(mk(idx['syminfo']))
        if 'ok' in r0:
            si = box[idx['syminfo']]
            out['syminfo_num'] = run_impl(si.num_symbols)
            out['syminfo'] = run_impl(lambda: [csym(s) for s in si.iter_symbols()])
        else:
            out['syminfo'] = r0
    return out


# --------------------------------------------------------------------------- comparison
def check_property(c, r, impl, sg):
    """list of (what, expect, got) where the property is violated"""
    bad = []
    ex = r['expect']
    wf = r['wf']
    if not wf['sym']:
        return bad

    def want(what, exp, got):
        if got != {'ok': exp}:
            bad.append((what, exp, got))
    want('init', None, impl.get('init'))
    if bad:
        return bad
    want('num_symbols', ex['count'], impl.get('num'))
    want('iter_symbols', ex['symbols'], impl.get('symbols'))
    for q, eq, got in zip(c['queries'], ex['queries'], impl.get('byname', [])):
        exp = [ex['symbols'][i] for i in eq['byname']] or None
        want('get_symbol_by_name(%s)' % q, exp, got)
    for key in ('sysv', 'gnu'):
        if key in wf and wf[key]:
            want(key + '_init', None, impl.get(key + '_init'))
            want(key + '.get_number_of_symbols', ex['count'], impl.get(key + '_count'))
            for q, eq, got in zip(c['queries'], ex['queries'], impl.get(key, [])):
                cands = [ex['symbols'][i] for i in eq[key]]
                ok = ('ok' in got) and ((got['ok'] is None and not cands) or (got['ok'] is not None and got['ok'] in cands))
                if not ok:
                    bad.append(('%s.get_symbol(%s)' % (key, q), cands or None, got))
    if wf.get('shndx') and 'shndx' in ex:
        for n, got in zip(sg, impl.get('shndx', [])):
            want('get_section_index(%d)' % n, ex['shndx'][n], got)
    if wf.get('syminfo') and 'syminfo' in ex:
        want('syminfo.num_symbols', len(ex['syminfo']), impl.get('syminfo_num'))
        want('syminfo.iter_symbols', ex['syminfo'], impl.get('syminfo'))
    return bad


def as_str(x):
    """the model carries names as raw bytes; Python shows them through bytes.decode('utf-8', errors='replace')
    (CPython's codec is in the trusted base): apply it to the model's names before comparing"""
    if isinstance(x, dict):
        if set(x) == {'b'}:
            return {'b': bytes.fromhex(x['b']).decode('utf-8', errors='replace').encode('utf-8').hex()}
        return {k: as_str(v) for k, v in x.items()}
    if isinstance(x, list):
        return [as_str(v) for v in x]
    return x


def diff_model(impl, model):
    model = as_str(model)
    bad = []
    for k in sorted(set(impl) | set(model)):
        if impl.get(k) != model.get(k):
            a, b = impl.get(k), model.get(k)
            if isinstance(a, list) and isinstance(b, list) and len(a) == len(b):
                for i, (x, y) in enumerate(zip(a, b)):
                    if x != y:
                        bad.append(('%s[%d]' % (k, i), x, y))
                        break
            else:
                bad.append((k, a, b))
    return bad


def shndx_gets(c, r):
    n = r['n']
    return sorted({0, max(0, n - 1), n // 2}) if 'shndx' in r else []


def eval_case(ctx, case, r=None):
    """case = {'ast': request, 'mut': mutation or None}; returns (violations, info)"""
    c = case['ast']
    if r is None:
        r = ctx.driver.ask(c)
    if 'fatal' in r:
        raise RuntimeError('driver: %s' % r['fatal'])
    mut = case.get('mut')
    data, lay = build_file(c, r, mut)
    sg = shndx_gets(c, r) + ([r['n'], r['n'] + 7] if mut else [])
    m = ctx.driver.ask(model_request(c, data, lay, sg))
    if 'fatal' in m:
        raise RuntimeError('driver: %s' % m['fatal'])
    model = m['model']
    impl = impl_all(c, data, lay, sg, model)
    viol = []
    if not mut:
        for what, exp, got in check_property(c, r, impl, sg):
            viol.append(('property', what, exp, got))
    for what, a, b in diff_model(impl, model):
        viol.append(('correspondence', what, a, b))
    return viol, {'r': r, 'impl': impl, 'model': model}


def small(case):
    """the case as stored in a replay file"""
    return case


def record(ctx, stream, case, viol, nq):
    ctx.out.case({'case': json.dumps(case, sort_keys=True)[:20000]})
    ctx.out.evaluations += max(0, nq - 1)
    seen = set()
    for kind, what, exp, got in viol:
        if kind in seen:
            continue
        seen.add(kind)
        if kind == 'property':
            ctx.out.violation('property', stream, small(case), what=what, expect=exp, got=got)
        else:
            ctx.out.violation('correspondence', stream, small(case), what=what, got=exp, model=got)


def run_tab(ctx):
    rng = ctx.rng('tab')
    cases = [gen_case(ctx, rng) for _ in range(ctx.budget(260, 6000))]
    cases += [gen_case(ctx, rng, big=True) for _ in range(ctx.budget(3, 40))]
    for c in cases:
        r = ctx.driver.ask(c)           # one at a time: requests are large (pipe buffers)
        if 'fatal' in r:
            raise RuntimeError('driver: %s on %s' % (r['fatal'], json.dumps(c)[:300]))
        for k, v in r['wf'].items():
            ctx.out.count('tab:wf:%s:%s' % (k, v))
            if not v:
                # every generated table is in the quantifier's domain: the Spec builders must satisfy the Spec predicates
                raise RuntimeError('spec builder output fails its own well-formedness predicate %s on %s' % (k, json.dumps(c)[:400]))
        ctx.out.count('tab:n=%s' % (r['n'] if r['n'] < 8 else ('8-99' if r['n'] < 100 else '100+')))
        ctx.out.count('tab:cls%d:%s' % (c['cls'], 'le' if c['le'] else 'be'))
        case = {'ast': c, 'mut': None}
        viol, info = eval_case(ctx, case, r)
        nq = len(c['queries']) * (1 + ('sysv' in r) + ('gnu' in r)) + r['n']
        for key in ('sysv', 'gnu'):
            for q, eq in zip(c['queries'], r['expect']['queries']):
                if key in eq:
                    ctx.out.count('tab:%s:%s' % (key, 'hit' if eq[key] else 'miss'))
        record(ctx, 'tab', case, viol, nq)
        if ctx.time_left() < (15 if ctx.tier == 'quick' else 450):
            ctx.out.notes.append('tab: stopped early on the time budget')
            break


def gen_mut(rng, c, r):
    mut = {}
    k = rng.choice(['hashbytes', 'hashbytes', 'hashbytes', 'entsize', 'strtype', 'hashlink', 'trunc', 'cut', 'strnul', 'symbytes', 'entsize2'])
    secs = [s for s in ('sysv', 'gnu') if s in r]
    if k == 'hashbytes' and secs:
        s = rng.choice(secs)
        ln = len(r[s]) // 2
        mut['bytes'] = [[s, rng.randrange(0, max(1, ln)), rng.choice([0, 1, 2, 0xff, rng.randrange(256)])] for _ in range(rng.choice([1, 1, 2, 4]))]
    elif k == 'entsize':
        mut['entsize'] = rng.choice([0, 1, r['entsize'] - 1, r['entsize'] + 1, 2 * r['entsize'], 7])
    elif k == 'entsize2':
        mut['shndx_entsize'] = rng.choice([0, 1, 8])
        mut['syminfo_entsize'] = rng.choice([0, 1, 3, 8])
    elif k == 'strtype':
        mut['strtype'] = 'SHT_PROGBITS'
    elif k == 'hashlink':
        mut['hashlink'] = rng.choice([1, 0, 1])
    elif k == 'trunc':
        s = rng.choice([x for x in ('symtab', 'strtab', 'sysv', 'gnu', 'shndx', 'syminfo') if x in r])
        mut['trunc'] = {s: rng.randrange(0, max(1, len(r[s]) // 2))}
    elif k == 'cut':
        mut['symsize'] = rng.choice([1, 2, 5, 1000, 100000]) * max(1, r['entsize']) + rng.choice([0, 0, 1])
    elif k == 'strnul':
        ln = len(r['strtab']) // 2
        mut['bytes'] = [['strtab', ln - 1, 0x41]] + [['strtab', rng.randrange(0, ln), rng.choice([0, 0x41, 0xff, 0xc3])] for _ in range(2)]
    else:
        ln = len(r['symtab']) // 2
        mut['bytes'] = [['symtab', rng.randrange(0, max(1, ln)), rng.randrange(256)] for _ in range(3)]
    return mut or {'entsize': 0}


def utf8_ok(r, mut):
    """the model represents str names by their bytes: set aside files whose string table stops being valid UTF-8"""
    tab = bytearray.fromhex(r['strtab'])
    for sec, off, val in mut.get('bytes', []):
        if sec == 'strtab' and off < len(tab):
            tab[off] = val
    for s, ln in mut.get('trunc', {}).items():
        if s == 'strtab':
            tab = tab[:ln]
    try:
        for piece in bytes(tab).split(b'\0'):
            piece.decode('utf-8')
        return True
    except UnicodeDecodeError:
        return False


def run_raw(ctx):
    rng = ctx.rng('raw')
    for _ in range(ctx.budget(220, 5000)):
        c = gen_case(ctx, rng)
        if len(c['syms']) > 20:
            c['syms'] = c['syms'][:20]
            c.pop('shndx', None); c.pop('syminfo', None)
            if 'gnu' in c:
                c['gnu']['symoffset'] = min(c['gnu']['symoffset'], 20)
        r = ctx.driver.ask(c)
        if 'fatal' in r:
            raise RuntimeError('driver: %s' % r['fatal'])
        mut = gen_mut(rng, c, r)
        ctx.out.count('raw:' + '+'.join(sorted(mut)))
        if not r['wf']['sym']:
            ctx.out.count('raw:aside')
            continue
        if not utf8_ok(r, mut):
            ctx.out.count('raw:non-utf8-strtab')
        case = {'ast': c, 'mut': mut}
        try:
            viol, info = eval_case(ctx, case, r)
        except Exception as e:          # ELFFile itself may reject a cut file: not this property's business
            from elftools.common.exceptions import ELFError
            if isinstance(e, (ELFError, TypeError)):
                ctx.out.count('raw:container-rejected')
                continue
            raise
        for k, v in info['model'].items():
            if isinstance(v, dict) and 'err' in v:
                ctx.out.count('raw:err:%s:%s' % (k, v['err']))
            elif isinstance(v, list):
                for x in v:
                    if isinstance(x, dict) and 'err' in x:
                        ctx.out.count('raw:err:%s[]:%s' % (k, x['err']))
        record(ctx, 'raw', case, [v for v in viol if v[0] == 'correspondence'], len(c['queries']))
        if ctx.time_left() < 3:
            break


def hash_names(ctx, rng):
    names = [b'', b'a', b'\x0f' * 7 + b'A', b'\x0f' * 7 + b'\x10', b'\x0f' * 7 + b'\x7f' + b'zz', b'\xff' * 9, b'printf', b'bB', b'c!']
    for _ in range(ctx.budget(1500, 60000)):
        r = rng.random()
        if r < 0.5:
            names.append(rnd_name(rng))
        elif r < 0.8:
            names.append(rnd_bytes(rng, rng.choice([1, 2, 6, 7, 8, 9, 16, 33, 100])))
        else:
            names.append(bytes(rng.choice([0x0f, 0xff, 0xf0, 0x7f, 0x80, 0x10]) for _ in range(rng.randrange(1, 20))))
    return names


def run_hash(ctx):
    from elftools.elf.hash import ELFHashTable, GNUHashTable
    rng = ctx.rng('hash')
    names = hash_names(ctx, rng)
    replies = ctx.driver.ask_many([{'p': 'C03', 'k': 'hash', 'name': hx(n)} for n in names])
    for n, r in zip(names, replies):
        if 'fatal' in r:
            raise RuntimeError('driver: %s' % r['fatal'])
        case = {'name': hx(n)}
        ctx.out.case(case)
        ctx.out.count('hash')
        e, g = ELFHashTable.elf_hash(n), GNUHashTable.gnu_hash(n)
        if (e, g) != (r['elf_expect'], r['gnu_expect']):
            ctx.out.violation('property', 'hash', case, expect=[r['elf_expect'], r['gnu_expect']], got=[e, g])
        elif (e, g) != (r['elf_model'], r['gnu_model']):
            ctx.out.violation('correspondence', 'hash', case, got=[e, g], model=[r['elf_model'], r['gnu_model']])


def run(ctx):
    run_hash(ctx)
    run_tab(ctx)
    run_raw(ctx)


def replay(ctx, payload):
    v = payload['violation']
    case = v['case']
    res = {'stream': v['stream']}
    if v['stream'] == 'hash':
        from elftools.elf.hash import ELFHashTable, GNUHashTable
        n = bytes.fromhex(case['name'])
        r = ctx.driver.ask({'p': 'C03', 'k': 'hash', 'name': case['name']})
        got = [ELFHashTable.elf_hash(n), GNUHashTable.gnu_hash(n)]
        res.update(impl=got, expect=[r['elf_expect'], r['gnu_expect']], model=[r['elf_model'], r['gnu_model']],
                   fails=(got != [r['elf_expect'], r['gnu_expect']]))
        return res
    viol, info = eval_case(ctx, case)
    prop = [x for x in viol if x[0] == 'property']
    res.update(violations=[{'kind': k, 'what': w, 'expect_or_impl': a, 'got_or_model': b} for k, w, a, b in viol[:5]],
               fails=bool(prop) if v['kind'] == 'property' else bool(viol))
    return res


FINDINGS = {}
